(* AdfAlloc.v -- executable model of the ADF on-disk FREE-SPACE MANAGER (property C02, extension C02d).
   Definitions only.

   Transcribed from src/adf/ADF_internals.c of /repo 9c3a177 (routines are found by name):
     ADFI_file_malloc                      (4331-4526)   -- NOTE: its whole free-list search, lines 4357-4468, is inside
                                                            "#if 0 ... #endif" ("skip this, and just write to end of file");
                                                            what is compiled is [malloc] below; the disabled text is
                                                            transcribed as [malloc_search] (second part of this file)
     ADFI_file_free                        (4033-4314)   -- from the point where number_of_bytes is known
     ADFI_fill_initial_file_header         (4666-4672)   -- end_of_file of a new file
     ADFI_fill_initial_free_chunk_table    (4688-4712)   -- three empty lists
     ADFI_adjust_disk_pointer              (847-875)
   and the constants of ADF_internals.h (32-66).

   ADDRESSES.  A DISK_POINTER is (block, offset) with 0 <= offset < 4096 after ADFI_adjust_disk_pointer, which the
   allocator applies after every arithmetic step; here a pointer is the flat address  block * 4096 + offset  (a Z),
   [blk a] = a / 4096 and [off a] = a mod 4096 give the two C fields back, and adjusting is the identity.  The one
   non-normalised pointer of the C code, the blank pointer (0, 4096), is [None].
   end_of_file is, as in the file header, the address of the LAST BYTE USED (not the next one to use).

   C TYPES.  size_bytes / number_of_bytes are cglong_t (signed 64 bit), block and offset cgulong_t (unsigned 64 bit);
   ADFI_delete_sub_node_table computes its byte count in an unsigned int.  The model computes in Z: it is the C code
   as long as no 64-bit quantity wraps, i.e. for 0 < size and size, end_of_file < 2^62 ([in_c_range]; checked on every
   replayed call), and sub-node tables of fewer than 97 612 893 entries (2^32 / 44).

   STATE.  What the allocator keeps in the file: end_of_file (file header) and the three singly linked lists of the
   free-chunk table (first_block, last_block, and in every free chunk the address of its end tag and next_chunk).  A
   list is kept here as the list of (start, end_of_chunk_tag) in LINK ORDER (head = first_block) plus last_block.
   Three ghost components, which the C code does not have, are carried along for the theorems and the trace monitor:
   [live] = the allocations handed out and not yet freed, [dead] = the ranges abandoned for good ('z'-filled),
   [lost] = the tails of allocations that were handed back SHORTER than they were allocated (ADF_Write_All_Data
   rewrites the boundary tags of a node's only data chunk for the new, smaller byte count; ADFI_file_free later reads
   the size from those tags): bytes that are neither in use, nor on a free list, nor 'z'. *)
From Coq Require Import ZArith List Bool Lia.
Import ListNotations.
Local Open Scope Z_scope.

Definition BLK : Z := 4096.                              (* DISK_BLOCK_SIZE *)
Definition FILE_HEADER_SIZE : Z := 186.
Definition FREE_CHUNK_TABLE_SIZE : Z := 80.
Definition NODE_HEADER_SIZE : Z := 246.
Definition TAG_SIZE : Z := 4.
Definition DISK_POINTER_SIZE : Z := 12.
Definition SMALLEST_CHUNK_SIZE : Z := NODE_HEADER_SIZE.
Definition SMALL_CHUNK_MAXIMUM : Z := 1024.
Definition MEDIUM_CHUNK_MAXIMUM : Z := BLK.
(* file header + free-chunk table + root node: never allocated, never freed (FREE_OF_ROOT_NODE, FREE_OF_FREE_CHUNK_TABLE) *)
Definition HDR : Z := FILE_HEADER_SIZE + FREE_CHUNK_TABLE_SIZE + NODE_HEADER_SIZE.

Definition blk (a : Z) : Z := a / BLK.
Definition off (a : Z) : Z := a mod BLK.

Definition chunk := (Z * Z)%type.          (* a free chunk: (start, address of its end_of_chunk_tag) *)
Definition region := (Z * Z)%type.         (* (start, number of bytes) *)

Record flist := mkFl { fl_chunks : list chunk; fl_last : option Z }.
Definition fl_empty : flist := mkFl [] None.

Record st := mkSt {
  eof : Z;
  small : flist; medium : flist; large : flist;
  live : list region; dead : list region; lost : list region        (* ghost *)
}.

(* ADFI_fill_initial_file_header: end_of_file = ROOT_NODE_OFFSET + NODE_HEADER_SIZE - 1 in block 0 *)
Definition init_st : st := mkSt (HDR - 1) fl_empty fl_empty fl_empty [] [] [].

Definition in_c_range (s : st) (n : Z) : bool := (0 <? n) && (n <? 2 ^ 62) && (0 <=? eof s) && (eof s <? 2 ^ 62).

(* ------------------------------------------------------------------ ADFI_file_free *)
(* insertion at the head; "If linked-list was empty, also point to this as the last" *)
Definition push (f : flist) (p e : Z) : flist :=
  mkFl ((p, e) :: fl_chunks f) (match fl_chunks f with [] => Some p | _ :: _ => fl_last f end).

Inductive class := CDead | CSmall | CMedium | CLarge.

(*  if( number_of_bytes <= SMALLEST_CHUNK_SIZE )  'z'
    else if( block_offset->block == end_of_chunk_tag.block )
            if( end_of_chunk_tag.offset + TAG_SIZE - block_offset->offset <= SMALL_CHUNK_MAXIMUM ) SMALL else MEDIUM
         else LARGE                      with end_of_chunk_tag = adjust( offset + number_of_bytes - TAG_SIZE ) *)
Definition classify (p n : Z) : class :=
  if n <=? SMALLEST_CHUNK_SIZE then CDead
  else let e := p + n - TAG_SIZE in
       if blk p =? blk e then
         if off e + TAG_SIZE - off p <=? SMALL_CHUNK_MAXIMUM then CSmall else CMedium
       else CLarge.

(* the live allocation that starts at p, and the others *)
Fixpoint take_live (p : Z) (l : list region) : option (region * list region) :=
  match l with
  | [] => None
  | x :: t => if fst x =? p then Some (x, t)
              else match take_live p t with Some (r, t') => Some (r, x :: t') | None => None end
  end.

(* what the C routine does to the file (lists / dead space); [live] is untouched *)
Definition free_raw (s : st) (p n : Z) : st :=
  let e := p + n - TAG_SIZE in
  match classify p n with
  | CDead   => mkSt (eof s) (small s) (medium s) (large s) (live s) ((p, n) :: dead s) (lost s)
  | CSmall  => mkSt (eof s) (push (small s) p e) (medium s) (large s) (live s) (dead s) (lost s)
  | CMedium => mkSt (eof s) (small s) (push (medium s) p e) (large s) (live s) (dead s) (lost s)
  | CLarge  => mkSt (eof s) (small s) (medium s) (push (large s) p e) (live s) (dead s) (lost s)
  end.

(* ghost: the allocation that starts at p leaves [live]; what it had beyond the n bytes handed back is [lost] *)
Definition forget (s : st) (p n : Z) : st :=
  match take_live p (live s) with
  | Some (r, l') =>
      mkSt (eof s) (small s) (medium s) (large s) l' (dead s)
           (if n <? snd r then (p + n, snd r - n) :: lost s else lost s)
  | None => s
  end.

(* a caller's free: the C routine + the ghost bookkeeping *)
Definition free (s : st) (p n : Z) : st := free_raw (forget s p n) p n.

(* ------------------------------------------------------------------ ADFI_file_malloc as compiled *)
Definition set_eof (s : st) (e : Z) : st := mkSt e (small s) (medium s) (large s) (live s) (dead s) (lost s).
Definition add_live (s : st) (p n : Z) : st :=
  mkSt (eof s) (small s) (medium s) (large s) ((p, n) :: live s) (dead s) (lost s).

(* the three arms of "Append memory at end of file"; the second component says which arm was taken and what was
   freed on the way (0 = the end of file was the last byte of a block, 1 = rest of the block freed, 2 = remaining block
   used) *)
Definition append (s : st) (n : Z) : st * Z * Z :=
  let e := eof s in
  if off e =? BLK - 1 then
    let p := (blk e + 1) * BLK in
    (add_live (set_eof s (p + n - 1)) p n, p, 0)
  else if (off e + n >=? BLK) && (n <=? BLK) then
    let g := e + 1 in                                     (* file_header.end_of_file.offset++ *)
    let s1 := free_raw s g (BLK - off g) in               (* ADFI_file_free( ..., DISK_BLOCK_SIZE - offset ) *)
    let p := (blk e + 1) * BLK in
    (add_live (set_eof s1 (p + n - 1)) p n, p, 1)
  else
    let p := e + 1 in
    (add_live (set_eof s (e + n)) p n, p, 2).

Definition malloc (s : st) (n : Z) : st * Z := let '(s', p, _) := append s n in (s', p).
Definition malloc_arm (s : st) (n : Z) : Z := let '(_, _, a) := append s n in a.
(* the region ADFI_file_malloc frees on its way (block rule), if any *)
Definition malloc_gap (s : st) (n : Z) : option region :=
  if malloc_arm s n =? 1 then Some (eof s + 1, BLK - off (eof s + 1)) else None.

(* ------------------------------------------------------------------ histories *)
Inductive op := OMalloc (n : Z) | OFree (p n : Z).

Definition step (s : st) (o : op) : st :=
  match o with
  | OMalloc n => fst (malloc s n)
  | OFree p n => free s p n
  end.

(* what callers must respect: a positive size; a free hands back a live allocation from its first byte, at most as
   many bytes as were allocated ([exact_step]: exactly as many) *)
Definition ok_step (s : st) (o : op) : bool :=
  match o with
  | OMalloc n => 0 <? n
  | OFree p n => match take_live p (live s) with Some (r, _) => (0 <? n) && (n <=? snd r) | None => false end
  end.
Definition exact_step (s : st) (o : op) : bool :=
  match o with
  | OMalloc n => 0 <? n
  | OFree p n => match take_live p (live s) with Some (r, _) => (0 <? n) && (n =? snd r) | None => false end
  end.

Fixpoint run (s : st) (h : list op) : st :=
  match h with [] => s | o :: t => run (step s o) t end.
Fixpoint ok_hist (s : st) (h : list op) : bool :=
  match h with [] => true | o :: t => ok_step s o && ok_hist (step s o) t end.
Fixpoint exact_hist (s : st) (h : list op) : bool :=
  match h with [] => true | o :: t => exact_step s o && exact_hist (step s o) t end.
(* the positions the mallocs of a history return *)
Fixpoint positions (s : st) (h : list op) : list Z :=
  match h with
  | [] => []
  | OMalloc n :: t => snd (malloc s n) :: positions (step s (OMalloc n)) t
  | o :: t => positions (step s o) t
  end.

(* ------------------------------------------------------------------ observations *)
Definition chunk_region (c : chunk) : region := (fst c, snd c + TAG_SIZE - fst c).
Definition fl_regions (f : flist) : list region := map chunk_region (fl_chunks f).
Definition free_regions (s : st) : list region := fl_regions (small s) ++ fl_regions (medium s) ++ fl_regions (large s).
Definition regions (s : st) : list region := live s ++ free_regions s ++ dead s ++ lost s.
Definition total (l : list region) : Z := fold_right (fun r a => snd r + a) 0 l.
Definition n_entries (f : flist) : nat := length (fl_chunks f).
Definition last_start (l : list chunk) : option Z :=
  match rev l with [] => None | c :: _ => Some (fst c) end.

(* ================================================================== the disabled free-list search
   Text of ADFI_file_malloc between "#if 0" and "#endif" (4357-4468), NOT compiled into the library.  It is
   transcribed so that what it would do is on record next to what is compiled ([malloc_search] is what
   ADFI_file_malloc would be with the "#if 0" removed); the tie to the source for it is a variant build
   (checks/C02d.py, "search" leg). *)

(* the while loop over one list: first chunk whose size reaches n; returns (chunk, previous_disk_pointer, list without it) *)
Fixpoint find_fit (n : Z) (prev : option Z) (l : list chunk) : option (chunk * option Z * list chunk) :=
  match l with
  | [] => None
  | c :: t =>
      if snd c + TAG_SIZE - fst c >=? n then Some (c, prev, t)
      else match find_fit n (Some (fst c)) t with
           | Some (c', pv, t') => Some (c', pv, c :: t')
           | None => None
           end
  end.

(* unlink: previous.next_chunk := next or first_block := next; last_block := previous (or blank) if it was the last *)
Definition fl_take (n : Z) (f : flist) : option (chunk * flist) :=
  match find_fit n None (fl_chunks f) with
  | None => None
  | Some (c, pv, l') =>
      Some (c, mkFl l' (match fl_last f with
                        | Some a => if a =? fst c then pv else fl_last f
                        | None => None
                        end))
  end.

Definition set_lists (s : st) (sm me la : flist) : st := mkSt (eof s) sm me la (live s) (dead s) (lost s).

(* the remainder goes back through ADFI_file_free *)
Definition carve (s : st) (c : chunk) (n : Z) : st * Z :=
  let p := fst c in
  let rest := snd c + TAG_SIZE - p - n in
  let s1 := if 0 <? rest then free_raw s (p + n) rest else s in
  (add_live s1 p n, p).

Definition malloc_search (s : st) (n : Z) : st * Z :=
  if n <=? SMALLEST_CHUNK_SIZE then malloc s n
  else
    match (if n <=? SMALL_CHUNK_MAXIMUM then fl_take n (small s) else None) with
    | Some (c, f') => carve (set_lists s f' (medium s) (large s)) c n
    | None =>
      match (if n <=? MEDIUM_CHUNK_MAXIMUM then fl_take n (medium s) else None) with
      | Some (c, f') => carve (set_lists s (small s) f' (large s)) c n
      | None =>
        match fl_take n (large s) with
        | Some (c, f') => carve (set_lists s (small s) (medium s) f') c n
        | None => malloc s n
        end
      end
    end.

Definition step_search (s : st) (o : op) : st :=
  match o with
  | OMalloc n => fst (malloc_search s n)
  | OFree p n => free s p n
  end.
Fixpoint run_search (s : st) (h : list op) : st :=
  match h with [] => s | o :: t => run_search (step_search s o) t end.
Fixpoint ok_hist_search (s : st) (h : list op) : bool :=
  match h with [] => true | o :: t => ok_step s o && ok_hist_search (step_search s o) t end.
