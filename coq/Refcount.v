(* Refcount.v -- executable transcription of the bookkeeping that decides which files, descriptors and handle-table
   slots the library holds (property C17).  Definitions only.

   Part 1  ADF file table, src/adf/ADF_internals.c (line numbers of /repo at fff8c32):
             ADFI_open_file (5477)  ADFI_get_file_index_from_name (4909)  ADFI_link_add (1418)
             the link step of ADFI_chase_link (1469) with its one-entry cache   ADFI_close_file (1775)
           and src/adf/ADF_interface.c: ADF_Database_Open (the READ_ONLY / OLD arms and Open_Error), ADF_Database_Close.
   Part 2  cgio handle table, src/cgns_io.c: cgio_open_file (745), cgio_close_file (850), get_cgnsio.
   Part 3  MLL file table, src/cgnslib.c: cg_open (496) / cgi_open_body (521), cg_close (841), cgi_get_file.

   What is modelled: reference counts (in_use), link lists (links[] / nlinks), slot allocation and reuse, table growth and
   release, file names (as numbers), the one-entry link cache of ADFI_chase_link, and a LEDGER = the multiset of descriptors the ADF layer holds open (one entry, the
   file's name, per successful open(); removed by the close() of that slot).  What is not: file contents (the world says
   which names exist, of which kind, and which link nodes each file contains), I/O failures, malloc failures, HDF5.

   ADFI_close_file is recursive; it is rendered as its call stack run by a step function (cm_step): frame FEnter i is the
   entry of ADFI_close_file(i), frame FLoop i k is the same activation standing at iteration k of
   "for (index = 0; index < ADF_file[i].nlinks; index++) ADFI_close_file(ADF_file[i].links[index], error_return)".
   nlinks and links[] are read from the LIVE table at every iteration, as in the C.  Running out of fuel is the
   distinguished outcome None (the C: unbounded recursion).

   Two variants.  Cur = THE CODE AS IT IS NOW (/repo since 909ac4d: the loop over links[] sits inside
   "if (index == 0)").  Old = the code before 909ac4d (links[] closed at EVERY close of the linking file), kept so that the
   theorems of Properties_C17.v that end in _old_refuted keep documenting, machine-checked, why it was changed; the check
   runs the Cur variant against the library.  Likewise MCur = cg_open since def473d (a failure behind cgio_open_file
   releases the cgio file and the table entry) and cg_close / cg_open since ecfdd66 (file_number_offset += n_cgns_files),
   MOld = both before (nothing undone; file_number_offset = n_cgns_files).  At the cgio level Cur also stands for
   get_cgnsio since 137980e (a closed slot is refused by the getter, CGIO_ERR_BAD_CGIO), Old for the range-only getter.
   Error codes: 0 stands for NO_ERROR (-1 in ADF.h); the others are the ADF.h numbers. *)
From Coq Require Import Arith List Bool Lia.
From CgnsV Require Import Fuel ListX.
Import ListNotations.

(* ------------------------------------------------------------------------------------------------ the world *)
Inductive kind :=
| KOk         (* a valid ADF file; its node /D holds the link nodes listed in wlinks *)
| KMissing    (* no such file *)
| KGarbage    (* a regular file that is neither ADF nor HDF5 (rejected by cgio_check_file) *)
| KBadHdr (code : nat)
              (* starts with the ADF signature (cgio_check_file says ADF) and ADF_Database_Open, AFTER ADFI_open_file opened it,
                 refuses it with ADF error `code` through one of its Open_Error exits: header unreadable or too short, boundary
                 tags damaged, major revision letter unknown, pre-numbering what-string, minor revision unparsable or newer than
                 the library's, root pointer out of range, format letters undefined, type sizes that do not fit the format *)
| KDir.       (* a directory: rejected by cgio_check_file; at the ADF level open(O_RDONLY) succeeds, open(O_RDWR) fails *)

(* wlinks: file a has, under /D, a link node L<b> to F<b>:/D (the path exists in every valid file);
   wdlinks: file a has a link node X<b> to F<b>:/Nope -- the FILE may exist, the stored PATH never does (dangling path) *)
(* the per-file attributes ADF keeps in ADF_file[i] next to the bookkeeping: old_version (1 = the "ADF Database Version A"
   layout: ASCII-hex disk pointers, 32-bit dimensions), format and os_size (the two letters at header bytes 100 / 101),
   link_separator, version_update[0] != 0.  Letters are their ASCII codes. *)
Record fattr := mkfattr { a_old : bool; a_fmt : nat; a_os : nat; a_sep : nat; a_vupd : bool }.
(* what ADFI_open_file assigns before it looks at the file: version_update[0] = 0; format = os_size = UNDEFINED_FORMAT (0);
   link_separator = '>' (62); old_version = 0 *)
Definition init_attr : fattr := mkfattr false 0 0 62 false.
(* a slot of the calloc'ed table that has never been used *)
Definition zero_attr : fattr := mkfattr false 0 0 0 false.

(* how a valid ADF file was created (format argument of ADF_Database_Open "NEW"); what its header says on this machine
   (little endian, 64 bit): NATIVE 'L' 'B', IEEE_BIG 'B' 'L', IEEE_LITTLE 'L' 'L', LEGACY 'L' 'B' with what[25] = 'A' *)
Inductive layout := LNative | LBig | LLittle | LLegacy.
Definition layout_attr (l : layout) : fattr :=
  match l with
  | LNative => mkfattr false 76 66 62 false
  | LBig => mkfattr false 66 76 62 false
  | LLittle => mkfattr false 76 76 62 false
  | LLegacy => mkfattr true 76 66 62 false
  end.

Record world := mkW { kinds : list kind; wlinks : list (nat * nat); wdlinks : list (nat * nat); layouts : list layout }.
Definition kind_of (w : world) (n : nat) : kind := nth n (kinds w) KMissing.
(* the attributes a file's OWN header determines *)
Definition file_attr (w : world) (n : nat) : fattr := layout_attr (nth n (layouts w) LNative).
Definition has_link (w : world) (a b : nat) : bool :=
  existsb (fun p => Nat.eqb (fst p) a && Nat.eqb (snd p) b) (wlinks w).
Definition has_dlink (w : world) (a b : nat) : bool :=
  existsb (fun p => Nat.eqb (fst p) a && Nat.eqb (snd p) b) (wdlinks w).
(* a link node of either sort from a file named a to a file named b *)
Definition has_any_link (w : world) (a b : nat) : bool := has_link w a b || has_dlink w a b.

(* ------------------------------------------------------------------------------------------------ ADF_file[] *)
Record slot := mkslot { in_use : nat; fd_open : bool; fname : option nat; links : list nat }.
Definition free_slot : slot := mkslot 0 false None [].
(* tab = ADF_file[0 .. maximum_files) ; ledger = names of the descriptors currently open ;
   lcache = the one-entry cache of ADFI_chase_link (last_link_ID, last_link_LID): Some (c, n, li) = "the link node L<n> of
   the file in slot c resolves into the file in slot li" ;
   amem = the attribute bytes of every entry of ADF_file[] (same length as tab), WHETHER THE ENTRY IS IN USE OR NOT: a close
   does not touch them, so a closed entry keeps the attributes of its last occupant until ADFI_open_file reassigns them *)
Record adf := mkadf { tab : list slot; ledger : list nat; lcache : option (nat * nat * nat); amem : list fattr }.
Definition attr_at (a : adf) (i : nat) : fattr := nth i (amem a) zero_attr.
Definition slot_at (a : adf) (i : nat) : slot := nth i (tab a) free_slot.
Definition set_slot (a : adf) (i : nat) (s : slot) : adf := mkadf (upd (tab a) i s) (ledger a) (lcache a) (amem a).
Definition set_cache (a : adf) (c : option (nat * nat * nat)) : adf := mkadf (tab a) (ledger a) c (amem a).
Definition set_in_use (a : adf) (i n : nat) : adf :=
  let s := slot_at a i in set_slot a i (mkslot n (fd_open s) (fname s) (links s)).

Fixpoint rem1 (n : nat) (l : list nat) : list nat :=
  match l with [] => [] | x :: r => if Nat.eqb x n then r else x :: rem1 n r end.

Definition ADF_FILE_INC : nat := 5.
Definition MAXIMUM_FILES : nat := 4095.
Definition ADF_FILE_NOT_OPENED : nat := 9.
Definition FILE_INDEX_OUT_OF_RANGE : nat := 10.

(* for( index=0; index<maximum_files; index++ ) if( ADF_file[index].in_use == 0 ) break ; *)
Fixpoint find_free (t : list slot) : nat :=
  match t with [] => 0 | s :: r => if Nat.eqb (in_use s) 0 then 0 else S (find_free r) end.

(* the assignments ADFI_open_file makes to the entry it has chosen -- EVERY attribute is assigned, whatever the entry held *)
Definition reset_attr (_ : fattr) : fattr := init_attr.
(* "if (102 == READ(f_ret, header_data, 102)) { if (header_data[25] != 'B') old_version = 1; format = header_data[100];
   os_size = header_data[101]; }"  -- old_version is only ever SET here, never cleared: the reset above is what separates
   the new occupant from the previous one.  hdr = what the file's header says (None: shorter than 102 bytes) *)
Definition read_header (hdr : option fattr) (x : fattr) : fattr :=
  match hdr with
  | Some h => mkfattr (a_old h || a_old x) (a_fmt h) (a_os h) (a_sep x) (a_vupd x)
  | None => x
  end.

(* ADFI_open_file; os_ok = the open() system call succeeds.  Returns the new table and the index (None = error). *)
Definition adfi_open_file (a : adf) (n : nat) (hdr : option fattr) (os_ok : bool) : adf * option nat :=
  let i := find_free (tab a) in
  let grow := negb (i <? length (tab a)) in
  let t1 := if grow then tab a ++ repeat free_slot ADF_FILE_INC else tab a in
  let m1 := if grow then amem a ++ repeat zero_attr ADF_FILE_INC else amem a in          (* calloc + memcpy *)
  (* the first table is being allocated: ADFI_stack_control(INIT_STK) also forgets the link cache *)
  let c1 := match tab a with [] => None | _ => lcache a end in
  if MAXIMUM_FILES <? i then (mkadf t1 (ledger a) c1 m1, None)                    (* TOO_MANY_ADF_FILES_OPENED *)
  else
    let at0 := reset_attr (nth i m1 zero_attr) in
    if os_ok then (mkadf (upd t1 i (mkslot 1 true (Some n) [])) (n :: ledger a) c1 (upd m1 i (read_header hdr at0)), Some i)
    else (mkadf (upd t1 i free_slot) (ledger a) c1 (upd m1 i at0), None).            (* Error_Exit *)

(* ---- ADFI_close_file as a stack machine ---------------------------------------------------------------- *)
Inductive variant := Old | Cur.
Inductive frame := FEnter (i : nat) | FLoop (i k : nat).
Record cm := mkcm { cm_a : adf; cm_stk : list frame; cm_err : nat }.

(* the block under "if ( index == 0)": CLOSE the descriptor, ADFI_stack_control(CLEAR_STK) (which also forgets the link
   cache), free links[] and file_name *)
Definition really_close (a : adf) (i : nat) : adf :=
  let s := slot_at a i in
  mkadf (upd (tab a) i free_slot)
        (if fd_open s then match fname s with Some n => rem1 n (ledger a) | None => ledger a end else ledger a)
        None (amem a).

(* "if no more files open, free data structure": free (ADF_file); maximum_files = 0; *)
Definition free_if_idle (a : adf) : adf :=
  if forallb (fun s => Nat.eqb (in_use s) 0) (tab a) then mkadf [] (ledger a) (lcache a) [] else a.

Definition cm_step (v : variant) (m : cm) : cm + (adf * nat) :=
  let a := cm_a m in
  match cm_stk m with
  | [] => inr (a, cm_err m)
  | FEnter i :: rest =>
      if (length (tab a) <=? i) || Nat.eqb (in_use (slot_at a i)) 0
      then inl (mkcm a rest ADF_FILE_NOT_OPENED)
      else match v with
           | Old => inl (mkcm a (FLoop i 0 :: rest) 0)
           | Cur => if Nat.eqb (in_use (slot_at a i)) 1
                     then inl (mkcm a (FLoop i 0 :: rest) 0)
                     else inl (mkcm (free_if_idle (set_in_use a i (in_use (slot_at a i) - 1))) rest 0)
           end
  | FLoop i k :: rest =>
      let s := slot_at a i in
      if k <? length (links s)
      then inl (mkcm a (FEnter (nth k (links s) 0) :: FLoop i (S k) :: rest) (cm_err m))
      else if Nat.eqb (in_use s) 0
      then inl m          (* in_use - 1 would be -1: only reachable after a re-entrant activation of the same slot has
                             finished, and a re-entrant activation repeats the path that led to it without changing the
                             table, i.e. never finishes.  Rendered as "no progress" = out of fuel. *)
      else let idx := in_use s - 1 in
           if Nat.eqb idx 0
           then inl (mkcm (free_if_idle (really_close a i)) rest (if fd_open s then 0 else cm_err m))
           else inl (mkcm (free_if_idle (set_in_use a i idx)) rest (cm_err m))
  end.

Definition adfi_close_file (v : variant) (fuel : nat) (a : adf) (i : nat) : option (adf * nat) :=
  match loopN (cm_step v) fuel (mkcm a [FEnter i] 0) with
  | inr r => Some r
  | inl _ => None
  end.

(* ---- ADF_Database_Open (status READ_ONLY: rw = false, OLD: rw = true) ---------------------------------- *)
Definition os_open_ok (k : kind) (rw : bool) : bool :=
  match k with KMissing => false | KDir => negb rw | _ => true end.
Definition header_ok (k : kind) : bool := match k with KOk => true | _ => false end.

Definition adf_database_open (v : variant) (fuel : nat) (w : world) (a : adf) (n : nat) (rw : bool)
  : option (adf * option nat) :=
  match kind_of w n with
  | KMissing => Some (a, None)                                   (* ACCESS fails: REQUESTED_OLD_FILE_NOT_FOUND *)
  | k => let '(a1, oi) := adfi_open_file a n (if header_ok k then Some (file_attr w n) else None) (os_open_ok k rw) in
         match oi with
         | None => Some (a1, None)
         | Some i => if header_ok k then Some (a1, Some i)
                     else match adfi_close_file v fuel a1 i with            (* Open_Error: *)
                          | None => None
                          | Some (a2, _) => Some (a2, None)
                          end
         end
  end.

(* ---- ADFI_get_file_index_from_name --------------------------------------------------------------------- *)
Fixpoint find_name (t : list slot) (n : nat) : option nat :=
  match t with
  | [] => None
  | s :: r => if negb (Nat.eqb (in_use s) 0) && match fname s with Some m => Nat.eqb m n | None => false end
              then Some 0 else option_map S (find_name r n)
  end.

(* ---- ADFI_link_add --------------------------------------------------------------------------------------- *)
Definition link_add (a : adf) (fi li : nat) (found : bool) : adf :=
  if Nat.eqb fi li then a else
  let s := slot_at a fi in
  if existsb (Nat.eqb li) (links s) then a else
  let a1 := set_slot a fi (mkslot (in_use s) (fd_open s) (fname s) (links s ++ [li])) in
  if found then set_in_use a1 li (in_use (slot_at a1 li) + 1) else a1.

(* ---- one link of ADFI_chase_link: the node is the link L<n> (dang = false) or X<n> (dang = true: its stored path does
   not exist in F<n>) under /D of the file in slot cur.  The order is the one of the C: locate the file
   (ADFI_find_file), find it among the open files or open it (ADFI_link_open), ADFI_link_add, and ONLY THEN look the stored
   path up in it (ADF_Get_Node_ID -> LINK_TARGET_NOT_THERE for a dangling path): when the path is missing the file stays
   open, but owned by links[] of the referencing file.  The cache is written only when the whole chase succeeded.
   result None = an error was returned (the table may have changed), Some li = the file index now holding F<n> *)
Definition chase (v : variant) (fuel : nat) (w : world) (a : adf) (cur n : nat) (dang : bool) : option (adf * option nat) :=
  let s := slot_at a cur in
  if (length (tab a) <=? cur) || Nat.eqb (in_use s) 0 then Some (a, None) else      (* ADF_FILE_NOT_OPENED *)
  match fname s with
  | None => Some (a, None)
  | Some nm =>
    if negb (if dang then has_dlink w nm n else has_link w nm n) then Some (a, None) else   (* CHILD_NOT_OF_GIVEN_PARENT *)
    let hit := match lcache a with
               | Some (c, m, li) => if Nat.eqb c cur && Nat.eqb m n && negb dang then Some li else None
               | None => None
               end in
    match hit with
    | Some li =>                                         (* if (ID == last_link_ID): no search, no open, no link_add *)
        if (length (tab a) <=? li) || Nat.eqb (in_use (slot_at a li)) 0 then Some (a, None) else Some (a, Some li)
    | None =>
    match kind_of w n with
    | KOk | KBadHdr _ =>                                            (* ADFI_find_file: cgio_check_file says ADF *)
        match find_name (tab a) n with
        | Some li => let a1 := link_add a cur li true in
                     if dang then Some (a1, None)                                   (* LINK_TARGET_NOT_THERE *)
                     else Some (set_cache a1 (Some (cur, n, li)), Some li)
        | None => match adf_database_open v fuel w a n true with                    (* ADFI_link_open *)
                  | None => None
                  | Some (a1, None) => Some (a1, None)
                  | Some (a1, Some li) => let a2 := link_add a1 cur li false in
                                          if dang then Some (a2, None)              (* LINK_TARGET_NOT_THERE *)
                                          else Some (set_cache a2 (Some (cur, n, li)), Some li)
                  end
        end
    | _ => Some (a, None)                                                           (* LINKED_TO_FILE_NOT_THERE *)
    end
    end
  end.

Fixpoint walk (v : variant) (fuel : nat) (w : world) (a : adf) (cur : nat) (chain : list (nat * bool))
  : option (adf * bool) :=
  match chain with
  | [] => Some (a, negb ((length (tab a) <=? cur) || Nat.eqb (in_use (slot_at a cur)) 0))
  | (n, dang) :: r => match chase v fuel w a cur n dang with
              | None => None
              | Some (a1, None) => Some (a1, false)
              | Some (a1, Some li) => walk v fuel w a1 li r
              end
  end.

(* ------------------------------------------------------------------------------------------------ cgio iolist *)
Record io := mkio { io_adf : adf; iol : list (option nat); nopen : nat }.
Definition io_init : io := mkio (mkadf [] [] None []) [] 0.

Inductive cres := ROk | RBadCgio | RFileType | RAdf (e : nat).

Fixpoint first_none (l : list (option nat)) : nat :=
  match l with [] => 0 | None :: _ => 0 | Some _ :: r => S (first_none r) end.

Definition cgio_open_file (v : variant) (fuel : nat) (w : world) (s : io) (n : nat) (rw : bool)
  : option (io * option nat) :=
  match kind_of w n with
  | KMissing | KGarbage | KDir => Some (s, None)   (* cgio_check_file: CGIO_ERR_FILE_OPEN, or (neither signature; the
                                                      status of the failed HDF5 attempt survives) CGIO_ERR_FILE_TYPE *)
  | _ => match adf_database_open v fuel w (io_adf s) n rw with
         | None => None
         | Some (a1, None) => Some (mkio a1 (iol s) (nopen s), None)
         | Some (a1, Some idx) =>
             let l0 := match iol s with [] => repeat None 5 | l => l end in
             let k := first_none l0 in
             let l1 := if k <? length l0 then l0 else l0 ++ [None] in
             Some (mkio a1 (upd l1 k (Some idx)) (S (nopen s)), Some (S k))
         end
  end.

(* a file the world marks as one the open paths refuse, and "the library holds what it held": the descriptor ledger, every
   reference count, and every entry in use (name, descriptor, links[]) are as they were.  (NOT literally the same state: a
   refused open may have allocated or grown ADF_file[], may free it again when nothing is open, forgets the one-entry link
   cache in ADFI_close_file, and leaves attribute bytes behind in the entry it used for a moment.) *)
Definition refused (k : kind) : bool := match k with KOk => false | _ => true end.
Definition same_holdings (a a' : adf) : Prop :=
  ledger a' = ledger a /\
  forall j, in_use (slot_at a' j) = in_use (slot_at a j) /\ (in_use (slot_at a j) <> 0 -> slot_at a' j = slot_at a j).

Definition cgio_close_file (v : variant) (fuel : nat) (s : io) (c : nat) : option (io * cres) :=
  match c with
  | O => Some (s, RBadCgio)
  | S c1 =>
    if length (iol s) <=? c1 then Some (s, RBadCgio) else
    match nth c1 (iol s) None with
    | None => Some (s, match v with Cur => RBadCgio | Old => RFileType end)
        (* a closed slot (type CGIO_FILE_NONE): since /repo 137980e get_cgnsio itself refuses it (CGIO_ERR_BAD_CGIO); before,
           get_cgnsio tested the range only and the type dispatch of cgio_close_file answered CGIO_ERR_FILE_TYPE *)
    | Some idx =>
        if length (tab (io_adf s)) <=? idx then Some (s, RAdf FILE_INDEX_OUT_OF_RANGE) else
        match adfi_close_file v fuel (io_adf s) idx with
        | None => None
        | Some (a1, e) =>
            if Nat.eqb e 0
            then let n1 := nopen s - 1 in
                 Some (mkio a1 (if Nat.eqb n1 0 then [] else upd (iol s) c1 None) n1, ROk)
            else Some (mkio a1 (iol s) (nopen s), RAdf e)
        end
    end
  end.

Definition cgio_walk (v : variant) (fuel : nat) (w : world) (s : io) (c : nat) (chain : list (nat * bool))
  : option (io * bool) :=
  match c with
  | O => Some (s, false)
  | S c1 =>
    match nth c1 (iol s) None with
    | None => Some (s, false)
    | Some idx => match walk v fuel w (io_adf s) idx chain with
                  | None => None
                  | Some (a1, ok) => Some (mkio a1 (iol s) (nopen s), ok)
                  end
    end
  end.

(* ------------------------------------------------------------------------------------------------ sessions *)
Inductive op := OOpen (n : nat) (rw : bool) | OWalk (c : nat) (chain : list (nat * bool)) | OClose (c : nat).
Inductive res := ResOpen (c : option nat) | ResWalk (ok : bool) | ResClose (r : cres).

Definition step (v : variant) (fuel : nat) (w : world) (s : io) (o : op) : option (io * res) :=
  match o with
  | OOpen n rw => match cgio_open_file v fuel w s n rw with
                  | None => None | Some (s1, c) => Some (s1, ResOpen c) end
  | OWalk c ch => match cgio_walk v fuel w s c ch with
                  | None => None | Some (s1, ok) => Some (s1, ResWalk ok) end
  | OClose c => match cgio_close_file v fuel s c with
                | None => None | Some (s1, r) => Some (s1, ResClose r) end
  end.

Fixpoint remove_all (c : nat) (l : list nat) : list nat :=
  match l with [] => [] | x :: r => if Nat.eqb x c then remove_all c r else x :: remove_all c r end.

(* pending = the handles a successful open returned and for which the user has not yet called close *)
Definition track (pend : list nat) (o : op) (r : res) : list nat :=
  match o, r with
  | OOpen _ _, ResOpen (Some c) => c :: pend
  | OClose c, _ => remove_all c pend
  | _, _ => pend
  end.

Fixpoint run (v : variant) (fuel : nat) (w : world) (s : io) (pend : list nat) (ops : list op)
  : option (io * list nat * list res) :=
  match ops with
  | [] => Some (s, pend, [])
  | o :: r => match step v fuel w s o with
              | None => None
              | Some (s1, x) => match run v fuel w s1 (track pend o x) r with
                                | None => None
                                | Some (s2, p2, xs) => Some (s2, p2, x :: xs)
                                end
              end
  end.

(* nothing is held any more *)
Definition clean (s : io) : Prop :=
  (forall i, in_use (slot_at (io_adf s) i) = 0) /\ ledger (io_adf s) = [] /\ iol s = [] /\ nopen s = 0.
Definition cleanb (s : io) : bool :=
  forallb (fun x => Nat.eqb (in_use x) 0) (tab (io_adf s)) &&
  match ledger (io_adf s) with [] => true | _ => false end &&
  match iol s with [] => true | _ => false end && Nat.eqb (nopen s) 0.

(* THE FULL-STRENGTH STATEMENT for the ADF / cgio tables: for ANY session of opens, link traversals and closes (valid or
   not, in any order, any link graph) after which the user has called close for every handle an open returned, every
   in_use is 0, the ledger of descriptors is empty and the cgio table is released *)
Definition refcount_balanced (v : variant) : Prop :=
  forall w fuel ops s rs, run v fuel w io_init [] ops = Some (s, [], rs) -> clean s.

(* the link graph between the files on disk is acyclic: a rank decreases along every link *)
Definition acyclic (w : world) (rank : nat -> nat) : Prop :=
  forall a b, has_any_link w a b = true -> rank b < rank a.

(* ------------------------------------------------------------------------------------------------ MLL table *)
(* cgns_files[0 .. n_cgns_files): Some h = an entry whose mode is not CG_MODE_CLOSED, holding cgio handle h (a token);
   held = the cgio handles cg_open has acquired and nothing has released yet *)
Record mll := mkmll { n_open : nat; files : list (option nat); fsize : nat; foffset : nat; held : list nat; nexth : nat }.
Definition mll_init : mll := mkmll 0 [] 0 0 [] 0.

Inductive ooutcome :=
| OCgioFail      (* cgio_open_file fails: missing file, not a database *)
| OLateFail      (* the cgio file is open; cg_version / cgi_read / ... then fails *)
| OSuccess.

Inductive mvariant := MOld | MCur.

(* when the last file closes: MCur (since /repo ecfdd66)  file_number_offset += n_cgns_files;  numbers are never issued again.
   MOld (before)  file_number_offset = n_cgns_files;  an ASSIGNMENT: numbers came back from the third generation on. *)
Definition next_offset (v : mvariant) (m : mll) : nat :=
  match v with MOld => length (files m) | MCur => foffset m + length (files m) end.

(* the tail of cg_close after cgio_close_file succeeded *)
Definition mll_release (v : mvariant) (m : mll) (i : nat) (h : nat) : mll :=
  let n1 := n_open m - 1 in
  let fs := upd (files m) i None in
  if Nat.eqb n1 0
  then mkmll 0 [] 0 (next_offset v m) (rem1 h (held m)) (nexth m)
  else mkmll n1 fs (fsize m) (foffset m) (rem1 h (held m)) (nexth m).

Definition cg_open (v : mvariant) (m : mll) (oc : ooutcome) : mll * option nat :=
  match oc with
  | OCgioFail => (m, None)
  | _ =>
    let h := nexth m in
    let sz := if Nat.eqb (fsize m) 0 then 1 else if Nat.eqb (length (files m)) (fsize m) then 2 * fsize m else fsize m in
    let m1 := mkmll (S (n_open m)) (files m ++ [Some h]) sz (foffset m) (h :: held m) (S h) in
    let fn := length (files m1) + foffset m1 in
    match oc, v with
    | OSuccess, _ => (m1, Some fn)
    | _, MOld => (m1, None)                                     (* before def473d: return CG_ERROR; nothing undone *)
    | _, MCur => (mll_release MCur m1 (length (files m)) h, None)     (* since def473d: released as cg_close does *)
    end
  end.

(* close_ok = cgio_close_file / cgio_compress_file succeeds *)
Definition cg_close (v : mvariant) (m : mll) (fn : nat) (close_ok : bool) : mll * bool :=
  let filenum := fn - foffset m in
  if (fn <=? foffset m) || (length (files m) <? filenum) then (m, false) else
  match nth (filenum - 1) (files m) None with
  | None => (m, false)                                                     (* CG_MODE_CLOSED *)
  | Some h => if close_ok then (mll_release v m (filenum - 1) h, true) else (m, false)
  end.

Inductive mop := MOpen (oc : ooutcome) | MClose (fn : nat) (close_ok : bool).

Definition mstep (v : mvariant) (m : mll) (pend : list nat) (o : mop) : mll * list nat * option nat :=
  match o with
  | MOpen oc => let '(m1, r) := cg_open v m oc in
                (m1, match r with Some fn => fn :: pend | None => pend end, r)
  | MClose fn ok => let '(m1, r) := cg_close v m fn ok in
                    (m1, if ok then remove_all fn pend else pend, if r then Some 0 else None)
  end.

Fixpoint mrun (v : mvariant) (m : mll) (pend : list nat) (ops : list mop) : mll * list nat :=
  match ops with
  | [] => (m, pend)
  | o :: r => let '(m1, p1, _) := mstep v m pend o in mrun v m1 p1 r
  end.

Definition mclean (m : mll) : Prop := n_open m = 0 /\ files m = [] /\ fsize m = 0 /\ held m = [].

(* THE FULL-STRENGTH STATEMENT for the MLL table: after any session in which every successfully opened file has been
   closed, the table is released and no cgio handle acquired by cg_open is still held *)
Definition handles_released (v : mvariant) : Prop :=
  forall ops m, mrun v mll_init [] ops = (m, []) -> mclean m.

(* ---------------------------------------------------------------------------------------------------------------------
   HDF5 side: the identifiers of ONE file that are still open when ADFH_Database_Close runs (ADFH_FORCE_ID_CLOSE block).
   Ordinary use leaves group identifiers (every node id handed out is one); a call that fails half-way may leave any kind
   (ADFH_Read_*_Data without a memory type: the dataset and the group).  The block closes, kind by kind,
       nobj = H5Fget_obj_count(fid, <counted kind> | LOCAL);
       if (nobj) { H5Fget_obj_ids(fid, <listed kind> | LOCAL, -1, objs); for (n < nobj) <close>(objs[n]); }
   and H5Fclose (default close degree) then gives the descriptor back only when no identifier of the file remains. *)
Inductive idkind := IType | IDset | IAttr | IGroup.

Record h5ids := mkids { n_type : nat; n_dset : nat; n_attr : nat; n_group : nat }.

Definition id_count (s : h5ids) (k : idkind) : nat :=
  match k with IType => n_type s | IDset => n_dset s | IAttr => n_attr s | IGroup => n_group s end.

Definition id_set (s : h5ids) (k : idkind) (n : nat) : h5ids :=
  match k with
  | IType => mkids n (n_dset s) (n_attr s) (n_group s)
  | IDset => mkids (n_type s) n (n_attr s) (n_group s)
  | IAttr => mkids (n_type s) (n_dset s) n (n_group s)
  | IGroup => mkids (n_type s) (n_dset s) (n_attr s) n
  end.

Definition id_total (s : h5ids) : nat := n_type s + n_dset s + n_attr s + n_group s.

(* one step of the block: [c] is the kind that is counted, [l] the kind that is listed and closed; closing an identifier
   removes exactly that identifier; at most as many identifiers are closed as were listed *)
Definition fc_pass (s : h5ids) (p : idkind * idkind) : h5ids :=
  let (c, l) := p in id_set s l (id_count s l - Nat.min (id_count s c) (id_count s l)).

(* the block as it is written in ADFH.c: datatypes, datasets, attributes, groups, each counted and listed by its own kind *)
Definition passes_cur : list (idkind * idkind) := [(IType, IType); (IDset, IDset); (IAttr, IAttr); (IGroup, IGroup)].

Definition forced_close (ps : list (idkind * idkind)) (s : h5ids) : h5ids :=
  if Nat.eqb (id_total s) 0 then s else fold_left fc_pass ps s.

(* H5Fclose with the default close degree: the file stays open inside libhdf5 while an identifier of it is open *)
Definition file_released (s : h5ids) : bool := Nat.eqb (id_total s) 0.

(* what calls of a session add to the identifiers of the file *)
Inductive h5op := HNode | HFailedRead | HStrand (k : idkind).
Definition h5step (s : h5ids) (o : h5op) : h5ids :=
  match o with
  | HNode => id_set s IGroup (S (n_group s))
  | HFailedRead => mkids (n_type s) (S (n_dset s)) (n_attr s) (S (n_group s))
  | HStrand k => id_set s k (S (id_count s k))
  end.
Definition no_ids := mkids 0 0 0 0.
Definition h5session (ops : list h5op) : h5ids := forced_close passes_cur (fold_left h5step ops no_ids).
