(* Extract_c02.v -- extraction of the ideal node database (TreeDB) to OCaml; ExtrOcamlBasic only. *)
From Coq Require Import Extraction ExtrOcamlBasic.
From CgnsV Require Import TreeDB.
Extraction Language OCaml.
Set Extraction KeepSingleton.
Extraction "extracted/c02/model.ml" TreeDB.step TreeDB.open_file TreeDB.close_file TreeDB.empty_session.
