(* Validate.v -- executable model for property C12 (invalid calls fail cleanly and change nothing).  Definitions only.

   Part 1: the row type of the regenerated table coq/Gen_C12.v (translators/c12_validate.py, from the CURRENT sources of
           src/cgnslib.c, src/cgns_internals.c, src/cgns_io.c, src/cgns_error.c): per function its STRUCTURED skeleton, a
           statement sequence in continuation form
               QEnd | QRet r | QBrk | QAct a k | QIfFail a t e k | QIf t e k | QIfLM t e k | QLoop b k
           (k = what follows).  `QIfFail a t e k` evaluates the check / call `a` and runs t when it FAILS (status <> 0, NULL
           pointer, or -- for an inline test -- the test holds) and e otherwise: if/else arms are exclusive, everything the
           code does between a failing check and its `return` is in t.  QIf is any other condition (decided by an oracle),
           QIfLM the test `local_mode == CG_MODE_WRITE` of the cgi_*_address resolvers (decided by the context the function
           is called in), QLoop a loop (the oracle decides after every iteration; QBrk leaves the innermost loop).
   Part 2: an abstract machine running skeletons against (file log, tree log, error flag, "a check failed" flag) with an
           oracle for everything the skeleton does not determine.  A failing `return` executed inside the failing arm of an
           argument check gives RINV ("returned at a failing validation"), any other failing return RERR; RINV propagates
           through `if (callee(..)) return CG_ERROR;`.
   Part 3: the decidable predicates the kernel evaluates on the regenerated table:
             T        call-graph closure "may change the file or the (non-cache part of the) tree",
             vscan    validation before effect: no failing return under a failed argument check after a possible effect,
             guarded  every argument check is tested at once and its failing arm always returns a failure,
             escan    every failing return is preceded, on its path, by an error-message event,
           the index getters (1 <= i <= count, element i-1), and the specification-side lists. *)
From Coq Require Import List String Bool PArith ZArith FSetPositive.
From CgnsV Require Import Gates.
Import ListNotations.

(* ------------------------------------------------------------------------------------------------ Part 1 *)
(* class of a check: file handle (cgi_get_file / get_cgnsio), CHECK_FILE_OPEN, open mode, entity index (the cgi_get_ getters), name
   length, enumeration range, size / range, null pointer, and CState: a consistency test of the library's own state
   (allocation failure, "node does not exist", back-end status ...), which is not an argument check *)
Inductive vclass := CHandle | COpen | CMode (m : gmode) | CIndex | CName | CEnum | CRange | CNull | CState.

(* callee id 1 = none (an inline test).  args: 1-based positions of the function's parameters the act depends on.
   ids: per argument of the callee its IDENTITY token: 1 = unknown, 1+p = the argument is parameter p of the enclosing
   function (never assigned to), >= 100 = an expression that does not depend on the caller (the global cg, cg->field, a
   literal).  fresh / mayinv: set to true by the translator; Validate.prepare clears them for re-validations (below). *)
Inductive act :=
| ACheck (v : vclass) (callee : positive) (args : list positive) (ids : list positive) (fresh : bool)
| ACall (a : arg0) (callee : positive) (args : list positive) (ids : list positive) (mayinv : bool)
| AMirror (m : positive)          (* a store through a pointer into the in-memory tree; m indexes Gen_C12.mirrors *)
| AErr                            (* cgi_error / cg_io_error / set_error / last_err = .. *)
| AUnparsed.

Inductive seq :=
| QEnd
| QRet (r : rkind)
| QBrk                            (* `break` out of the innermost loop *)
| QAct (a : act) (k : seq)
| QIfFail (a : act) (t e k : seq)
| QIf (t e k : seq)
| QIfLM (t e k : seq)
| QLoop (b k : seq).

(* what an entry point has to validate about a parameter, from its C type and name *)
Inductive pkind := PH | PI | PN | PE | PO.        (* file handle, entity index, node name, enumeration, other *)
Record vrow := mkVRow { vid : positive; vname : string; vvis : vis; vpk : list pkind; vbody : seq }.

Definition counted (v : vclass) : bool := match v with CState => false | _ => true end.
Definition failing (r : rkind) : bool := match r with RErr | RVar => true | _ => false end.
Definition act_callee (a : act) : option (positive * arg0) :=
  match a with
  | ACheck _ i _ _ _ => if Pos.eqb i 1 then None else Some (i, ANone)
  | ACall a0 i _ _ _ => if Pos.eqb i 1 then None else Some (i, a0)
  | _ => None
  end.
Definition is_counted_check (a : act) : bool := match a with ACheck v _ _ _ _ => counted v | _ => false end.
(* RE-VALIDATION.  A check whose (checker, argument identities) has already passed on every path reaching it cannot fail
   (cgi_check_strlen of the same string, cgi_get_zone of the same indices: the entity counts never shrink inside a call),
   and a callee's failing validation is a failing validation of the CALLER's arguments only if it tests one of the
   caller's parameters (passed through unchanged) -- or the open mode / the current file -- and is not such a
   re-validation; a callee's check of anything else (state, a value derived inside the caller) is an internal error of the
   caller.  prepare (Part 4) clears `fresh` / `mayinv` accordingly.  A run in which a re-validation fails all the same ends
   with the excluded result RFUEL; a callee's RINV with mayinv off is an ordinary failure (RERR) of the call. *)
Definition adjust (a : act) (r : res) : res :=
  match a, r with
  | ACheck _ _ _ _ false, RERR | ACheck _ _ _ _ false, RINV => RFUEL
  | ACall _ _ _ _ false, RINV => RERR
  | _, _ => r
  end.

(* ------------------------------------------------------------------------------------------------ Part 2 *)
Record vst := VSt { v_file : list positive; v_mir : list positive; v_err : bool; v_vf : bool }.
Definition vadd_file (s : vst) (i : positive) := VSt (i :: v_file s) (v_mir s) (v_err s) (v_vf s).
Definition vadd_mir (s : vst) (i : positive) := VSt (v_file s) (i :: v_mir s) (v_err s) (v_vf s).
Definition vset_err (s : vst) := VSt (v_file s) (v_mir s) true (v_vf s).
Definition vset_vf (s : vst) (b : bool) := VSt (v_file s) (v_mir s) (v_err s) b.

Inductive out := Fall | Brk | Ret (r : res).
Definition is_fail (r : res) : bool := match r with RERR | RINV => true | _ => false end.

(* a loop: after the loop test (oracle) the body runs; a body that returns ends the function *)
Fixpoint loop (n : nat) (body : list bool -> vst -> out * vst * list bool) (o : list bool) (x : vst) : out * vst * list bool :=
  match n with
  | O => (Ret RFUEL, x, o)
  | S n' => let '(go, o1) := pop o in
            if negb go then (Fall, x, o1) else
            match body o1 x with
            | (Fall, x1, o2) => loop n' body o2 x1
            | (Brk, x1, o2) => (Fall, x1, o2)
            | r => r
            end
  end.

Section Machine.
  Variable rows : positive -> option vrow.
  Variable prim : positive -> bool.        (* callees outside the table that change a file themselves *)
  Variable benign : positive -> bool.      (* stores that are caches / lazily allocated empty containers *)

  Section Exec.
    Variable call : ctx -> positive -> list bool -> vst -> res * vst * list bool.
    Variable lf : nat.                     (* bound on loop iterations *)
    Variable c : ctx.

    (* a check or call: its status, the state and the oracle afterwards.  The callee's own "check failed" flag is local
       to the callee. *)
    Definition do_callee (i : positive) (a0 : arg0) (o : list bool) (x : vst) : res * vst * list bool :=
      let x0 := if prim i then vadd_file x i else x in
      match rows i with
      | Some _ => let '(r, x1, o1) := call (tgt a0 c) i o x0 in (r, vset_vf x1 (v_vf x), o1)
      | None => let '(b, o1) := pop o in ((if b then RERR else ROK), x0, o1)
      end.

    Definition act_status (a : act) (o : list bool) (x : vst) : res * vst * list bool :=
      match act_callee a with
      | None => let '(b, o1) := pop o in ((if b then RERR else ROK), x, o1)       (* an inline test *)
      | Some (i, a0) => do_callee i a0 o x
      end.

    Definition do_act (a : act) (o : list bool) (x : vst) : res * vst * list bool :=
      match a with
      | AMirror m => (ROK, (if benign m then x else vadd_mir x m), o)
      | AErr => (ROK, vset_err x, o)
      | AUnparsed => (ROK, vadd_file x 1, o)
      | ACheck _ _ _ _ _ | ACall _ _ _ _ _ =>
        let '(r0, x1, o1) := act_status a o x in
        let r := adjust a r0 in
        (r, (if is_counted_check a && is_fail r then vset_vf x1 true else x1), o1)
      end.

    (* is a failing return in the failing arm of `a` a return "at a failing validation"? *)
    Definition arm_guard (a : act) (r : res) : bool :=
      match a with
      | ACheck v _ _ _ _ => counted v
      | ACall _ _ _ _ _ => match r with RINV => true | _ => false end
      | _ => false
      end.

    Definition do_ret (r : rkind) (g : bool) (o : list bool) (x : vst) : out * vst * list bool :=
      match r with
      | ROk | RVoid | RCall => (Ret ROK, x, o)
      | RErr => (Ret (if g then RINV else RERR), x, o)
      | RVar => if g then (Ret RINV, x, o) else let '(b, o1) := pop o in (Ret (if b then RERR else ROK), x, o1)
      end.

    Fixpoint exec (q : seq) (g : bool) (o : list bool) (x : vst) {struct q} : out * vst * list bool :=
      match q with
      | QEnd => (Fall, x, o)
      | QRet r => do_ret r g o x
      | QBrk => (Brk, x, o)
      | QAct a k =>
        let '(r, x1, o1) := do_act a o x in
        match r with
        | RFUEL => (Ret RFUEL, x1, o1)
        | _ => exec k g o1 x1
        end
      | QIfFail a t e k =>
        let '(r, x1, o1) := do_act a o x in
        match r with
        | RFUEL => (Ret RFUEL, x1, o1)
        | ROK => match exec e g o1 x1 with
                 | (Fall, x2, o2) => exec k g o2 x2
                 | z => z
                 end
        | RERR | RINV => match exec t (arm_guard a r) o1 x1 with
                         | (Fall, x2, o2) => exec k g o2 x2
                         | z => z
                         end
        end
      | QIf t e k =>
        let '(b, o1) := pop o in
        match (if b then exec t g o1 x else exec e g o1 x) with
        | (Fall, x2, o2) => exec k g o2 x2
        | z => z
        end
      | QIfLM t e k =>
        match (if is_CR c then exec e g o x else exec t g o x) with
        | (Fall, x2, o2) => exec k g o2 x2
        | z => z
        end
      | QLoop b k =>
        match loop lf (fun o' x' => exec b g o' x') o x with
        | (Fall, x2, o2) => exec k g o2 x2
        | z => z
        end
      end.
  End Exec.

  Fixpoint run (fuel : nat) (c : ctx) (id : positive) (o : list bool) (x : vst) : res * vst * list bool :=
    match fuel with
    | O => (RFUEL, x, o)
    | S n => match rows id with
             | None => (ROK, x, o)
             | Some r => match exec (run n) n c (vbody r) false o x with
                         | (Fall, x1, o1) | (Brk, x1, o1) => (ROK, x1, o1)
                         | (Ret z, x1, o1) => (z, x1, o1)
                         end
             end
    end.
End Machine.

Definition vrows_of (t : list vrow) (id : positive) : option vrow := find (fun r => Pos.eqb (vid r) id) t.

(* ------------------------------------------------------------------------------------------------ Part 3 *)
Section Static.
  Variable prim : positive -> bool.
  Variable benign : positive -> bool.
  Variable T : positive -> ctx -> bool.       (* may touch *)

  Definition callee_touch (c : ctx) (i : positive) (a0 : arg0) : bool := prim i || T i (tgt a0 c).
  Definition touch_act (c : ctx) (a : act) : bool :=
    match a with
    | AMirror m => negb (benign m)
    | AUnparsed => true
    | AErr => false
    | _ => match act_callee a with Some (i, a0) => callee_touch c i a0 | None => false end
    end.

  (* does the sequence contain a touching act (lm-dead arms excluded)? *)
  Fixpoint may_touch (c : ctx) (q : seq) : bool :=
    match q with
    | QEnd | QRet _ | QBrk => false
    | QAct a k => touch_act c a || may_touch c k
    | QIfFail a t e k => touch_act c a || may_touch c t || may_touch c e || may_touch c k
    | QIf t e k => may_touch c t || may_touch c e || may_touch c k
    | QIfLM t e k => (if is_CR c then may_touch c e else may_touch c t) || may_touch c k
    | QLoop b k => may_touch c b || may_touch c k
    end.

  (* --- validation before effect.  C: functions that change nothing whenever they fail; V: functions that change nothing
     when they return at a failing validation (RINV).  allf: every failing return counts (for membership in C). *)
  Variable C V : positive -> ctx -> bool.

  (* the act has not touched anything if it FAILED (whatever the reason) / if it returned RINV *)
  Definition fail_clean (c : ctx) (a : act) : bool :=
    match act_callee a with
    | None => true
    | Some (i, a0) => negb (prim i) && (negb (T i (tgt a0 c)) || C i (tgt a0 c))
    end.
  Definition inv_clean (c : ctx) (a : act) : bool :=
    match act_callee a with
    | None => true
    | Some (i, a0) => negb (prim i) && (negb (T i (tgt a0 c)) || V i (tgt a0 c))
    end.

  Definition obind {A B} (x : option A) (f : A -> option B) : option B := match x with Some a => f a | None => None end.

  (* None: a failing return that counts may follow an effect.  Some (s, b): no such return; s = "something may have been
     touched when control falls out of the sequence", b = the same at a `break` *)
  Definition join2 (a b : bool * bool) : bool * bool := (fst a || fst b, snd a || snd b).
  Definition then2 (a : bool * bool) (f : bool -> option (bool * bool)) : option (bool * bool) :=
    obind (f (fst a)) (fun r => Some (fst r, snd a || snd r)).

  Fixpoint vscan (allf : bool) (c : ctx) (q : seq) (g seen : bool) {struct q} : option (bool * bool) :=
    match q with
    | QEnd => Some (seen, false)
    | QRet r => if failing r && (g || allf) && seen then None else Some (false, false)
    | QBrk => Some (false, seen)
    | QAct a k => vscan allf c k g (seen || touch_act c a)
    | QIfFail a t e k =>
      let tch := touch_act c a in
      let ra :=
          match a with
          | ACall _ _ _ _ mi =>
            (* the callee returned RINV (then the arm is guarded; impossible when mayinv is off) or failed otherwise *)
            obind (if mi then vscan allf c t true (seen || (tch && negb (inv_clean c a))) else Some (false, false)) (fun s1 =>
            obind (vscan allf c t false (seen || (tch && negb (fail_clean c a)))) (fun s2 => Some (join2 s1 s2)))
          | ACheck _ _ _ _ false => Some (false, false)                  (* a re-validation does not fail *)
          | _ => vscan allf c t (is_counted_check a) (seen || (tch && negb (fail_clean c a)))
          end in
      obind ra (fun s1 =>
      obind (vscan allf c e g (seen || tch)) (fun s2 =>
      then2 (join2 s1 s2) (vscan allf c k g)))
    | QIf t e k =>
      obind (vscan allf c t g seen) (fun s1 =>
      obind (vscan allf c e g seen) (fun s2 =>
      then2 (join2 s1 s2) (vscan allf c k g)))
    | QIfLM t e k =>
      obind (if is_CR c then vscan allf c e g seen else vscan allf c t g seen) (fun s1 => then2 s1 (vscan allf c k g))
    | QLoop b k =>
      (* first iteration from `seen`; if an iteration can fall through touched, the later ones start touched *)
      obind (vscan allf c b g seen) (fun r1 =>
        if implb (fst r1) seen then vscan allf c k g (seen || snd r1)
        else obind (vscan allf c b g true) (fun _ => vscan allf c k g true))
    end.

  (* --- failing checks return failures: every argument check is the condition of a QIfFail whose failing arm always
     returns a failing status *)
  Fixpoint always_fails (q : seq) : bool :=
    match q with
    | QEnd | QBrk => false
    | QRet r => match r with RErr => true | _ => false end
    | QAct _ k => always_fails k
    | QIfFail _ t e k => (always_fails t && always_fails e) || always_fails k
    | QIf t e k => (always_fails t && always_fails e) || always_fails k
    | QIfLM t e k => (always_fails t && always_fails e) || always_fails k
    | QLoop _ k => always_fails k
    end.
  (* no statement of the sequence can return success or fall out of it ... used for failing arms: nothing in the arm
     may return ROk, and the arm may not be left *)
  Fixpoint no_ok_ret (q : seq) : bool :=
    match q with
    | QEnd => true
    | QBrk => false
    | QRet r => match r with RErr => true | _ => false end
    | QAct _ k => no_ok_ret k
    | QIfFail _ t e k => no_ok_ret t && no_ok_ret e && no_ok_ret k
    | QIf t e k => no_ok_ret t && no_ok_ret e && no_ok_ret k
    | QIfLM t e k => no_ok_ret t && no_ok_ret e && no_ok_ret k
    | QLoop b k => no_ok_ret b && no_ok_ret k
    end.
  Definition arm_fails (q : seq) : bool := always_fails q && no_ok_ret q.

  Fixpoint guarded (q : seq) : bool :=
    match q with
    | QEnd | QRet _ | QBrk => true
    | QAct a k => negb (is_counted_check a) && guarded k
    | QIfFail a t e k => (if is_counted_check a then arm_fails t else guarded t) && guarded e && guarded k
    | QIf t e k => guarded t && guarded e && guarded k
    | QIfLM t e k => guarded t && guarded e && guarded k
    | QLoop b k => guarded b && guarded k
    end.

  (* --- error messages.  NS: functions every failing return of which is preceded by an error-message event *)
  Variable NS : positive -> ctx -> bool.
  Definition act_noisy (c : ctx) (a : act) : bool :=
    match act_callee a with Some (i, a0) => NS i (tgt a0 c) | None => false end.
  Definition is_err (a : act) : bool := match a with AErr => true | _ => false end.

  (* None: a failing return may be reached without a message.  Some (e, b): e = "a message has certainly been recorded
     when control falls out of the sequence", b = the same at every `break` *)
  Definition meet2 (a b : bool * bool) : bool * bool := (fst a && fst b, snd a && snd b).
  Definition ethen2 (a : bool * bool) (f : bool -> option (bool * bool)) : option (bool * bool) :=
    obind (f (fst a)) (fun r => Some (fst r, snd a && snd r)).

  Fixpoint escan (c : ctx) (q : seq) (err : bool) {struct q} : option (bool * bool) :=
    match q with
    | QEnd => Some (err, true)
    | QRet r => if failing r && negb err then None else Some (true, true)
    | QBrk => Some (true, err)
    | QAct a k => escan c k (err || is_err a)
    | QIfFail a t e k =>
      obind (escan c t (err || act_noisy c a)) (fun e1 =>
      obind (escan c e err) (fun e2 => ethen2 (meet2 e1 e2) (escan c k)))
    | QIf t e k =>
      obind (escan c t err) (fun e1 => obind (escan c e err) (fun e2 => ethen2 (meet2 e1 e2) (escan c k)))
    | QIfLM t e k =>
      obind (if is_CR c then escan c e err else escan c t err) (fun e1 => ethen2 e1 (escan c k))
    | QLoop b k => obind (escan c b err) (fun _ => escan c k err)
    end.
End Static.

Definition is_some {A} (x : option A) : bool := match x with Some _ => true | None => false end.

(* ---- fixpoints over the call graph (sets of (function, context) pairs, as in Gates.v) *)
Definition vrow_touch prim benign (S : pset) (r : vrow) (c : ctx) : bool := may_touch prim benign (inset S) c (vbody r).
Definition tstep prim benign (t : list vrow) (S : pset) : pset :=
  fold_left (fun S r =>
               let S1 := if vrow_touch prim benign S r CR then PositiveSet.add (key (vid r) CR) S else S in
               if vrow_touch prim benign S1 r CW then PositiveSet.add (key (vid r) CW) S1 else S1) t S.
Fixpoint titer prim benign t (n : nat) (S : pset) : pset :=
  match n with
  | O => S
  | Datatypes.S n' => let S' := tstep prim benign t S in
            if Nat.eqb (PositiveSet.cardinal S') (PositiveSet.cardinal S) then S else titer prim benign t n' S'
  end.
Definition tclosure prim benign (t : list vrow) : pset := titer prim benign t (2 * List.length t + 1) PositiveSet.empty.
Definition tclosed_b prim benign (t : list vrow) (S : pset) : bool :=
  forallb (fun r => implb (vrow_touch prim benign S r CR) (inset S (vid r) CR) &&
                    implb (vrow_touch prim benign S r CW) (inset S (vid r) CW)) t.

(* greatest sets: start from every (function, context) and drop the members whose scan fails relative to the set *)
Definition all_pairs (t : list vrow) : pset :=
  fold_left (fun S r => PositiveSet.add (key (vid r) CR) (PositiveSet.add (key (vid r) CW) S)) t PositiveSet.empty.
Definition gfilter (ok : pset -> vrow -> ctx -> bool) (t : list vrow) (S : pset) : pset :=
  fold_left (fun S' r =>
               let S1 := if inset S (vid r) CR && ok S r CR then PositiveSet.add (key (vid r) CR) S' else S' in
               if inset S (vid r) CW && ok S r CW then PositiveSet.add (key (vid r) CW) S1 else S1) t PositiveSet.empty.
Fixpoint giter2 (ok : pset -> vrow -> ctx -> bool) t (n : nat) (S : pset) : pset :=
  match n with
  | O => PositiveSet.empty
  | Datatypes.S n' => let S' := gfilter ok t S in
            if Nat.eqb (PositiveSet.cardinal S') (PositiveSet.cardinal S) then S' else giter2 ok t n' S'
  end.
Definition gfix (ok : pset -> vrow -> ctx -> bool) (t : list vrow) : pset := giter2 ok t (2 * List.length t + 2) (all_pairs t).
(* every member passes relative to the set itself, and is a row of the table *)
Definition gconsistent_b (ok : pset -> vrow -> ctx -> bool) (t : list vrow) (S : pset) : bool :=
  forallb (fun r => implb (inset S (vid r) CR) (ok S r CR) && implb (inset S (vid r) CW) (ok S r CW)) t &&
  PositiveSet.for_all (fun k => existsb (fun r => Pos.eqb (key (vid r) CR) k || Pos.eqb (key (vid r) CW) k) t) S.

Definition c_ok prim benign (T : pset) (S : pset) (r : vrow) (c : ctx) : bool :=
  is_some (vscan prim benign (inset T) (inset S) (inset S) true c (vbody r) false false).
Definition v_ok prim benign (T Cs : pset) (S : pset) (r : vrow) (c : ctx) : bool :=
  is_some (vscan prim benign (inset T) (inset Cs) (inset S) false c (vbody r) false false).
Definition ns_ok (S : pset) (r : vrow) (c : ctx) : bool := is_some (escan (inset S) c (vbody r) false).

(* ------------------------------------------------------------------------------------------------ specification side *)
Local Open Scope string_scope.
(* stores that do not change what the read API reports: the "current ZoneGridConnectivity" selector DEFAULTING to 1 in
   cgi_get_zconn (the explicit selection `zone->active_zconn = C` of cgi_get_zconnZC is session state and is NOT benign: it
   must follow the range test of C), the
   lazily allocated EMPTY ZoneGridConnectivity / ZoneBC containers of write mode (id 0: written to the file only when a
   child is added), the zone-name hash maps (an index over base->zone built on first use).  (function, path prefix) *)
(* THE CURSOR.  The stores to the goto globals (posit, posit_file, posit_base, posit_zone, posit_depth, posit_stack[..]) are
   not stores through a pointer into the in-memory tree: the translator emits no AMirror for them and they are in no log of
   the machine.  For the navigation entry points (cg_goto, cg_gorel, cg_gopath, cg_golist and their _f08 / Fortran forms) that
   is the specification: `posit = 0` at the head of cgi_set_posit and in every failing branch of cgi_update_posit is the
   fail-safe of property C11 -- "A failed navigation reports an error and never leaves the position silently on a different
   node" -- so ending a failed go* call with NO position is admissible and the cursor is not part of C12's "session view and
   file content".  It is benign for those entry points ONLY: no other function of the table assigns the cursor on a failing
   path (cg_close resets it together with the file it frees), and the dynamic oracle compares cg_where around every failing
   call of every other entry point (UNSET or CHANGED is a violation there; a position that MOVED is one for the go* calls too). *)
Definition benign_stores : list (string * string) :=
  [("cgi_get_zconn", "zone->active_zconn"); ("cgi_get_zconn", "zone->zconn");
   ("cgi_get_zboco", "zone->zboco");
   ("cg_zone_write", "base->zonemap"); ("cg_particle_write", "base->pzonemap");
   ("cgi_read_base", "base->zonemap"); ("cgi_read_base", "base->pzonemap");
   (* the lazily allocated EMPTY property containers of the writers themselves (BCProperty_t, GridConnectivityProperty_t,
      ZoneBC_t): allocated only when absent, in which case the "already defined" test that follows cannot fire *)
   ("cg_boco_write", "zone->zboco"); ("cg_boco_write", "zboco->name");
   ("cg_bc_wallfunction_write", "boco->bprop"); ("cg_bc_wallfunction_write", "bprop->name");
   ("cg_bc_area_write", "boco->bprop"); ("cg_bc_area_write", "bprop->name");
   ("cg_conn_periodic_write", "conn->cprop"); ("cg_conn_periodic_write", "cprop->name");
   ("cg_conn_average_write", "conn->cprop"); ("cg_conn_average_write", "cprop->name");
   ("cg_1to1_periodic_write", "one21->cprop"); ("cg_1to1_periodic_write", "cprop->name");
   ("cg_1to1_average_write", "one21->cprop"); ("cg_1to1_average_write", "cprop->name");
   (* caches of file data / bookkeeping that no read call reports: the element connectivity, offsets and parent data read
      on demand, the file version, the counters of nodes added / deleted *)
   ("read_element_data", ""); ("read_offset_data", ""); ("read_parent_data", "");
   ("cg_version", "cg->version"); ("cgi_new_node", "cg->added"); ("cgi_new_node_partial", "cg->added");
   ("cgi_delete_node", "cg->deleted"); ("cgi_move_node", "cg->added")].
Definition is_benign (fp : string * string) : bool :=
  existsb (fun q => String.eqb (fst fp) (fst q) && prefix (snd q) (snd fp)) benign_stores.
Definition benign_set (mirrors : list (positive * (string * string))) : PositiveSet.t :=
  fold_left (fun S p => if is_benign (snd p) then PositiveSet.add (fst p) S else S) mirrors PositiveSet.empty.

(* the zone / particle-zone name maps of cg_hashmap.c are an index over the in-memory tree, not content *)
Definition c12_benign_externs : list string := benign_externs.

(* entry points outside the domain: they create / open files by name, configure or terminate the library *)
Definition c12_file_ops : list string :=
  ["cg_open"; "cgio_open_file"; "cg_save_as"; "cg_close"; "cgio_close_file"; "cgio_cleanup"; "cg_error_exit"; "cgio_error_exit";
   "cg_exit_on_errors"; "cgio_error_abort"; "cg_is_cgns"; "cgio_check_file"; "cgio_compress_file"; "cgio_copy_file"].

(* ENTRY POINTS FOR WHICH AN OBLIGATION IS NOT ESTABLISHED ON THE CURRENT CODE.  A listed function is excused, never required
   to fail an obligation: repairing it in /repo breaks nothing here.  The lists are exact for the current sources (the
   extracted functions late_names / tolerant_names / silent_names12 recompute them on every run; checks/C12.py reports a
   function that newly fails).  Categories:
     [G] a genuine defect, confirmed on the real library by the check (finding keys in notes/C12.md);
     [D] delegates to / shares the helper of a [G] function;
     [W] a wrapper that delegates ALL validation and afterwards looks the new entity up again with the same arguments;
     [P] the skeleton is path-insensitive where the code is not (exclusive paths inside a callee, flags that correlate a
         message with a status, a branch that is dead in this configuration): no claim is made, the dynamic oracle covers it. *)
Definition revalidating_wrappers : list string :=                                                     (* [W] *)
  ["cg_section_write"; "cg_poly_section_write"; "cg_sol_ptset_write"; "cg_particle_sol_ptset_write";
   "cg_subreg_ptset_write"; "cg_subreg_bcname_write"; "cg_subreg_gcname_write"; "cg_discrete_ptset_write"].
(* validation-before-effect not established *)
Definition known_late : list string :=
  [(* [G] cgi_get_zcoorGC / cgi_get_particle_pcoorPC create the coordinates container (memory, and the file in MODIFY mode)
      before the caller validates its other arguments *)
   "cg_coord_info"; "cg_coord_read"; "cg_coord_general_read"; "cg_coord_id"; "cg_coord_write"; "cg_coord_partial_write";
   "cg_coord_general_write"; "cg_particle_coord_info"; "cg_particle_coord_read"; "cg_particle_coord_general_read";
   "cg_particle_coord_id"; "cg_particle_coord_write"; "cg_particle_coord_partial_write"; "cg_particle_coord_general_write";
   (* [P] the ZoneGridConnectivity_t container is created and counted (zone->nzconn = 1), then cgi_get_zconn is asked for it:
      that call cannot fail any more (cg_1to1_write now validates its ranges first; cg_hole_write, cg_conn_write,
      cg_conn_write_short: no failing input found) *)
   "cg_1to1_write"; "cg_hole_write"; "cg_conn_write"; "cg_conn_write_short";
   (* [G] cg_family_write: the second component of a family tree path is refused after the first was created (confirmed);
      cg_boco_normal_write: "already defined" test of the normal index after the normal list was written (not confirmed);
      [P] cg_geo_write / cg_node_geo_write: the file name is now tested first, the old test after the delete is kept and dead *)
   "cg_family_write"; "cg_geo_write"; "cg_node_geo_write"; "cg_boco_normal_write";
   (* [P] cgi_array_general_write: the size checks against an existing array follow cgi_array_address, which allocates only
      on the path where there is no existing array; [D] its callers *)
   "cg_array_general_write"; "cg_field_write"; "cg_field_partial_write"; "cg_field_general_write"; "cg_particle_field_write";
   "cg_particle_field_partial_write"; "cg_particle_field_general_write";
   (* [P] element sections: range / size tests that follow the on-demand read of the existing connectivity or the
      overwrite of an existing section; [D] the partial-write wrappers *)
   "cg_section_partial_write"; "cg_poly_elements_partial_read"; "cg_elements_partial_write"; "cg_elements_general_write";
   "cg_poly_elements_partial_write"; "cg_poly_elements_general_write"; "cg_parent_data_write"; "cg_parent_data_partial_write"].
(* a failing argument check that is not turned into a failing return *)
Definition known_tolerant : list string :=
  [(* [P] the count functions validate base / zone with cgi_get_zone / cgi_get_particle first; the NULL of the container
      getter that follows then only means "no such container" and is reported as 0 with CG_OK *)
   "cg_ncoords"; "cg_nholes"; "cg_nconns"; "cg_n1to1"; "cg_n1to1_global"; "cg_nbocos"; "cg_particle_ncoords";
   (* [P] the pointer is used again only after a delegate has validated the same indices *)
   "cg_1to1_read_global"; "cg_particle_sol_size"; "cg_subreg_gcname_write";
   (* [P] path utilities of cgns_io.c: tests of optional string arguments *)
   "cgio_path_delete"; "cgio_find_file"].
(* a failing return that is not preceded by a message on some path *)
Definition known_silent : list string :=
  [(* [G] cgi_get_particle_pcoorPC returns NULL without a message; [D] its callers *)
   "cg_particle_coord_info"; "cg_particle_coord_read"; "cg_particle_coord_general_read"; "cg_particle_coord_id";
   "cg_particle_coord_write"; "cg_particle_coord_partial_write"; "cg_particle_coord_general_write";
   (* [G] bare `return CG_ERROR;` (unknown file type, element-size / data-dimension mismatch, empty family name) *)
   "cg_boco_write"; "cg_bc_wallfunction_write"; "cg_bc_area_write"; "cg_conn_periodic_write"; "cg_conn_average_write";
   "cg_1to1_periodic_write"; "cg_1to1_average_write"; "cg_hole_write"; "cg_conn_write"; "cg_conn_write_short"; "cg_1to1_write";
   "cg_section_general_write"; "cg_section_write"; "cg_poly_section_write"; "cg_section_partial_write"; "cg_section_initialize";
   "cg_ElementPartialSize"; "cg_elements_read"; "cg_poly_elements_read"; "cg_elements_partial_read"; "cg_elements_general_read";
   "cg_poly_elements_general_read"; "cg_elements_partial_write"; "cg_elements_general_write"; "cg_poly_elements_partial_write";
   "cg_poly_elements_general_write"; "cg_parent_data_write"; "cg_famname_read"; "cg_array_read_as"; "cg_dataclass_read";
   "cg_coord_write"; "cg_coord_partial_write"; "cg_coord_general_write";
   (* [P] navigation: cgi_next_posit returns a code and its caller chooses the message by that code *)
   "cg_goto"; "cg_goto_f08"; "cg_gorel"; "cg_gorel_f08"; "cg_gopath"; "cg_golist";
   (* [P] not status functions / file-name utilities *)
   "cg_free"; "cgio_find_file"; "cgio_compute_data_size"; "cgio_error_message"].
Local Close Scope string_scope.

(* ------------------------------------------------------------------------------------------------ table-level checks *)
Definition vprim_set (externs : list (positive * string)) : PositiveSet.t := prim_set externs.
Definition vis_api (r : vrow) : bool := match vvis r with Api _ => true | Internal => false end.
Definition vin_domain (r : vrow) : bool := vis_api r && negb (smem (vname r) c12_file_ops).

Fixpoint seq_parsed (q : seq) : bool :=
  let ap := fun a => match a with AUnparsed => false | _ => true end in
  match q with
  | QEnd | QRet _ | QBrk => true
  | QAct a k => ap a && seq_parsed k
  | QIfFail a t e k => ap a && seq_parsed t && seq_parsed e && seq_parsed k
  | QIf t e k | QIfLM t e k => seq_parsed t && seq_parsed e && seq_parsed k
  | QLoop b k => seq_parsed b && seq_parsed k
  end.
Definition vall_parsed_b (t : list vrow) : bool := forallb (fun r => seq_parsed (vbody r)) t.

Record vanalysis := mkVAn {
  va_prim : PositiveSet.t; va_benign : PositiveSet.t;
  va_T : pset;       (* may change file or tree (caches excluded), any mode *)
  va_C : pset;       (* change nothing whenever they fail *)
  va_V : pset;       (* change nothing when they return at a failing validation *)
  va_NS : pset       (* every failing return is preceded by a message *)
}.
Definition vanalyse (t : list vrow) (externs : list (positive * string)) (mirrors : list (positive * (string * string))) : vanalysis :=
  let p := vprim_set externs in
  let pf := fun i => PositiveSet.mem i p in
  let b := benign_set mirrors in
  let bf := fun i => PositiveSet.mem i b in
  let T := tclosure pf bf t in
  let Cs := gfix (c_ok pf bf T) t in
  mkVAn p b T Cs (gfix (v_ok pf bf T Cs) t) (gfix ns_ok t).

Definition van_ok (t : list vrow) (a : vanalysis) : bool :=
  let pf := fun i => PositiveSet.mem i (va_prim a) in
  let bf := fun i => PositiveSet.mem i (va_benign a) in
  tclosed_b pf bf t (va_T a) &&
  gconsistent_b (c_ok pf bf (va_T a)) t (va_C a) &&
  gconsistent_b (v_ok pf bf (va_T a) (va_C a)) t (va_V a) &&
  gconsistent_b ns_ok t (va_NS a).

(* C12_validate_before_effect *)
Definition vbe_row_ok (a : vanalysis) (r : vrow) : bool :=
  implb (vin_domain r) (inset (va_V a) (vid r) CW || smem (vname r) revalidating_wrappers || smem (vname r) known_late).
Definition vbe_b t a := forallb (vbe_row_ok a) t.
(* C12_checks_return_failure *)
Definition guarded_row_ok (r : vrow) : bool := implb (vin_domain r) (guarded (vbody r) || smem (vname r) known_tolerant).
Definition guarded_b (t : list vrow) := forallb guarded_row_ok t.
(* C12_error_nonempty *)
Definition ns_row_ok (a : vanalysis) (r : vrow) : bool :=
  implb (vin_domain r) (inset (va_NS a) (vid r) CW || smem (vname r) known_silent).
Definition ns_b t a := forallb (ns_row_ok a) t.

Definition vnames_where (f : vrow -> bool) (t : list vrow) : list string := map vname (filter f t).
Definition late_names t a := vnames_where (fun r => vin_domain r && negb (inset (va_V a) (vid r) CW)) t.
Definition tolerant_names (t : list vrow) := vnames_where (fun r => vin_domain r && negb (guarded (vbody r))) t.
Definition silent_names12 t a := vnames_where (fun r => vin_domain r && negb (inset (va_NS a) (vid r) CW)) t.
Definition unclean_getters t a (names : list string) :=
  vnames_where (fun r => smem (vname r) names && negb (inset (va_C a) (vid r) CW)) t.

(* ------------------------------------------------------------------------------------------------ getters *)
Local Open Scope Z_scope.
(* the index getter as a function of ANY count and ANY array: the C test  if (i <hi> n || i <lo> lo_val) return NULL;
   return &arr[i + sub];  -- None = NULL, Some (inl x) = the element, Some (inr tt) = an access outside the array *)
Definition getter_run {A} (hi lo : cmpop) (lo_val sub : Z) (n : Z) (arr : list A) (i : Z) : option (A + unit) :=
  if getter_accepts hi lo lo_val i n then
    (if (0 <=? i + sub) && (i + sub <? Z.of_nat (List.length arr))
     then match nth_error arr (Z.to_nat (i + sub)) with Some x => Some (inl x) | None => Some (inr tt) end
     else Some (inr tt))
  else None.

(* ADDRESS4MULTIPLE: the same shape (test on given_no, element given_no + sub), and the array grows with its count *)
Definition addr_macro_ok (m : option (cmpop * cmpop * Z * Z * bool)) : bool :=
  match m with
  | Some (hi, lo, lo_val, sub, grows) =>
    (match hi with OGt => true | _ => false end) &&
    (match lo, lo_val with OLe, 0 => true | OLt, 1 => true | _, _ => false end) && (sub =? -1) && grows
  | None => false
  end.
Local Close Scope Z_scope.
Definition getters_ok_b (pairs : list (string * string)) (g : list grow) : bool := forallb (getter_ok pairs) g.
Definition getters_cover_b (names : list string) (g : list grow) : bool :=
  forallb (fun n => existsb (fun x => String.eqb (grow_name x) n) g) names.

(* ------------------------------------------------------------------------------------------------ Part 4: re-validations *)
(* key of a check: (checker, identity tokens of its arguments); usable when the checker is a function and every argument
   has an identity *)
Definition ckey := (positive * list positive)%type.
Fixpoint plist_eqb (a b : list positive) : bool :=
  match a, b with
  | [], [] => true
  | x :: a', y :: b' => Pos.eqb x y && plist_eqb a' b'
  | _, _ => false
  end.
Definition key_eqb (a b : ckey) : bool := Pos.eqb (fst a) (fst b) && plist_eqb (snd a) (snd b).
Definition key_valid (k : ckey) : bool := negb (Pos.eqb (fst k) 1) && forallb (fun t => negb (Pos.eqb t 1)) (snd k).
Definition kmem (k : ckey) (l : list ckey) : bool := existsb (key_eqb k) l.
Definition kinter (a b : list ckey) : list ckey := filter (fun k => kmem k b) a.
(* established keys at a join: None = the branch does not fall through *)
Definition ometa (a b : option (list ckey)) : option (list ckey) :=
  match a, b with
  | None, x => x
  | x, None => x
  | Some a, Some b => Some (kinter a b)
  end.
Definition is_param_tok (t : positive) : bool := Pos.leb 2 t && Pos.ltb t 100.
(* an item of a function's summary: a counted check that can make it return RINV, in the function's own tokens
   (checker 1 = an inline test, tokens = the parameters it depends on), and whether it concerns every caller (the open-mode
   and "a file is open" checks) or only callers whose own arguments flow into it *)
Definition item := (ckey * bool)%type.
Definition relevant (it : item) : bool := snd it || existsb is_param_tok (snd (fst it)).
Definition translate (ids : list positive) (t : positive) : positive :=
  if is_param_tok t then nth (Pos.to_nat t - 2) ids 1%positive else t.
Definition tr_item (ids : list positive) (it : item) : item := ((fst (fst it), map (translate ids) (snd (fst it))), snd it).
Definition kadd (k : ckey) (l : list ckey) : list ckey := if kmem k l then l else k :: l.
Definition imem (k : item) (l : list item) : bool := existsb (fun x => key_eqb (fst k) (fst x) && Bool.eqb (snd k) (snd x)) l.
Definition iadd (k : item) (l : list item) : list item := if imem k l then l else k :: l.
Definition kunion (a b : list item) : list item := fold_left (fun l k => iadd k l) a b.
Definition always_rel (v : vclass) : bool := match v with CMode _ | COpen => true | _ => false end.

Section Prepare.
  Variable Sm : positive -> list item.         (* summaries of the callees *)

  Definition live_items (est : list ckey) (cal : positive) (ids : list positive) : list item :=
    filter (fun it => relevant it && negb (key_valid (fst it) && kmem (fst it) est)) (map (tr_item ids) (Sm cal)).

  (* returns the sequence with the flags set, the keys established when control falls out (None: it does not), and the
     items through which the sequence can return at a failing validation *)
  Fixpoint prep (est : list ckey) (q : seq) {struct q} : seq * option (list ckey) * list item :=
    match q with
    | QEnd => (QEnd, Some est, [])
    | QRet r => (QRet r, None, [])
    | QBrk => (QBrk, None, [])
    | QAct a k =>
      let a' := match a with
                | ACall a0 cal args ids _ => ACall a0 cal args ids (negb (match live_items est cal ids with [] => true | _ => false end))
                | _ => a end in
      let '(k', ek, ik) := prep est k in (QAct a' k', ek, ik)
    | QIfFail a t e k =>
      match a with
      | ACheck v cal args ids _ =>
        let ky : ckey := (cal, ids) in
        let red := key_valid ky && kmem ky est in
        let '(t', et, it) := prep est t in
        let '(e', ee, ie) := prep (if key_valid ky then kadd ky est else est) e in
        let estk := if red then ee else ometa et ee in
        let '(k', ek, ik) := prep (match estk with Some l => l | None => est end) k in
        let own : list item :=
            if red || negb (counted v) then []
            else [((if Pos.eqb cal 1 then (1%positive, map Pos.succ args) else ky), always_rel v)] in
        (QIfFail (ACheck v cal args ids (negb red)) t' e' k',
         match estk with None => None | Some _ => ek end,
         kunion (kunion (kunion own (if red then [] else it)) ie) ik)
      | ACall a0 cal args ids _ =>
        let live := live_items est cal ids in
        let mi := negb (match live with [] => true | _ => false end) in
        let '(t', et, it) := prep est t in
        let '(e', ee, ie) := prep est e in
        let estk := ometa et ee in
        let '(k', ek, ik) := prep (match estk with Some l => l | None => est end) k in
        (QIfFail (ACall a0 cal args ids mi) t' e' k',
         match estk with None => None | Some _ => ek end,
         kunion (kunion (kunion live it) ie) ik)
      | _ =>
        let '(t', et, it) := prep est t in
        let '(e', ee, ie) := prep est e in
        let estk := ometa et ee in
        let '(k', ek, ik) := prep (match estk with Some l => l | None => est end) k in
        (QIfFail a t' e' k', match estk with None => None | Some _ => ek end, kunion (kunion it ie) ik)
      end
    | QIf t e k =>
      let '(t', et, it) := prep est t in
      let '(e', ee, ie) := prep est e in
      let estk := ometa et ee in
      let '(k', ek, ik) := prep (match estk with Some l => l | None => est end) k in
      (QIf t' e' k', match estk with None => None | Some _ => ek end, kunion (kunion it ie) ik)
    | QIfLM t e k =>
      let '(t', et, it) := prep est t in
      let '(e', ee, ie) := prep est e in
      let estk := ometa et ee in
      let '(k', ek, ik) := prep (match estk with Some l => l | None => est end) k in
      (QIfLM t' e' k', match estk with None => None | Some _ => ek end, kunion (kunion it ie) ik)
    | QLoop b k =>
      let '(b', _, ib) := prep est b in
      let '(k', ek, ik) := prep est k in
      (QLoop b' k', ek, kunion ib ik)
    end.
End Prepare.

From Coq Require Import FMapPositive.
Definition smap := PositiveMap.t (list item).
Definition sm_get (m : smap) (i : positive) : list item := match PositiveMap.find i m with Some l => l | None => [] end.
Definition sm_step (t : list vrow) (m : smap) : smap :=
  fold_left (fun m' r => PositiveMap.add (vid r) (snd (prep (sm_get m) [] (vbody r))) m') t (PositiveMap.empty _).
Definition sm_size (m : smap) : nat := PositiveMap.fold (fun _ l n => (List.length l + n)%nat) m O.
Fixpoint sm_iter (t : list vrow) (n : nat) (m : smap) : smap :=
  match n with
  | O => m
  | S n' => let m' := sm_step t m in if Nat.eqb (sm_size m') (sm_size m) then m' else sm_iter t n' m'
  end.
Definition summaries (t : list vrow) : smap := sm_iter t 40 (PositiveMap.empty _).
(* the summaries are a fixpoint (sizes are stable and every function's items are reproduced) *)
Definition sm_stable_b (t : list vrow) (m : smap) : bool :=
  forallb (fun r => let l := snd (prep (sm_get m) [] (vbody r)) in
                    forallb (fun k => imem k (sm_get m (vid r))) l) t.
Definition prepare (t : list vrow) : list vrow :=
  let m := summaries t in
  map (fun r => mkVRow (vid r) (vname r) (vvis r) (vpk r) (fst (fst (prep (sm_get m) [] (vbody r))))) t.

(* ------------------------------------------------------------------------------------------------ for the extracted engine *)
(* the argument checks a call certainly passes before anything else can return: the spine of the body.  A check is on the
   spine while no earlier statement can return; (class, callee, parameter positions, identities, is a check) *)
Fixpoint has_ret (q : seq) : bool :=
  match q with
  | QEnd => false
  | QRet _ | QBrk => true
  | QAct _ k => has_ret k
  | QIfFail _ t e k | QIf t e k | QIfLM t e k => has_ret t || has_ret e || has_ret k
  | QLoop b k => has_ret b || has_ret k
  end.
(* the checks every SUCCESSFUL path of the body runs through.  A branch does not end the spine when neither arm can return
   success or leave a loop (no_ok_ret: every return in the arms is a failing one, e.g. the file-selection step
   `if (posit != 0) { cg = cgi_get_file(posit_file); if (cg == 0 ..) return CG_ERROR; }` in front of the argument checks):
   whatever the arms did, a call that succeeds continues with k. *)
Definition spine_item := (vclass * positive * list positive * list positive * bool)%type.
Fixpoint spine (q : seq) : list spine_item :=
  match q with
  | QAct _ k => spine k
  | QIfFail a t e k =>
    if arm_fails t then
      let here : list spine_item :=
          match a with
          | ACheck v i args ids _ => [(v, i, args, ids, true)]
          | ACall _ i args ids _ => [(CState, i, args, ids, false)]
          | _ => [] end in
      here ++ (if has_ret e then [] else spine e ++ spine k)
    else if no_ok_ret t && no_ok_ret e then spine k else []
  | QIf t e k | QIfLM t e k => if no_ok_ret t && no_ok_ret e then spine k else []
  | QLoop b k => if has_ret b then [] else spine k
  | _ => []
  end.

(* parameter p (1-based) of the caller is certainly validated with class v: directly, or by a delegate on whose spine the
   check of the corresponding parameter sits (the caller's parameter must be passed through unchanged) *)
Fixpoint claims (depth : nat) (rows : positive -> option vrow) (q : seq) : list (positive * vclass) :=
  match depth with
  | O => []
  | S d =>
    flat_map (fun it : spine_item =>
      let '(v, i, args, ids, isck) := it in
      if isck then map (fun p => (p, v)) args
      else match rows i with
           | Some r =>
             flat_map (fun pc : positive * vclass =>
                         let '(pj, vj) := pc in
                         let t := nth (Pos.to_nat pj - 1) ids 1%positive in
                         if is_param_tok t then [(Pos.pred t, vj)] else [])
                      (claims d rows (vbody r))
           | None => []
           end) (spine q)
  end.
Definition vclass_tag (v : vclass) : string :=
  match v with
  | CHandle => "handle" | COpen => "open" | CMode MRead => "mode-read" | CMode MWrite => "mode-write" | CMode MModify => "mode-modify"
  | CIndex => "index" | CName => "name" | CEnum => "enum" | CRange => "range" | CNull => "null" | CState => "state"
  end%string.
(* CLAIMS COMPLETENESS: every handle / index / name / enumeration parameter of an entry point is certainly validated (a check
   of a matching class on the spine, directly or through a delegate) -- or is named in Validate.known_unvalidated *)
Definition kind_matches (k : pkind) (v : vclass) : bool :=
  match k, v with
  | PH, CHandle => true
  | PI, CIndex | PI, CRange => true
  | PN, CName => true
  | PE, CEnum | PE, CRange => true
  | _, _ => false
  end.
Fixpoint unclaimed_from (n : positive) (ks : list pkind) (cl : list (positive * vclass)) : list positive :=
  match ks with
  | [] => []
  | k :: ks' =>
    (match k with
     | PO => []
     | _ => if existsb (fun pc => Pos.eqb (fst pc) n && kind_matches k (snd pc)) cl then [] else [n]
     end) ++ unclaimed_from (Pos.succ n) ks' cl
  end.
Definition unclaimed (rows : positive -> option vrow) (r : vrow) : list positive :=
  unclaimed_from 1 (vpk r) (claims 4 rows (vbody r)).
Definition claims_all (t : list vrow) : list (string * list (positive * string)) :=
  map (fun r => (vname r, map (fun pc => (fst pc, vclass_tag (snd pc))) (claims 4 (vrows_of t) (vbody r)))) (filter vis_api t).

(* (entry point, 1-based parameter position) pairs for which no validation is found on the spine of the CURRENT code.  The
   list is exact (recomputed by unclaimed_all on every run); a pair that is not listed and becomes unclaimed -- a check that
   was removed or moved behind a branch -- breaks C12_parameters_validated.  Reasons: the cg_<Enum>Name functions return
   "<invalid>" by design; node-context readers validate their index inside the cgi_*_address resolvers through a flag the
   skeleton does not follow; cgio_* names are validated by the back ends; wrappers whose spine ends at a branch; and the
   genuinely missing checks reported as findings (cg_*_ptset_write ptset_type and cg_boco_normal_write NormalDataType: tested
   only behind a branch; cg_section_general_write elementDataType ...) *)
Definition known_unvalidated : list (string * positive) :=
  [("cg_MassUnitsName"%string, 1%positive); ("cg_LengthUnitsName"%string, 1%positive); ("cg_TimeUnitsName"%string, 1%positive); ("cg_TemperatureUnitsName"%string, 1%positive); 
   ("cg_AngleUnitsName"%string, 1%positive); ("cg_ElectricCurrentUnitsName"%string, 1%positive); ("cg_SubstanceAmountUnitsName"%string, 1%positive); 
   ("cg_LuminousIntensityUnitsName"%string, 1%positive); ("cg_DataClassName"%string, 1%positive); ("cg_GridLocationName"%string, 1%positive); ("cg_BCDataTypeName"%string, 1%positive); 
   ("cg_GridConnectivityTypeName"%string, 1%positive); ("cg_PointSetTypeName"%string, 1%positive); ("cg_GoverningEquationsTypeName"%string, 1%positive); 
   ("cg_ModelTypeName"%string, 1%positive); ("cg_BCTypeName"%string, 1%positive); ("cg_DataTypeName"%string, 1%positive); ("cg_ElementTypeName"%string, 1%positive); 
   ("cg_ZoneTypeName"%string, 1%positive); ("cg_RigidGridMotionTypeName"%string, 1%positive); ("cg_ArbitraryGridMotionTypeName"%string, 1%positive); 
   ("cg_SimulationTypeName"%string, 1%positive); ("cg_WallFunctionTypeName"%string, 1%positive); ("cg_AreaTypeName"%string, 1%positive); 
   ("cg_AverageInterfaceTypeName"%string, 1%positive); ("cg_ParticleGoverningEquationsTypeName"%string, 1%positive); ("cg_ParticleModelTypeName"%string, 1%positive); 
   ("cg_zone_write"%string, 5%positive); ("cg_node_family_read"%string, 1%positive); ("cg_node_family_name_read"%string, 1%positive); 
   ("cg_discrete_ptset_write"%string, 5%positive); ("cg_grid_bounding_box_write"%string, 5%positive); 
   ("cg_coord_read"%string, 4%positive); ("cg_coord_general_read"%string, 4%positive); 
   
   
   ("cg_section_general_write"%string, 6%positive); ("cg_elements_general_write"%string, 7%positive); ("cg_poly_elements_general_write"%string, 7%positive); 
   ("cg_sol_ptset_write"%string, 5%positive); ("cg_field_read"%string, 5%positive); ("cg_field_general_read"%string, 5%positive); ("cg_subreg_ptset_write"%string, 6%positive); 
   ("cg_subreg_bcname_write"%string, 6%positive); ("cg_subreg_gcname_write"%string, 6%positive); 
   ("cg_conn_read"%string, 6%positive); 
   ("cg_conn_write"%string, 11%positive); ("cg_conn_write"%string, 12%positive); ("cg_conn_write"%string, 13%positive); 
   
   ("cg_boco_write"%string, 6%positive); ("cg_boco_gridlocation_write"%string, 5%positive); 
   ("cg_boco_normal_write"%string, 7%positive); ("cg_particle_bounding_box_write"%string, 5%positive); 
   ("cg_particle_coord_read"%string, 4%positive); 
   ("cg_particle_coord_general_read"%string, 4%positive); ("cg_particle_field_read"%string, 5%positive); ("cg_particle_field_general_read"%string, 5%positive); 
   ("cg_goto"%string, 2%positive); ("cg_goto_f08"%string, 2%positive); ("cg_gorel"%string, 1%positive); ("cg_gorel_f08"%string, 1%positive); ("cg_gopath"%string, 1%positive); ("cg_famname_write"%string, 1%positive); 
   ("cg_multifam_read"%string, 1%positive); ("cg_array_info"%string, 1%positive); ("cg_array_read"%string, 1%positive); ("cg_array_read_as"%string, 1%positive); 
   ("cg_array_read_as"%string, 2%positive); ("cg_array_general_read"%string, 1%positive); ("cg_array_general_read"%string, 4%positive); ("cg_integral_read"%string, 1%positive); 
   ("cg_descriptor_read"%string, 1%positive); 
   ("cg_link_write"%string, 1%positive); ("cg_user_data_read"%string, 1%positive); ("cg_ptset_write"%string, 1%positive); 
   ("cg_bcdataset_read"%string, 1%positive); ("cgio_create_node"%string, 3%positive); ("cgio_new_node"%string, 3%positive); ("cgio_copy_node"%string, 3%positive); 
   ("cgio_create_link"%string, 3%positive); ("cgio_get_node_id"%string, 3%positive); ("cgio_set_name"%string, 4%positive)].
Definition pmem (p : string * positive) (l : list (string * positive)) : bool :=
  existsb (fun q => String.eqb (fst p) (fst q) && Pos.eqb (snd p) (snd q)) l.
Definition kinds_row_ok (t : list vrow) (r : vrow) : bool :=
  implb (vin_domain r) (forallb (fun p => pmem (vname r, p) known_unvalidated) (unclaimed (vrows_of t) r)).
Definition kinds_claimed_b (t : list vrow) : bool := forallb (kinds_row_ok t) t.
Definition unclaimed_all (t : list vrow) : list (string * list positive) :=
  filter (fun x => match snd x with [] => false | _ => true end)
         (map (fun r => (vname r, unclaimed (vrows_of t) r)) (filter vin_domain t)).

(* open modes an entry point certainly rejects: the mode checks on its spine (also through delegates) *)
Fixpoint mode_gates (depth : nat) (rows : positive -> option vrow) (q : seq) : list gmode :=
  match depth with
  | O => []
  | S d =>
    flat_map (fun it : spine_item =>
                match it with
                | (CMode m, _, _, _, true) => [m]
                | (_, i, _, _, false) => match rows i with Some r => mode_gates d rows (vbody r) | None => [] end
                | _ => []
                end) (spine q)
  end.
Definition mode_gates_all (t : list vrow) : list (string * list gmode) :=
  map (fun r => (vname r, mode_gates 3 (vrows_of t) (vbody r))) (filter vis_api t).

(* the getter model on the array [0; 1; ..; n-1]: the offset of the element returned, -1 for NULL, -2 for an access outside *)
Local Open Scope Z_scope.
Definition zrange (n : nat) : list Z := map Z.of_nat (List.seq 0 n).
Definition getter_sample (hi lo : cmpop) (lo_val sub n i : Z) : Z :=
  match getter_run hi lo lo_val sub n (zrange (Z.to_nat n)) i with
  | None => -1
  | Some (inl x) => x
  | Some (inr _) => -2
  end.
Local Close Scope Z_scope.
