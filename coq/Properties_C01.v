(* Properties_C01.v -- exported theorems for C01 (data written through the mid-level API is read back identically after
   reopen).  Only statements, each closed by [exact] of a lemma of SidsCodecProofs.v (or by kernel evaluation of a
   decidable predicate on the tables REGENERATED from the current sources, Gen_C01), each followed by Print Assumptions.

   Reading guide (SidsCodec.v).  A file is a [tree] of nodes (name, label, data type, dims, bytes, ordered children).
   What a client wrote is an [ent]: kind, name, payload, children IN THE ORDER THEY WERE WRITTEN (any mix of kinds).
   [enc] is what the writers put into the file, [dec] is what cg_open (CG_MODE_READ) rebuilds (None = the open fails),
   [view] is what was written, organised the way the reader organises its mirror (one list per child slot, file order,
   zones sorted by name).  [spec] has one row per entity kind (label, fixed name, payload shape, child slots),
   [post_ok] the reader's cross-node validation, [effect_of] / [exec] / [run] the API calls.  [wf] is the boolean
   well-formedness (legal names 1..32 printable characters, payload of the kind's shape with dimensions matching the
   reader's context, integers in range of their stored type, array byte count = element count * size, every child in a
   slot of its parent with the slot's cardinality, distinct sibling names, the reader's validation). *)
From Coq Require Import ZArith List Bool.
From Coq Require String.
Import String.StringSyntax.
From CgnsV Require Import ListX TreeDB SidsRows Gen_C01 SidsCodec SidsCodecProofs.
Import ListNotations.
Local Open Scope Z_scope.

(* ---- the tables of the current sources ---------------------------------------------------------------------- *)
(* every (parent label, child label, data type) that some cgi_new_node / cgi_new_node_partial call reachable from the
   API can emit -- ALL writers, incl. the 110 functions no test calls -- is collected by a cgi_get_nodes of a reader of
   that parent label and passes the data type tests that follow it; nothing unparsed.  The only exceptions are the
   pairs of [write_only], each a reported defect. *)
Theorem C01_labels_closed : labels_closed gen_writers gen_readers = true.
Proof. vm_compute. reflexivity. Qed.
Print Assumptions C01_labels_closed.

(* every row of the hand-written schema (parent label, child label, data types) is backed by the sources: a writer
   emits it, a reader collects it *)
Theorem C01_schema_in_sources : schema_in_sources gen_writers gen_readers = true.
Proof. vm_compute. reflexivity. Qed.
Print Assumptions C01_schema_in_sources.

(* the enumeration name tables, the library version and the number of element types of the model are those of the
   sources *)
Theorem C01_enum_tables : enum_tables_match gen_enum_tables = true /\ gen_version_bytes = version_bytes /\
  gen_nof_element_types = NofValidElementTypes.
Proof. vm_compute. repeat split; reflexivity. Qed.
Print Assumptions C01_enum_tables.

(* the schema is a codec: every enumeration table finds each name at its own index, blank padding is reversible,
   the slots of one reader never claim the same child, a kind selected by name has a fixed name *)
Theorem C01_schema_ok : schema_ok = true /\ kind_names_distinct = true.
Proof. vm_compute. split; reflexivity. Qed.
Print Assumptions C01_schema_ok.

(* ---- combinator laws ------------------------------------------------------------------------------------------ *)
Theorem C01_int_codec : forall sz l, (0 < sz)%nat -> forallb (int_in_range sz) l = true ->
  dec_ints sz (length l) (enc_ints sz l) = l.
Proof. exact dec_enc_ints. Qed.
Print Assumptions C01_int_codec.

Theorem C01_enum_codec : forall tbl i, enum_tbl_ok tbl = true -> enum_in tbl i = true ->
  let n := enum_name tbl i in
  lookup tbl n = Some i /\ 1 <= lenZ n /\ rstrip (pad32 n) = n /\ lenZ (pad32 n) = 32.
Proof. exact enum_tbl_ok_at. Qed.
Print Assumptions C01_enum_codec.

Theorem C01_payload_roundtrip : forall c sh v, shape_ok sh = true -> wf_payload c sh v = true ->
  let '(dt, dims, data) := enc_payload sh v in dec_payload c sh dt dims data = Some v.
Proof. exact payload_roundtrip. Qed.
Print Assumptions C01_payload_roundtrip.

(* the children combinator: a reader's slot claims exactly the written children of its kind *)
Theorem C01_children_of_label : forall parent e sp, kind_ok parent = true -> has_slot parent (ekind e) = true ->
  fixname_ok (ekind e) (ename e) = true -> In sp (k_slots (spec parent)) ->
  sel (s_kind sp) (enc e) = kind_eqb (ekind e) (s_kind sp).
Proof. exact sel_kind. Qed.
Print Assumptions C01_children_of_label.

(* ---- round trip ---------------------------------------------------------------------------------------------------- *)
(* for EVERY well-formed written entity of ANY kind, with any children in any order, under any reader context *)
Theorem C01_roundtrip : forall e c, wf c e = true -> dec c (ekind e) (enc e) = Some (view e).
Proof. exact roundtrip_all. Qed.
Print Assumptions C01_roundtrip.

Theorem C01_roundtrip_base : forall c e, ekind e = KBase -> wf c e = true -> dec c KBase (enc e) = Some (view e).
Proof. exact (roundtrip_of_kind KBase). Qed.
Theorem C01_roundtrip_zone : forall c e, ekind e = KZone -> wf c e = true -> dec c KZone (enc e) = Some (view e).
Proof. exact (roundtrip_of_kind KZone). Qed.
Theorem C01_roundtrip_grid_coordinates : forall c e, ekind e = KGrid -> wf c e = true -> dec c KGrid (enc e) = Some (view e).
Proof. exact (roundtrip_of_kind KGrid). Qed.
Theorem C01_roundtrip_data_array : forall c e, ekind e = KArray -> wf c e = true -> dec c KArray (enc e) = Some (view e).
Proof. exact (roundtrip_of_kind KArray). Qed.
Theorem C01_roundtrip_elements : forall c e, ekind e = KElements -> wf c e = true -> dec c KElements (enc e) = Some (view e).
Proof. exact (roundtrip_of_kind KElements). Qed.
Theorem C01_roundtrip_flow_solution : forall c e, ekind e = KSol -> wf c e = true -> dec c KSol (enc e) = Some (view e).
Proof. exact (roundtrip_of_kind KSol). Qed.
Theorem C01_roundtrip_zone_bc : forall c e, ekind e = KZoneBC -> wf c e = true -> dec c KZoneBC (enc e) = Some (view e).
Proof. exact (roundtrip_of_kind KZoneBC). Qed.
Theorem C01_roundtrip_bc : forall c e, ekind e = KBC -> wf c e = true -> dec c KBC (enc e) = Some (view e).
Proof. exact (roundtrip_of_kind KBC). Qed.
Theorem C01_roundtrip_bc_dataset : forall c e, ekind e = KBCDataSet -> wf c e = true -> dec c KBCDataSet (enc e) = Some (view e).
Proof. exact (roundtrip_of_kind KBCDataSet). Qed.
Theorem C01_roundtrip_zone_grid_connectivity : forall c e, ekind e = KZGC -> wf c e = true -> dec c KZGC (enc e) = Some (view e).
Proof. exact (roundtrip_of_kind KZGC). Qed.
Theorem C01_roundtrip_1to1 : forall c e, ekind e = K1to1 -> wf c e = true -> dec c K1to1 (enc e) = Some (view e).
Proof. exact (roundtrip_of_kind K1to1). Qed.
Theorem C01_roundtrip_connectivity : forall c e, ekind e = KConn -> wf c e = true -> dec c KConn (enc e) = Some (view e).
Proof. exact (roundtrip_of_kind KConn). Qed.
Theorem C01_roundtrip_hole : forall c e, ekind e = KHole -> wf c e = true -> dec c KHole (enc e) = Some (view e).
Proof. exact (roundtrip_of_kind KHole). Qed.
Theorem C01_roundtrip_family : forall c e, ekind e = KFamily -> wf c e = true -> dec c KFamily (enc e) = Some (view e).
Proof. exact (roundtrip_of_kind KFamily). Qed.
Theorem C01_roundtrip_geometry_reference : forall c e, ekind e = KGeoRef -> wf c e = true -> dec c KGeoRef (enc e) = Some (view e).
Proof. exact (roundtrip_of_kind KGeoRef). Qed.
Theorem C01_roundtrip_descriptor : forall c e, ekind e = KDescr -> wf c e = true -> dec c KDescr (enc e) = Some (view e).
Proof. exact (roundtrip_of_kind KDescr). Qed.
Theorem C01_roundtrip_units : forall c e, ekind e = KUnits -> wf c e = true -> dec c KUnits (enc e) = Some (view e).
Proof. exact (roundtrip_of_kind KUnits). Qed.
Theorem C01_roundtrip_exponents : forall c e, ekind e = KExponents -> wf c e = true -> dec c KExponents (enc e) = Some (view e).
Proof. exact (roundtrip_of_kind KExponents). Qed.
Theorem C01_roundtrip_conversion : forall c e, ekind e = KConversion -> wf c e = true -> dec c KConversion (enc e) = Some (view e).
Proof. exact (roundtrip_of_kind KConversion). Qed.
Theorem C01_roundtrip_user_data : forall c e, ekind e = KUserData -> wf c e = true -> dec c KUserData (enc e) = Some (view e).
Proof. exact (roundtrip_of_kind KUserData). Qed.
Theorem C01_roundtrip_discrete : forall c e, ekind e = KDiscrete -> wf c e = true -> dec c KDiscrete (enc e) = Some (view e).
Proof. exact (roundtrip_of_kind KDiscrete). Qed.
Theorem C01_roundtrip_integral : forall c e, ekind e = KIntegral -> wf c e = true -> dec c KIntegral (enc e) = Some (view e).
Proof. exact (roundtrip_of_kind KIntegral). Qed.
Theorem C01_roundtrip_rigid_motion : forall c e, ekind e = KRMotion -> wf c e = true -> dec c KRMotion (enc e) = Some (view e).
Proof. exact (roundtrip_of_kind KRMotion). Qed.
Theorem C01_roundtrip_arbitrary_motion : forall c e, ekind e = KAMotion -> wf c e = true -> dec c KAMotion (enc e) = Some (view e).
Proof. exact (roundtrip_of_kind KAMotion). Qed.
Theorem C01_roundtrip_base_iterative : forall c e, ekind e = KBIter -> wf c e = true -> dec c KBIter (enc e) = Some (view e).
Proof. exact (roundtrip_of_kind KBIter). Qed.
Theorem C01_roundtrip_zone_iterative : forall c e, ekind e = KZIter -> wf c e = true -> dec c KZIter (enc e) = Some (view e).
Proof. exact (roundtrip_of_kind KZIter). Qed.
Theorem C01_roundtrip_reference_state : forall c e, ekind e = KRefState -> wf c e = true -> dec c KRefState (enc e) = Some (view e).
Proof. exact (roundtrip_of_kind KRefState). Qed.
Theorem C01_roundtrip_convergence : forall c e, ekind e = KConverg -> wf c e = true -> dec c KConverg (enc e) = Some (view e).
Proof. exact (roundtrip_of_kind KConverg). Qed.
Theorem C01_roundtrip_gravity : forall c e, ekind e = KGravity -> wf c e = true -> dec c KGravity (enc e) = Some (view e).
Proof. exact (roundtrip_of_kind KGravity). Qed.
Theorem C01_roundtrip_axisymmetry : forall c e, ekind e = KAxisym -> wf c e = true -> dec c KAxisym (enc e) = Some (view e).
Proof. exact (roundtrip_of_kind KAxisym). Qed.
Theorem C01_roundtrip_rotating : forall c e, ekind e = KRotating -> wf c e = true -> dec c KRotating (enc e) = Some (view e).
Proof. exact (roundtrip_of_kind KRotating). Qed.
Theorem C01_roundtrip_equation_set : forall c e, ekind e = KEqSet -> wf c e = true -> dec c KEqSet (enc e) = Some (view e).
Proof. exact (roundtrip_of_kind KEqSet). Qed.
(* tranche 3 *)
Theorem C01_roundtrip_particle_zone : forall c e, ekind e = KPZone -> wf c e = true -> dec c KPZone (enc e) = Some (view e).
Proof. exact (roundtrip_of_kind KPZone). Qed.
Theorem C01_roundtrip_particle_coordinates : forall c e, ekind e = KPCoor -> wf c e = true -> dec c KPCoor (enc e) = Some (view e).
Proof. exact (roundtrip_of_kind KPCoor). Qed.
Theorem C01_roundtrip_particle_solution : forall c e, ekind e = KPSol -> wf c e = true -> dec c KPSol (enc e) = Some (view e).
Proof. exact (roundtrip_of_kind KPSol). Qed.
Theorem C01_roundtrip_particle_iterative : forall c e, ekind e = KPIter -> wf c e = true -> dec c KPIter (enc e) = Some (view e).
Proof. exact (roundtrip_of_kind KPIter). Qed.
Theorem C01_roundtrip_particle_equation_set : forall c e, ekind e = KPEqSet -> wf c e = true -> dec c KPEqSet (enc e) = Some (view e).
Proof. exact (roundtrip_of_kind KPEqSet). Qed.
Theorem C01_roundtrip_particle_governing : forall c e, ekind e = KPGoverning -> wf c e = true -> dec c KPGoverning (enc e) = Some (view e).
Proof. exact (roundtrip_of_kind KPGoverning). Qed.
Theorem C01_roundtrip_particle_collision_model : forall c e, ekind e = KPModColl -> wf c e = true -> dec c KPModColl (enc e) = Some (view e).
Proof. exact (roundtrip_of_kind KPModColl). Qed.
Theorem C01_roundtrip_particle_breakup_model : forall c e, ekind e = KPModBreak -> wf c e = true -> dec c KPModBreak (enc e) = Some (view e).
Proof. exact (roundtrip_of_kind KPModBreak). Qed.
Theorem C01_roundtrip_particle_force_model : forall c e, ekind e = KPModForce -> wf c e = true -> dec c KPModForce (enc e) = Some (view e).
Proof. exact (roundtrip_of_kind KPModForce). Qed.
Theorem C01_roundtrip_particle_wall_model : forall c e, ekind e = KPModWall -> wf c e = true -> dec c KPModWall (enc e) = Some (view e).
Proof. exact (roundtrip_of_kind KPModWall). Qed.
Theorem C01_roundtrip_particle_phase_change_model : forall c e, ekind e = KPModPhase -> wf c e = true -> dec c KPModPhase (enc e) = Some (view e).
Proof. exact (roundtrip_of_kind KPModPhase). Qed.
Theorem C01_roundtrip_zone_subregion : forall c e, ekind e = KSubReg -> wf c e = true -> dec c KSubReg (enc e) = Some (view e).
Proof. exact (roundtrip_of_kind KSubReg). Qed.
Theorem C01_roundtrip_bc_property : forall c e, ekind e = KBProp -> wf c e = true -> dec c KBProp (enc e) = Some (view e).
Proof. exact (roundtrip_of_kind KBProp). Qed.
Theorem C01_roundtrip_wall_function : forall c e, ekind e = KWallFn -> wf c e = true -> dec c KWallFn (enc e) = Some (view e).
Proof. exact (roundtrip_of_kind KWallFn). Qed.
Theorem C01_roundtrip_area : forall c e, ekind e = KArea -> wf c e = true -> dec c KArea (enc e) = Some (view e).
Proof. exact (roundtrip_of_kind KArea). Qed.
Theorem C01_roundtrip_connectivity_property : forall c e, ekind e = KCProp -> wf c e = true -> dec c KCProp (enc e) = Some (view e).
Proof. exact (roundtrip_of_kind KCProp). Qed.
Theorem C01_roundtrip_periodic : forall c e, ekind e = KPeriodic -> wf c e = true -> dec c KPeriodic (enc e) = Some (view e).
Proof. exact (roundtrip_of_kind KPeriodic). Qed.
Theorem C01_roundtrip_average_interface : forall c e, ekind e = KAverage -> wf c e = true -> dec c KAverage (enc e) = Some (view e).
Proof. exact (roundtrip_of_kind KAverage). Qed.
Theorem C01_roundtrip_gas_model : forall c e, ekind e = KModGas -> wf c e = true -> dec c KModGas (enc e) = Some (view e).
Proof. exact (roundtrip_of_kind KModGas). Qed.
Theorem C01_roundtrip_viscosity_model : forall c e, ekind e = KModVisc -> wf c e = true -> dec c KModVisc (enc e) = Some (view e).
Proof. exact (roundtrip_of_kind KModVisc). Qed.
Theorem C01_roundtrip_thermal_conductivity_model : forall c e, ekind e = KModCond -> wf c e = true -> dec c KModCond (enc e) = Some (view e).
Proof. exact (roundtrip_of_kind KModCond). Qed.
Theorem C01_roundtrip_turbulence_closure : forall c e, ekind e = KModClosure -> wf c e = true -> dec c KModClosure (enc e) = Some (view e).
Proof. exact (roundtrip_of_kind KModClosure). Qed.
Theorem C01_roundtrip_turbulence_model : forall c e, ekind e = KModTurb -> wf c e = true -> dec c KModTurb (enc e) = Some (view e).
Proof. exact (roundtrip_of_kind KModTurb). Qed.
Theorem C01_roundtrip_thermal_relaxation_model : forall c e, ekind e = KModRelax -> wf c e = true -> dec c KModRelax (enc e) = Some (view e).
Proof. exact (roundtrip_of_kind KModRelax). Qed.
Theorem C01_roundtrip_chemical_kinetics_model : forall c e, ekind e = KModChem -> wf c e = true -> dec c KModChem (enc e) = Some (view e).
Proof. exact (roundtrip_of_kind KModChem). Qed.
Theorem C01_roundtrip_em_electric_field_model : forall c e, ekind e = KModEMElec -> wf c e = true -> dec c KModEMElec (enc e) = Some (view e).
Proof. exact (roundtrip_of_kind KModEMElec). Qed.
Theorem C01_roundtrip_em_magnetic_field_model : forall c e, ekind e = KModEMMagn -> wf c e = true -> dec c KModEMMagn (enc e) = Some (view e).
Proof. exact (roundtrip_of_kind KModEMMagn). Qed.
Theorem C01_roundtrip_em_conductivity_model : forall c e, ekind e = KModEMCond -> wf c e = true -> dec c KModEMCond (enc e) = Some (view e).
Proof. exact (roundtrip_of_kind KModEMCond). Qed.
Theorem C01_roundtrip_diffusion_model : forall c e, ekind e = KDiffusion -> wf c e = true -> dec c KDiffusion (enc e) = Some (view e).
Proof. exact (roundtrip_of_kind KDiffusion). Qed.
Theorem C01_roundtrip_family_bc_dataset : forall c e, ekind e = KFamBCDataSet -> wf c e = true -> dec c KFamBCDataSet (enc e) = Some (view e).
Proof. exact (roundtrip_of_kind KFamBCDataSet). Qed.
Theorem C01_roundtrip_additional_family_name : forall c e, ekind e = KAddFamName -> wf c e = true -> dec c KAddFamName (enc e) = Some (view e).
Proof. exact (roundtrip_of_kind KAddFamName). Qed.
Print Assumptions C01_roundtrip_zone.

(* the whole file, for EVERY sequence of write calls (any mix and order of kinds) the session accepts: what cg_open
   (CG_MODE_READ) rebuilds from the tree the calls produced is the view of what was written *)
Theorem C01_roundtrip_file : forall cls root idxs, run root0 cls = Some (root, idxs) -> wf ctx0 root = true ->
  write_file cls = Some (enc root) /\ read_file (enc root) = Some (view root).
Proof. exact roundtrip_file_all. Qed.
Print Assumptions C01_roundtrip_file.

(* ... and the view loses nothing: every written child is reported in the slot of its kind, and every slot reports
   exactly as many children as were written with that kind *)
Theorem C01_view_complete : forall k (nm : bytes) (v : pval) kids kid, In kid kids -> has_slot k (ekind kid) = true ->
  exists sp, In sp (k_slots (spec k)) /\ s_kind sp = ekind kid /\
             In (view kid) (view_slot (map (fun e' => (ekind e', view e')) kids) sp) /\
             In (view_slot (map (fun e' => (ekind e', view e')) kids) sp) (rslots (view (E k nm v kids))).
Proof. exact view_complete. Qed.
Print Assumptions C01_view_complete.

Theorem C01_view_counts : forall kids sp,
  length (view_slot (map (fun e' => (ekind e', view e')) kids) sp) = count_kind kids (s_kind sp).
Proof. exact view_counts. Qed.
Print Assumptions C01_view_counts.

(* ---- indices ---------------------------------------------------------------------------------------------------------- *)
(* the index a write call returns designates, in the session, the entity it just wrote *)
Theorem C01_index_designates : forall root cl root' i eff root1 p pre e,
  effect_of root cl = Some eff -> resolve_container eff root = Some (root1, p) ->
  exec root cl = Some (root', i) ->
  f_new eff = pre ++ [e] -> ekind e = f_ret eff ->
  exists par, get_path p root' = Some par /\ nth_of_kind (ekids par) (f_ret eff) i = Some e /\
              get_path (p ++ [(f_ret eff, i)]) root' = Some e.
Proof. exact index_designates. Qed.
Print Assumptions C01_index_designates.

(* after reopen the same index designates it again, for every slot the reader does not sort (all but Zone_t) *)
Theorem C01_index_after_reopen : forall k (nm : bytes) (v : pval) kids sp i e, In sp (k_slots (spec k)) -> s_sorted sp = false ->
  nth_of_kind kids (s_kind sp) i = Some e -> 1 <= i ->
  nth_error (view_slot (map (fun e' => (ekind e', view e')) kids) sp) (Z.to_nat (i - 1)) = Some (view e).
Proof. exact index_after_reopen. Qed.
Print Assumptions C01_index_after_reopen.

(* ---- where the sources violate the property ---------------------------------------------------------------------------- *)
(* the property at full strength (EVERY accepted call sequence is read back) is refuted for the current sources by a
   three-call witness -- a ComplexSingle array under IntegralData_t -- unless cgi_read_node allocates complex buffers *)
Theorem C01_complex_array_refuted :
  if dt_in dts_loadable dX4 then True
  else exists root idxs, run root0 complex_witness = Some (root, idxs) /\ read_file (enc root) = None.
Proof. exact complex_array_refuted. Qed.
Print Assumptions C01_complex_array_refuted.

(* likewise for a point-set solution at a location without zone-wide data size (FaceCenter in a 3-D base), as long as
   cgi_read_sol calls cgi_datasize before it looks for the point set (a fact the translator reads off the source) *)
Theorem C01_ptset_location_refuted :
  if datasize_first (s "cgi_read_sol") then
    exists root idxs, run root0 face_ptset_witness = Some (root, idxs) /\ read_file (enc root) = None
  else True.
Proof. exact ptset_location_refuted. Qed.
Print Assumptions C01_ptset_location_refuted.

(* ---- non-vacuity --------------------------------------------------------------------------------------------------------- *)
Definition ex_calls : list call :=
  [mkCall F_base [] (s "Base") [3; 3] [] [];
   mkCall F_zone [(KBase, 1)] (s "Zone B") [2; 3; 3; 3; 2; 2; 2; 0; 0; 0] [] [];
   mkCall F_zone [(KBase, 1)] (s "Zone A") [3; 8; 1; 0] [] [];
   mkCall F_sol [(KBase, 1); (KZone, 1)] (s "Sol") [3] [] [];
   mkCall F_rind [(KBase, 1); (KZone, 1); (KSol, 1)] [] [1; 0; 0; 0; 0; 0] [] [];
   mkCall F_field [(KBase, 1); (KZone, 1); (KSol, 1)] (s "Density") [] [] [(dR4, [3; 2; 2], repeat 255 48)];
   mkCall F_boco [(KBase, 1); (KZone, 2)] (s "Wall") [20; 4; 2; 1; 4] [] [];
   mkCall F_descriptor [(KBase, 1); (KZone, 2); (KZoneBC, 1); (KBC, 1)] (s "note") [] [s "text"] [];
   mkCall F_section [(KBase, 1); (KZone, 2)] (s "Tets") [10; 1; 1; 0] [] [(dI8, [4], enc_ints 8 [1; 2; 3; 4])]].
Example C01_nonvacuous :
  match run root0 ex_calls with
  | Some (root, idxs) => wf ctx0 root = true /\ idxs = [1; 1; 2; 1; 1; 1; 1; 1; 1] /\ read_file (enc root) = Some (view root)
  | None => False
  end.
Proof. vm_compute. repeat split; reflexivity. Qed.

(* tranche 3: particle zone with coordinates, point-set solution, equation set and model; zone sub-regions; BC property
   (area, wall function); point-set flow solution; equation-set model; family tree *)
Definition ex3_calls : list call :=
  [mkCall F_base [] (s "Base") [3; 3] [] [];
   mkCall F_zone [(KBase, 1)] (s "Zone") [3; 8; 1; 0] [] [];
   mkCall F_particle [(KBase, 1)] (s "Drops") [3] [] [];
   mkCall F_particle_coord [(KBase, 1); (KPZone, 1)] (s "CoordinateX") [] [] [(dR4, [3], repeat 0 12)];
   mkCall F_particle_sol_ptset [(KBase, 1); (KPZone, 1)] (s "Some") [2; 2; 1; 3] [] [];
   mkCall F_particle_field [(KBase, 1); (KPZone, 1); (KPSol, 1)] (s "Radius") [] [] [(dR8, [2], repeat 7 16)];
   mkCall F_particle_equationset [(KBase, 1); (KPZone, 1)] [] [3] [] [];
   mkCall F_particle_model [(KBase, 1); (KPZone, 1); (KPEqSet, 1)] [] [1; 24] [] [];
   mkCall F_subreg_ptset [(KBase, 1); (KZone, 1)] (s "Region") [2; 4; 2; 2; 5; 6] [] [];
   mkCall F_subreg_bcname [(KBase, 1); (KZone, 1)] (s "OnWall") [2] [s "Wall"] [];
   mkCall F_boco [(KBase, 1); (KZone, 1)] (s "Wall") [20; 4; 2; 1; 4] [] [];
   mkCall F_bc_area [(KBase, 1); (KZone, 1); (KZoneBC, 1); (KBC, 1)] [] [2] [s "patch"] [(dR4, [1], [0; 0; 128; 63])];
   mkCall F_bc_wallfunction [(KBase, 1); (KZone, 1); (KZoneBC, 1); (KBC, 1)] [] [2] [] [];
   mkCall F_sol_ptset [(KBase, 1); (KZone, 1)] (s "OnCells") [3; 4; 2; 1; 1] [] [];
   mkCall F_field [(KBase, 1); (KZone, 1); (KSol, 1)] (s "Pressure") [] [] [(dR4, [1], [1; 2; 3; 4])];
   mkCall F_equationset [(KBase, 1)] [] [3] [] [];
   mkCall F_model [(KBase, 1); (KEqSet, 1)] [] [4; 11] [] [];
   mkCall F_family [(KBase, 1)] (s "Fam") [] [] [];
   mkCall F_node_family [(KBase, 1); (KFamily, 1)] (s "Sub") [] [] [];
   mkCall F_fambc [(KBase, 1); (KFamily, 1)] (s "FBC") [20] [] [];
   mkCall F_bcdataset [(KBase, 1); (KFamily, 1); (KFamilyBC, 1)] (s "Set") [20; 2] [] []].
Example C01_nonvacuous_tranche3 :
  match run root0 ex3_calls with
  | Some (root, idxs) =>
      wf ctx0 root = true /\ idxs = [1; 1; 1; 1; 1; 1; 1; 1; 1; 2; 1; 1; 1; 1; 1; 1; 1; 1; 1; 1; 1] /\
      read_file (enc root) = Some (view root)
  | None => False
  end.
Proof. vm_compute. repeat split; reflexivity. Qed.
