(* Extract_c07.v -- extraction of the C07/C12 model (Gates) and of the regenerated table to OCaml.  ExtrOcamlBasic only;
   positive, nat, Z, string, ascii stay extracted inductives.  No Extract Constant / Extract Inductive of our own. *)
From Coq Require Import Extraction ExtrOcamlBasic.
From CgnsV Require Import Gates Gen_C07.
Extraction Language OCaml.
Set Extraction KeepSingleton.
Extraction "extracted/c07/model.ml" Gates.model_all Gates.analyse Gates.bad_mutators Gates.bad_readers Gates.mutator_names
  Gates.gated_names Gates.mirror_readers Gates.late_validation Gates.silent_names Gates.bad_getters Gates.unknown_externs
  Gates.known_ungated Gates.known_impure_readers Gen_C07.table Gen_C07.externs Gen_C07.getters Gen_C07.alloc_pairs.
