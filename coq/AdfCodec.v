(* AdfCodec.v -- C13: the on-disk decoders of src/adf/ADF_internals.c as total functions over byte strings.

   Transcription rules (AGENT_GUIDE): same case splits and arithmetic as the C, explicit wrap where the C
   wraps, every disk access through [read_file] (a transcription of ADFI_read_file + ADFI_fseek_file +
   ADFI_read over an immutable byte string), every buffer the C allocates represented WITH ITS SIZE.
   Outcomes other than [Ok]/[Err] are the things the property forbids or that leave the modelled fragment:

     OOBW s   a C store outside the buffer of site s        OOBR s   a C load outside the buffer of site s
     Uninit   a C load of a malloc'd cell never written     Stale    bytes served past what read() obtained
     Abort    an assert() of the (non-NDEBUG) build fails   Ext      leaves the model (other file, translation)
     UB       signed int overflow in the C (UBSan)
     OutOfFuel                                              Err c    clean error return, c = ADF error code

   Sites: 1 sub_node_table (heap, ADFI_check_4_child_name)   2 data_chunk_table (heap, ADF_Read_All_Data)
          3 link_data[5122] (stack, ADF_Get_Link_Path)       4 tokenized_data_type[2] (stack, ADF_Get_Link_Path)
          5 tag scan of ADFI_stridx_c over a non-terminated char array (stack)
          6 memcpy with negative length (ADFI_read_file)     7 the caller's data buffer (ADF_Read_All_Data)
          8 link_file[1025] / link_path[4097] (stack, ADFI_chase_link)
          9 the caller's version[ADF_VERSION_LENGTH + 1] (ADF_Database_Version)

   The code exists in two states: as it was when C13 was first checked ([legacy]) and with the repairs of
   notes/C13-fixes/NN-*.diff applied ([repaired]).  Every repair is one switch of the record [fixes]; a function whose
   C text a repair changes takes the record and follows the old or the new text.  checks/C13.py finds out, by running
   the witness files of corpus/C13 on the library built from the working tree, which state each switch is in, and
   compares the library with the model in that state.
   No proofs in this file. *)
From Coq Require Import ZArith List Bool.
From CgnsV Require Import ListX Fuel.
Import ListNotations.
Local Open Scope Z_scope.

Definition bytes := list Z.

(* one switch per repair (notes/C13-fixes):
   fx_snt   01 sub-node table length must equal the header's entry count; num_sub_nodes <= entries_for_sub_nodes
   fx_dct   02 data-chunk table length must equal the header's number_of_data_chunks
   fx_ver   20 ADF_Database_Version looks for the '>' that ends the version inside the 32 characters of the "what"
               field (was: strcspn over the unterminated field and on into the rest of the header structure)
   fx_lfile, fx_lpath, fx_lnosep   the three output-side guards of repair 03, one switch each: file part <= 1024
               characters; path part behind a separator <= 4096; path of a payload WITHOUT separator <= 4096
   fx_link  03 (input side) ADF_Get_Link_Path / ADF_Link_Size: type exactly LK, one dimension, 1 <= length <= 5121 / file_bytes,
               file part <= 1024 and path part <= 4096 characters
   fx_nest  04 ADF_MAXIMUM_LINK_DEPTH also bounds the nesting of ADFI_chase_link activations (/repo 8281ca0)
   fx_fmt   05 unknown format / OS-size letters are ADF_FILE_FORMAT_NOT_RECOGNIZED (was: assert, shift of a negative char)
   fx_tag   06 boundary tags of node header and free-chunk table compared over exactly 4 bytes
   fx_dtov  07 data-type sizes that do not fit an int are INVALID_DATA_TYPE (was: signed overflow)
   fx_rtype 08 ADF_Read_All_Data refuses a two-character memory type for a node whose type goes on after two
               characters (/repo 3a1c414; was: first 2 characters compared only)
   fx_dim   11 ADF_Get_Dimension_Values refuses values >= 2^63
   fx_short 13 ADFI_read_file refuses bytes beyond what the (short) block read obtained, and negative lengths
   fx_sizes 14 untranslated copy only if the header's type sizes equal the machine's
   fx_rad   15 ADF_Read_All_Data: a data chunk that ends before it starts is ADF_DISK_TAG_ERROR; the zero fill of missing
               data counts bytes of memory, not of the file *)
Record fixes := { fx_snt : bool; fx_dct : bool; fx_link : bool; fx_nest : bool; fx_fmt : bool; fx_tag : bool;
                  fx_dtov : bool; fx_rtype : bool; fx_dim : bool; fx_short : bool; fx_sizes : bool; fx_rad : bool;
                  fx_lfile : bool; fx_lpath : bool; fx_lnosep : bool; fx_ver : bool }.
Definition legacy : fixes :=
  {| fx_snt := false; fx_dct := false; fx_link := false; fx_nest := false; fx_fmt := false; fx_tag := false;
     fx_dtov := false; fx_rtype := false; fx_dim := false; fx_short := false; fx_sizes := false; fx_rad := false;
     fx_lfile := false; fx_lpath := false; fx_lnosep := false; fx_ver := false |}.
Definition repaired : fixes :=
  {| fx_snt := true; fx_dct := true; fx_link := true; fx_nest := true; fx_fmt := true; fx_tag := true;
     fx_dtov := true; fx_rtype := true; fx_dim := true; fx_short := true; fx_sizes := true; fx_rad := true;
     fx_lfile := true; fx_lpath := true; fx_lnosep := true; fx_ver := true |}.

Inductive out (A : Type) : Type :=
| Ok (a : A) | Err (code : Z) | OOBW (site : Z) | OOBR (site : Z) | Uninit | Stale | Abort | UB | Ext | OutOfFuel.
Arguments Ok {A} a. Arguments Err {A} code. Arguments OOBW {A} site. Arguments OOBR {A} site.
Arguments Uninit {A}. Arguments Stale {A}. Arguments Abort {A}. Arguments UB {A}. Arguments Ext {A}. Arguments OutOfFuel {A}.

Definition bind {A B} (x : out A) (f : A -> out B) : out B :=
  match x with
  | Ok a => f a | Err c => Err c | OOBW s => OOBW s | OOBR s => OOBR s | Uninit => Uninit
  | Stale => Stale | Abort => Abort | UB => UB | Ext => Ext | OutOfFuel => OutOfFuel
  end.
Notation "x <- e ;; k" := (bind e (fun x => k)) (at level 61, e at next level, right associativity).
Notation "' p <- e ;; k" := (bind e (fun p => k)) (at level 61, p pattern, e at next level, right associativity).

(* ADF error codes (ADF.h) *)
Definition E_LT_MIN := 1.   Definition E_GT_MAX := 2.   Definition E_LEN_ZERO := 3.  Definition E_LEN_BIG := 4.
Definition E_NOT_HEX := 5.  Definition E_BLOCK_OFFSET := 11. Definition E_FREAD := 15. Definition E_MEM_TAG := 16.
Definition E_DISK_TAG := 17. Definition E_FMT_NOT_RECOGNIZED := 19. Definition E_ZERO_DIMS := 27.
Definition E_BAD_NDIMS := 28. Definition E_CHILD_NOT_OF_PARENT := 29. Definition E_INVALID_DATA_TYPE := 31.
Definition E_NO_DATA := 33. Definition E_DATA_TOO_LONG := 35. Definition E_MIN_GT_MAX := 38.
Definition E_NATIVE_FORMAT := 40. Definition E_LINKS_TOO_DEEP := 50. Definition E_NOT_A_LINK := 51.
Definition E_LINK_TARGET := 52. Definition E_INCOMPLETE_DATA := 55. Definition E_INVALID_NODE_NAME := 56.
Definition E_INVALID_VERSION := 57. Definition E_MACHINE_FILE := 60. Definition E_MAX_FILE_SIZE := 63.
Definition E_SNT_ENTRIES_BAD := 24. Definition E_BAD_DIM_VALUE := 47. Definition E_CONV_FORMATS_EQUAL := 41.

Definition W32 := 4294967296.              (* 2^32 *)
Definition W64 := 18446744073709551616.    (* 2^64 *)
Definition H63 := 9223372036854775808.     (* 2^63 *)
Definition toS64 (x : Z) : Z := let y := x mod W64 in if y <? H63 then y else y - W64.
Definition toS32 (x : Z) : Z := let y := x mod W32 in if y <? 2147483648 then y else y - W32.
Definition BLK := 4096.

(* ---------------------------------------------------------------- byte-string access *)
Definition skipZ {A} (n : Z) (l : list A) : list A :=
  match n with Zpos p => Pos.iter (@tl A) l p | _ => l end.
Definition sliceZ (bs : bytes) (off len : Z) : bytes := firstn (Z.to_nat len) (skipZ off bs).
Definition sub (bs : bytes) (off len : nat) : bytes := firstn len (skipn off bs).
Definition beq (a b : bytes) : bool := if list_eq_dec Z.eq_dec a b then true else false.

(* strncpy(dst, src, n) for a src of at least n bytes: bytes up to the first NUL, then NUL padding *)
Fixpoint cstrn (s : bytes) : bytes :=
  match s with [] => [] | c :: t => if c =? 0 then repeat 0 (length s) else c :: cstrn t end.
(* the C string starting at s: bytes before the first NUL; None = no NUL inside the array *)
Fixpoint cstr (s : bytes) : option bytes :=
  match s with [] => None | c :: t => if c =? 0 then Some [] else option_map (cons c) (cstr t) end.
Definition cstr_or_all (s : bytes) : bytes := match cstr s with Some r => r | None => s end.

(* ---------------------------------------------------------------- ADFI_ASCII_Hex_2_unsigned_int *)
Definition hexdig (c : Z) : option Z :=
  if (48 <=? c) && (c <=? 57) then Some (c - 48)
  else if (65 <=? c) && (c <=? 70) then Some (c - 55)
  else if (97 <=? c) && (c <=? 102) then Some (c - 87)
  else None.

(* the loop  num += (j << ir); ir -= 4;  in unsigned int arithmetic *)
Fixpoint hexloop (s : bytes) (ir num : Z) : option Z :=
  match s with
  | [] => Some num
  | c :: t => match hexdig c with
              | Some j => hexloop t (ir - 4) ((num + Z.shiftl j ir) mod W32)
              | None => None
              end
  end.

Definition hex2uint (mn mx : Z) (s : bytes) : out Z :=
  let n := Z.of_nat (length s) in
  if n =? 0 then Err E_LEN_ZERO
  else if n >? 8 then Err E_LEN_BIG
  else if mn >? mx then Err E_MIN_GT_MAX
  else match hexloop s (4 * (n - 1)) 0 with
       | None => Err E_NOT_HEX
       | Some num => if num <? mn then Err E_LT_MIN else if num >? mx then Err E_GT_MAX else Ok num
       end.

(* ADFI_unsigned_int_2_ASCII_Hex (upper-case digits) -- the encoder *)
Definition hexchar (d : Z) : Z := if d <? 10 then 48 + d else 55 + d.
Fixpoint hexenc (n : nat) (v : Z) : bytes :=
  match n with O => [] | S n' => hexenc n' (v / 16) ++ [hexchar (v mod 16)] end.

(* ---------------------------------------------------------------- binary integers (ADFI_convert_integers) *)
Fixpoint le_dec (s : bytes) : Z := match s with [] => 0 | b :: t => b + 256 * le_dec t end.
Fixpoint le_enc (n : nat) (v : Z) : bytes := match n with O => [] | S n' => (v mod 256) :: le_enc n' (v / 256) end.

(* from-format -> this machine ('L' = 76): None = copy, Some true = swap; 'N' = 78, 'B' = 66, 'C' = 67 *)
Definition conv_mode (fmt : Z) : out bool :=
  if fmt =? 78 then Err E_NATIVE_FORMAT
  else if fmt =? 76 then Ok false
  else if fmt >=? 128 then UB                (* EVAL_2_BYTES(from_format, ..) shifts a negative char *)
  else if (fmt =? 66) || (fmt =? 67) then Ok true
  else Err E_FMT_NOT_RECOGNIZED.
Definition conv_int (fmt : Z) (s : bytes) : out Z :=
  sw <- conv_mode fmt ;; Ok (le_dec (if sw : bool then rev s else s)).
Definition conv_int_enc (fmt : Z) (n : nat) (v : Z) : bytes :=
  if (fmt =? 66) || (fmt =? 67) then rev (le_enc n v) else le_enc n v.

(* ---------------------------------------------------------------- disk pointers *)
Definition ptr := (Z * Z)%type.     (* block, offset *)

(* ADFI_disk_pointer_from_ASCII_Hex *)
Definition dp_from_hex (s : bytes) : out ptr :=
  b <- hex2uint 0 (W32 - 1) (sub s 0 8) ;;
  o <- hex2uint 0 BLK (sub s 8 4) ;;
  Ok (b, o).
Definition dp_to_hex (p : ptr) : bytes := hexenc 8 (fst p) ++ hexenc 4 (snd p).

(* open-file attributes the decoders depend on (ADF_FILE: old_version, format, os_size) *)
Record fattr := { fa_old : bool; fa_fmt : Z; fa_os : Z }.

(* ADFI_read_disk_pointer: 12 bytes *)
Definition dp_dec (a : fattr) (s : bytes) : out ptr :=
  if fa_old a then dp_from_hex s
  else b <- conv_int (fa_fmt a) (sub s 0 8) ;;
       o <- conv_int (fa_fmt a) (sub s 8 4) ;;
       Ok (b, o).
Definition dp_enc (a : fattr) (p : ptr) : bytes :=
  if fa_old a then dp_to_hex p
  else conv_int_enc (fa_fmt a) 8 (fst p) ++ conv_int_enc (fa_fmt a) 4 (snd p).

(* ADFI_adjust_disk_pointer *)
Definition adjust (p : ptr) : out ptr :=
  let '(b, o) := p in
  if o <? BLK then Ok p
  else let nb := o / BLK in
       let b' := (b + nb) mod W64 in
       if b' <? b then Err E_BLOCK_OFFSET else Ok (b', o - nb * BLK).

(* ---------------------------------------------------------------- tags *)
Definition upc (c : Z) : Z := if (97 <=? c) && (c <=? 122) then c - 32 else c.
Definition tag_NoDe := [78; 111; 68; 101].   Definition tag_TaiL := [84; 97; 105; 76].
Definition tag_fCbt := [102; 67; 98; 116].   Definition tag_Fcte := [70; 99; 116; 101].
Definition tag_SNTb := [83; 78; 84; 98].     Definition tag_snTE := [115; 110; 84; 69].
Definition tag_DCtb := [68; 67; 116; 98].    Definition tag_dcTE := [100; 99; 84; 69].
Definition tag_DaTa := [68; 97; 84; 97].     Definition tag_dEnD := [100; 69; 110; 68].
Definition tag_FreE := [70; 114; 101; 69].   Definition tag_EndC := [69; 110; 100; 67].
Definition tag_AdF (i : Z) := [65; 100; 70; 48 + i].

(* inner loop of ADFI_stridx_c at one start position: None = the scan left the array *)
Fixpoint pref (t tag : bytes) {struct tag} : option bool :=
  match tag with
  | [] => Some true
  | c :: tag' => match t with
                 | [] => None
                 | x :: t' => if upc x =? upc c then pref t' tag' else Some false
                 end
  end.
(* ADFI_stridx_c(str, tag) == 0 ?   [t] = the bytes from str to the END OF THE C ARRAY it points into *)
Fixpoint tagscan_from (t tag : bytes) (first : bool) : out bool :=
  match t with
  | [] => OOBR 5
  | x :: t' => if x =? 0 then Ok false
               else match pref t tag with
                    | None => OOBR 5
                    | Some true => Ok first
                    | Some false => tagscan_from t' tag false
                    end
  end.
Definition tagscan (t tag : bytes) : out bool := tagscan_from t tag true.
(* repair 06: ADFI_tag_differs compares exactly the 4 characters (case-insensitively, like the scan at position 0) *)
Definition tag4 (t tag : bytes) : bool := beq (map upc (firstn 4 t)) (map upc tag).
Definition tagcheck (c : fixes) (t tag : bytes) : out bool := if fx_tag c then Ok (tag4 t tag) else tagscan t tag.
(* the same on a NUL-terminated 5-byte tag[] array (tag[4] = 0 was stored by the caller) *)
Definition tag_eq_ci (t tag : bytes) : bool :=
  match tagscan (t ++ [0]) tag with Ok true => true | _ => false end.

(* ---------------------------------------------------------------- file header (186 bytes) *)
Record file_header := {
  fh_what : bytes; fh_cdate : bytes; fh_mdate : bytes; fh_fmt : Z; fh_os : Z;
  fh_sizes : list Z;                       (* 12 values: char short int long float double + 6 pointer sizes *)
  fh_root : ptr; fh_eof : ptr; fh_free : ptr; fh_extra : ptr }.

Fixpoint hex_fields (s : bytes) (w n : nat) (mx : Z) : out (list Z) :=
  match n with
  | O => Ok []
  | S n' => v <- hex2uint 0 mx (firstn w s) ;; r <- hex_fields (skipn w s) w n' mx ;; Ok (v :: r)
  end.

Definition header_tags_ok (d : bytes) : bool :=
  beq (sub d 32 4) (tag_AdF 0) && beq (sub d 64 4) (tag_AdF 1) && beq (sub d 96 4) (tag_AdF 2) &&
  beq (sub d 102 4) (tag_AdF 3) && beq (sub d 130 4) (tag_AdF 4) && beq (sub d 182 4) (tag_AdF 5).

(* ADFI_read_file_header on the 186 bytes it read; [a] = what ADFI_open_file remembered *)
Definition fmt_letter (x : Z) : bool := (x =? 66) || (x =? 76) || (x =? 67) || (x =? 78).
Definition os_letter (x : Z) : bool := (x =? 76) || (x =? 66).
Definition dec_file_header (c : fixes) (a : fattr) (d : bytes) : out file_header :=
  if negb (header_tags_ok d) then Err E_MEM_TAG
  else if fx_fmt c && negb (fmt_letter (fa_fmt a) && os_letter (fa_os a)) then Err E_FMT_NOT_RECOGNIZED
  else if negb (fx_fmt c) && ((fa_fmt a =? 0) || (fa_os a =? 0)) then Abort   (* assert(format != UNDEFINED_FORMAT) *)
  else
    sz <- hex_fields (sub d 106 24) 2 12 255 ;;
    r <- dp_dec a (sub d 134 12) ;;
    e <- dp_dec a (sub d 146 12) ;;
    f <- dp_dec a (sub d 158 12) ;;
    x <- dp_dec a (sub d 170 12) ;;
    Ok {| fh_what := cstrn (sub d 0 32); fh_cdate := cstrn (sub d 36 28); fh_mdate := cstrn (sub d 68 28);
          fh_fmt := nth 100 d 0; fh_os := nth 101 d 0; fh_sizes := sz;
          fh_root := r; fh_eof := e; fh_free := f; fh_extra := x |}.

Definition enc_file_header (a : fattr) (h : file_header) : bytes :=
  fh_what h ++ tag_AdF 0 ++ fh_cdate h ++ tag_AdF 1 ++ fh_mdate h ++ tag_AdF 2 ++ [fh_fmt h; fh_os h] ++ tag_AdF 3 ++
  flat_map (hexenc 2) (fh_sizes h) ++ tag_AdF 4 ++
  dp_enc a (fh_root h) ++ dp_enc a (fh_eof h) ++ dp_enc a (fh_free h) ++ dp_enc a (fh_extra h) ++ tag_AdF 5.

(* ---------------------------------------------------------------- free-chunk table (80 bytes) *)
Fixpoint dp_fields (a : fattr) (s : bytes) (n : nat) : out (list ptr) :=
  match n with
  | O => Ok []
  | S n' => p <- dp_dec a (firstn 12 s) ;; r <- dp_fields a (skipn 12 s) n' ;; Ok (p :: r)
  end.
Definition dec_fct (c : fixes) (a : fattr) (d : bytes) : out (list ptr) :=
  s <- tagcheck c d tag_fCbt ;;
  if negb s then Err E_DISK_TAG else
  e <- tagcheck c (skipn 76 d) tag_Fcte ;;
  if negb e then Err E_DISK_TAG else
  dp_fields a (sub d 4 72) 6.
Definition enc_fct (a : fattr) (ps : list ptr) : bytes := tag_fCbt ++ flat_map (dp_enc a) ps ++ tag_Fcte.

(* ---------------------------------------------------------------- node header (246 bytes) *)
Record node_header := {
  nh_name : bytes; nh_label : bytes; nh_nsub : Z; nh_entries : Z; nh_snt : ptr;
  nh_dtype : bytes; nh_ndims : Z; nh_dims : list Z; nh_nchunks : Z; nh_data : ptr }.

Fixpoint int_fields (fmt : Z) (s : bytes) (w n : nat) : out (list Z) :=
  match n with
  | O => Ok []
  | S n' => v <- conv_int fmt (firstn w s) ;; r <- int_fields fmt (skipn w s) w n' ;; Ok (v :: r)
  end.

Definition dec_node_header (c : fixes) (a : fattr) (d : bytes) : out node_header :=
  s <- tagcheck c d tag_NoDe ;;
  if negb s then Err E_DISK_TAG else
  e <- tagcheck c (skipn 242 d) tag_TaiL ;;
  if negb e then Err E_DISK_TAG else
  nsub <- hex2uint 0 (W32 - 1) (sub d 68 8) ;;
  ent <- hex2uint 0 (W32 - 1) (sub d 76 8) ;;
  if fx_snt c && (nsub >? ent) then Err E_SNT_ENTRIES_BAD else
  snt <- dp_dec a (sub d 84 12) ;;
  nd <- hex2uint 0 12 (sub d 128 2) ;;
  dims <- (if fa_old a then hex_fields (sub d 130 96) 8 12 (W32 - 1)
           else int_fields (fa_fmt a) (sub d 130 96) 8 12) ;;
  nch <- hex2uint 0 65535 (sub d 226 4) ;;
  dc <- dp_dec a (sub d 230 12) ;;
  Ok {| nh_name := cstrn (sub d 4 32); nh_label := cstrn (sub d 36 32); nh_nsub := nsub; nh_entries := ent;
        nh_snt := snt; nh_dtype := cstrn (sub d 96 32); nh_ndims := nd; nh_dims := dims; nh_nchunks := nch;
        nh_data := dc |}.

Definition enc_dims (a : fattr) (dims : list Z) : bytes :=
  if fa_old a then flat_map (hexenc 8) dims else flat_map (conv_int_enc (fa_fmt a) 8) dims.
Definition enc_node_header (a : fattr) (h : node_header) : bytes :=
  tag_NoDe ++ nh_name h ++ nh_label h ++ hexenc 8 (nh_nsub h) ++ hexenc 8 (nh_entries h) ++ dp_enc a (nh_snt h) ++
  nh_dtype h ++ hexenc 2 (nh_ndims h) ++ enc_dims a (nh_dims h) ++ hexenc 4 (nh_nchunks h) ++ dp_enc a (nh_data h) ++
  tag_TaiL.

(* ---------------------------------------------------------------- sub-node table entry (44 bytes) *)
Definition dec_snt_entry (a : fattr) (d : bytes) : out (bytes * ptr) :=
  p <- dp_dec a (sub d 32 12) ;; Ok (cstrn (sub d 0 32), p).
Definition enc_snt_entry (a : fattr) (e : bytes * ptr) : bytes := fst e ++ dp_enc a (snd e).
(* whole tables, for the structural attacks (encoder only) *)
Definition enc_snt (a : fattr) (endp : ptr) (es : list (bytes * ptr)) : bytes :=
  tag_SNTb ++ dp_enc a endp ++ flat_map (enc_snt_entry a) es ++ tag_snTE.
Definition enc_dct (a : fattr) (endp : ptr) (es : list (ptr * ptr)) : bytes :=
  tag_DCtb ++ dp_enc a endp ++ flat_map (fun e => dp_enc a (fst e) ++ dp_enc a (snd e)) es ++ tag_dcTE.
Definition enc_data_chunk (a : fattr) (endp : ptr) (data : bytes) : bytes :=
  tag_DaTa ++ dp_enc a endp ++ data ++ tag_dEnD.

(* field tables (offset, length) used by the decoders above; exported so that the mutation generator locates
   fields through the model and not through a second copy of the layout *)
Definition file_header_fields : list (Z * Z * Z) :=     (* (field id, offset, length) *)
  [(0,0,32); (1,32,4); (2,36,28); (3,64,4); (4,68,28); (5,96,4); (6,100,1); (7,101,1); (8,102,4);
   (9,106,2); (10,108,2); (11,110,2); (12,112,2); (13,114,2); (14,116,2); (15,118,2); (16,120,2); (17,122,2);
   (18,124,2); (19,126,2); (20,128,2); (21,130,4); (22,134,12); (23,146,12); (24,158,12); (25,170,12); (26,182,4)].
Definition node_header_fields : list (Z * Z * Z) :=
  [(0,0,4); (1,4,32); (2,36,32); (3,68,8); (4,76,8); (5,84,12); (6,96,32); (7,128,2);
   (8,130,8); (9,138,8); (10,146,8); (11,154,8); (12,162,8); (13,170,8); (14,178,8); (15,186,8); (16,194,8);
   (17,202,8); (18,210,8); (19,218,8); (20,226,4); (21,230,12); (22,242,4)].
