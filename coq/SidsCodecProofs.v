(* SidsCodecProofs.v -- laws of the codec combinators of SidsCodec.v and the round-trip theorems of property C01. *)
From Coq Require Import ZArith List Bool Lia Permutation.
From Coq Require String.
Import String.StringSyntax.
From CgnsV Require Import ListX TreeDB SidsRows Gen_C01 SidsCodec.
Import ListNotations.
Local Open Scope Z_scope.

(* ====================================================================================================== *)
(* booleans and byte strings                                                                               *)
(* ====================================================================================================== *)
Lemma bytes_eqb_refl a : bytes_eqb a a = true.
Proof. induction a; simpl; auto. rewrite Z.eqb_refl. auto. Qed.

Lemma bytes_eqb_eq a b : bytes_eqb a b = true -> a = b.
Proof.
  revert b; induction a as [|x a IH]; intros [|y b]; simpl; try discriminate; auto.
  intros H. apply andb_true_iff in H as [H1 H2]. apply Z.eqb_eq in H1. f_equal; auto.
Qed.

Lemma bytes_eqb_neq a b : bytes_eqb a b = false -> a <> b.
Proof. intros H E. subst. rewrite bytes_eqb_refl in H. discriminate. Qed.

Lemma bytes_eqb_sym a b : bytes_eqb a b = bytes_eqb b a.
Proof.
  destruct (bytes_eqb a b) eqn:E.
  - apply bytes_eqb_eq in E. subst. now rewrite bytes_eqb_refl.
  - destruct (bytes_eqb b a) eqn:E2; auto. apply bytes_eqb_eq in E2. subst. now rewrite bytes_eqb_refl in E.
Qed.

Lemma kind_eqb_refl k : kind_eqb k k = true.
Proof. apply internal_kind_dec_lb. reflexivity. Qed.
Lemma kind_eqb_eq k1 k2 : kind_eqb k1 k2 = true -> k1 = k2.
Proof. apply internal_kind_dec_bl. Qed.
Lemma kind_eqb_neq k1 k2 : kind_eqb k1 k2 = false -> k1 <> k2.
Proof. intros H E. subst. rewrite kind_eqb_refl in H. discriminate. Qed.

Lemma all_kinds_complete k : In k all_kinds.
Proof. destruct k; vm_compute; tauto. Qed.

Lemma zs_eqb_refl l : zs_eqb l l = true.
Proof. induction l; simpl; auto. unfold zs_eqb in *. simpl. rewrite Z.eqb_refl. auto. Qed.

(* ====================================================================================================== *)
(* integers                                                                                                 *)
(* ====================================================================================================== *)
Lemma le_bytes_length n x : length (le_bytes n x) = n.
Proof. revert x; induction n; simpl; auto. Qed.

Lemma le_val_le_bytes n : forall x, 0 <= x -> le_val (le_bytes n x) = x mod 256 ^ Z.of_nat n.
Proof.
  induction n as [|n IH]; intros x Hx.
  - simpl. now rewrite Z.mod_1_r.
  - cbn [le_bytes le_val]. rewrite IH by (apply Z.div_pos; lia).
    rewrite Nat2Z.inj_succ, Z.pow_succ_r by lia.
    rewrite Z.rem_mul_r by lia. lia.
Qed.

Lemma enc_int_length sz x : length (enc_int sz x) = sz.
Proof. apply le_bytes_length. Qed.

Lemma pow256 sz : 256 ^ Z.of_nat sz = 2 ^ (8 * Z.of_nat sz).
Proof. change 256 with (2 ^ 8). rewrite <- Z.pow_mul_r by lia. reflexivity. Qed.

Lemma dec_enc_int sz x : (0 < sz)%nat -> int_in_range sz x = true -> dec_int sz (enc_int sz x) = x.
Proof.
  intros Hsz H. unfold int_in_range in H. apply andb_true_iff in H as [H1 H2].
  apply Z.leb_le in H1. apply Z.ltb_lt in H2.
  unfold dec_int, enc_int.
  set (M := 2 ^ (8 * Z.of_nat sz)) in *.
  assert (HM : M = 2 * 2 ^ (8 * Z.of_nat sz - 1)).
  { unfold M. rewrite <- Z.pow_succ_r by lia. f_equal. lia. }
  assert (Hpos : 0 < 2 ^ (8 * Z.of_nat sz - 1)) by (apply Z.pow_pos_nonneg; lia).
  rewrite le_val_le_bytes by (apply Z.mod_pos_bound; lia).
  rewrite pow256. fold M. rewrite Z.mod_mod by lia.
  destruct (Z_lt_dec x 0) as [Hn|Hn].
  - assert (E : x mod M = x + M).
    { symmetry. apply Z.mod_unique with (q := -1); lia. }
    rewrite E. destruct (Z.ltb_spec (x + M) (2 ^ (8 * Z.of_nat sz - 1))); lia.
  - rewrite Z.mod_small by lia. destruct (Z.ltb_spec x (2 ^ (8 * Z.of_nat sz - 1))); lia.
Qed.

Lemma enc_ints_length sz l : length (enc_ints sz l) = (sz * length l)%nat.
Proof.
  induction l as [|x l IH]; simpl; [lia|]. unfold enc_ints in *. simpl.
  rewrite app_length, enc_int_length, IH. lia.
Qed.

Lemma dec_enc_ints sz l : (0 < sz)%nat -> forallb (int_in_range sz) l = true ->
  dec_ints sz (length l) (enc_ints sz l) = l.
Proof.
  intros Hsz. induction l as [|x l IH]; simpl; auto. intros H. apply andb_true_iff in H as [H1 H2].
  unfold enc_ints. simpl. fold (enc_ints sz l).
  rewrite firstn_app, enc_int_length, Nat.sub_diag, firstn_O, app_nil_r.
  rewrite firstn_all2 by (rewrite enc_int_length; lia).
  rewrite skipn_app, enc_int_length, Nat.sub_diag. simpl.
  rewrite skipn_all2 by (rewrite enc_int_length; lia). simpl.
  rewrite dec_enc_int, IH; auto.
Qed.

(* ====================================================================================================== *)
(* enumerations                                                                                             *)
(* ====================================================================================================== *)
Lemma enum_tbl_ok_at tbl i : enum_tbl_ok tbl = true -> enum_in tbl i = true ->
  let n := enum_name tbl i in
  lookup tbl n = Some i /\ 1 <= lenZ n /\ rstrip (pad32 n) = n /\ lenZ (pad32 n) = 32.
Proof.
  intros Hok Hin. unfold enum_in in Hin. apply andb_true_iff in Hin as [H0 H1].
  apply Z.leb_le in H0. apply Z.ltb_lt in H1. unfold lenZ in H1.
  unfold enum_tbl_ok in Hok. rewrite forallb_forall in Hok.
  specialize (Hok (Z.to_nat i)). rewrite Z2Nat.id in Hok by lia.
  assert (Hi : In (Z.to_nat i) (seq 0 (length tbl))) by (apply in_seq; lia).
  specialize (Hok Hi). cbv zeta in Hok.
  repeat (apply andb_true_iff in Hok as [Hok ?]).
  cbv zeta. repeat split.
  - destruct (lookup tbl (enum_name tbl i)) as [j|]; simpl in Hok; try discriminate.
    apply Z.eqb_eq in Hok. now subst.
  - now apply Z.leb_le.
  - now apply bytes_eqb_eq.
  - now apply Z.eqb_eq.
Qed.

Lemma dec_enc_enums tbls : forall l, forallb enum_tbl_ok tbls = true -> enums_in tbls l = true ->
  dec_enums tbls (enc_enums tbls l) = Some l /\ lenZ (enc_enums tbls l) = 32 * lenZ tbls /\ length l = length tbls.
Proof.
  induction tbls as [|t tr IH]; intros [|i l] Hok Hin; cbn [enc_enums dec_enums enums_in forallb] in *; try discriminate.
  - repeat split; reflexivity.
  - apply andb_true_iff in Hok as [Hok1 Hok2]. apply andb_true_iff in Hin as [Hin1 Hin2].
    destruct (enum_tbl_ok_at t i Hok1 Hin1) as (Hl & _ & Hr & Hp).
    destruct (IH l Hok2 Hin2) as (Hd & Hlen & Hll).
    assert (Hp' : length (pad32 (enum_name t i)) = 32%nat) by (unfold lenZ in Hp; lia).
    assert (F : firstn 32 (pad32 (enum_name t i) ++ enc_enums tr l) = pad32 (enum_name t i)).
    { rewrite <- Hp' at 1. rewrite firstn_app, Nat.sub_diag, firstn_O, app_nil_r. apply firstn_all. }
    assert (S : skipn 32 (pad32 (enum_name t i) ++ enc_enums tr l) = enc_enums tr l).
    { rewrite <- Hp' at 1. rewrite skipn_app, Nat.sub_diag, skipn_all. reflexivity. }
    rewrite F, S, Hr, Hl, Hd.
    repeat split; auto.
    + unfold lenZ in *. rewrite app_length. cbn [length]. lia.
    + cbn [length]. lia.
Qed.

(* ====================================================================================================== *)
(* payloads: dec (enc v) = Some v                                                                           *)
(* ====================================================================================================== *)
Lemma lenZ_enc_ints sz l : lenZ (enc_ints sz l) = Z.of_nat sz * lenZ l.
Proof. unfold lenZ. rewrite enc_ints_length. lia. Qed.

Theorem payload_roundtrip c sh v : shape_ok sh = true -> wf_payload c sh v = true ->
  let '(dt, dims, data) := enc_payload sh v in dec_payload c sh dt dims data = Some v.
Proof.
  intros Hs Hw. destruct sh, v; simpl in Hw; try discriminate; simpl.
  - reflexivity.
  - apply andb_true_iff in Hw as [H1 H2]. unfold prodZ. simpl. rewrite Z.mul_1_r, Z.eqb_refl, H1. reflexivity.
  - simpl in Hs. destruct (enum_tbl_ok_at tbl i Hs Hw) as (Hl & _).
    unfold prodZ. simpl. rewrite Z.mul_1_r, Z.eqb_refl, Hl. reflexivity.
  - simpl in Hs. destruct (dec_enc_enums tbls l Hs Hw) as (Hd & Hlen & Hll).
    unfold prodZ. simpl. rewrite Z.mul_1_r. rewrite Hlen, Hd.
    replace (lenZ l) with (lenZ tbls) by (unfold lenZ; lia). rewrite Z.eqb_refl. reflexivity.
  - repeat (apply andb_true_iff in Hw as [Hw ?]).
    rewrite Hw, H1. simpl. rewrite lenZ_enc_ints. apply Z.eqb_eq in H0. rewrite H0.
    change (Z.of_nat 4) with 4. rewrite Z.eqb_refl. simpl.
    rewrite <- H0. unfold lenZ. rewrite Nat2Z.id. rewrite dec_enc_ints; [reflexivity | lia | auto].
  - repeat (apply andb_true_iff in Hw as [Hw ?]).
    rewrite Hw, H1. simpl. rewrite lenZ_enc_ints. apply Z.eqb_eq in H0. rewrite H0.
    change (Z.of_nat 8) with 8. rewrite Z.eqb_refl. simpl.
    rewrite <- H0. unfold lenZ. rewrite Nat2Z.id. rewrite dec_enc_ints; [reflexivity | lia | auto].
  - repeat (apply andb_true_iff in Hw as [Hw ?]).
    rewrite Hw, H2, H1, H0. reflexivity.
Qed.

(* ====================================================================================================== *)
(* the children combinator and the main round-trip theorem                                                  *)
(* ====================================================================================================== *)
Section EntInd.
  Variable P : ent -> Prop.
  Hypothesis H : forall k nm v kids, Forall P kids -> P (E k nm v kids).
  Fixpoint ent_ind' (e : ent) : P e :=
    match e with
    | E k nm v kids =>
        H k nm v kids ((fix go (l : list ent) : Forall P l :=
                          match l with
                          | [] => Forall_nil _
                          | x :: r => Forall_cons _ (ent_ind' x) (go r)
                          end) kids)
    end.
End EntInd.

Lemma dec_unfold c k nm lbl dt dims data kids :
  dec c k (T nm lbl dt dims data kids) =
  if bytes_eqb lbl (k_label (spec k)) && fixname_ok k nm then
    let c1 := ctx_pre_t k c kids in
    match dec_payload c1 (k_shape (spec k)) dt dims data with
    | None => None
    | Some v =>
        let c2 := ctx_post k c1 v in
        let dk := map (fun t' => (t', fun k' => dec c2 k' t')) kids in
        match map_opt (dec_slot dk) (k_slots (spec k)) with
        | None => None
        | Some sl => if post_ok k c2 v sl then Some (R k nm v sl) else None
        end
    end
  else None.
Proof. reflexivity. Qed.

Lemma enc_label e : t_label (enc e) = k_label (spec (ekind e)).
Proof. destruct e as [k nm v kids]. simpl. destruct (enc_payload (k_shape (spec k)) v) as [[? ?] ?]. reflexivity. Qed.
Lemma enc_name e : t_name (enc e) = ename e.
Proof. destruct e as [k nm v kids]. simpl. destruct (enc_payload (k_shape (spec k)) v) as [[? ?] ?]. reflexivity. Qed.

Lemma schema_kind_ok : schema_ok = true -> forall k, kind_ok k = true.
Proof. intros H k. unfold schema_ok in H. rewrite forallb_forall in H. apply H, all_kinds_complete. Qed.

Lemma has_slot_in parent k : has_slot parent k = true -> exists sp, In sp (k_slots (spec parent)) /\ s_kind sp = k.
Proof.
  unfold has_slot. intros H. apply existsb_exists in H as (sp & Hin & He). exists sp. split; auto.
  now apply kind_eqb_eq in He.
Qed.

(* a reader's slot claims exactly the children of its kind *)
Lemma sel_kind parent e sp : kind_ok parent = true -> has_slot parent (ekind e) = true ->
  fixname_ok (ekind e) (ename e) = true -> In sp (k_slots (spec parent)) ->
  sel (s_kind sp) (enc e) = kind_eqb (ekind e) (s_kind sp).
Proof.
  intros Hk Hs Hf Hin. destruct (has_slot_in _ _ Hs) as (sp' & Hin' & Hk').
  unfold kind_ok in Hk. repeat (apply andb_true_iff in Hk as [Hk ?]).
  match goal with Hd : forallb _ (k_slots (spec parent)) = true |- _ =>
    rewrite forallb_forall in Hd; specialize (Hd sp' Hin'); rewrite forallb_forall in Hd; specialize (Hd sp Hin) end.
  rewrite Hk' in *. unfold sel. rewrite enc_label, enc_name.
  destruct (kind_eqb (ekind e) (s_kind sp)) eqn:Ek.
  - apply kind_eqb_eq in Ek. rewrite <- Ek. rewrite bytes_eqb_refl. simpl.
    unfold fixname_ok in Hf. destruct (k_selname (spec (ekind e))); auto.
  - unfold slots_disjoint in *. rewrite Ek in *. simpl in *.
    destruct (bytes_eqb (k_label (spec (ekind e))) (k_label (spec (s_kind sp)))) eqn:El; simpl in *; auto.
    destruct (k_selname (spec (ekind e))); simpl in *; try discriminate.
    destruct (k_selname (spec (s_kind sp))); simpl in *; try discriminate.
    unfold fixname_ok in Hf.
    destruct (k_fixname (spec (ekind e))) as [a|]; try discriminate.
    destruct (k_fixname (spec (s_kind sp))) as [b|]; try discriminate.
    apply bytes_eqb_eq in Hf. subst a.
    match goal with Hd : negb _ = true |- _ => apply negb_true_iff in Hd; exact Hd end.
Qed.

Lemma wf_fixname c e : wf c e = true -> fixname_ok (ekind e) (ename e) = true.
Proof.
  destruct e as [k nm v kids]. cbn [wf ekind ename]. intros H.
  repeat (apply andb_true_iff in H as [H ?]). assumption.
Qed.

Lemma wf_kids c k nm v kids : wf c (E k nm v kids) = true ->
  let c2 := ctx_post k (ctx_pre_e k c kids) v in
  forallb (wf c2) kids = true /\ forallb (fun e' => has_slot k (ekind e')) kids = true.
Proof.
  cbn [wf]. intros H. repeat (apply andb_true_iff in H as [H ?]). split; assumption.
Qed.

Lemma find_map_enc (p : tree -> bool) (q : ent -> bool) kids :
  (forall e, In e kids -> p (enc e) = q e) -> find p (map enc kids) = option_map enc (find q kids).
Proof.
  induction kids as [|e r IH]; intros H; simpl; auto.
  rewrite (H e) by (left; auto). destruct (q e); auto. apply IH. intros; apply H; right; auto.
Qed.

Lemma zonetype_data e : ekind e = KZoneType ->
  match lookup ZoneTypeName (t_data (enc e)) with Some i => i | None => 0 end =
  match eval e with VEnum i => if enum_in ZoneTypeName i then i else 0 | _ => 0 end.
Proof.
  destruct e as [k nm v kids]. cbn [ekind eval]. intros ->. cbn [enc spec k_shape].
  destruct v; try reflexivity.
  cbn [enc_payload t_data].
  destruct (enum_in ZoneTypeName i) eqn:Hi.
  - assert (Hok : enum_tbl_ok ZoneTypeName = true) by (vm_compute; reflexivity).
    destruct (enum_tbl_ok_at _ _ Hok Hi) as (Hl & _). rewrite Hl. reflexivity.
  - unfold enum_in in Hi. unfold enum_name, nthZ.
    destruct (Z.ltb_spec i 0); [reflexivity|].
    apply andb_false_iff in Hi as [Hi|Hi]; [apply Z.leb_gt in Hi; lia|].
    apply Z.ltb_ge in Hi. unfold lenZ in Hi. rewrite nth_overflow by lia. reflexivity.
Qed.

Lemma ctx_pre_agree k c kids : kind_ok k = true ->
  (forall e, In e kids -> has_slot k (ekind e) = true /\ fixname_ok (ekind e) (ename e) = true) ->
  ctx_pre_t k c (map enc kids) = ctx_pre_e k c kids.
Proof.
  intros Hk Hkids. unfold ctx_pre_t, ctx_pre_e.
  destruct (k_ctx (spec k)) eqn:Ec; auto.
  assert (Hzt : exists sp, In sp (k_slots (spec k)) /\ s_kind sp = KZoneType).
  { unfold kind_ok in Hk. rewrite Ec in Hk. repeat (apply andb_true_iff in Hk as [Hk ?]).
    match goal with Hx : existsb _ _ = true |- _ => apply existsb_exists in Hx as (sp & Hin & He) end.
    exists sp. split; auto. now apply kind_eqb_eq. }
  destruct Hzt as (sp & Hin & Hsk).
  rewrite (find_map_enc (sel KZoneType) (fun e => kind_eqb (ekind e) KZoneType)).
  2:{ intros e He. destruct (Hkids e He) as [H1 H2]. rewrite <- Hsk. eapply sel_kind; eauto. }
  destruct (find (fun e => kind_eqb (ekind e) KZoneType) kids) as [e|] eqn:Ef; simpl; auto.
  apply find_some in Ef as [_ Ek]. apply kind_eqb_eq in Ek.
  rewrite (zonetype_data e Ek). reflexivity.
Qed.

(* the children a slot collects, decoded, are the views of the written children of that kind, in order *)
Lemma slot_roundtrip (c2 : ctx) (K : kind) kids :
  (forall e, In e kids -> sel K (enc e) = kind_eqb (ekind e) K) ->
  (forall e, In e kids -> dec c2 (ekind e) (enc e) = Some (view e)) ->
  map_opt (fun p : tree * (kind -> option rnode) => snd p K)
          (filter (fun p => sel K (fst p)) (map (fun t' => (t', fun k' => dec c2 k' t')) (map enc kids)))
  = Some (map snd (filter (fun p : kind * rnode => kind_eqb (fst p) K) (map (fun e' => (ekind e', view e')) kids))).
Proof.
  induction kids as [|e r IH]; intros Hs Hd; simpl; auto.
  rewrite (Hs e) by (left; auto).
  assert (IH' := IH (fun x Hx => Hs x (or_intror Hx)) (fun x Hx => Hd x (or_intror Hx))).
  destruct (kind_eqb (ekind e) K) eqn:Ek; simpl.
  - apply kind_eqb_eq in Ek. rewrite <- Ek at 1. rewrite (Hd e) by (left; auto). rewrite IH'. reflexivity.
  - exact IH'.
Qed.

Lemma view_slot_length kids K :
  length (map snd (filter (fun p : kind * rnode => kind_eqb (fst p) K) (map (fun e' => (ekind e', view e')) kids)))
  = count_kind kids K.
Proof.
  unfold count_kind. rewrite map_length. induction kids as [|e r IH]; simpl; auto.
  destruct (kind_eqb (ekind e) K); simpl; auto.
Qed.

Lemma sort_by_name_length l : length (sort_by_name l) = length l.
Proof.
  assert (Hi : forall r l, length (insert_by_name r l) = S (length l)).
  { intros r l0. induction l0 as [|x l0 IH]; simpl; auto. destruct (bytes_leb (rname r) (rname x)); simpl; auto. }
  induction l; simpl; auto. rewrite Hi. auto.
Qed.

Lemma map_opt_ext_in {A B} (f : A -> option B) (g : A -> B) l :
  (forall x, In x l -> f x = Some (g x)) -> map_opt f l = Some (map g l).
Proof.
  induction l as [|x r IH]; intros H; simpl; auto.
  rewrite (H x) by (left; auto). rewrite IH; auto. intros; apply H; right; auto.
Qed.

Theorem roundtrip : schema_ok = true -> forall e c, wf c e = true -> dec c (ekind e) (enc e) = Some (view e).
Proof.
  intros Hsch e. induction e as [k nm v kids IH] using ent_ind'. intros c Hwf.
  pose proof (schema_kind_ok Hsch k) as Hk.
  destruct (wf_kids _ _ _ _ _ Hwf) as [Hwk Hhs]. cbv zeta in Hwk.
  rewrite forallb_forall in Hwk, Hhs.
  assert (Hkids : forall e, In e kids -> has_slot k (ekind e) = true /\ fixname_ok (ekind e) (ename e) = true).
  { intros e He. split; [apply Hhs; auto|]. eapply wf_fixname. apply Hwk; auto. }
  cbn [wf] in Hwf. repeat (apply andb_true_iff in Hwf as [Hwf ?]).
  cbn [ekind enc]. 
  pose proof (payload_roundtrip (ctx_pre_e k c kids) (k_shape (spec k)) v) as Hp.
  destruct (enc_payload (k_shape (spec k)) v) as [[dt dims] data].
  rewrite dec_unfold. rewrite bytes_eqb_refl.
  match goal with Hf : fixname_ok k nm = true |- _ => rewrite Hf end. cbn [andb].
  cbv zeta. rewrite (ctx_pre_agree k c kids Hk Hkids).
  rewrite Hp.
  2:{ unfold kind_ok in Hk. repeat (apply andb_true_iff in Hk as [Hk ?]). assumption. }
  2:{ assumption. }
  set (c2 := ctx_post k (ctx_pre_e k c kids) v) in *.
  assert (Hsl : map_opt (dec_slot (map (fun t' => (t', fun k' => dec c2 k' t')) (map enc kids))) (k_slots (spec k))
                = Some (map (view_slot (map (fun e' => (ekind e', view e')) kids)) (k_slots (spec k)))).
  { apply map_opt_ext_in. intros sp Hin. unfold dec_slot, view_slot.
    rewrite (slot_roundtrip c2 (s_kind sp) kids).
    - rewrite view_slot_length.
      match goal with Hc : forallb (fun sp => card_ok _ _) _ = true |- _ =>
        rewrite forallb_forall in Hc; rewrite (Hc sp Hin) end. reflexivity.
    - intros e He. destruct (Hkids e He). eapply sel_kind; eauto.
    - intros e He. rewrite Forall_forall in IH. apply IH; auto. }
  rewrite Hsl.
  match goal with Hpo : post_ok k c2 v _ = true |- _ => cbn [view rslots] in Hpo; rewrite Hpo end.
  reflexivity.
Qed.

(* ====================================================================================================== *)
(* the view loses nothing                                                                                   *)
(* ====================================================================================================== *)
Lemma insert_by_name_in r x l : In x (insert_by_name r l) <-> x = r \/ In x l.
Proof.
  induction l as [|y l IH]; simpl; [intuition|].
  destruct (bytes_leb (rname r) (rname y)); simpl; [intuition|]. rewrite IH. intuition.
Qed.
Lemma sort_by_name_in x l : In x (sort_by_name l) <-> In x l.
Proof.
  induction l as [|y l IH]; simpl; [tauto|]. rewrite insert_by_name_in, IH. intuition.
Qed.

(* every written child is reported in the slot of its kind *)
Theorem view_complete k (nm : bytes) (v : pval) kids kid : In kid kids -> has_slot k (ekind kid) = true ->
  exists sp, In sp (k_slots (spec k)) /\ s_kind sp = ekind kid /\
             In (view kid) (view_slot (map (fun e' => (ekind e', view e')) kids) sp) /\
             In (view_slot (map (fun e' => (ekind e', view e')) kids) sp) (rslots (view (E k nm v kids))).
Proof.
  intros Hin Hs. destruct (has_slot_in _ _ Hs) as (sp & Hsp & Hk). exists sp. repeat split; auto.
  - unfold view_slot.
    assert (In (view kid) (map snd (filter (fun p : kind * rnode => kind_eqb (fst p) (s_kind sp))
                                           (map (fun e' => (ekind e', view e')) kids)))).
    { apply in_map_iff. exists (ekind kid, view kid). split; auto. apply filter_In. split.
      - apply in_map_iff. exists kid. auto.
      - simpl. rewrite Hk. apply kind_eqb_refl. }
    destruct (s_sorted sp); auto. now apply sort_by_name_in.
  - cbn [view rslots]. apply in_map. exact Hsp.
Qed.

(* ... and each slot reports exactly as many children as were written with that kind *)
Theorem view_counts kids sp :
  length (view_slot (map (fun e' => (ekind e', view e')) kids) sp) = count_kind kids (s_kind sp).
Proof.
  unfold view_slot. destruct (s_sorted sp); [rewrite sort_by_name_length|]; apply view_slot_length.
Qed.

(* for a slot that is not sorted (everything but Zone_t) the i-th written child of the kind is the i-th reported *)
Lemma nth_of_kind_view kids k : forall i e, nth_of_kind kids k i = Some e -> 1 <= i ->
  nth_error (map snd (filter (fun p : kind * rnode => kind_eqb (fst p) k) (map (fun e' => (ekind e', view e')) kids)))
            (Z.to_nat (i - 1)) = Some (view e).
Proof.
  induction kids as [|x r IH]; intros i e H Hi; simpl in *; try discriminate.
  destruct (kind_eqb (ekind x) k) eqn:Ek; simpl.
  - destruct (Z.eqb_spec i 1) as [->|Hne].
    + inversion H; subst. reflexivity.
    + replace (Z.to_nat (i - 1)) with (S (Z.to_nat (i - 1 - 1))) by lia. simpl. apply IH; auto. lia.
  - apply IH; auto.
Qed.

Theorem index_after_reopen k (nm : bytes) (v : pval) kids sp i e : In sp (k_slots (spec k)) -> s_sorted sp = false ->
  nth_of_kind kids (s_kind sp) i = Some e -> 1 <= i ->
  nth_error (view_slot (map (fun e' => (ekind e', view e')) kids) sp) (Z.to_nat (i - 1)) = Some (view e).
Proof.
  intros _ Hs Hn Hi. unfold view_slot. rewrite Hs. now apply nth_of_kind_view.
Qed.

(* ====================================================================================================== *)
(* the write session                                                                                         *)
(* ====================================================================================================== *)
Lemma nth_replace_same kids k : forall i ch e', nth_of_kind kids k i = Some ch -> ekind e' = k ->
  nth_of_kind (replace_nth_of_kind kids k i e') k i = Some e'.
Proof.
  induction kids as [|x r IH]; intros i ch e' H He; simpl in *; try discriminate.
  destruct (kind_eqb (ekind x) k) eqn:Ek.
  - destruct (i =? 1) eqn:Ei; simpl.
    + rewrite He, kind_eqb_refl, Ei. reflexivity.
    + rewrite Ek, Ei. eapply IH; eauto.
  - simpl. rewrite Ek. eapply IH; eauto.
Qed.

Lemma nth_of_kind_kind kids k : forall i e, nth_of_kind kids k i = Some e -> ekind e = k.
Proof.
  induction kids as [|x r IH]; intros i e H; simpl in *; try discriminate.
  destruct (kind_eqb (ekind x) k) eqn:Ek.
  - destruct (i =? 1). + inversion H; subst. now apply kind_eqb_eq. + eapply IH; eauto.
  - eapply IH; eauto.
Qed.

Lemma at_path_kind p f : (forall x x', f x = Some x' -> ekind x' = ekind x) ->
  forall e e', at_path p f e = Some e' -> ekind e' = ekind e.
Proof.
  intros Hf. induction p as [|[k i] p IH]; intros e e' H; simpl in H; [eauto|].
  destruct e as [k0 nm v kids]. destruct (nth_of_kind kids k i) as [ch|]; try discriminate.
  destruct (at_path p f ch); try discriminate. inversion H. reflexivity.
Qed.

(* what is found at the path afterwards is the result of f on what was there *)
Lemma get_at_path p f : (forall x x', f x = Some x' -> ekind x' = ekind x) ->
  forall e e', at_path p f e = Some e' ->
  exists x x', get_path p e = Some x /\ f x = Some x' /\ get_path p e' = Some x'.
Proof.
  intros Hf. induction p as [|[k i] p IH]; intros e e' H; simpl in H.
  - exists e, e'. simpl. auto.
  - destruct e as [k0 nm v kids]. destruct (nth_of_kind kids k i) as [ch|] eqn:En; try discriminate.
    destruct (at_path p f ch) as [ch'|] eqn:Ea; try discriminate. inversion H; subst. clear H.
    destruct (IH _ _ Ea) as (x & x' & Hg & Hfx & Hg').
    exists x, x'. simpl. rewrite En. split; auto. split; auto.
    rewrite (nth_replace_same kids k i ch ch' En); auto.
    rewrite (at_path_kind p f Hf _ _ Ea). eapply nth_of_kind_kind; eauto.
Qed.

Lemma add_kids_kind news x x' : add_kids news x = Some x' -> ekind x' = ekind x.
Proof. destruct x. simpl. destruct (_ && _); intros H; inversion H. reflexivity. Qed.

Lemma count_kind_app l1 l2 k : count_kind (l1 ++ l2) k = (count_kind l1 k + count_kind l2 k)%nat.
Proof. unfold count_kind. rewrite filter_app, app_length. reflexivity. Qed.

Lemma nth_of_kind_last' l k e : ekind e = k ->
  nth_of_kind (l ++ [e]) k (Z.of_nat (count_kind l k) + 1) = Some e.
Proof.
  intros He. induction l as [|x r IH].
  - cbn [app nth_of_kind]. rewrite He, kind_eqb_refl. reflexivity.
  - cbn [app nth_of_kind]. unfold count_kind in *. cbn [filter].
    destruct (kind_eqb (ekind x) k) eqn:Ek.
    + cbn [length]. rewrite Nat2Z.inj_succ.
      destruct (Z.eqb_spec (Z.succ (Z.of_nat (length (filter (fun e0 => kind_eqb (ekind e0) k) r))) + 1) 1); [lia|].
      replace (Z.succ (Z.of_nat (length (filter (fun e0 => kind_eqb (ekind e0) k) r))) + 1 - 1)
        with (Z.of_nat (length (filter (fun e0 => kind_eqb (ekind e0) k) r)) + 1) by lia.
      exact IH.
    + exact IH.
Qed.

Lemma nth_of_kind_last l k e : ekind e = k ->
  nth_of_kind (l ++ [e]) k (Z.of_nat (count_kind (l ++ [e]) k)) = Some e.
Proof.
  intros He. rewrite count_kind_app. unfold count_kind at 2. cbn [filter]. rewrite He, kind_eqb_refl. cbn [length].
  rewrite Nat2Z.inj_add. change (Z.of_nat 1) with 1. now apply nth_of_kind_last'.
Qed.

Lemma get_path_app p q : forall e x, get_path p e = Some x -> get_path (p ++ q) e = get_path q x.
Proof.
  induction p as [|[k i] p IH]; intros e x H; simpl in *.
  - inversion H; reflexivity.
  - destruct (nth_of_kind (ekids e) k i); try discriminate. now apply IH.
Qed.

(* the index a write call returns designates, in the session, the entity it just wrote: addressing the parent's
   children of that kind with the returned index (as every later call and cg_goto do) finds exactly that entity *)
Theorem index_designates root cl root' i eff root1 p pre e :
  effect_of root cl = Some eff -> resolve_container eff root = Some (root1, p) ->
  exec root cl = Some (root', i) ->
  f_new eff = pre ++ [e] -> ekind e = f_ret eff ->
  exists par, get_path p root' = Some par /\ nth_of_kind (ekids par) (f_ret eff) i = Some e /\
              get_path (p ++ [(f_ret eff, i)]) root' = Some e.
Proof.
  intros He Hr Hx Hn Hk. unfold exec in Hx. rewrite He, Hr in Hx.
  destruct (at_path p (add_kids (f_new eff)) root1) as [root2|] eqn:Ea; try discriminate.
  destruct (get_at_path p (add_kids (f_new eff)) (add_kids_kind _) _ _ Ea) as (x & x' & Hg & Hf & Hg').
  rewrite Hg' in Hx. inversion Hx; subst root' i. clear Hx.
  destruct x as [k0 nm v kids]. simpl in Hf. destruct (_ && _); try discriminate. inversion Hf; subst x'. clear Hf.
  exists (E k0 nm v (kids ++ f_new eff)). split; auto.
  assert (Hl : nth_of_kind (kids ++ f_new eff) (f_ret eff)
                 (Z.of_nat (count_kind (kids ++ f_new eff) (f_ret eff))) = Some e).
  { rewrite Hn, app_assoc. apply nth_of_kind_last; auto. }
  cbn [ekids]. split; [exact Hl|].
  rewrite (get_path_app _ [(f_ret eff, Z.of_nat (count_kind (kids ++ f_new eff) (f_ret eff)))] _ _ Hg').
  cbn [get_path ekids]. rewrite Hl. reflexivity.
Qed.

Lemma exec_root_kind root cl root' i : exec root cl = Some (root', i) -> ekind root' = ekind root.
Proof.
  unfold exec. destruct (effect_of root cl) as [eff|]; try discriminate.
  unfold resolve_container. destruct (f_ensure eff) as [[k nm]|].
  - destruct (at_path (removelast (f_at eff)) _ root) as [r1|] eqn:E1; try discriminate.
    destruct (get_path _ r1) as [par|]; try discriminate.
    destruct (index_named (ekids par) k nm 1 =? 0); try discriminate.
    destruct (at_path _ (add_kids (f_new eff)) r1) as [r2|] eqn:E2; try discriminate.
    destruct (get_path _ r2); try discriminate. intros H; inversion H; subst.
    rewrite (at_path_kind _ _ (add_kids_kind _) _ _ E2).
    apply (at_path_kind _ _ (fun x x' (Hx : Some (ensure_kid k nm x) = Some x') =>
      ltac:(inversion Hx; destruct x; simpl; destruct (existsb _ _); reflexivity)) _ _ E1).
  - destruct (at_path (f_at eff) (add_kids (f_new eff)) root) as [r2|] eqn:E2; try discriminate.
    destruct (get_path _ r2); try discriminate. intros H; inversion H; subst.
    apply (at_path_kind _ _ (add_kids_kind _) _ _ E2).
Qed.

Lemma run_root_kind cls : forall root root' is, run root cls = Some (root', is) -> ekind root' = ekind root.
Proof.
  induction cls as [|cl r IH]; intros root root' is H; simpl in H.
  - inversion H; reflexivity.
  - destruct (exec root cl) as [[r1 i]|] eqn:E; try discriminate.
    destruct (run r1 r) as [[r2 is']|] eqn:E2; try discriminate. inversion H; subst.
    rewrite (IH _ _ _ E2). eapply exec_root_kind; eauto.
Qed.

(* for EVERY sequence of write calls (any mix and order of kinds) that the session accepts and whose result is well
   formed: what cg_open (CG_MODE_READ) rebuilds from the file the calls produced is the view of what was written --
   same names, counts, enumerated attributes, dimensions, declared types, bit-identical arrays *)
Theorem roundtrip_file : schema_ok = true -> forall cls root idxs, run root0 cls = Some (root, idxs) ->
  wf ctx0 root = true ->
  write_file cls = Some (enc root) /\ read_file (enc root) = Some (view root).
Proof.
  intros Hs cls root idxs Hr Hw. unfold write_file, read_file. rewrite Hr. split; auto.
  pose proof (run_root_kind _ _ _ _ Hr) as Hk. simpl in Hk. rewrite <- Hk. now apply roundtrip.
Qed.

(* per kind: the codec of one kind, whatever hangs below it *)
Corollary roundtrip_kind (K : kind) : schema_ok = true -> forall c e, ekind e = K -> wf c e = true ->
  dec c K (enc e) = Some (view e).
Proof. intros Hs c e <- Hw. now apply roundtrip. Qed.

(* ====================================================================================================== *)
(* the schema of SidsCodec.spec is usable (kernel evaluation), and the consequences for the concrete schema  *)
(* ====================================================================================================== *)
Lemma schema_ok_true : schema_ok = true.
Proof. vm_compute. reflexivity. Qed.

Definition roundtrip_all := roundtrip schema_ok_true.
Definition roundtrip_file_all := roundtrip_file schema_ok_true.
Definition roundtrip_of_kind (K : kind) := roundtrip_kind K schema_ok_true.

(* The property at full strength -- EVERY accepted call sequence is read back -- is false of the sources as long as
   cgi_read_node allocates no buffer for complex data: cg_array_write accepts ComplexSingle under IntegralData_t, whose
   arrays are loaded by cg_open, and the reader fails.  (Stated so that it stays true when the sources are repaired:
   the list of allocated types is regenerated.) *)
Definition complex_witness : list call :=
  [mkCall F_base [] (s "B") [3; 3] [] [];
   mkCall F_integral [(KBase, 1)] (s "I") [] [] [];
   mkCall F_array [(KBase, 1); (KIntegral, 1)] (s "A") [] [] [(dX4, [1], [0; 0; 128; 63; 0; 0; 0; 64])]].
Definition complex_result : ent * list Z :=
  match run root0 complex_witness with Some r => r | None => (root0, []) end.
Lemma complex_array_refuted :
  if dt_in dts_loadable dX4 then True
  else exists root idxs, run root0 complex_witness = Some (root, idxs) /\ read_file (enc root) = None.
Proof.
  destruct (dt_in dts_loadable dX4) eqn:E; [exact I|].
  exists (fst complex_result), (snd complex_result).
  revert E. vm_compute. intros E. first [ discriminate E | split; reflexivity ].
Qed.

(* A second refutation that follows the sources: cg_sol_ptset_write accepts FaceCenter in a 3-D base; as long as cgi_read_sol
   computes the zone-wide data size before it looks for the point set, the file the three calls produce is not read back. *)
Definition face_ptset_witness : list call :=
  [mkCall F_base [] (s "B") [3; 3] [] [];
   mkCall F_zone [(KBase, 1)] (s "Z") [3; 8; 1; 0] [] [];
   mkCall F_sol_ptset [(KBase, 1); (KZone, 1)] (s "S") [4; 2; 1; 1] [] []].
Definition face_ptset_result : ent * list Z :=
  match run root0 face_ptset_witness with Some r => r | None => (root0, []) end.
Lemma ptset_location_refuted :
  if datasize_first (s "cgi_read_sol") then
    exists root idxs, run root0 face_ptset_witness = Some (root, idxs) /\ read_file (enc root) = None
  else True.
Proof.
  destruct (datasize_first (s "cgi_read_sol")) eqn:E; [|exact I].
  exists (fst face_ptset_result), (snd face_ptset_result).
  revert E. vm_compute. intros E. first [ discriminate E | split; reflexivity ].
Qed.
