(* Properties_C12.v -- exported theorems of property C12 (invalid calls fail cleanly and change nothing).  PARTIAL by nature:
   what is proved is the validation ORDER, the propagation of failing checks, the provenance of error messages and the index
   arithmetic, for every entry point; memory safety of the code that runs after validation is not expressible in the skeleton
   machine and is seen by ASan/UBSan in the correspondence runs only (checks/C12.py).

   Generic theorems are about the structured skeleton machine of Validate.v for ANY table; the table-level theorems are
   evaluated by the kernel (vm_compute) on coq/Gen_C12.v, REGENERATED from the current sources on every run. *)
From Coq Require Import List String Bool PArith ZArith FSetPositive.
From CgnsV Require Import Gates GatesProofs Validate ValidateProofs Gen_C12.
Import ListNotations.

(* the regenerated table with re-validations marked (Validate.prepare), and its call-graph analysis *)
Definition TB : list vrow := Eval vm_compute in prepare Gen_C12.table.
Definition A : vanalysis := Eval vm_compute in vanalyse TB Gen_C12.externs Gen_C12.mirrors.

(* the translator classified every statement of every function, every callee outside the four files is known by name, every
   declared entry point has a definition, the summaries behind `prepare` are a fixpoint, and the sets of A are closed /
   consistent (so that the generic theorems apply to them) *)
Theorem C12_every_function_parsed :
  vall_parsed_b Gen_C12.table = true /\ unknown_externs Gen_C12.externs = [] /\ Gen_C12.api_undefined = [] /\
  sm_stable_b Gen_C12.table (summaries Gen_C12.table) = true.
Proof. vm_compute. repeat split; reflexivity. Qed.
Print Assumptions C12_every_function_parsed.

Theorem C12_analysis_closed : van_ok TB A = true.
Proof. vm_compute. reflexivity. Qed.
Print Assumptions C12_analysis_closed.

(* ---- (a) index getters ---- *)
(* every row of every cgi_get_* getter has the canonical test `i > parent->count || i <= 0` (or `i < 1`), returns element i-1,
   and its count field is the one the array is allocated / grown with; every getter has a row; the ADDRESS4MULTIPLE macro has
   the same shape and its array grows with its count *)
Theorem C12_getter_table :
  getters_ok_b Gen_C12.alloc_pairs Gen_C12.getters = true /\
  getters_cover_b Gen_C12.getter_names Gen_C12.getters = true /\
  addr_macro_ok Gen_C12.addr_macro = true.
Proof. vm_compute. repeat split; reflexivity. Qed.
Print Assumptions C12_getter_table.

(* GENERIC: for ANY count n and ANY array of that length, an index the getter accepts satisfies 1 <= i <= n and the element
   returned is array[i-1] (inside the array); every index in 1..n is accepted; every other index gives NULL *)
Theorem C12_getter_bounds : forall (A0 : Type) pairs g idx parent cnt arr hi lo lo_val sub (n : Z) (a : list A0) i r,
    getter_ok pairs (GIdx g idx parent cnt arr hi lo lo_val sub) = true ->
    Z.of_nat (List.length a) = n ->
    getter_run hi lo lo_val sub n a i = Some r ->
    (1 <= i <= n)%Z /\ exists x, r = inl x /\ nth_error a (Z.to_nat (i - 1)) = Some x.
Proof. exact getter_run_sound. Qed.
Print Assumptions C12_getter_bounds.

Theorem C12_getter_complete : forall (A0 : Type) pairs g idx parent cnt arr hi lo lo_val sub (n : Z) (a : list A0) i,
    getter_ok pairs (GIdx g idx parent cnt arr hi lo lo_val sub) = true ->
    Z.of_nat (List.length a) = n -> (1 <= i <= n)%Z ->
    exists x, getter_run hi lo lo_val sub n a i = Some (inl x) /\ nth_error a (Z.to_nat (i - 1)) = Some x.
Proof. exact getter_run_complete. Qed.
Print Assumptions C12_getter_complete.

Theorem C12_getter_rejects : forall (A0 : Type) pairs g idx parent cnt arr hi lo lo_val sub (n : Z) (a : list A0) i,
    getter_ok pairs (GIdx g idx parent cnt arr hi lo lo_val sub) = true ->
    (i < 1 \/ i > n)%Z -> getter_run hi lo lo_val sub n a i = None.
Proof. exact getter_run_rejects. Qed.
Print Assumptions C12_getter_rejects.

Theorem C12_address_macro_bounds : forall hi lo lo_val sub grows i n,
    addr_macro_ok (Some (hi, lo, lo_val, sub, grows)) = true ->
    getter_accepts hi lo lo_val i n = true -> (1 <= i <= n /\ i + sub = i - 1)%Z.
Proof. exact addr_macro_bounds. Qed.
Print Assumptions C12_address_macro_bounds.

(* every getter changes nothing when it fails -- except cgi_get_zcoorGC / cgi_get_particle_pcoorPC, which create the
   coordinates container first (finding late:cgi_get_zcoorGC) *)
Theorem C12_getters_fail_clean :
  unclean_getters TB A Gen_C12.getter_names = ["cgi_get_zcoorGC"; "cgi_get_particle_pcoorPC"]%string \/
  unclean_getters TB A Gen_C12.getter_names = [].
Proof. vm_compute. left. reflexivity. Qed.
Print Assumptions C12_getters_fail_clean.

(* ---- (b) validation before effect ---- *)
(* every entry point (the file-level operations of Validate.c12_file_ops excepted) is in the set V of the analysis, or is one
   of the named exceptions of Validate.v (revalidating_wrappers, known_late) *)
Theorem C12_validate_before_effect : vbe_b TB A = true.
Proof. vm_compute. reflexivity. Qed.
Print Assumptions C12_validate_before_effect.

(* GENERIC: for any table and analysis passing van_ok, any function of V, any context, oracle, fuel and state: a call that
   returns at a failing validation (RINV) has changed neither the file nor the (non-cache part of the) tree; a function of C
   (the getters, cgi_check_strlen, cgi_get_file ..) has changed nothing whenever it fails; a function outside T never changes
   anything *)
Theorem C12_invalid_no_change : forall t a,
    van_ok t a = true ->
    forall fuel c id o x r x' o',
      run (vrows_of t) (fun i => PositiveSet.mem i (va_prim a)) (fun i => PositiveSet.mem i (va_benign a)) fuel c id o x = (r, x', o') ->
      (inset (va_T a) id c = false -> v_file x' = v_file x /\ v_mir x' = v_mir x) /\
      (inset (va_C a) id c = true -> is_fail r = true -> v_file x' = v_file x /\ v_mir x' = v_mir x) /\
      (inset (va_V a) id c = true -> r = RINV -> v_file x' = v_file x /\ v_mir x' = v_mir x).
Proof. exact table_clean. Qed.
Print Assumptions C12_invalid_no_change.

(* every handle / index / name / enumeration parameter of every entry point is validated on the spine of its body (a check
   of a matching class that every call passes before anything can return, directly or through a delegate to which the
   parameter is passed unchanged) -- except the (entry point, position) pairs of Validate.known_unvalidated *)
Theorem C12_parameters_validated : kinds_claimed_b TB = true.
Proof. vm_compute. reflexivity. Qed.
Print Assumptions C12_parameters_validated.

(* ---- (c) failing checks return failures ---- *)
Theorem C12_checks_guarded : guarded_b TB = true.
Proof. vm_compute. reflexivity. Qed.
Print Assumptions C12_checks_guarded.

(* GENERIC: if every argument check of a body is the condition of a test whose failing arm always returns a failure, then a
   run in which one of its argument checks fails (the flag v_vf) does not return success *)
Theorem C12_failing_check_fails : forall rows prim benign n c id r0 o x res x' o',
    rows id = Some r0 -> guarded (vbody r0) = true -> v_vf x = false ->
    run rows prim benign (S n) c id o x = (res, x', o') -> v_vf x' = true -> res <> ROK.
Proof. exact run_guarded. Qed.
Print Assumptions C12_failing_check_fails.

(* ---- (d) error messages ---- *)
Theorem C12_error_nonempty : ns_b TB A = true.
Proof. vm_compute. reflexivity. Qed.
Print Assumptions C12_error_nonempty.

(* GENERIC: a function of NS that returns a failure has passed through an error-message event (whatever the state of the
   message flag before the call) *)
Theorem C12_failure_has_message : forall t a,
    van_ok t a = true ->
    forall fuel c id o x r x' o',
      inset (va_NS a) id c = true ->
      run (vrows_of t) (fun i => PositiveSet.mem i (va_prim a)) (fun i => PositiveSet.mem i (va_benign a)) fuel c id o x = (r, x', o') ->
      is_fail r = true -> v_err x' = true.
Proof. exact table_noisy. Qed.
Print Assumptions C12_failure_has_message.

(* ---- the instance for the CURRENT code ---- *)
Definition current_ok (id : positive) : Prop :=
  exists r, vrows_of TB id = Some r /\ vin_domain r = true /\
            smem (vname r) revalidating_wrappers = false /\ smem (vname r) known_late = false.

Opaque A TB.
Theorem C12_invalid_no_change_current : forall fuel id o x x' o',
    current_ok id ->
    run (vrows_of TB) (fun i => PositiveSet.mem i (va_prim A)) (fun i => PositiveSet.mem i (va_benign A)) fuel CW id o x = (RINV, x', o') ->
    v_file x' = v_file x /\ v_mir x' = v_mir x.
Proof.
  intros fuel id o x x' o' [r [Hr [Hd [H1 H2]]]] Hrun.
  destruct (vrows_of_in _ _ _ Hr) as [Hin Hid].
  pose proof C12_validate_before_effect as Hv. unfold vbe_b in Hv. rewrite forallb_forall in Hv.
  specialize (Hv r Hin). unfold vbe_row_ok in Hv. rewrite Hd, H1, H2, Hid in Hv.
  cbn [implb] in Hv. rewrite !orb_false_r in Hv.
  destruct (table_clean TB A C12_analysis_closed _ _ _ _ _ _ _ _ Hrun) as [_ [_ H3]]. apply H3; [exact Hv|reflexivity].
Qed.
Print Assumptions C12_invalid_no_change_current.
Transparent A TB.

(* ---- refutation of the full-strength statement on a faithful transcription of the current code ----
   cg_coord_info(fn, B, Z, C, ..): the getter cgi_get_zcoorGC creates the GridCoordinates_t container (tree, and file in MODIFY
   mode) when the zone has none, THEN the caller tests C.  On this three-row transcription the machine returns RINV with a
   changed file -- replayed on the real library by the check (finding late:cgi_get_zcoorGC). *)
Local Open Scope positive_scope.
Definition witness_table : list vrow :=
  [ mkVRow 2 "cgi_new_node" Internal [] (QAct (ACall ANone 9 [] [] true) (QRet ROk));
    mkVRow 3 "cgi_get_zcoorGC" Internal []
      (QIf (QAct (AMirror 1) (QIf (QIfFail (ACall ANone 2 [] [] true) (QRet RErr) QEnd QEnd) QEnd (QRet ROk)))
           QEnd (QAct AErr (QRet RErr)));
    mkVRow 4 "cg_coord_info" (Api DocRead) [PH; PI; PI; PI; PO; PO]
      (QIfFail (ACheck CIndex 3 [2; 3] [100; 3; 4] true) (QRet RErr) QEnd
      (QIfFail (ACheck CRange 1 [4] [] true) (QAct AErr (QRet RErr)) QEnd (QRet ROk))) ].
Theorem C12_validate_before_effect_refuted :
  exists o x',
    run (vrows_of witness_table) (fun i => Pos.eqb i 9) (fun _ => false) 5%nat CW 4 o (VSt [] [] false false) = (RINV, x', []) /\
    v_file x' <> [] /\ v_mir x' <> [].
Proof. exists [true; true; false; true], (VSt [9] [1] true true). vm_compute. repeat split; discriminate. Qed.
Print Assumptions C12_validate_before_effect_refuted.

(* non-vacuity: on a small table the machine does return at a failing validation with nothing changed, does change the file
   after the validations have passed, and the analysis puts the clean writer in V and the late one outside *)
Example C12_machine_example :
  let good := mkVRow 2 "good_write" (Api DocWrite) [PO; PN]
        (QIfFail (ACheck CName 1 [2] [] true) (QAct AErr (QRet RErr)) QEnd
        (QAct (AMirror 1) (QIfFail (ACall ANone 9 [] [] false) (QAct AErr (QRet RErr)) QEnd (QRet ROk)))) in
  let late := mkVRow 3 "late_write" (Api DocWrite) [PO; PN]
        (QAct (AMirror 1) (QIfFail (ACheck CName 1 [2] [] true) (QAct AErr (QRet RErr)) QEnd (QRet ROk))) in
  let t := [good; late] in
  let a := vanalyse t [(9, "ADF_Create"%string)] [] in
  let prim := fun i => Pos.eqb i 9 in
  let s0 := VSt [] [] false false in
  fst (fst (run (vrows_of t) prim (fun _ => false) 3%nat CW 2 [true] s0)) = RINV /\
  v_file (snd (fst (run (vrows_of t) prim (fun _ => false) 3%nat CW 2 [true] s0))) = [] /\
  v_err (snd (fst (run (vrows_of t) prim (fun _ => false) 3%nat CW 2 [true] s0))) = true /\
  fst (fst (run (vrows_of t) prim (fun _ => false) 3%nat CW 2 [false; false] s0)) = ROK /\
  v_file (snd (fst (run (vrows_of t) prim (fun _ => false) 3%nat CW 2 [false; false] s0))) = [9] /\
  fst (fst (run (vrows_of t) prim (fun _ => false) 3%nat CW 3 [true] s0)) = RINV /\
  v_mir (snd (fst (run (vrows_of t) prim (fun _ => false) 3%nat CW 3 [true] s0))) = [1] /\
  van_ok t a = true /\ inset (va_V a) 2 CW = true /\ inset (va_V a) 3 CW = false /\
  inset (va_NS a) 2 CW = true /\ guarded (vbody good) = true.
Proof. vm_compute. repeat split; reflexivity. Qed.
