(* MirrorProofs.v -- proofs about Mirror.v (property C04).

   Inv      the structural invariant tying the session mirror to the file child list: sibling names unique in the file
            and in every array, database ids unique and below the allocation counter, and a slot (name, id, payload) sits
            in the array of kind k exactly when the file holds the node (id, k, name, payload).
   Rel      the file holds (k, name, payload) exactly when the ideal tree maps name to (k, payload).
   step_sound   every operation whose write part succeeds in the IDEAL tree keeps Inv and Rel and returns the status
            the ideal tree returns -- by induction this gives C04_content for every history.
   OrdInv   every array equals the file's children of that kind IN FILE ORDER; kept by the index-preserving histories
            (C04_order); the witness S1,S2,S3 / overwrite S1 breaks it (C04_order_refuted).
   The dispatcher table of cg_delete_node enters through [disp_ok]; dispatch_sound proves it for ANY table from the
   decidable classification of Mirror.v (sound_kinds / reserved_names). *)
From Coq Require Import ZArith List String Bool Lia Permutation.
From CgnsV Require Goto.
From CgnsV Require Import Mirror.
Import ListNotations.
Local Open Scope string_scope.
Local Open Scope Z_scope.
Local Open Scope list_scope.

Local Arguments i_set : simpl never.

(* ------------------------------------------------------------------------------------------------ small facts *)
Lemma seqb_eq a b : String.eqb a b = true <-> a = b.
Proof. apply String.eqb_eq. Qed.
Lemma seqb_neq a b : String.eqb a b = false <-> a <> b.
Proof. apply String.eqb_neq. Qed.
Lemma seqb_refl a : String.eqb a a = true.
Proof. apply String.eqb_refl. Qed.

Ltac seq_case a b :=
  let H := fresh "E" in
  destruct (String.eqb a b) eqn:H; [apply seqb_eq in H | apply seqb_neq in H].

Lemma massoc_mset_eq k l m : massoc k (mset k l m) = Some l.
Proof.
  induction m as [|[k' l'] r IH]; simpl.
  - now rewrite seqb_refl.
  - seq_case k k'; simpl.
    + now rewrite seqb_refl.
    + destruct (String.eqb k k') eqn:E'; [apply seqb_eq in E'; congruence|]. exact IH.
Qed.
Lemma massoc_mset_neq k k' l m : k' <> k -> massoc k' (mset k l m) = massoc k' m.
Proof.
  intros Hn. induction m as [|[k2 l2] r IH]; simpl.
  - destruct (String.eqb k' k) eqn:E; [apply seqb_eq in E; congruence|reflexivity].
  - seq_case k k2; simpl.
    + subst k2. destruct (String.eqb k' k) eqn:E'; [apply seqb_eq in E'; congruence|reflexivity].
    + destruct (String.eqb k' k2); [reflexivity|exact IH].
Qed.
Lemma mget_mset_eq k l m : mget k (mset k l m) = l.
Proof. unfold mget. now rewrite massoc_mset_eq. Qed.
Lemma mget_mset_neq k k' l m : k' <> k -> mget k' (mset k l m) = mget k' m.
Proof. intros. unfold mget. now rewrite massoc_mset_neq. Qed.
Lemma mget_nil k : mget k [] = [].
Proof. reflexivity. Qed.

(* ---- NoDup over maps and filters *)
Lemma NoDup_map_filter {A B} (f : A -> B) (p : A -> bool) l : NoDup (map f l) -> NoDup (map f (filter p l)).
Proof.
  induction l as [|x r IH]; simpl; intros H; [constructor|].
  inversion H as [|? ? Hx Hr]; subst. destruct (p x); simpl; auto.
  constructor; auto. intros Hin. apply Hx. apply in_map_iff in Hin. destruct Hin as [y [Hy Hiny]].
  apply in_map_iff. exists y. split; auto. apply filter_In in Hiny. tauto.
Qed.
Lemma NoDup_map_inj {A B} (f : A -> B) l x y : NoDup (map f l) -> In x l -> In y l -> f x = f y -> x = y.
Proof.
  induction l as [|a r IH]; simpl; intros H Hx Hy E; [tauto|].
  inversion H as [|? ? Ha Hr]; subst.
  destruct Hx as [->|Hx], Hy as [->|Hy]; auto.
  - exfalso. apply Ha. rewrite E. now apply in_map.
  - exfalso. apply Ha. rewrite <- E. now apply in_map.
Qed.
Lemma NoDup_snoc {A} (l : list A) x : NoDup l -> ~ In x l -> NoDup (l ++ [x]).
Proof.
  intros H Hx. induction l as [|a r IH]; simpl.
  - constructor; [tauto|constructor].
  - inversion H; subst. constructor.
    + rewrite in_app_iff. simpl. intros [?|[?|[]]]; [tauto|subst; apply Hx; now left].
    + apply IH; auto. intros ?. apply Hx. now right.
Qed.

(* ---- find_slot / remove_slot / set_nth *)
Lemma find_slot_none nm l : find_slot nm l = None <-> ~ In nm (map s_name l).
Proof.
  induction l as [|s r IH]; simpl; [tauto|].
  seq_case (s_name s) nm.
  - split; [discriminate|]. intros H; exfalso; apply H; now left.
  - destruct (find_slot nm r) eqn:F.
    + split; [discriminate|]. intros H. exfalso. apply H. right.
      destruct (in_dec string_dec nm (map s_name r)) as [Hi|Hni]; auto. apply IH in Hni. discriminate.
    + split; auto. intros _ [?|?]; [congruence|]. destruct IH as [IH _]. now apply IH.
Qed.

Lemma find_slot_some nm l i : find_slot nm l = Some i ->
  exists a sl b, l = a ++ sl :: b /\ List.length a = i /\ s_name sl = nm /\ ~ In nm (map s_name a).
Proof.
  revert i. induction l as [|s r IH]; simpl; intros i H; [discriminate|].
  seq_case (s_name s) nm.
  - inversion H; subst. exists [], s, r. simpl. tauto.
  - destruct (find_slot nm r) eqn:F; [|discriminate]. inversion H; subst.
    destruct (IH _ eq_refl) as [a [sl [b [-> [Hl [Hn Ha]]]]]].
    exists (s :: a), sl, b. simpl. repeat split; auto. intros [?|?]; [congruence|tauto].
Qed.

Lemma nth_error_split_len {A} (a : list A) x b : nth_error (a ++ x :: b) (List.length a) = Some x.
Proof. induction a; simpl; auto. Qed.

Lemma set_nth_split (a : list slot) x b v : set_nth (a ++ x :: b) (List.length a) v = a ++ v :: b.
Proof. induction a; simpl; auto. now rewrite IHa. Qed.

Lemma remove_slot_none nm l : remove_slot nm l = None <-> ~ In nm (map s_name l).
Proof.
  induction l as [|s r IH]; simpl; [tauto|].
  seq_case (s_name s) nm.
  - split; [discriminate|]. intros H; exfalso; apply H; now left.
  - destruct (remove_slot nm r) eqn:F.
    + split; [discriminate|]. intros H. exfalso. apply H. right.
      destruct (in_dec string_dec nm (map s_name r)) as [Hi|Hni]; auto. apply IH in Hni. discriminate.
    + split; auto. intros _ [?|?]; [congruence|]. destruct IH as [IH _]. now apply IH.
Qed.

Lemma remove_slot_split nm a sl b : s_name sl = nm -> ~ In nm (map s_name a) ->
  remove_slot nm (a ++ sl :: b) = Some (a ++ b).
Proof.
  intros Hn. induction a as [|s r IH]; simpl; intros Ha.
  - rewrite Hn, seqb_refl. reflexivity.
  - destruct (String.eqb (s_name s) nm) eqn:E; [apply seqb_eq in E; tauto|].
    rewrite IH; auto.
Qed.

(* ---- the file list *)
Lemma file_del_split id f f1 : file_del id f = Some f1 ->
  exists a n b, f = a ++ n :: b /\ f1 = a ++ b /\ f_id n = id /\ (forall x, In x a -> f_id x <> id).
Proof.
  revert f1. induction f as [|n r IH]; simpl; intros f1 H; [discriminate|].
  destruct (Z.eqb_spec (f_id n) id) as [E|E].
  - inversion H; subst. exists [], n, f1. simpl. tauto.
  - destruct (file_del id r) eqn:F; [|discriminate]. inversion H; subst.
    destruct (IH _ eq_refl) as [a [m [b [-> [-> [Hm Ha]]]]]].
    exists (n :: a), m, b. simpl. repeat split; auto. intros x [<-|Hx]; auto.
Qed.

Lemma file_del_in id f n : In n f -> f_id n = id -> exists f1, file_del id f = Some f1.
Proof.
  induction f as [|m r IH]; simpl; intros Hin E; [tauto|].
  destruct (Z.eqb_spec (f_id m) id); [eauto|].
  destruct Hin as [->|Hin]; [congruence|]. destruct (IH Hin E) as [f1 ->]. eauto.
Qed.

Lemma file_find_some nm f n : file_find nm f = Some n -> In n f /\ f_name n = nm.
Proof.
  unfold file_find. intros H. apply find_some in H. destruct H as [H1 H2]. apply seqb_eq in H2. tauto.
Qed.
Lemma file_find_none nm f : file_find nm f = None -> ~ In nm (map f_name f).
Proof.
  unfold file_find. intros H Hin. apply in_map_iff in Hin. destruct Hin as [n [E Hn]].
  pose proof (find_none _ _ H _ Hn) as Hf. simpl in Hf. rewrite E, seqb_refl in Hf. discriminate.
Qed.
Lemma file_find_in nm f : In nm (map f_name f) -> exists n, file_find nm f = Some n.
Proof.
  intros Hin. destruct (file_find nm f) eqn:F; [eauto|]. apply file_find_none in F. tauto.
Qed.
Lemma file_has_true nm f : file_has nm f = true <-> In nm (map f_name f).
Proof.
  unfold file_has. destruct (file_find nm f) eqn:F.
  - split; auto. intros _. apply file_find_some in F. destruct F as [F1 F2]. rewrite <- F2. now apply in_map.
  - split; [discriminate|]. intros H. apply file_find_none in F. tauto.
Qed.

(* ---- lookups in views with unique names *)
Lemma vlookup_in nm p v : NoDup (map fst v) -> (vlookup nm v = Some p <-> In (nm, p) v).
Proof.
  induction v as [|[n q] r IH]; simpl; intros H.
  - split; [discriminate|tauto].
  - inversion H as [|? ? Hn Hr]; subst. seq_case n nm.
    + subst. split.
      * intros E; inversion E; subst. now left.
      * intros [E|Hin]; [inversion E; subst; reflexivity|].
        exfalso. apply Hn. apply in_map_iff. exists (nm, p). auto.
    + rewrite IH; auto. split; auto. intros [E'|?]; auto. inversion E'; congruence.
Qed.
Lemma vlookup_none nm v : vlookup nm v = None <-> ~ In nm (map fst v).
Proof.
  induction v as [|[n q] r IH]; simpl; [tauto|].
  seq_case n nm.
  - split; [discriminate|]. intros H; exfalso; apply H; now left.
  - rewrite IH. split; [intros H [?|?]; [congruence|tauto]|tauto].
Qed.
Lemma vlookup_ext nm v w : NoDup (map fst v) -> NoDup (map fst w) ->
  (forall p, In (nm, p) v <-> In (nm, p) w) -> vlookup nm v = vlookup nm w.
Proof.
  intros Hv Hw H.
  destruct (vlookup nm v) eqn:E1.
  - apply vlookup_in in E1; auto. apply H in E1. apply vlookup_in in E1; auto.
  - destruct (vlookup nm w) eqn:E2; auto. apply vlookup_in in E2; auto. apply H in E2.
    apply vlookup_in in E2; auto. congruence.
Qed.

(* ---- the sort used for zones: a permutation (names are distinct, so WHICH sorting algorithm is immaterial) *)
Lemma insert_slot_perm x l : Permutation (insert_slot x l) (x :: l).
Proof.
  induction l as [|y r IH]; simpl; auto.
  destruct (str_leb (s_name x) (s_name y)); auto.
  rewrite IH. apply perm_swap.
Qed.
Lemma sort_slots_perm l : Permutation (sort_slots l) l.
Proof.
  induction l as [|x r IH]; simpl; auto. rewrite insert_slot_perm. now constructor.
Qed.
Lemma sort_slots_in x l : In x (sort_slots l) <-> In x l.
Proof. split; apply Permutation_in; [|symmetry]; apply sort_slots_perm. Qed.
Lemma sort_slots_nodup l : NoDup (map s_name l) -> NoDup (map s_name (sort_slots l)).
Proof. intros H. eapply Permutation_NoDup; [|exact H]. apply Permutation_map. symmetry. apply sort_slots_perm. Qed.

Lemma massoc_resort sk k m :
  massoc k (resort sk m) = match massoc k m with Some l => Some (if sk k then sort_slots l else l) | None => None end.
Proof.
  induction m as [|[k' l] r IH]; simpl; auto.
  destruct (String.eqb k k') eqn:E; auto. apply String.eqb_eq in E. now subst.
Qed.
Lemma mget_resort sk k m : mget k (resort sk m) = if sk k then sort_slots (mget k m) else mget k m.
Proof.
  unfold mget. rewrite massoc_resort. destruct (massoc k m); auto. now destruct (sk k).
Qed.

(* ------------------------------------------------------------------------------------------------ the invariant *)
Section Content.
Variable kok nok : string -> bool.
Variable sk : string -> bool.
Variable disp : string -> string -> daction.

Definition disp_ok : Prop := forall k nm, kok k = true -> nok nm = true -> disp k nm = DShift k.

Record Inv (s : parent) : Prop := {
  inv_fnames : NoDup (map f_name (p_file s));
  inv_mnames : forall k, NoDup (map s_name (mget k (p_mir s)));
  inv_sync   : forall k nm id p, In (mkS nm id p) (mget k (p_mir s)) <-> In (mkF id k nm p) (p_file s);
  inv_ids    : NoDup (map f_id (p_file s));
  inv_next   : forall n, In n (p_file s) -> f_id n < p_next s;
  inv_kinds  : forall n, In n (p_file s) -> kok (f_kind n) = true
}.

Definition Rel (s : parent) (t : ideal) : Prop :=
  forall nm k p, (exists id, In (mkF id k nm p) (p_file s)) <-> i_get nm t = Some (k, p).

Lemma Inv_empty : Inv empty_parent.
Proof.
  constructor; simpl.
  - constructor.
  - intros k. constructor.
  - intros k nm id p. simpl. split; intros [].
  - constructor.
  - intros n [].
  - intros n [].
Qed.
Lemma Rel_empty : Rel empty_parent [].
Proof. intros nm k p. simpl. split; [intros [? []]|discriminate]. Qed.

(* two file nodes with the same name are the same node; likewise with the same id *)
Lemma same_name s n m : Inv s -> In n (p_file s) -> In m (p_file s) -> f_name n = f_name m -> n = m.
Proof. intros I. apply NoDup_map_inj. apply I. Qed.
Lemma same_id s n m : Inv s -> In n (p_file s) -> In m (p_file s) -> f_id n = f_id m -> n = m.
Proof. intros I. apply NoDup_map_inj. apply I. Qed.

Lemma slot_eta sl : sl = mkS (s_name sl) (s_id sl) (s_pay sl).
Proof. now destruct sl. Qed.
Lemma fnode_eta n : n = mkF (f_id n) (f_kind n) (f_name n) (f_pay n).
Proof. now destruct n. Qed.

(* ---- views *)
Lemma view_session_names s k : map fst (view_session s k) = map s_name (mget k (p_mir s)).
Proof. unfold view_session. rewrite map_map. reflexivity. Qed.
Lemma read_group_in k f x : In x (read_group sk k f) <-> In x (map slot_of (filter (fun n => String.eqb (f_kind n) k) f)).
Proof. unfold read_group. destruct (sk k); [apply sort_slots_in|tauto]. Qed.
Lemma read_group_nodup k f : NoDup (map f_name f) -> NoDup (map s_name (read_group sk k f)).
Proof.
  intros H. assert (H2 : NoDup (map s_name (map slot_of (filter (fun n => String.eqb (f_kind n) k) f)))).
  { rewrite map_map. simpl. now apply NoDup_map_filter. }
  unfold read_group. destruct (sk k); auto. now apply sort_slots_nodup.
Qed.
Lemma view_file_names s k : map fst (view_file sk s k) = map s_name (read_group sk k (p_file s)).
Proof. unfold view_file. rewrite map_map. reflexivity. Qed.

Lemma in_view_session s k nm p : In (nm, p) (view_session s k) <-> exists id, In (mkS nm id p) (mget k (p_mir s)).
Proof.
  unfold view_session. rewrite in_map_iff. split.
  - intros [sl [E Hin]]. inversion E; subst. exists (s_id sl). now rewrite <- slot_eta.
  - intros [id Hin]. exists (mkS nm id p). auto.
Qed.
Lemma in_view_file s k nm p : In (nm, p) (view_file sk s k) <-> exists id, In (mkF id k nm p) (p_file s).
Proof.
  unfold view_file. rewrite in_map_iff. split.
  - intros [sl [E Hin]]. apply read_group_in in Hin. apply in_map_iff in Hin. destruct Hin as [n [En Hn]].
    apply filter_In in Hn. destruct Hn as [Hn Hk]. apply seqb_eq in Hk. subst sl. unfold slot_of in E. simpl in E.
    inversion E; subst. exists (f_id n). now rewrite <- fnode_eta.
  - intros [id Hin]. exists (mkS nm id p). split; auto. apply read_group_in. apply in_map_iff.
    exists (mkF id k nm p). split; auto. apply filter_In. simpl. now rewrite seqb_refl.
Qed.

(* the session view and the view a fresh open would give agree as finite maps, and neither lists a name twice *)
Lemma Inv_views_agree s : Inv s -> forall k nm, vlookup nm (view_session s k) = vlookup nm (view_file sk s k).
Proof.
  intros I k nm. apply vlookup_ext.
  - rewrite view_session_names. apply I.
  - rewrite view_file_names. apply read_group_nodup. apply I.
  - intros p. rewrite in_view_session, in_view_file. split; intros [id H]; exists id; now apply I.
Qed.
Lemma Inv_session_nodup s : Inv s -> forall k, NoDup (map fst (view_session s k)).
Proof. intros I k. rewrite view_session_names. apply I. Qed.
Lemma Inv_file_nodup s : Inv s -> forall k, NoDup (map fst (view_file sk s k)).
Proof. intros I k. rewrite view_file_names. apply read_group_nodup. apply I. Qed.

Lemma Rel_view_file s t : Inv s -> Rel s t -> forall k nm, vlookup nm (view_file sk s k) = i_view t k nm.
Proof.
  intros I R k nm. unfold i_view.
  destruct (vlookup nm (view_file sk s k)) eqn:E.
  - apply vlookup_in in E; [|now apply Inv_file_nodup]. apply in_view_file in E. apply R in E.
    now rewrite E, seqb_refl.
  - destruct (i_get nm t) as [[k' p]|] eqn:G; auto.
    seq_case k' k; auto. subst k'. apply R in G. apply in_view_file in G.
    apply vlookup_in in G; [|now apply Inv_file_nodup]. congruence.
Qed.

(* ---- the ideal map *)
Lemma i_get_remove_eq nm t : i_get nm (i_remove nm t) = None.
Proof.
  induction t as [|[n v] r IH]; simpl; auto.
  destruct (String.eqb n nm) eqn:E; auto. simpl. now rewrite E.
Qed.
Lemma i_get_remove_neq nm nm' t : nm' <> nm -> i_get nm' (i_remove nm t) = i_get nm' t.
Proof.
  intros Hn. induction t as [|[n v] r IH]; simpl; auto.
  seq_case n nm.
  - subst. destruct (String.eqb nm nm') eqn:E'; [apply seqb_eq in E'; congruence|]. exact IH.
  - simpl. destruct (String.eqb n nm'); auto.
Qed.
Lemma i_get_set nm v t nm' : i_get nm' (i_set nm v t) = if String.eqb nm nm' then Some v else i_get nm' t.
Proof.
  unfold i_set. simpl. seq_case nm nm'; auto. apply i_get_remove_neq. congruence.
Qed.

(* ------------------------------------------------------------------------------------------------ the operations *)
(* removing the node with a given id from a file with unique ids *)
Lemma file_del_spec s id f1 : Inv s -> file_del id (p_file s) = Some f1 ->
  (forall x, In x f1 <-> In x (p_file s) /\ f_id x <> id) /\ NoDup (map f_name f1) /\ NoDup (map f_id f1).
Proof.
  intros I H. apply file_del_split in H. destruct H as [a [n [b [Hf [-> [Hid Ha]]]]]].
  pose proof (inv_ids _ I) as Hids. pose proof (inv_fnames _ I) as Hnm. rewrite Hf in Hids, Hnm.
  rewrite map_app in Hids, Hnm. simpl in Hids, Hnm.
  split; [|split].
  - intros x. rewrite Hf. rewrite !in_app_iff. simpl. split.
    + intros [Hx|Hx].
      * split; auto.
      * split; auto. intros E. apply NoDup_remove_2 in Hids. apply Hids. rewrite in_app_iff. right.
        rewrite Hid, <- E. now apply in_map.
    + intros [[Hx|[Hx|Hx]] Hne]; auto. subst. congruence.
  - rewrite map_app. now apply NoDup_remove_1 in Hnm.
  - rewrite map_app. now apply NoDup_remove_1 in Hids.
Qed.

(* what a write does to the ideal tree when it succeeds there *)
Lemma i_write_ok t k nm p : snd (i_step t (OWrite k nm p)) = 0 ->
  fst (i_step t (OWrite k nm p)) = i_set nm (k, p) t /\
  (forall k' q, i_get nm t = Some (k', q) -> k' = k).
Proof.
  simpl. destruct (i_get nm t) as [[k' q]|] eqn:G.
  - seq_case k' k; simpl; intros H; [|discriminate]. split; auto. intros k2 q2 E2. inversion E2; subst; auto.
  - intros _. split; auto. intros k' q E'. discriminate.
Qed.

Lemma append_sound s t k nm p :
  Inv s -> Rel s t -> kok k = true -> snd (i_step t (OWrite k nm p)) = 0 ->
  find_slot nm (mget k (p_mir s)) = None ->
  let '(s', st, _) := append_new s k nm p in
  st = 0 /\ Inv s' /\ Rel s' (i_set nm (k, p) t).
Proof.
  intros I R Hk Hst F. unfold append_new.
  destruct (i_write_ok _ _ _ _ Hst) as [_ Hkind].
    apply find_slot_none in F.
    assert (Hnf : ~ In nm (map f_name (p_file s))).
    { intros H. apply in_map_iff in H. destruct H as [x [Ex Hx]].
      assert (Hg : i_get nm t = Some (f_kind x, f_pay x)).
      { apply R. exists (f_id x). rewrite <- Ex. now rewrite <- fnode_eta. }
      pose proof (Hkind _ _ Hg) as E.
      apply F. apply in_map_iff. exists (mkS nm (f_id x) (f_pay x)). split; auto.
      apply (inv_sync _ I). rewrite <- E, <- Ex. now rewrite <- fnode_eta. }
    destruct (file_has nm (p_file s)) eqn:Hh; [apply file_has_true in Hh; tauto|]. clear Hh.
    split; [reflexivity|]. split.
    + constructor; simpl.
      * rewrite map_app. simpl. apply NoDup_snoc; auto. apply I.
      * intros k'. destruct (string_dec k' k) as [->|Hne].
        -- rewrite mget_mset_eq. rewrite map_app. simpl. apply NoDup_snoc; auto. apply I.
        -- rewrite mget_mset_neq; auto. apply I.
      * intros k' nm' id' p'. rewrite in_app_iff. simpl. destruct (string_dec k' k) as [->|Hne].
        -- rewrite mget_mset_eq. rewrite in_app_iff. simpl. rewrite (inv_sync _ I). split.
           ++ intros [?|[Hx|[]]]; auto. inversion Hx; subst. right. now left.
           ++ intros [?|[Hx|[]]]; auto. inversion Hx; subst. right. now left.
        -- rewrite mget_mset_neq; auto. rewrite (inv_sync _ I). split; auto.
           intros [?|[Hx|[]]]; auto. inversion Hx; congruence.
      * rewrite map_app. simpl. apply NoDup_snoc; [apply I|].
        intros H. apply in_map_iff in H. destruct H as [x [Ex Hx]]. apply (inv_next _ I) in Hx. lia.
      * intros n Hn. apply in_app_or in Hn. destruct Hn as [Hn|[<-|[]]]; simpl; [|lia].
        apply (inv_next _ I) in Hn. lia.
      * intros n Hn. apply in_app_or in Hn. destruct Hn as [Hn|[<-|[]]]; simpl; auto. now apply (inv_kinds _ I).
    + intros nm' k' p'. rewrite i_get_set. simpl. seq_case nm nm'.
      * subst nm'. split.
        -- intros [id Hx]. apply in_app_or in Hx. destruct Hx as [Hx|[Hx|[]]].
           ++ exfalso. apply Hnf. apply in_map_iff. exists (mkF id k' nm p'). auto.
           ++ inversion Hx; subst. reflexivity.
        -- intros E'. inversion E'; subst. exists (p_next s). apply in_or_app. right. now left.
      * rewrite <- (R nm' k' p'). split.
        -- intros [id Hx]. apply in_app_or in Hx. destruct Hx as [Hx|[Hx|[]]]; [eauto|inversion Hx; congruence].
        -- intros [id Hx]. exists id. apply in_or_app. now left.
Qed.

Lemma write_sound s t k nm p :
  Inv s -> Rel s t -> kok k = true -> snd (i_step t (OWrite k nm p)) = 0 ->
  let '(s', st, _) := write s k nm p in
  st = 0 /\ Inv s' /\ Rel s' (fst (i_step t (OWrite k nm p))).
Proof.
  intros I R Hk Hst. unfold write.
  destruct (i_write_ok _ _ _ _ Hst) as [Ht0 _].
  destruct (find_slot nm (mget k (p_mir s))) as [i|] eqn:F;
    [|rewrite Ht0; now apply append_sound].
  (* overwrite in the same slot *)
    apply find_slot_some in F. destruct F as [a [sl [b [Hl [Hlen [Hname Ha]]]]]].
    rewrite Hl. rewrite <- Hlen. rewrite nth_error_split_len.
    assert (Hin : In (mkF (s_id sl) k nm (s_pay sl)) (p_file s)).
    { apply (inv_sync _ I). rewrite Hl. apply in_or_app. right. left. rewrite <- Hname. now destruct sl. }
    destruct (file_del_in (s_id sl) _ _ Hin eq_refl) as [f1 Hdel]. rewrite Hdel.
    destruct (file_del_spec _ _ _ I Hdel) as [Hf1 [Hn1 Hi1]].
    assert (Hnot : ~ In nm (map f_name f1)).
    { intros H. apply in_map_iff in H. destruct H as [x [Ex Hx]]. apply Hf1 in Hx. destruct Hx as [Hx Hne].
      apply Hne. assert (x = mkF (s_id sl) k nm (s_pay sl)) by (eapply same_name; eauto). now subst x. }
    destruct (file_has nm f1) eqn:Hh; [apply file_has_true in Hh; tauto|]. clear Hh.
    rewrite set_nth_split.
    (* the ideal tree already maps nm to kind k *)
    assert (Hg : i_get nm t = Some (k, s_pay sl)) by (apply R; eauto).
    assert (Ht : fst (i_step t (OWrite k nm p)) = i_set nm (k, p) t).
    { simpl. rewrite Hg, seqb_refl. reflexivity. }
    rewrite Ht. clear Ht Hst.
    pose proof (inv_mnames _ I k) as Hmn. rewrite Hl in Hmn. rewrite map_app in Hmn. simpl in Hmn.
    assert (Hb : ~ In nm (map s_name b)).
    { apply NoDup_remove_2 in Hmn. rewrite Hname in Hmn. intros ?. apply Hmn. apply in_or_app. now right. }
    split; [reflexivity|]. split.
    + constructor; simpl.
      * rewrite map_app. simpl. apply NoDup_snoc; auto.
      * intros k'. destruct (string_dec k' k) as [->|Hne].
        -- rewrite mget_mset_eq. rewrite map_app. simpl. rewrite <- Hname. exact Hmn.
        -- rewrite mget_mset_neq; auto. apply I.
      * intros k' nm' id' p'. rewrite in_app_iff. simpl. destruct (string_dec k' k) as [->|Hne].
        -- rewrite mget_mset_eq. rewrite in_app_iff. simpl. split.
           ++ intros [Hx|[Hx|Hx]].
              ** left. apply Hf1. split.
                 { apply (inv_sync _ I). rewrite Hl. apply in_or_app. now left. }
                 { simpl. intros E. subst id'.
                   assert (Hx' : In (mkF (s_id sl) k nm' p') (p_file s)).
                   { apply (inv_sync _ I). rewrite Hl. apply in_or_app. now left. }
                   pose proof (same_id _ _ _ I Hx' Hin eq_refl) as E. inversion E; subst.
                   apply Ha. apply (in_map s_name) in Hx. exact Hx. }
              ** inversion Hx; subst. right. left. reflexivity.
              ** left. apply Hf1. split.
                 { apply (inv_sync _ I). rewrite Hl. apply in_or_app. right. now right. }
                 { simpl. intros E. subst id'.
                   assert (Hx' : In (mkF (s_id sl) k nm' p') (p_file s)).
                   { apply (inv_sync _ I). rewrite Hl. apply in_or_app. right. now right. }
                   pose proof (same_id _ _ _ I Hx' Hin eq_refl) as E. inversion E; subst.
                   apply Hb. apply (in_map s_name) in Hx. exact Hx. }
           ++ intros [Hx|[Hx|[]]].
              ** apply Hf1 in Hx. destruct Hx as [Hx Hne]. simpl in Hne.
                 apply (inv_sync _ I) in Hx. rewrite Hl in Hx. apply in_app_or in Hx.
                 destruct Hx as [Hx|[Hx|Hx]]; auto. subst sl. simpl in Hne. congruence.
              ** inversion Hx; subst. right. now left.
        -- rewrite mget_mset_neq; auto. rewrite (inv_sync _ I). split.
           ++ intros Hx. left. apply Hf1. split; auto. simpl. intros E. subst id'.
              pose proof (same_id _ _ _ I Hx Hin eq_refl) as E. inversion E; congruence.
           ++ intros [Hx|[Hx|[]]]; [apply Hf1 in Hx; tauto|inversion Hx; congruence].
      * rewrite map_app. simpl. apply NoDup_snoc; auto.
        intros H. apply in_map_iff in H. destruct H as [x [Ex Hx]]. apply Hf1 in Hx.
        destruct Hx as [Hx _]. apply (inv_next _ I) in Hx. lia.
      * intros n Hn. apply in_app_or in Hn. destruct Hn as [Hn|[<-|[]]]; simpl; [|lia].
        apply Hf1 in Hn. destruct Hn as [Hn _]. apply (inv_next _ I) in Hn. lia.
      * intros n Hn. apply in_app_or in Hn. destruct Hn as [Hn|[<-|[]]]; simpl; auto.
        apply Hf1 in Hn. destruct Hn as [Hn _]. now apply (inv_kinds _ I).
    + intros nm' k' p'. rewrite i_get_set. simpl. seq_case nm nm'.
      * subst nm'. split.
        -- intros [id Hx]. apply in_app_or in Hx. destruct Hx as [Hx|[Hx|[]]].
           ++ exfalso. apply Hnot. apply in_map_iff. exists (mkF id k' nm p'). auto.
           ++ inversion Hx; subst. reflexivity.
        -- intros E'. inversion E'; subst. exists (p_next s). apply in_or_app. right. now left.
      * rewrite <- (R nm' k' p'). split.
        -- intros [id Hx]. apply in_app_or in Hx. destruct Hx as [Hx|[Hx|[]]]; [|inversion Hx; congruence].
           apply Hf1 in Hx. exists id. tauto.
        -- intros [id Hx]. exists id. apply in_or_app. left. apply Hf1. split; auto. simpl. intros E'. subst id.
           pose proof (same_id _ _ _ I Hx Hin eq_refl) as E'. inversion E'; congruence.
Qed.

Lemma updn_id id p n : f_id (updn id p n) = f_id n.
Proof. unfold updn. destruct (f_id n =? id); reflexivity. Qed.
Lemma updn_name id p n : f_name (updn id p n) = f_name n.
Proof. unfold updn. destruct (f_id n =? id); reflexivity. Qed.
Lemma updn_kind id p n : f_kind (updn id p n) = f_kind n.
Proof. unfold updn. destruct (f_id n =? id); reflexivity. Qed.
Lemma updn_other id p n : f_id n <> id -> updn id p n = n.
Proof. unfold updn. intros H. destruct (Z.eqb_spec (f_id n) id); [congruence|reflexivity]. Qed.
Lemma updn_hit id p k nm q : updn id p (mkF id k nm q) = mkF id k nm p.
Proof. unfold updn. simpl. now rewrite Z.eqb_refl. Qed.

Lemma write_inplace_sound s t k nm p :
  Inv s -> Rel s t -> kok k = true -> snd (i_step t (OWrite k nm p)) = 0 ->
  let '(s', st, _) := write_inplace s k nm p in
  st = 0 /\ Inv s' /\ Rel s' (fst (i_step t (OWrite k nm p))).
Proof.
  intros I R Hk Hst. unfold write_inplace.
  destruct (i_write_ok _ _ _ _ Hst) as [Ht0 _]. rewrite Ht0.
  destruct (find_slot nm (mget k (p_mir s))) as [i|] eqn:F; [|now apply append_sound].
  apply find_slot_some in F. destruct F as [a [sl [b [Hl [Hlen [Hname Ha]]]]]].
  rewrite Hl. rewrite <- Hlen. rewrite nth_error_split_len. rewrite set_nth_split.
  set (id := s_id sl).
  assert (Hin : In (mkF id k nm (s_pay sl)) (p_file s)).
  { apply (inv_sync _ I). rewrite Hl. apply in_or_app. right. left. rewrite <- Hname. unfold id. now destruct sl. }
  pose proof (inv_mnames _ I k) as Hmn. rewrite Hl in Hmn. rewrite map_app in Hmn. simpl in Hmn.
  assert (Hb : ~ In nm (map s_name b)).
  { apply NoDup_remove_2 in Hmn. rewrite Hname in Hmn. intros ?. apply Hmn. apply in_or_app. now right. }
  (* a file node with this id is the node being rewritten *)
  assert (Hsame : forall y, In y (p_file s) -> f_id y = id -> y = mkF id k nm (s_pay sl)).
  { intros y Hy E. eapply same_id; eauto. }
  split; [reflexivity|]. split.
  - constructor; simpl.
    + unfold file_upd. rewrite map_map. erewrite map_ext; [apply I|]. intros y. apply updn_name.
    + intros k'. destruct (string_dec k' k) as [->|Hne].
      * rewrite mget_mset_eq. rewrite map_app. simpl. rewrite <- Hname. exact Hmn.
      * rewrite mget_mset_neq; auto. apply I.
    + intros k' nm' id' p'. unfold file_upd. rewrite in_map_iff. destruct (string_dec k' k) as [->|Hne].
      * rewrite mget_mset_eq. rewrite in_app_iff. simpl. split.
        -- intros [Hx|[Hx|Hx]].
           ++ exists (mkF id' k nm' p'). assert (Hf : In (mkF id' k nm' p') (p_file s)).
              { apply (inv_sync _ I). rewrite Hl. apply in_or_app. now left. }
              split; auto. apply updn_other. simpl. intros E.
              pose proof (Hsame _ Hf E) as E2. inversion E2; subst.
              apply Ha. apply (in_map s_name) in Hx. exact Hx.
           ++ injection Hx as <- <- <-. exists (mkF id k nm (s_pay sl)). split; auto. apply updn_hit.
           ++ exists (mkF id' k nm' p'). assert (Hf : In (mkF id' k nm' p') (p_file s)).
              { apply (inv_sync _ I). rewrite Hl. apply in_or_app. right. now right. }
              split; auto. apply updn_other. simpl. intros E.
              pose proof (Hsame _ Hf E) as E2. inversion E2; subst.
              apply Hb. apply (in_map s_name) in Hx. exact Hx.
        -- intros [y [Ey Hy]]. destruct (Z.eq_dec (f_id y) id) as [E|E].
           ++ rewrite (Hsame _ Hy E) in Ey. rewrite updn_hit in Ey. inversion Ey; subst. right. now left.
           ++ rewrite updn_other in Ey; auto. subst y. apply (inv_sync _ I) in Hy. rewrite Hl in Hy.
              apply in_app_or in Hy. destruct Hy as [Hy|[Hy|Hy]]; auto.
              exfalso. apply E. subst sl. reflexivity.
      * rewrite mget_mset_neq; auto. rewrite (inv_sync _ I). split.
        -- intros Hx. exists (mkF id' k' nm' p'). split; auto. apply updn_other. simpl. intros E.
           pose proof (Hsame _ Hx E) as E2. inversion E2. congruence.
        -- intros [y [Ey Hy]]. destruct (Z.eq_dec (f_id y) id) as [E|E].
           ++ rewrite (Hsame _ Hy E) in Ey. rewrite updn_hit in Ey. inversion Ey. congruence.
           ++ rewrite updn_other in Ey; auto. now subst y.
    + unfold file_upd. rewrite map_map. erewrite map_ext; [apply I|]. intros y. apply updn_id.
    + intros n Hn. unfold file_upd in Hn. apply in_map_iff in Hn. destruct Hn as [y [<- Hy]]. rewrite updn_id.
      now apply (inv_next _ I).
    + intros n Hn. unfold file_upd in Hn. apply in_map_iff in Hn. destruct Hn as [y [<- Hy]]. rewrite updn_kind.
      now apply (inv_kinds _ I).
  - intros nm' k' p'. rewrite i_get_set. simpl. unfold file_upd. seq_case nm nm'.
    + subst nm'. split.
      * intros [id' Hx]. apply in_map_iff in Hx. destruct Hx as [y [Ey Hy]].
        assert (Ey' : y = mkF id k nm (s_pay sl)).
        { eapply same_name; eauto. rewrite <- (updn_name id p y). rewrite Ey. reflexivity. }
        subst y. rewrite updn_hit in Ey. injection Ey as _ <- <-. reflexivity.
      * intros E'. injection E' as <- <-. exists id. apply in_map_iff. exists (mkF id k nm (s_pay sl)).
        split; auto. apply updn_hit.
    + rewrite <- (R nm' k' p'). split.
      * intros [id' Hx]. apply in_map_iff in Hx. destruct Hx as [y [Ey Hy]].
        destruct (Z.eq_dec (f_id y) id) as [E'|E'].
        -- rewrite (Hsame _ Hy E') in Ey. rewrite updn_hit in Ey. inversion Ey. congruence.
        -- rewrite updn_other in Ey; auto. subst y. eauto.
      * intros [id' Hx]. exists id'. apply in_map_iff. exists (mkF id' k' nm' p'). split; auto.
        apply updn_other. simpl. intros E'. pose proof (Hsame _ Hx E') as E2. inversion E2. congruence.
Qed.

Lemma delete_sound s t nm :
  Inv s -> Rel s t -> disp_ok -> nok nm = true ->
  let '(s', st) := delete disp s nm in
  st = snd (i_step t (ODelete nm)) /\ Inv s' /\ Rel s' (fst (i_step t (ODelete nm))).
Proof.
  intros I R D Hn. unfold delete. simpl.
  destruct (file_find nm (p_file s)) as [n|] eqn:F.
  - apply file_find_some in F. destruct F as [Hin Hnm].
    assert (Hg : i_get nm t = Some (f_kind n, f_pay n)).
    { apply R. exists (f_id n). rewrite <- Hnm. now rewrite <- fnode_eta. }
    rewrite Hg. simpl.
    rewrite (D (f_kind n) nm (inv_kinds _ I _ Hin) Hn).
    destruct (file_del_in (f_id n) _ _ Hin eq_refl) as [f1 Hdel]. rewrite Hdel.
    destruct (file_del_spec _ _ _ I Hdel) as [Hf1 [Hn1 Hi1]].
    set (k := f_kind n) in *.
    assert (Hslot : In (mkS nm (f_id n) (f_pay n)) (mget k (p_mir s))).
    { apply (inv_sync _ I). rewrite <- Hnm. unfold k. now rewrite <- fnode_eta. }
    destruct (in_split _ _ Hslot) as [a0 [b0 Hl0]].
    (* split at the FIRST slot called nm; names are unique, so it is this one *)
    assert (Hfs : exists i, find_slot nm (mget k (p_mir s)) = Some i).
    { destruct (find_slot nm (mget k (p_mir s))) eqn:E; [eauto|]. apply find_slot_none in E.
      exfalso. apply E. apply in_map_iff. exists (mkS nm (f_id n) (f_pay n)). auto. }
    destruct Hfs as [i Hfs]. apply find_slot_some in Hfs. destruct Hfs as [a [sl [b [Hl [_ [Hname Ha]]]]]].
    rewrite Hl. rewrite (remove_slot_split nm a sl b Hname Ha).
    pose proof (inv_mnames _ I k) as Hmn. rewrite Hl in Hmn. rewrite map_app in Hmn. simpl in Hmn.
    assert (Hb : ~ In nm (map s_name b)).
    { apply NoDup_remove_2 in Hmn. rewrite Hname in Hmn. intros ?. apply Hmn. apply in_or_app. now right. }
    assert (Hsl : sl = mkS nm (f_id n) (f_pay n)).
    { rewrite Hl in Hslot. apply in_app_or in Hslot. destruct Hslot as [Hx|[Hx|Hx]]; auto.
      - exfalso. apply Ha. apply in_map_iff. exists (mkS nm (f_id n) (f_pay n)). auto.
      - exfalso. apply Hb. apply in_map_iff. exists (mkS nm (f_id n) (f_pay n)). auto. }
    split; [reflexivity|]. split.
    + constructor; simpl; auto.
      * intros k'. destruct (string_dec k' k) as [->|Hne].
        -- rewrite mget_mset_eq. rewrite map_app. now apply NoDup_remove_1 in Hmn.
        -- rewrite mget_mset_neq; auto. apply I.
      * intros k' nm' id' p'. destruct (string_dec k' k) as [->|Hne].
        -- rewrite mget_mset_eq. rewrite Hf1. rewrite <- (inv_sync _ I). rewrite Hl. rewrite !in_app_iff. simpl.
           split.
           ++ intros Hx. split; [tauto|]. intros E. subst id'.
              assert (Hx' : In (mkF (f_id n) k nm' p') (p_file s)).
              { apply (inv_sync _ I). rewrite Hl. rewrite in_app_iff. simpl. tauto. }
              pose proof (same_id _ _ _ I Hx' Hin eq_refl) as E. rewrite (fnode_eta n) in E. inversion E; subst.
              destruct Hx as [Hx|Hx]; apply (in_map s_name) in Hx; simpl in Hx; [apply Ha|apply Hb]; exact Hx.
           ++ intros [[Hx|[Hx|Hx]] Hne]; auto. subst sl. inversion Hx; subst. congruence.
        -- rewrite mget_mset_neq; auto. rewrite (inv_sync _ I). rewrite Hf1. simpl. split; [|tauto].
           intros Hx. split; auto. intros E. subst id'.
           pose proof (same_id _ _ _ I Hx Hin eq_refl) as E. apply Hne. unfold k. rewrite <- E. reflexivity.
      * intros m Hm. apply Hf1 in Hm. now apply (inv_next _ I).
      * intros m Hm. apply Hf1 in Hm. now apply (inv_kinds _ I).
    + intros nm' k' p'. simpl. seq_case nm' nm.
      * subst nm'. rewrite i_get_remove_eq. split; [|discriminate].
        intros [id Hx]. apply Hf1 in Hx. destruct Hx as [Hx Hne]. simpl in Hne.
        assert (E : mkF id k' nm p' = n) by (eapply same_name; eauto). subst n. simpl in Hne. congruence.
      * rewrite i_get_remove_neq; auto. rewrite <- (R nm' k' p'). split.
        -- intros [id Hx]. apply Hf1 in Hx. exists id. tauto.
        -- intros [id Hx]. exists id. apply Hf1. split; auto. simpl. intros E'. subst id.
           pose proof (same_id _ _ _ I Hx Hin eq_refl) as E'. rewrite <- E' in Hnm. simpl in Hnm. congruence.
  - assert (Hg : i_get nm t = None).
    { destruct (i_get nm t) as [[k' p']|] eqn:G; auto. apply R in G. destruct G as [id G].
      apply file_find_none in F. exfalso. apply F. apply in_map_iff. exists (mkF id k' nm p'). auto. }
    rewrite Hg. simpl. tauto.
Qed.

(* ---- reopen *)
Lemma regroup_acc f m k :
  mget k (fold_left (fun m n => mset (f_kind n) (mget (f_kind n) m ++ [slot_of n]) m) f m)
  = mget k m ++ map slot_of (filter (fun n => String.eqb (f_kind n) k) f).
Proof.
  revert m. induction f as [|n r IH]; simpl; intros m; [now rewrite app_nil_r|].
  rewrite IH. seq_case (f_kind n) k.
  - subst k. rewrite mget_mset_eq. simpl. now rewrite <- app_assoc.
  - rewrite mget_mset_neq; auto.
Qed.
Lemma mget_regroup f k : mget k (regroup f) = map slot_of (filter (fun n => String.eqb (f_kind n) k) f).
Proof. unfold regroup. now rewrite regroup_acc. Qed.

Lemma mget_reopen s k : mget k (p_mir (reopen sk s)) = read_group sk k (p_file s).
Proof. simpl. rewrite mget_resort. rewrite mget_regroup. reflexivity. Qed.

Lemma reopen_sound s : Inv s -> Inv (reopen sk s).
Proof.
  intros I. constructor; try (simpl; apply I).
  - intros k. rewrite mget_reopen. apply read_group_nodup. apply I.
  - intros k nm id p. rewrite mget_reopen. rewrite read_group_in. simpl. rewrite in_map_iff. split.
    + intros [n [E Hn]]. apply filter_In in Hn. destruct Hn as [Hn Hk]. apply seqb_eq in Hk.
      unfold slot_of in E. inversion E; subst. now rewrite <- fnode_eta.
    + intros Hin. exists (mkF id k nm p). split; auto. apply filter_In. simpl. now rewrite seqb_refl.
Qed.
Lemma reopen_view s k : view_session (reopen sk s) k = view_file sk s k.
Proof. unfold view_session, view_file. now rewrite mget_reopen. Qed.

(* ---- a link: cg_link_write appends to the file only; read again, the state is the one a creation in both places gives *)
Lemma link_reopen_eq s k nm p : file_has nm (p_file s) = false ->
  reopen sk (fst (link_new s k nm p)) = reopen sk (fst (fst (append_new s k nm p))).
Proof. intros H. unfold link_new, append_new. rewrite H. reflexivity. Qed.

Lemma link_sound s t k nm p :
  Inv s -> Rel s t -> kok k = true ->
  snd (step sk disp s (OLink k nm p)) = snd (i_step t (OLink k nm p)) /\
  Inv (fst (step sk disp s (OLink k nm p))) /\ Rel (fst (step sk disp s (OLink k nm p))) (fst (i_step t (OLink k nm p))).
Proof.
  intros I R Hk. unfold step.
  destruct (file_has nm (p_file s)) eqn:Hh.
  - (* the name is taken: the database refuses, nothing changes *)
    unfold link_new. rewrite Hh. cbn [fst snd].
    apply file_has_true in Hh. apply in_map_iff in Hh. destruct Hh as [x [Ex Hx]].
    assert (Hg : i_get nm t = Some (f_kind x, f_pay x)).
    { apply R. exists (f_id x). rewrite <- Ex. now rewrite <- fnode_eta. }
    simpl. rewrite Hg. cbn [fst snd]. split; auto. split; [now apply reopen_sound|]. intros nm' k' p'. simpl. apply R.
  - assert (Hg : i_get nm t = None).
    { destruct (i_get nm t) as [[k' p']|] eqn:G; auto. apply R in G. destruct G as [id G].
      assert (Ht : file_has nm (p_file s) = true).
      { apply file_has_true. apply in_map_iff. exists (mkF id k' nm p'). auto. }
      congruence. }
    assert (Hst : snd (i_step t (OWrite k nm p)) = 0) by (simpl; now rewrite Hg).
    assert (F : find_slot nm (mget k (p_mir s)) = None).
    { apply find_slot_none. intros H. apply in_map_iff in H. destruct H as [sl [Es Hs]].
      assert (Ht : file_has nm (p_file s) = true).
      { apply file_has_true. apply in_map_iff. exists (mkF (s_id sl) k nm (s_pay sl)). split; auto.
        apply (inv_sync _ I). rewrite <- Es. now rewrite <- slot_eta. }
      congruence. }
    pose proof (append_sound s t k nm p I R Hk Hst F) as AS.
    pose proof (link_reopen_eq s k nm p Hh) as E.
    unfold link_new in *. rewrite Hh in *. cbn [fst snd] in *.
    destruct (append_new s k nm p) as [[s' st'] idx]. cbn [fst snd] in E. destruct AS as [_ [I' R']].
    rewrite E. simpl. rewrite Hg. cbn [fst snd]. split; auto. split; [now apply reopen_sound|].
    intros nm' k' p'. simpl. apply R'.
Qed.

(* ------------------------------------------------------------------------------------------------ histories *)
(* the operations of the history are within scope: kinds for which the dispatcher is sound, names that are not reserved *)
Definition ops_ok (ops : list op) : Prop := Forall (fun o => op_names_ok kok nok o = true) ops.
(* every write of the history succeeds in the IDEAL tree (it never re-uses a name taken by a sibling of another kind) *)
Definition write_succeeds (t : ideal) (o : op) : Prop :=
  match o with OWrite _ _ _ | OUpdate _ _ _ => snd (i_step t o) = 0 | _ => True end.
Fixpoint writes_ok (t : ideal) (ops : list op) : Prop :=
  match ops with
  | [] => True
  | o :: r => write_succeeds t o /\ writes_ok (fst (i_step t o)) r
  end.

Lemma step_sound s t o :
  Inv s -> Rel s t -> disp_ok -> op_names_ok kok nok o = true ->
  write_succeeds t o ->
  snd (step sk disp s o) = snd (i_step t o) /\ Inv (fst (step sk disp s o)) /\ Rel (fst (step sk disp s o)) (fst (i_step t o)).
Proof.
  intros I R D Hn Hw. destruct o as [k nm p|k nm p|nm| |k nm p].
  - simpl in Hn. apply andb_prop in Hn. destruct Hn as [Hk Hnm].
    pose proof (write_sound s t k nm p I R Hk Hw) as H.
    unfold step. destruct (write s k nm p) as [[s' st] idx]. destruct H as [-> [? ?]]. cbn [fst snd].
    split; [symmetry; exact Hw|split; assumption].
  - simpl in Hn. apply andb_prop in Hn. destruct Hn as [Hk Hnm].
    pose proof (write_inplace_sound s t k nm p I R Hk Hw) as H.
    unfold step. destruct (write_inplace s k nm p) as [[s' st] idx]. destruct H as [-> [? ?]]. cbn [fst snd].
    split; [symmetry; exact Hw|split; assumption].
  - pose proof (delete_sound s t nm I R D Hn) as H. unfold step.
    destruct (delete disp s nm) as [s' st]. simpl in *. tauto.
  - simpl. split; auto. split; [now apply reopen_sound|]. intros nm k p. simpl. apply R.
  - simpl in Hn. apply andb_prop in Hn. destruct Hn as [Hk Hnm]. now apply link_sound.
Qed.

Lemma run_cons s o r : run sk disp s (o :: r) =
  (fst (run sk disp (fst (step sk disp s o)) r), snd (step sk disp s o) :: snd (run sk disp (fst (step sk disp s o)) r)).
Proof. simpl. destruct (step sk disp s o) as [s1 st]. simpl. now destruct (run sk disp s1 r). Qed.
Lemma i_run_cons t o r : i_run t (o :: r) =
  (fst (i_run (fst (i_step t o)) r), snd (i_step t o) :: snd (i_run (fst (i_step t o)) r)).
Proof. simpl. destruct (i_step t o) as [t1 st]. simpl. now destruct (i_run t1 r). Qed.

Theorem run_sound ops : forall s t,
  Inv s -> Rel s t -> disp_ok -> ops_ok ops -> writes_ok t ops ->
  snd (run sk disp s ops) = snd (i_run t ops) /\ Inv (fst (run sk disp s ops)) /\ Rel (fst (run sk disp s ops)) (fst (i_run t ops)).
Proof.
  induction ops as [|o r IH]; intros s t I R D Ho Hw.
  - simpl. auto.
  - inversion Ho; subst. destruct Hw as [Hw1 Hw2].
    destruct (step_sound s t o I R D H1 Hw1) as [E [I' R']].
    rewrite run_cons, i_run_cons. simpl.
    destruct (IH _ _ I' R' D H2 Hw2) as [E2 [I2 R2]]. rewrite E, E2. auto.
Qed.

(* C04_content, spelled out *)
Theorem content_agree ops s0 t0 :
  Inv s0 -> Rel s0 t0 -> disp_ok -> ops_ok ops -> writes_ok t0 ops ->
  let s := fst (run sk disp s0 ops) in
  let t := fst (i_run t0 ops) in
  snd (run sk disp s0 ops) = snd (i_run t0 ops) /\
  (forall k nm, vlookup nm (view_session s k) = i_view t k nm) /\
  (forall k nm, vlookup nm (view_file sk s k) = i_view t k nm) /\
  (forall k, view_session (reopen sk s) k = view_file sk s k) /\
  (forall k, NoDup (map fst (view_session s k))) /\
  (forall k, NoDup (map fst (view_file sk s k))).
Proof.
  intros I R D Ho Hw. destruct (run_sound ops s0 t0 I R D Ho Hw) as [E [I' R']].
  cbv zeta. split; auto. split; [|split; [|split; [|split]]].
  - intros k nm. rewrite Inv_views_agree; auto. now apply Rel_view_file.
  - intros k nm. now apply Rel_view_file.
  - intros k. apply reopen_view.
  - now apply Inv_session_nodup.
  - now apply Inv_file_nodup.
Qed.

(* an operation on one name leaves every other name's payload as it was, in both views *)
Definition op_name (o : op) : option string :=
  match o with OWrite _ nm _ | OUpdate _ nm _ | OLink _ nm _ => Some nm | ODelete nm => Some nm | OReopen => None end.

Lemma i_step_frame t o nm' : op_name o <> Some nm' -> i_get nm' (fst (i_step t o)) = i_get nm' t.
Proof.
  destruct o as [k nm p|k nm p|nm| |k nm p]; intros H; auto.
  4:{ assert (Hn : nm <> nm') by (simpl in H; congruence).
      assert (Hs : i_get nm' (i_set nm (k, p) t) = i_get nm' t).
      { rewrite i_get_set. destruct (String.eqb nm nm') eqn:E; auto. apply seqb_eq in E. congruence. }
      unfold i_step. destruct (i_get nm t) as [[k' q]|]; cbn [fst]; auto. }
  - assert (Hn : nm <> nm') by (simpl in H; congruence).
    assert (Hs : i_get nm' (i_set nm (k, p) t) = i_get nm' t).
    { rewrite i_get_set. destruct (String.eqb nm nm') eqn:E; auto. apply seqb_eq in E. congruence. }
    unfold i_step. destruct (i_get nm t) as [[k' q]|]; [destruct (String.eqb k' k)|]; cbn [fst]; auto.
  - assert (Hn : nm <> nm') by (simpl in H; congruence).
    assert (Hs : i_get nm' (i_set nm (k, p) t) = i_get nm' t).
    { rewrite i_get_set. destruct (String.eqb nm nm') eqn:E; auto. apply seqb_eq in E. congruence. }
    unfold i_step. destruct (i_get nm t) as [[k' q]|]; [destruct (String.eqb k' k)|]; cbn [fst]; auto.
  - assert (Hn : nm' <> nm) by (simpl in H; congruence).
    unfold i_step. destruct (i_get nm t); cbn [fst]; auto. now apply i_get_remove_neq.
Qed.

Theorem step_frame s t o :
  Inv s -> Rel s t -> disp_ok -> op_names_ok kok nok o = true ->
  write_succeeds t o ->
  forall k' nm', op_name o <> Some nm' ->
    vlookup nm' (view_session (fst (step sk disp s o)) k') = vlookup nm' (view_session s k') /\
    vlookup nm' (view_file sk (fst (step sk disp s o)) k') = vlookup nm' (view_file sk s k').
Proof.
  intros I R D Hn Hw k' nm' Hne.
  destruct (step_sound s t o I R D Hn Hw) as [_ [I' R']].
  rewrite !Inv_views_agree; auto.
  rewrite (Rel_view_file _ _ I' R'), (Rel_view_file _ _ I R). unfold i_view.
  rewrite i_step_frame; auto.
Qed.

(* ---- the identity of a link survives every edit of its siblings and every cg_close + cg_open (with or without the rewrite
   of the file that compress-on-close performs: [reopen]) *)
Lemma i_run_frame ops : forall t nm', Forall (fun o => op_name o <> Some nm') ops ->
  i_get nm' (fst (i_run t ops)) = i_get nm' t.
Proof.
  induction ops as [|o r IH]; intros t nm' H; [reflexivity|].
  inversion H; subst. rewrite i_run_cons. cbn [fst]. rewrite IH; auto. now apply i_step_frame.
Qed.

Theorem link_survives ops s0 t0 k nm p :
  Inv s0 -> Rel s0 t0 -> disp_ok -> ops_ok (OLink k nm p :: ops) -> writes_ok t0 (OLink k nm p :: ops) ->
  i_get nm t0 = None -> Forall (fun o => op_name o <> Some nm) ops ->
  let s := fst (run sk disp s0 (OLink k nm p :: ops)) in
  vlookup nm (view_session s k) = Some p /\ vlookup nm (view_file sk s k) = Some p /\
  vlookup nm (view_session (reopen sk s) k) = Some p.
Proof.
  intros I R D Ho Hw Hfree Hops.
  destruct (content_agree (OLink k nm p :: ops) s0 t0 I R D Ho Hw) as [_ [Hs [Hf [Hr _]]]].
  cbv zeta in *.
  assert (Hi : i_view (fst (i_run t0 (OLink k nm p :: ops))) k nm = Some p).
  { unfold i_view. rewrite i_run_cons. cbn [fst]. rewrite i_run_frame; auto.
    simpl. rewrite Hfree. cbn [fst]. rewrite i_get_set. rewrite seqb_refl. now rewrite seqb_refl. }
  rewrite Hr. rewrite Hs, Hf. auto.
Qed.

(* every state has an ideal tree it agrees with: the file itself *)
Definition ideal_of (s : parent) : ideal := map (fun n => (f_name n, (f_kind n, f_pay n))) (p_file s).
Lemma Rel_ideal_of s : Inv s -> Rel s (ideal_of s).
Proof.
  intros I nm k p. unfold ideal_of. pose proof (inv_fnames _ I) as Hnd.
  induction (p_file s) as [|n r IH]; simpl.
  - split; [intros [? []]|discriminate].
  - inversion Hnd as [|? ? Hn Hr]; subst. seq_case (f_name n) nm.
    + split.
      * intros [id [Hx|Hx]].
        -- subst n. reflexivity.
        -- exfalso. apply Hn. rewrite E. apply in_map_iff. exists (mkF id k nm p). auto.
      * intros E'. inversion E'; subst. exists (f_id n). left. now rewrite <- fnode_eta.
    + rewrite <- (IH Hr). split.
      * intros [id [Hx|Hx]]; [subst n; simpl in E; congruence|eauto].
      * intros [id Hx]. eauto.
Qed.

(* ------------------------------------------------------------------------------------------------ order *)
Definition OrdInv (s : parent) : Prop :=
  forall k, sk k = false -> mget k (p_mir s) = map slot_of (filter (fun n => String.eqb (f_kind n) k) (p_file s)).
(* the kinds of the history are not sorted on read *)
Definition unsorted_kinds : Prop := forall k, kok k = true -> sk k = false.

Lemma OrdInv_views s : OrdInv s -> forall k, sk k = false -> view_session s k = view_file sk s k.
Proof. intros O k Hk. unfold view_session, view_file, read_group. rewrite Hk. now rewrite O. Qed.

Lemma OrdInv_empty : OrdInv empty_parent.
Proof. intros k _. reflexivity. Qed.
Lemma OrdInv_reopen s : OrdInv (reopen sk s).
Proof. intros k Hk. rewrite mget_reopen. unfold read_group. now rewrite Hk. Qed.

Lemma app_snoc_last {A} (l1 l2 l3 : list A) x : l1 ++ x :: l2 = l3 ++ [x] -> ~ In x l2 -> l2 = [].
Proof.
  intros E Hn. destruct l2 as [|y r] using rev_ind; auto.
  exfalso. clear IHr. rewrite app_comm_cons, app_assoc in E. apply app_inj_tail in E. destruct E as [_ ->].
  apply Hn. apply in_or_app. right. now left.
Qed.

Lemma filter_app_kind k (a b : list fnode) :
  filter (fun n => String.eqb (f_kind n) k) (a ++ b) =
  filter (fun n => String.eqb (f_kind n) k) a ++ filter (fun n => String.eqb (f_kind n) k) b.
Proof. apply filter_app. Qed.

Lemma map_split_mid {A B} (f : A -> B) l a x b : map f l = a ++ x :: b ->
  exists la n lb, l = la ++ n :: lb /\ map f la = a /\ f n = x /\ map f lb = b.
Proof.
  revert a. induction l as [|y r IH]; intros a H.
  - destruct a; discriminate.
  - destruct a as [|z a]; simpl in H.
    + injection H as E1 E2. exists [], y, r. simpl. auto.
    + injection H as E1 E2. destruct (IH a E2) as [la [n [lb [-> [Ea [En Eb]]]]]].
      exists (y :: la), n, lb. simpl. rewrite Ea, E1. auto.
Qed.

Lemma append_order s t k nm p :
  Inv s -> Rel s t -> OrdInv s -> kok k = true -> snd (i_step t (OWrite k nm p)) = 0 ->
  find_slot nm (mget k (p_mir s)) = None ->
  OrdInv (fst (fst (append_new s k nm p))).
Proof.
  intros I R O Hk Hst F.
  pose proof (append_sound s t k nm p I R Hk Hst F) as AS. unfold append_new in *.
  destruct (file_has nm (p_file s)) eqn:Hh.
  - destruct AS as [AS _]. discriminate.
  - simpl. intros k' Hk'. simpl. destruct (string_dec k' k) as [->|Hne].
    + rewrite mget_mset_eq. rewrite filter_app_kind. simpl. rewrite seqb_refl. rewrite map_app. simpl.
      now rewrite (O k Hk').
    + rewrite mget_mset_neq; auto. rewrite filter_app_kind. simpl.
      destruct (String.eqb k k') eqn:E'; [apply seqb_eq in E'; congruence|]. rewrite app_nil_r. now apply O.
Qed.

(* rewriting an array in place keeps every index *)
Lemma inplace_order s t k nm p :
  Inv s -> Rel s t -> OrdInv s -> kok k = true -> snd (i_step t (OWrite k nm p)) = 0 ->
  OrdInv (fst (fst (write_inplace s k nm p))).
Proof.
  intros I R O Hk Hst. unfold write_inplace.
  destruct (find_slot nm (mget k (p_mir s))) as [i|] eqn:F; [|now apply (append_order s t)].
  apply find_slot_some in F. destruct F as [a [sl [b [Hl [Hlen [Hname Ha]]]]]].
  rewrite Hl. rewrite <- Hlen. rewrite nth_error_split_len. rewrite set_nth_split. simpl.
  set (id := s_id sl).
  assert (Hin : In (mkF id k nm (s_pay sl)) (p_file s)).
  { apply (inv_sync _ I). rewrite Hl. apply in_or_app. right. left. rewrite <- Hname. unfold id. now destruct sl. }
  assert (Hfilt : forall k' f, filter (fun n => String.eqb (f_kind n) k') (file_upd id p f)
                               = file_upd id p (filter (fun n => String.eqb (f_kind n) k') f)).
  { intros k' f. unfold file_upd. induction f as [|y r IH]; simpl; auto. rewrite updn_kind.
    destruct (String.eqb (f_kind y) k'); simpl; now rewrite IH. }
  intros k' Hk'. simpl. rewrite Hfilt. destruct (string_dec k' k) as [->|Hne].
  - rewrite mget_mset_eq.
    (* the file's children of kind k, split at the node being rewritten *)
    pose proof (O k Hk') as Ok. rewrite Hl in Ok.
    assert (Hids : NoDup (map f_id (filter (fun n => String.eqb (f_kind n) k) (p_file s)))).
    { apply NoDup_map_filter. apply I. }
    revert Ok Hids. generalize (filter (fun n => String.eqb (f_kind n) k) (p_file s)) as fl.
    intros fl Ok Hids.
    destruct (map_split_mid slot_of fl a sl b (eq_sym Ok)) as [fa [n [fb [-> [Ea [En Eb]]]]]].
    rewrite map_app in Hids. simpl in Hids.
    assert (En' : f_id n = id) by (unfold id; rewrite <- En; reflexivity).
    unfold file_upd. rewrite map_app. simpl. rewrite !map_app. simpl.
    assert (Hfa : map slot_of (map (updn id p) fa) = a).
    { rewrite <- Ea. rewrite map_map. apply map_ext_in. intros y Hy. rewrite updn_other; auto.
      intros E. apply NoDup_remove_2 in Hids. apply Hids. apply in_or_app. left. rewrite En', <- E. now apply in_map. }
    assert (Hfb : map slot_of (map (updn id p) fb) = b).
    { rewrite <- Eb. rewrite map_map. apply map_ext_in. intros y Hy. rewrite updn_other; auto.
      intros E. apply NoDup_remove_2 in Hids. apply Hids. apply in_or_app. right. rewrite En', <- E. now apply in_map. }
    rewrite Hfa, Hfb. f_equal. f_equal.
    destruct n as [nid nk nn np]. simpl in En'. unfold updn, slot_of. simpl. rewrite En', Z.eqb_refl. simpl.
    f_equal. rewrite <- Hname, <- En. reflexivity.
  - rewrite mget_mset_neq; auto. rewrite (O k' Hk'). unfold file_upd. rewrite map_map. apply map_ext_in.
    intros y Hy. apply filter_In in Hy. destruct Hy as [Hy Hky]. apply seqb_eq in Hky.
    rewrite updn_other; auto. intros E.
    assert (y = mkF id k nm (s_pay sl)) by (eapply same_id; eauto). subst y. simpl in Hky. congruence.
Qed.

Lemma step_order s t o :
  Inv s -> Rel s t -> OrdInv s -> disp_ok -> unsorted_kinds -> op_names_ok kok nok o = true ->
  write_succeeds t o ->
  order_safe s o = true -> OrdInv (fst (step sk disp s o)).
Proof.
  intros I R O D US Hn Hw Hs. destruct o as [k nm p|k nm p|nm| |k nm p]; [| | |apply OrdInv_reopen|].
  4:{ unfold step. destruct (link_new s k nm p) as [s' st]. apply OrdInv_reopen. }
  - (* write *)
    simpl in Hn. apply andb_prop in Hn. destruct Hn as [Hk _].
    assert (Hgoal : OrdInv (fst (fst (write s k nm p)))).
    2:{ unfold step. destruct (write s k nm p) as [[s' st] idx]. exact Hgoal. }
    unfold write in *. unfold order_safe in Hs.
    destruct (find_slot nm (mget k (p_mir s))) as [i|] eqn:F; [|now apply (append_order s t)].
    + apply Nat.eqb_eq in Hs.
      apply find_slot_some in F. destruct F as [a [sl [b [Hl [Hlen [Hname Ha]]]]]].
      assert (Hb : b = []).
      { rewrite Hl in Hs. rewrite app_length in Hs. simpl in Hs. destruct b; auto. simpl in Hs. lia. }
      subst b. rewrite Hl in *. rewrite <- Hlen in *. rewrite nth_error_split_len in *.
      assert (Hin : In (mkF (s_id sl) k nm (s_pay sl)) (p_file s)).
      { apply (inv_sync _ I). rewrite Hl. apply in_or_app. right. left. rewrite <- Hname. now destruct sl. }
      destruct (file_del_in (s_id sl) _ _ Hin eq_refl) as [f1 Hdel]. rewrite Hdel in *.
      destruct (file_del_spec _ _ _ I Hdel) as [Hf1 _].
      assert (Hnot : ~ In nm (map f_name f1)).
      { intros H. apply in_map_iff in H. destruct H as [x [Ex Hx]]. apply Hf1 in Hx. destruct Hx as [Hx Hne].
        apply Hne. assert (x = mkF (s_id sl) k nm (s_pay sl)) by (eapply same_name; eauto). now subst x. }
      destruct (file_has nm f1) eqn:Hh; [apply file_has_true in Hh; tauto|]. clear Hh.
      rewrite set_nth_split. simpl.
      apply file_del_split in Hdel. destruct Hdel as [fa [n [fb [Hf [-> [Hid Hfa]]]]]].
      assert (En : n = mkF (s_id sl) k nm (s_pay sl)).
      { eapply same_id; eauto. rewrite Hf. apply in_or_app. right. now left. }
      pose proof (O k (US k Hk)) as Ok. rewrite Hl, Hf in Ok. rewrite filter_app_kind in Ok. simpl in Ok.
      rewrite En in Ok at 1. simpl in Ok. rewrite seqb_refl in Ok. rewrite map_app in Ok. simpl in Ok.
      (* the node is the last of its kind in the file *)
      assert (Hfb : filter (fun n0 => String.eqb (f_kind n0) k) fb = []).
      { assert (E2 : map slot_of (filter (fun n0 => String.eqb (f_kind n0) k) fb) = []).
        { unfold slot_of at 2 in Ok. rewrite En in Ok. simpl in Ok.
          assert (Esl : sl = mkS nm (s_id sl) (s_pay sl)) by (rewrite <- Hname; now destruct sl).
          rewrite <- Esl in Ok. symmetry in Ok. eapply app_snoc_last; [exact Ok|].
          intros Hx. apply in_map_iff in Hx. destruct Hx as [m [Em Hm]]. apply filter_In in Hm. destruct Hm as [Hm _].
          assert (Eid : f_id m = s_id sl) by (rewrite <- Em; reflexivity).
          pose proof (inv_ids _ I) as Hids. rewrite Hf in Hids. rewrite map_app in Hids. simpl in Hids.
          apply NoDup_remove_2 in Hids. apply Hids. apply in_or_app. right. rewrite Hid, <- Eid.
          now apply in_map. }
        destruct (filter (fun n0 => String.eqb (f_kind n0) k) fb); auto. discriminate. }
      rewrite Hfb in Ok. simpl in Ok. apply app_inj_tail in Ok. destruct Ok as [Ea _].
      intros k' Hk'. simpl. destruct (string_dec k' k) as [->|Hne].
      * rewrite mget_mset_eq. rewrite !filter_app_kind. simpl. rewrite seqb_refl. rewrite Hfb.
        rewrite app_nil_r. rewrite map_app. simpl. now rewrite Ea.
      * rewrite mget_mset_neq; auto. rewrite (O k' Hk'). rewrite Hf. rewrite !filter_app_kind. simpl.
        rewrite En. simpl. destruct (String.eqb k k') eqn:E'; [apply seqb_eq in E'; congruence|].
        now rewrite app_nil_r.
  - (* rewrite in place *)
    simpl in Hn. apply andb_prop in Hn. destruct Hn as [Hk _].
    pose proof (inplace_order s t k nm p I R O Hk Hw) as Hgoal.
    unfold step. destruct (write_inplace s k nm p) as [[s' st] idx]. exact Hgoal.
  - (* delete *)
    unfold step, delete.
    destruct (file_find nm (p_file s)) as [n|] eqn:F; [|exact O].
    apply file_find_some in F. destruct F as [Hin Hnm].
    rewrite (D (f_kind n) nm (inv_kinds _ I _ Hin) Hn).
    destruct (file_del_in (f_id n) _ _ Hin eq_refl) as [f1 Hdel]. rewrite Hdel.
    apply file_del_split in Hdel. destruct Hdel as [fa [m [fb [Hf [-> [Hid Hfa]]]]]].
    assert (Em : m = n). { eapply same_id; eauto. rewrite Hf. apply in_or_app. right. now left. }
    subst m. set (k := f_kind n) in *.
    pose proof (O k (US k (inv_kinds _ I _ Hin))) as Ok. rewrite Hf in Ok. rewrite filter_app_kind in Ok. simpl in Ok.
    unfold k in Ok at 2. rewrite seqb_refl in Ok. rewrite map_app in Ok. simpl in Ok.
    assert (Hfa' : ~ In nm (map s_name (map slot_of (filter (fun n0 => String.eqb (f_kind n0) k) fa)))).
    { rewrite map_map. simpl. intros Hx. apply in_map_iff in Hx. destruct Hx as [x [Ex Hx]]. apply filter_In in Hx.
      destruct Hx as [Hx _]. pose proof (inv_fnames _ I) as Hnd. rewrite Hf in Hnd. rewrite map_app in Hnd. simpl in Hnd.
      apply NoDup_remove_2 in Hnd. apply Hnd. apply in_or_app. left. rewrite Hnm, <- Ex. now apply in_map. }
    rewrite Ok. rewrite (remove_slot_split nm _ (slot_of n) _); auto.
    simpl. intros k' Hk'. simpl. destruct (string_dec k' k) as [->|Hne].
    + rewrite mget_mset_eq. rewrite filter_app_kind. now rewrite map_app.
    + rewrite mget_mset_neq; auto. rewrite (O k' Hk'). rewrite Hf. rewrite !filter_app_kind. simpl.
      fold k. destruct (String.eqb k k') eqn:E'; [apply seqb_eq in E'; congruence|]. reflexivity.
Qed.

Theorem run_order ops : forall s t,
  Inv s -> Rel s t -> OrdInv s -> disp_ok -> unsorted_kinds -> ops_ok ops -> writes_ok t ops ->
  hist_order_safe sk disp s ops = true -> OrdInv (fst (run sk disp s ops)).
Proof.
  induction ops as [|o r IH]; intros s t I R O D US Ho Hw Hs; [exact O|].
  inversion Ho; subst. destruct Hw as [Hw1 Hw2]. simpl in Hs. apply andb_prop in Hs. destruct Hs as [Hs1 Hs2].
  destruct (step_sound s t o I R D H1 Hw1) as [_ [I' R']].
  rewrite run_cons. simpl. eapply IH; eauto. eapply step_order; eauto.
Qed.

End Content.

(* ------------------------------------------------------------------------------------------------ the dispatcher table *)
(* with the name tests unable to fire, the arm taken depends on the label alone *)
Lemma test_matches_lab pl nl nn t : ~ In nn (test_names t) -> test_matches pl nl nn t = test_is_label nl t.
Proof.
  destruct t; simpl; intros H; auto.
  - destruct (String.eqb nn n) eqn:E; auto. apply seqb_eq in E. subst. tauto.
  - destruct (String.eqb nn n) eqn:E; [apply seqb_eq in E; subst; tauto|]. now rewrite andb_false_r.
Qed.
Lemma existsb_ext_in {A} (f g : A -> bool) l : (forall x, In x l -> f x = g x) -> existsb f l = existsb g l.
Proof.
  induction l; simpl; intros H; auto. rewrite H by now left. f_equal. apply IHl. intros; apply H; now right.
Qed.
Lemma row_matches_lab_eq pl nl nn r : ~ In nn (row_names r) -> row_matches pl nl nn r = row_matches_lab nl r.
Proof.
  destruct r as [ts acts ex|w]; simpl; intros H; auto.
  apply existsb_ext_in. intros t Ht. apply test_matches_lab. intros Hin. apply H.
  apply in_concat. exists (test_names t). split; auto. now apply in_map.
Qed.
Lemma find_ext_in {A} (f g : A -> bool) l : (forall x, In x l -> f x = g x) -> find f l = find g l.
Proof.
  induction l; simpl; intros H; auto. rewrite H by now left. destruct (g a); [reflexivity|].
  apply IHl. intros; apply H; now right.
Qed.

Lemma disp_of_unreserved dt nd gt pl nl nn :
  ~ In nn (reserved_names dt nd pl) -> disp_of dt nd gt pl nl nn = disp_lab dt nd gt pl nl.
Proof.
  intros H. unfold reserved_names in H. rewrite in_app_iff in H.
  unfold disp_of, disp_lab.
  assert (Er : refused nd pl nl nn = refused_lab nd pl nl).
  { unfold refused, refused_lab. apply existsb_ext_in. intros r Hr. destruct r as [p t|w]; auto.
    destruct (String.eqb pl p) eqn:E; simpl; auto. apply test_matches_lab. intros Hin. apply H. right.
    apply in_concat. exists (test_names t). split; auto.
    apply in_map_iff. exists (ND p t). rewrite E. auto. }
  rewrite Er. destruct (refused_lab nd pl nl); auto.
  destruct (find_dblock dt pl) as [[ps pty rows|w]|]; auto.
  assert (Ef : find (row_matches pl nl nn) rows = find (row_matches_lab nl) rows).
  { apply find_ext_in. intros r Hr. apply row_matches_lab_eq. intros Hin. apply H. left.
    apply in_concat. exists (row_names r). split; auto. now apply in_map. }
  now rewrite Ef.
Qed.

Lemma daction_eqb_eq a b : daction_eqb a b = true -> a = b.
Proof.
  destruct a, b; simpl; intros H; try discriminate; auto.
  - apply String.eqb_eq in H. now subst.
  - apply Z.eqb_eq in H. now subst.
Qed.

(* for ANY tables: a sibling of a sound kind whose name is not reserved is removed from the array of its own kind *)
Theorem dispatch_sound dt nd gt pl nl nn :
  In nl (sound_kinds dt nd gt pl) -> ~ In nn (reserved_names dt nd pl) -> disp_of dt nd gt pl nl nn = DShift nl.
Proof.
  intros Hk Hn. rewrite disp_of_unreserved; auto.
  unfold sound_kinds in Hk. apply filter_In in Hk. destruct Hk as [_ Hk]. now apply daction_eqb_eq.
Qed.

Lemma smem_in x l : smem x l = true <-> In x l.
Proof.
  unfold smem, Goto.mem. rewrite existsb_exists. split.
  - intros [y [Hy E]]. apply String.eqb_eq in E. now subst.
  - intros H. exists x. split; auto. apply String.eqb_refl.
Qed.

Theorem dispatch_disp_ok dt nd gt pl :
  disp_ok (fun k => smem k (sound_kinds dt nd gt pl)) (fun nm => negb (smem nm (reserved_names dt nd pl)))
          (disp_of dt nd gt pl).
Proof.
  intros k nm Hk Hn. apply dispatch_sound.
  - now apply smem_in.
  - intros H. apply smem_in in H. rewrite H in Hn. discriminate.
Qed.

Lemma dedup_in x l : In x l -> In x (dedup l).
Proof.
  induction l as [|y r IH]; simpl; intros H; [tauto|].
  destruct (smem y r) eqn:E.
  - destruct H as [->|H]; auto. apply IH. now apply smem_in.
  - destruct H as [->|H]; [now left|right; auto].
Qed.

(* ... and when the name IS reserved, either the triple is listed in [shadowed_at] or the right thing still happens *)
Theorem dispatch_reserved dt nd gt pl nl nn :
  In nl (sound_kinds dt nd gt pl) -> ~ In (pl, nl, nn) (shadowed_at dt nd gt pl) ->
  disp_of dt nd gt pl nl nn = DShift nl \/ disp_of dt nd gt pl nl nn = DRefuse.
Proof.
  intros Hk Hs.
  destruct (in_dec string_dec nn (reserved_names dt nd pl)) as [Hr|Hr]; [|left; now apply dispatch_sound].
  destruct (daction_eqb (disp_of dt nd gt pl nl nn) (DShift nl)) eqn:E1; [left; now apply daction_eqb_eq|].
  destruct (daction_eqb (disp_of dt nd gt pl nl nn) DRefuse) eqn:E2; [right; now apply daction_eqb_eq|].
  exfalso. apply Hs. unfold shadowed_at. apply in_concat.
  eexists. split.
  - apply in_map_iff. exists nl. split; [reflexivity|exact Hk].
  - apply in_concat. eexists. split.
    + apply in_map_iff. exists nn. split; [reflexivity|]. now apply dedup_in.
    + rewrite E1, E2. simpl. now left.
Qed.

(* when no triple is shadowed, EVERY name is handled: shifted out of the node's own array, or refused *)
Theorem dispatch_total dt nd gt :
  shadowed dt nd gt = [] ->
  forall pl nl nn, In pl (all_positions gt) -> In nl (sound_kinds dt nd gt pl) ->
    disp_of dt nd gt pl nl nn = DShift nl \/ disp_of dt nd gt pl nl nn = DRefuse.
Proof.
  intros Hs pl nl nn Hp Hk. apply dispatch_reserved; auto.
  intros Hin. assert (H : In (pl, nl, nn) (shadowed dt nd gt)).
  { unfold shadowed. apply in_concat. exists (shadowed_at dt nd gt pl). split; auto. now apply in_map. }
  rewrite Hs in H. exact H.
Qed.

(* ---- single children: with the name tests unable to fire, the pointer freed depends on the label alone *)
Lemma disp_single_unreserved dt nd pl nl nn :
  ~ In nn (reserved_names dt nd pl) -> disp_single dt nd pl nl nn = disp_single_lab dt nd pl nl.
Proof.
  intros H. unfold reserved_names in H. rewrite in_app_iff in H.
  unfold disp_single, disp_single_lab.
  assert (Er : refused nd pl nl nn = refused_lab nd pl nl).
  { unfold refused, refused_lab. apply existsb_ext_in. intros r Hr. destruct r as [p t|w]; auto.
    destruct (String.eqb pl p) eqn:E; simpl; auto. apply test_matches_lab. intros Hin. apply H. right.
    apply in_concat. exists (test_names t). split; auto.
    apply in_map_iff. exists (ND p t). rewrite E. auto. }
  rewrite Er. destruct (refused_lab nd pl nl); auto.
  destruct (find_dblock dt pl) as [[ps pty rows|w]|]; auto.
  assert (Ef : find (row_matches pl nl nn) rows = find (row_matches_lab nl) rows).
  { apply find_ext_in. intros r Hr. apply row_matches_lab_eq. intros Hin. apply H. left.
    apply in_concat. exists (row_names r). split; auto. now apply in_map. }
  now rewrite Ef.
Qed.

(* for ANY tables: the arm that frees the pointer of a single child whose label arm exists fires for that child WHATEVER
   the caller named it (reserved words aside) ... *)
Theorem single_dispatch_sound dt nd pl nl ptr nn :
  smem ptr (disp_single_lab dt nd pl nl) = true -> ~ In nn (reserved_names dt nd pl) ->
  smem ptr (disp_single dt nd pl nl nn) = true.
Proof. intros H Hn. now rewrite disp_single_unreserved. Qed.

(* ... and fires ONLY for it: a node of another label and an unreserved name is never dispatched to an arm selected by
   this label (the arm taken is the one the label alone selects) *)
Theorem single_dispatch_only dt nd pl nl' nn :
  ~ In nn (reserved_names dt nd pl) -> disp_single dt nd pl nl' nn = disp_single_lab dt nd pl nl'.
Proof. exact (disp_single_unreserved dt nd pl nl' nn). Qed.

(* with a reserved name: freed, refused, or the triple is listed by [shadowed_singles] *)
Theorem single_dispatch_reserved cn rnt dt nd gt pl nl ptr nn :
  In (pl, nl, ptr) (label_freed_singles cn rnt dt nd gt) -> ~ In (pl, nl, nn) (shadowed_singles cn rnt dt nd gt) ->
  smem ptr (disp_single dt nd pl nl nn) = true \/ refused nd pl nl nn = true.
Proof.
  intros Hu Hs.
  assert (Hl : smem ptr (disp_single_lab dt nd pl nl) = true).
  { unfold label_freed_singles in Hu. apply filter_In in Hu. now destruct Hu as [_ Hu]. }
  destruct (in_dec string_dec nn (reserved_names dt nd pl)) as [Hr|Hr]; [|left; now apply single_dispatch_sound].
  destruct (smem ptr (disp_single dt nd pl nl nn)) eqn:E1; [now left|].
  destruct (refused nd pl nl nn) eqn:E2; [now right|].
  exfalso. apply Hs. unfold shadowed_singles. apply in_concat.
  eexists. split.
  - apply in_map_iff. exists (pl, nl, ptr). split; [reflexivity|exact Hu].
  - simpl. apply in_concat. eexists. split.
    + apply in_map_iff. exists nn. split; [reflexivity|]. now apply dedup_in.
    + rewrite E1, E2. simpl. now left.
Qed.

(* the lemmas exactly as Properties_C04.v states them *)
Lemma initial_ok kok : Inv kok empty_parent /\ Rel empty_parent [].
Proof. split; [apply Inv_empty|apply Rel_empty]. Qed.

Theorem order_views kok nok sk disp ops s0 t0 :
  Inv kok s0 -> Rel s0 t0 -> OrdInv sk s0 -> disp_ok kok nok disp -> unsorted_kinds kok sk ->
  ops_ok kok nok ops -> writes_ok t0 ops ->
  hist_order_safe sk disp s0 ops = true ->
  forall k, sk k = false -> view_session (fst (run sk disp s0 ops)) k = view_file sk (fst (run sk disp s0 ops)) k.
Proof.
  intros I R O D US Ho Hw Hs k Hk. apply OrdInv_views; auto. eapply run_order; eauto.
Qed.

Theorem content_tables dt nd gt pl sk ops :
  let kok := fun k => smem k (sound_kinds dt nd gt pl) in
  let nok := fun nm => negb (smem nm (reserved_names dt nd pl)) in
  let disp := disp_of dt nd gt pl in
  ops_ok kok nok ops -> writes_ok [] ops ->
  let s := fst (run sk disp empty_parent ops) in
  let t := fst (i_run [] ops) in
  snd (run sk disp empty_parent ops) = snd (i_run [] ops) /\
  (forall k nm, vlookup nm (view_session s k) = i_view t k nm) /\
  (forall k nm, vlookup nm (view_file sk s k) = i_view t k nm) /\
  (forall k, view_session (reopen sk s) k = view_file sk s k) /\
  (forall k, NoDup (map fst (view_session s k))) /\
  (forall k, NoDup (map fst (view_file sk s k))).
Proof.
  intros kok nok disp Ho Hw.
  exact (content_agree kok nok sk disp ops empty_parent [] (Inv_empty kok) Rel_empty (dispatch_disp_ok dt nd gt pl) Ho Hw).
Qed.

(* ------------------------------------------------------------------------------------------------ witnesses *)
Definition K_SOL : string := "FlowSolution_t".
Definition K_DISC : string := "DiscreteData_t".
Definition K_ZONE : string := "Zone_t".
Definition all_shift : string -> string -> daction := fun k _ => DShift k.
Definition no_sort : string -> bool := fun _ => false.
Definition base_sort : string -> bool := cgns_sorted "CGNSBase_t".

(* solutions S1,S2,S3; overwrite S1: the session keeps index 1, a fresh open reports index 3 *)
Definition order_witness : list op :=
  [OWrite K_SOL "S1" 1; OWrite K_SOL "S2" 2; OWrite K_SOL "S3" 3; OWrite K_SOL "S1" 4].

Lemma order_refuted :
  writes_ok [] order_witness /\
  let s := fst (run no_sort all_shift empty_parent order_witness) in
  vindex "S1" (view_session s K_SOL) = Some 0%nat /\
  vindex "S1" (view_session (reopen no_sort s) K_SOL) = Some 2%nat /\
  view_session s K_SOL = [("S1", 4); ("S2", 2); ("S3", 3)] /\
  view_file no_sort s K_SOL = [("S2", 2); ("S3", 3); ("S1", 4)].
Proof. vm_compute. repeat split; reflexivity. Qed.

(* zones of a base are ordered by name on read: Zc then Za -- Za has index 2 in the session, 1 after a fresh open *)
Definition zone_sort_witness : list op := [OWrite K_ZONE "Zc" 3; OWrite K_ZONE "Za" 4].
Lemma zone_sort_refuted :
  writes_ok [] zone_sort_witness /\
  hist_order_safe base_sort all_shift empty_parent zone_sort_witness = true /\
  let s := fst (run base_sort all_shift empty_parent zone_sort_witness) in
  vindex "Za" (view_session s K_ZONE) = Some 1%nat /\
  vindex "Za" (view_session (reopen base_sort s) K_ZONE) = Some 0%nat /\
  view_file base_sort s K_ZONE = [("Za", 4); ("Zc", 3)].
Proof. vm_compute. repeat split; reflexivity. Qed.

(* a write that re-uses the name of a sibling of ANOTHER kind fails in the database after the mirror was extended:
   the session reports a DiscreteData_t that a fresh open does not find *)
Definition phantom_witness : list op := [OWrite K_SOL "S2" 1; OWrite K_DISC "S2" 7].
Lemma failed_write_phantom :
  let r := run no_sort all_shift empty_parent phantom_witness in
  snd r = [0; 1] /\
  vlookup "S2" (view_session (fst r) K_DISC) = Some 7 /\
  vlookup "S2" (view_file no_sort (fst r) K_DISC) = None /\
  snd (i_run [] phantom_witness) = [0; 1].
Proof. vm_compute. repeat split; reflexivity. Qed.

(* the dispatcher taking another arm than the node's own kind (a reserved name shadowing the label arm, or no
   block for the parent's label): the file node is gone, the session still lists it *)
Definition wrong_arm : string -> string -> daction := fun _ _ => DOther 0.
Lemma shadowed_delete_diverges :
  let r := run no_sort wrong_arm empty_parent [OWrite "UserDefinedData_t" "DataClass" 5; ODelete "DataClass"] in
  snd r = [0; 0] /\
  vlookup "DataClass" (view_session (fst r) "UserDefinedData_t") = Some 5 /\
  vlookup "DataClass" (view_file no_sort (fst r) "UserDefinedData_t") = None.
Proof. vm_compute. repeat split; reflexivity. Qed.

(* non-vacuity: a history with creations, an overwrite of the last sibling, deletions at the front and a reopen
   satisfies every hypothesis of the theorems, and its session view is what one expects *)
(* cg_link_write alone: the file has the link, the session does not list it until the file is read again *)
Lemma link_invisible_in_session :
  let s := fst (link_new (fst (fst (write empty_parent K_SOL "S1" 3))) K_SOL "L1" (-1)) in
  view_session s K_SOL = [("S1", 3)] /\ view_file no_sort s K_SOL = [("S1", 3); ("L1", -1)] /\
  view_session (reopen no_sort s) K_SOL = [("S1", 3); ("L1", -1)] /\
  (* ... and deleting it by name in the same session removes the node and reports an error (no slot to shift) *)
  snd (delete all_shift s "L1") = 1 /\ view_file no_sort (fst (delete all_shift s "L1")) K_SOL = [("S1", 3)].
Proof. vm_compute. repeat split; reflexivity. Qed.

(* an array loaded at open and then rewritten in place WITHOUT refreshing the loaded copy: session and file disagree *)
Lemma stale_cache_diverges :
  let s0 := reopen no_sort (fst (fst (write empty_parent "DataArray_t" "A1" 5))) in
  let s := fst (fst (write_inplace_stale s0 "DataArray_t" "A1" 7)) in
  view_session s "DataArray_t" = [("A1", 5)] /\ view_file no_sort s "DataArray_t" = [("A1", 7)] /\
  (* what [write_inplace] (the copy is refreshed, or there is none) gives instead *)
  view_session (fst (fst (write_inplace s0 "DataArray_t" "A1" 7))) "DataArray_t" = [("A1", 7)].
Proof. vm_compute. repeat split; reflexivity. Qed.

Definition sample_history : list op :=
  [OWrite K_SOL "A" 1; OWrite K_DISC "D" 9; OWrite K_SOL "B" 2; OWrite K_SOL "C" 3; OWrite K_SOL "C" 30;
   ODelete "A"; OReopen; OWrite K_SOL "E" 5; ODelete "D"; ODelete "nosuch"; OUpdate K_SOL "B" 20].
Lemma sample_history_ok :
  ops_ok (fun _ => true) (fun _ => true) sample_history /\ writes_ok [] sample_history /\
  hist_order_safe no_sort all_shift empty_parent sample_history = true /\
  view_session (fst (run no_sort all_shift empty_parent sample_history)) K_SOL = [("B", 20); ("C", 30); ("E", 5)] /\
  snd (run no_sort all_shift empty_parent sample_history) = [0; 0; 0; 0; 0; 0; 0; 0; 0; 1; 0].
Proof.
  split; [repeat constructor|]. vm_compute. repeat split; reflexivity.
Qed.
