(* FtocProofs.v -- lemmas and proofs for property C20 (model: Ftoc.v). *)
From Coq Require Import ZArith List String Bool Lia FinFun.
From CgnsV Require Import ListX Ftoc.
Import ListNotations.
Local Open Scope Z_scope.

(* ------------------------------------------------------------------ replaying write lists *)
Lemma apply_writes_length : forall ws buf, lenZ (apply_writes buf ws) = lenZ buf.
Proof.
  induction ws as [|[i v] r IH]; intros buf; simpl; auto.
  rewrite IH. destruct (in_buf buf i); auto using lenZ_updZ.
Qed.

Lemma apply_writes_notin : forall ws buf i d,
  ~ In i (map fst ws) -> nthZ (apply_writes buf ws) i d = nthZ buf i d.
Proof.
  induction ws as [|[j v] r IH]; intros buf i d H; simpl in *; auto.
  rewrite IH by tauto. destruct (in_buf buf j); auto.
  apply nthZ_updZ_neq. intro; subst; tauto.
Qed.

Lemma in_buf_updZ : forall (buf : list Z) j v i, in_buf (updZ buf j v) i = in_buf buf i.
Proof. intros. unfold in_buf. now rewrite lenZ_updZ. Qed.

Lemma apply_writes_in : forall ws buf i v d,
  NoDup (map fst ws) -> In (i, v) ws -> in_buf buf i = true -> nthZ (apply_writes buf ws) i d = v.
Proof.
  induction ws as [|[j w] r IH]; intros buf i v d ND HI HB; simpl in *; [tauto|].
  inversion ND as [|? ? Hn ND']; subst.
  destruct HI as [E|HI].
  - inversion E; subst. rewrite HB. rewrite apply_writes_notin by assumption.
    apply nthZ_updZ_eq. unfold in_buf in HB. lia.
  - apply IH; auto. destruct (in_buf buf j); auto. now rewrite in_buf_updZ.
Qed.

Lemma oob_writes_nil : forall bufsize ws,
  (forall i, In i (map fst ws) -> 0 <= i < bufsize) -> oob_writes bufsize ws = [].
Proof.
  intros bufsize ws H. unfold oob_writes.
  induction ws as [|[i v] r IH]; simpl in *; auto.
  assert (0 <= i < bufsize) by (apply H; auto).
  replace ((0 <=? i) && (i <? bufsize)) with true by (symmetry; apply andb_true_iff; split; [apply Z.leb_le|apply Z.ltb_lt]; lia).
  simpl. apply IH. intros; apply H; auto.
Qed.

(* ------------------------------------------------------------------ index ranges *)
Lemma in_zrange : forall n i, In i (zrange n) <-> 0 <= i < n.
Proof.
  intros n i. unfold zrange. rewrite in_map_iff. split.
  - intros [k [E H]]. apply in_seq in H. lia.
  - intros H. exists (Z.to_nat i). split; [lia|]. apply in_seq. lia.
Qed.

Lemma zrange_NoDup : forall n, NoDup (zrange n).
Proof.
  intros. unfold zrange. apply Injective_map_NoDup; [|apply seq_NoDup].
  intros a b H. lia.
Qed.

Lemma copy_writes_fst : forall src n, map fst (copy_writes src n) = zrange n.
Proof. intros. unfold copy_writes, zrange. rewrite map_map. reflexivity. Qed.

Lemma pad_writes_fst : forall a b, 0 <= a <= b -> zrange a ++ map fst (pad_writes a b) = zrange b.
Proof.
  intros a b H. unfold pad_writes, zrange. rewrite map_map. simpl.
  rewrite <- map_app. f_equal.
  replace (Z.to_nat b) with (Z.to_nat a + Z.to_nat (b - a))%nat by lia.
  rewrite seq_app. reflexivity.
Qed.

Lemma in_copy_writes : forall src n i, 0 <= i < n -> In (i, nthZ src i 0) (copy_writes src n).
Proof.
  intros. unfold copy_writes. apply in_map_iff. exists (Z.to_nat i). split.
  - f_equal; [lia|f_equal; lia].
  - apply in_seq. lia.
Qed.

Lemma in_pad_writes : forall a b i, 0 <= a -> a <= i < b -> In (i, blank) (pad_writes a b).
Proof.
  intros. unfold pad_writes. apply in_map_iff. exists (Z.to_nat i). split.
  - f_equal; lia.
  - apply in_seq. lia.
Qed.

(* ------------------------------------------------------------------ trailing blanks *)
Lemma nthZ_nat : forall (l : list Z) k d, nthZ l (Z.of_nat k) d = nth k l d.
Proof. intros. unfold nthZ. destruct (Z.ltb_spec (Z.of_nat k) 0); [lia|]. now rewrite Nat2Z.id. Qed.

Lemma firstn_S_snoc : forall (l : list Z) k d, (k < List.length l)%nat -> firstn (S k) l = firstn k l ++ [nth k l d].
Proof.
  induction l as [|x r IH]; intros k d H; simpl in *; [lia|].
  destruct k; simpl; auto. f_equal. apply IH. lia.
Qed.

Lemma rtrim_snoc : forall l x, rtrim (l ++ [x]) = if x =? blank then rtrim l else l ++ [x].
Proof.
  intros. unfold rtrim. rewrite rev_app_distr. simpl.
  destruct (x =? blank); auto. simpl. now rewrite rev_involutive.
Qed.

Lemma scan_back_range : forall f n, -1 <= scan_back f n < Z.of_nat n.
Proof.
  induction n as [|k IH]; simpl; [lia|].
  destruct (nthZ f (Z.of_nat k) 0 =? blank); lia.
Qed.

Lemma scan_back_rtrim : forall f n, (n <= List.length f)%nat ->
  rtrim (firstn n f) = firstn (Z.to_nat (scan_back f n + 1)) f.
Proof.
  induction n as [|k IH]; intros H.
  - reflexivity.
  - rewrite (firstn_S_snoc f k 0) by lia. rewrite rtrim_snoc. simpl scan_back.
    rewrite nthZ_nat. destruct (nth k f 0 =? blank).
    + apply IH. lia.
    + replace (Z.to_nat (Z.of_nat k + 1)) with (S k) by lia.
      symmetry. apply firstn_S_snoc. lia.
Qed.

Lemma fvalue_firstn : forall f flen, 0 <= flen <= lenZ f ->
  fvalue f flen = firstn (Z.to_nat (find_iend f flen + 1)) f.
Proof. intros. unfold fvalue, find_iend. apply scan_back_rtrim. unfold lenZ in *. lia. Qed.

Lemma fvalue_len : forall f flen, 0 <= flen <= lenZ f -> lenZ (fvalue f flen) = find_iend f flen + 1.
Proof.
  intros f flen H. rewrite fvalue_firstn by assumption. unfold lenZ in *. rewrite firstn_length.
  unfold find_iend. pose proof (scan_back_range f (Z.to_nat flen)). lia.
Qed.

Lemma nth_firstn_lt : forall (l : list Z) m i d, (i < m)%nat -> nth i (firstn m l) d = nth i l d.
Proof.
  induction l as [|x r IH]; intros m i d H.
  - destruct m; [lia|]. simpl. destruct i; reflexivity.
  - destruct m; [lia|]. simpl. destruct i; [reflexivity|]. apply IH. lia.
Qed.

Lemma fvalue_nth : forall f flen i d, 0 <= flen <= lenZ f -> 0 <= i < lenZ (fvalue f flen) ->
  nthZ (fvalue f flen) i d = nthZ f i d.
Proof.
  intros f flen i d H Hi. rewrite fvalue_len in Hi by assumption. rewrite fvalue_firstn by assumption.
  unfold nthZ. destruct (Z.ltb_spec i 0); [lia|]. apply nth_firstn_lt. lia.
Qed.

(* ------------------------------------------------------------------ to_c_string / string_2_C_string *)
Lemma to_c_ret_spec : forall f flen max_len, 0 <= max_len -> 0 <= flen <= lenZ f ->
  to_c_ret f flen max_len = Z.min (lenZ (fvalue f flen)) max_len.
Proof.
  intros f flen max_len Hm Hf. rewrite fvalue_len by assumption.
  unfold to_c_ret, copy_count, clamp_iend, find_iend.
  pose proof (scan_back_range f (Z.to_nat flen)).
  destruct (Z.geb_spec (scan_back f (Z.to_nat flen)) max_len); lia.
Qed.

Lemma to_c_fst : forall f flen max_len,
  map fst (to_c_writes f flen max_len) = zrange (to_c_ret f flen max_len + 1).
Proof.
  intros. unfold to_c_writes. fold (to_c_ret f flen max_len).
  set (n := to_c_ret f flen max_len).
  assert (Hn : 0 <= n) by (unfold n, to_c_ret, copy_count; lia).
  rewrite map_app, copy_writes_fst. simpl.
  unfold zrange. replace (Z.to_nat (n + 1)) with (Z.to_nat n + 1)%nat by lia.
  rewrite seq_app, map_app. simpl. f_equal. f_equal. lia.
Qed.

Theorem to_c_bounds : forall f flen max_len buf,
  0 <= max_len -> 0 <= flen <= lenZ f ->
  let v := fvalue f flen in
  let n := Z.min (lenZ v) max_len in
  let ws := to_c_writes f flen max_len in
  map fst ws = zrange (n + 1) /\
  to_c_ret f flen max_len = n /\
  snd (s2c false false f flen max_len) = 0 /\ fst (s2c false false f flen max_len) = ws /\
  (forall bufsize, max_len + 1 <= bufsize -> oob_writes bufsize ws = []) /\
  (n < lenZ buf ->
     let b' := apply_writes buf ws in
     lenZ b' = lenZ buf /\
     (forall i, 0 <= i < n -> nthZ b' i 0 = nthZ v i 0) /\
     nthZ b' n 1 = 0 /\
     (forall i d, n < i -> nthZ b' i d = nthZ buf i d)).
Proof.
  intros f flen max_len buf Hm Hf v n ws.
  assert (Hr : to_c_ret f flen max_len = n) by (apply to_c_ret_spec; assumption).
  assert (Hfst : map fst ws = zrange (n + 1)) by (unfold ws; rewrite to_c_fst, Hr; reflexivity).
  assert (Hn0 : 0 <= n) by (unfold n, lenZ; lia).
  split; [assumption|]. split; [assumption|]. split; [reflexivity|]. split; [reflexivity|]. split.
  - intros bufsize Hb. apply oob_writes_nil. intros i Hi. rewrite Hfst in Hi. apply in_zrange in Hi. lia.
  - intros Hbuf b'. split; [apply apply_writes_length|].
    assert (ND : NoDup (map fst ws)) by (rewrite Hfst; apply zrange_NoDup).
    split; [|split].
    + intros i Hi. unfold b'. rewrite (apply_writes_in ws buf i (nthZ f i 0)); auto.
      * symmetry. apply fvalue_nth; [assumption|]. fold v. lia.
      * unfold ws, to_c_writes. fold (to_c_ret f flen max_len). rewrite Hr.
        apply in_or_app. left. apply in_copy_writes. assumption.
      * unfold in_buf. apply andb_true_iff. split; [apply Z.leb_le|apply Z.ltb_lt]; lia.
    + unfold b'. apply apply_writes_in; auto.
      * unfold ws, to_c_writes. fold (to_c_ret f flen max_len). rewrite Hr.
        apply in_or_app. right. left. reflexivity.
      * unfold in_buf. apply andb_true_iff. split; [apply Z.leb_le|apply Z.ltb_lt]; lia.
    + intros i d Hi. unfold b'. apply apply_writes_notin. rewrite Hfst. rewrite in_zrange. lia.
Qed.

(* the NULL-pointer arm: nothing is written, the status is CG_ERROR *)
Lemma s2c_null : forall a b f flen max_len, a || b = true -> s2c a b f flen max_len = ([], 1).
Proof. intros. unfold s2c. now rewrite H. Qed.

(* ------------------------------------------------------------------ to_f_string / string_2_F_string *)
Lemma cvalue_len : forall c, lenZ (cvalue c) = strlenZ c.
Proof.
  intros. unfold cvalue, lenZ, strlenZ. rewrite firstn_length. f_equal.
  induction c as [|x r IH]; simpl; auto. destruct (x =? 0); simpl; lia.
Qed.

Lemma cvalue_nth : forall c i d, 0 <= i < strlenZ c -> nthZ (cvalue c) i d = nthZ c i d.
Proof.
  intros c i d H. unfold cvalue, nthZ. destruct (Z.ltb_spec i 0); [lia|].
  apply nth_firstn_lt. unfold strlenZ in H. lia.
Qed.

Theorem to_f_bounds : forall c flen buf,
  0 <= flen ->
  let s := cvalue c in
  let ws := to_f_writes c flen in
  map fst ws = zrange flen /\
  snd (s2f false false c flen) = 0 /\ fst (s2f false false c flen) = ws /\
  (forall bufsize, flen <= bufsize -> oob_writes bufsize ws = []) /\
  (flen <= lenZ buf ->
     let b' := apply_writes buf ws in
     lenZ b' = lenZ buf /\
     (forall i, 0 <= i < flen -> nthZ b' i 0 = if i <? lenZ s then nthZ s i 0 else blank) /\
     (forall i d, flen <= i -> nthZ b' i d = nthZ buf i d)).
Proof.
  intros c flen buf Hf s ws.
  set (len := if strlenZ c >? flen then flen else strlenZ c).
  assert (Hlen : len = Z.min (strlenZ c) flen).
  { unfold len. destruct (Z.gtb_spec (strlenZ c) flen); lia. }
  assert (Hl0 : 0 <= len <= flen) by (unfold strlenZ in *; lia).
  assert (Hws : ws = copy_writes c len ++ pad_writes len flen).
  { unfold ws, to_f_writes. fold len. replace (Z.max 0 len) with len by lia. reflexivity. }
  assert (Hfst : map fst ws = zrange flen).
  { rewrite Hws, map_app, copy_writes_fst. apply pad_writes_fst. lia. }
  split; [assumption|]. split; [reflexivity|]. split; [reflexivity|]. split.
  - intros bufsize Hb. apply oob_writes_nil. intros i Hi. rewrite Hfst in Hi. apply in_zrange in Hi. lia.
  - intros Hbuf b'. split; [apply apply_writes_length|].
    assert (ND : NoDup (map fst ws)) by (rewrite Hfst; apply zrange_NoDup).
    split.
    + intros i Hi. unfold s. rewrite cvalue_len.
      assert (HB : in_buf buf i = true).
      { unfold in_buf. apply andb_true_iff. split; [apply Z.leb_le|apply Z.ltb_lt]; lia. }
      destruct (Z.ltb_spec i (strlenZ c)).
      * rewrite cvalue_nth by lia. unfold b'. apply apply_writes_in; auto.
        rewrite Hws. apply in_or_app. left. apply in_copy_writes. lia.
      * unfold b'. apply apply_writes_in; auto.
        rewrite Hws. apply in_or_app. right. apply in_pad_writes; lia.
    + intros i d Hi. unfold b'. apply apply_writes_notin. rewrite Hfst, in_zrange. lia.
Qed.

(* what happens when the C string is longer than the Fortran variable: the first flen bytes, no blank, no
   terminator, and the status is still CG_OK -- silent truncation *)
Corollary to_f_truncates : forall c flen buf, 0 <= flen -> flen < strlenZ c -> flen <= lenZ buf ->
  snd (s2f false false c flen) = 0 /\
  forall i, 0 <= i < flen -> nthZ (apply_writes buf (to_f_writes c flen)) i 0 = nthZ c i 0.
Proof.
  intros c flen buf H0 H1 H2. destruct (to_f_bounds c flen buf H0) as (_ & Hs & _ & _ & Hb).
  split; [assumption|]. intros i Hi. destruct (Hb H2) as (_ & Hc & _).
  rewrite Hc by assumption. rewrite cvalue_len.
  destruct (Z.ltb_spec i (strlenZ c)); [|lia]. apply cvalue_nth. lia.
Qed.

(* a negative length writes nothing at all *)
Lemma to_f_negative : forall c flen, flen <= 0 -> to_f_writes c flen = [].
Proof.
  intros c flen H. unfold to_f_writes.
  set (len := if strlenZ c >? flen then flen else strlenZ c).
  assert (len <= 0) by (unfold len, strlenZ; destruct (Z.gtb_spec (Z.of_nat (strlen_nat c)) flen); lia).
  unfold copy_writes, pad_writes.
  replace (Z.to_nat (Z.max 0 len)) with O by lia.
  replace (Z.to_nat (flen - Z.max 0 len)) with O by lia. reflexivity.
Qed.

(* ------------------------------------------------------------------ the regenerated table: generic lemmas *)
Lemma table_ok_row : forall t r, table_ok t = true -> In r t -> row_known r = false -> row_ok r = true.
Proof.
  intros t r Ht Hi Hk. unfold table_ok in Ht. rewrite forallb_forall in Ht.
  specialize (Ht r Hi). rewrite Hk, orb_false_r in Ht. assumption.
Qed.

Lemma table_ok_no_unparsed : forall t n why, table_ok t = true -> ~ In (Unparsed n why) t.
Proof.
  intros t n why Ht Hi. unfold table_ok in Ht. rewrite forallb_forall in Ht.
  specialize (Ht _ Hi). simpl in Ht. discriminate.
Qed.

Lemma row_ok_parts : forall w, row_ok (Wrapper w) = true ->
  buffers_ok w = true /\ call_ok w = true /\ args_ok w = true /\ hidden_ok w = true.
Proof.
  intros w H. simpl in H. repeat (apply andb_true_iff in H; destruct H as [H ?]). auto.
Qed.

(* what buffers_ok means for one string parameter, for every Fortran string and every hidden length *)
Definition out_fits (target : string) (s : strp) : Prop :=
  match s_buf s with
  | BFixed n | BHeapArr n => 0 <= s_carg s /\ out_max target (s_carg s) <= n
  | BHeapQueried1 | BLibAlloc | BLibStatic => True
  | BUnknown | BHeapHidden1 => False
  end.
Definition out_len_ok (s : strp) : Prop :=
  (s_len s = LHidden /\ s_stride s = 0) \/
  (exists m, s_len s = LConst m /\ 0 < m <= s_stride s) \/
  (s_len s = LUser /\ s_stride s = -1).

Definition str_fits (w : wrapper) (s : strp) : Prop :=
  match s_dir s with
  | SIn => forall f hidden, 0 <= hidden <= lenZ f ->
             0 <= max_len_of s hidden /\ max_len_of s hidden + 1 <= buf_size_of s hidden /\
             oob_writes (buf_size_of s hidden) (to_c_writes f hidden (max_len_of s hidden)) = []
  | SOut => out_fits (r_target w) s /\ out_len_ok s /\
            (r_ier w = IerStored -> s_guarded s = true) /\
            forall c hidden bufsize, 0 <= hidden <= bufsize -> oob_writes bufsize (to_f_writes c hidden) = []
  end.

Lemma str_ok_fits : forall w s, str_ok w s = true -> str_fits w s.
Proof.
  intros w s H. unfold str_ok in H. unfold str_fits. destruct (s_dir s).
  - intros f hidden Hh. unfold str_in_ok in H. apply andb_true_iff in H. destruct H as [H _].
    unfold max_len_of, buf_size_of.
    destruct (s_buf s) eqn:Eb; destruct (s_len s) eqn:El; try discriminate.
    + apply andb_true_iff in H. destruct H as [H1 H2]. apply Z.leb_le in H1, H2.
      split; [lia|]. split; [lia|].
      destruct (to_c_bounds f hidden n0 [] ltac:(lia) Hh) as (_ & _ & _ & _ & Ho & _). apply Ho. lia.
    + split; [lia|]. split; [lia|].
      destruct (to_c_bounds f hidden hidden [] ltac:(lia) Hh) as (_ & _ & _ & _ & Ho & _). apply Ho. lia.
  - unfold str_out_ok in H. apply andb_true_iff in H. destruct H as [H Hg].
    apply andb_true_iff in H. destruct H as [Hb Hl]. split; [|split; [|split]].
    + unfold out_fits. destruct (s_buf s); try discriminate; auto;
        apply andb_true_iff in Hb; destruct Hb as [H1 H2]; apply Z.leb_le in H1, H2; lia.
    + unfold out_len_ok. destruct (s_len s) eqn:El; try discriminate.
      * right. left. exists n. apply andb_true_iff in Hl. destruct Hl as [H1 H2].
        apply Z.ltb_lt in H1. apply Z.leb_le in H2. split; [reflexivity|lia].
      * left. destruct (s_stride s); try discriminate. auto.
      * right. right. destruct (s_stride s) as [|p|p]; try discriminate.
        destruct p; try discriminate. auto.
    + intros E. rewrite E in Hg. simpl in Hg. assumption.
    + intros c hidden bufsize Hh.
      destruct (to_f_bounds c hidden [] ltac:(lia)) as (_ & _ & _ & Ho & _). apply Ho. lia.
Qed.

Theorem buffers_fit_generic : forall t w s,
  table_ok t = true -> In (Wrapper w) t -> row_known (Wrapper w) = false -> In s (r_strs w) -> str_fits w s.
Proof.
  intros t w s Ht Hi Hk Hs. pose proof (table_ok_row t _ Ht Hi Hk) as Hr.
  apply row_ok_parts in Hr. destruct Hr as (Hb & _). unfold buffers_ok in Hb.
  rewrite forallb_forall in Hb. apply str_ok_fits. apply Hb. assumption.
Qed.

Definition is_call (w : wrapper) : Prop :=
  same_named (r_name w) (r_target w) = true /\
  (r_ncalls w = 1 \/ (1 <= r_ncalls w /\ mem (r_name w) branching = true)) /\
  ((r_ier w = IerStored /\ r_has_ier w = true) \/
   (r_ier w = IerReturned /\ mem (r_name w) cstring_helpers = true) \/
   (r_ier w = IerVoid /\ mem (r_target w) void_targets = true)) /\
  (forall c, In c (r_pre w) -> mem c allowed_pre = true) /\
  r_proto_known w = true /\ args_compat (r_ptys w) (r_args w) (r_proto w) = true /\
  increasing (-1) (sources (r_args w)) = true /\
  hidden_ok w = true.

Theorem wrapper_is_call_generic : forall t w,
  table_ok t = true -> In (Wrapper w) t -> row_known (Wrapper w) = false -> is_call w.
Proof.
  intros t w Ht Hi Hk. pose proof (table_ok_row t _ Ht Hi Hk) as Hr.
  apply row_ok_parts in Hr. destruct Hr as (_ & Hc & Ha & Hh).
  unfold call_ok in Hc. repeat (apply andb_true_iff in Hc; destruct Hc as [Hc ?]).
  unfold args_ok in Ha. repeat (apply andb_true_iff in Ha; destruct Ha as [Ha ?]).
  unfold is_call. split; [assumption|]. split; [|split; [|split; [|repeat split; assumption]]].
  - apply orb_true_iff in H1. destruct H1 as [E|E].
    + left. now apply Z.eqb_eq.
    + right. apply andb_true_iff in E. destruct E as [E1 E2]. apply Z.leb_le in E1. auto.
  - destruct (r_ier w); auto; discriminate.
  - intros c Hc'. rewrite forallb_forall in H. auto.
Qed.

(* the row of the current code that violates row_ok, kept visible *)
Lemma known_row_refuted :
  exists r, row_name r = "cg_bcdataset_info_f"%string /\ row_ok r = false /\
            match r with
            | Wrapper w => buffers_ok w = true /\ call_ok w = true /\ args_ok w = true /\
                           r_strparams w = [] /\ r_hiddens w = ["Dataset_name"%string]
            | Unparsed _ _ => False
            end.
Proof. exists witness_bcdataset_info. vm_compute. repeat split; reflexivity. Qed.

(* non-vacuity: the hypotheses of the two string theorems are satisfiable and the model computes *)
Example to_c_example :
  let f := [72; 105; 32; 32; 32] in      (* "Hi   " *)
  to_c_writes f 5 32 = [(0, 72); (1, 105); (2, 0)] /\ fvalue f 5 = [72; 105] /\
  to_c_writes f 5 1 = [(0, 72); (1, 0)] /\ to_c_writes [32; 32] 2 32 = [(0, 0)].
Proof. vm_compute. repeat split; reflexivity. Qed.
Example to_f_example :
  to_f_writes [72; 105; 0; 7] 4 = [(0, 72); (1, 105); (2, 32); (3, 32)] /\
  to_f_writes [72; 105; 33; 0] 2 = [(0, 72); (1, 105)] /\ to_f_writes [72; 0] 0 = [].
Proof. vm_compute. repeat split; reflexivity. Qed.
