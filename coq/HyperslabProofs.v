(* HyperslabProofs.v -- proofs about the model in Hyperslab.v (property C05). *)
From Coq Require Import ZArith List Bool Lia Sorted Morphisms Setoid.
From CgnsV Require Import ListX Hyperslab.
Import ListNotations.
Local Open Scope Z_scope.

Ltac Zify.zify_post_hook ::= Z.div_mod_to_equations.
Local Arguments Z.add _ _ : simpl never.
Local Arguments Z.sub _ _ : simpl never.
Local Arguments Z.mul _ _ : simpl never.
Local Arguments Z.div _ _ : simpl never.
Local Arguments Z.quot _ _ : simpl never.
Local Arguments Z.modulo _ _ : simpl never.
Local Arguments Z.pow _ _ : simpl never.
Local Arguments Z.of_nat _ : simpl never.
Local Arguments Z.to_nat _ : simpl never.

(* ------------------------------------------------------------------ arithmetic modulo 2^64 *)
Definition idw (x : Z) : Z := x.
Notation eqm := (Zdiv.eqm W64).

Lemma W64_pos : 0 < W64. Proof. reflexivity. Qed.
Lemma w64_small x : 0 <= x < W64 -> w64 x = x.
Proof. intros; unfold w64; apply Z.mod_small; auto. Qed.
Lemma w64_eqm x : eqm (w64 x) x.
Proof. unfold w64. apply Zdiv.Zmod_eqm. Qed.
Lemma eqm_w64 x y : eqm x y -> w64 x = w64 y.
Proof. intros H; exact H. Qed.

Lemma w64_range x : 0 <= w64 x < W64.
Proof. unfold w64. apply Z.mod_pos_bound. exact W64_pos. Qed.

Lemma eqm_small x y : eqm x y -> 0 <= x < W64 -> 0 <= y < W64 -> x = y.
Proof. unfold Zdiv.eqm. intros E Hx Hy. rewrite !Z.mod_small in E; auto. Qed.

Lemma eqm_refl x : eqm x x. Proof. reflexivity. Qed.
Lemma eqm_add a a' b b' : eqm a a' -> eqm b b' -> eqm (a + b) (a' + b').
Proof. intros H1 H2. unfold Zdiv.eqm in *. rewrite Z.add_mod, H1, H2, <- Z.add_mod; auto; discriminate. Qed.
Lemma eqm_sub a a' b b' : eqm a a' -> eqm b b' -> eqm (a - b) (a' - b').
Proof. intros H1 H2. unfold Zdiv.eqm in *. rewrite Zdiv.Zminus_mod, H1, H2, <- Zdiv.Zminus_mod; auto. Qed.
Lemma eqm_mul a a' b b' : eqm a a' -> eqm b b' -> eqm (a * b) (a' * b').
Proof. intros H1 H2. unfold Zdiv.eqm in *. rewrite Z.mul_mod, H1, H2, <- Z.mul_mod; auto; discriminate. Qed.
Lemma eqm_w64_l a b : eqm a b -> eqm (w64 a) b.
Proof. intros H. unfold Zdiv.eqm, w64 in *. rewrite Z.mod_mod; auto; discriminate. Qed.
Ltac eqm_tac := repeat first [ assumption | apply eqm_refl | apply eqm_w64_l | apply eqm_add | apply eqm_sub | apply eqm_mul ].

(* ------------------------------------------------------------------ validity *)
Definition dvalid (d : dsel) : Prop :=
  1 <= d_start d /\ d_start d <= d_end d /\ d_end d <= d_dim d /\ 1 <= d_stride d.
Definition valid (ds : list dsel) : Prop := Forall dvalid ds.
(* the guard of the theorems: a valid selection of rank 1..12 in an array of fewer than 2^63 elements *)
Definition sel_ok (ds : list dsel) : Prop :=
  (1 <= length ds <= 12)%nat /\ valid ds /\ prodZ (dims_of ds) < 2 ^ 63.

Lemma ctp_check_None ds : ctp_check ds = None <-> valid ds.
Proof.
  unfold valid. induction ds as [|d r IH]; simpl.
  - split; auto.
  - destruct (Z.ltb_spec (d_dim d) 1).
    { split; [discriminate|]. intros H'; inversion H' as [|? ? [? [? [? ?]]]]; subst; lia. }
    destruct (Z.ltb_spec (d_start d) 1); simpl.
    { split; [discriminate|]. intros H'; inversion H' as [|? ? [? [? [? ?]]]]; subst; lia. }
    destruct (Z.ltb_spec (d_dim d) (d_start d)); simpl.
    { split; [discriminate|]. intros H'; inversion H' as [|? ? [? [? [? ?]]]]; subst; lia. }
    destruct (Z.ltb_spec (d_end d) 1); simpl.
    { split; [discriminate|]. intros H'; inversion H' as [|? ? [? [? [? ?]]]]; subst; lia. }
    destruct (Z.ltb_spec (d_dim d) (d_end d)); simpl.
    { split; [discriminate|]. intros H'; inversion H' as [|? ? [? [? [? ?]]]]; subst; lia. }
    destruct (Z.ltb_spec (d_end d) (d_start d)).
    { split; [discriminate|]. intros H'; inversion H' as [|? ? [? [? [? ?]]]]; subst; lia. }
    destruct (Z.ltb_spec (d_stride d) 1).
    { split; [discriminate|]. intros H'; inversion H' as [|? ? [? [? [? ?]]]]; subst; lia. }
    rewrite IH. split; intros H'.
    + constructor; auto. unfold dvalid; lia.
    + inversion H'; auto.
Qed.

(* ------------------------------------------------------------------ lin: Horner form, bounds *)
Fixpoint linH (dims idx : list Z) : Z :=
  match dims, idx with
  | d :: ds, i :: r => (i - 1) + d * linH ds r
  | _, _ => 0
  end.

Lemma lin_acc_linH : forall dims idx a, lin_acc a dims idx = a * linH dims idx.
Proof.
  induction dims as [|d ds IH]; intros [|i r] a; simpl; try ring.
  rewrite IH. ring.
Qed.
Lemma lin_linH dims idx : lin dims idx = linH dims idx.
Proof. unfold lin. rewrite lin_acc_linH. ring. Qed.

(* an index vector inside the array *)
Definition in_dims (dims idx : list Z) : Prop := Forall2 (fun d c => 1 <= c <= d) dims idx.

Lemma prodZ_cons d l : prodZ (d :: l) = d * prodZ l.
Proof. reflexivity. Qed.

Lemma prodZ_pos l : Forall (fun d => 1 <= d) l -> 1 <= prodZ l.
Proof. induction 1; simpl; [lia|]. fold (prodZ l). nia. Qed.

Lemma linH_bounds dims idx : in_dims dims idx -> 0 <= linH dims idx < prodZ dims.
Proof.
  induction 1 as [|d c ds r Hc _ IH]; simpl; [lia|]. fold (prodZ ds). nia.
Qed.

Lemma in_dims_dims_pos dims idx : in_dims dims idx -> Forall (fun d => 1 <= d) dims.
Proof. induction 1; constructor; auto; lia. Qed.

(* linH is injective on index vectors inside the array *)
Lemma linH_inj dims : forall i1 i2, in_dims dims i1 -> in_dims dims i2 -> linH dims i1 = linH dims i2 -> i1 = i2.
Proof.
  induction dims as [|d ds IH]; intros i1 i2 H1 H2 E.
  - inversion H1; inversion H2; subst; auto.
  - inversion H1 as [|? c1 ? r1 Hc1 Hr1]; inversion H2 as [|? c2 ? r2 Hc2 Hr2]; subst.
    simpl in E.
    pose proof (linH_bounds _ _ Hr1). pose proof (linH_bounds _ _ Hr2).
    assert (E' : linH ds r1 = linH ds r2).
    { destruct (Z.lt_trichotomy (linH ds r1) (linH ds r2)) as [L|[L|L]]; auto.
      - assert (d * (linH ds r1 + 1) <= d * linH ds r2) by (apply Z.mul_le_mono_nonneg_l; lia). lia.
      - assert (d * (linH ds r2 + 1) <= d * linH ds r1) by (apply Z.mul_le_mono_nonneg_l; lia). lia. }
    assert (c1 = c2) by (rewrite E' in E; lia). subst c2.
    f_equal. apply IH; auto.
Qed.

(* ------------------------------------------------------------------ successor in the box *)
Fixpoint nxt (ds : list dsel) (cur : list Z) : option (list Z) :=
  match ds, cur with
  | d :: r, c :: t =>
      if c + d_stride d <=? d_end d then Some ((c + d_stride d) :: t)
      else match nxt r t with Some t' => Some (d_start d :: t') | None => None end
  | _, _ => None
  end.

(* a current position the loops can be in *)
Definition cvalid (ds : list dsel) (cur : list Z) : Prop :=
  Forall2 (fun d c => d_start d <= c <= d_end d) ds cur.

Lemma cvalid_in_dims ds cur : valid ds -> cvalid ds cur -> in_dims (dims_of ds) cur.
Proof.
  intros V C. induction C as [|d c r t Hc _ IH]; simpl; constructor.
  - inversion V as [|? ? [? [? [? ?]]]]; subst. lia.
  - apply IH. inversion V; auto.
Qed.

Lemma nxt_cvalid : forall ds cur n, valid ds -> cvalid ds cur -> nxt ds cur = Some n -> cvalid ds n.
Proof.
  induction ds as [|d r IH]; intros cur n V C E; inversion C; subst; simpl in E; [discriminate|].
  inversion V as [|? ? [? [? [? ?]]] Vr]; subst.
  destruct (Z.leb_spec (y + d_stride d) (d_end d)).
  - inversion E; subst. constructor; auto. lia.
  - destruct (nxt r l') as [t'|] eqn:En; [|discriminate]. inversion E; subst.
    constructor; [lia|]. eapply IH; eauto.
Qed.

(* the "-1 lets the next loop add its stride" identity: pure ring reasoning, for any accumulators *)
Lemma incr_id_some : forall ds cur n off a,
  nxt ds cur = Some n ->
  incr idw ds cur off a = (n, off + a * (linH (dims_of ds) n - linH (dims_of ds) cur) + 1 - a).
Proof.
  induction ds as [|d r IH]; intros [|c t] n off a E; simpl in E; try discriminate.
  simpl. destruct (Z.leb_spec (c + d_stride d) (d_end d)).
  - inversion E; subst. simpl. unfold idw. f_equal. ring.
  - destruct (nxt r t) as [t'|] eqn:En; [|discriminate]. inversion E; subst.
    rewrite (IH t t' _ _ En). simpl. unfold idw. f_equal. ring.
Qed.

Lemma nxt_increases : forall ds cur n, valid ds -> cvalid ds cur -> nxt ds cur = Some n ->
  linH (dims_of ds) cur < linH (dims_of ds) n.
Proof.
  induction ds as [|d r IH]; intros cur n V C E; inversion C; subst; simpl in E; [discriminate|].
  inversion V as [|? ? [? [? [? ?]]] Vr]; subst. simpl.
  destruct (Z.leb_spec (y + d_stride d) (d_end d)).
  - inversion E; subst. simpl. lia.
  - destruct (nxt r l') as [t'|] eqn:En; [|discriminate]. inversion E; subst. simpl.
    specialize (IH _ _ Vr H3 En). nia.
Qed.

(* the wrapped computation is the image of the ideal one *)
Lemma incr_wrap : forall ds cur off a off' a', eqm off off' -> eqm a a' ->
  fst (incr w64 ds cur off a) = fst (incr idw ds cur off' a') /\
  eqm (snd (incr w64 ds cur off a)) (snd (incr idw ds cur off' a')).
Proof.
  induction ds as [|d r IH]; intros [|c t] off a off' a' Ho Ha; simpl; auto.
  destruct (Z.leb_spec (c + d_stride d) (d_end d)); simpl.
  - split; auto. unfold idw. eqm_tac.
  - specialize (IH t (w64 (off + w64 (w64 (w64 (w64 (d_dim d - c) + d_start d) - 1) * a))) (w64 (a * d_dim d))
                   (idw (off' + idw (idw (idw (idw (d_dim d - c) + d_start d) - 1) * a'))) (idw (a' * d_dim d))).
    destruct (incr w64 r t _ _) as [t1 o1]. destruct (incr idw r t _ _) as [t2 o2]. simpl in *.
    destruct IH as [E1 E2].
    + unfold idw. eqm_tac.
    + unfold idw. eqm_tac.
    + subst. split; auto.
Qed.

Lemma dims_of_valid_pos ds : valid ds -> Forall (fun d => 1 <= d) (dims_of ds).
Proof.
  induction 1 as [|d r [? [? [? ?]]] _ IH]; simpl; constructor; auto. lia.
Qed.


Lemma incr_range : forall ds cur n off a, nxt ds cur = Some n -> 0 <= snd (incr w64 ds cur off a) < W64.
Proof.
  induction ds as [|d r IH]; intros [|c t] n off a E; simpl in E; try discriminate.
  simpl. destruct (Z.leb_spec (c + d_stride d) (d_end d)); simpl.
  - apply w64_range.
  - destruct (nxt r t) as [t'|] eqn:En; [|discriminate].
    specialize (IH t t' (w64 (off + w64 (w64 (w64 (w64 (d_dim d - c) + d_start d) - 1) * a))) (w64 (a * d_dim d)) En).
    destruct (incr w64 r t _ _). simpl in *. exact IH.
Qed.

(* one step of the element loop: the next index vector and the exact distance to it *)
Lemma adf_step_some ds cur n :
  valid ds -> cvalid ds cur -> prodZ (dims_of ds) <= W64 -> nxt ds cur = Some n ->
  adf_step w64 ds cur = (n, linH (dims_of ds) n - linH (dims_of ds) cur).
Proof.
  intros V C B E.
  assert (Hn : cvalid ds n) by (eapply nxt_cvalid; eauto).
  pose proof (linH_bounds _ _ (cvalid_in_dims _ _ V C)) as B1.
  pose proof (linH_bounds _ _ (cvalid_in_dims _ _ V Hn)) as B2.
  pose proof (nxt_increases _ _ _ V C E) as Inc.
  assert (G : incr w64 ds cur 0 1 = (n, linH (dims_of ds) n - linH (dims_of ds) cur)).
  { destruct (incr_wrap ds cur 0 1 0 1) as [E1 E2]; try reflexivity.
    pose proof (incr_range ds cur n 0 1 E) as R.
    rewrite (incr_id_some _ _ _ 0 1 E) in E1, E2. simpl in E1, E2.
    destruct (incr w64 ds cur 0 1) as [c1 o1]. simpl in *. subst c1. f_equal.
    apply eqm_small; auto; [|lia].
    replace (0 + 1 * (linH (dims_of ds) n - linH (dims_of ds) cur) + 1 - 1)
      with (linH (dims_of ds) n - linH (dims_of ds) cur) in E2 by ring. exact E2. }
  unfold adf_step. destruct ds as [|d [|d2 r]]; auto.
  destruct cur as [|c [|c2 t]]; auto.
  (* the 1-D special case *)
  simpl in E. destruct (Z.leb_spec (c + d_stride d) (d_end d)); [|discriminate].
  inversion E; subst. simpl. destruct (Z.ltb_spec (d_end d) (c + d_stride d)); [lia|].
  f_equal. ring.
Qed.

(* ------------------------------------------------------------------ chains *)
Fixpoint chain {A} (f : A -> option A) (l : list A) : Prop :=
  match l with
  | x :: ((y :: _) as t) => f x = Some y /\ chain f t
  | _ => True
  end.

Lemma chain_app {A} (f : A -> option A) (y : A) : forall l1 l2,
  chain f l1 -> chain f l2 -> l1 <> [] -> l2 <> [] -> f (last l1 y) = Some (hd y l2) -> chain f (l1 ++ l2).
Proof.
  induction l1 as [|a l1 IH]; intros l2 C1 C2 N1 N2 L; [congruence|].
  destruct l1 as [|b t].
  - destruct l2 as [|c l2]; [congruence|]. simpl in *. auto.
  - destruct C1 as [E C1]. change ((a :: b :: t) ++ l2) with (a :: b :: (t ++ l2)).
    change (f a = Some b /\ chain f ((b :: t) ++ l2)). split; auto.
    apply IH; auto. discriminate.
Qed.

(* the element loop along a chain visits exactly the linear positions of the chain *)
Lemma walk_chain ds : valid ds -> prodZ (dims_of ds) <= W64 ->
  forall l x, chain (nxt ds) (x :: l) -> cvalid ds x ->
  walk_loop w64 (length (x :: l)) ds x (linH (dims_of ds) x) = map (linH (dims_of ds)) (x :: l).
Proof.
  intros V B. induction l as [|y l IH]; intros x C Cx; [reflexivity|].
  destruct C as [E C]. change (length (x :: y :: l)) with (S (S (length l))).
  cbn [walk_loop map]. rewrite (adf_step_some _ _ _ V Cx B E).
  f_equal. replace (linH (dims_of ds) x + (linH (dims_of ds) y - linH (dims_of ds) x)) with (linH (dims_of ds) y) by ring.
  apply (IH y C). eapply nxt_cvalid; eauto.
Qed.

(* ------------------------------------------------------------------ the box is a chain *)
Lemma cnt_from_length n : forall c s, length (cnt_from n c s) = n.
Proof. induction n; intros; simpl; auto. Qed.

Lemma cnt_from_In n : forall c s x, In x (cnt_from n c s) -> exists k, 0 <= k < Z.of_nat n /\ x = c + k * s.
Proof.
  induction n as [|n IH]; intros c s x H; simpl in H; [tauto|].
  destruct H as [<-|H].
  - exists 0. lia.
  - destruct (IH _ _ _ H) as [k [Hk ->]]. exists (k + 1). lia.
Qed.

Lemma cnt_from_last n : forall c s y, last (cnt_from (S n) c s) y = c + Z.of_nat n * s.
Proof.
  induction n as [|n IH]; intros c s y.
  - simpl. lia.
  - change (cnt_from (S (S n)) c s) with (c :: cnt_from (S n) (c + s) s).
    change (last (c :: cnt_from (S n) (c + s) s) y) with (last (cnt_from (S n) (c + s) s) y).
    rewrite IH. lia.
Qed.

Lemma last_app_ne {A} (l1 l2 : list A) y : l2 <> [] -> last (l1 ++ l2) y = last l2 y.
Proof.
  intros N. induction l1 as [|a l1 IH]; auto.
  simpl app. destruct (l1 ++ l2) eqn:E.
  - destruct l1; simpl in E; congruence.
  - rewrite <- IH. reflexivity.
Qed.

Lemma npts_pos d : dvalid d -> 1 <= npts d.
Proof. intros [? [? [? ?]]]. unfold npts. assert (0 <= (d_end d - d_start d) / d_stride d) by (apply Z.div_pos; lia). lia. Qed.

Definition clast (d : dsel) : Z := d_start d + (npts d - 1) * d_stride d.

Lemma clast_spec d : dvalid d -> d_start d <= clast d <= d_end d /\ d_end d < clast d + d_stride d.
Proof.
  intros [? [? [? ?]]]. unfold clast, npts.
  pose proof (Z.div_mod (d_end d - d_start d) (d_stride d)).
  pose proof (Z.mod_pos_bound (d_end d - d_start d) (d_stride d)).
  assert (0 <= (d_end d - d_start d) / d_stride d) by (apply Z.div_pos; lia).
  nia.
Qed.

Lemma range1_S d : dvalid d -> exists n, Z.to_nat (npts d) = S n /\ Z.of_nat n = npts d - 1.
Proof. intros V. pose proof (npts_pos d V). exists (Z.to_nat (npts d - 1)). lia. Qed.

Lemma range1_last d y : dvalid d -> last (range1 d) y = clast d.
Proof.
  intros V. destruct (range1_S d V) as [n [E1 E2]]. unfold range1. rewrite E1, cnt_from_last, E2. reflexivity.
Qed.

Lemma range1_hd d y : dvalid d -> hd y (range1 d) = d_start d.
Proof. intros V. destruct (range1_S d V) as [n [E1 E2]]. unfold range1. rewrite E1. reflexivity. Qed.

Lemma range1_ne d : dvalid d -> range1 d <> [].
Proof. intros V. destruct (range1_S d V) as [n [E1 E2]]. unfold range1. rewrite E1. discriminate. Qed.

Lemma range1_In d x : dvalid d -> In x (range1 d) -> d_start d <= x <= d_end d.
Proof.
  intros V H. unfold range1 in H. apply cnt_from_In in H. destruct H as [k [Hk ->]].
  pose proof (clast_spec d V). unfold clast in *. destruct V as [? [? [? ?]]].
  pose proof (npts_pos d). nia.
Qed.

Lemma chain_row d r tl : 1 <= d_stride d -> forall n c,
  c + Z.of_nat n * d_stride d <= d_end d ->
  chain (nxt (d :: r)) (map (fun i => i :: tl) (cnt_from (S n) c (d_stride d))).
Proof.
  intros Hs. induction n as [|n IH]; intros c H; [simpl; auto|].
  change (cnt_from (S (S n)) c (d_stride d)) with (c :: cnt_from (S n) (c + d_stride d) (d_stride d)).
  cbn [map]. change (cnt_from (S n) (c + d_stride d) (d_stride d))
    with ((c + d_stride d) :: cnt_from n (c + d_stride d + d_stride d) (d_stride d)) at 1.
  cbn [map chain]. split.
  - simpl. destruct (Z.leb_spec (c + d_stride d) (d_end d)); auto. nia.
  - apply (IH (c + d_stride d)). lia.
Qed.

Definition grow (d : dsel) (tl : list Z) : list (list Z) := map (fun i => i :: tl) (range1 d).

Lemma grow_chain d r tl : dvalid d -> chain (nxt (d :: r)) (grow d tl).
Proof.
  intros V. destruct (range1_S d V) as [n [E1 E2]]. unfold grow, range1. rewrite E1.
  apply chain_row; [destruct V as [? [? [? ?]]]; auto|].
  pose proof (clast_spec d V). unfold clast in *. lia.
Qed.

Lemma grow_ne d tl : dvalid d -> grow d tl <> [].
Proof. intros V. unfold grow. pose proof (range1_ne d V). destruct (range1 d); simpl; congruence. Qed.

Lemma grow_hd d tl : dvalid d -> hd [] (grow d tl) = d_start d :: tl.
Proof.
  intros V. unfold grow. pose proof (range1_hd d 0 V) as H. pose proof (range1_ne d V) as N.
  destruct (range1 d); simpl in *; congruence.
Qed.

Lemma map_last {A B} (f : A -> B) l y : l <> [] -> last (map f l) (f y) = f (last l y).
Proof.
  induction l as [|a [|b t] IH]; intros N; [congruence|reflexivity|].
  change (last (f a :: map f (b :: t)) (f y) = f (last (b :: t) y)).
  change (last (f a :: map f (b :: t)) (f y)) with (last (map f (b :: t)) (f y)).
  apply IH. discriminate.
Qed.

Lemma last_indep {A} (l : list A) y z : l <> [] -> last l y = last l z.
Proof.
  induction l as [|a [|b t] IH]; intros N; [congruence|reflexivity|].
  change (last (b :: t) y = last (b :: t) z). apply IH. discriminate.
Qed.

Lemma grow_last d tl : dvalid d -> last (grow d tl) [] = clast d :: tl.
Proof.
  intros V. pose proof (grow_ne d tl V) as N. rewrite (last_indep _ [] (0 :: tl)) by auto.
  unfold grow. rewrite (map_last (fun i => i :: tl)) by (apply range1_ne; auto).
  rewrite range1_last; auto.
Qed.

Lemma nxt_clast d r tl : dvalid d ->
  nxt (d :: r) (clast d :: tl) = match nxt r tl with Some t' => Some (d_start d :: t') | None => None end.
Proof.
  intros V. pose proof (clast_spec d V). simpl.
  destruct (Z.leb_spec (clast d + d_stride d) (d_end d)); [lia|reflexivity].
Qed.

Lemma flat_grow_chain d r : dvalid d -> forall L, L <> [] -> chain (nxt r) L ->
  chain (nxt (d :: r)) (flat_map (grow d) L) /\
  hd [] (flat_map (grow d) L) = d_start d :: hd [] L /\
  last (flat_map (grow d) L) [] = clast d :: last L [] /\
  flat_map (grow d) L <> [].
Proof.
  intros V. induction L as [|tl [|tl2 L'] IH]; intros N C; [congruence| |].
  - simpl. rewrite app_nil_r. repeat split.
    + apply grow_chain; auto.
    + apply grow_hd; auto.
    + apply grow_last; auto.
    + apply grow_ne; auto.
  - destruct C as [E C]. destruct (IH ltac:(discriminate) C) as [C' [H' [L'' N']]].
    change (flat_map (grow d) (tl :: tl2 :: L')) with (grow d tl ++ flat_map (grow d) (tl2 :: L')).
    repeat split.
    + apply (chain_app _ []); auto.
      * apply grow_chain; auto.
      * apply grow_ne; auto.
      * rewrite grow_last, H', nxt_clast, E; auto.
    + pose proof (grow_hd d tl V) as Hh. pose proof (grow_ne d tl V) as Nn.
      destruct (grow d tl); simpl in *; congruence.
    + rewrite last_app_ne; auto.
    + pose proof (grow_ne d tl V) as Nn. destruct (grow d tl); simpl; congruence.
Qed.

Lemma box_cons d r : box (d :: r) = flat_map (grow d) (box r).
Proof. reflexivity. Qed.

Lemma box_chain : forall ds, valid ds ->
  chain (nxt ds) (box ds) /\ hd [] (box ds) = map d_start ds /\ box ds <> [] /\
  nxt ds (last (box ds) []) = None.
Proof.
  induction ds as [|d r IH]; intros V.
  - simpl. repeat split; auto. discriminate.
  - inversion V as [|? ? Vd Vr]; subst. destruct (IH Vr) as [C [H [N L]]].
    destruct (flat_grow_chain d r Vd (box r) N C) as [C' [H' [L' N']]].
    rewrite box_cons. repeat split; auto.
    + rewrite H', H. reflexivity.
    + rewrite L', nxt_clast, L; auto.
Qed.

Lemma box_cvalid : forall ds, valid ds -> Forall (cvalid ds) (box ds).
Proof.
  induction ds as [|d r IH]; intros V.
  - simpl. repeat constructor.
  - inversion V as [|? ? Vd Vr]; subst. specialize (IH Vr). rewrite box_cons.
    apply Forall_forall. intros x Hx. apply in_flat_map in Hx. destruct Hx as [tl [Htl Hx]].
    unfold grow in Hx. apply in_map_iff in Hx. destruct Hx as [i [<- Hi]].
    constructor.
    + apply range1_In; auto.
    + rewrite Forall_forall in IH. apply IH; auto.
Qed.

(* ------------------------------------------------------------------ point count *)
Definition counts (ds : list dsel) : list Z := map npts ds.

Lemma flat_grow_length d L : length (flat_map (grow d) L) = (length L * length (range1 d))%nat.
Proof.
  induction L as [|a L IHL]; simpl; auto. rewrite app_length, IHL. unfold grow. rewrite map_length. lia.
Qed.

Lemma box_length : forall ds, valid ds -> Z.of_nat (length (box ds)) = prodZ (counts ds).
Proof.
  induction ds as [|d r IH]; intros V; [reflexivity|].
  inversion V as [|? ? Vd Vr]; subst. specialize (IH Vr). rewrite box_cons.
  rewrite flat_grow_length. unfold range1. rewrite cnt_from_length. simpl. fold (prodZ (counts r)).
  pose proof (npts_pos d Vd). lia.
Qed.

Lemma quot_npts d : dvalid d -> Z.quot (d_end d - d_start d + d_stride d) (d_stride d) = npts d.
Proof.
  intros [? [? [? ?]]]. unfold npts. rewrite Z.quot_div_nonneg by lia.
  replace (d_end d - d_start d + d_stride d) with ((d_end d - d_start d) + 1 * d_stride d) by ring.
  rewrite Z.div_add by lia. reflexivity.
Qed.

Lemma ctp_loop_id : forall ds t o a, valid ds ->
  ctp_loop idw ds t o a = (t * prodZ (counts ds), o + a * linH (dims_of ds) (map d_start ds)).
Proof.
  induction ds as [|d r IH]; intros t o a V.
  - simpl. f_equal; ring.
  - inversion V as [|? ? Vd Vr]; subst. cbn [ctp_loop]. rewrite (IH _ _ _ Vr). unfold idw.
    rewrite quot_npts by auto. simpl. fold (prodZ (counts r)). f_equal; ring.
Qed.

Lemma ctp_loop_wrap : forall ds t o a t' o' a', eqm t t' -> eqm o o' -> eqm a a' ->
  eqm (fst (ctp_loop w64 ds t o a)) (fst (ctp_loop idw ds t' o' a')) /\
  eqm (snd (ctp_loop w64 ds t o a)) (snd (ctp_loop idw ds t' o' a')).
Proof.
  induction ds as [|d r IH]; intros t o a t' o' a' Ht Ho Ha; simpl; auto.
  apply IH; unfold idw; eqm_tac.
Qed.

Lemma ctp_loop_range : forall ds t o a, ds <> [] ->
  0 <= fst (ctp_loop w64 ds t o a) < W64 /\ 0 <= snd (ctp_loop w64 ds t o a) < W64.
Proof.
  induction ds as [|d r IH]; intros t o a N; [congruence|].
  cbn [ctp_loop]. destruct r as [|d2 r].
  - simpl. split; apply w64_range.
  - apply IH. discriminate.
Qed.

Lemma npts_le_dim d : dvalid d -> npts d <= d_dim d.
Proof.
  intros [? [? [? ?]]]. unfold npts.
  assert ((d_end d - d_start d) / d_stride d <= d_end d - d_start d) by (apply Z.div_le_upper_bound; nia).
  lia.
Qed.

Lemma counts_le_dims : forall ds, valid ds -> 1 <= prodZ (counts ds) <= prodZ (dims_of ds).
Proof.
  induction ds as [|d r IH]; intros V; [simpl; lia|].
  inversion V as [|? ? Vd Vr]; subst. specialize (IH Vr). simpl. fold (prodZ (counts r)) (prodZ (dims_of r)).
  pose proof (npts_pos d Vd). pose proof (npts_le_dim d Vd). nia.
Qed.

Lemma starts_cvalid ds : valid ds -> cvalid ds (map d_start ds).
Proof. induction 1 as [|d r [? [? [? ?]]] _ IH]; simpl; constructor; auto. lia. Qed.

(* ADFI_count_total_array_points on a valid selection *)
Lemma count_total_ok ds : sel_ok ds ->
  count_total w64 ds = inr (prodZ (counts ds), linH (dims_of ds) (map d_start ds)).
Proof.
  intros [[L1 L2] [V B]]. unfold count_total.
  destruct (Z.leb_spec (Z.of_nat (length ds)) 0); [lia|].
  destruct (Z.ltb_spec 12 (Z.of_nat (length ds))); [lia|]. simpl.
  destruct (ctp_check ds) eqn:E.
  { apply ctp_check_None in V. congruence. }
  f_equal.
  destruct (ctp_loop_wrap ds 1 0 1 1 0 1) as [E1 E2]; try apply eqm_refl.
  destruct (ctp_loop_range ds 1 0 1) as [R1 R2]; [destruct ds; simpl in *; [lia|discriminate]|].
  rewrite ctp_loop_id in E1, E2 by auto. simpl in E1, E2.
  pose proof (counts_le_dims ds V).
  pose proof (linH_bounds _ _ (cvalid_in_dims _ _ V (starts_cvalid ds V))).
  assert (2 ^ 63 < W64) by reflexivity.
  destruct (ctp_loop w64 ds 1 0 1) as [t o]. simpl in *. f_equal.
  - apply eqm_small; auto; [|lia]. replace (1 * prodZ (counts ds)) with (prodZ (counts ds)) in E1 by ring. exact E1.
  - apply eqm_small; auto; [|lia].
    replace (0 + 1 * linH (dims_of ds) (map d_start ds)) with (linH (dims_of ds) (map d_start ds)) in E2 by ring. exact E2.
Qed.

(* ------------------------------------------------------------------ C05_adf_walk *)
Lemma adf_walk_ok ds : sel_ok ds -> adf_walk w64 ds = inr (spec_positions ds).
Proof.
  intros OK. pose proof OK as [[L1 L2] [V B]]. unfold adf_walk. rewrite count_total_ok by auto.
  f_equal. destruct (box_chain ds V) as [C [H [N _]]].
  pose proof (box_length ds V) as BL. pose proof (box_cvalid ds V) as BV.
  unfold spec_positions. destruct (box ds) as [|x l] eqn:E; [congruence|].
  simpl in H. subst x.
  replace (Z.to_nat (prodZ (counts ds))) with (length (map d_start ds :: l)) by lia.
  assert (2 ^ 63 < W64) by reflexivity.
  rewrite walk_chain; auto; try lia.
  - apply map_ext. intros. symmetry. apply lin_linH.
  - inversion BV; auto.
Qed.

Lemma adf_count_ok ds : sel_ok ds ->
  exists off, count_total w64 ds = inr (Z.of_nat (length (box ds)), off).
Proof.
  intros OK. pose proof OK as [_ [V _]]. rewrite count_total_ok by auto. rewrite box_length by auto. eauto.
Qed.

(* ------------------------------------------------------------------ positions: in range, strictly increasing *)
Lemma chain_sorted ds : valid ds -> forall l, chain (nxt ds) l -> Forall (cvalid ds) l ->
  Sorted Z.lt (map (linH (dims_of ds)) l).
Proof.
  intros V. induction l as [|x [|y t] IH]; intros C F; simpl; auto.
  destruct C as [E C]. inversion F as [|? ? Fx Ft]; subst.
  constructor.
  - apply IH; auto.
  - constructor. eapply nxt_increases; eauto.
Qed.

Lemma spec_positions_sorted ds : valid ds -> StronglySorted Z.lt (spec_positions ds).
Proof.
  intros V. apply Sorted_StronglySorted; [intros a b c; apply Z.lt_trans|].
  unfold spec_positions. erewrite map_ext; [|intros; apply lin_linH].
  destruct (box_chain ds V) as [C _]. apply chain_sorted; auto. apply box_cvalid; auto.
Qed.

Lemma StronglySorted_lt_NoDup l : StronglySorted Z.lt l -> NoDup l.
Proof.
  induction 1 as [|a l _ IH F]; constructor; auto.
  intros I. rewrite Forall_forall in F. specialize (F _ I). lia.
Qed.

Lemma spec_positions_NoDup ds : valid ds -> NoDup (spec_positions ds).
Proof. intros V. apply StronglySorted_lt_NoDup, spec_positions_sorted; auto. Qed.

Lemma spec_positions_range ds : valid ds ->
  Forall (fun p => 0 <= p < prodZ (dims_of ds)) (spec_positions ds).
Proof.
  intros V. unfold spec_positions. apply Forall_forall. intros p Hp. apply in_map_iff in Hp.
  destruct Hp as [idx [<- Hi]]. rewrite lin_linH. apply linH_bounds, cvalid_in_dims; auto.
  pose proof (box_cvalid ds V) as F. rewrite Forall_forall in F. auto.
Qed.

Lemma spec_positions_length ds : valid ds -> Z.of_nat (length (spec_positions ds)) = prodZ (counts ds).
Proof. intros V. unfold spec_positions. rewrite map_length. apply box_length; auto. Qed.

(* ------------------------------------------------------------------ the transfer: frame and pairing *)
Lemma xfer_length : forall dpos spos dst src, length (xfer dst src dpos spos) = length dst.
Proof.
  unfold xfer. induction dpos as [|p dpos IH]; intros [|q spos] dst src; simpl; auto.
  rewrite IH. apply updZ_length.
Qed.

Lemma xfer_cons dst src p dpos q spos :
  xfer dst src (p :: dpos) (q :: spos) = xfer (updZ dst p (nthZ src q 0)) src dpos spos.
Proof. reflexivity. Qed.

(* FRAME: a position that is not addressed keeps its value *)
Lemma xfer_frame : forall dpos spos dst src j, ~ In j dpos ->
  nthZ (xfer dst src dpos spos) j 0 = nthZ dst j 0.
Proof.
  induction dpos as [|p dpos IH]; intros [|q spos] dst src j NI; try reflexivity.
  rewrite xfer_cons, IH by (simpl in NI; tauto).
  apply nthZ_updZ_neq. simpl in NI. intros ->. tauto.
Qed.

(* PAIRING: the k-th addressed destination position receives the k-th addressed source element *)
Lemma xfer_pairing : forall dpos spos dst src k,
  NoDup dpos -> length dpos = length spos -> Forall (fun p => 0 <= p < lenZ dst) dpos ->
  (k < length dpos)%nat ->
  nthZ (xfer dst src dpos spos) (nth k dpos 0) 0 = nthZ src (nth k spos 0) 0.
Proof.
  induction dpos as [|p dpos IH]; intros [|q spos] dst src k ND L F K; simpl in L, K; try lia.
  inversion ND as [|? ? NI ND']; subst. inversion F as [|? ? Fp F']; subst.
  rewrite xfer_cons. destruct k as [|k]; simpl nth.
  - rewrite xfer_frame by auto. apply nthZ_updZ_eq. auto.
  - apply IH; auto; try lia.
    eapply Forall_impl; [|exact F']. intros a Ha. rewrite lenZ_updZ. auto.
Qed.

(* ------------------------------------------------------------------ low-level transfer on valid requests (ADF) *)
Lemma mem_dsel_id ds : valid ds -> prodZ (dims_of ds) < 2 ^ 63 -> map mem_dsel ds = ds.
Proof.
  intros V. induction V as [|d r Vd Vr IH]; intros B; auto.
  simpl in B. fold (prodZ (dims_of r)) in B.
  pose proof (prodZ_pos _ (dims_of_valid_pos r Vr)).
  destruct Vd as [? [? [? ?]]]. assert (2 ^ 63 < W64) by reflexivity.
  simpl. rewrite IH by nia. f_equal. unfold mem_dsel. rewrite w64_small by nia. destruct d; reflexivity.
Qed.

Lemma walk_from_count ds : sel_ok ds ->
  walk_loop w64 (Z.to_nat (prodZ (counts ds))) ds (map d_start ds) (linH (dims_of ds) (map d_start ds))
  = spec_positions ds.
Proof.
  intros OK. pose proof (adf_walk_ok ds OK) as H. unfold adf_walk in H.
  rewrite count_total_ok in H by auto. inversion H. reflexivity.
Qed.

Lemma lo_pairs_adf_ok sds mds : sel_ok sds -> sel_ok mds ->
  lo_pairs ADF sds mds =
    if prodZ (counts sds) =? prodZ (counts mds) then inr (spec_positions sds, spec_positions mds)
    else inl UnequalDims.
Proof.
  intros OKs OKm. pose proof OKm as [Lm [Vm Bm]]. unfold lo_pairs.
  rewrite (mem_dsel_id mds) by auto. rewrite !count_total_ok by auto.
  destruct (Z.eqb_spec (prodZ (counts sds)) (prodZ (counts mds))) as [E|E]; simpl; auto.
  rewrite E at 2. rewrite !walk_from_count by auto. reflexivity.
Qed.

(* ------------------------------------------------------------------ "exactly the addressed elements" *)
(* dst' is dst with, for every k, position dpos_k replaced by src[spos_k], and nothing else changed *)
Definition transfers (dst dst' src : list Z) (dpos spos : list Z) : Prop :=
  length dst' = length dst /\
  (forall j, ~ In j dpos -> nthZ dst' j 0 = nthZ dst j 0) /\
  (forall k, (k < length dpos)%nat -> nthZ dst' (nth k dpos 0) 0 = nthZ src (nth k spos 0) 0).

Lemma xfer_transfers dst src dpos spos :
  NoDup dpos -> length dpos = length spos -> Forall (fun p => 0 <= p < lenZ dst) dpos ->
  transfers dst (xfer dst src dpos spos) src dpos spos.
Proof.
  intros ND L F. repeat split.
  - apply xfer_length.
  - intros j NI. apply xfer_frame; auto.
  - intros k K. apply xfer_pairing; auto.
Qed.

(* low level, ADF back end: a valid request with equal point counts is accepted and transfers exactly ... *)
Lemma lo_write_adf file mem sds mds :
  sel_ok sds -> sel_ok mds -> lenZ file = prodZ (dims_of sds) -> prodZ (counts sds) = prodZ (counts mds) ->
  exists file', xfer_write ADF file mem sds mds = inr file' /\
                transfers file file' mem (spec_positions sds) (spec_positions mds).
Proof.
  intros OKs OKm LF EC. pose proof OKs as [_ [Vs _]]. pose proof OKm as [_ [Vm _]].
  unfold xfer_write. rewrite lo_pairs_adf_ok by auto. rewrite EC, Z.eqb_refl.
  eexists; split; [reflexivity|]. apply xfer_transfers.
  - apply spec_positions_NoDup; auto.
  - apply Nat2Z.inj. rewrite !spec_positions_length; auto.
  - rewrite LF. apply spec_positions_range; auto.
Qed.

Lemma lo_read_adf file mem sds mds :
  sel_ok sds -> sel_ok mds -> lenZ mem = prodZ (dims_of mds) -> prodZ (counts sds) = prodZ (counts mds) ->
  exists mem', xfer_read ADF file mem sds mds = inr mem' /\
               transfers mem mem' file (spec_positions mds) (spec_positions sds).
Proof.
  intros OKs OKm LF EC. pose proof OKs as [_ [Vs _]]. pose proof OKm as [_ [Vm _]].
  unfold xfer_read. rewrite lo_pairs_adf_ok by auto. rewrite EC, Z.eqb_refl.
  eexists; split; [reflexivity|]. apply xfer_transfers.
  - apply spec_positions_NoDup; auto.
  - apply Nat2Z.inj. rewrite !spec_positions_length; auto.
  - rewrite LF. apply spec_positions_range; auto.
Qed.

Lemma lo_unequal_adf sds mds :
  sel_ok sds -> sel_ok mds -> prodZ (counts sds) <> prodZ (counts mds) -> lo_pairs ADF sds mds = inl UnequalDims.
Proof.
  intros OKs OKm NE. rewrite lo_pairs_adf_ok by auto.
  destruct (Z.eqb_spec (prodZ (counts sds)) (prodZ (counts mds))); [contradiction|reflexivity].
Qed.

(* rank outside 1..12 or a range that is not inside the array: ADF returns an error *)
Definition rank_ok (ds : list dsel) : Prop := (1 <= length ds <= 12)%nat.

Lemma count_total_invalid ds : ~ (rank_ok ds /\ valid ds) -> exists e, count_total w64 ds = inl e.
Proof.
  intros N. unfold count_total.
  destruct (Z.leb_spec (Z.of_nat (length ds)) 0); [exists BadNumDims; reflexivity|].
  destruct (Z.ltb_spec 12 (Z.of_nat (length ds))); [exists BadNumDims; reflexivity|]. simpl.
  destruct (ctp_check ds) as [e|] eqn:E; [exists e; reflexivity|].
  exfalso. apply N. split; [unfold rank_ok; lia|]. apply ctp_check_None; auto.
Qed.

Lemma lo_invalid_adf sds mds :
  ~ (rank_ok sds /\ valid sds) \/ ~ (rank_ok mds /\ valid (map mem_dsel mds)) ->
  exists e, lo_pairs ADF sds mds = inl e.
Proof.
  intros [N|N]; unfold lo_pairs.
  - destruct (count_total_invalid sds N) as [e ->]. exists e; reflexivity.
  - destruct (count_total w64 sds) as [e|[st so]]; [exists e; reflexivity|].
    destruct (count_total_invalid (map mem_dsel mds)) as [e ->]; [|exists e; reflexivity].
    unfold rank_ok in *. rewrite map_length. auto.
Qed.

(* the state of the destination after a call: an error leaves it as it was *)
Definition after (dst : list Z) (r : aerr + list Z) : list Z := match r with inl _ => dst | inr a => a end.

Lemma lo_reject_nothing b file mem sds mds e :
  lo_pairs b sds mds = inl e ->
  after file (xfer_write b file mem sds mds) = file /\ after mem (xfer_read b file mem sds mds) = mem.
Proof. intros H. unfold xfer_write, xfer_read. rewrite H. auto. Qed.

(* ------------------------------------------------------------------ the whole array = positions 0 .. N-1 *)
Definition iota (a : Z) (n : nat) : list Z := cnt_from n a 1.

Lemma sorted_ge : forall l a, StronglySorted Z.lt l -> Forall (fun x => a <= x) l ->
  forall k, (k < length l)%nat -> a + Z.of_nat k <= nth k l 0.
Proof.
  induction l as [|x t IH]; intros a Ss F k K; simpl in K; [lia|].
  inversion Ss as [|? ? St Fx]; subst. inversion F as [|? ? Hx Ft]; subst.
  destruct k as [|k]; simpl nth; [lia|].
  specialize (IH (a + 1) St). replace (a + Z.of_nat (S k)) with (a + 1 + Z.of_nat k) by lia.
  apply IH; [|lia]. eapply Forall_impl; [|exact Fx]. simpl. intros; lia.
Qed.

Lemma sorted_iota : forall l a, StronglySorted Z.lt l ->
  Forall (fun x => a <= x < a + Z.of_nat (length l)) l -> l = iota a (length l).
Proof.
  induction l as [|x t IH]; intros a Ss F; [reflexivity|].
  inversion Ss as [|? ? St Fx]; subst. inversion F as [|? ? Hx Ft]; subst.
  assert (x = a).
  { assert (G : x + Z.of_nat (length t) <= nth (length t) (x :: t) 0).
    { apply sorted_ge; auto; try (simpl; lia).
      constructor; [lia|]. eapply Forall_impl; [|exact Fx]. simpl. intros; lia. }
    assert (I : In (nth (length t) (x :: t) 0) (x :: t)) by (apply nth_In; simpl; lia).
    rewrite Forall_forall in F. specialize (F _ I). simpl length in F. lia. }
  subst x. unfold iota in *. simpl. f_equal. apply IH; auto.
  rewrite Forall_forall in *. intros y Hy. specialize (Fx _ Hy). specialize (Ft _ Hy). simpl length in Ft. lia.
Qed.

Definition dfull (d : dsel) : Prop := d_start d = 1 /\ d_end d = d_dim d /\ d_stride d = 1.

Lemma counts_full ds : Forall dfull ds -> counts ds = dims_of ds.
Proof.
  induction 1 as [|d r [E1 [E2 E3]] _ IH]; simpl; auto. rewrite IH. f_equal.
  unfold npts. rewrite E1, E2, E3, Z.div_1_r. ring.
Qed.

Lemma spec_positions_full ds : valid ds -> Forall dfull ds ->
  spec_positions ds = iota 0 (Z.to_nat (prodZ (dims_of ds))).
Proof.
  intros V F. pose proof (spec_positions_length ds V) as L. rewrite counts_full in L by auto.
  replace (Z.to_nat (prodZ (dims_of ds))) with (length (spec_positions ds)) by lia.
  apply sorted_iota.
  - apply spec_positions_sorted; auto.
  - rewrite L. apply spec_positions_range; auto.
Qed.

Lemma iota_In n : forall a x, In x (iota a n) <-> a <= x < a + Z.of_nat n.
Proof.
  unfold iota. induction n as [|n IH]; intros a x; simpl; [lia|].
  rewrite IH. lia.
Qed.

Lemma iota_nth n : forall a k, (k < n)%nat -> nth k (iota a n) 0 = a + Z.of_nat k.
Proof.
  unfold iota. induction n as [|n IH]; intros a k K; [lia|].
  destruct k as [|k]; simpl; [lia|]. rewrite IH by lia. lia.
Qed.

Lemma iota_length a n : length (iota a n) = n.
Proof. apply cnt_from_length. Qed.

Lemma nthZ_app_l {A} (l1 l2 : list A) j d : 0 <= j < lenZ l1 -> nthZ (l1 ++ l2) j d = nthZ l1 j d.
Proof. unfold nthZ, lenZ. intros H. destruct (Z.ltb_spec j 0); [lia|]. apply app_nth1. lia. Qed.

Lemma nthZ_app_r {A} (l1 l2 : list A) j d : lenZ l1 <= j -> nthZ (l1 ++ l2) j d = nthZ l2 (j - lenZ l1) d.
Proof.
  unfold nthZ, lenZ. intros H. destruct (Z.ltb_spec j 0); [lia|].
  destruct (Z.ltb_spec (j - Z.of_nat (length l1)) 0); [lia|].
  rewrite app_nth2 by lia. f_equal. lia.
Qed.

Lemma nthZ_firstn {A} (l : list A) n j d : 0 <= j < Z.of_nat n -> nthZ (firstn n l) j d = nthZ l j d.
Proof.
  unfold nthZ. intros H. destruct (Z.ltb_spec j 0); [lia|].
  assert (K : (Z.to_nat j < n)%nat) by lia. revert K. generalize (Z.to_nat j). clear.
  revert l. induction n as [|n IH]; intros l k K; [lia|].
  destruct l as [|a l]; simpl; [destruct k; reflexivity|]. destruct k as [|k]; auto. apply IH. lia.
Qed.

Lemma nthZ_skipn {A} (l : list A) n j d : 0 <= j -> nthZ (skipn n l) j d = nthZ l (j + Z.of_nat n) d.
Proof.
  unfold nthZ. intros H. destruct (Z.ltb_spec j 0); [lia|]. destruct (Z.ltb_spec (j + Z.of_nat n) 0); [lia|].
  replace (Z.to_nat (j + Z.of_nat n)) with (n + Z.to_nat j)%nat by lia. generalize (Z.to_nat j). clear.
  revert l. induction n as [|n IH]; intros l k; auto.
  destruct l as [|a l]; simpl; [destruct k; reflexivity|]. apply IH.
Qed.

(* cgio_read_all_data / cgio_write_all_data: the first n elements of the destination are replaced *)
Lemma copy_all_transfers dst src n : 0 <= n -> n <= lenZ dst -> n <= lenZ src ->
  transfers dst (copy_all dst src n) src (iota 0 (Z.to_nat n)) (iota 0 (Z.to_nat n)).
Proof.
  intros N0 Nd Ns. unfold copy_all, lenZ in *.
  assert (Lf : length (firstn (Z.to_nat n) src) = Z.to_nat n) by (apply firstn_length_le; lia).
  repeat split.
  - rewrite app_length, Lf, skipn_length. lia.
  - intros j NI. rewrite iota_In in NI.
    destruct (Z.ltb_spec j 0) as [J|J]; [unfold nthZ; destruct (Z.ltb_spec j 0); [reflexivity|lia]|].
    rewrite nthZ_app_r by (unfold lenZ; lia). unfold lenZ. rewrite Lf.
    rewrite nthZ_skipn by lia. f_equal. lia.
  - intros k K. rewrite iota_length in K. rewrite !iota_nth by auto.
    rewrite nthZ_app_l by (unfold lenZ; lia). apply nthZ_firstn. lia.
Qed.

(* ------------------------------------------------------------------ cgi_array_general_verify_range *)
(* SPEC.  [old] = (rind_index == CG_CONFIG_RIND_ZERO || no rind planes): user indices start at 1 at the first
   stored plane; otherwise (CG_CONFIG_RIND_CORE) index 1 is the first core plane and the stored planes are
   1 - rind_lo .. dim - rind_lo. *)
Definition lo_lim (old : bool) (v : vdim) : Z := if old then 1 else 1 - v_rlo v.
Definition hi_lim (old : bool) (v : vdim) : Z := if old then v_dim v else v_dim v - v_rlo v.
Definition shift (old : bool) (v : vdim) : Z := if old then 0 else v_rlo v.
Definition s_extent (v : vdim) : Z := v_rmax v - v_rmin v + 1.
Definition m_extent (m : mdim) : Z := m_rmax m - m_rmin m + 1.
Definition s_in_limits (old : bool) (v : vdim) : Prop :=
  v_rmin v <= v_rmax v /\ lo_lim old v <= v_rmin v /\ v_rmax v <= hi_lim old v.
Definition m_in_limits (m : mdim) : Prop := 1 <= m_rmin m /\ m_rmin m <= m_rmax m /\ m_rmax m <= m_dim m.
Definition s_full_span (v : vdim) : Prop := s_extent v = v_dim v.
Definition m_full_span (m : mdim) : Prop := m_extent m = m_dim m.
(* the undocumented read-only shortcut: any range whose extents equal the stored extents means "everything" *)
Definition shortcut (op : rw) (sd : list vdim) : Prop := op = OpRead /\ Forall s_full_span sd.

Definition vr_spec (op : rw) (old : bool) (sd : list vdim) (md : list mdim) : Prop :=
  (shortcut op sd \/ Forall (s_in_limits old) sd) /\
  (1 <= length md <= 12)%nat /\ Forall m_in_limits md /\
  prodZ (map s_extent sd) = prodZ (map m_extent md).

Definition s_fullb (sd : list vdim) : bool := forallb (fun v => s_extent v =? v_dim v) sd.
Definition m_fullb (md : list mdim) : bool := forallb (fun m => m_extent m =? m_dim m) md.
Definition resetb (op : rw) (sd : list vdim) : bool := match op with OpWrite => false | OpRead => s_fullb sd end.
Definition vr_expected (op : rw) (old : bool) (sd : list vdim) (md : list mdim) : vr_out :=
  mkVR (map (vr_srange_of (resetb op sd) old) sd) (s_fullb sd) (m_fullb md) (prodZ (map s_extent sd)).

Lemma vr_scount_eq : forall sd n f,
  vr_scount sd n f = (n * prodZ (map s_extent sd), f && s_fullb sd).
Proof.
  induction sd as [|v r IH]; intros n f; simpl.
  - rewrite andb_true_r. f_equal. ring.
  - rewrite IH. f_equal; [unfold prodZ, s_extent; ring|].
    unfold s_fullb, s_extent. simpl.
    destruct (v_rmax v - v_rmin v + 1 =? v_dim v); simpl; auto. rewrite andb_false_r. reflexivity.
Qed.

Lemma vr_mcount_eq : forall md n f,
  vr_mcount md n f = (n * prodZ (map m_extent md), f && m_fullb md).
Proof.
  induction md as [|v r IH]; intros n f; simpl.
  - rewrite andb_true_r. f_equal. ring.
  - rewrite IH. f_equal; [unfold prodZ, m_extent; ring|].
    unfold m_fullb, m_extent. simpl.
    destruct (m_rmax v - m_rmin v + 1 =? m_dim v); simpl; auto. rewrite andb_false_r. reflexivity.
Qed.

Lemma vr_scheck_iff old sd : vr_scheck old sd = true <-> Forall (s_in_limits old) sd.
Proof.
  induction sd as [|v r IH]; simpl; [split; auto|].
  unfold s_in_limits at 1, lo_lim, hi_lim. destruct old.
  - destruct (Z.ltb_spec (v_rmax v) (v_rmin v)); simpl.
    { split; [discriminate|]. intros H'; inversion H'; subst; lia. }
    destruct (Z.ltb_spec (v_dim v) (v_rmax v)); simpl.
    { split; [discriminate|]. intros H'; inversion H'; subst; lia. }
    destruct (Z.ltb_spec (v_rmin v) 1).
    { split; [discriminate|]. intros H'; inversion H'; subst; lia. }
    rewrite IH. split; intros H'; [constructor; auto; lia|inversion H'; auto].
  - destruct (Z.ltb_spec (v_rmax v) (v_rmin v)); simpl.
    { split; [discriminate|]. intros H'; inversion H'; subst; lia. }
    destruct (Z.ltb_spec (v_dim v - v_rlo v) (v_rmax v)); simpl.
    { split; [discriminate|]. intros H'; inversion H'; subst; lia. }
    destruct (Z.ltb_spec (v_rmin v) (1 - v_rlo v)).
    { split; [discriminate|]. intros H'; inversion H'; subst; lia. }
    rewrite IH. split; intros H'; [constructor; auto; lia|inversion H'; auto].
Qed.

Lemma vr_mdimcheck_iff md : vr_mdimcheck md = true <-> Forall (fun m => 1 <= m_dim m) md.
Proof.
  induction md as [|m r IH]; simpl; [split; auto|].
  destruct (Z.ltb_spec (m_dim m) 1).
  - split; [discriminate|]. intros H'; inversion H'; subst; lia.
  - rewrite IH. split; intros H'; [constructor; auto|inversion H'; auto].
Qed.

Lemma vr_mcheck_iff md : vr_mcheck md = true <-> Forall m_in_limits md.
Proof.
  induction md as [|m r IH]; simpl; [split; auto|]. unfold m_in_limits at 1.
  destruct (Z.ltb_spec (m_rmax m) (m_rmin m)); simpl.
  { split; [discriminate|]. intros H'; inversion H'; subst; lia. }
  destruct (Z.ltb_spec (m_dim m) (m_rmax m)); simpl.
  { split; [discriminate|]. intros H'; inversion H'; subst; lia. }
  destruct (Z.ltb_spec (m_rmin m) 1).
  { split; [discriminate|]. intros H'; inversion H'; subst; lia. }
  rewrite IH. split; intros H'; [constructor; auto; lia|inversion H'; auto].
Qed.

Lemma s_fullb_iff sd : s_fullb sd = true <-> Forall s_full_span sd.
Proof.
  unfold s_fullb. rewrite forallb_forall, Forall_forall. unfold s_full_span.
  split; intros H v Hv; specialize (H v Hv); lia.
Qed.

Lemma m_fullb_iff md : m_fullb md = true <-> Forall m_full_span md.
Proof.
  unfold m_fullb. rewrite forallb_forall, Forall_forall. unfold m_full_span.
  split; intros H v Hv; specialize (H v Hv); lia.
Qed.

Lemma resetb_iff op sd : resetb op sd = true <-> shortcut op sd.
Proof.
  unfold resetb, shortcut. destruct op.
  - rewrite s_fullb_iff. tauto.
  - split; [discriminate|]. intros [? _]; discriminate.
Qed.

Lemma m_in_limits_dim md : Forall m_in_limits md -> Forall (fun m => 1 <= m_dim m) md.
Proof. intros H. eapply Forall_impl; [|exact H]. intros m [? [? ?]]. lia. Qed.

(* SOUND and COMPLETE: the function accepts exactly the requests of the spec, with the specified outputs *)
Lemma verify_range_complete op old sd md :
  vr_spec op old sd md -> verify_range op old sd md = Some (vr_expected op old sd md).
Proof.
  intros [S1 [L [M E]]]. unfold verify_range. rewrite vr_scount_eq. simpl andb.
  replace (match op with OpWrite => false | OpRead => s_fullb sd end) with (resetb op sd) by reflexivity.
  assert (G1 : negb (resetb op sd) && negb (vr_scheck old sd) = false).
  { destruct S1 as [S1|S1].
    - apply resetb_iff in S1. rewrite S1. reflexivity.
    - apply vr_scheck_iff in S1. rewrite S1. apply andb_false_r. }
  rewrite G1.
  destruct (Z.leb_spec (Z.of_nat (length md)) 0); [lia|].
  destruct (Z.ltb_spec 12 (Z.of_nat (length md))); [lia|]. simpl orb. cbv iota.
  pose proof (m_in_limits_dim md M) as M1. apply vr_mdimcheck_iff in M1. rewrite M1.
  apply vr_mcheck_iff in M. rewrite M. simpl negb. cbv iota.
  rewrite vr_mcount_eq. simpl andb.
  replace (1 * prodZ (map s_extent sd)) with (prodZ (map s_extent sd)) by ring.
  replace (1 * prodZ (map m_extent md)) with (prodZ (map m_extent md)) by ring.
  rewrite E, Z.eqb_refl. simpl. unfold vr_expected. rewrite E. reflexivity.
Qed.

Lemma verify_range_sound op old sd md o :
  verify_range op old sd md = Some o -> vr_spec op old sd md /\ o = vr_expected op old sd md.
Proof.
  unfold verify_range. rewrite vr_scount_eq. simpl andb.
  replace (match op with OpWrite => false | OpRead => s_fullb sd end) with (resetb op sd) by reflexivity.
  destruct (negb (resetb op sd) && negb (vr_scheck old sd)) eqn:G1; [discriminate|].
  destruct (Z.leb_spec (Z.of_nat (length md)) 0); [discriminate|].
  destruct (Z.ltb_spec 12 (Z.of_nat (length md))); [discriminate|]. simpl orb. cbv iota.
  destruct (vr_mdimcheck md) eqn:M1; [|discriminate].
  destruct (vr_mcheck md) eqn:M; [|discriminate]. simpl negb. cbv iota.
  rewrite vr_mcount_eq. simpl andb.
  replace (1 * prodZ (map s_extent sd)) with (prodZ (map s_extent sd)) by ring.
  replace (1 * prodZ (map m_extent md)) with (prodZ (map m_extent md)) by ring.
  destruct (Z.eqb_spec (prodZ (map s_extent sd)) (prodZ (map m_extent md))) as [E|E]; [|discriminate].
  simpl. intros HH. inversion HH; subst. split; [|unfold vr_expected; rewrite E; reflexivity].
  split; [|split; [lia|split; [apply vr_mcheck_iff; auto|auto]]].
  apply andb_false_iff in G1. destruct G1 as [G|G]; apply negb_false_iff in G.
  - left. apply resetb_iff; auto.
  - right. apply vr_scheck_iff; auto.
Qed.

Lemma verify_range_reject op old sd md : ~ vr_spec op old sd md -> verify_range op old sd md = None.
Proof.
  intros N. destruct (verify_range op old sd md) as [o|] eqn:E; auto.
  exfalso. apply N. apply (verify_range_sound _ _ _ _ _ E).
Qed.

(* ------------------------------------------------------------------ mid level: composition *)
(* the stored (file-space) selection addressed by an accepted request *)
Definition storage_sel (op : rw) (old : bool) (sd : list vdim) : list dsel :=
  map (fun v => if resetb op sd then mkD (v_dim v) 1 (v_dim v) 1
                else mkD (v_dim v) (v_rmin v + shift old v) (v_rmax v + shift old v) 1) sd.

Lemma s_sel_expected op old sd :
  s_sel sd (map (vr_srange_of (resetb op sd) old) sd) = storage_sel op old sd.
Proof.
  unfold s_sel, storage_sel. generalize (resetb op sd) as b. intros b.
  induction sd as [|v r IH]; simpl; auto. rewrite IH. f_equal.
  unfold vr_srange_of, shift. destruct b; simpl; auto. destruct old; simpl; auto.
  f_equal; ring.
Qed.

Lemma dims_of_storage_sel op old sd : dims_of (storage_sel op old sd) = map v_dim sd.
Proof.
  unfold storage_sel, dims_of. rewrite map_map. apply map_ext. intros v. destruct (resetb op sd); reflexivity.
Qed.

Lemma dims_of_m_sel md : dims_of (m_sel md) = map m_dim md.
Proof. unfold m_sel, dims_of. rewrite map_map. reflexivity. Qed.

Lemma storage_sel_valid op old sd :
  (shortcut op sd \/ Forall (s_in_limits old) sd) -> Forall (fun v => 1 <= v_dim v) sd ->
  valid (storage_sel op old sd).
Proof.
  intros S D. unfold storage_sel, valid. rewrite Forall_map.
  destruct (resetb op sd) eqn:R.
  - eapply Forall_impl; [|exact D]. intros v Hv. unfold dvalid; simpl in *. lia.
  - destruct S as [S|S]; [apply resetb_iff in S; congruence|].
    eapply Forall_impl; [|exact S]. intros v [? [? ?]]. unfold dvalid, lo_lim, hi_lim, shift in *; simpl.
    destruct old; lia.
Qed.

Lemma m_sel_valid md : Forall m_in_limits md -> valid (m_sel md).
Proof.
  intros M. unfold m_sel, valid. rewrite Forall_map. eapply Forall_impl; [|exact M].
  intros m [? [? ?]]. unfold dvalid; simpl. lia.
Qed.

Lemma npts_unit d : d_stride d = 1 -> npts d = d_end d - d_start d + 1.
Proof. intros E. unfold npts. rewrite E, Z.div_1_r. reflexivity. Qed.

Lemma counts_storage_sel op old sd :
  resetb op sd = false -> counts (storage_sel op old sd) = map s_extent sd.
Proof.
  intros R. unfold counts, storage_sel. rewrite map_map, R. apply map_ext. intros v.
  rewrite npts_unit by reflexivity. simpl. unfold s_extent. ring.
Qed.

Lemma counts_storage_sel_full op old sd :
  Forall s_full_span sd -> prodZ (counts (storage_sel op old sd)) = prodZ (map s_extent sd).
Proof.
  intros F. f_equal. unfold counts, storage_sel. rewrite map_map. apply map_ext_in. intros v Hv.
  rewrite Forall_forall in F. specialize (F v Hv). unfold s_full_span in F.
  rewrite npts_unit by (destruct (resetb op sd); reflexivity).
  destruct (resetb op sd); simpl; unfold s_extent in *; lia.
Qed.

Lemma counts_m_sel md : counts (m_sel md) = map m_extent md.
Proof.
  unfold counts, m_sel. rewrite map_map. apply map_ext. intros m. rewrite npts_unit by reflexivity. reflexivity.
Qed.

Lemma storage_sel_full op old sd : Forall s_full_span sd -> Forall (s_in_limits old) sd \/ shortcut op sd ->
  Forall (fun v => 1 <= v_dim v) sd -> Forall dfull (storage_sel op old sd).
Proof.
  intros F S D. unfold storage_sel. rewrite Forall_map. destruct (resetb op sd) eqn:R.
  - apply Forall_forall. intros v _. unfold dfull; simpl. auto.
  - destruct S as [S|S]; [|apply resetb_iff in S; congruence].
    rewrite Forall_forall in *. intros v Hv. specialize (F v Hv). specialize (S v Hv).
    unfold dfull, s_full_span, s_extent, s_in_limits, lo_lim, hi_lim, shift in *. simpl. destruct old; lia.
Qed.

Lemma m_sel_full md : Forall m_full_span md -> Forall m_in_limits md -> Forall dfull (m_sel md).
Proof.
  intros F M. unfold m_sel. rewrite Forall_map. rewrite Forall_forall in *. intros m Hm.
  specialize (F m Hm). specialize (M m Hm). unfold dfull, m_full_span, m_extent, m_in_limits in *. simpl. lia.
Qed.

(* the guard of the mid-level theorems: a stored array of rank 1..12 with positive extents and fewer than 2^63
   elements, a memory array of fewer than 2^63 elements *)
Definition arrays_ok (sd : list vdim) (md : list mdim) : Prop :=
  (1 <= length sd <= 12)%nat /\ Forall (fun v => 1 <= v_dim v) sd /\
  prodZ (map v_dim sd) < 2 ^ 63 /\ prodZ (map m_dim md) < 2 ^ 63.

Lemma prodZ_extent_le md : Forall m_in_limits md -> 0 <= prodZ (map m_extent md) <= prodZ (map m_dim md).
Proof.
  induction 1 as [|m r [? [? ?]] _ IH]; simpl; [lia|].
  fold (prodZ (map m_extent r)) (prodZ (map m_dim r)). unfold m_extent at 1 3. nia.
Qed.

Lemma mid_sel_ok op old sd md : arrays_ok sd md -> vr_spec op old sd md ->
  sel_ok (storage_sel op old sd) /\ sel_ok (m_sel md).
Proof.
  intros [Ls [D [Bs Bm]]] [S [Lm [M E]]].
  assert (L1 : length (storage_sel op old sd) = length sd) by (unfold storage_sel; apply map_length).
  assert (L2 : length (m_sel md) = length md) by (unfold m_sel; apply map_length).
  split; unfold sel_ok.
  - rewrite L1. split; auto. split.
    + apply storage_sel_valid; auto.
    + rewrite dims_of_storage_sel. auto.
  - rewrite L2. split; auto. split.
    + apply m_sel_valid; auto.
    + rewrite dims_of_m_sel. auto.
Qed.

(* an accepted write changes exactly the addressed file elements (ADF back end) *)
Lemma mid_write_adf old sd md file mem :
  arrays_ok sd md -> vr_spec OpWrite old sd md ->
  lenZ file = prodZ (map v_dim sd) -> prodZ (map m_dim md) <= lenZ mem ->
  exists file', mid_write ADF old sd md file mem = MidOk file' /\
    transfers file file' mem (spec_positions (storage_sel OpWrite old sd)) (spec_positions (m_sel md)).
Proof.
  intros AOK SP LF LM. pose proof SP as [S [Lm [M E]]]. pose proof AOK as [Ls [D [Bs Bm]]].
  destruct (mid_sel_ok _ _ _ _ AOK SP) as [OKs OKm].
  unfold mid_write. rewrite (verify_range_complete _ _ _ _ SP). unfold vr_expected; cbn [vr_sfull vr_mfull vr_numpt vr_srange].
  rewrite s_sel_expected.
  destruct S as [[S _]|S]; [discriminate|].
  destruct (s_fullb sd && m_fullb md) eqn:FB.
  - apply andb_true_iff in FB. destruct FB as [Fs Fm]. apply s_fullb_iff in Fs. apply m_fullb_iff in Fm.
    eexists; split; [reflexivity|].
    pose proof OKs as [_ [Vs _]]. pose proof OKm as [_ [Vm _]].
    rewrite (spec_positions_full _ Vs) by (apply storage_sel_full; auto).
    rewrite (spec_positions_full _ Vm) by (apply m_sel_full; auto).
    rewrite dims_of_storage_sel, dims_of_m_sel.
    assert (E1 : prodZ (map s_extent sd) = prodZ (map v_dim sd)).
    { f_equal. apply map_ext_in. intros v Hv. rewrite Forall_forall in Fs. apply Fs; auto. }
    assert (E2 : prodZ (map m_extent md) = prodZ (map m_dim md)).
    { f_equal. apply map_ext_in. intros v Hv. rewrite Forall_forall in Fm. apply Fm; auto. }
    rewrite <- E2, <- E, E1.
    assert (Dp : Forall (fun d => 1 <= d) (map v_dim sd)) by (rewrite Forall_map; exact D).
    pose proof (prodZ_pos _ Dp).
    apply copy_all_transfers; lia.
  - destruct (lo_write_adf file mem _ _ OKs OKm) as [f' [Hf T]].
    + rewrite dims_of_storage_sel. auto.
    + rewrite counts_storage_sel by reflexivity. rewrite counts_m_sel. auto.
    + rewrite Hf. eexists; split; [reflexivity|exact T].
Qed.

(* an accepted read changes exactly the addressed memory elements (ADF back end) *)
Lemma mid_read_adf old sd md file mem :
  arrays_ok sd md -> vr_spec OpRead old sd md ->
  lenZ file = prodZ (map v_dim sd) -> lenZ mem = prodZ (map m_dim md) ->
  exists mem', mid_read ADF old sd md file mem = MidOk mem' /\
    transfers mem mem' file (spec_positions (m_sel md)) (spec_positions (storage_sel OpRead old sd)).
Proof.
  intros AOK SP LF LM. pose proof SP as [S [Lm [M E]]]. pose proof AOK as [Ls [D [Bs Bm]]].
  destruct (mid_sel_ok _ _ _ _ AOK SP) as [OKs OKm].
  unfold mid_read. rewrite (verify_range_complete _ _ _ _ SP). unfold vr_expected; cbn [vr_sfull vr_mfull vr_numpt vr_srange].
  rewrite s_sel_expected.
  destruct (s_fullb sd && m_fullb md) eqn:FB.
  - apply andb_true_iff in FB. destruct FB as [Fs Fm]. apply s_fullb_iff in Fs. apply m_fullb_iff in Fm.
    eexists; split; [reflexivity|].
    pose proof OKs as [_ [Vs _]]. pose proof OKm as [_ [Vm _]].
    rewrite (spec_positions_full _ Vs) by (apply storage_sel_full; auto; tauto).
    rewrite (spec_positions_full _ Vm) by (apply m_sel_full; auto).
    rewrite dims_of_storage_sel, dims_of_m_sel.
    assert (E1 : prodZ (map s_extent sd) = prodZ (map v_dim sd)).
    { f_equal. apply map_ext_in. intros v Hv. rewrite Forall_forall in Fs. apply Fs; auto. }
    assert (E2 : prodZ (map m_extent md) = prodZ (map m_dim md)).
    { f_equal. apply map_ext_in. intros v Hv. rewrite Forall_forall in Fm. apply Fm; auto. }
    rewrite <- E1, E, E2.
    assert (Dp : Forall (fun d => 1 <= d) (map v_dim sd)) by (rewrite Forall_map; exact D).
    pose proof (prodZ_pos _ Dp).
    apply copy_all_transfers; lia.
  - destruct (lo_read_adf file mem _ _ OKs OKm) as [m' [Hm T]].
    + rewrite dims_of_m_sel. auto.
    + rewrite counts_m_sel.
      destruct (resetb OpRead sd) eqn:R.
      * rewrite counts_storage_sel_full by (apply s_fullb_iff; exact R). auto.
      * rewrite counts_storage_sel by auto. auto.
    + rewrite Hm. eexists; split; [reflexivity|exact T].
Qed.

(* a request outside the spec is rejected before any cgio call: nothing is transferred (both back ends) *)
Lemma mid_reject b old sd md file mem :
  (~ vr_spec OpWrite old sd md -> mid_write b old sd md file mem = MidRejected) /\
  (~ vr_spec OpRead old sd md -> mid_read b old sd md file mem = MidRejected).
Proof.
  split; intros N; unfold mid_write, mid_read; rewrite verify_range_reject by auto; reflexivity.
Qed.

(* ------------------------------------------------------------------ ADFH: the stride defect (historical), by computation *)
(* ADFH before /repo commit 358f914 (variant AdfhOld / back end ADFH_OLD).  cgio range 1:5:2 on a 5-element node: ADF visits 3 elements, ADFH selects floor(5/2) = 2; read into a
   3-element buffer ADF succeeds and ADFH fails with UNEQUAL_MEMORY_AND_DISK_DIMS (49).
   cgio range 2:3:4: ADF visits one element, ADFH rejects the stride (37). *)
Definition wit_s : list dsel := [mkD 5 1 5 2].
Definition wit_m : list dsel := [mkD 3 1 3 1].
Definition wit_s2 : list dsel := [mkD 5 2 3 4].
Definition wit_m2 : list dsel := [mkD 1 1 1 1].

Lemma sel_ok_dec_wit : sel_ok wit_s /\ sel_ok wit_m /\ sel_ok wit_s2 /\ sel_ok wit_m2.
Proof.
  unfold sel_ok, valid, dvalid, wit_s, wit_m, wit_s2, wit_m2; simpl.
  repeat split; try lia; repeat constructor; simpl; try lia; try reflexivity.
Qed.

Lemma adfh_stride_refuted :
  sel_ok wit_s /\ sel_ok wit_m /\
  adf_walk w64 wit_s = inr [0; 2; 4] /\ adfh_walk AdfhOld true wit_s = inr [0; 2] /\
  xfer_read ADF [10; 20; 30; 40; 50] [0; 0; 0] wit_s wit_m = inr [10; 30; 50] /\
  xfer_read ADFH_OLD [10; 20; 30; 40; 50] [0; 0; 0] wit_s wit_m = inl UnequalDims /\
  xfer_read ADFH [10; 20; 30; 40; 50] [0; 0; 0] wit_s wit_m = inr [10; 30; 50] /\
  sel_ok wit_s2 /\ sel_ok wit_m2 /\
  xfer_read ADF [10; 20; 30; 40; 50] [0] wit_s2 wit_m2 = inr [20] /\
  xfer_read ADFH_OLD [10; 20; 30; 40; 50] [0] wit_s2 wit_m2 = inl BadStride /\
  xfer_read ADFH [10; 20; 30; 40; 50] [0] wit_s2 wit_m2 = inr [20] /\
  (* a successful but different transfer: write 2:4:2 from a 4-element buffer, range 1:4:3 *)
  xfer_write ADF [10; 20; 30; 40; 50] [1; 2; 3; 4] [mkD 5 2 4 2] [mkD 4 1 4 3] = inr [10; 1; 30; 4; 50] /\
  xfer_write ADFH_OLD [10; 20; 30; 40; 50] [1; 2; 3; 4] [mkD 5 2 4 2] [mkD 4 1 4 3] = inr [10; 1; 30; 40; 50] /\
  xfer_write ADFH [10; 20; 30; 40; 50] [1; 2; 3; 4] [mkD 5 2 4 2] [mkD 4 1 4 3] = inr [10; 1; 30; 4; 50].
Proof.
  destruct sel_ok_dec_wit as [A [B [C D]]].
  split; [exact A|]. split; [exact B|].
  split; [vm_compute; reflexivity|]. split; [vm_compute; reflexivity|].
  split; [vm_compute; reflexivity|]. split; [vm_compute; reflexivity|]. split; [vm_compute; reflexivity|].
  split; [exact C|]. split; [exact D|].
  repeat (split; [vm_compute; reflexivity|]). vm_compute; reflexivity.
Qed.

(* the undocumented read shortcut accepts ranges that lie outside the array (rind limits included) as long
   as every extent equals the stored extent: the strict reading of "requests whose range leaves the array are
   rejected" does not hold for reads.  Witness: a 3-element array, read of 101..103. *)
Lemma read_shortcut_accepts_outside :
  let sd := [mkV 3 101 103 0] in let md := [mkM 3 1 3] in
  ~ Forall (s_in_limits true) sd /\
  mid_read ADF true sd md [7; 8; 9] [0; 0; 0] = MidOk [7; 8; 9] /\
  mid_write ADF true sd md [7; 8; 9] [1; 2; 3] = MidRejected.
Proof.
  cbv zeta. split; [|split; vm_compute; reflexivity].
  intros H. inversion H as [|? ? [? [? ?]]]; subst. unfold hi_lim in *. simpl in *. lia.
Qed.

(* ------------------------------------------------------------------ non-vacuity *)
(* a rank-3 strided selection in a 4 x 3 x 5 array, reshaped to a rank-2 strided memory selection *)
Definition ex_s : list dsel := [mkD 4 2 4 2; mkD 3 1 3 1; mkD 5 1 5 3].
Definition ex_m : list dsel := [mkD 7 1 6 1; mkD 4 2 4 2].

Lemma ex_sel_ok : sel_ok ex_s /\ sel_ok ex_m /\ prodZ (counts ex_s) = prodZ (counts ex_m).
Proof.
  unfold sel_ok, valid, dvalid, ex_s, ex_m; simpl.
  repeat split; try lia; repeat constructor; simpl; try lia; try reflexivity.
Qed.

Lemma ex_vr_spec :
  vr_spec OpWrite false [mkV 6 0 3 1; mkV 5 (-1) 2 2] [mkM 9 2 9; mkM 2 1 2] /\
  arrays_ok [mkV 6 0 3 1; mkV 5 (-1) 2 2] [mkM 9 2 9; mkM 2 1 2].
Proof.
  unfold vr_spec, arrays_ok. split.
  - split; [right; repeat constructor; unfold lo_lim, hi_lim; simpl; lia|].
    split; [simpl; lia|]. split; [repeat constructor; simpl; lia|reflexivity].
  - split; [simpl; lia|]. split; [repeat constructor; simpl; lia|]. split; reflexivity.
Qed.

(* ------------------------------------------------------------------ ADFH: agreement with ADF *)
Definition divides_extent (d : dsel) : Prop := (d_end d - d_start d + 1) mod d_stride d = 0.

(* when the variant's point count is the number of points of the box *)
Definition ver_ok (v : adfh_ver) (ds : list dsel) : Prop :=
  match v with AdfhCur => True | AdfhOld => Forall divides_extent ds end.

Lemma floor_count_npts d : dvalid d -> divides_extent d ->
  Z.quot (d_end d - d_start d + 1) (d_stride d) = npts d.
Proof.
  intros [? [? [? ?]]] Dv. unfold divides_extent in Dv. unfold npts. rewrite Z.quot_div_nonneg by lia.
  pose proof (Z.div_mod (d_end d - d_start d + 1) (d_stride d) ltac:(lia)) as E. rewrite Dv in E.
  set (q := (d_end d - d_start d + 1) / d_stride d) in *.
  assert (Hq : (d_end d - d_start d) / d_stride d = q - 1).
  { symmetry. apply (Z.div_unique_pos _ _ _ (d_stride d - 1)); [lia|]. lia. }
  lia.
Qed.

Lemma adfh_count_npts v d : dvalid d -> (v = AdfhCur \/ divides_extent d) -> adfh_count v d = npts d.
Proof.
  intros V H. destruct v; simpl.
  - destruct H as [H|H]; [discriminate|]. apply floor_count_npts; auto.
  - destruct V as [? [? [? ?]]]. unfold npts. rewrite Z.quot_div_nonneg by lia. reflexivity.
Qed.

Lemma ver_ok_cons v d r : ver_ok v (d :: r) -> (v = AdfhCur \/ divides_extent d) /\ ver_ok v r.
Proof. destruct v; simpl; [|auto]. intros H; inversion H; auto. Qed.

Lemma flat_map_single {A B} (f : A -> B) l : flat_map (fun c => [f c]) l = map f l.
Proof. induction l; simpl; congruence. Qed.

Lemma flat_map_flat_map {A B C} (g : B -> list C) (f : A -> list B) l :
  flat_map g (flat_map f l) = flat_map (fun x => flat_map g (f x)) l.
Proof. induction l as [|a l IH]; simpl; auto. rewrite flat_map_app, IH. reflexivity. Qed.

Lemma flat_map_map {A B C} (g : B -> list C) (f : A -> B) l :
  flat_map g (map f l) = flat_map (fun x => g (f x)) l.
Proof. induction l; simpl; congruence. Qed.

Lemma map_flat_map {A B C} (g : B -> C) (f : A -> list B) l :
  map g (flat_map f l) = flat_map (fun x => map g (f x)) l.
Proof. induction l as [|a l IH]; simpl; auto. rewrite map_app, IH. reflexivity. Qed.

Lemma h5_points_snoc st sd cn : forall ts,
  h5_points (ts ++ [(st, sd, cn)]) =
  flat_map (fun pre => map (fun c => pre ++ [c]) (cnt_from (Z.to_nat cn) st sd)) (h5_points ts).
Proof.
  induction ts as [|[[a b] n] ts IH].
  - simpl. rewrite app_nil_r. apply flat_map_single.
  - change (((a, b, n) :: ts) ++ [(st, sd, cn)]) with ((a, b, n) :: (ts ++ [(st, sd, cn)])).
    cbn [h5_points]. rewrite IH. rewrite flat_map_flat_map.
    apply flat_map_ext. intros c. rewrite map_flat_map, flat_map_map.
    apply flat_map_ext. intros p. rewrite map_map. reflexivity.
Qed.

Definition phi (idx : list Z) : list Z := rev (map (fun c => c - 1) idx).

Lemma cnt_from_pred n : forall c s, cnt_from n (c - 1) s = map (fun i => i - 1) (cnt_from n c s).
Proof.
  induction n as [|n IH]; intros c s; simpl; auto. f_equal.
  replace (c - 1 + s) with (c + s - 1) by ring. apply IH.
Qed.

Lemma h5_points_box v : forall ds, valid ds -> ver_ok v ds ->
  h5_points (adfh_sel v ds) = map phi (box ds).
Proof.
  unfold adfh_sel. induction ds as [|d r IH]; intros V Dv; [reflexivity|].
  inversion V as [|? ? Vd Vr]; subst. apply ver_ok_cons in Dv. destruct Dv as [Dd Dr].
  cbn [map rev]. unfold adfh_triple at 2. rewrite h5_points_snoc, (IH Vr Dr).
  rewrite adfh_count_npts by auto. rewrite box_cons, map_flat_map, flat_map_map.
  apply flat_map_ext. intros tl. unfold grow. rewrite map_map. unfold range1.
  rewrite cnt_from_pred, map_map. apply map_ext. intros i. reflexivity.
Qed.

Lemma lin_c_snoc dims idx d c : length dims = length idx ->
  lin_c (dims ++ [d]) (idx ++ [c]) = lin_c dims idx * d + c.
Proof.
  intros L. unfold lin_c.
  assert (E : combine (dims ++ [d]) (idx ++ [c]) = combine dims idx ++ [(d, c)]).
  { revert idx L. induction dims as [|a dims IH]; intros [|b idx] L; simpl in *; try lia; auto.
    f_equal. apply IH. lia. }
  rewrite E, fold_left_app. reflexivity.
Qed.

Lemma lin_c_phi : forall dims idx, length dims = length idx -> lin_c (rev dims) (phi idx) = linH dims idx.
Proof.
  induction dims as [|d ds IH]; intros [|i r] L; simpl in L; try lia; [reflexivity|].
  unfold phi. cbn [map rev]. rewrite lin_c_snoc.
  - fold (phi r). rewrite IH by lia. simpl. ring.
  - rewrite !rev_length, map_length. lia.
Qed.

Lemma cvalid_length ds cur : cvalid ds cur -> length ds = length cur.
Proof. induction 1; simpl; auto. Qed.

Lemma adfh_check_ok v u : forall ds, valid ds -> prodZ (dims_of ds) < 2 ^ 63 -> ver_ok v ds ->
  adfh_check v u ds = None.
Proof.
  induction ds as [|d r IH]; intros V B Dv; [reflexivity|].
  inversion V as [|? ? Vd Vr]; subst. apply ver_ok_cons in Dv. destruct Dv as [Dd Dr].
  simpl in B. fold (prodZ (dims_of r)) in B.
  pose proof (prodZ_pos _ (dims_of_valid_pos r Vr)).
  pose proof Vd as [? [? [? ?]]]. assert (2 ^ 63 < W64) by reflexivity.
  cbn [adfh_check]. unfold adfh_check1.
  destruct (Z.ltb_spec (d_start d) 1); [lia|].
  assert (Ew : (if u then w64 (d_end d) else d_end d) = d_end d).
  { destruct u; auto. apply w64_small. nia. }
  rewrite Ew. destruct (Z.ltb_spec (d_dim d) (d_end d)); [lia|].
  destruct (Z.ltb_spec (d_end d) (d_start d)); [lia|].
  destruct (Z.ltb_spec (d_stride d) 1); [lia|]. simpl orb.
  assert (G : match v with AdfhOld => d_end d - d_start d + 1 <? d_stride d | AdfhCur => false end = false).
  { destruct v; auto. destruct Dd as [Dd|Dd]; [discriminate|].
    destruct (Z.ltb_spec (d_end d - d_start d + 1) (d_stride d)) as [Lt|Ge]; auto.
    unfold divides_extent in Dd. rewrite Z.mod_small in Dd by lia. lia. }
  rewrite G. apply IH; auto. nia.
Qed.

Lemma adfh_walk_ok v u ds : sel_ok ds -> ver_ok v ds -> adfh_walk v u ds = inr (spec_positions ds).
Proof.
  intros [_ [V B]] Dv. unfold adfh_walk. rewrite adfh_check_ok by auto. f_equal.
  rewrite h5_points_box by auto. rewrite map_map. unfold spec_positions.
  apply map_ext_in. intros idx Hi. unfold adfh_dims. rewrite lin_linH. apply lin_c_phi.
  pose proof (box_cvalid ds V) as F. rewrite Forall_forall in F. specialize (F _ Hi).
  unfold dims_of. rewrite map_length. apply cvalid_length; auto.
Qed.

(* the current ADFH code agrees with ADF for ALL strides >= 1 *)
Lemma adfh_cur_walk_ok u ds : sel_ok ds -> adfh_walk AdfhCur u ds = inr (spec_positions ds).
Proof. intros OK. apply adfh_walk_ok; simpl; auto. Qed.

(* the old code agreed only when every stride divides its extent *)
Lemma adfh_old_walk_ok u ds : sel_ok ds -> Forall divides_extent ds ->
  adfh_walk AdfhOld u ds = inr (spec_positions ds).
Proof. intros OK D. apply adfh_walk_ok; simpl; auto. Qed.

(* unit strides (everything the mid level ever asks for) divide every extent *)
Lemma unit_stride_divides ds : Forall (fun d => d_stride d = 1) ds -> Forall divides_extent ds.
Proof.
  intros H. eapply Forall_impl; [|exact H]. intros d E. unfold divides_extent. rewrite E. apply Z.mod_1_r.
Qed.

(* ------------------------------------------------------------------ both back ends *)
Definition stride_ok (b : backend) (ds : list dsel) : Prop :=
  match b with ADF => True | ADFH => True | ADFH_OLD => Forall divides_extent ds end.

Lemma adfh_pairs_ok v sds mds : sel_ok sds -> sel_ok mds -> ver_ok v sds -> ver_ok v mds ->
  adfh_pairs v sds mds =
    if prodZ (counts sds) =? prodZ (counts mds) then inr (spec_positions sds, spec_positions mds)
    else inl UnequalDims.
Proof.
  intros OKs OKm Ss Sm. pose proof OKs as [_ [Vs _]]. pose proof OKm as [_ [Vm _]].
  unfold adfh_pairs. rewrite !adfh_walk_ok by auto. rewrite !spec_positions_length by auto.
  destruct (prodZ (counts sds) =? prodZ (counts mds)); reflexivity.
Qed.

Lemma lo_pairs_ok b sds mds : sel_ok sds -> sel_ok mds -> stride_ok b sds -> stride_ok b mds ->
  lo_pairs b sds mds =
    if prodZ (counts sds) =? prodZ (counts mds) then inr (spec_positions sds, spec_positions mds)
    else inl UnequalDims.
Proof.
  intros OKs OKm Ss Sm. destruct b; [apply lo_pairs_adf_ok; auto| |]; apply adfh_pairs_ok; simpl; auto.
Qed.

Lemma lo_write_any b file mem sds mds :
  sel_ok sds -> sel_ok mds -> stride_ok b sds -> stride_ok b mds ->
  lenZ file = prodZ (dims_of sds) -> prodZ (counts sds) = prodZ (counts mds) ->
  exists file', xfer_write b file mem sds mds = inr file' /\
                transfers file file' mem (spec_positions sds) (spec_positions mds).
Proof.
  intros OKs OKm Ss Sm LF EC. pose proof OKs as [_ [Vs _]]. pose proof OKm as [_ [Vm _]].
  unfold xfer_write. rewrite lo_pairs_ok by auto. rewrite EC, Z.eqb_refl.
  eexists; split; [reflexivity|]. apply xfer_transfers.
  - apply spec_positions_NoDup; auto.
  - apply Nat2Z.inj. rewrite !spec_positions_length; auto.
  - rewrite LF. apply spec_positions_range; auto.
Qed.

Lemma lo_read_any b file mem sds mds :
  sel_ok sds -> sel_ok mds -> stride_ok b sds -> stride_ok b mds ->
  lenZ mem = prodZ (dims_of mds) -> prodZ (counts sds) = prodZ (counts mds) ->
  exists mem', xfer_read b file mem sds mds = inr mem' /\
               transfers mem mem' file (spec_positions mds) (spec_positions sds).
Proof.
  intros OKs OKm Ss Sm LF EC. pose proof OKs as [_ [Vs _]]. pose proof OKm as [_ [Vm _]].
  unfold xfer_read. rewrite lo_pairs_ok by auto. rewrite EC, Z.eqb_refl.
  eexists; split; [reflexivity|]. apply xfer_transfers.
  - apply spec_positions_NoDup; auto.
  - apply Nat2Z.inj. rewrite !spec_positions_length; auto.
  - rewrite LF. apply spec_positions_range; auto.
Qed.

Lemma lo_unequal_any b sds mds :
  sel_ok sds -> sel_ok mds -> stride_ok b sds -> stride_ok b mds ->
  prodZ (counts sds) <> prodZ (counts mds) -> lo_pairs b sds mds = inl UnequalDims.
Proof.
  intros OKs OKm Ss Sm NE. rewrite lo_pairs_ok by auto.
  destruct (Z.eqb_spec (prodZ (counts sds)) (prodZ (counts mds))); [contradiction|reflexivity].
Qed.

Lemma storage_sel_stride_ok b op old sd : stride_ok b (storage_sel op old sd).
Proof.
  destruct b; simpl; auto. apply unit_stride_divides. unfold storage_sel. rewrite Forall_map.
  apply Forall_forall. intros v _. destruct (resetb op sd); reflexivity.
Qed.

Lemma m_sel_stride_ok b md : stride_ok b (m_sel md).
Proof.
  destruct b; simpl; auto. apply unit_stride_divides. unfold m_sel. rewrite Forall_map.
  apply Forall_forall. intros v _. reflexivity.
Qed.

Lemma mid_write_any b old sd md file mem :
  arrays_ok sd md -> vr_spec OpWrite old sd md ->
  lenZ file = prodZ (map v_dim sd) -> prodZ (map m_dim md) <= lenZ mem ->
  exists file', mid_write b old sd md file mem = MidOk file' /\
    transfers file file' mem (spec_positions (storage_sel OpWrite old sd)) (spec_positions (m_sel md)).
Proof.
  intros AOK SP LF LM. pose proof SP as [S [Lm [M E]]]. pose proof AOK as [Ls [D [Bs Bm]]].
  destruct (mid_sel_ok _ _ _ _ AOK SP) as [OKs OKm].
  unfold mid_write. rewrite (verify_range_complete _ _ _ _ SP). unfold vr_expected; cbn [vr_sfull vr_mfull vr_numpt vr_srange].
  rewrite s_sel_expected.
  destruct S as [[S _]|S]; [discriminate|].
  destruct (s_fullb sd && m_fullb md) eqn:FB.
  - apply andb_true_iff in FB. destruct FB as [Fs Fm]. apply s_fullb_iff in Fs. apply m_fullb_iff in Fm.
    eexists; split; [reflexivity|].
    pose proof OKs as [_ [Vs _]]. pose proof OKm as [_ [Vm _]].
    rewrite (spec_positions_full _ Vs) by (apply storage_sel_full; auto).
    rewrite (spec_positions_full _ Vm) by (apply m_sel_full; auto).
    rewrite dims_of_storage_sel, dims_of_m_sel.
    assert (E1 : prodZ (map s_extent sd) = prodZ (map v_dim sd)).
    { f_equal. apply map_ext_in. intros v Hv. rewrite Forall_forall in Fs. apply Fs; auto. }
    assert (E2 : prodZ (map m_extent md) = prodZ (map m_dim md)).
    { f_equal. apply map_ext_in. intros v Hv. rewrite Forall_forall in Fm. apply Fm; auto. }
    rewrite <- E2, <- E, E1.
    assert (Dp : Forall (fun d => 1 <= d) (map v_dim sd)) by (rewrite Forall_map; exact D).
    pose proof (prodZ_pos _ Dp).
    apply copy_all_transfers; lia.
  - destruct (lo_write_any b file mem _ _ OKs OKm) as [f' [Hf T]].
    + apply storage_sel_stride_ok.
    + apply m_sel_stride_ok.
    + rewrite dims_of_storage_sel. auto.
    + rewrite counts_storage_sel by reflexivity. rewrite counts_m_sel. auto.
    + rewrite Hf. eexists; split; [reflexivity|exact T].
Qed.

Lemma mid_read_any b old sd md file mem :
  arrays_ok sd md -> vr_spec OpRead old sd md ->
  lenZ file = prodZ (map v_dim sd) -> lenZ mem = prodZ (map m_dim md) ->
  exists mem', mid_read b old sd md file mem = MidOk mem' /\
    transfers mem mem' file (spec_positions (m_sel md)) (spec_positions (storage_sel OpRead old sd)).
Proof.
  intros AOK SP LF LM. pose proof SP as [S [Lm [M E]]]. pose proof AOK as [Ls [D [Bs Bm]]].
  destruct (mid_sel_ok _ _ _ _ AOK SP) as [OKs OKm].
  unfold mid_read. rewrite (verify_range_complete _ _ _ _ SP). unfold vr_expected; cbn [vr_sfull vr_mfull vr_numpt vr_srange].
  rewrite s_sel_expected.
  destruct (s_fullb sd && m_fullb md) eqn:FB.
  - apply andb_true_iff in FB. destruct FB as [Fs Fm]. apply s_fullb_iff in Fs. apply m_fullb_iff in Fm.
    eexists; split; [reflexivity|].
    pose proof OKs as [_ [Vs _]]. pose proof OKm as [_ [Vm _]].
    rewrite (spec_positions_full _ Vs) by (apply storage_sel_full; auto; tauto).
    rewrite (spec_positions_full _ Vm) by (apply m_sel_full; auto).
    rewrite dims_of_storage_sel, dims_of_m_sel.
    assert (E1 : prodZ (map s_extent sd) = prodZ (map v_dim sd)).
    { f_equal. apply map_ext_in. intros v Hv. rewrite Forall_forall in Fs. apply Fs; auto. }
    assert (E2 : prodZ (map m_extent md) = prodZ (map m_dim md)).
    { f_equal. apply map_ext_in. intros v Hv. rewrite Forall_forall in Fm. apply Fm; auto. }
    rewrite <- E1, E, E2.
    assert (Dp : Forall (fun d => 1 <= d) (map v_dim sd)) by (rewrite Forall_map; exact D).
    pose proof (prodZ_pos _ Dp).
    apply copy_all_transfers; lia.
  - destruct (lo_read_any b file mem _ _ OKs OKm) as [m' [Hm T]].
    + apply storage_sel_stride_ok.
    + apply m_sel_stride_ok.
    + rewrite dims_of_m_sel. auto.
    + rewrite counts_m_sel.
      destruct (resetb OpRead sd) eqn:R.
      * rewrite counts_storage_sel_full by (apply s_fullb_iff; exact R). auto.
      * rewrite counts_storage_sel by auto. auto.
    + rewrite Hm. eexists; split; [reflexivity|exact T].
Qed.

(* the box of the storage selection is the user's box shifted by rind_lo (CORE) / unshifted (ZERO) *)
Lemma storage_sel_write old sd :
  storage_sel OpWrite old sd =
  map (fun v => mkD (v_dim v) (v_rmin v + shift old v) (v_rmax v + shift old v) 1) sd.
Proof. reflexivity. Qed.

(* the current back ends need no stride hypothesis *)
Definition current (b : backend) : Prop := b <> ADFH_OLD.
Lemma current_stride_ok b ds : current b -> stride_ok b ds.
Proof. destruct b; simpl; auto. intros H; exfalso; apply H; reflexivity. Qed.

Lemma lo_write_cur b file mem sds mds :
  current b -> sel_ok sds -> sel_ok mds ->
  lenZ file = prodZ (dims_of sds) -> prodZ (counts sds) = prodZ (counts mds) ->
  exists file', xfer_write b file mem sds mds = inr file' /\
                transfers file file' mem (spec_positions sds) (spec_positions mds).
Proof. intros C OKs OKm. apply lo_write_any; auto using current_stride_ok. Qed.

Lemma lo_read_cur b file mem sds mds :
  current b -> sel_ok sds -> sel_ok mds ->
  lenZ mem = prodZ (dims_of mds) -> prodZ (counts sds) = prodZ (counts mds) ->
  exists mem', xfer_read b file mem sds mds = inr mem' /\
               transfers mem mem' file (spec_positions mds) (spec_positions sds).
Proof. intros C OKs OKm. apply lo_read_any; auto using current_stride_ok. Qed.

Lemma lo_unequal_cur b sds mds :
  current b -> sel_ok sds -> sel_ok mds ->
  prodZ (counts sds) <> prodZ (counts mds) -> lo_pairs b sds mds = inl UnequalDims.
Proof. intros C OKs OKm. apply lo_unequal_any; auto using current_stride_ok. Qed.

(* ADFH rejects what ADF rejects: a range that is not inside the array *)
Lemma adfh_check_invalid v u : forall ds, Forall (fun d => 0 <= d_end d < W64) ds -> ~ valid ds ->
  exists e, adfh_check v u ds = Some e.
Proof.
  induction ds as [|d r IH]; intros R N; [exfalso; apply N; constructor|].
  inversion R as [|? ? Rd Rr]; subst. cbn [adfh_check]. unfold adfh_check1.
  destruct (Z.ltb_spec (d_start d) 1); [eexists; reflexivity|].
  assert (Ew : (if u then w64 (d_end d) else d_end d) = d_end d) by (destruct u; auto; apply w64_small; auto).
  rewrite Ew. destruct (Z.ltb_spec (d_dim d) (d_end d)); [eexists; reflexivity|].
  destruct (Z.ltb_spec (d_end d) (d_start d)); [eexists; reflexivity|].
  destruct (Z.ltb_spec (d_stride d) 1); [eexists; reflexivity|]. simpl orb.
  destruct (match v with AdfhOld => d_end d - d_start d + 1 <? d_stride d | AdfhCur => false end); [eexists; reflexivity|].
  apply IH; auto. intros Vr. apply N. constructor; auto. unfold dvalid. lia.
Qed.
