(* AdfMove.v -- executable model of ADF_Move_Child over the two sub-node tables it touches (property C02, extension
   C02b).  Definitions only.

   Transcribed from src/adf/ADF_interface.c ADF_Move_Child (/repo 730e850), after the three ids were found to lie in one
   file:
     1. ADF_Get_Name(ID) + ADFI_check_4_child_name(parent, name): "check that child is really a child of parent";
        since 730e850 the entry found must also carry the child's disk pointer (before: the name alone decided);
     2. ADFI_check_4_child_name(new_parent, name): found -> DUPLICATE_CHILD_NAME (since 204840b);
     3. ADFI_add_2_sub_node_table(new_parent, child);
     4. ADFI_delete_from_sub_node_table(parent, child), which searches the parent's table by disk pointer.
   Every step that fails returns its error at once (CHECK_ADF_ABORT): what the earlier steps wrote stays written.
   [MvOld] is the code before 730e850, kept with its machine-checked witness.  The tables are AdfChildTab.v's. *)
From Coq Require Import ZArith List Bool Lia.
From CgnsV Require Import AdfChildTab.
Import ListNotations.
Local Open Scope Z_scope.

Definition CHILD_NOT_OF_GIVEN_PARENT : Z := 29.
Definition DUPLICATE_CHILD_NAME : Z := 26.

Inductive mvariant := MvOld | MvCur.

Inductive mres :=
| MOk                       (* NO_ERROR *)
| MErr (e : Z)              (* the error returned *)
| MOutside.                 (* a table of 2^24 entries: outside AdfChildTab's model *)

(* [nm]: the child's name as a C string (what ADF_Get_Name returns), [hdr]: the 32-byte name in its header, which
   ADFI_add_2_sub_node_table copies into the new entry.  Result: (status, parent's table, new parent's table) *)
Definition move_child (v : mvariant) (src dst : ctab) (nm : list Z) (hdr : name) (child : ptr)
  : mres * ctab * ctab :=
  match check_child src nm with
  | None => (MErr CHILD_NOT_OF_GIVEN_PARENT, src, dst)
  | Some (_, e) =>
      if match v with MvOld => true | MvCur => ptr_eqb (snd e) child end then
        match check_child dst nm with
        | Some _ => (MErr DUPLICATE_CHILD_NAME, src, dst)
        | None =>
            match add_child dst hdr child with
            | None => (MOutside, src, dst)
            | Some (CErr err) => (MErr err, src, dst)
            | Some (COk dst') =>
                match del_child src child with
                | CErr err => (MErr err, src, dst')          (* the new parent already lists the child *)
                | COk src' => (MOk, src', dst')
                end
            end
        end
      else (MErr CHILD_NOT_OF_GIVEN_PARENT, src, dst)
  end.
