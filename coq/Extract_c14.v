(* Extract_c14.v -- extraction of the C14 model (AdfIO) to OCaml. ExtrOcamlBasic only. *)
From Coq Require Import Extraction ExtrOcamlBasic.
From CgnsV Require Import AdfIO.
Extraction Language OCaml.
Set Extraction KeepSingleton.
Extraction "extracted/c14/model.ml" AdfIO.step AdfIO.run AdfIO.mk_state AdfIO.accepted AdfIO.adfi_write AdfIO.contig.
