(* Extract_c18.v -- extraction of the C18 models (HashMap, ZoneMirror) to OCaml.
   ExtrOcamlBasic only: bool, option, list, prod, unit, sumbool map to OCaml's
   own; Z, N, positive, nat, ascii stay extracted inductives.  No Extract
   Constant / Extract Inductive directives of our own. *)
From Coq Require Import Extraction ExtrOcamlBasic.
From CgnsV Require Import HashMap ZoneMirror.
Extraction Language OCaml.
Set Extraction KeepSingleton.
Extraction "extracted/c18/model.ml" HashMap.mstep HashMap.empty_map HashMap.hash_cstr
  ZoneMirror.zstep ZoneMirror.empty_base.
