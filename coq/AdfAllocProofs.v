(* AdfAllocProofs.v -- proofs about AdfAlloc.v (the ADF free-space manager as compiled: growth at end_of_file with the
   block rule, push-only free lists, 'z' dead space).  All statements are for EVERY history (induction over the list
   of operations) or for every state that satisfies the invariant [Inv]. *)
From Coq Require Import ZArith List Bool Lia Permutation.
From CgnsV Require Import AdfAlloc.
Import ListNotations.
Local Open Scope Z_scope.

Local Arguments HDR : simpl never.
Local Arguments BLK : simpl never.
Local Arguments TAG_SIZE : simpl never.
Local Arguments SMALLEST_CHUNK_SIZE : simpl never.
Local Arguments SMALL_CHUNK_MAXIMUM : simpl never.
Local Arguments MEDIUM_CHUNK_MAXIMUM : simpl never.

(* ------------------------------------------------------------------ regions *)
Definition rdisj (a b : region) : Prop := fst a + snd a <= fst b \/ fst b + snd b <= fst a.
Fixpoint pairwise (l : list region) : Prop :=
  match l with [] => True | r :: t => Forall (rdisj r) t /\ pairwise t end.
Definition in_file (e : Z) (r : region) : Prop := HDR <= fst r /\ 0 < snd r /\ fst r + snd r <= e + 1.

Lemma rdisj_sym : forall a b, rdisj a b -> rdisj b a.
Proof. unfold rdisj; intros; lia. Qed.

Lemma pairwise_perm : forall l l', Permutation l l' -> pairwise l -> pairwise l'.
Proof.
  induction 1; simpl; intros; auto.
  - destruct H0; split; auto. eapply Permutation_Forall; eauto.
  - destruct H as [Hy [Hx Hl]]. inversion Hy; subst. repeat split; auto.
    constructor; auto. apply rdisj_sym; auto.
Qed.

Lemma total_perm : forall l l', Permutation l l' -> total l = total l'.
Proof. induction 1; simpl; lia. Qed.

Lemma total_app : forall a b, total (a ++ b) = total a + total b.
Proof. induction a; simpl; intros; [lia|]. rewrite IHa; lia. Qed.

Lemma perm_ins1 : forall (x : region) A R, Permutation (x :: A ++ R) (A ++ x :: R).
Proof. intros; apply Permutation_middle. Qed.
Lemma perm_ins2 : forall (x : region) A B R, Permutation (x :: A ++ B ++ R) (A ++ B ++ x :: R).
Proof. intros. rewrite 2 app_assoc. apply Permutation_middle. Qed.
Lemma perm_ins3 : forall (x : region) A B C R, Permutation (x :: A ++ B ++ C ++ R) (A ++ B ++ C ++ x :: R).
Proof. intros. rewrite (app_assoc B), (app_assoc B C (x :: R)). apply perm_ins2. Qed.
Lemma perm_ins4 : forall (x : region) A B C D R, Permutation (x :: A ++ B ++ C ++ D ++ R) (A ++ B ++ C ++ D ++ x :: R).
Proof. intros. rewrite (app_assoc C), (app_assoc C D (x :: R)). apply perm_ins3. Qed.
Lemma perm_ins5 : forall (x : region) A B C D E R,
  Permutation (x :: A ++ B ++ C ++ D ++ E ++ R) (A ++ B ++ C ++ D ++ E ++ x :: R).
Proof. intros. rewrite (app_assoc D), (app_assoc D E (x :: R)). apply perm_ins4. Qed.

Lemma regions_flat : forall s,
  regions s = live s ++ fl_regions (small s) ++ fl_regions (medium s) ++ fl_regions (large s) ++ dead s ++ lost s.
Proof. intros; unfold regions, free_regions. rewrite <- !app_assoc. reflexivity. Qed.

(* ------------------------------------------------------------------ arithmetic of blocks *)
Lemma blk_off : forall a, a = blk a * BLK + off a /\ 0 <= off a < BLK.
Proof.
  intros; unfold blk, off, BLK. pose proof (Z.div_mod a 4096). pose proof (Z.mod_pos_bound a 4096). lia.
Qed.
Lemma blk_mono : forall a b, a <= b -> blk a <= blk b.
Proof. intros; unfold blk, BLK; apply Z.div_le_mono; lia. Qed.
Lemma blk_start : forall b n, 0 <= n < BLK -> blk (b * BLK + n) = b.
Proof.
  intros; unfold blk, BLK in *. rewrite Z.add_comm, Z.div_add by lia. rewrite Z.div_small; lia.
Qed.
Lemma off_start : forall b n, 0 <= n < BLK -> off (b * BLK + n) = n.
Proof.
  intros; unfold off, BLK in *. rewrite Z.add_comm, Z.mod_add by lia. apply Z.mod_small; lia.
Qed.
Lemma same_blk_dist : forall a b, blk a = blk b -> b - a = off b - off a.
Proof. intros. pose proof (blk_off a); pose proof (blk_off b). nia. Qed.
Lemma blk_between : forall a b c, a <= b <= c -> blk a = blk c -> blk b = blk a.
Proof. intros. pose proof (blk_mono a b); pose proof (blk_mono b c). lia. Qed.

(* ------------------------------------------------------------------ the invariant *)
Definition csize (c : chunk) : Z := snd c + TAG_SIZE - fst c.
Definition small_ok (c : chunk) : Prop :=
  blk (fst c) = blk (snd c) /\ SMALLEST_CHUNK_SIZE < csize c <= SMALL_CHUNK_MAXIMUM.
Definition medium_ok (c : chunk) : Prop :=
  blk (fst c) = blk (snd c) /\ SMALL_CHUNK_MAXIMUM < csize c <= MEDIUM_CHUNK_MAXIMUM + TAG_SIZE - 1.
Definition large_ok (c : chunk) : Prop :=
  blk (fst c) < blk (snd c) /\ SMALLEST_CHUNK_SIZE < csize c.
(* what the large list holds when every free is exact: only chunks of more than a block (the block rule keeps smaller
   allocations inside one block, so they can only reach the small or the medium list) *)
Definition large_strong (c : chunk) : Prop := MEDIUM_CHUNK_MAXIMUM < csize c.
Definition fl_wf (P : chunk -> Prop) (f : flist) : Prop :=
  Forall P (fl_chunks f) /\ fl_last f = last_start (fl_chunks f).
(* the block rule, as a property of what is allocated: nothing of at most a block straddles a block boundary *)
Definition live_ok (r : region) : Prop := snd r <= BLK -> blk (fst r) = blk (fst r + snd r - 1).

Record Inv (s : st) : Prop := mkInv {
  I_eof : HDR - 1 <= eof s;
  I_in : Forall (in_file (eof s)) (regions s);
  I_disj : pairwise (regions s);
  I_total : total (regions s) = eof s + 1 - HDR;
  I_small : fl_wf small_ok (small s);
  I_medium : fl_wf medium_ok (medium s);
  I_large : fl_wf large_ok (large s);
  I_live : Forall live_ok (live s)
}.

Lemma Inv_init : Inv init_st.
Proof.
  constructor; simpl; try (split; [constructor|reflexivity]); auto; try constructor.
  unfold HDR, FILE_HEADER_SIZE, FREE_CHUNK_TABLE_SIZE, NODE_HEADER_SIZE; lia.
Qed.

(* ------------------------------------------------------------------ free lists: push *)
Lemma last_start_cons : forall c l, l <> [] -> last_start (c :: l) = last_start l.
Proof.
  intros c l H. unfold last_start. simpl.
  destruct (rev l) eqn:E.
  - apply (f_equal (@rev _)) in E. rewrite rev_involutive in E. simpl in E. congruence.
  - reflexivity.
Qed.

Lemma push_wf : forall P f p e, fl_wf P f -> P (p, e) -> fl_wf P (push f p e).
Proof.
  intros P f p e [Hc Hl] Hp. unfold push, fl_wf; simpl. split; [constructor; auto|].
  destruct (fl_chunks f) eqn:E; [reflexivity|].
  rewrite last_start_cons by discriminate. exact Hl.
Qed.

Lemma fl_regions_push : forall f p n, fl_regions (push f p (p + n - TAG_SIZE)) = (p, n) :: fl_regions f.
Proof.
  intros. unfold fl_regions, push, chunk_region; simpl. f_equal. f_equal. unfold TAG_SIZE; lia.
Qed.

(* ------------------------------------------------------------------ classify *)
Lemma classify_small : forall p n, classify p n = CSmall -> small_ok (p, p + n - TAG_SIZE).
Proof.
  unfold classify, small_ok, csize; simpl; intros p n.
  destruct (n <=? SMALLEST_CHUNK_SIZE) eqn:E1; [discriminate|].
  destruct (blk p =? blk (p + n - TAG_SIZE)) eqn:E2; [|discriminate].
  destruct (off (p + n - TAG_SIZE) + TAG_SIZE - off p <=? SMALL_CHUNK_MAXIMUM) eqn:E3; [|discriminate].
  intros _. apply Z.leb_gt in E1. apply Z.eqb_eq in E2. apply Z.leb_le in E3.
  pose proof (same_blk_dist _ _ E2). unfold TAG_SIZE in *. split; [auto|lia].
Qed.
Lemma classify_medium : forall p n, classify p n = CMedium -> medium_ok (p, p + n - TAG_SIZE).
Proof.
  unfold classify, medium_ok, csize; simpl; intros p n.
  destruct (n <=? SMALLEST_CHUNK_SIZE) eqn:E1; [discriminate|].
  destruct (blk p =? blk (p + n - TAG_SIZE)) eqn:E2; [|discriminate].
  destruct (off (p + n - TAG_SIZE) + TAG_SIZE - off p <=? SMALL_CHUNK_MAXIMUM) eqn:E3; [discriminate|].
  intros _. apply Z.leb_gt in E3. apply Z.eqb_eq in E2.
  pose proof (same_blk_dist _ _ E2) as D. destruct (blk_off p) as [_ Op]. destruct (blk_off (p + n - TAG_SIZE)) as [_ Oe].
  unfold TAG_SIZE, MEDIUM_CHUNK_MAXIMUM, BLK in *. split; [auto|]. lia.
Qed.
Lemma classify_large : forall p n, classify p n = CLarge -> large_ok (p, p + n - TAG_SIZE).
Proof.
  unfold classify, large_ok, csize; simpl; intros p n.
  destruct (n <=? SMALLEST_CHUNK_SIZE) eqn:E1; [discriminate|].
  destruct (blk p =? blk (p + n - TAG_SIZE)) eqn:E2.
  - destruct (off (p + n - TAG_SIZE) + TAG_SIZE - off p <=? SMALL_CHUNK_MAXIMUM); discriminate.
  - intros _. apply Z.eqb_neq in E2. apply Z.leb_gt in E1.
    unfold SMALLEST_CHUNK_SIZE, NODE_HEADER_SIZE, TAG_SIZE in *.
    assert (blk p <= blk (p + n - 4)) by (apply blk_mono; lia).
    split; lia.
Qed.
Lemma classify_large_strong : forall p n, classify p n = CLarge -> live_ok (p, n) ->
  large_strong (p, p + n - TAG_SIZE).
Proof.
  unfold classify, large_strong, csize, live_ok; simpl; intros p n.
  destruct (n <=? SMALLEST_CHUNK_SIZE) eqn:E1; [discriminate|].
  destruct (blk p =? blk (p + n - TAG_SIZE)) eqn:E2.
  - destruct (off (p + n - TAG_SIZE) + TAG_SIZE - off p <=? SMALL_CHUNK_MAXIMUM); discriminate.
  - intros _ Hl. apply Z.eqb_neq in E2. apply Z.leb_gt in E1.
    unfold SMALLEST_CHUNK_SIZE, NODE_HEADER_SIZE, TAG_SIZE, MEDIUM_CHUNK_MAXIMUM in *.
    destruct (Z_le_gt_dec n BLK) as [Hle|]; [|unfold BLK in *; lia].
    exfalso. apply E2. symmetry. apply (blk_between p (p + n - 4) (p + n - 1)); [lia|auto].
Qed.
Lemma classify_dead : forall p n, classify p n = CDead -> n <= SMALLEST_CHUNK_SIZE.
Proof.
  unfold classify; cbv zeta; intros p n. destruct (n <=? SMALLEST_CHUNK_SIZE) eqn:E.
  - intros _; apply Z.leb_le; auto.
  - destruct (blk p =? blk (p + n - TAG_SIZE)).
    + destruct (off (p + n - TAG_SIZE) + TAG_SIZE - off p <=? SMALL_CHUNK_MAXIMUM); intros H; discriminate H.
    + intros H; discriminate H.
Qed.

(* ------------------------------------------------------------------ free_raw adds exactly one region *)
Lemma free_raw_perm : forall s p n, Permutation ((p, n) :: regions s) (regions (free_raw s p n)).
Proof.
  intros. rewrite !regions_flat. unfold free_raw. destruct (classify p n); cbn [small medium large live dead lost eof].
  - apply perm_ins4.
  - rewrite fl_regions_push. apply perm_ins1.
  - rewrite fl_regions_push. apply perm_ins2.
  - rewrite fl_regions_push. apply perm_ins3.
Qed.
Lemma free_raw_eof : forall s p n, eof (free_raw s p n) = eof s.
Proof. intros; unfold free_raw; destruct (classify p n); reflexivity. Qed.
Lemma free_raw_live : forall s p n, live (free_raw s p n) = live s.
Proof. intros; unfold free_raw; destruct (classify p n); reflexivity. Qed.

Lemma free_raw_lists : forall s p n,
  fl_wf small_ok (small s) -> fl_wf medium_ok (medium s) -> fl_wf large_ok (large s) ->
  fl_wf small_ok (small (free_raw s p n)) /\ fl_wf medium_ok (medium (free_raw s p n)) /\
  fl_wf large_ok (large (free_raw s p n)).
Proof.
  intros s p n Hs Hm Hg. unfold free_raw.
  destruct (classify p n) eqn:E; cbn [small medium large]; (split; [|split]); auto; apply push_wf; auto.
  - apply classify_small; auto.
  - apply classify_medium; auto.
  - apply classify_large; auto.
Qed.

(* ------------------------------------------------------------------ take_live *)
Lemma take_live_perm : forall p l r l', take_live p l = Some (r, l') -> Permutation l (r :: l') /\ fst r = p.
Proof.
  induction l as [|x t IH]; simpl; intros r l' H; [discriminate|].
  destruct (fst x =? p) eqn:E.
  - inversion H; subst. apply Z.eqb_eq in E. split; auto.
  - destruct (take_live p t) as [[r0 t']|] eqn:T; [|discriminate]. inversion H; subst.
    destruct (IH _ _ eq_refl) as [Hp Hf]. split; auto.
    eapply perm_trans; [apply perm_skip; exact Hp|apply perm_swap].
Qed.

Lemma forget_perm : forall s p n r l', take_live p (live s) = Some (r, l') -> 0 < n <= snd r ->
  Permutation (regions s)
    ((p, snd r) :: regions (forget s p n)) /\ n = snd r /\ lost (forget s p n) = lost s
  \/ Permutation (regions s) ((p, snd r) :: l' ++ free_regions s ++ dead s ++ lost s) /\ n < snd r /\
     Permutation ((p + n, snd r - n) :: l' ++ free_regions s ++ dead s ++ lost s) (regions (forget s p n)).
Proof.
  intros s p n r l' H Hn. destruct (take_live_perm _ _ _ _ H) as [Hp Hf].
  assert (Hr : r = (p, snd r)) by (destruct r; simpl in *; subst; reflexivity).
  assert (Hall : Permutation (regions s) ((p, snd r) :: l' ++ free_regions s ++ dead s ++ lost s)).
  { unfold regions. rewrite Hr in Hp. change ((p, snd r) :: l' ++ free_regions s ++ dead s ++ lost s)
      with (((p, snd r) :: l') ++ free_regions s ++ dead s ++ lost s). apply Permutation_app_tail; auto. }
  unfold forget. rewrite H. destruct (n <? snd r) eqn:E.
  - right. apply Z.ltb_lt in E. repeat split; auto. unfold regions, free_regions; simpl.
    rewrite <- !app_assoc. apply perm_ins5.
  - left. apply Z.ltb_ge in E. repeat split; auto; try lia.
Qed.

(* ------------------------------------------------------------------ the core facts about a list of regions *)
Lemma pairwise_cons_inv : forall x l, pairwise (x :: l) -> Forall (rdisj x) l /\ pairwise l.
Proof. simpl; auto. Qed.

Lemma split_region : forall p m n rest e, 0 < n < m ->
  Forall (in_file e) ((p, m) :: rest) -> pairwise ((p, m) :: rest) ->
  Forall (in_file e) ((p, n) :: (p + n, m - n) :: rest) /\ pairwise ((p, n) :: (p + n, m - n) :: rest) /\
  total ((p, n) :: (p + n, m - n) :: rest) = total ((p, m) :: rest).
Proof.
  intros p m n rest e Hn Hin Hd. inversion Hin as [|? ? H1 H2]; subst. destruct Hd as [Hd1 Hd2].
  unfold in_file in H1; simpl in H1.
  split; [|split].
  - constructor; [unfold in_file; simpl; lia|]. constructor; [unfold in_file; simpl; lia|auto].
  - simpl. repeat split; auto.
    + constructor; [unfold rdisj; simpl; lia|].
      eapply Forall_impl; [|exact Hd1]. unfold rdisj; simpl; intros; lia.
    + eapply Forall_impl; [|exact Hd1]. unfold rdisj; simpl; intros; lia.
  - simpl; lia.
Qed.

(* ------------------------------------------------------------------ one step keeps the invariant *)
Definition Core (e : Z) (L : list region) : Prop :=
  Forall (in_file e) L /\ pairwise L /\ total L = e + 1 - HDR.

Lemma in_file_mono : forall e e' r, e <= e' -> in_file e r -> in_file e' r.
Proof. unfold in_file; intros; lia. Qed.

Lemma Core_perm : forall e L L', Permutation L L' -> Core e L -> Core e L'.
Proof.
  intros e L L' P [A [B C]]. repeat split.
  - eapply Permutation_Forall; eauto.
  - eapply pairwise_perm; eauto.
  - rewrite <- (total_perm _ _ P); auto.
Qed.

Lemma Core_grow : forall e L n, Core e L -> HDR - 1 <= e -> 0 < n -> Core (e + n) ((e + 1, n) :: L).
Proof.
  intros e L n [A [B C]] He Hn. repeat split.
  - constructor; [unfold in_file; simpl; lia|].
    eapply Forall_impl; [|exact A]. intros r Hr. eapply in_file_mono; [|exact Hr]. lia.
  - eapply Forall_impl; [|exact A]. unfold in_file, rdisj; simpl; intros; lia.
  - exact B.
  - simpl. lia.
Qed.

Lemma forget_fields : forall s p n,
  eof (forget s p n) = eof s /\ small (forget s p n) = small s /\ medium (forget s p n) = medium s /\
  large (forget s p n) = large s /\ dead (forget s p n) = dead s.
Proof. intros; unfold forget; destruct (take_live p (live s)) as [[r l']|]; simpl; auto. Qed.
Lemma forget_live : forall s p n r l', take_live p (live s) = Some (r, l') -> live (forget s p n) = l'.
Proof. intros; unfold forget; rewrite H; reflexivity. Qed.

Lemma Inv_Core : forall s, Inv s -> Core (eof s) (regions s).
Proof. intros s I; repeat split; [apply I_in|apply I_disj|apply I_total]; auto. Qed.

Lemma free_keeps_Inv : forall s p n, Inv s -> ok_step s (OFree p n) = true -> Inv (free s p n).
Proof.
  intros s p n I Hok. simpl in Hok. destruct (take_live p (live s)) as [[r l']|] eqn:T; [|discriminate].
  apply andb_prop in Hok. destruct Hok as [H0 H1]. apply Z.ltb_lt in H0. apply Z.leb_le in H1.
  destruct (take_live_perm _ _ _ _ T) as [HP Hfr].
  destruct (forget_fields s p n) as [Fe [Fs [Fm [Fl Fd]]]].
  pose proof (forget_live s p n _ _ T) as Flv.
  assert (HC : Core (eof s) (regions (free s p n))).
  { unfold free. pose proof (Inv_Core s I) as C.
    destruct (forget_perm s p n r l' T (conj H0 H1)) as [[P1 [E1 _]]|[P1 [E1 P2]]].
    - eapply Core_perm; [apply free_raw_perm|]. rewrite <- E1 in P1. eapply Core_perm; [exact P1|exact C].
    - eapply Core_perm; [apply free_raw_perm|].
      eapply Core_perm in C; [|exact P1]. destruct C as [A [B D]].
      destruct (split_region p (snd r) n _ (eof s) (conj H0 E1) A B) as [A' [B' D']].
      assert (P3 : Permutation ((p, n) :: (p + n, snd r - n) :: l' ++ free_regions s ++ dead s ++ lost s)
                               ((p, n) :: regions (forget s p n))) by (apply perm_skip; exact P2).
      eapply Core_perm; [exact P3|]. split; [exact A'|split; [exact B'|rewrite D'; exact D]]. }
  destruct HC as [A [B C]].
  destruct (free_raw_lists (forget s p n) p n) as [Ls [Lm Ll]];
    try (rewrite ?Fs, ?Fm, ?Fl; first [apply I_small|apply I_medium|apply I_large]; exact I).
  constructor; unfold free in *; rewrite ?free_raw_eof, ?Fe; auto.
  - apply I_eof; auto.
  - rewrite free_raw_live, Flv. pose proof (I_live s I) as Hl.
    eapply Permutation_Forall in Hl; [|exact HP]. inversion Hl; auto.
Qed.

Lemma live_ok_block_start : forall b n, 0 < n -> live_ok (b * BLK, n).
Proof.
  unfold live_ok; simpl; intros b n Hn Hb.
  replace (b * BLK + n - 1) with (b * BLK + (n - 1)) by lia.
  rewrite blk_start by lia. replace (b * BLK) with (b * BLK + 0) at 1 by lia.
  apply blk_start. unfold BLK; lia.
Qed.

Lemma Inv_build : forall s' e L, eof s' = e -> regions s' = L -> Core e L -> HDR - 1 <= e ->
  fl_wf small_ok (small s') -> fl_wf medium_ok (medium s') -> fl_wf large_ok (large s') ->
  Forall live_ok (live s') -> Inv s'.
Proof.
  intros s' e L He HL [A [B C]] Hh Hs Hm Hl Hv. subst e L. constructor; auto.
Qed.

(* what ADFI_file_malloc does, arm by arm *)
Lemma append_cases : forall s n, 0 < n -> Inv s ->
  let '(s', p, a) := append s n in
  Inv s' /\ eof s < p /\ eof s' = p + n - 1 /\ live s' = (p, n) :: live s /\ live_ok (p, n) /\
  ((a = 1 /\ p = (blk (eof s) + 1) * BLK /\ eof s + 1 < p /\ off (eof s) <> BLK - 1 /\
    p = eof s + 1 + (BLK - off (eof s + 1)) /\
    regions s' = (p, n) :: regions (free_raw s (eof s + 1) (BLK - off (eof s + 1))) /\
    small s' = small (free_raw s (eof s + 1) (BLK - off (eof s + 1))) /\
    medium s' = medium (free_raw s (eof s + 1) (BLK - off (eof s + 1))) /\
    large s' = large (free_raw s (eof s + 1) (BLK - off (eof s + 1))) /\
    dead s' = dead (free_raw s (eof s + 1) (BLK - off (eof s + 1))) /\
    lost s' = lost s) \/
   (a <> 1 /\ p = eof s + 1 /\ regions s' = (p, n) :: regions s /\ small s' = small s /\ medium s' = medium s /\
    large s' = large s /\ dead s' = dead s /\ lost s' = lost s)).
Proof.
  intros s n Hn I. unfold append.
  destruct (blk_off (eof s)) as [He Ho]. pose proof (I_eof s I) as Hh. pose proof (Inv_Core s I) as C.
  destruct (off (eof s) =? BLK - 1) eqn:E0.
  - (* the end of file is the last byte of a block *)
    apply Z.eqb_eq in E0.
    assert (Hp : (blk (eof s) + 1) * BLK = eof s + 1) by lia.
    pose proof (live_ok_block_start (blk (eof s) + 1) n Hn) as Hlo.
    pose proof (Core_grow (eof s) (regions s) n C Hh Hn) as G.
    rewrite Hp in *.
    split; [|split; [lia|split; [simpl; lia|split; [reflexivity|split; [exact Hlo|]]]]].
    + apply (Inv_build _ (eof s + n) ((eof s + 1, n) :: regions s)); auto;
        cbn [eof small medium large live add_live set_eof]; try lia;
        try (first [apply I_small|apply I_medium|apply I_large]; exact I).
      constructor; [exact Hlo|apply I_live; exact I].
    + right. repeat split; auto; lia.
  - apply Z.eqb_neq in E0.
    destruct ((off (eof s) + n >=? BLK) && (n <=? BLK)) eqn:E1.
    + (* block rule: the rest of the block is freed, the allocation starts the next block *)
      apply andb_prop in E1. destruct E1 as [E1 E2]. apply Z.geb_le in E1. apply Z.leb_le in E2.
      assert (Hog : off (eof s + 1) = off (eof s) + 1).
      { replace (eof s + 1) with (blk (eof s) * BLK + (off (eof s) + 1)) by lia. apply off_start. lia. }
      set (gn := BLK - off (eof s + 1)) in *.
      assert (Hp : (blk (eof s) + 1) * BLK = eof s + gn + 1) by (unfold gn; lia).
      assert (Hgn : 0 < gn) by (unfold gn; lia).
      pose proof (live_ok_block_start (blk (eof s) + 1) n Hn) as Hlo.
      assert (C1 : Core (eof s + gn) (regions (free_raw s (eof s + 1) gn))).
      { eapply Core_perm; [apply free_raw_perm|]. apply Core_grow; auto. }
      destruct (free_raw_lists s (eof s + 1) gn (I_small s I) (I_medium s I) (I_large s I)) as [Ls [Lm Ll]].
      pose proof (Core_grow (eof s + gn) _ n C1 ltac:(lia) Hn) as G.
      rewrite Hp in *.
      split; [|split; [lia|split; [simpl; lia|split; [cbn; rewrite free_raw_live; reflexivity|split; [exact Hlo|]]]]].
      * apply (Inv_build _ (eof s + gn + n) ((eof s + gn + 1, n) :: regions (free_raw s (eof s + 1) gn))); auto;
          cbn [eof small medium large live add_live set_eof]; auto; try lia.
        rewrite free_raw_live. constructor; [exact Hlo|apply I_live; exact I].
      * left. repeat split; auto; try lia.
        unfold free_raw; destruct (classify (eof s + 1) gn); reflexivity.
    + (* the allocation goes right behind the end of file *)
      assert (Hlo : live_ok (eof s + 1, n)).
      { unfold live_ok; simpl; intros Hb. apply andb_false_iff in E1.
        assert (off (eof s) + n < BLK).
        { destruct E1 as [E1|E1]; [|apply Z.leb_gt in E1; lia].
          rewrite Z.geb_leb in E1. apply Z.leb_gt in E1. lia. }
        replace (eof s + 1) with (blk (eof s) * BLK + (off (eof s) + 1)) at 1 by lia.
        replace (eof s + 1 + n - 1) with (blk (eof s) * BLK + (off (eof s) + n)) by lia.
        rewrite !blk_start by lia. reflexivity. }
      pose proof (Core_grow (eof s) (regions s) n C Hh Hn) as G.
      split; [|split; [lia|split; [simpl; lia|split; [reflexivity|split; [exact Hlo|]]]]].
      * apply (Inv_build _ (eof s + n) ((eof s + 1, n) :: regions s)); auto;
          cbn [eof small medium large live add_live set_eof]; try lia;
          try (first [apply I_small|apply I_medium|apply I_large]; exact I).
        constructor; [exact Hlo|apply I_live; exact I].
      * right. repeat split; auto; lia.
Qed.
