(* AdfAllocProofs.v -- proofs about AdfAlloc.v (the ADF free-space manager as compiled: growth at end_of_file with the
   block rule, push-only free lists, 'z' dead space).  All statements are for EVERY history (induction over the list
   of operations) or for every state that satisfies the invariant [Inv]. *)
From Coq Require Import ZArith List Bool Lia Permutation.
From CgnsV Require Import AdfAlloc.
Import ListNotations.
Local Open Scope Z_scope.

Local Arguments HDR : simpl never.
Local Arguments BLK : simpl never.
Local Arguments TAG_SIZE : simpl never.
Local Arguments SMALLEST_CHUNK_SIZE : simpl never.
Local Arguments SMALL_CHUNK_MAXIMUM : simpl never.
Local Arguments MEDIUM_CHUNK_MAXIMUM : simpl never.

(* ------------------------------------------------------------------ regions *)
Definition rdisj (a b : region) : Prop := fst a + snd a <= fst b \/ fst b + snd b <= fst a.
Fixpoint pairwise (l : list region) : Prop :=
  match l with [] => True | r :: t => Forall (rdisj r) t /\ pairwise t end.
Definition in_file (e : Z) (r : region) : Prop := HDR <= fst r /\ 0 < snd r /\ fst r + snd r <= e + 1.

Lemma rdisj_sym : forall a b, rdisj a b -> rdisj b a.
Proof. unfold rdisj; intros; lia. Qed.

Lemma pairwise_perm : forall l l', Permutation l l' -> pairwise l -> pairwise l'.
Proof.
  induction 1; simpl; intros; auto.
  - destruct H0; split; auto. eapply Permutation_Forall; eauto.
  - destruct H as [Hy [Hx Hl]]. inversion Hy; subst. repeat split; auto.
    constructor; auto. apply rdisj_sym; auto.
Qed.

Lemma total_perm : forall l l', Permutation l l' -> total l = total l'.
Proof. induction 1; simpl; lia. Qed.

Lemma total_app : forall a b, total (a ++ b) = total a + total b.
Proof. induction a; simpl; intros; [lia|]. rewrite IHa; lia. Qed.

Lemma perm_ins1 : forall (x : region) A R, Permutation (x :: A ++ R) (A ++ x :: R).
Proof. intros; apply Permutation_middle. Qed.
Lemma perm_ins2 : forall (x : region) A B R, Permutation (x :: A ++ B ++ R) (A ++ B ++ x :: R).
Proof. intros. rewrite 2 app_assoc. apply Permutation_middle. Qed.
Lemma perm_ins3 : forall (x : region) A B C R, Permutation (x :: A ++ B ++ C ++ R) (A ++ B ++ C ++ x :: R).
Proof. intros. rewrite (app_assoc B), (app_assoc B C (x :: R)). apply perm_ins2. Qed.
Lemma perm_ins4 : forall (x : region) A B C D R, Permutation (x :: A ++ B ++ C ++ D ++ R) (A ++ B ++ C ++ D ++ x :: R).
Proof. intros. rewrite (app_assoc C), (app_assoc C D (x :: R)). apply perm_ins3. Qed.
Lemma perm_ins5 : forall (x : region) A B C D E R,
  Permutation (x :: A ++ B ++ C ++ D ++ E ++ R) (A ++ B ++ C ++ D ++ E ++ x :: R).
Proof. intros. rewrite (app_assoc D), (app_assoc D E (x :: R)). apply perm_ins4. Qed.

Lemma regions_flat : forall s,
  regions s = live s ++ fl_regions (small s) ++ fl_regions (medium s) ++ fl_regions (large s) ++ dead s ++ lost s.
Proof. intros; unfold regions, free_regions. rewrite <- !app_assoc. reflexivity. Qed.

(* ------------------------------------------------------------------ arithmetic of blocks *)
Lemma blk_off : forall a, a = blk a * BLK + off a /\ 0 <= off a < BLK.
Proof.
  intros; unfold blk, off, BLK. pose proof (Z.div_mod a 4096). pose proof (Z.mod_pos_bound a 4096). lia.
Qed.
Lemma blk_mono : forall a b, a <= b -> blk a <= blk b.
Proof. intros; unfold blk, BLK; apply Z.div_le_mono; lia. Qed.
Lemma blk_start : forall b n, 0 <= n < BLK -> blk (b * BLK + n) = b.
Proof.
  intros; unfold blk, BLK in *. rewrite Z.add_comm, Z.div_add by lia. rewrite Z.div_small; lia.
Qed.
Lemma off_start : forall b n, 0 <= n < BLK -> off (b * BLK + n) = n.
Proof.
  intros; unfold off, BLK in *. rewrite Z.add_comm, Z.mod_add by lia. apply Z.mod_small; lia.
Qed.
Lemma same_blk_dist : forall a b, blk a = blk b -> b - a = off b - off a.
Proof. intros. pose proof (blk_off a); pose proof (blk_off b). nia. Qed.
Lemma blk_between : forall a b c, a <= b <= c -> blk a = blk c -> blk b = blk a.
Proof. intros. pose proof (blk_mono a b); pose proof (blk_mono b c). lia. Qed.

(* ------------------------------------------------------------------ the invariant *)
Definition csize (c : chunk) : Z := snd c + TAG_SIZE - fst c.
Definition small_ok (c : chunk) : Prop :=
  blk (fst c) = blk (snd c) /\ SMALLEST_CHUNK_SIZE < csize c <= SMALL_CHUNK_MAXIMUM.
Definition medium_ok (c : chunk) : Prop :=
  blk (fst c) = blk (snd c) /\ SMALL_CHUNK_MAXIMUM < csize c <= MEDIUM_CHUNK_MAXIMUM + TAG_SIZE - 1.
Definition large_ok (c : chunk) : Prop :=
  blk (fst c) < blk (snd c) /\ SMALLEST_CHUNK_SIZE < csize c.
(* what the large list holds when every free is exact: only chunks of more than a block (the block rule keeps smaller
   allocations inside one block, so they can only reach the small or the medium list) *)
Definition large_strong (c : chunk) : Prop := MEDIUM_CHUNK_MAXIMUM < csize c.
Definition fl_wf (P : chunk -> Prop) (f : flist) : Prop :=
  Forall P (fl_chunks f) /\ fl_last f = last_start (fl_chunks f).
(* the block rule, as a property of what is allocated: nothing of at most a block straddles a block boundary *)
Definition live_ok (r : region) : Prop := snd r <= BLK -> blk (fst r) = blk (fst r + snd r - 1).

Record Inv (s : st) : Prop := mkInv {
  I_eof : HDR - 1 <= eof s;
  I_in : Forall (in_file (eof s)) (regions s);
  I_disj : pairwise (regions s);
  I_total : total (regions s) = eof s + 1 - HDR;
  I_small : fl_wf small_ok (small s);
  I_medium : fl_wf medium_ok (medium s);
  I_large : fl_wf large_ok (large s);
  I_live : Forall live_ok (live s)
}.

Lemma Inv_init : Inv init_st.
Proof.
  constructor; simpl; try (split; [constructor|reflexivity]); auto; try constructor.
  unfold HDR, FILE_HEADER_SIZE, FREE_CHUNK_TABLE_SIZE, NODE_HEADER_SIZE; lia.
Qed.

(* ------------------------------------------------------------------ free lists: push *)
Lemma last_start_cons : forall c l, l <> [] -> last_start (c :: l) = last_start l.
Proof.
  intros c l H. unfold last_start. simpl.
  destruct (rev l) eqn:E.
  - apply (f_equal (@rev _)) in E. rewrite rev_involutive in E. simpl in E. congruence.
  - reflexivity.
Qed.

Lemma push_wf : forall P f p e, fl_wf P f -> P (p, e) -> fl_wf P (push f p e).
Proof.
  intros P f p e [Hc Hl] Hp. unfold push, fl_wf; simpl. split; [constructor; auto|].
  destruct (fl_chunks f) eqn:E; [reflexivity|].
  rewrite last_start_cons by discriminate. exact Hl.
Qed.

Lemma fl_regions_push : forall f p n, fl_regions (push f p (p + n - TAG_SIZE)) = (p, n) :: fl_regions f.
Proof.
  intros. unfold fl_regions, push, chunk_region; simpl. f_equal. f_equal. unfold TAG_SIZE; lia.
Qed.

(* ------------------------------------------------------------------ classify *)
Lemma classify_small : forall p n, classify p n = CSmall -> small_ok (p, p + n - TAG_SIZE).
Proof.
  unfold classify, small_ok, csize; simpl; intros p n.
  destruct (n <=? SMALLEST_CHUNK_SIZE) eqn:E1; [discriminate|].
  destruct (blk p =? blk (p + n - TAG_SIZE)) eqn:E2; [|discriminate].
  destruct (off (p + n - TAG_SIZE) + TAG_SIZE - off p <=? SMALL_CHUNK_MAXIMUM) eqn:E3; [|discriminate].
  intros _. apply Z.leb_gt in E1. apply Z.eqb_eq in E2. apply Z.leb_le in E3.
  pose proof (same_blk_dist _ _ E2). unfold TAG_SIZE in *. split; [auto|lia].
Qed.
Lemma classify_medium : forall p n, classify p n = CMedium -> medium_ok (p, p + n - TAG_SIZE).
Proof.
  unfold classify, medium_ok, csize; simpl; intros p n.
  destruct (n <=? SMALLEST_CHUNK_SIZE) eqn:E1; [discriminate|].
  destruct (blk p =? blk (p + n - TAG_SIZE)) eqn:E2; [|discriminate].
  destruct (off (p + n - TAG_SIZE) + TAG_SIZE - off p <=? SMALL_CHUNK_MAXIMUM) eqn:E3; [discriminate|].
  intros _. apply Z.leb_gt in E3. apply Z.eqb_eq in E2.
  pose proof (same_blk_dist _ _ E2) as D. destruct (blk_off p) as [_ Op]. destruct (blk_off (p + n - TAG_SIZE)) as [_ Oe].
  unfold TAG_SIZE, MEDIUM_CHUNK_MAXIMUM, BLK in *. split; [auto|]. lia.
Qed.
Lemma classify_large : forall p n, classify p n = CLarge -> large_ok (p, p + n - TAG_SIZE).
Proof.
  unfold classify, large_ok, csize; simpl; intros p n.
  destruct (n <=? SMALLEST_CHUNK_SIZE) eqn:E1; [discriminate|].
  destruct (blk p =? blk (p + n - TAG_SIZE)) eqn:E2.
  - destruct (off (p + n - TAG_SIZE) + TAG_SIZE - off p <=? SMALL_CHUNK_MAXIMUM); discriminate.
  - intros _. apply Z.eqb_neq in E2. apply Z.leb_gt in E1.
    unfold SMALLEST_CHUNK_SIZE, NODE_HEADER_SIZE, TAG_SIZE in *.
    assert (blk p <= blk (p + n - 4)) by (apply blk_mono; lia).
    split; lia.
Qed.
Lemma classify_large_strong : forall p n, classify p n = CLarge -> live_ok (p, n) ->
  large_strong (p, p + n - TAG_SIZE).
Proof.
  unfold classify, large_strong, csize, live_ok; simpl; intros p n.
  destruct (n <=? SMALLEST_CHUNK_SIZE) eqn:E1; [discriminate|].
  destruct (blk p =? blk (p + n - TAG_SIZE)) eqn:E2.
  - destruct (off (p + n - TAG_SIZE) + TAG_SIZE - off p <=? SMALL_CHUNK_MAXIMUM); discriminate.
  - intros _ Hl. apply Z.eqb_neq in E2. apply Z.leb_gt in E1.
    unfold SMALLEST_CHUNK_SIZE, NODE_HEADER_SIZE, TAG_SIZE, MEDIUM_CHUNK_MAXIMUM in *.
    destruct (Z_le_gt_dec n BLK) as [Hle|]; [|unfold BLK in *; lia].
    exfalso. apply E2. symmetry. apply (blk_between p (p + n - 4) (p + n - 1)); [lia|auto].
Qed.
Lemma classify_dead : forall p n, classify p n = CDead -> n <= SMALLEST_CHUNK_SIZE.
Proof.
  unfold classify; cbv zeta; intros p n. destruct (n <=? SMALLEST_CHUNK_SIZE) eqn:E.
  - intros _; apply Z.leb_le; auto.
  - destruct (blk p =? blk (p + n - TAG_SIZE)).
    + destruct (off (p + n - TAG_SIZE) + TAG_SIZE - off p <=? SMALL_CHUNK_MAXIMUM); intros H; discriminate H.
    + intros H; discriminate H.
Qed.

(* ------------------------------------------------------------------ free_raw adds exactly one region *)
Lemma free_raw_perm : forall s p n, Permutation ((p, n) :: regions s) (regions (free_raw s p n)).
Proof.
  intros. rewrite !regions_flat. unfold free_raw. destruct (classify p n); cbn [small medium large live dead lost eof].
  - apply perm_ins4.
  - rewrite fl_regions_push. apply perm_ins1.
  - rewrite fl_regions_push. apply perm_ins2.
  - rewrite fl_regions_push. apply perm_ins3.
Qed.
Lemma free_raw_eof : forall s p n, eof (free_raw s p n) = eof s.
Proof. intros; unfold free_raw; destruct (classify p n); reflexivity. Qed.
Lemma free_raw_live : forall s p n, live (free_raw s p n) = live s.
Proof. intros; unfold free_raw; destruct (classify p n); reflexivity. Qed.

Lemma free_raw_lists : forall s p n,
  fl_wf small_ok (small s) -> fl_wf medium_ok (medium s) -> fl_wf large_ok (large s) ->
  fl_wf small_ok (small (free_raw s p n)) /\ fl_wf medium_ok (medium (free_raw s p n)) /\
  fl_wf large_ok (large (free_raw s p n)).
Proof.
  intros s p n Hs Hm Hg. unfold free_raw.
  destruct (classify p n) eqn:E; cbn [small medium large]; (split; [|split]); auto; apply push_wf; auto.
  - apply classify_small; auto.
  - apply classify_medium; auto.
  - apply classify_large; auto.
Qed.

(* ------------------------------------------------------------------ take_live *)
Lemma take_live_perm : forall p l r l', take_live p l = Some (r, l') -> Permutation l (r :: l') /\ fst r = p.
Proof.
  induction l as [|x t IH]; simpl; intros r l' H; [discriminate|].
  destruct (fst x =? p) eqn:E.
  - inversion H; subst. apply Z.eqb_eq in E. split; auto.
  - destruct (take_live p t) as [[r0 t']|] eqn:T; [|discriminate]. inversion H; subst.
    destruct (IH _ _ eq_refl) as [Hp Hf]. split; auto.
    eapply perm_trans; [apply perm_skip; exact Hp|apply perm_swap].
Qed.

Lemma forget_perm : forall s p n r l', take_live p (live s) = Some (r, l') -> 0 < n <= snd r ->
  Permutation (regions s)
    ((p, snd r) :: regions (forget s p n)) /\ n = snd r /\ lost (forget s p n) = lost s
  \/ Permutation (regions s) ((p, snd r) :: l' ++ free_regions s ++ dead s ++ lost s) /\ n < snd r /\
     Permutation ((p + n, snd r - n) :: l' ++ free_regions s ++ dead s ++ lost s) (regions (forget s p n)).
Proof.
  intros s p n r l' H Hn. destruct (take_live_perm _ _ _ _ H) as [Hp Hf].
  assert (Hr : r = (p, snd r)) by (destruct r; simpl in *; subst; reflexivity).
  assert (Hall : Permutation (regions s) ((p, snd r) :: l' ++ free_regions s ++ dead s ++ lost s)).
  { unfold regions. rewrite Hr in Hp. change ((p, snd r) :: l' ++ free_regions s ++ dead s ++ lost s)
      with (((p, snd r) :: l') ++ free_regions s ++ dead s ++ lost s). apply Permutation_app_tail; auto. }
  unfold forget. rewrite H. destruct (n <? snd r) eqn:E.
  - right. apply Z.ltb_lt in E. repeat split; auto. unfold regions, free_regions; simpl.
    rewrite <- !app_assoc. apply perm_ins5.
  - left. apply Z.ltb_ge in E. repeat split; auto; try lia.
Qed.

(* ------------------------------------------------------------------ the core facts about a list of regions *)
Lemma pairwise_cons_inv : forall x l, pairwise (x :: l) -> Forall (rdisj x) l /\ pairwise l.
Proof. simpl; auto. Qed.

Lemma split_region : forall p m n rest e, 0 < n < m ->
  Forall (in_file e) ((p, m) :: rest) -> pairwise ((p, m) :: rest) ->
  Forall (in_file e) ((p, n) :: (p + n, m - n) :: rest) /\ pairwise ((p, n) :: (p + n, m - n) :: rest) /\
  total ((p, n) :: (p + n, m - n) :: rest) = total ((p, m) :: rest).
Proof.
  intros p m n rest e Hn Hin Hd. inversion Hin as [|? ? H1 H2]; subst. destruct Hd as [Hd1 Hd2].
  unfold in_file in H1; simpl in H1.
  split; [|split].
  - constructor; [unfold in_file; simpl; lia|]. constructor; [unfold in_file; simpl; lia|auto].
  - simpl. repeat split; auto.
    + constructor; [unfold rdisj; simpl; lia|].
      eapply Forall_impl; [|exact Hd1]. unfold rdisj; simpl; intros; lia.
    + eapply Forall_impl; [|exact Hd1]. unfold rdisj; simpl; intros; lia.
  - simpl; lia.
Qed.

(* ------------------------------------------------------------------ one step keeps the invariant *)
Definition Core (e : Z) (L : list region) : Prop :=
  Forall (in_file e) L /\ pairwise L /\ total L = e + 1 - HDR.

Lemma in_file_mono : forall e e' r, e <= e' -> in_file e r -> in_file e' r.
Proof. unfold in_file; intros; lia. Qed.

Lemma Core_perm : forall e L L', Permutation L L' -> Core e L -> Core e L'.
Proof.
  intros e L L' P [A [B C]]. repeat split.
  - eapply Permutation_Forall; eauto.
  - eapply pairwise_perm; eauto.
  - rewrite <- (total_perm _ _ P); auto.
Qed.

Lemma Core_grow : forall e L n, Core e L -> HDR - 1 <= e -> 0 < n -> Core (e + n) ((e + 1, n) :: L).
Proof.
  intros e L n [A [B C]] He Hn. repeat split.
  - constructor; [unfold in_file; simpl; lia|].
    eapply Forall_impl; [|exact A]. intros r Hr. eapply in_file_mono; [|exact Hr]. lia.
  - eapply Forall_impl; [|exact A]. unfold in_file, rdisj; simpl; intros; lia.
  - exact B.
  - simpl. lia.
Qed.

Lemma forget_fields : forall s p n,
  eof (forget s p n) = eof s /\ small (forget s p n) = small s /\ medium (forget s p n) = medium s /\
  large (forget s p n) = large s /\ dead (forget s p n) = dead s.
Proof. intros; unfold forget; destruct (take_live p (live s)) as [[r l']|]; simpl; auto. Qed.
Lemma forget_live : forall s p n r l', take_live p (live s) = Some (r, l') -> live (forget s p n) = l'.
Proof. intros; unfold forget; rewrite H; reflexivity. Qed.

Lemma Inv_Core : forall s, Inv s -> Core (eof s) (regions s).
Proof. intros s I; repeat split; [apply I_in|apply I_disj|apply I_total]; auto. Qed.

Lemma free_keeps_Inv : forall s p n, Inv s -> ok_step s (OFree p n) = true -> Inv (free s p n).
Proof.
  intros s p n I Hok. simpl in Hok. destruct (take_live p (live s)) as [[r l']|] eqn:T; [|discriminate].
  apply andb_prop in Hok. destruct Hok as [H0 H1]. apply Z.ltb_lt in H0. apply Z.leb_le in H1.
  destruct (take_live_perm _ _ _ _ T) as [HP Hfr].
  destruct (forget_fields s p n) as [Fe [Fs [Fm [Fl Fd]]]].
  pose proof (forget_live s p n _ _ T) as Flv.
  assert (HC : Core (eof s) (regions (free s p n))).
  { unfold free. pose proof (Inv_Core s I) as C.
    destruct (forget_perm s p n r l' T (conj H0 H1)) as [[P1 [E1 _]]|[P1 [E1 P2]]].
    - eapply Core_perm; [apply free_raw_perm|]. rewrite <- E1 in P1. eapply Core_perm; [exact P1|exact C].
    - eapply Core_perm; [apply free_raw_perm|].
      eapply Core_perm in C; [|exact P1]. destruct C as [A [B D]].
      destruct (split_region p (snd r) n _ (eof s) (conj H0 E1) A B) as [A' [B' D']].
      assert (P3 : Permutation ((p, n) :: (p + n, snd r - n) :: l' ++ free_regions s ++ dead s ++ lost s)
                               ((p, n) :: regions (forget s p n))) by (apply perm_skip; exact P2).
      eapply Core_perm; [exact P3|]. split; [exact A'|split; [exact B'|rewrite D'; exact D]]. }
  destruct HC as [A [B C]].
  destruct (free_raw_lists (forget s p n) p n) as [Ls [Lm Ll]];
    try (rewrite ?Fs, ?Fm, ?Fl; first [apply I_small|apply I_medium|apply I_large]; exact I).
  constructor; unfold free in *; rewrite ?free_raw_eof, ?Fe; auto.
  - apply I_eof; auto.
  - rewrite free_raw_live, Flv. pose proof (I_live s I) as Hl.
    eapply Permutation_Forall in Hl; [|exact HP]. inversion Hl; auto.
Qed.

Lemma live_ok_block_start : forall b n, 0 < n -> live_ok (b * BLK, n).
Proof.
  unfold live_ok; simpl; intros b n Hn Hb.
  replace (b * BLK + n - 1) with (b * BLK + (n - 1)) by lia.
  rewrite blk_start by lia. replace (b * BLK) with (b * BLK + 0) at 1 by lia.
  apply blk_start. unfold BLK; lia.
Qed.

Lemma Inv_build : forall s' e L, eof s' = e -> regions s' = L -> Core e L -> HDR - 1 <= e ->
  fl_wf small_ok (small s') -> fl_wf medium_ok (medium s') -> fl_wf large_ok (large s') ->
  Forall live_ok (live s') -> Inv s'.
Proof.
  intros s' e L He HL [A [B C]] Hh Hs Hm Hl Hv. subst e L. constructor; auto.
Qed.

(* what ADFI_file_malloc does, arm by arm *)
Lemma append_cases : forall s n, 0 < n -> Inv s ->
  let '(s', p, a) := append s n in
  Inv s' /\ eof s < p /\ eof s' = p + n - 1 /\ live s' = (p, n) :: live s /\ live_ok (p, n) /\
  ((a = 1 /\ p = (blk (eof s) + 1) * BLK /\ eof s + 1 < p /\ off (eof s) <> BLK - 1 /\
    p = eof s + 1 + (BLK - off (eof s + 1)) /\
    regions s' = (p, n) :: regions (free_raw s (eof s + 1) (BLK - off (eof s + 1))) /\
    small s' = small (free_raw s (eof s + 1) (BLK - off (eof s + 1))) /\
    medium s' = medium (free_raw s (eof s + 1) (BLK - off (eof s + 1))) /\
    large s' = large (free_raw s (eof s + 1) (BLK - off (eof s + 1))) /\
    dead s' = dead (free_raw s (eof s + 1) (BLK - off (eof s + 1))) /\
    lost s' = lost s) \/
   (a <> 1 /\ p = eof s + 1 /\ regions s' = (p, n) :: regions s /\ small s' = small s /\ medium s' = medium s /\
    large s' = large s /\ dead s' = dead s /\ lost s' = lost s)).
Proof.
  intros s n Hn I. unfold append.
  destruct (blk_off (eof s)) as [He Ho]. pose proof (I_eof s I) as Hh. pose proof (Inv_Core s I) as C.
  destruct (off (eof s) =? BLK - 1) eqn:E0.
  - (* the end of file is the last byte of a block *)
    apply Z.eqb_eq in E0.
    assert (Hp : (blk (eof s) + 1) * BLK = eof s + 1) by lia.
    pose proof (live_ok_block_start (blk (eof s) + 1) n Hn) as Hlo.
    pose proof (Core_grow (eof s) (regions s) n C Hh Hn) as G.
    rewrite Hp in *.
    split; [|split; [lia|split; [simpl; lia|split; [reflexivity|split; [exact Hlo|]]]]].
    + apply (Inv_build _ (eof s + n) ((eof s + 1, n) :: regions s)); auto;
        cbn [eof small medium large live add_live set_eof]; try lia;
        try (first [apply I_small|apply I_medium|apply I_large]; exact I).
      constructor; [exact Hlo|apply I_live; exact I].
    + right. repeat split; auto; lia.
  - apply Z.eqb_neq in E0.
    destruct ((off (eof s) + n >=? BLK) && (n <=? BLK)) eqn:E1.
    + (* block rule: the rest of the block is freed, the allocation starts the next block *)
      apply andb_prop in E1. destruct E1 as [E1 E2]. apply Z.geb_le in E1. apply Z.leb_le in E2.
      assert (Hog : off (eof s + 1) = off (eof s) + 1).
      { replace (eof s + 1) with (blk (eof s) * BLK + (off (eof s) + 1)) by lia. apply off_start. lia. }
      set (gn := BLK - off (eof s + 1)) in *.
      assert (Hp : (blk (eof s) + 1) * BLK = eof s + gn + 1) by (unfold gn; lia).
      assert (Hgn : 0 < gn) by (unfold gn; lia).
      pose proof (live_ok_block_start (blk (eof s) + 1) n Hn) as Hlo.
      assert (C1 : Core (eof s + gn) (regions (free_raw s (eof s + 1) gn))).
      { eapply Core_perm; [apply free_raw_perm|]. apply Core_grow; auto. }
      destruct (free_raw_lists s (eof s + 1) gn (I_small s I) (I_medium s I) (I_large s I)) as [Ls [Lm Ll]].
      pose proof (Core_grow (eof s + gn) _ n C1 ltac:(lia) Hn) as G.
      rewrite Hp in *.
      split; [|split; [lia|split; [simpl; lia|split; [cbn; rewrite free_raw_live; reflexivity|split; [exact Hlo|]]]]].
      * apply (Inv_build _ (eof s + gn + n) ((eof s + gn + 1, n) :: regions (free_raw s (eof s + 1) gn))); auto;
          cbn [eof small medium large live add_live set_eof]; auto; try lia.
        rewrite free_raw_live. constructor; [exact Hlo|apply I_live; exact I].
      * left. repeat split; auto; try lia.
        unfold free_raw; destruct (classify (eof s + 1) gn); reflexivity.
    + (* the allocation goes right behind the end of file *)
      assert (Hlo : live_ok (eof s + 1, n)).
      { unfold live_ok; simpl; intros Hb. apply andb_false_iff in E1.
        assert (off (eof s) + n < BLK).
        { destruct E1 as [E1|E1]; [|apply Z.leb_gt in E1; lia].
          rewrite Z.geb_leb in E1. apply Z.leb_gt in E1. lia. }
        replace (eof s + 1) with (blk (eof s) * BLK + (off (eof s) + 1)) at 1 by lia.
        replace (eof s + 1 + n - 1) with (blk (eof s) * BLK + (off (eof s) + n)) by lia.
        rewrite !blk_start by lia. reflexivity. }
      pose proof (Core_grow (eof s) (regions s) n C Hh Hn) as G.
      split; [|split; [lia|split; [simpl; lia|split; [reflexivity|split; [exact Hlo|]]]]].
      * apply (Inv_build _ (eof s + n) ((eof s + 1, n) :: regions s)); auto;
          cbn [eof small medium large live add_live set_eof]; try lia;
          try (first [apply I_small|apply I_medium|apply I_large]; exact I).
        constructor; [exact Hlo|apply I_live; exact I].
      * right. repeat split; auto; lia.
Qed.

Lemma malloc_spec : forall s n, 0 < n -> Inv s ->
  Inv (fst (malloc s n)) /\ eof s < snd (malloc s n) /\
  eof (fst (malloc s n)) = snd (malloc s n) + n - 1 /\
  live (fst (malloc s n)) = (snd (malloc s n), n) :: live s /\
  live_ok (snd (malloc s n), n) /\
  (snd (malloc s n) = eof s + 1 \/
   off (eof s) <> BLK - 1 /\ snd (malloc s n) = (blk (eof s) + 1) * BLK /\ n <= BLK /\ BLK <= off (eof s) + n).
Proof.
  intros s n Hn I. pose proof (append_cases s n Hn I) as H. unfold malloc.
  destruct (append s n) as [[s' p] a] eqn:E. simpl.
  destruct H as [H1 [H2 [H3 [H4 [H5 H6]]]]].
  split; [exact H1|split; [exact H2|split; [exact H3|split; [exact H4|split; [exact H5|]]]]].
  destruct H6 as [[Ha [Hp [_ [Ho _]]]]|[_ [Hp _]]]; [right|left; exact Hp].
  split; [exact Ho|split; [exact Hp|]].
  unfold append in E. destruct (off (eof s) =? BLK - 1); [inversion E; subst; lia|].
  destruct ((off (eof s) + n >=? BLK) && (n <=? BLK)) eqn:E1; [|inversion E; subst; lia].
  apply andb_prop in E1. destruct E1 as [E1 E2]. apply Z.leb_le in E2. apply Z.geb_le in E1. split; auto.
Qed.

Lemma step_Inv : forall s o, Inv s -> ok_step s o = true -> Inv (step s o).
Proof.
  intros s [n|p n] I Hok; simpl.
  - apply malloc_spec; auto. simpl in Hok. apply Z.ltb_lt; auto.
  - apply free_keeps_Inv; auto.
Qed.

Lemma run_Inv : forall h s, Inv s -> ok_hist s h = true -> Inv (run s h).
Proof.
  induction h as [|o t IH]; simpl; intros s I H; auto.
  apply andb_prop in H. destruct H as [H1 H2]. apply IH; auto. apply step_Inv; auto.
Qed.

(* ------------------------------------------------------------------ consequences of the invariant *)
Lemma pairwise_app : forall a b, pairwise (a ++ b) ->
  pairwise a /\ pairwise b /\ (forall x y, In x a -> In y b -> rdisj x y).
Proof.
  induction a as [|r a IH]; simpl; intros b H.
  - repeat split; auto. intros x y [].
  - destruct H as [H1 H2]. destruct (IH _ H2) as [Ha [Hb Hc]].
    apply Forall_app in H1. destruct H1 as [H1a H1b].
    repeat split; auto. intros x y [Hx|Hx] Hy; [subst x|auto].
    rewrite Forall_forall in H1b. auto.
Qed.

Lemma total_regions : forall s,
  total (regions s) = total (live s) + total (free_regions s) + total (dead s) + total (lost s).
Proof. intros; unfold regions. rewrite !total_app. lia. Qed.

(* (a) no overlap *)
Theorem alloc_no_overlap : forall h, ok_hist init_st h = true ->
  let s := run init_st h in
  pairwise (regions s) /\
  Forall (in_file (eof s)) (regions s) /\
  pairwise (live s) /\
  (forall a b, In a (live s) -> In b (free_regions s ++ dead s ++ lost s) -> rdisj a b) /\
  (forall a, In a (live s) -> HDR <= fst a /\ fst a + snd a <= eof s + 1).
Proof.
  intros h H s. pose proof (run_Inv h init_st Inv_init H) as I. fold s in I.
  pose proof (I_disj s I) as D. pose proof (I_in s I) as F.
  split; [auto|split; [auto|]].
  unfold regions in D. destruct (pairwise_app _ _ D) as [D1 [_ D3]].
  split; [auto|split; [auto|]].
  intros a Ha. rewrite Forall_forall in F. unfold regions in F.
  destruct (F a) as [A [B C]]; [apply in_or_app; auto|]. lia.
Qed.

(* the same for every state that satisfies the invariant (for instance a file written earlier) *)
Theorem alloc_invariant_preserved : forall s h, Inv s -> ok_hist s h = true -> Inv (run s h).
Proof. intros; apply run_Inv; auto. Qed.

(* (b) the free lists *)
Theorem alloc_free_lists_well_formed : forall h, ok_hist init_st h = true ->
  let s := run init_st h in
  fl_wf small_ok (small s) /\ fl_wf medium_ok (medium s) /\ fl_wf large_ok (large s) /\
  pairwise (free_regions s) /\
  Forall (in_file (eof s)) (free_regions s).
Proof.
  intros h H s. pose proof (run_Inv h init_st Inv_init H) as I. fold s in I.
  split; [apply I_small; auto|split; [apply I_medium; auto|split; [apply I_large; auto|]]].
  pose proof (I_disj s I) as D. pose proof (I_in s I) as F. unfold regions in *.
  destruct (pairwise_app _ _ D) as [_ [D2 _]]. destruct (pairwise_app _ _ D2) as [D3 _].
  split; auto. apply Forall_app in F. destruct F as [_ F]. apply Forall_app in F. destruct F; auto.
Qed.

(* (c) conservation *)
Theorem alloc_conservation : forall h, ok_hist init_st h = true ->
  let s := run init_st h in
  total (live s) + total (free_regions s) + total (dead s) + total (lost s) = eof s + 1 - HDR.
Proof.
  intros h H s. pose proof (run_Inv h init_st Inv_init H) as I. fold s in I.
  rewrite <- total_regions. apply I_total; auto.
Qed.

(* (d) malloc: total, at least the bytes asked for, never in space handed out or freed before, block rule *)
Theorem alloc_malloc_total : forall s n, Inv s -> 0 < n ->
  let s' := fst (malloc s n) in let p := snd (malloc s n) in
  Inv s' /\ In (p, n) (live s') /\ eof s < p /\ eof s' = p + n - 1 /\
  Forall (rdisj (p, n)) (regions s) /\
  (n <= BLK -> blk p = blk (p + n - 1)) /\
  (p = eof s + 1 \/ off (eof s) <> BLK - 1 /\ p = (blk (eof s) + 1) * BLK /\ n <= BLK /\ BLK <= off (eof s) + n).
Proof.
  intros s n I Hn s' p. destruct (malloc_spec s n Hn I) as [H1 [H2 [H3 [H4 [H5 H6]]]]].
  fold s' p in H1, H2, H3, H4, H5, H6.
  split; [exact H1|split; [rewrite H4; left; reflexivity|split; [exact H2|split; [exact H3|split; [|split; [exact H5|exact H6]]]]]].
  pose proof (I_in s I) as F. eapply Forall_impl; [|exact F].
  unfold in_file, rdisj; simpl; intros; lia.
Qed.

(* ------------------------------------------------------------------ push-only lists: free space is exactly accounted *)
Fixpoint handed_back (s : st) (h : list op) : list region :=
  match h with
  | [] => []
  | OMalloc n :: t => (match malloc_gap s n with Some g => [g] | None => [] end) ++ handed_back (step s (OMalloc n)) t
  | OFree p n :: t => (p, n) :: handed_back (step s (OFree p n)) t
  end.

Definition free_space (s : st) : list region := free_regions s ++ dead s.

Lemma free_raw_free_space : forall s p n, Permutation ((p, n) :: free_space s) (free_space (free_raw s p n)).
Proof.
  intros. unfold free_space, free_regions, free_raw. rewrite <- !app_assoc.
  destruct (classify p n); cbn [small medium large live dead lost eof].
  - apply perm_ins3.
  - rewrite fl_regions_push. apply perm_nil || apply Permutation_refl.
  - rewrite fl_regions_push. apply perm_ins1.
  - rewrite fl_regions_push. apply perm_ins2.
Qed.

Lemma forget_free_space : forall s p n, free_space (forget s p n) = free_space s.
Proof. intros. unfold free_space, free_regions. destruct (forget_fields s p n) as [_ [A [B [C D]]]]. rewrite A, B, C, D. reflexivity. Qed.

Lemma malloc_free_space : forall s n,
  Permutation ((match malloc_gap s n with Some g => [g] | None => [] end) ++ free_space s) (free_space (fst (malloc s n))).
Proof.
  intros. unfold malloc_gap, malloc_arm, malloc, append.
  destruct (off (eof s) =? BLK - 1); simpl; [apply Permutation_refl|].
  destruct ((off (eof s) + n >=? BLK) && (n <=? BLK)); simpl; [|apply Permutation_refl].
  apply (free_raw_free_space s (eof s + 1) (BLK - off (eof s + 1))).
Qed.

Theorem alloc_free_space_accounted : forall h s,
  Permutation (free_space (run s h)) (rev (handed_back s h) ++ free_space s).
Proof.
  induction h as [|o t IH]; intros s; simpl.
  - apply Permutation_refl.
  - eapply perm_trans; [apply IH|]. destruct o as [n|p n].
    + rewrite rev_app_distr, <- app_assoc. apply Permutation_app_head.
      eapply perm_trans; [apply Permutation_sym, (malloc_free_space s n)|].
      apply Permutation_app_tail. apply Permutation_rev.
    + simpl. rewrite <- app_assoc. apply Permutation_app_head. simpl.
      unfold free. eapply perm_trans; [apply Permutation_sym, free_raw_free_space|].
      rewrite forget_free_space. apply Permutation_refl.
Qed.

(* nothing ever leaves a list, and entries are added at the head only *)
Lemma push_suffix : forall f p e, exists pre, fl_chunks (push f p e) = pre ++ fl_chunks f.
Proof. intros; exists [(p, e)]; reflexivity. Qed.

Definition grows (a b : st) : Prop :=
  (exists x, fl_chunks (small b) = x ++ fl_chunks (small a)) /\
  (exists x, fl_chunks (medium b) = x ++ fl_chunks (medium a)) /\
  (exists x, fl_chunks (large b) = x ++ fl_chunks (large a)) /\
  (exists x, dead b = x ++ dead a) /\ eof a <= eof b.

Lemma grows_refl : forall s, grows s s.
Proof. intros; repeat split; try (exists []; reflexivity); lia. Qed.
Lemma grows_trans : forall a b c, grows a b -> grows b c -> grows a c.
Proof.
  intros a b c [[x1 A1] [[x2 A2] [[x3 A3] [[x4 A4] A5]]]] [[y1 B1] [[y2 B2] [[y3 B3] [[y4 B4] B5]]]].
  repeat split; try lia.
  - exists (y1 ++ x1). rewrite B1, A1, app_assoc; reflexivity.
  - exists (y2 ++ x2). rewrite B2, A2, app_assoc; reflexivity.
  - exists (y3 ++ x3). rewrite B3, A3, app_assoc; reflexivity.
  - exists (y4 ++ x4). rewrite B4, A4, app_assoc; reflexivity.
Qed.
Lemma free_raw_grows : forall s p n, grows s (free_raw s p n).
Proof.
  intros. unfold free_raw. destruct (classify p n); repeat split; cbn [small medium large dead eof push fl_chunks];
    try (exists []; reflexivity); try lia; try (eexists [_]; reflexivity).
Qed.
Lemma forget_grows : forall s p n, grows s (forget s p n).
Proof.
  intros. destruct (forget_fields s p n) as [A [B [C [D E]]]]. unfold grows. rewrite A, B, C, D, E.
  repeat split; try (exists []; reflexivity); lia.
Qed.
Lemma malloc_grows : forall s n, 0 < n -> grows s (fst (malloc s n)).
Proof.
  intros s n Hn. unfold malloc, append. destruct (blk_off (eof s)) as [He Ho].
  destruct (off (eof s) =? BLK - 1) eqn:E0; simpl.
  - apply Z.eqb_eq in E0. repeat split; try (exists []; reflexivity). simpl. lia.
  - destruct ((off (eof s) + n >=? BLK) && (n <=? BLK)) eqn:E1; simpl.
    + destruct (free_raw_grows s (eof s + 1) (BLK - off (eof s + 1))) as [A [B [C [D E]]]].
      repeat split; auto. simpl. lia.
    + repeat split; try (exists []; reflexivity). simpl. lia.
Qed.

Theorem alloc_lists_only_grow : forall h s, ok_hist s h = true -> grows s (run s h).
Proof.
  induction h as [|o t IH]; simpl; intros s H; [apply grows_refl|].
  apply andb_prop in H. destruct H as [H1 H2].
  eapply grows_trans; [|apply IH; exact H2].
  destruct o as [n|p n]; simpl.
  - apply malloc_grows. simpl in H1. apply Z.ltb_lt; auto.
  - unfold free. eapply grows_trans; [apply forget_grows|apply free_raw_grows].
Qed.

(* every range handed back by a caller is the beginning of a live allocation (this is ok_hist, restated) *)
Lemma ok_free_is_live_prefix : forall s p n, ok_step s (OFree p n) = true ->
  exists m, In (p, m) (live s) /\ 0 < n <= m.
Proof.
  intros s p n H. simpl in H. destruct (take_live p (live s)) as [[r l']|] eqn:T; [|discriminate].
  apply andb_prop in H. destruct H as [H0 H1]. apply Z.ltb_lt in H0. apply Z.leb_le in H1.
  destruct (take_live_perm _ _ _ _ T) as [P F]. exists (snd r). split; [|lia].
  eapply Permutation_in; [apply Permutation_sym; exact P|]. left. destruct r; simpl in *; subst; reflexivity.
Qed.

(* ------------------------------------------------------------------ exact frees: nothing is lost, the large list holds large chunks *)
Lemma exact_ok_step : forall s o, exact_step s o = true -> ok_step s o = true.
Proof.
  intros s [n|p n]; simpl; auto. destruct (take_live p (live s)) as [[r l']|]; auto.
  intros H. apply andb_prop in H. destruct H as [H0 H1]. apply Z.eqb_eq in H1. rewrite H0. simpl. apply Z.leb_le. lia.
Qed.
Lemma exact_ok_hist : forall h s, exact_hist s h = true -> ok_hist s h = true.
Proof.
  induction h as [|o t IH]; simpl; intros s H; auto. apply andb_prop in H. destruct H as [H1 H2].
  rewrite (exact_ok_step _ _ H1). simpl. auto.
Qed.

Definition Exact (s : st) : Prop := lost s = [] /\ Forall large_strong (fl_chunks (large s)).

Lemma free_raw_large_strong : forall s p n, live_ok (p, n) -> Forall large_strong (fl_chunks (large s)) ->
  Forall large_strong (fl_chunks (large (free_raw s p n))).
Proof.
  intros s p n Hl H. unfold free_raw. destruct (classify p n) eqn:E; cbn [large]; auto.
  unfold push; simpl. constructor; auto. apply classify_large_strong; auto.
Qed.

Lemma exact_step_Exact : forall s o, Inv s -> Exact s -> exact_step s o = true -> Exact (step s o).
Proof.
  intros s [n|p n] I [HL HG] H; simpl in *.
  - apply Z.ltb_lt in H. pose proof (append_cases s n H I) as A. unfold malloc.
    destruct (append s n) as [[s' q] a]. simpl. destruct A as [_ [_ [_ [_ [_ A]]]]].
    destruct A as [[_ [_ [_ [Ho [Hq [_ [_ [_ [Hlg [_ Hlo]]]]]]]]]]|[_ [_ [_ [_ [_ [Hlg [_ Hlo]]]]]]]].
    + split; [rewrite Hlo; auto|]. rewrite Hlg. apply free_raw_large_strong; auto.
      (* the rest of a block lies inside that block *)
      unfold live_ok; cbn [fst snd]; intros _. destruct (blk_off (eof s)) as [He Hb].
      assert (Hog : off (eof s + 1) = off (eof s) + 1).
      { replace (eof s + 1) with (blk (eof s) * BLK + (off (eof s) + 1)) by lia. apply off_start. lia. }
      rewrite Hog.
      replace (eof s + 1) with (blk (eof s) * BLK + (off (eof s) + 1)) at 1 by lia.
      replace (eof s + 1 + (BLK - (off (eof s) + 1)) - 1) with (blk (eof s) * BLK + (BLK - 1)) by lia.
      rewrite !blk_start by lia. reflexivity.
    + split; [rewrite Hlo; auto|rewrite Hlg; auto].
  - destruct (take_live p (live s)) as [[r l']|] eqn:T; [|discriminate].
    apply andb_prop in H. destruct H as [H0 H1]. apply Z.ltb_lt in H0. apply Z.eqb_eq in H1.
    destruct (take_live_perm _ _ _ _ T) as [P F].
    assert (Hl : live_ok (p, n)).
    { pose proof (I_live s I) as V. eapply Permutation_Forall in V; [|exact P]. inversion V; subst.
      destruct r; simpl in *; subst; auto. }
    unfold free. split.
    + assert (lost (free_raw (forget s p n) p n) = lost (forget s p n)) as -> by (unfold free_raw; destruct (classify p n); reflexivity).
      unfold forget. rewrite T. simpl. rewrite H1, Z.ltb_irrefl. auto.
    + apply free_raw_large_strong; auto. destruct (forget_fields s p n) as [_ [_ [_ [C _]]]]. rewrite C; auto.
Qed.

Theorem alloc_exact_histories : forall h, exact_hist init_st h = true ->
  let s := run init_st h in
  lost s = [] /\
  total (live s) + total (free_regions s) + total (dead s) = eof s + 1 - HDR /\
  Forall large_strong (fl_chunks (large s)).
Proof.
  intros h H s.
  assert (G : forall h s0, Inv s0 -> Exact s0 -> exact_hist s0 h = true -> Exact (run s0 h)).
  { clear. induction h as [|o t IH]; simpl; intros s0 I E H; auto.
    apply andb_prop in H. destruct H as [H1 H2]. apply IH; auto.
    - apply step_Inv; auto. apply exact_ok_step; auto.
    - apply exact_step_Exact; auto. }
  destruct (G h init_st Inv_init (conj eq_refl (Forall_nil _)) H) as [E1 E2]. fold s in E1, E2.
  split; [auto|split; [|auto]].
  pose proof (alloc_conservation h (exact_ok_hist _ _ H)) as C. simpl in C. fold s in C. rewrite E1 in C. simpl in C. lia.
Qed.

(* ------------------------------------------------------------------ characterisations by witness (vm_compute) *)
(* 1. the medium list is not bounded by MEDIUM_CHUNK_MAXIMUM: a chunk of 4098 bytes that starts on a block boundary has the
      START of its end tag in the same block, so it is "small or medium"; its last bytes lie in the next block.
      (two sibling nodes, 2700 and 4078 bytes of data, the second deleted: corpus history "medium-holds-4098") *)
Definition wit_medium : list op :=
  [OMalloc 246; OMalloc 372; OMalloc 246; OMalloc 2720; OMalloc 4098; OFree 4096 4098].
Lemma medium_class_bound_refuted :
  exact_hist init_st wit_medium = true /\
  fl_chunks (medium (run init_st wit_medium)) = [(4096, 8190)] /\
  csize (4096, 8190) = 4098 /\ MEDIUM_CHUNK_MAXIMUM < csize (4096, 8190) /\
  blk 4096 <> blk (4096 + 4098 - 1).
Proof. vm_compute. repeat split; congruence. Qed.

(* 2. a caller that hands back less than it was given loses the rest: without [lost] the books do not balance.
      (ADF_Write_All_Data rewrites a node's single 2279-byte data chunk for 2140 bytes of data; the chunk is later freed by
       its tags: 2160 bytes; corpus history "shrunk-chunk") *)
Definition wit_short : list op := [OMalloc 246; OMalloc 372; OMalloc 2279; OFree 1130 2160].
Lemma conservation_needs_lost_refuted :
  ok_hist init_st wit_short = true /\ exact_hist init_st wit_short = false /\
  let s := run init_st wit_short in
  lost s = [(3290, 119)] /\
  total (live s) + total (free_regions s) + total (dead s) = eof s + 1 - HDR - 119.
Proof. vm_compute. repeat split; congruence. Qed.

(* 3. after a short free the large list may hold a chunk of less than a block (a 5000-byte allocation that straddles
      a block boundary, handed back as 2020 bytes) *)
Definition wit_large : list op := [OMalloc 2488; OMalloc 5000; OFree 3000 2020].
Lemma large_class_bound_refuted :
  ok_hist init_st wit_large = true /\
  fl_chunks (large (run init_st wit_large)) = [(3000, 5016)] /\ csize (3000, 5016) = 2020.
Proof. vm_compute. repeat split; congruence. Qed.

(* 4. freed space is never handed out again: after any number of frees the next allocation lies beyond end_of_file
      (the search of the free lists in ADFI_file_malloc is inside "#if 0") -- a corollary of alloc_malloc_total, shown
      on a history where a fitting free chunk exists *)
Definition wit_noreuse : list op := [OMalloc 246; OMalloc 372; OMalloc 3000; OFree 4096 3000; OMalloc 3000].
Lemma freed_space_is_not_reused :
  exact_hist init_st wit_noreuse = true /\
  positions init_st wit_noreuse = [512; 758; 4096; 8192] /\
  free_regions (run init_st wit_noreuse) = [(7096, 1096); (4096, 3000); (1130, 2966)].
Proof. vm_compute. repeat split; congruence. Qed.

(* non-vacuity: a history that exercises all three arms of ADFI_file_malloc, the four classes, exact frees *)
Definition wit_mixed : list op :=
  [OMalloc 246; OMalloc 372; OMalloc 246; OMalloc 2720; OMalloc 300; OMalloc 3700; OMalloc 200; OMalloc 9000;
   OFree 758 372; OFree 4096 300; OFree 1376 2720; OFree 512 246; OMalloc 1025; OFree 8392 9000; OMalloc 4096].
Lemma wit_mixed_ok :
  exact_hist init_st wit_mixed = true /\ ok_hist init_st wit_mixed = true /\
  positions init_st wit_mixed = [512; 758; 1130; 1376; 4096; 4396; 8192; 8392; 17392; 20480] /\
  let s := run init_st wit_mixed in
  eof s = 24575 /\
  fl_chunks (small s) = [(4096, 4392); (758, 1126)] /\ fl_chunks (medium s) = [(18417, 20476); (1376, 4092)] /\
  fl_chunks (large s) = [(8392, 17388)] /\ dead s = [(512, 246); (8096, 96)] /\
  fl_last (small s) = Some 758 /\ fl_last (medium s) = Some 1376 /\ fl_last (large s) = Some 8392.
Proof. vm_compute. repeat split; congruence. Qed.

(* ================================================================== the disabled search ([malloc_search])
   What the text inside "#if 0" of ADFI_file_malloc would keep true if it were compiled: no overlap and the conservation
   of bytes (the part of the invariant that does not mention the block rule -- a reused chunk may straddle -- nor the
   last_block pointers). *)
Definition CoreInv (s : st) : Prop := Core (eof s) (regions s) /\ HDR - 1 <= eof s.

Lemma free_Core : forall s p n, CoreInv s -> ok_step s (OFree p n) = true -> CoreInv (free s p n).
Proof.
  intros s p n [C Hh] Hok. simpl in Hok. destruct (take_live p (live s)) as [[r l']|] eqn:T; [|discriminate].
  apply andb_prop in Hok. destruct Hok as [H0 H1]. apply Z.ltb_lt in H0. apply Z.leb_le in H1.
  destruct (forget_fields s p n) as [Fe _].
  split; [|unfold free; rewrite free_raw_eof, Fe; exact Hh].
  unfold free. rewrite free_raw_eof, Fe.
  destruct (forget_perm s p n r l' T (conj H0 H1)) as [[P1 [E1 _]]|[P1 [E1 P2]]].
  - eapply Core_perm; [apply free_raw_perm|]. rewrite <- E1 in P1. eapply Core_perm; [exact P1|exact C].
  - eapply Core_perm; [apply free_raw_perm|].
    eapply Core_perm in C; [|exact P1]. destruct C as [A [B D]].
    destruct (split_region p (snd r) n _ (eof s) (conj H0 E1) A B) as [A' [B' D']].
    assert (P3 : Permutation ((p, n) :: (p + n, snd r - n) :: l' ++ free_regions s ++ dead s ++ lost s)
                             ((p, n) :: regions (forget s p n))) by (apply perm_skip; exact P2).
    eapply Core_perm; [exact P3|]. split; [exact A'|split; [exact B'|rewrite D'; exact D]].
Qed.

Lemma malloc_Core : forall s n, CoreInv s -> 0 < n -> CoreInv (fst (malloc s n)).
Proof.
  intros s n [C Hh] Hn. unfold malloc, append. destruct (blk_off (eof s)) as [He Ho].
  destruct (off (eof s) =? BLK - 1) eqn:E0.
  - apply Z.eqb_eq in E0. assert (Hp : (blk (eof s) + 1) * BLK = eof s + 1) by lia.
    cbn [fst]. rewrite Hp. split; [|cbn [eof add_live set_eof]; lia]. cbn [eof add_live set_eof].
    replace (eof s + 1 + n - 1) with (eof s + n) by lia. apply (Core_grow (eof s) (regions s) n C Hh Hn).
  - apply Z.eqb_neq in E0.
    destruct ((off (eof s) + n >=? BLK) && (n <=? BLK)) eqn:E1.
    + assert (Hog : off (eof s + 1) = off (eof s) + 1).
      { replace (eof s + 1) with (blk (eof s) * BLK + (off (eof s) + 1)) by lia. apply off_start. lia. }
      set (gn := BLK - off (eof s + 1)) in *.
      assert (Hp : (blk (eof s) + 1) * BLK = eof s + gn + 1) by (unfold gn; lia).
      assert (Hgn : 0 < gn) by (unfold gn; lia).
      assert (C1 : Core (eof s + gn) (regions (free_raw s (eof s + 1) gn))).
      { eapply Core_perm; [apply free_raw_perm|]. apply Core_grow; auto. }
      pose proof (Core_grow (eof s + gn) _ n C1 ltac:(lia) Hn) as G.
      cbn [fst]. rewrite Hp. split; [|cbn [eof add_live set_eof]; rewrite ?free_raw_eof; lia]. cbn [eof add_live set_eof].
      replace (eof s + gn + 1 + n - 1) with (eof s + gn + n) by lia. exact G.
    + cbn [fst]. split; [|cbn [eof add_live set_eof]; lia]. cbn [eof add_live set_eof].
      apply (Core_grow (eof s) (regions s) n C Hh Hn).
Qed.

Lemma find_fit_perm : forall n l prev c pv l', find_fit n prev l = Some (c, pv, l') ->
  Permutation l (c :: l') /\ n <= csize c.
Proof.
  induction l as [|x t IH]; simpl; intros prev c pv l' H; [discriminate|].
  destruct (snd x + TAG_SIZE - fst x >=? n) eqn:E.
  - inversion H; subst. apply Z.geb_le in E. split; [apply Permutation_refl|unfold csize; lia].
  - destruct (find_fit n (Some (fst x)) t) as [[[c0 pv0] t0]|] eqn:F; [|discriminate].
    inversion H; subst. destruct (IH _ _ _ _ F) as [P S]. split; auto.
    eapply perm_trans; [apply perm_skip; exact P|apply perm_swap].
Qed.

Lemma fl_take_perm : forall n f c f', fl_take n f = Some (c, f') ->
  Permutation (fl_regions f) (chunk_region c :: fl_regions f') /\ n <= csize c.
Proof.
  unfold fl_take; intros n f c f' H.
  destruct (find_fit n None (fl_chunks f)) as [[[c0 pv] l']|] eqn:F; [|discriminate].
  inversion H; subst. destruct (find_fit_perm _ _ _ _ _ _ F) as [P S]. split; auto.
  unfold fl_regions; simpl. change (chunk_region c :: map chunk_region l') with (map chunk_region (c :: l')).
  apply Permutation_map; auto.
Qed.

(* taking a chunk off a list and carving the allocation out of it *)
Lemma carve_Core : forall s s0 c n,
  CoreInv s -> 0 < n -> n <= csize c -> eof s0 = eof s ->
  Permutation (regions s) (chunk_region c :: regions s0) ->
  CoreInv (fst (carve s0 c n)).
Proof.
  intros s s0 c n [C Hh] Hn Hs He P. unfold carve, csize in *.
  eapply Core_perm in C; [|exact P]. unfold chunk_region in C.
  destruct (0 <? snd c + TAG_SIZE - fst c - n) eqn:E.
  - apply Z.ltb_lt in E. destruct C as [A [B D]].
    destruct (split_region (fst c) (snd c + TAG_SIZE - fst c) n (regions s0) (eof s) ltac:(lia) A B) as [A' [B' D']].
    split; [|cbn [fst eof add_live]; rewrite free_raw_eof; lia].
    cbn [fst eof add_live]. rewrite free_raw_eof, He.
    change (regions (add_live (free_raw s0 (fst c + n) (snd c + TAG_SIZE - fst c - n)) (fst c) n))
      with ((fst c, n) :: regions (free_raw s0 (fst c + n) (snd c + TAG_SIZE - fst c - n))).
    eapply Core_perm; [apply perm_skip; apply free_raw_perm|].
    refine (conj A' (conj B' _)). exact (eq_trans D' D).
  - apply Z.ltb_ge in E. assert (Hn' : snd c + TAG_SIZE - fst c = n) by lia.
    split; [|cbn [fst eof add_live]; lia]. cbn [fst eof add_live]. rewrite He.
    change (regions (add_live s0 (fst c) n)) with ((fst c, n) :: regions s0). rewrite <- Hn'. exact C.
Qed.

Lemma set_lists_regions_small : forall s f', regions (set_lists s f' (medium s) (large s)) =
  live s ++ (fl_regions f' ++ fl_regions (medium s) ++ fl_regions (large s)) ++ dead s ++ lost s.
Proof. reflexivity. Qed.

Lemma malloc_search_Core : forall s n, CoreInv s -> 0 < n -> CoreInv (fst (malloc_search s n)).
Proof.
  intros s n I Hn. unfold malloc_search.
  destruct (n <=? SMALLEST_CHUNK_SIZE); [apply malloc_Core; auto|].
  destruct (if n <=? SMALL_CHUNK_MAXIMUM then fl_take n (small s) else None) as [[c f']|] eqn:T1.
  - destruct (n <=? SMALL_CHUNK_MAXIMUM); [|discriminate]. destruct (fl_take_perm _ _ _ _ T1) as [P S].
    apply (carve_Core s); auto. rewrite !regions_flat. cbn [set_lists small medium large live dead lost].
    eapply perm_trans; [|apply Permutation_sym, perm_ins1]. apply Permutation_app_head.
    change (chunk_region c :: fl_regions f' ++ fl_regions (medium s) ++ fl_regions (large s) ++ dead s ++ lost s)
      with ((chunk_region c :: fl_regions f') ++ fl_regions (medium s) ++ fl_regions (large s) ++ dead s ++ lost s).
    apply Permutation_app_tail. exact P.
  - destruct (if n <=? MEDIUM_CHUNK_MAXIMUM then fl_take n (medium s) else None) as [[c f']|] eqn:T2.
    + destruct (n <=? MEDIUM_CHUNK_MAXIMUM); [|discriminate]. destruct (fl_take_perm _ _ _ _ T2) as [P S].
      apply (carve_Core s); auto. rewrite !regions_flat. cbn [set_lists small medium large live dead lost].
      eapply perm_trans; [|apply Permutation_sym, perm_ins2]. do 2 apply Permutation_app_head.
      change (chunk_region c :: fl_regions f' ++ fl_regions (large s) ++ dead s ++ lost s)
        with ((chunk_region c :: fl_regions f') ++ fl_regions (large s) ++ dead s ++ lost s).
      apply Permutation_app_tail. exact P.
    + destruct (fl_take n (large s)) as [[c f']|] eqn:T3; [|apply malloc_Core; auto].
      destruct (fl_take_perm _ _ _ _ T3) as [P S].
      apply (carve_Core s); auto. rewrite !regions_flat. cbn [set_lists small medium large live dead lost].
      eapply perm_trans; [|apply Permutation_sym, perm_ins3]. do 3 apply Permutation_app_head.
      change (chunk_region c :: fl_regions f' ++ dead s ++ lost s)
        with ((chunk_region c :: fl_regions f') ++ dead s ++ lost s).
      apply Permutation_app_tail. exact P.
Qed.

Theorem search_no_overlap_conservation : forall h, ok_hist_search init_st h = true ->
  let s := run_search init_st h in
  pairwise (regions s) /\ Forall (in_file (eof s)) (regions s) /\
  total (live s) + total (free_regions s) + total (dead s) + total (lost s) = eof s + 1 - HDR.
Proof.
  assert (G : forall h s, CoreInv s -> ok_hist_search s h = true -> CoreInv (run_search s h)).
  { induction h as [|o t IH]; simpl; intros s I H; auto.
    apply andb_prop in H. destruct H as [H1 H2]. apply IH; auto.
    destruct o as [n|p n]; simpl.
    - apply malloc_search_Core; auto. simpl in H1. apply Z.ltb_lt; auto.
    - apply free_Core; auto. }
  intros h H s. destruct (G h init_st) as [[A [B C]] _]; auto.
  { split; [apply Inv_Core; apply Inv_init|apply (I_eof _ Inv_init)]. }
  fold s in A, B, C. rewrite <- total_regions. auto.
Qed.

(* and it does reuse: the witness on which the compiled allocator goes to the end of file *)
Lemma search_reuses :
  ok_hist_search init_st wit_noreuse = true /\
  snd (malloc_search (run_search init_st [OMalloc 246; OMalloc 372; OMalloc 3000; OFree 4096 3000]) 3000) = 4096.
Proof. vm_compute. split; reflexivity. Qed.
