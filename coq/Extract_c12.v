(* Extract_c12.v -- extraction of the C12 model (Validate) and of the regenerated table to OCaml.  ExtrOcamlBasic only;
   positive, nat, Z, string, ascii stay extracted inductives.  No Extract Constant / Extract Inductive of our own. *)
From Coq Require Import Extraction ExtrOcamlBasic.
From CgnsV Require Import Gates Validate Gen_C12.
Extraction Language OCaml.
Set Extraction KeepSingleton.
Extraction "extracted/c12/model.ml" Validate.prepare Validate.vanalyse Validate.van_ok Validate.late_names Validate.tolerant_names
  Validate.silent_names12 Validate.unclean_getters Validate.claims_all Validate.mode_gates_all Validate.getter_sample
  Validate.getters_ok_b Validate.addr_macro_ok Validate.vall_parsed_b Validate.revalidating_wrappers Validate.known_late
  Validate.known_tolerant Validate.known_silent Validate.c12_file_ops Validate.unclaimed_all Validate.known_unvalidated Gates.bad_getters Gates.unknown_externs
  Gen_C12.table Gen_C12.externs Gen_C12.mirrors Gen_C12.getters Gen_C12.alloc_pairs Gen_C12.getter_names Gen_C12.addr_macro
  Gen_C12.addr_rows.
