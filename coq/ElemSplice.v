(* ElemSplice.v -- executable transcription of the element-section code of /repo/src/cgnslib.c
   (cg_section_write / cg_poly_section_write / cg_section_partial_write / cg_section_general_write /
    cg_section_initialize, cg_elements_general_write (= cg_elements_partial_write with m_type = cgsize_t),
    cg_poly_elements_general_write (= cg_poly_elements_partial_write), cg_parent_data_write,
    cg_parent_data_partial_write, cg_elements_read, cg_poly_elements_read, cg_elements_partial_read,
    cg_elements_general_read, cg_poly_elements_partial_read, cg_poly_elements_general_read,
    cg_parent_elements_general_read, cg_parent_elements_position_general_read, cg_ElementDataSize,
    cg_ElementPartialSize, cg_section_read) and of cgi_element_data_size / cg_npe / IS_FIXED_SIZE.

   No proofs here.  64-bit build: cgsize_t = I8 = CG_SIZE_DATATYPE.  One section of one zone.

   Conventions.  Arrays are [list Z]; a C array index is a Z offset.  [memcpy dst off src soff n] is
   memcpy(&dst[off], &src[soff], n*sizeof(cgsize_t)); it answers None when any touched index is outside
   the allocated arrays (the C program then has a memory error: outcome RFault, which ASan reports).
   A node on file is the list of its values (its length is the node's dimension); the mirror keeps
   dim_vals[0] separately (s_dim, s_odim, p_dim) exactly as cgns_array does, and caches (connect->data,
   connect_offset->data, parelem->data, parface->data) are [option (list Z)].  Values a C malloc / a node
   created without data would contain are the distinguished value [undef].
   Outcomes: ROk = CG_OK (new mirror+file state, output arrays), RErr = CG_ERROR (state unchanged),
   RFault = the C code reads or writes outside an array.
   Not modelled: ADF2 files (ParentData layout), pre-4.0 file layouts converted by cgi_read_section,
   narrowing of values to 32 bits when the stored type is I4 (values are assumed to fit), malloc failure,
   nbndry. *)
From Coq Require Import ZArith List Bool Lia.
From CgnsV Require Import ListX.
Import ListNotations.
Local Open Scope Z_scope.

Definition undef : Z := -777777777.

Inductive dtype := I4 | I8.
Definition dtype_eqb (a b : dtype) : bool :=
  match a, b with I4, I4 => true | I8, I8 => true | _, _ => false end.
Definition is_size_t (d : dtype) : bool := dtype_eqb d I8.     (* 0 == strcmp(CG_SIZE_DATATYPE, data_type) *)

Inductive res (A : Type) := ROk (a : A) | RErr | RFault.
Arguments ROk {A} a.
Arguments RErr {A}.
Arguments RFault {A}.

(* ---- element types ---------------------------------------------------------------------------------- *)
Definition NODE : Z := 2.
Definition MIXED : Z := 20.
Definition NGON_n : Z := 22.
Definition NFACE_n : Z := 23.
Definition NofValidElementTypes : Z := 57.

(* el_size[] of cg_npe; the index IS the ElementType_t value *)
Definition npe_table : list Z :=
  [0;0;1;2;3;3;6;4;8;9;4;10;5;14;6;15;18;8;20;27;0;13;0;0;4;9;10;12;16;16;20;21;29;30;24;38;40;32;56;64;
   5;12;15;16;25;22;34;35;29;50;55;33;66;75;44;98;125].

Definition invalid_enum (t : Z) : bool := (t <? 0) || (NofValidElementTypes <=? t).
(* cg_npe: None = CG_ERROR (and *npe = -1) *)
Definition cg_npe (t : Z) : option Z := if invalid_enum t then None else Some (nthZ npe_table t 0).
Definition is_fixed_size (t : Z) : bool :=
  ((2 <=? t) && (t <=? 19)) || (t =? 21) || ((24 <=? t) && (t <=? 56)).

(* ---- array primitives -------------------------------------------------------------------------------- *)
Definition slice (l : list Z) (off n : Z) : list Z := firstn (Z.to_nat n) (skipn (Z.to_nat off) l).

Definition memcpy (dst : list Z) (off : Z) (src : list Z) (soff n : Z) : option (list Z) :=
  if (n <? 0) || (off <? 0) || (soff <? 0) || (lenZ dst <? off + n) || (lenZ src <? soff + n) then None
  else Some (firstn (Z.to_nat off) dst ++ slice src soff n ++ skipn (Z.to_nat (off + n)) dst).

(* for (k = 0; k < n; k++) dst[off + k] = v;   (n <= 0: nothing) *)
Definition fill (dst : list Z) (off n v : Z) : option (list Z) :=
  if n <=? 0 then Some dst else
  if (off <? 0) || (lenZ dst <? off + n) then None
  else Some (firstn (Z.to_nat off) dst ++ repeat v (Z.to_nat n) ++ skipn (Z.to_nat (off + n)) dst).

Definition malloc (n : Z) : list Z := repeat undef (Z.to_nat n).

(* cgio_read_data_type / cgio_write_data on a 1-D node, 1-based inclusive file range, contiguous memory.
   None = the back end rejects the range (CG_ERROR). *)
Definition file_read (f : list Z) (s_start s_end : Z) : option (list Z) :=
  if (s_start <? 1) || (s_end <? s_start) || (lenZ f <? s_end) then None
  else Some (slice f (s_start - 1) (s_end - s_start + 1)).
Definition file_write (f : list Z) (s_start s_end : Z) (data : list Z) : option (list Z) :=
  if (s_start <? 1) || (s_end <? s_start) || (lenZ f <? s_end) then None
  else Some (firstn (Z.to_nat (s_start - 1)) f ++ firstn (Z.to_nat (s_end - s_start + 1)) data
             ++ skipn (Z.to_nat s_end) f).

(* a dim0 x 2 column-major node: rows row0+1 .. row0+cnt (0-based row0), both columns *)
Definition read2d (f : list Z) (dim0 row0 cnt : Z) : option (list Z) :=
  if (row0 <? 0) || (cnt <? 1) || (dim0 <? row0 + cnt) || (lenZ f <? 2 * dim0) then None
  else Some (slice f row0 cnt ++ slice f (dim0 + row0) cnt).
(* write memory columns (data[0..cnt), data[mstride..mstride+cnt)) into those rows *)
Definition write2d (f : list Z) (dim0 row0 cnt : Z) (c0 c1 : list Z) : option (list Z) :=
  if (row0 <? 0) || (cnt <? 1) || (dim0 <? row0 + cnt) || (lenZ f <? 2 * dim0) then None
  else Some (firstn (Z.to_nat row0) f ++ firstn (Z.to_nat cnt) c0 ++
             slice f (row0 + cnt) (dim0 - cnt) ++ firstn (Z.to_nat cnt) c1 ++
             skipn (Z.to_nat (dim0 + row0 + cnt)) f).

(* ---- the mirror of one section + its nodes on file ------------------------------------------------- *)
Record parent := mkP {
  p_dim : Z;                       (* parelem->dim_vals[0] = parface->dim_vals[0] *)
  p_pe : list Z;                   (* ParentElements node: p_dim x 2, column major *)
  p_pf : list Z;                   (* ParentElementsPosition node *)
  p_pe_mem : option (list Z);      (* parelem->data *)
  p_pf_mem : option (list Z)       (* parface->data *)
}.

Record section := mkS {
  s_type : Z;                      (* el_type *)
  s_dt : dtype;                    (* connect->data_type (= connect_offset->data_type = parelem->data_type) *)
  s_r0 : Z; s_r1 : Z;              (* range[0], range[1] (mirror and ElementRange node) *)
  s_dim : Z;                       (* connect->dim_vals[0] *)
  s_conn : list Z;                 (* ElementConnectivity node *)
  s_conn_mem : option (list Z);    (* connect->data *)
  s_hasoff : bool;                 (* connect_offset != NULL *)
  s_odim : Z;                      (* connect_offset->dim_vals[0] *)
  s_off : list Z;                  (* ElementStartOffset node *)
  s_off_mem : option (list Z);     (* connect_offset->data *)
  s_par : option parent
}.

Definition set_conn (s : section) (dim : Z) (f : list Z) (m : option (list Z)) : section :=
  mkS (s_type s) (s_dt s) (s_r0 s) (s_r1 s) dim f m (s_hasoff s) (s_odim s) (s_off s) (s_off_mem s) (s_par s).
Definition set_off (s : section) (odim : Z) (f : list Z) (m : option (list Z)) : section :=
  mkS (s_type s) (s_dt s) (s_r0 s) (s_r1 s) (s_dim s) (s_conn s) (s_conn_mem s) (s_hasoff s) odim f m (s_par s).
Definition set_range (s : section) (r0 r1 : Z) : section :=
  mkS (s_type s) (s_dt s) r0 r1 (s_dim s) (s_conn s) (s_conn_mem s) (s_hasoff s) (s_odim s) (s_off s)
      (s_off_mem s) (s_par s).
Definition set_par (s : section) (p : option parent) : section :=
  mkS (s_type s) (s_dt s) (s_r0 s) (s_r1 s) (s_dim s) (s_conn s) (s_conn_mem s) (s_hasoff s) (s_odim s)
      (s_off s) (s_off_mem s) p.

Definition is_none {A} (o : option A) : bool := match o with None => true | Some _ => false end.

(* ---- cgi_element_data_size -------------------------------------------------------------------------- *)
(* the MIXED walk: for (ne = 0; ne < nelems; ne++) { type = connect[size++]; npe = cg_npe(type); size += npe; } *)
Fixpoint mixed_walk (fuel : nat) (connect : list Z) (size : Z) : Z :=
  match fuel with
  | O => size
  | S f =>
      match cg_npe (nthZ connect size undef) with
      | None => -1
      | Some npe => if npe <=? 0 then -1 else mixed_walk f connect (size + 1 + npe)
      end
  end.

(* -1 = error *)
Definition element_data_size (type nelems : Z) (connect connect_offset : option (list Z)) : Z :=
  if type =? MIXED then
    match connect with None => 0 | Some c => mixed_walk (Z.to_nat nelems) c 0 end
  else if (type =? NGON_n) || (type =? NFACE_n) then
    match connect with
    | None => 0
    | Some _ => match connect_offset with
                | None => -1                                  (* version >= 4000 *)
                | Some o => nthZ o nelems undef - nthZ o 0 undef
                end
    end
  else match cg_npe type with
       | None => -1
       | Some npe => if npe <=? 0 then -1 else nelems * npe
       end.

(* ---- section creation --------------------------------------------------------------------------------- *)
Definition section_general_write (type : Z) (edt : dtype) (start end_ eds : Z) : res section :=
  if invalid_enum type then RErr else
  let num := end_ - start + 1 in
  if num <=? 0 then RErr else
  let sized :=
    if is_fixed_size type then
      match cg_npe type with
      | None => None
      | Some elemsize => if elemsize <=? 0 then None else Some (num * elemsize)
      end
    else if eds <? 2 * num then None else Some eds in
  match sized with
  | None => RErr
  | Some eds' =>
      let var := negb (is_fixed_size type) in
      ROk (mkS type edt start end_ eds' (malloc eds') None
               var (if var then num + 1 else 0) (if var then malloc (num + 1) else []) None None)
  end.

(* data[] = (val, 0) x num ; data_offset[] = 0, 2, 4 .. 2 num *)
Fixpoint init_pairs (n : nat) (val : Z) : list Z :=
  match n with O => [] | S k => val :: 0 :: init_pairs k val end.
Fixpoint init_offsets (n : nat) (from : Z) : list Z :=
  match n with O => [from] | S k => from :: init_offsets k (from + 2) end.

Definition section_initialize (s : section) : res section :=
  if is_fixed_size (s_type s) then ROk s else
  let num := s_r1 s - s_r0 s + 1 in
  if num <=? 0 then ROk s else
  if negb (s_hasoff s) then RErr else
  if s_dim s <? 2 * num then RErr else
  let val := if s_type s =? MIXED then NODE else 0 in
  let data := init_pairs (Z.to_nat num) val in
  let data_offset := init_offsets (Z.to_nat num) 0 in
  match file_write (s_off s) 1 (num + 1) data_offset with
  | None => RErr
  | Some foff =>
      match file_write (s_conn s) 1 (2 * num) data with
      | None => RErr
      | Some fconn => ROk (set_conn (set_off s (s_odim s) foff (Some data_offset)) (s_dim s) fconn (s_conn_mem s))
      end
  end.

(* the user buffer [buf] must hold at least n values, otherwise the library reads past its end *)
Definition user_take (buf : list Z) (n : Z) : option (list Z) :=
  if lenZ buf <? n then None else Some (firstn (Z.to_nat n) buf).

Definition section_write (type start end_ : Z) (elements : list Z) : res section :=
  if negb (is_fixed_size type) then RErr else
  match section_general_write type I8 start end_ 0 with
  | ROk s => match user_take elements (s_dim s) with
             | None => RFault
             | Some e => ROk (set_conn s (s_dim s) e None)
             end
  | RErr => RErr | RFault => RFault
  end.

Definition poly_section_write (type start end_ : Z) (elements connect_offset : list Z) : res section :=
  let num := end_ - start + 1 in
  if num <=? 0 then RErr else
  let eds := element_data_size type num (Some elements) (Some connect_offset) in
  if eds <? 0 then RErr else
  match section_general_write type I8 start end_ eds with
  | ROk s =>
      let s1 := if s_hasoff s then
                  match user_take connect_offset (s_odim s) with
                  | None => None
                  | Some o => Some (set_off s (s_odim s) o None)
                  end
                else Some s in
      match s1 with
      | None => RFault
      | Some s1 => match user_take elements (s_dim s1) with
                   | None => RFault
                   | Some e => ROk (set_conn s1 (s_dim s1) e None)
                   end
      end
  | RErr => RErr | RFault => RFault
  end.

Definition section_partial_write (type start end_ : Z) : res section :=
  let num := end_ - start + 1 in
  match cg_npe type with
  | None => RErr
  | Some npe =>
      let elemsize := if npe <=? 0 then 2 else npe in
      match section_general_write type I8 start end_ (num * elemsize) with
      | ROk s => section_initialize s
      | RErr => RErr | RFault => RFault
      end
  end.

(* ---- caches --------------------------------------------------------------------------------------------- *)
(* read_element_data / read_offset_data: load the whole node once *)
Definition read_element_data (s : section) : section * list Z :=
  match s_conn_mem s with
  | Some m => (s, m)
  | None => let m := firstn (Z.to_nat (s_dim s)) (s_conn s) in (set_conn s (s_dim s) (s_conn s) (Some m), m)
  end.
Definition read_offset_data (s : section) : section * list Z :=
  match s_off_mem s with
  | Some m => (s, m)
  | None => let m := firstn (Z.to_nat (s_odim s)) (s_off s) in (set_off s (s_odim s) (s_off s) (Some m), m)
  end.
Definition read_parent_data (p : parent) : parent * list Z * list Z :=
  let pe := match p_pe_mem p with Some m => m | None => firstn (Z.to_nat (2 * p_dim p)) (p_pe p) end in
  let pf := match p_pf_mem p with Some m => m | None => firstn (Z.to_nat (2 * p_dim p)) (p_pf p) end in
  (mkP (p_dim p) (p_pe p) (p_pf p) (Some pe) (Some pf), pe, pf).

(* ---- parent data resize after a splice (tail of cg_elements_general_write and of
        cg_poly_elements_general_write) ------------------------------------------------------------------- *)
(* PCurrent: the code as it is -- "offset = start - section->range[0]" is recomputed AFTER the range was
   updated and used both to place the old rows and to zero the rows of the written elements.
   PFixed: the old rows are placed at the offset saved before the range update
   (start < old range[0] ? old range[0] - start : 0); the written rows are zeroed at start - range[0]. *)
Inductive pvariant := PCurrent | PFixed.

(* for (num = 0, i = 0; i < cnt; i++) { j = i*newsize + offset; for (n = 0; n < oldsize; n++) new[j++] = old[num++]; } *)
Definition place_rows (newelems old : list Z) (newsize oldsize offset : Z) : option (list Z) :=
  match memcpy newelems offset old 0 oldsize with
  | None => None
  | Some a => memcpy a (newsize + offset) old oldsize oldsize
  end.
(* for (i = 0; i < cnt; i++) { j = i*newsize + offset; for (n = start; n <= end; n++) new[j++] = 0; } *)
Definition zero_rows (newelems : list Z) (newsize offset cnt : Z) : option (list Z) :=
  match fill newelems offset cnt 0 with
  | None => None
  | Some a => fill a (newsize + offset) cnt 0
  end.

Definition resize_one (pv : pvariant) (old : list Z) (newsize oldsize saved_offset new_offset cnt : Z)
  : option (list Z) :=
  let newelems := malloc (2 * newsize) in
  match fill newelems 0 (2 * newsize) 0 with
  | None => None
  | Some z =>
      let place_at := match pv with PCurrent => new_offset | PFixed => saved_offset end in
      match place_rows z old newsize oldsize place_at with
      | None => None
      | Some a => zero_rows a newsize new_offset cnt
      end
  end.

(* [saved_offset], [oldsize]: computed from the range BEFORE the update; s already has the new range *)
Definition parent_resize (pv : pvariant) (s : section) (start end_ saved_offset oldsize : Z) : res section :=
  let newsize := s_r1 s - s_r0 s + 1 in
  match s_par s with
  | None => ROk s
  | Some p =>
      if newsize =? p_dim p then ROk s else
      let '(p1, pe, pf) := read_parent_data p in
      let new_offset := start - s_r0 s in
      match resize_one pv pe newsize oldsize saved_offset new_offset (end_ - start + 1) with
      | None => RFault
      | Some npe =>
          match resize_one pv pf newsize oldsize saved_offset new_offset (end_ - start + 1) with
          | None => RFault
          | Some npf => ROk (set_par s (Some (mkP newsize npe npf None None)))
          end
      end
  end.

(* ---- cg_elements_general_write ----------------------------------------------------------------------- *)
Definition obind {A B} (o : option A) (f : A -> option B) : option B :=
  match o with None => None | Some a => f a end.

(* the in-memory splice of fixed-size connectivity: Some (Some new) = built; Some None = "my counting is
   off" (CG_ERROR); None = memory error *)
Definition fixed_splice (elemsize r0 r1 start end_ oldsize : Z) (oldelems elements : list Z)
  : option (option (list Z)) :=
  let eds := elemsize * (end_ - start + 1) in
  let newsize :=
    if end_ <? r0 then
      let num := r0 - end_ - 1 in eds + oldsize + (if 0 <? num then elemsize * num else 0)
    else if r1 <? start then
      let num := start - r1 - 1 in eds + oldsize + (if 0 <? num then elemsize * num else 0)
    else
      eds + (if r0 <=? start then (start - r0) * elemsize else 0)
          + (if end_ <=? r1 then oldsize - (end_ - r0 + 1) * elemsize else 0) in
  let newelems := malloc newsize in
  let built :=
    if start <=? r0 then
      obind (memcpy newelems 0 elements 0 eds) (fun a =>
      let n := eds in
      if end_ <? r0 then
        let num := r0 - end_ - 1 in
        obind (fill a n (elemsize * num) 0) (fun b =>
        let n := n + (if 0 <? num then elemsize * num else 0) in
        obind (memcpy b n oldelems 0 oldsize) (fun c => Some (c, n + oldsize)))
      else if end_ <? r1 then
        let offset := (end_ - r0 + 1) * elemsize in
        let size := oldsize - offset in
        obind (memcpy a n oldelems offset size) (fun c => Some (c, n + size))
      else Some (a, n))
    else if r1 <? start then
      obind (memcpy newelems 0 oldelems 0 oldsize) (fun a =>
      let n := oldsize in
      let num := start - r1 - 1 in
      obind (fill a n (elemsize * num) 0) (fun b =>
      let n := n + (if 0 <? num then elemsize * num else 0) in
      obind (memcpy b n elements 0 eds) (fun c => Some (c, n + eds))))
    else
      let size := (start - r0) * elemsize in
      obind (memcpy newelems 0 oldelems 0 size) (fun a =>
      let n := size in
      obind (memcpy a n elements 0 eds) (fun b =>
      let n := n + eds in
      if end_ <? r1 then
        let offset := (end_ - r0 + 1) * elemsize in
        let size := oldsize - offset in
        obind (memcpy b n oldelems offset size) (fun c => Some (c, n + size))
      else Some (b, n))) in
  match built with
  | None => None
  | Some (a, n) => if n =? newsize then Some (Some a) else Some None
  end.

Definition elements_general_write (pv : pvariant) (s : section) (start end_ : Z) (mt : dtype)
           (elements : list Z) : res section :=
  let num := end_ - start + 1 in
  let type := s_type s in
  if negb (is_fixed_size type) then RErr else
  if num <=? 0 then RErr else
  match cg_npe type with
  | None => RErr
  | Some elemsize =>
  if elemsize <=? 0 then RErr else
  let saved_offset := if start <? s_r0 s then s_r0 s - start else 0 in
  let oldsize := s_r1 s - s_r0 s + 1 in
  let eds := elemsize * (end_ - start + 1) in
  if eds <? 0 then RErr else
  if (s_r0 s <=? start) && (end_ <=? s_r1 s) && is_none (s_conn_mem s) then
    (* can we just use the user's data ? -- WRITE_PART_1D_DATA converts m_type -> s_type *)
    let s_start := elemsize * (start - s_r0 s) + 1 in
    let s_end := elemsize * (end_ - s_r0 s + 1) in
    match user_take elements eds with
    | None => RFault
    | Some e =>
        match file_write (s_conn s) s_start s_end e with
        | None => RErr
        | Some f => parent_resize pv (set_conn s (s_dim s) f None) start end_ saved_offset oldsize
        end
    end
  else
    (* got to do it in memory (the user's array is memcpy'd when m_type is cgsize_t, converted with
       cgi_convert_data otherwise: ElementDataSize values are read from it either way) *)
    let '(s1, oldelems) := read_element_data s in
    match fixed_splice elemsize (s_r0 s) (s_r1 s) start end_ (s_dim s) oldelems elements with
    | None => RFault
    | Some None => RErr
    | Some (Some newelems) =>
        let newsize := lenZ newelems in
        let s2 := set_conn s1 newsize newelems (Some newelems) in
        let s3 := set_range s2 (if start <? s_r0 s then start else s_r0 s)
                               (if s_r1 s <? end_ then end_ else s_r1 s) in
        parent_resize pv s3 start end_ saved_offset oldsize
    end
  end.

(* ---- cg_poly_elements_general_write ------------------------------------------------------------------- *)
(* for (ii = from; ii < to; ii++) { newoffsets[j+1] = (src[ii+1] - src[ii]) + newoffsets[j]; j++; }
   returns the updated array and j; None = index outside an array *)
Fixpoint accum_offsets (cnt : nat) (newoffsets : list Z) (j : Z) (src : list Z) (ii : Z) : option (list Z * Z) :=
  match cnt with
  | O => Some (newoffsets, j)
  | S k =>
      if (ii <? 0) || (lenZ src <=? ii + 1) || (j <? 0) || (lenZ newoffsets <=? j + 1) then None
      else accum_offsets k (updZ newoffsets (j + 1) (nthZ src (ii + 1) undef - nthZ src ii undef + nthZ newoffsets j undef))
                         (j + 1) src (ii + 1)
  end.

(* while (num-- > 0) { newelems[n++] = val; newelems[n++] = 0; newoffsets[j+1] = newoffsets[j] + 2; j++; } *)
Fixpoint gap_fill (cnt : nat) (newelems newoffsets : list Z) (n j val : Z) : option (list Z * list Z * Z * Z) :=
  match cnt with
  | O => Some (newelems, newoffsets, n, j)
  | S k =>
      if (n <? 0) || (lenZ newelems <=? n + 1) || (j <? 0) || (lenZ newoffsets <=? j + 1) then None
      else gap_fill k (updZ (updZ newelems n val) (n + 1) 0)
                      (updZ newoffsets (j + 1) (nthZ newoffsets j undef + 2)) (n + 2) (j + 1) val
  end.

(* section_offset[j+1] += delta for cnt entries starting at j *)
Fixpoint shift_offsets (cnt : nat) (so : list Z) (j delta : Z) : option (list Z) :=
  match cnt with
  | O => Some so
  | S k => if (j <? 0) || (lenZ so <=? j + 1) then None
           else shift_offsets k (updZ so (j + 1) (nthZ so (j + 1) undef + delta)) (j + 1) delta
  end.

(* the in-memory splice of variable-size connectivity: (newelems, newoffsets) ; Some None = CG_ERROR *)
Definition poly_splice (type r0 r1 start end_ : Z) (oldelems section_offset elements connect_offset : list Z)
  : option (option (list Z * list Z)) :=
  let elemsize := 2 in
  let s_range_size := r1 - r0 + 1 in
  let eds := nthZ connect_offset (end_ - start + 1) undef - nthZ connect_offset 0 undef in
  let s_conn_size := nthZ section_offset s_range_size undef - nthZ section_offset 0 undef in
  let val := if type =? MIXED then NODE else 0 in
  let sizes : option (Z * Z) :=       (* newsize, elemcount ; None = CG_ERROR (size < 0) *)
    if end_ <? r0 then
      let num := r0 - end_ - 1 in
      Some (eds + s_conn_size + (if 0 <? num then elemsize * num else 0),
            (end_ - start + 1) + (r1 - r0 + 1) + (if 0 <? num then num else 0))
    else if r1 <? start then
      let num := start - r1 - 1 in
      Some (eds + s_conn_size + (if 0 <? num then elemsize * num else 0),
            (end_ - start + 1) + (r1 - r0 + 1) + (if 0 <? num then num else 0))
    else
      let a := if r0 <=? start then
                 let num := start - r0 in
                 let size := nthZ section_offset num undef - nthZ section_offset 0 undef in
                 if size <? 0 then None else Some (size, num)
               else Some (0, 0) in
      let b := if end_ <=? r1 then
                 let num := end_ - r0 + 1 in
                 let size := nthZ section_offset (r1 - r0 + 1) undef - nthZ section_offset num undef in
                 if size <? 0 then None else Some (size, r1 - end_)
               else Some (0, 0) in
      match a, b with
      | Some (sa, ca), Some (sb, cb) => Some (eds + sa + sb, (end_ - start + 1) + ca + cb)
      | _, _ => None
      end in
  (* "if (offset < 0) return CG_ERROR" of the two tail copies (tested here, before the copies) *)
  let bad_offset := negb (end_ <? r0) && negb (r1 <? start) && (end_ <? r1)
                    && (nthZ section_offset (end_ - r0 + 1) undef <? 0) in
  match sizes with
  | None => Some None
  | Some (newsize, elemcount) =>
  if bad_offset then Some None else
  let newelems := malloc newsize in
  let newoffsets := updZ (malloc (elemcount + 1)) 0 0 in
  let built : option (list Z * list Z * Z) :=
    if start <=? r0 then
      obind (memcpy newelems 0 elements 0 eds) (fun e1 =>
      obind (memcpy newoffsets 0 connect_offset 0 (end_ - start + 2)) (fun o1 =>
      let j := end_ - start + 1 in
      let n := eds in
      if end_ <? r0 then
        let num := r0 - end_ - 1 in
        obind (gap_fill (Z.to_nat num) e1 o1 n j val) (fun '(e2, o2, n, j) =>
        obind (memcpy e2 n oldelems 0 s_conn_size) (fun e3 =>
        obind (accum_offsets (Z.to_nat (r1 - r0 + 1)) o2 j section_offset 0) (fun '(o3, _) =>
        Some (e3, o3, n + s_conn_size))))
      else if end_ <? r1 then
        let num := end_ - r0 + 1 in
        let offset := nthZ section_offset (end_ - r0 + 1) undef in
        let size := nthZ section_offset (r1 - r0 + 1) undef - nthZ section_offset num undef in
        obind (memcpy e1 n oldelems offset size) (fun e2 =>
        obind (accum_offsets (Z.to_nat (r1 - r0 + 1 - num)) o1 j section_offset num) (fun '(o2, _) =>
        Some (e2, o2, n + size)))
      else Some (e1, o1, n)))
    else if r1 <? start then
      obind (memcpy newelems 0 oldelems 0 s_conn_size) (fun e1 =>
      obind (memcpy newoffsets 0 section_offset 0 (r1 - r0 + 2)) (fun o1 =>
      let n := s_conn_size in
      let j := r1 - r0 + 1 in
      let num := start - r1 - 1 in
      obind (gap_fill (Z.to_nat num) e1 o1 n j val) (fun '(e2, o2, n, j) =>
      obind (memcpy e2 n elements 0 eds) (fun e3 =>
      obind (accum_offsets (Z.to_nat (end_ - start + 1)) o2 j connect_offset 0) (fun '(o3, _) =>
      Some (e3, o3, n + eds))))))
    else
      let num := start - r0 in
      let size := nthZ section_offset num undef in
      obind (memcpy newelems 0 oldelems 0 size) (fun e1 =>
      obind (memcpy newoffsets 0 section_offset 0 (num + 1)) (fun o1 =>
      let n := size in
      let j := num in
      obind (memcpy e1 n elements 0 eds) (fun e2 =>
      obind (accum_offsets (Z.to_nat (end_ - start + 1)) o1 j connect_offset 0) (fun '(o2, j) =>
      let n := n + eds in
      if end_ <? r1 then
        let num := end_ - r0 + 1 in
        let offset := nthZ section_offset num undef in
        let size := s_conn_size - offset in
        obind (memcpy e2 n oldelems offset size) (fun e3 =>
        obind (accum_offsets (Z.to_nat (r1 - r0 + 1 - num)) o2 j section_offset num) (fun '(o3, _) =>
        Some (e3, o3, n + size)))
      else Some (e2, o2, n))))) in
  match built with
  | None => None
  | Some (e, o, n) => if n =? newsize then Some (Some (e, o)) else Some None
  end
  end.

Definition poly_elements_general_write (pv : pvariant) (s : section) (start end_ : Z) (mt : dtype)
           (elements input_connect_offset : list Z) : res section :=
  let num := end_ - start + 1 in
  let type := s_type s in
  if is_fixed_size type then RErr else
  if num <=? 0 then RErr else
  if negb (s_hasoff s) then RErr else
  let saved_offset := if start <? s_r0 s then s_r0 s - start else 0 in
  let s_range_size := s_r1 s - s_r0 s + 1 in
  (* the offsets are converted to cgsize_t (num+1 values are read from the user's array) *)
  match user_take input_connect_offset (num + 1) with
  | None => RFault
  | Some connect_offset =>
  let eds := nthZ connect_offset (end_ - start + 1) undef - nthZ connect_offset 0 undef in
  if eds <? 0 then RErr else
  let '(s0, section_offset) := read_offset_data s in
  let r0 := s_r0 s in let r1 := s_r1 s in
  let inside := (r0 <=? start) && (end_ <=? r1) && is_none (s_conn_mem s) in
  let m_conn_size := eds in
  let s_conn_size := nthZ section_offset (end_ - r0 + 1) undef - nthZ section_offset (start - r0) undef in
  if inside && (s_conn_size =? m_conn_size) then
    (* connectivity is of same size: write in place *)
    let fs := nthZ section_offset (start - r0) undef + 1 in
    let fe := nthZ section_offset (end_ - r0 + 1) undef in
    match user_take elements eds with
    | None => RFault
    | Some e =>
        match file_write (s_conn s) fs fe e with
        | None => RErr
        | Some f =>
            match accum_offsets (Z.to_nat (end_ - start + 1)) section_offset (start - r0) connect_offset 0 with
            | None => RFault
            | Some (so, _) =>
                let s1 := set_conn (set_off s0 (s_odim s) (firstn (Z.to_nat (s_odim s)) so) (Some so))
                                   (s_dim s) f None in
                parent_resize pv s1 start end_ saved_offset s_range_size
            end
        end
    end
  else if inside && ((nthZ section_offset s_range_size undef - nthZ section_offset 0 undef)
                     + m_conn_size - s_conn_size <=? s_dim s) then
    (* connectivity size can fit in the reserved file size: relocate the trailing elements on file *)
    let start_trail_reading := end_ - r0 + 1 in
    let m_trail_size := nthZ section_offset s_range_size undef - nthZ section_offset start_trail_reading undef in
    let trail : option (list Z) :=
      if 0 <? m_trail_size then
        file_read (s_conn s) (nthZ section_offset start_trail_reading undef + 1) (nthZ section_offset s_range_size undef)
      else Some [] in
    match trail with
    | None => RErr
    | Some trail_elements =>
        match user_take elements m_conn_size with
        | None => RFault
        | Some e =>
            let base := nthZ section_offset (start - r0) undef in
            match file_write (s_conn s) (base + 1) (base + m_conn_size) e with
            | None => RErr
            | Some f1 =>
                let f2 := if 0 <? m_trail_size then
                            file_write f1 (base + m_conn_size + 1) (base + m_conn_size + m_trail_size) trail_elements
                          else Some f1 in
                match f2 with
                | None => RErr
                | Some f2 =>
                    match accum_offsets (Z.to_nat (end_ - start + 1)) section_offset (start - r0) connect_offset 0 with
                    | None => RFault
                    | Some (so, j) =>
                        match shift_offsets (Z.to_nat (s_range_size - start_trail_reading)) so j (m_conn_size - s_conn_size) with
                        | None => RFault
                        | Some so2 =>
                            let s1 := set_conn (set_off s0 (s_odim s) (firstn (Z.to_nat (s_odim s)) so2) (Some so2))
                                               (s_dim s) f2 None in
                            parent_resize pv s1 start end_ saved_offset s_range_size
                        end
                    end
                end
            end
        end
    end
  else
    (* got to do it in memory *)
    let '(s1, oldelems) := read_element_data s0 in
    match user_take elements eds with
    | None => RFault
    | Some elements' =>
    match poly_splice type r0 r1 start end_ oldelems section_offset elements' connect_offset with
    | None => RFault
    | Some None => RErr
    | Some (Some (newelems, newoffsets)) =>
        let s2 := set_conn s1 (lenZ newelems) newelems (Some newelems) in
        let s3 := set_off s2 (lenZ newoffsets) newoffsets (Some newoffsets) in
        let s4 := set_range s3 (if start <? r0 then start else r0) (if r1 <? end_ then end_ else r1) in
        parent_resize pv s4 start end_ saved_offset s_range_size
    end
    end
  end.

(* ---- parent data ------------------------------------------------------------------------------------------ *)
Definition parent_data_write (s : section) (parent_data : list Z) : res section :=
  let num := s_r1 s - s_r0 s + 1 in
  match user_take parent_data (4 * num) with
  | None => RFault
  | Some pd => ROk (set_par s (Some (mkP num (slice pd 0 (2 * num)) (slice pd (2 * num) (2 * num)) None None)))
  end.

Definition parent_data_partial_write (s : section) (start end_ : Z) (parent_data : list Z) : res section :=
  if (start <? s_r0 s) || (s_r1 s <? end_) || (end_ <? start) then RErr else
  let size := s_r1 s - s_r0 s + 1 in
  let p := match s_par s with
           | None => mkP size (malloc (2 * size)) (malloc (2 * size)) None None
           | Some p => p
           end in
  if negb (size =? p_dim p) then RErr else
  let cnt := end_ - start + 1 in
  match user_take parent_data (4 * cnt) with
  | None => RFault
  | Some pd =>
      match write2d (p_pe p) (p_dim p) (start - s_r0 s) cnt (slice pd 0 cnt) (slice pd cnt cnt),
            write2d (p_pf p) (p_dim p) (start - s_r0 s) cnt (slice pd (2 * cnt) cnt) (slice pd (3 * cnt) cnt) with
      | Some pe, Some pf => ROk (set_par s (Some (mkP (p_dim p) pe pf None None)))
      | _, _ => RErr
      end
  end.

(* ---- reads -------------------------------------------------------------------------------------------------- *)
Definition out := list (list Z).

Definition conn_all (s : section) : list Z :=
  match s_conn_mem s with
  | Some m => if is_size_t (s_dt s) then firstn (Z.to_nat (s_dim s)) m else firstn (Z.to_nat (s_dim s)) (s_conn s)
  | None => firstn (Z.to_nat (s_dim s)) (s_conn s)
  end.

Definition parent_all (s : section) (want : bool) : list (list Z) :=
  match want, s_par s with
  | true, Some p => let num := s_r1 s - s_r0 s + 1 in
                    [firstn (Z.to_nat (2 * num)) (p_pe p) ++ firstn (Z.to_nat (2 * num)) (p_pf p)]
  | _, _ => []
  end.

Definition elements_read (s : section) (want_parent : bool) : res (section * out) :=
  if negb (is_fixed_size (s_type s)) then RErr else
  let num := s_r1 s - s_r0 s + 1 in
  let count := element_data_size (s_type s) num (s_conn_mem s) None in
  if count <? 0 then RErr else
  if negb (count =? 0) && negb (count =? s_dim s) then RErr else
  ROk (s, [conn_all s] ++ parent_all s want_parent).

(* The "double check" of cg_poly_elements_read.
   ROld: before /repo 98748ad -- the cached start offsets were only used when the STORED type is cgsize_t
         (although the cache always holds cgsize_t), so NGON_n/NFACE_n sections stored as I4 failed once cached.
   RCurrent: the code as it is -- the cache is used whatever the stored type; the check still demands
         count == ElementDataSize, which fails when the node holds reserved space (defect
         "poly-read-fails-reserved-slack-cached", notes/C10.md).
   RFixed: the repair proposed in notes/C10.md -- only count > ElementDataSize is an error. *)
Inductive rvariant := ROld | RCurrent | RFixed.

Definition poly_elements_read (rv : rvariant) (s : section) (want_parent : bool) : res (section * out) :=
  let offset_data := match rv with
                     | ROld => if s_hasoff s && is_size_t (s_dt s) then s_off_mem s else None
                     | _ => if s_hasoff s then s_off_mem s else None
                     end in
  let num := s_r1 s - s_r0 s + 1 in
  let count := element_data_size (s_type s) num (s_conn_mem s) offset_data in
  if count <? 0 then RErr else
  if negb (count =? 0) && (match rv with RFixed => s_dim s <? count | _ => negb (count =? s_dim s) end)
  then RErr else
  let offs := if s_hasoff s then
                [match s_off_mem s with
                 | Some m => if is_size_t (s_dt s) then firstn (Z.to_nat (s_odim s)) m
                             else firstn (Z.to_nat (s_odim s)) (s_off s)
                 | None => firstn (Z.to_nat (s_odim s)) (s_off s)
                 end]
              else [] in
  ROk (s, [conn_all s] ++ offs ++ parent_all s want_parent).

(* the parent part shared by cg_elements_partial_read and cg_poly_elements_partial_read *)
Definition parent_partial (s : section) (start end_ : Z) (want : bool) : res (section * list (list Z)) :=
  match want, s_par s with
  | true, Some p =>
      let offset := start - s_r0 s in
      let size := s_r1 s - s_r0 s + 1 in
      let cnt := end_ - start + 1 in
      if is_size_t (s_dt s) then
        match read2d (p_pe p) (p_dim p) offset cnt, read2d (p_pf p) (p_dim p) offset cnt with
        | Some a, Some b => ROk (s, [a ++ b])
        | _, _ => RErr
        end
      else
        let '(p1, pe, pf) := read_parent_data p in
        (* data[j*size + offset ..] : outside the array = memory error *)
        if (offset <? 0) || (lenZ pe <? size + offset + cnt) || (lenZ pf <? size + offset + cnt) then RFault else
        ROk (set_par s (Some p1),
             [slice pe offset cnt ++ slice pe (size + offset) cnt ++ slice pf offset cnt ++ slice pf (size + offset) cnt])
  | _, _ => ROk (s, [])
  end.

Definition elements_partial_read (s : section) (start end_ : Z) (want_parent : bool) : res (section * out) :=
  if negb (is_fixed_size (s_type s)) then RErr else
  if (end_ <? start) || (start <? s_r0 s) || (s_r1 s <? end_) then RErr else
  match cg_npe (s_type s) with
  | None => RErr
  | Some npe =>
  if npe <=? 0 then RErr else
  let first : res (section * list Z) :=
    if is_none (s_conn_mem s) && is_size_t (s_dt s) then
      match file_read (s_conn s) (npe * (start - s_r0 s) + 1) (npe * (end_ - s_r0 s + 1)) with
      | None => RErr
      | Some e => ROk (s, e)
      end
    else
      let '(s1, data) := read_element_data s in
      let offset := npe * (start - s_r0 s) in
      let size := npe * (end_ - start + 1) in
      if lenZ data <? offset + size then RFault else ROk (s1, slice data offset size) in
  match first with
  | ROk (s1, e) =>
      match parent_partial s1 start end_ want_parent with
      | ROk (s2, p) => ROk (s2, [e] ++ p)
      | RErr => RErr | RFault => RFault
      end
  | RErr => RErr | RFault => RFault
  end
  end.

Definition elements_general_read (s : section) (start end_ : Z) (mt : dtype) : res (section * out) :=
  if negb (is_fixed_size (s_type s)) then RErr else
  if (end_ <? start) || (start <? s_r0 s) || (s_r1 s <? end_) then RErr else
  match cg_npe (s_type s) with
  | None => RErr
  | Some npe =>
  if npe <=? 0 then RErr else
  match file_read (s_conn s) (npe * (start - s_r0 s) + 1) (npe * (end_ - s_r0 s + 1)) with
  | None => RErr
  | Some e => ROk (s, [e])
  end
  end.

Definition rebase (l : list Z) : list Z := map (fun x => x - hd 0 l) l.

Definition poly_elements_partial_read (s : section) (start end_ : Z) (want_parent : bool)
  : res (section * out) :=
  if (end_ <? start) || (start <? s_r0 s) || (s_r1 s <? end_) then RErr else
  if negb (s_hasoff s) then RFault else                    (* connect_offset == NULL is dereferenced *)
  let '(s0, tmp) := read_offset_data s in
  let offset := nthZ tmp (start - s_r0 s) undef in
  let last := nthZ tmp (end_ - s_r0 s + 1) undef in
  let size := last - offset in
  let first : res (section * list Z) :=
    if is_none (s_conn_mem s0) && is_size_t (s_dt s0) then
      match file_read (s_conn s0) (offset + 1) last with
      | None => RErr
      | Some e => ROk (s0, e)
      end
    else
      let '(s1, data) := read_element_data s0 in
      if (offset <? 0) || (size <? 0) || (lenZ data <? offset + size) then RFault
      else ROk (s1, slice data offset size) in
  match first with
  | ROk (s1, e) =>
      if lenZ tmp <? end_ - s_r0 s + 2 then RFault else
      let co := rebase (slice tmp (start - s_r0 s) (end_ - start + 2)) in
      match parent_partial s1 start end_ want_parent with
      | ROk (s2, p) => ROk (s2, [e; co] ++ p)
      | RErr => RErr | RFault => RFault
      end
  | RErr => RErr | RFault => RFault
  end.

Definition poly_elements_general_read (s : section) (start end_ : Z) (mt : dtype) : res (section * out) :=
  if (end_ <? start) || (start <? s_r0 s) || (s_r1 s <? end_) then RErr else
  if negb (s_hasoff s) then RFault else
  match file_read (s_off s) (start - s_r0 s + 1) (end_ - s_r0 s + 2) with
  | None => RErr
  | Some co =>
      let offset := hd 0 co in
      let last := nthZ co (end_ - start + 1) undef in
      let size := last - offset in
      if size <? 1 then RErr else
      match file_read (s_conn s) (offset + 1) last with
      | None => RErr
      | Some e => ROk (s, [e; rebase co])
      end
  end.

Definition parent_general_read (face : bool) (s : section) (start end_ : Z) (mt : dtype) : res (section * out) :=
  if (end_ <? start) || (start <? s_r0 s) || (s_r1 s <? end_) then RErr else
  match s_par s with
  | None => RErr
  | Some p =>
      match read2d (if face then p_pf p else p_pe p) (p_dim p) (start - s_r0 s) (end_ - start + 1) with
      | None => RErr
      | Some a => ROk (s, [a])
      end
  end.

Definition element_partial_size (s : section) (start end_ : Z) : res (section * out) :=
  if (end_ <? start) || (start <? s_r0 s) || (s_r1 s <? end_) then RErr else
  if (start =? s_r0 s) && (end_ =? s_r1 s) then ROk (s, [[s_dim s]]) else
  if is_fixed_size (s_type s) then
    let size := element_data_size (s_type s) (end_ - start + 1) None None in
    if size <? 0 then RErr else ROk (s, [[size]])
  else
    if negb (s_hasoff s) then RFault else
    match s_off_mem s with
    | None =>
        match file_read (s_off s) (start - s_r0 s + 1) (end_ - s_r0 s + 2) with
        | None => RErr
        | Some o => let size := nthZ o (end_ - start + 1) undef - hd 0 o in
                    if size <? 0 then RErr else ROk (s, [[size]])
        end
    | Some od =>
        let size := nthZ od (end_ - s_r0 s + 1) undef - nthZ od (start - s_r0 s) undef in
        if size <? 0 then RErr else ROk (s, [[size]])
    end.

(* cg_section_read + cg_ElementDataSize: type, start, end, parent_flag, ElementDataSize *)
Definition section_info (s : section) : list Z :=
  [s_type s; s_r0 s; s_r1 s; (if is_none (s_par s) then 0 else 1); s_dim s].

(* cg_close ; cg_open(CG_MODE_MODIFY): the mirror is rebuilt from the nodes (cgi_read_section, current file
   version): no cache, dimensions from the nodes; the open fails when a parent array does not have one row
   per element. *)
Definition reopen (s : section) : res section :=
  let nelements := s_r1 s - s_r0 s + 1 in
  let par := match s_par s with
             | None => Some None
             | Some p => let d := lenZ (p_pe p) / 2 in
                         if (d =? nelements) && (lenZ (p_pf p) / 2 =? nelements)
                         then Some (Some (mkP d (p_pe p) (p_pf p) None None)) else None
             end in
  match par with
  | None => RErr
  | Some p => ROk (mkS (s_type s) (s_dt s) (s_r0 s) (s_r1 s) (lenZ (s_conn s)) (s_conn s) None
                       (s_hasoff s) (lenZ (s_off s)) (s_off s) None p)
  end.

(* ---- histories ------------------------------------------------------------------------------------------------ *)
Inductive op :=
| OSecWrite (type start end_ : Z) (elements : list Z)
| OPolySecWrite (type start end_ : Z) (elements offsets : list Z)
| OSecPartialWrite (type start end_ : Z)
| OSecGeneralWrite (type : Z) (dt : dtype) (start end_ eds : Z)      (* followed by cg_section_initialize *)
| OElemWrite (mt : dtype) (start end_ : Z) (elements : list Z)
| OPolyWrite (mt : dtype) (start end_ : Z) (elements offsets : list Z)
| OParentWrite (pd : list Z)
| OParentPartialWrite (start end_ : Z) (pd : list Z)
| OInfo
| OPartialSize (start end_ : Z)
| OElemRead (want_parent : bool)
| OPolyRead (want_parent : bool)
| OElemPartialRead (start end_ : Z) (want_parent : bool)
| OPolyPartialRead (start end_ : Z) (want_parent : bool)
| OElemGeneralRead (mt : dtype) (start end_ : Z)
| OPolyGeneralRead (mt : dtype) (start end_ : Z)
| OParentGeneralRead (face : bool) (mt : dtype) (start end_ : Z)
| OReopen.

Definition state := option section.

Definition lift_w (r : res section) : res (state * out) :=
  match r with ROk s => ROk (Some s, []) | RErr => RErr | RFault => RFault end.
Definition lift_r (r : res (section * out)) : res (state * out) :=
  match r with ROk (s, o) => ROk (Some s, o) | RErr => RErr | RFault => RFault end.

Definition step_gen (pv : pvariant) (rv : rvariant) (st : state) (o : op) : res (state * out) :=
  match o, st with
  | OSecWrite t a b e, _ => lift_w (section_write t a b e)
  | OPolySecWrite t a b e f, _ => lift_w (poly_section_write t a b e f)
  | OSecPartialWrite t a b, _ => lift_w (section_partial_write t a b)
  | OSecGeneralWrite t d a b n, _ =>
      lift_w (match section_general_write t d a b n with ROk s => section_initialize s | r => r end)
  | _, None => RErr
  | OElemWrite mt a b e, Some s => lift_w (elements_general_write pv s a b mt e)
  | OPolyWrite mt a b e f, Some s => lift_w (poly_elements_general_write pv s a b mt e f)
  | OParentWrite pd, Some s => lift_w (parent_data_write s pd)
  | OParentPartialWrite a b pd, Some s => lift_w (parent_data_partial_write s a b pd)
  | OInfo, Some s => ROk (Some s, [section_info s])
  | OPartialSize a b, Some s => lift_r (element_partial_size s a b)
  | OElemRead w, Some s => lift_r (elements_read s w)
  | OPolyRead w, Some s => lift_r (poly_elements_read rv s w)
  | OElemPartialRead a b w, Some s => lift_r (elements_partial_read s a b w)
  | OPolyPartialRead a b w, Some s => lift_r (poly_elements_partial_read s a b w)
  | OElemGeneralRead mt a b, Some s => lift_r (elements_general_read s a b mt)
  | OPolyGeneralRead mt a b, Some s => lift_r (poly_elements_general_read s a b mt)
  | OParentGeneralRead f mt a b, Some s => lift_r (parent_general_read f s a b mt)
  | OReopen, Some s => lift_w (reopen s)
  end.

(* THE ONE-LINE SWITCHES: which variant the code in /repo has.
   impl_pvariant: PFixed since /repo commit 4b28a57 (parent rows kept in place when a partial write extends a
   section); PCurrent stays expressible for the historical defect (C10_parent_refuted).
   impl_rvariant: RCurrent = cg_poly_elements_read as it is since /repo 98748ad (defect
   "poly-read-fails-reserved-slack-cached" still present, notes/C10.md); set to RFixed once that repair is applied;
   ROld stays expressible for the historical defect "poly-read-fails-i4-cached". *)
Definition impl_pvariant : pvariant := PFixed.
Definition impl_rvariant : rvariant := RCurrent.

Definition step (st : state) (o : op) : res (state * out) := step_gen impl_pvariant impl_rvariant st o.
Definition step_old_parent (st : state) (o : op) : res (state * out) := step_gen PCurrent impl_rvariant st o.
