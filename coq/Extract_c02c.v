(* Extract_c02c.v -- extraction of the C02c model (AdfChunks) and of the C13 decoders used by the structural tie.
   ExtrOcamlBasic only. *)
From Coq Require Import Extraction ExtrOcamlBasic.
From CgnsV Require Import AdfCodec AdfChunks.
Extraction Language OCaml.
Set Extraction KeepSingleton.
Extraction "extracted/c02c/model.ml"
  AdfChunks.step AdfChunks.st0 AdfChunks.alloc_ok AdfChunks.safe_step AdfChunks.chunks_of AdfChunks.csize
  AdfChunks.live_extents AdfChunks.requests AdfChunks.fa_native AdfChunks.Cur AdfChunks.Before_d6f9e64
  AdfChunks.dget AdfChunks.addr AdfChunks.total_bytes AdfChunks.cap_of AdfChunks.wall_safe AdfChunks.wblock_safe
  AdfChunks.zero_ok AdfChunks.buf_ok AdfChunks.nchunks_ok AdfChunks.esz AdfChunks.read_ptr
  AdfCodec.dec_node_header AdfCodec.dp_dec AdfCodec.repaired AdfCodec.tag4 AdfCodec.tag_DaTa AdfCodec.tag_dEnD
  AdfCodec.tag_DCtb AdfCodec.tag_dcTE.
