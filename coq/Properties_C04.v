(* Properties_C04.v -- exported theorems for C04 ("in modify mode the session view, the file and the edits never
   diverge").  Only statements, each closed by [exact] of a lemma of MirrorProofs.v (or by evaluating a decidable check on
   the tables regenerated from the current sources), each followed by Print Assumptions.

   Reading guide (Mirror.v).  [parent] = one node of a file opened in CG_MODE_MODIFY: the session mirror (one array of
   (name, id, payload) slots per child kind), the file's child list (one ordered list for all kinds) and the id counter.
   [run sk disp s ops] applies a history of OWrite kind name payload (create, or overwrite by name IN THE SAME SLOT while the
   file re-creates the node AT THE END), OUpdate kind name payload (cg_coord_write / cg_field_write ...: create, or rewrite
   the existing DataArray_t node in place), ODelete name (cg_delete_node; [disp] says which dispatcher arm is taken for a node
   of a given kind and name) and OReopen (cg_close + cg_open: the arrays are rebuilt from the file, in file order -- except the kinds k with
   sk k = true, which are ordered by name: the zones and particle zones of a base, [cgns_sorted]).
   OLink kind name id = cg_link_write followed by cg_close + cg_open (section 9; a link child is a child of the kind it
   resolves to whose payload is its identity (file, path)).
   [view_session s k] is what cg_n* / cg_*_info / cg_*_read report for kind k now, [view_file sk s k] what they report
   after a fresh open; [i_run] applies the same history to the ideal tree (a finite map name -> (kind, payload)).
   Hypotheses of the positive theorems:
     ops_ok kok nok ops   the kinds written satisfy kok, the names used satisfy nok
     disp_ok kok nok disp for such kinds and names the dispatcher shifts the array of the node's own kind -- discharged
                          for the CURRENT cg_delete_node by C04_dispatch_sound / C04_content_current_tables
     writes_ok t ops      every write succeeds in the IDEAL tree, i.e. never re-uses a name that a sibling of another
                          kind holds (C04_failed_write_refuted shows what happens otherwise) *)
From Coq Require Import ZArith List String Bool.
From CgnsV Require Import Goto Gen_C11 Mirror MirrorProofs Gen_C04.
Import ListNotations.
Local Open Scope string_scope.
Local Open Scope Z_scope.

(* 1. Content: for EVERY history, from every consistent state: the statuses are those of the ideal tree; the session
      view, the view after a fresh open and the ideal tree agree as finite maps name -> payload for every kind; a fresh
      open reports exactly the file view; no view lists a name twice. *)
Theorem C04_content : forall kok nok sk disp ops s0 t0,
  Inv kok s0 -> Rel s0 t0 -> disp_ok kok nok disp -> ops_ok kok nok ops -> writes_ok t0 ops ->
  let s := fst (run sk disp s0 ops) in
  let t := fst (i_run t0 ops) in
  snd (run sk disp s0 ops) = snd (i_run t0 ops) /\
  (forall k nm, vlookup nm (view_session s k) = i_view t k nm) /\
  (forall k nm, vlookup nm (view_file sk s k) = i_view t k nm) /\
  (forall k, view_session (reopen sk s) k = view_file sk s k) /\
  (forall k, NoDup (map fst (view_session s k))) /\
  (forall k, NoDup (map fst (view_file sk s k))).
Proof. exact content_agree. Qed.
Print Assumptions C04_content.

(* ... the empty parent and the empty ideal tree are such a state; so is every state together with [ideal_of] it *)
Theorem C04_content_initial : forall kok, Inv kok empty_parent /\ Rel empty_parent [].
Proof. exact initial_ok. Qed.
Print Assumptions C04_content_initial.
Theorem C04_content_any_state : forall kok s, Inv kok s -> Rel s (ideal_of s).
Proof. exact Rel_ideal_of. Qed.
Print Assumptions C04_content_any_state.

(* 2. Frame: one operation on one name leaves the payload of EVERY other name of EVERY kind as it was, in the session
      view and in the view after a fresh open (no sibling is altered, hidden, duplicated or removed). *)
Theorem C04_frame : forall kok nok sk disp s t o,
  Inv kok s -> Rel s t -> disp_ok kok nok disp -> op_names_ok kok nok o = true ->
  write_succeeds t o ->
  forall k' nm', op_name o <> Some nm' ->
    vlookup nm' (view_session (fst (step sk disp s o)) k') = vlookup nm' (view_session s k') /\
    vlookup nm' (view_file sk (fst (step sk disp s o)) k') = vlookup nm' (view_file sk s k').
Proof. exact step_frame. Qed.
Print Assumptions C04_frame.

(* 3. Indices: for the histories over kinds that are not sorted on read (everything but the zones and particle zones
      of a base) that overwrite an existing sibling only when it is the LAST of its kind, the session view and the
      view after a fresh open are equal AS LISTS (same indices) ... *)
Theorem C04_order : forall kok nok sk disp ops s0 t0,
  Inv kok s0 -> Rel s0 t0 -> OrdInv sk s0 -> disp_ok kok nok disp -> unsorted_kinds kok sk ->
  ops_ok kok nok ops -> writes_ok t0 ops ->
  hist_order_safe sk disp s0 ops = true ->
  forall k, sk k = false -> view_session (fst (run sk disp s0 ops)) k = view_file sk (fst (run sk disp s0 ops)) k.
Proof. exact order_views. Qed.
Print Assumptions C04_order.

(*    ... and not otherwise: solutions S1,S2,S3, overwrite S1 -- the session keeps index 1, a fresh open reports 3.
      (By design of CGNS: the slot is re-used, the database appends.  Replayed on the library by checks/C04.py.) *)
Theorem C04_order_refuted :
  writes_ok [] order_witness /\
  let s := fst (run no_sort all_shift empty_parent order_witness) in
  vindex "S1" (view_session s K_SOL) = Some 0%nat /\
  vindex "S1" (view_session (reopen no_sort s) K_SOL) = Some 2%nat /\
  view_session s K_SOL = [("S1", 4); ("S2", 2); ("S3", 3)] /\
  view_file no_sort s K_SOL = [("S2", 2); ("S3", 3); ("S1", 4)].
Proof. exact order_refuted. Qed.
Print Assumptions C04_order_refuted.

(*    ... nor for the zones of a base, which cgi_read_base orders by name: create Zc, then Za (no overwrite at all) --
      Za has index 2 in the session and index 1 after a fresh open.  (Documented behaviour; replayed as well.) *)
Theorem C04_zone_sort_refuted :
  writes_ok [] zone_sort_witness /\
  hist_order_safe base_sort all_shift empty_parent zone_sort_witness = true /\
  let s := fst (run base_sort all_shift empty_parent zone_sort_witness) in
  vindex "Za" (view_session s K_ZONE) = Some 1%nat /\
  vindex "Za" (view_session (reopen base_sort s) K_ZONE) = Some 0%nat /\
  view_file base_sort s K_ZONE = [("Za", 4); ("Zc", 3)].
Proof. exact zone_sort_refuted. Qed.
Print Assumptions C04_zone_sort_refuted.

(* 4. What the hypothesis writes_ok excludes: a write that re-uses the name of a sibling of another kind fails in the
      database AFTER the array was extended -- the session then lists an entity the file does not hold. *)
Theorem C04_failed_write_refuted :
  let r := run no_sort all_shift empty_parent phantom_witness in
  snd r = [0; 1] /\
  vlookup "S2" (view_session (fst r) K_DISC) = Some 7 /\
  vlookup "S2" (view_file no_sort (fst r) K_DISC) = None /\
  snd (i_run [] phantom_witness) = [0; 1].
Proof. exact failed_write_phantom. Qed.
Print Assumptions C04_failed_write_refuted.

(* 5. HISTORICAL (the defects repaired in /repo by e5d5bea and 627245e; C04_no_shadowed_arm and
      C04_every_position_has_a_block below state that the current sources are free of them).  What the hypothesis
      disp_ok excludes: when the dispatcher takes another arm than the one of the node's kind (a reserved name tested
      before the label, a parent label without a block) the file node is deleted, the status is CG_OK and the session
      still lists the sibling. *)
Theorem C04_historical_wrong_arm_diverges :
  let r := run no_sort wrong_arm empty_parent [OWrite "UserDefinedData_t" "DataClass" 5; ODelete "DataClass"] in
  snd r = [0; 0] /\
  vlookup "DataClass" (view_session (fst r) "UserDefinedData_t") = Some 5 /\
  vlookup "DataClass" (view_file no_sort (fst r) "UserDefinedData_t") = None.
Proof. exact shadowed_delete_diverges. Qed.
Print Assumptions C04_historical_wrong_arm_diverges.

(* 6. The dispatcher of cg_delete_node, for ANY table: a node of a sound kind whose name is not reserved is removed
      from the array of its own kind; with a reserved name, either the (parent, kind, name) triple is listed by
      [shadowed_at] (checks/C04.py replays every listed triple on the library) or the node is removed / refused. *)
Theorem C04_dispatch_sound : forall dt nd gt pl nl nn,
  In nl (sound_kinds dt nd gt pl) -> ~ In nn (reserved_names dt nd pl) -> disp_of dt nd gt pl nl nn = DShift nl.
Proof. exact dispatch_sound. Qed.
Print Assumptions C04_dispatch_sound.

Theorem C04_dispatch_reserved : forall dt nd gt pl nl nn,
  In nl (sound_kinds dt nd gt pl) -> ~ In (pl, nl, nn) (shadowed_at dt nd gt pl) ->
  disp_of dt nd gt pl nl nn = DShift nl \/ disp_of dt nd gt pl nl nn = DRefuse.
Proof. exact dispatch_reserved. Qed.
Print Assumptions C04_dispatch_reserved.

(* 7. The tables regenerated from the CURRENT sources (Gen_C04.v from cgnslib.c / cgns_internals.c / cgns_header.h,
      Gen_C11.v for the goto table and the struct declarations):
      - every arm of the dispatcher is classified (no Unparsed row), the preamble has the modelled order, the two macros
        have the transcribed text;
      - every Shift arm names a (count, array) pair declared adjacently in the struct the block casts posit->posit to, and
        frees the slot with the free function of the array's element type; every Child arm likewise;
      - the cast of every block is the struct type the goto table pushes under the block's labels;
      - for every (parent, child label) the goto table walks with a name loop, the label arm of the dispatcher shifts
        the SAME (count, array) pair (or the label is refused). *)
Theorem C04_delete_table_consistent :
  delete_table_ok structs goto_table free_sigs preamble dispatch_tail macro_shift macro_child not_deletable delete_table = true.
Proof. vm_compute. reflexivity. Qed.
Print Assumptions C04_delete_table_consistent.

(*    - every explicit overwrite loop of a cg_*_write uses ONE (count, array) pair in all fourteen places of the
        template (loop bound, name compared, id deleted, slot re-used, "not found" test, the two allocations, slot
        appended, count incremented), the pair belongs to a struct, and the slot is freed with the free function of the
        element type; the overwrite tail of every cgi_*_address frees the struct it deletes and returns. *)
Theorem C04_write_table_consistent : write_table_ok structs free_sigs write_table = true.
Proof. vm_compute. reflexivity. Qed.
Print Assumptions C04_write_table_consistent.

Theorem C04_addr_tails_consistent : addr_tails_ok free_sigs addr_tails = true.
Proof. vm_compute. reflexivity. Qed.
Print Assumptions C04_addr_tails_consistent.

(*    - selectors of the single children (seeded change C04-3: the ZoneIterativeData_t arm made to test the default NAME).
        [child_names] (regenerated: the cgi_new_node rows of translators/c01_templates.py, with `X->name` resolved inside
        the writer) says under which names each (parent, child label) is ever created -- fixed literals, or chosen by the
        caller; [reader_name_tests] are the names cgi_read_* itself compares with.  For every single child (label, pointer
        field) the goto table knows and some arm frees: a fixed-name kind is freed under its literal name(s) and under no
        other pointer; a caller-named kind (BaseIterativeData_t, ZoneIterativeData_t, ParticleIterativeData_t) is freed by
        the arm the LABEL alone selects; a by-name arm is otherwise right only for names the reader identifies the child
        by; and every name any arm compares with is such a fixed or reader name. *)
Theorem C04_single_children_selected_consistently :
  singles_ok child_names reader_name_tests delete_table not_deletable goto_table = true.
Proof. vm_compute. reflexivity. Qed.
Print Assumptions C04_single_children_selected_consistently.

(*      For ANY tables: the arm that frees a single child whose label arm exists fires for the node of that label whatever
        the caller named it, and a node of any label with an unreserved name is dispatched as its label alone says (so
        the arm fires for no other kind); with a reserved name the child is freed, refused, or the triple is listed by
        [shadowed_singles] (each listed triple is replayed on the library by checks/C04.py). *)
Theorem C04_single_dispatch_sound : forall dt nd pl nl ptr nn,
  smem ptr (disp_single_lab dt nd pl nl) = true -> ~ In nn (reserved_names dt nd pl) ->
  smem ptr (disp_single dt nd pl nl nn) = true.
Proof. exact single_dispatch_sound. Qed.
Print Assumptions C04_single_dispatch_sound.

Theorem C04_single_dispatch_only : forall dt nd pl nl' nn,
  ~ In nn (reserved_names dt nd pl) -> disp_single dt nd pl nl' nn = disp_single_lab dt nd pl nl'.
Proof. exact single_dispatch_only. Qed.
Print Assumptions C04_single_dispatch_only.

Theorem C04_single_dispatch_reserved : forall cn rnt dt nd gt pl nl ptr nn,
  In (pl, nl, ptr) (label_freed_singles cn rnt dt nd gt) -> ~ In (pl, nl, nn) (shadowed_singles cn rnt dt nd gt) ->
  smem ptr (disp_single dt nd pl nl nn) = true \/ refused nd pl nl nn = true.
Proof. exact single_dispatch_reserved. Qed.
Print Assumptions C04_single_dispatch_reserved.

(*    - a writer that may be handed a RE-USED slot (every X = cgi_*_address(CG_MODE_WRITE ...) writer: single children such
        as ReferenceState_t, ConvergenceHistory_t, FlowEquationSet_t and its models, RotatingCoordinates_t, units,
        exponents ..., and the node-context multi-sibling writers) sets every field of the struct again, or its count,
        or memsets it -- so nothing of the replaced entity survives in the session (seeded change C04-2: dropping
        `state->data_class = DataClassNull` from cg_state_write makes this false).  [reinit_open_gaps] names the one
        place where the current sources do not (cg_units_write, finding overwrite-keeps-attribute:DimensionalUnits_t:un). *)
Theorem C04_overwrite_reinitialises_every_field : reinit_ok structs reinit_rows = true.
Proof. vm_compute. reflexivity. Qed.
Print Assumptions C04_overwrite_reinitialises_every_field.

(*    - reading a file orders by name exactly the zones and the particle zones of a base (the two qsort calls of
        cgi_read_base with the strcmp comparator; cgi_sort_names has no caller): the [cgns_sorted] of the model. *)
Theorem C04_sorting_consistent : sorting_ok sort_calls sort_comparator sort_names_callers = true.
Proof. vm_compute. reflexivity. Qed.
Print Assumptions C04_sorting_consistent.

(*    - positive facts about the CURRENT sources, each the repair of a defect this property found (notes/C04.md); a
        change that re-introduces such a row breaks the obligation:
        no node-context writer keeps the id of the node it creates out of the slot (a8c4c3e: cg_multifam_write), *)
Theorem C04_no_stale_id_rows : bad_nrows ctx_writers = [].
Proof. vm_compute. reflexivity. Qed.
Print Assumptions C04_no_stale_id_rows.

(*      every position the goto machinery reaches and that can hold children has a block in cg_delete_node (627245e:
        ParticleIterativeData_t), and for every such position every candidate kind is shifted in its own array or refused, *)
Theorem C04_every_position_has_a_block :
  parents_without_block delete_table goto_table = [] /\
  forallb (fun p => match unsound_kinds delete_table not_deletable goto_table p with [] => true | _ => false end)
          (all_positions goto_table) = true.
Proof. vm_compute. split; reflexivity. Qed.
Print Assumptions C04_every_position_has_a_block.

(*      no name-selected arm shadows the label arm of a sibling kind (e5d5bea: UserDefinedData_t, Family_t,
        ConvergenceHistory_t, ReferenceState_t) ... *)
Theorem C04_no_shadowed_arm : shadowed delete_table not_deletable goto_table = [].
Proof. vm_compute. reflexivity. Qed.
Print Assumptions C04_no_shadowed_arm.

(*      ... hence, with the dispatcher the sources contain now, a sibling of a sound kind is removed from the array of
        its own kind or refused WHATEVER its name (reserved words included). *)
Theorem C04_dispatch_total_current_tables : forall pl nl nn,
  In pl (all_positions goto_table) -> In nl (sound_kinds delete_table not_deletable goto_table pl) ->
  disp_of delete_table not_deletable goto_table pl nl nn = DShift nl \/
  disp_of delete_table not_deletable goto_table pl nl nn = DRefuse.
Proof. exact (dispatch_total delete_table not_deletable goto_table C04_no_shadowed_arm). Qed.
Print Assumptions C04_dispatch_total_current_tables.

(* 8. Together: under ANY parent label, with the dispatcher cg_delete_node contains NOW, every history over the sound
      kinds of that parent and unreserved names keeps the three views in agreement. *)
Theorem C04_content_current_tables : forall pl sk ops,
  let kok := fun k => smem k (sound_kinds delete_table not_deletable goto_table pl) in
  let nok := fun nm => negb (smem nm (reserved_names delete_table not_deletable pl)) in
  let disp := disp_of delete_table not_deletable goto_table pl in
  ops_ok kok nok ops -> writes_ok [] ops ->
  let s := fst (run sk disp empty_parent ops) in
  let t := fst (i_run [] ops) in
  snd (run sk disp empty_parent ops) = snd (i_run [] ops) /\
  (forall k nm, vlookup nm (view_session s k) = i_view t k nm) /\
  (forall k nm, vlookup nm (view_file sk s k) = i_view t k nm) /\
  (forall k, view_session (reopen sk s) k = view_file sk s k) /\
  (forall k, NoDup (map fst (view_session s k))) /\
  (forall k, NoDup (map fst (view_file sk s k))).
Proof. exact (content_tables delete_table not_deletable goto_table). Qed.
Print Assumptions C04_content_current_tables.

(* non-vacuity: a concrete history (creations of two kinds, overwrite of a last sibling, deletions, a reopen, a delete
   of an absent name) meets every hypothesis; the sound kinds of a zone under the current tables are not empty *)
Example C04_sample_history :
  ops_ok (fun _ => true) (fun _ => true) sample_history /\ writes_ok [] sample_history /\
  hist_order_safe no_sort all_shift empty_parent sample_history = true /\
  view_session (fst (run no_sort all_shift empty_parent sample_history)) K_SOL = [("B", 20); ("C", 30); ("E", 5)] /\
  snd (run no_sort all_shift empty_parent sample_history) = [0; 0; 0; 0; 0; 0; 0; 0; 0; 1; 0].
Proof. exact sample_history_ok. Qed.

Example C04_zone_kinds_nonempty :
  smem "FlowSolution_t" (sound_kinds delete_table not_deletable goto_table "Zone_t") = true /\
  smem "Elements_t" (sound_kinds delete_table not_deletable goto_table "Zone_t") = true /\
  smem "Zone_t" (sound_kinds delete_table not_deletable goto_table "CGNSBase_t") = true /\
  negb (smem "Sol1" (reserved_names delete_table not_deletable "Zone_t")) = true.
Proof. vm_compute. repeat split; reflexivity. Qed.

(* 9. Links.  OLink kind name id = cg_link_write followed by cg_close + cg_open; the payload of a link child is its IDENTITY
      (the pair (file, path) cg_link_read reports -- an opaque value), never what lies behind it.  It is an operation of the
      histories of C04_content / C04_frame / C04_order above; spelled out for one link: whatever is done to its siblings
      afterwards -- writes, overwrites, in-place rewrites, deletions, further links, any number of cg_close + cg_open with
      or without the rewrite of the file (compress-on-close) -- the session and a fresh open still report that identity. *)
Theorem C04_link_identity_survives : forall kok nok sk disp ops s0 t0 k nm p,
  Inv kok s0 -> Rel s0 t0 -> disp_ok kok nok disp -> ops_ok kok nok (OLink k nm p :: ops) -> writes_ok t0 (OLink k nm p :: ops) ->
  i_get nm t0 = None -> Forall (fun o => op_name o <> Some nm) ops ->
  let s := fst (run sk disp s0 (OLink k nm p :: ops)) in
  vlookup nm (view_session s k) = Some p /\ vlookup nm (view_file sk s k) = Some p /\
  vlookup nm (view_session (reopen sk s) k) = Some p.
Proof. exact link_survives. Qed.
Print Assumptions C04_link_identity_survives.

(* ... cg_link_write WITHOUT the cg_close + cg_open does not have the property (it updates the file only): the session
   does not list the new link, and cg_delete_node of it reports an error after removing the node.  Replayed on the library:
   key link-invisible-until-reopen *)
Theorem C04_link_invisible_until_reopen_refuted :
  let s := fst (link_new (fst (fst (write empty_parent K_SOL "S1" 3))) K_SOL "L1" (-1)) in
  view_session s K_SOL = [("S1", 3)] /\ view_file no_sort s K_SOL = [("S1", 3); ("L1", -1)] /\
  view_session (reopen no_sort s) K_SOL = [("S1", 3); ("L1", -1)] /\
  snd (delete all_shift s "L1") = 1 /\ view_file no_sort (fst (delete all_shift s "L1")) K_SOL = [("S1", 3)].
Proof. exact link_invisible_in_session. Qed.
Print Assumptions C04_link_invisible_until_reopen_refuted.

(* ... the CURRENT cg_link_write is what [link_new] transcribes: it calls cgio_create_link, counts the node and changes
   nothing else; the labels of its white list are positions cg_goto reaches *)
Theorem C04_link_writer_consistent : link_writer_ok goto_table link_parents link_calls link_assigns = true.
Proof. vm_compute. reflexivity. Qed.
Print Assumptions C04_link_writer_consistent.

(* ... and the CURRENT tree copy behind compress-on-close creates every link again as a link (so [reopen] is the right model
   of cg_close with and without compress): the guard of cgio_create_link in recurse_nodes, evaluated for every combination *)
Theorem C04_compress_keeps_links : copy_keeps_links copy_link_guard copy_else_recurses copy_callers = true.
Proof. vm_compute. reflexivity. Qed.
Print Assumptions C04_compress_keeps_links.

(* 10. OUpdate on an array whose data the library loaded when it opened the file (cg_array_general_write on a DataArray_t under
       ReferenceState_t, BaseIterativeData_t, ... -- every parent whose arrays cgi_read_array reads into memory): C04_content
       holds for it exactly when the call refreshes (or drops) that copy.  A library that leaves the copy alone
       ([write_inplace_stale]) diverges: the session answers the old value, the file holds the new one.  Replayed on the
       library: key array-general-write-stale-cache; Gen_C04.general_write_mentions_cache says which of the two the current
       cgi_array_general_write is, and the check demands that the replay agrees with it. *)
Theorem C04_cached_array_not_refreshed_diverges :
  let s0 := reopen no_sort (fst (fst (write empty_parent "DataArray_t" "A1" 5))) in
  let s := fst (fst (write_inplace_stale s0 "DataArray_t" "A1" 7)) in
  view_session s "DataArray_t" = [("A1", 5)] /\ view_file no_sort s "DataArray_t" = [("A1", 7)] /\
  view_session (fst (fst (write_inplace s0 "DataArray_t" "A1" 7))) "DataArray_t" = [("A1", 7)].
Proof. exact stale_cache_diverges. Qed.
Print Assumptions C04_cached_array_not_refreshed_diverges.

(* 11. The node copy behind compress-on-close sizes its buffer with cgio_compute_data_size: for every data type the database
       stores the CURRENT function returns the element size of that type (a type for which it returned 0 would be copied
       without its data).  The histories carry arrays of every type through the rewrite and verify every byte. *)
Theorem C04_copy_data_sizes_consistent : data_sizes_ok data_size_rows = true.
Proof. vm_compute. reflexivity. Qed.
Print Assumptions C04_copy_data_sizes_consistent.
