(* ZoneMirror.v -- the zone[] (or pzone[]) array of a base together with its name index, as
   cg_zone_write (cgnslib.c "Overwrite a Zone_t Node") / cg_particle_write / cg_delete_node
   (CGNS_DELETE_SHIFT + cgi_map_del_shift_item) keep them.  Payload = an opaque Z standing for
   everything stored in the zone slot.  Executable; proofs in HashMapProofs.v / ZoneMirrorProofs.v. *)
From Coq Require Import ZArith List Bool Lia.
From CgnsV Require Import Fuel ListX HashMap.
Import ListNotations.
Local Open Scope Z_scope.

Record zbase := mkB { zb_zones : list (list Z * Z); zb_map : option hmap }.

Definition empty_base : zbase := mkB [] None.

(* for (index = 0; index < nzones; index++) cgi_map_set_item(map, zone[index].name, index) *)
Fixpoint fill_map (m : hmap) (zs : list (list Z * Z)) (index : Z) : option hmap :=
  match zs with
  | [] => Some m
  | (nm, _) :: r =>
      match map_set_item m nm index with
      | None => None
      | Some (m', rc) => if rc =? 0 then fill_map m' r (index + 1) else None
      end
  end.

Definition ensure_map (b : zbase) : option hmap :=
  match zb_map b with
  | Some m => Some m
  | None => fill_map (new_presized_hashmap (lenZ (zb_zones b))) (zb_zones b) 0
  end.

(* result: new base and the returned 1-based index (0 = error) *)
Definition zone_write (b : zbase) (name : list Z) (payload : Z) : option (zbase * Z) :=
  match ensure_map b with
  | None => None
  | Some m =>
      match map_get_item m name with
      | None => None
      | Some index =>
          if negb (index =? -1) then
            Some (mkB (updZ (zb_zones b) index (name, payload)) (Some m), index + 1)
          else
            let index := lenZ (zb_zones b) in
            match map_set_item m name index with
            | None => None
            | Some (m', rc) =>
                if rc =? 0 then Some (mkB (zb_zones b ++ [(name, payload)]) (Some m'), index + 1)
                else Some (mkB (zb_zones b) (Some m'), 0)
            end
      end
  end.

Fixpoint remove_first (name : list Z) (zs : list (list Z * Z)) : option (list (list Z * Z)) :=
  match zs with
  | [] => None
  | (nm, p) :: r =>
      if key_eqb nm name then Some r
      else option_map (cons (nm, p)) (remove_first name r)
  end.

(* cg_delete_node on a Zone_t child called [name]: 0 = ok, 1 = not found *)
Definition zone_delete (b : zbase) (name : list Z) : option (zbase * Z) :=
  match remove_first name (zb_zones b) with
  | None => Some (b, 1)
  | Some zs =>
      match zb_map b with
      | None => Some (mkB zs None, 0)
      | Some m =>
          match map_contains m name with
          | None => None
          | Some c =>
              if c =? 1 then
                match map_del_shift_item m name with
                | None => None
                | Some (m', _) => Some (mkB zs (Some m'), 0)
                end
              else Some (mkB zs (Some m), 0)
          end
      end
  end.

(* cg_close + cg_open: the mirror is rebuilt from the file and the index is dropped.  The order in
   which the file lists the zones is an input (it belongs to the back end, see C04): [order] must be a
   rearrangement of the current names, otherwise the result is the error value 1. *)
Fixpoint payload_of (name : list Z) (zs : list (list Z * Z)) : option Z :=
  match zs with
  | [] => None
  | (nm, p) :: r => if key_eqb nm name then Some p else payload_of name r
  end.
Fixpoint reorder (order : list (list Z)) (zs : list (list Z * Z)) : option (list (list Z * Z)) :=
  match order with
  | [] => Some []
  | n :: r => match payload_of n zs, reorder r zs with
              | Some p, Some l => Some ((n, p) :: l)
              | _, _ => None
              end
  end.
Definition zone_reopen (b : zbase) (order : list (list Z)) : zbase * Z :=
  match reorder order (zb_zones b) with
  | Some zs => if lenZ zs =? lenZ (zb_zones b) then (mkB zs None, 0) else (b, 1)
  | None => (b, 1)
  end.

Inductive zop := ZWrite (name : list Z) (payload : Z) | ZDelete (name : list Z) | ZReopen (order : list (list Z)).

Definition zstep (b : zbase) (o : zop) : option (zbase * Z) :=
  match o with
  | ZWrite n p => zone_write b n p
  | ZDelete n => zone_delete b n
  | ZReopen order => Some (zone_reopen b order)
  end.
