(* Links.v -- C08: link nodes over a WORLD of several files, and their resolution as the two back ends do it.

   A world ([disk]) is a list of files by literal path name; every file is a TreeDB table (the ideal node database of
   C02) whose link records carry (file name, path) and nothing else.  On top of that this file transcribes

     * the file search of  cgns_io.c : cgio_find_file  (absolute name / parent's directory / current directory /
       ADF_LINK_PATH or HDF5_LINK_PATH / CGNS_LINK_PATH / the cgio_path_add list, with the buffer-size exits),
     * the ADF resolution of  ADF_internals.c : ADFI_chase_link  (the while loop with its link_depth counter and
       ADF_MAXIMUM_LINK_DEPTH, the one-entry cache last_link_ID / last_link_LID with its exact invalidation points),
       ADF_interface.c : ADF_Get_Node_ID  (path walking that chases every component but the last; chase and walk
       call each other: since 8281ca0 the wrapper of ADFI_chase_link counts the nested activations in a static
       variable and answers LINKS_TOO_DEEP at ADF_MAXIMUM_LINK_DEPTH -- the model's fuel IS that budget; before, the
       recursion had no counter and out of fuel = [EStack] = the stack overflow), ADF_Link / ADF_Get_Link_Path (the
       "file>path" payload and its split at the first separator), ADF_Is_Link,
     * the bookkeeping of implicitly opened files (ADF_file[].in_use / links, ADFI_link_add, ADFI_close_file),
     * the ADFH resolution of  ADFH.c : open_link / open_link_1 / open_node / parse_path / ADFH_Get_Node_ID  (each hop
       goes through the hidden " link" member, resolved by libhdf5 over raw groups; open_link repeats the hop while it
       lands on a link node, up to ADF_MAXIMUM_LINK_DEPTH; files found by libhdf5, not by cgio_find_file).
   Definitions that changed with a repair in /repo take a [ver] argument: Cur = the code now, Old = before the repair.

   Executable definitions only; proofs in LinksProofs.v. *)
From Coq Require Import ZArith List Bool Lia.
From CgnsV Require Import ListX TreeDB.
Import ListNotations.
Local Open Scope Z_scope.

(* ---- the world ------------------------------------------------------------------------------------------------ *)
(* d_type: 1 = ADF file, 2 = HDF5 file, 0 = something that is not a CGNS database *)
Record dfile := mkD { d_path : bytes; d_type : Z; d_tab : table }.
Definition disk := list dfile.

Fixpoint disk_get (d : disk) (p : bytes) : option dfile :=
  match d with [] => None | f :: rest => if bytes_eqb (d_path f) p then Some f else disk_get rest p end.
Fixpoint disk_set (d : disk) (f : dfile) : disk :=
  match d with
  | [] => [f]
  | g :: rest => if bytes_eqb (d_path g) (d_path f) then f :: rest else g :: disk_set rest f
  end.
Fixpoint disk_del (d : disk) (p : bytes) : disk :=
  match d with [] => [] | g :: rest => if bytes_eqb (d_path g) p then rest else g :: disk_del rest p end.

(* a node of the world: (file path, uid) *)
Definition nid := (bytes * Z)%type.
Definition nid_eqb (a b : nid) : bool := bytes_eqb (fst a) (fst b) && (snd a =? snd b).
Definition node_at (d : disk) (i : nid) : option nrec :=
  match disk_get d (fst i) with Some f => find_node (d_tab f) (snd i) | None => None end.
Definition kids_at (d : disk) (i : nid) : list nrec :=
  match disk_get d (fst i) with Some f => children (d_tab f) (snd i) | None => [] end.
Definition root_of (i : nid) : nid := (fst i, root_uid).
Definition child_named (d : disk) (i : nid) (nm : bytes) : option nid :=
  match find_child (kids_at d i) nm with Some r => Some (fst i, n_uid r) | None => None end.

(* ---- strings -------------------------------------------------------------------------------------------------- *)
Fixpoint split_on (sep : Z) (s cur : bytes) : list bytes :=
  match s with
  | [] => [cur]
  | c :: r => if c =? sep then cur :: split_on sep r [] else split_on sep r (cur ++ [c])
  end.
Definition nonempty (s : bytes) : bool := negb (lenZ s =? 0).
(* ADFI_strtok with "/" : the non-empty segments *)
Definition tokens (p : bytes) : list bytes := filter nonempty (split_on 47 p []).
(* strchr: (before, after) the first occurrence *)
Fixpoint split_first (sep : Z) (s acc : bytes) : option (bytes * bytes) :=
  match s with
  | [] => None
  | c :: r => if c =? sep then Some (acc, r) else split_first sep r (acc ++ [c])
  end.
(* strrchr(path, '/') then cut after it *)
Fixpoint drop_to_slash (r : bytes) : option bytes :=
  match r with [] => None | c :: r' => if c =? 47 then Some r else drop_to_slash r' end.
Definition dir_of (s : bytes) : option bytes :=
  match drop_to_slash (rev s) with Some r => Some (rev r) | None => None end.
Fixpoint take_to_slash (r : bytes) : bytes :=
  match r with [] => [] | c :: r' => if c =? 47 then [] else c :: take_to_slash r' end.
Definition base_of (s : bytes) : bytes := rev (take_to_slash (rev s)).

(* ---- cgio_find_file ---------------------------------------------------------------------------------------------- *)
(* getenv values and the cgio_path_add list; an unset variable and an empty one behave alike ([]) *)
Record env := mkE { e_adf : bytes; e_hdf : bytes; e_cgns : bytes; e_list : list bytes }.
Definition empty_env : env := mkE [] [] [] [].

(* cgio_check_file(path) == CGIO_ERR_NONE && (file_type == CGIO_FILE_NONE || file_type == type) *)
Definition exists_as (d : disk) (p : bytes) (ft : Z) : bool :=
  match disk_get d p with
  | Some f => (1 <=? d_type f) && ((ft =? 0) || (d_type f =? ft))
  | None => false
  end.

Inductive cand := CPath (p : bytes) | CTooSmall.
Definition dir_cand (size : Z) (fn comp : bytes) : cand :=
  if lenZ comp >? size then CTooSmall
  else CPath (comp ++ (if last comp 0 =? 47 then [] else [47]) ++ fn).
(* one ':'-separated list: empty components are skipped *)
Definition dir_cands (size : Z) (fn s : bytes) : list cand :=
  map (dir_cand size fn) (filter nonempty (split_on 58 s [])).

Inductive fres := FOk (p : bytes) | FNotFound | FTooSmall | FNullFile.
Fixpoint first_hit (d : disk) (ft : Z) (cs : list cand) : fres :=
  match cs with
  | [] => FNotFound
  | CTooSmall :: _ => FTooSmall
  | CPath p :: r => if exists_as d p ft then FOk p else first_hit d ft r
  end.

Definition candidates (e : env) (parent fn : bytes) (ft maxlen : Z) : list cand :=
  let size := maxlen - 1 - lenZ fn in
  if hd 0 fn =? 47 then [CPath fn] else
  let c1 := if nonempty parent && (lenZ parent <? maxlen - 1) then
              match dir_of parent with
              | Some dir => if lenZ dir <=? size then [CPath (dir ++ fn)] else []
              | None => []
              end
            else [] in
  let tp := if ft =? 1 then e_adf e else if ft =? 2 then e_hdf e else [] in
  c1 ++ [CPath fn] ++ dir_cands (size - 1) fn tp ++ dir_cands (size - 1) fn (e_cgns e)
     ++ flat_map (dir_cands (size - 1) fn) (e_list e).

Definition find_file (d : disk) (e : env) (parent fn : bytes) (ft maxlen : Z) : fres :=
  if lenZ fn =? 0 then FNullFile
  else if maxlen - 1 - lenZ fn <? 0 then FTooSmall
  else first_hit d ft (candidates e parent fn ft maxlen).

(* ---- the search-path list as STATE: cgio_path_delete(NULL), cgio_path_add, cg_set_path, cg_add_path, cg_configure ------- *)
(* a C string argument: None = NULL pointer *)
Definition path_arg := option bytes.
Definition arg_empty (a : path_arg) : bool := match a with None => true | Some p => lenZ p =? 0 end.
(* cgio_path_delete(NULL): the whole list goes *)
Definition env_path_delete_all (e : env) : env := mkE (e_adf e) (e_hdf e) (e_cgns e) [].
(* cgio_path_add: NULL or "" => CGIO_ERR_NULL_FILE, nothing changes (false); else appended *)
Definition env_path_add (e : env) (a : path_arg) : env * bool :=
  match a with
  | Some p => if lenZ p =? 0 then (e, false) else (mkE (e_adf e) (e_hdf e) (e_cgns e) (e_list e ++ [p]), true)
  | None => (e, false)
  end.
(* cg_set_path(path): cgio_path_delete(NULL) FIRST and unconditionally; then, if path && *path, cgio_path_add(path) *)
Definition mll_set_path (e : env) (a : path_arg) : env * bool :=
  let e0 := env_path_delete_all e in
  if arg_empty a then (e0, true) else env_path_add e0 a.
(* cg_add_path(path) = cgio_path_add(path) *)
Definition mll_add_path (e : env) (a : path_arg) : env * bool := env_path_add e a.
(* cg_configure(CG_CONFIG_SET_PATH = 1 | CG_CONFIG_ADD_PATH = 2, path) *)
Definition mll_configure (what : Z) (e : env) (a : path_arg) : env * bool :=
  if what =? 1 then mll_set_path e a else mll_add_path e a.

Definition ADF_FILENAME_LENGTH : Z := 1024.
Definition ADF_MAX_LINK_DATA_SIZE : Z := 4096.
Definition ADF_MAXIMUM_LINK_DEPTH : Z := 100.

(* ---- the ADF link payload ------------------------------------------------------------------------------------------ *)
(* ADFI_check_string_length(file, ADF_FILENAME_LENGTH): a NULL, empty, over-long or all-blank name makes ADF_Link
   write a same-file link *)
Definition adf_file_ok (f : bytes) : bool :=
  (1 <=? lenZ f) && (lenZ f <=? ADF_FILENAME_LENGTH) && negb (forallb (fun c => (c =? 32) || (c =? 9)) f).
Definition adf_link_data (file path : bytes) : bytes :=
  if adf_file_ok file then file ++ [62] ++ path else 62 :: path.
(* ADF_Get_Link_Path: split at the FIRST '>' *)
Definition adf_get_link (data : bytes) : bytes * bytes :=
  match split_first 62 data [] with
  | Some (f, p) => if lenZ f =? 0 then ([], skipn 1 data) else (f, p)
  | None => ([], skipn 1 data)
  end.
Definition adf_link_of (r : nrec) : option (bytes * bytes) :=
  match n_link r with Some (f, p) => Some (adf_get_link (adf_link_data f p)) | None => None end.

(* ---- ADF resolution -------------------------------------------------------------------------------------------------- *)
Inductive err := ENotFound | ELinkTarget | ELinkFile | ETooDeep | EStack | EOther.
Inductive res (A : Type) := Ok (a : A) | Err (e : err).
Arguments Ok {A} a.
Arguments Err {A} e.

(* Two transcriptions live side by side.  [Cur] is the code as it is in /repo now; [Old] is the code before the repairs
   9d19299 (rename clears the cache), 8281ca0 (nesting bound in ADFI_chase_link), 909ac4d (ADFI_close_file releases
   linked files only with the last reference) and fff8c32 (ADFH open_link follows chains) -- kept only for the
   historical *_old_refuted witnesses. *)
Inductive ver := Old | Cur.
(* what a resolution answers when the nesting of ADFI_chase_link <-> ADF_Get_Node_ID runs out: Old had no bound (the
   stack overflowed, EStack); Cur counts the activations in a static variable and answers LINKS_TOO_DEEP at 100 *)
Definition oob (v : ver) : err := match v with Old => EStack | Cur => ETooDeep end.
Definition NEST_LIMIT : nat := 100.                      (* ADF_MAXIMUM_LINK_DEPTH activations *)

(* what a resolution threads: the one-entry cache (None <-> last_link_ID = 0.0) and a write-only log of the
   ADFI_link_add(from file, to file) calls it made (consumed by the open-file bookkeeping below) *)
Record rs := mkRs { r_cache : option (nid * nid); r_log : list (bytes * bytes) }.
Definition rs0 : rs := mkRs None [].
Definition cres := (rs * res nid)%type.
Definition chaser := rs -> nid -> cres.

(* ADF_Get_Node_ID, the loop over the tokens: every component found is chased unless it is the last one *)
Fixpoint gni_walk (ch : chaser) (d : disk) (s : rs) (cur : nid) (toks : list bytes) : cres :=
  match toks with
  | [] => (s, Ok cur)
  | t :: rest =>
      match child_named d cur t with
      | None => (s, Err ENotFound)                         (* CHILD_NOT_OF_GIVEN_PARENT *)
      | Some k =>
          match rest with
          | [] => (s, Ok k)
          | _ :: _ =>
              let '(s', r) := ch s k in
              match r with Ok l => gni_walk ch d s' l rest | Err x => (s', Err x) end
          end
      end
  end.

Definition get_node_id (ch : chaser) (d : disk) (s : rs) (pid : nid) (name : bytes) : cres :=
  if lenZ name =? 0 then (s, Err EOther) else                 (* STRING_LENGTH_ZERO *)
  let abs := hd 0 name =? 47 in
  let start := if abs then root_of pid else pid in
  if abs && (lenZ name =? 1) then (s, Ok start) else
  match tokens name with
  | [] => (s, Err EOther)                                      (* INVALID_NODE_NAME *)
  | toks =>
      let '(s1, r) := ch s start in                            (* the parent may be a link *)
      match r with Ok l => gni_walk ch d s1 l toks | Err x => (s1, Err x) end
  end.

Definition log_add (s : rs) (from to : bytes) : rs := mkRs (r_cache s) (r_log s ++ [(from, to)]).

(* one turn of the while loop of ADFI_chase_link on the node [lk]:  Ok None = not a link (done = TRUE),
   Ok (Some t) = the link was followed to t (which may be another link) *)
Definition hop (ch : chaser) (d : disk) (e : env) (s : rs) (lk : nid) : rs * res (option nid) :=
  match node_at d lk with
  | None => (s, Err EOther)
  | Some r =>
      match adf_link_of r with
      | None => (s, Ok None)
      | Some (file, path) =>
          let rootr :=
            if nonempty file then
              match find_file d e (fst lk) file 1 (ADF_FILENAME_LENGTH + 1) with
              | FOk p => Ok (log_add s (fst lk) p, (p, root_uid))
              | _ => Err ELinkFile                              (* LINKED_TO_FILE_NOT_THERE *)
              end
            else Ok (s, root_of lk) in
          match rootr with
          | Err x => (s, Err x)
          | Ok (s0, root) =>
              let '(s1, r1) := get_node_id ch d s0 root path in
              match r1 with
              | Err ENotFound => (s1, Err ELinkTarget)          (* "a better error message" *)
              | Err x => (s1, Err x)
              | Ok t => (s1, Ok (Some t))
              end
          end
      end
  end.

(* the while loop; [n] is structural fuel for Coq only (101 is always enough: loop_fuel_irrelevant),
   [depth] is the C variable link_depth *)
Fixpoint chase_loop (ch : chaser) (d : disk) (e : env) (n : nat) (depth : Z) (s : rs) (lk : nid) : cres :=
  match n with
  | O => (s, Err EStack)
  | S n' =>
      let '(s1, h) := hop ch d e s lk in
      match h with
      | Err x => (s1, Err x)
      | Ok None => (s1, Ok lk)
      | Ok (Some t) =>
          if depth + 1 >? ADF_MAXIMUM_LINK_DEPTH then (s1, Err ETooDeep)      (* ++link_depth > limit *)
          else chase_loop ch d e n' (depth + 1) s1 t
      end
  end.

Definition LOOP_FUEL : nat := 101.

(* ADFI_chase_link.  [uc] = false switches the cache off (never hit, never filled): "full resolution".
   [fuel] is the number of nested activations still allowed: for Cur a top-level call has NEST_LIMIT (the wrapper
   refuses when its static counter has reached ADF_MAXIMUM_LINK_DEPTH); for Old it is a stand-in for the C stack. *)
Fixpoint chase (v : ver) (uc : bool) (fuel : nat) (d : disk) (e : env) (s : rs) (i : nid) : cres :=
  match fuel with
  | O => (s, Err (oob v))
  | S f =>
      let body :=
        let '(s', r) := chase_loop (chase v uc f d e) d e LOOP_FUEL 0 s i in
        match r with
        | Ok l => ((if uc && negb (nid_eqb l i) then mkRs (Some (i, l)) (r_log s') else s'), Ok l)
        | Err x => (s', Err x)
        end in
      match r_cache s with
      | Some (k, l) =>
          if uc && nid_eqb k i then
            (s, match node_at d l with Some _ => Ok l | None => Err EOther end)
          else body
      | None => body
      end
  end.

Definition resolve (v : ver) (fuel : nat) (d : disk) (e : env) (i : nid) : res nid := snd (chase v false fuel d e rs0 i).
Definition lookup (v : ver) (uc : bool) (fuel : nat) (d : disk) (e : env) (s : rs) (pid : nid) (name : bytes) : cres :=
  get_node_id (chase v uc fuel d e) d s pid name.

(* ---- reading ------------------------------------------------------------------------------------------------------- *)
Inductive ans := AErr (e : err) | AVal (r : result).

(* attribute [what] of the node itself: 0 name 1 label 2 data type 3 dimensions 6 data 7 number of children
   8 child names *)
Definition node_attr (d : disk) (l : nid) (what : Z) : result :=
  match node_at d l with
  | None => RErr
  | Some r =>
      match what with
      | 0 => RBytes (n_name r)
      | 1 => RBytes (n_label r)
      | 2 => RBytes (n_dt r)
      | 3 => RInts (n_dims r)
      | 6 => RData (n_data r)
      | 7 => RInt (lenZ (kids_at d l))
      | _ => RNames (map n_name (kids_at d l))
      end
  end.

(* ADF_Get_Name / ADF_Is_Link / ADF_Get_Link_Path do not chase; everything else does *)
Definition adf_get (v : ver) (uc : bool) (fuel : nat) (d : disk) (e : env) (s : rs) (i : nid) (what : Z) : rs * ans :=
  match node_at d i with
  | None => (s, AErr EOther)
  | Some r =>
      if what =? 0 then (s, AVal (RBytes (n_name r)))
      else if what =? 4 then (s, AVal (RInt (if is_link r then 1 else 0)))
      else if what =? 5 then
        (s, match adf_link_of r with Some (f, p) => AVal (RLink f p) | None => AErr EOther end)
      else
        let '(s', rr) := chase v uc fuel d e s i in
        match rr with
        | Ok l => (s', AVal (node_attr d l what))
        | Err x => (s', AErr x)
        end
  end.

(* ---- ADF: files open in the process (ADF_file[]), implicit opens through links, close ------------------------------- *)
Record slot := mkSl { sl_name : bytes; sl_use : Z; sl_links : list Z }.
Definition slots := list slot.
Definition free_slot : slot := mkSl [] 0 [].

Fixpoint slot_find (sl : slots) (nm : bytes) (k : Z) : option Z :=     (* ADFI_get_file_index_from_name *)
  match sl with
  | [] => None
  | x :: rest => if (0 <? sl_use x) && bytes_eqb (sl_name x) nm then Some k else slot_find rest nm (k + 1)
  end.
Fixpoint slot_first_free (sl : slots) (k : Z) : option Z :=
  match sl with [] => None | x :: rest => if sl_use x =? 0 then Some k else slot_first_free rest (k + 1) end.
(* ADFI_open_file: first slot with in_use == 0, else a new one *)
Definition slot_open (sl : slots) (nm : bytes) : slots * Z :=
  match slot_first_free sl 0 with
  | Some k => (updZ sl k (mkSl nm 1 []), k)
  | None => (sl ++ [mkSl nm 1 []], lenZ sl)
  end.
(* ADFI_link_add(file_index, link_index, found) *)
Definition slot_link_add (sl : slots) (fi li : Z) (found : bool) : slots :=
  if fi =? li then sl else
  let x := nthZ sl fi free_slot in
  if existsb (Z.eqb li) (sl_links x) then sl else
  let sl1 := updZ sl fi (mkSl (sl_name x) (sl_use x) (sl_links x ++ [li])) in
  if found then let y := nthZ sl1 li free_slot in updZ sl1 li (mkSl (sl_name y) (sl_use y + 1) (sl_links y))
  else sl1.
(* one logged hop: get_file_index_from_name, open when not found, link_add *)
Definition slot_hop (sl : slots) (ev : bytes * bytes) : slots :=
  let '(from, to) := ev in
  match slot_find sl from 0 with
  | None => sl
  | Some fi =>
      match slot_find sl to 0 with
      | Some li => slot_link_add sl fi li true
      | None => let '(sl1, li) := slot_open sl to in slot_link_add sl1 fi li false
      end
  end.
Definition slots_apply (sl : slots) (log : list (bytes * bytes)) : slots := fold_left slot_hop log sl.

(* ADFI_close_file.  Old: closes everything the file links to FIRST -- whatever its own count -- then drops one
   reference.  Cur (909ac4d): drops one reference; only when that was the last one are the linked files released, then
   the file itself is closed.  The recursion has no counter in C: fuel, and None = it never returns.  The bool says
   whether some file really closed (ADFI_stack_control(CLEAR_STK) => last_link_ID = 0). *)
Fixpoint slot_close (v : ver) (fuel : nat) (sl : slots) (k : Z) : option (slots * bool) :=
  match fuel with
  | O => None
  | S f =>
      let x := nthZ sl k free_slot in
      if (k <? 0) || (lenZ sl <=? k) || (sl_use x =? 0) then Some (sl, false) else     (* ADF_FILE_NOT_OPENED *)
      let step := fun (acc : option (slots * bool)) (l : Z) =>
        match acc with
        | None => None
        | Some (s1, b1) => match slot_close v f s1 l with Some (s2, b2) => Some (s2, b1 || b2) | None => None end
        end in
      match v with
      | Old =>
          match fold_left step (sl_links x) (Some (sl, false)) with
          | None => None
          | Some (s1, b1) =>
              let y := nthZ s1 k free_slot in
              let u := sl_use y - 1 in
              if u =? 0 then Some (updZ s1 k free_slot, true)
              else Some (updZ s1 k (mkSl (sl_name y) u (sl_links y)), b1)
          end
      | Cur =>
          let u := sl_use x - 1 in                                   (* index = in_use - 1, before anything else *)
          if u =? 0 then
            match fold_left step (sl_links x) (Some (sl, false)) with
            | None => None
            | Some (s1, _) => Some (updZ s1 k free_slot, true)
            end
          else Some (updZ sl k (mkSl (sl_name x) u (sl_links x)), false)
      end
  end.

(* ---- ADF session: mutations and the exact points at which the cache is cleared -------------------------------------- *)
(* a_caps: entries_for_sub_nodes of a node (0 when absent); a_chunks: nodes that own data chunks *)
Record ast := mkAst { a_disk : disk; a_cache : option (nid * nid); a_slots : slots;
                      a_caps : list (nid * Z); a_chunks : list nid; a_env : env }.
Definition ast0 : ast := mkAst [] None [] [] [] empty_env.

Fixpoint cap_get (c : list (nid * Z)) (i : nid) : Z :=
  match c with [] => 0 | (j, v) :: rest => if nid_eqb j i then v else cap_get rest i end.
Fixpoint cap_set (c : list (nid * Z)) (i : nid) (v : Z) : list (nid * Z) :=
  match c with
  | [] => [(i, v)]
  | (j, w) :: rest => if nid_eqb j i then (i, v) :: rest else (j, w) :: cap_set rest i v
  end.
Definition has_chunk (l : list nid) (i : nid) : bool := existsb (nid_eqb i) l.
Definition del_chunk (l : list nid) (i : nid) : list nid := filter (fun j => negb (nid_eqb j i)) l.

(* ADFI_add_2_sub_node_table: a full table is re-allocated (LIST_CHUNK = 8, growth 1.5); the old one is deleted --
   ADFI_delete_sub_node_table clears the priority stack and with it the link cache -- only when it held entries *)
Definition grow (c : Z) : Z := if c =? 0 then 8 else (c * 3) / 2.
Definition add_child_effect (caps : list (nid * Z)) (p : nid) (nkids : Z) : list (nid * Z) * bool :=
  let c := cap_get caps p in
  if c <=? nkids then (cap_set caps p (grow c), 0 <? nkids) else (caps, false).

Definition with_disk (s : ast) (d : disk) : ast := mkAst d (a_cache s) (a_slots s) (a_caps s) (a_chunks s) (a_env s).
Definition clear_if (b : bool) (c : option (nid * nid)) : option (nid * nid) := if b then None else c.

Definition file_open (s : ast) (f : bytes) : bool :=
  match slot_find (a_slots s) f 0 with Some _ => true | None => false end.

Definition adf_mutate (v : ver) (s : ast) (f : bytes) (o : op) : ast * result :=
  if negb (file_open s f) then (s, RErr) else                  (* ADF_FILE_NOT_OPENED *)
  match disk_get (a_disk s) f with
  | None => (s, RErr)
  | Some df =>
      let t := d_tab df in
      let '(t', r) := step_table false t o in
      match r with
      | RErr => (s, RErr)
      | _ =>
          let d' := disk_set (a_disk s) (mkD f (d_type df) t') in
          let nk := fun p => lenZ (children t p) in
          match o with
          | OCreate p u _ =>
              let '(caps, clr) := add_child_effect (a_caps s) (f, p) (nk p) in
              (mkAst d' (clear_if clr (a_cache s)) (a_slots s) caps (a_chunks s) (a_env s), r)
          | OLink p u _ _ _ =>
              let '(caps, clr) := add_child_effect (a_caps s) (f, p) (nk p) in
              (mkAst d' (clear_if clr (a_cache s)) (a_slots s) caps ((f, u) :: a_chunks s) (a_env s), r)
          | ODelete _ _ =>                                  (* ADFI_delete_from_sub_node_table: always *)
              (mkAst d' None (a_slots s) (a_caps s) (a_chunks s) (a_env s), r)
          | OMove _ u np =>
              let '(caps, _) := add_child_effect (a_caps s) (f, np) (nk np) in
              (mkAst d' None (a_slots s) caps (a_chunks s) (a_env s), r)
          | ODims u dt dims =>
              (* ADF_Put_Dimension_Information keeps the data when type and rank are unchanged; otherwise
                 ADFI_delete_data frees the chunks and clears the stack -- but returns early when there are none *)
              match find_node t u with
              | Some nr =>
                  let dims' := if bytes_eqb dt s_MT then [] else dims in
                  let preserve := bytes_eqb (n_dt nr) dt && (length (n_dims nr) =? length dims')%nat in
                  if preserve then (with_disk s d', r)
                  else
                    let had := has_chunk (a_chunks s) (f, u) in
                    (mkAst d' (clear_if had (a_cache s)) (a_slots s) (a_caps s) (del_chunk (a_chunks s) (f, u))
                           (a_env s), r)
              | None => (with_disk s d', r)
              end
          | OWriteAll u _ | OWriteBlock u _ _ _ | OWriteSel u _ _ _ _ =>
              (mkAst d' (a_cache s) (a_slots s) (a_caps s)
                     (if has_chunk (a_chunks s) (f, u) then a_chunks s else (f, u) :: a_chunks s) (a_env s), r)
          | ORename _ _ _ =>
              (* ADF_Put_Name rewrites the child's sub-node table entry; since 9d19299 ADFI_write_sub_node_table_entry
                 ends with last_link_ID = 0.0 *)
              (mkAst d' (match v with Cur => None | Old => a_cache s end) (a_slots s) (a_caps s) (a_chunks s) (a_env s), r)
          | _ => (with_disk s d', r)                        (* label, queries: nothing is cleared *)
          end
      end
  end.

(* a fresh database: the root node carries the back end's fixed name and label *)
Definition adf_root_table : table :=
  [mkN root_uid (-1) [65;68;70;32;77;111;116;104;101;114;78;111;100;101]
       [82;111;111;116;32;78;111;100;101;32;111;102;32;65;68;70;32;70;105;108;101] s_MT [] [] None].
Definition h5_root_table : table :=
  [mkN root_uid (-1) [72;68;70;53;32;77;111;116;104;101;114;78;111;100;101]
       [82;111;111;116;32;78;111;100;101;32;111;102;32;72;68;70;53;32;70;105;108;101] s_MT [] [] None].

(* cgio_open_file on ADF: mode 'w' creates an empty database *)
Definition adf_open (s : ast) (f : bytes) (create : bool) : ast * result :=
  let d := if create then disk_set (a_disk s) (mkD f 1 adf_root_table) else a_disk s in
  match disk_get d f with
  | Some df =>
      if d_type df =? 1 then
        let '(sl, _) := slot_open (a_slots s) f in
        let caps := if create then filter (fun cv => negb (bytes_eqb (fst (fst cv)) f)) (a_caps s) else a_caps s in
        let chunks := if create then filter (fun j => negb (bytes_eqb (fst j) f)) (a_chunks s) else a_chunks s in
        (mkAst d (a_cache s) sl caps chunks (a_env s), ROk)
      else (s, RErr)
  | None => (s, RErr)
  end.

(* cgio_close_file; None = the close recursion never returns *)
Definition adf_close (v : ver) (fuel : nat) (s : ast) (f : bytes) : option (ast * result) :=
  match slot_find (a_slots s) f 0 with
  | None => Some (s, RErr)
  | Some k =>
      match slot_close v fuel (a_slots s) k with
      | None => None
      | Some (sl, closed) =>
          Some (mkAst (a_disk s) (clear_if closed (a_cache s)) sl (a_caps s) (a_chunks s) (a_env s), ROk)
      end
  end.

Definition commit (s : ast) (x : rs) : ast :=
  mkAst (a_disk s) (r_cache x) (slots_apply (a_slots s) (r_log x)) (a_caps s) (a_chunks s) (a_env s).

(* an id is usable only while its file is open in the process (ADFI_ID_2_file_block_offset: ADF_FILE_NOT_OPENED) *)
Definition adf_read (v : ver) (fuel : nat) (s : ast) (i : nid) (what : Z) : ast * ans :=
  if negb (file_open s (fst i)) then (s, AErr EOther) else
  let '(x, a) := adf_get v true fuel (a_disk s) (a_env s) (mkRs (a_cache s) []) i what in (commit s x, a).
Definition adf_lookup (v : ver) (fuel : nat) (s : ast) (pid : nid) (name : bytes) : ast * res nid :=
  if negb (file_open s (fst pid)) then (s, Err EOther) else
  let '(x, r) := lookup v true fuel (a_disk s) (a_env s) (mkRs (a_cache s) []) pid name in (commit s x, r).
Definition adf_setenv (s : ast) (e : env) : ast :=
  mkAst (a_disk s) (a_cache s) (a_slots s) (a_caps s) (a_chunks s) e.

(* ---- ADFH (HDF5) --------------------------------------------------------------------------------------------------- *)
(* libhdf5's search for the file of an external link (H5F_prefix_open_file, no HDF5_EXT_PREFIX): an absolute name as
   given; a relative name -- or the last component of an absolute one that could not be opened -- in the directory
   of the parent file, then as given.  cgio_find_file is NOT consulted. *)
Definition h5_cands (parent file : bytes) : list bytes :=
  let rel := fun nm => match dir_of parent with Some dir => [dir ++ nm; nm] | None => [nm] end in
  if hd 0 file =? 47 then file :: rel (base_of file) else rel file.
Fixpoint h5_first (d : disk) (cs : list bytes) : option bytes :=
  match cs with [] => None | p :: r => if exists_as d p 2 then Some p else h5_first d r end.

(* libhdf5 walks raw groups: a CGNS link node is a group without CGNS children *)
Fixpoint raw_walk (d : disk) (cur : nid) (toks : list bytes) : option nid :=
  match toks with
  | [] => match node_at d cur with Some _ => Some cur | None => None end
  | t :: rest => match child_named d cur t with Some k => raw_walk d k rest | None => None end
  end.

(* open_link_1 (the whole of open_link before fff8c32): ONE hop through the " link" member *)
Definition h5_open_link_1 (d : disk) (i : nid) : res nid :=
  match node_at d i with
  | None => Err EOther
  | Some r =>
      match n_link r with
      | None => Ok i
      | Some (file, path) =>
          let root := if nonempty file then
                        match h5_first d (h5_cands (fst i) file) with Some p => Some (p, root_uid) | None => None end
                      else Some (root_of i) in
          match root with
          | None => Err ELinkTarget
          | Some rt => match raw_walk d rt (tokens path) with Some t => Ok t | None => Err ELinkTarget end
          end
      end
  end.

Definition h5_is_link (d : disk) (l : nid) : bool :=
  match node_at d l with Some r => is_link r | None => false end.

(* the while loop of open_link since fff8c32: [l] is what open_link_1 returned; while it is itself a link,
   ++depth >= ADF_MAXIMUM_LINK_DEPTH => LINKS_TOO_DEEP, else one more hop.  [n] is Coq fuel (100 always suffices). *)
Fixpoint h5_follow (n : nat) (depth : Z) (d : disk) (l : nid) : res nid :=
  match n with
  | O => Err EStack
  | S n' =>
      if h5_is_link d l then
        if depth + 1 >=? ADF_MAXIMUM_LINK_DEPTH then Err ETooDeep
        else match h5_open_link_1 d l with Ok l' => h5_follow n' (depth + 1) d l' | Err x => Err x end
      else Ok l
  end.

Definition h5_open_link (v : ver) (d : disk) (i : nid) : res nid :=
  match v with
  | Old => h5_open_link_1 d i
  | Cur => match h5_open_link_1 d i with Ok l => h5_follow 100 0 d l | Err x => Err x end
  end.

(* parse_path: component by component from the root; a link met before the last component is opened *)
Fixpoint h5_parse (v : ver) (d : disk) (cur : nid) (toks : list bytes) : res nid :=
  match toks with
  | [] => Ok cur
  | t :: rest =>
      match child_named d cur t with
      | None => Err ENotFound
      | Some k =>
          match rest with
          | [] => Ok k
          | _ :: _ => match h5_open_link v d k with Ok l => h5_parse v d l rest | Err x => Err x end
          end
      end
  end.

Definition h5_lookup (v : ver) (d : disk) (pid : nid) (name : bytes) : res nid :=
  if lenZ name =? 0 then Err ENotFound else
  if hd 0 name =? 47 then h5_parse v d (root_of pid) (tokens name)
  else
    match h5_open_link v d pid with                      (* identity on a node that is not a link *)
    | Err x => Err x
    | Ok l => match raw_walk d l (tokens name) with Some t => Ok t | None => Err ENotFound end
    end.

(* attributes as ADFH reads them from whatever group open_node returned -- a link node shows its own (empty) label,
   the type "LK", no dimensions and no children *)
Definition h5_raw_attr (d : disk) (l : nid) (what : Z) : result :=
  match node_at d l with
  | None => RErr
  | Some r =>
      if is_link r then
        match what with
        | 0 => RBytes (n_name r) | 1 => RBytes (n_label r) | 2 => RBytes s_LK | 3 => RInts [] | 6 => RData []
        | 7 => RInt 0 | _ => RNames []
        end
      else node_attr d l what
  end.

Definition h5_get (v : ver) (d : disk) (i : nid) (what : Z) : ans :=
  match node_at d i with
  | None => AErr EOther
  | Some r =>
      if what =? 0 then AVal (RBytes (n_name r))
      else if what =? 4 then AVal (RInt (if is_link r then 1 else 0))
      else if what =? 5 then match n_link r with Some (f, p) => AVal (RLink f p) | None => AErr EOther end
      else match h5_open_link v d i with Ok l => AVal (h5_raw_attr d l what) | Err x => AErr x end
  end.

(* ADFH_Create (and ADFH_Link through it) with a link node as parent.  Cur (66db802): refused, ADFH_ERR_LINK_NODE -- like
   every other ADFH mutator refuses a link id.  Old: the  if (is_link(hpid))  was commented out: the child -- under a
   resolving or a dangling link -- became a real group INSIDE the link node's own group, which no reader ever looks
   into (they all go to the target): the call succeeded and nothing observable changed *)
Definition h5_parent_is_link (t : table) (o : op) : bool :=
  match o with
  | OCreate p _ _ | OLink p _ _ _ _ => match find_node t p with Some pr => is_link pr | None => false end
  | _ => false
  end.

Definition h5_mutate (v : ver) (d : disk) (f : bytes) (o : op) : disk * result :=
  match disk_get d f with
  | None => (d, RErr)
  | Some df =>
      if h5_parent_is_link (d_tab df) o then (d, match v with Old => ROk | Cur => RErr end) else
      let '(t', r) := step_table true (d_tab df) o in
      match r with RErr => (d, RErr) | _ => (disk_set d (mkD f (d_type df) t'), r) end
  end.
Definition h5_open (d : disk) (f : bytes) (create : bool) : disk * result :=
  let d' := if create then disk_set d (mkD f 2 h5_root_table) else d in
  match disk_get d' f with Some df => if d_type df =? 2 then (d', ROk) else (d, RErr) | None => (d, RErr) end.
