(* Extract_c01.v -- extraction of the C01 model (SidsCodec) to OCaml.  ExtrOcamlBasic only; Z, positive, nat, ascii,
   string stay extracted inductives.  No Extract Constant / Extract Inductive of our own. *)
From Coq Require Import Extraction ExtrOcamlBasic.
From CgnsV Require Import SidsCodec Gen_C01.
Extraction Language OCaml.
Set Extraction KeepSingleton.
Extraction "extracted/c01/model.ml" SidsCodec.exec SidsCodec.run SidsCodec.enc SidsCodec.dec SidsCodec.view
  SidsCodec.api_fill SidsCodec.wf SidsCodec.ctx0 SidsCodec.root0 SidsCodec.all_kinds SidsCodec.kind_name
  SidsCodec.all_fns SidsCodec.fn_returns_index SidsCodec.schema_ok SidsCodec.kind_names_distinct
  SidsCodec.schema_rows SidsCodec.read_file SidsCodec.write_file SidsCodec.spec
  SidsCodec.labels_closed SidsCodec.open_wrows SidsCodec.schema_in_sources SidsCodec.unbacked_rows SidsCodec.enum_tables_match
  Gen_C01.gen_writers Gen_C01.gen_readers Gen_C01.gen_enum_tables Gen_C01.gen_version_bytes Gen_C01.gen_nof_element_types
  Gen_C01.gen_read_node_allocates.
