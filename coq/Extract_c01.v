(* Extract_c01.v -- extraction of the C01 model (SidsCodec) to OCaml.  ExtrOcamlBasic only; Z, positive, nat, ascii,
   string stay extracted inductives.  No Extract Constant / Extract Inductive of our own. *)
From Coq Require Import Extraction ExtrOcamlBasic.
From CgnsV Require Import SidsCodec.
Extraction Language OCaml.
Set Extraction KeepSingleton.
Extraction "extracted/c01/model.ml" SidsCodec.exec SidsCodec.run SidsCodec.enc SidsCodec.dec SidsCodec.view
  SidsCodec.api_fill SidsCodec.wf SidsCodec.ctx0 SidsCodec.root0 SidsCodec.all_kinds SidsCodec.kind_name
  SidsCodec.all_fns SidsCodec.fn_returns_index SidsCodec.schema_ok SidsCodec.kind_names_distinct
  SidsCodec.schema_rows SidsCodec.read_file SidsCodec.write_file SidsCodec.spec.
