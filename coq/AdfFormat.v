(* AdfFormat.v -- executable model of the ADF numeric-format machinery (property C19).

   Transcribed from /repo/src/adf/ADF_internals.c and ADF_interface.c:
     machine_sizes[][]                       (ADF_internals.c:287)
     ADFI_ASCII_Hex_2_unsigned_int           (:372, the 2-digit use of the header fields)
     ADFI_big_endian_32_swap_64              (:892)
     ADFI_big_little_endian_swap             (:1312)
     ADFI_little_endian_32_swap_64           (:5068)
     ADFI_convert_number_format              (:1937)
     ADFI_evaluate_datatype                  (:3129, the ten simple types)
     ADFI_figure_machine_format              (:3455)
     ADFI_file_and_machine_compare           (:3659)
     ADFI_fill_initial_file_header           (:4419)
     ADFI_read_data_translated / ADFI_write_data_translated (:5980 / :7784)
     ADFI_read_file_header (bytes 100..129)  (:6308)
     ADF_Database_Get_Format                 (ADF_interface.c:654)
     ADF_Database_Open (the format part)     (ADF_interface.c:758)
   Bytes and characters are Z (0..255); buffers are lists of bytes; C pointers into a buffer are the
   remaining suffix of the list.  Error codes are the numeric values of ADF.h.  No proofs here.

   Distinguished results that are NOT behaviours of the C code (theorems exclude or cover them explicitly):
     ERR_SCOPE      a leaf converter wrote a number of bytes different from the pointer advance delta_to_bytes
                    (only for header sizes such as sizeof(long)=2; the C code then overlaps / leaves gaps);
     ERR_CRAY       a CRAY conversion was requested (not modelled: CRAY is outside C19's format list);
     ERR_FUEL       the chunk loop ran out of fuel (never happens: see write_translated_fuel_enough). *)
From Coq Require Import ZArith List Bool.
From CgnsV Require Import ListX.
Import ListNotations.
Local Open Scope Z_scope.

(* ---------------------------------------------------------------- error codes (ADF.h) *)
Definition NO_ERROR := -1.
Definition NUMBER_LESS_THAN_MINIMUM := 1.
Definition NUMBER_GREATER_THAN_MAXIMUM := 2.
Definition STRING_NOT_A_HEX_STRING := 5.
Definition NULL_POINTER := 32.
Definition ADF_FILE_FORMAT_NOT_RECOGNIZED := 19.
Definition INVALID_DATA_TYPE := 31.
Definition REQUESTED_DATA_TOO_LONG := 35.
Definition MACHINE_FORMAT_NOT_RECOGNIZED := 39.
Definition CANNOT_CONVERT_NATIVE_FORMAT := 40.
Definition CONVERSION_FORMATS_EQUAL := 41.
Definition DATA_TYPE_NOT_SUPPORTED := 42.
Definition ZERO_LENGTH_VALUE := 46.
Definition MACHINE_FILE_INCOMPATABLE := 60.
Definition ERR_SCOPE := -1000.
Definition ERR_CRAY := -1001.
Definition ERR_FUEL := -1002.

Inductive res (A : Type) : Type := Ok (a : A) | Err (e : Z).
Arguments Ok {A} a.
Arguments Err {A} e.

(* ---------------------------------------------------------------- characters *)
Definition chB := 66.  (* 'B' : IEEE big endian  / OS_64_BIT *)
Definition chC := 67.  (* 'C' : CRAY *)
Definition chL := 76.  (* 'L' : IEEE little endian / OS_32_BIT *)
Definition chN := 78.  (* 'N' : native *)
Definition chU := 85.  (* 'U' : undefined *)

Definition CONVERSION_BUFF_SIZE := 100000.

(* ---------------------------------------------------------------- data types and tokens *)
Inductive dtype := MT | I4 | I8 | U4 | U8 | R4 | R8 | X4 | X8 | B1 | C1.

Definition dtype_eqb (a b : dtype) : bool :=
  match a, b with
  | MT, MT | I4, I4 | I8, I8 | U4, U4 | U8, U8 | R4, R4 | R8, R8 | X4, X4 | X8, X8 | B1, B1 | C1, C1 => true
  | _, _ => false
  end.

(* struct TOKENIZED_DATA_TYPE (one non-terminator entry) *)
Record token := { tk_type : dtype; tk_len : Z; tk_fsize : Z; tk_msize : Z }.
(* a tokenized type: the entries before the terminator, and the terminator's file/machine byte totals *)
Record toktype := { tt_toks : list token; tt_fbytes : Z; tt_mbytes : Z }.

(* TO_UPPER on an ASCII code *)
Definition to_upper (c : Z) : Z := if (97 <=? c) && (c <=? 122) then c - 32 else c.

(* the 2-byte switch of ADFI_evaluate_datatype (after upper-casing); LK is treated as C1 *)
Definition dtype_of_chars (c0 c1 : Z) : res dtype :=
  let c0 := to_upper c0 in let c1 := to_upper c1 in
  if (c0 =? 77) && (c1 =? 84) then Ok MT
  else if (c0 =? 73) && (c1 =? 52) then Ok I4
  else if (c0 =? 73) && (c1 =? 56) then Ok I8
  else if (c0 =? 85) && (c1 =? 52) then Ok U4
  else if (c0 =? 85) && (c1 =? 56) then Ok U8
  else if (c0 =? 82) && (c1 =? 52) then Ok R4
  else if (c0 =? 82) && (c1 =? 56) then Ok R8
  else if (c0 =? 88) && (c1 =? 52) then Ok X4
  else if (c0 =? 88) && (c1 =? 56) then Ok X8
  else if (c0 =? 66) && (c1 =? 49) then Ok B1
  else if (c0 =? 67) && (c1 =? 49) then Ok C1
  else if (c0 =? 76) && (c1 =? 75) then Ok C1
  else Err INVALID_DATA_TYPE.

(* ---------------------------------------------------------------- file header (format part) *)
(* struct FILE_HEADER: numeric_format, os_size and the twelve sizeof fields stored at bytes 100..129 *)
Record header := {
  h_format : Z; h_os : Z;
  h_char : Z; h_short : Z; h_int : Z; h_long : Z; h_float : Z; h_double : Z;
  h_char_p : Z; h_short_p : Z; h_int_p : Z; h_long_p : Z; h_float_p : Z; h_double_p : Z }.

(* the machine the library runs on: what ADFI_figure_machine_format can observe.
   mc_pattern = index of the first row of bits[][][] whose eight probes all match (5 = none);
   mc_sizes   = sizeof of char, uchar, schar, short, ushort, int, uint, long, ulong, float, double,
                char*, int*, long*, float*, double*  (the order of machine_sizes[][]). *)
Record machine := { mc_pattern : Z; mc_sizes : list Z }.

Definition this_host : machine :=
  {| mc_pattern := 3; mc_sizes := [1;1;1;2;2;4;4;8;8;4;8;8;8;8;8;8] |}.

(* sizeof(cglong_t), sizeof(int), sizeof(float), sizeof(double), sizeof(char) as used by
   ADFI_evaluate_datatype: fixed by the C types, not by the file *)
Definition SZ_CGLONG := 8.
Definition SZ_INT := 4.
Definition SZ_FLOAT := 4.
Definition SZ_DOUBLE := 8.
Definition SZ_CHAR := 1.

Definition machine_sizes : list (list Z) :=
  [ [1;1;1;2;2;4;4;4;4;4;8;4;4;4;4;4];    (* IEEE BIG 32 *)
    [1;1;1;2;2;4;4;4;4;4;8;4;4;4;4;4];    (* IEEE SML 32 *)
    [1;1;1;2;2;4;4;8;8;4;8;8;8;8;8;8];    (* IEEE BIG 64 *)
    [1;1;1;2;2;4;4;8;8;4;8;8;8;8;8;8];    (* IEEE SML 64 *)
    [1;1;1;8;8;8;8;8;8;8;8;8;8;8;8;8] ].  (* CRAY     64 *)

Definition msz (i j : Z) : Z := nthZ (nthZ machine_sizes i []) j 0.

(* ---------------------------------------------------------------- ADFI_evaluate_datatype (simple types) *)
Definition evaluate_datatype (h : header) (t : dtype) : res toktype :=
  let mk sf sm := Ok {| tt_toks := [ {| tk_type := t; tk_len := 1; tk_fsize := sf; tk_msize := sm |} ];
                        tt_fbytes := sf; tt_mbytes := sm |} in
  match t with
  | MT => Ok {| tt_toks := []; tt_fbytes := 0; tt_mbytes := 0 |}
  | I4 => mk (h_int h) SZ_INT
  | I8 => mk (h_long h) SZ_CGLONG
  | U4 => mk (h_int h) SZ_INT
  | U8 => mk (h_long h) SZ_CGLONG
  | R4 => mk (h_float h) SZ_FLOAT
  | R8 => mk (h_double h) SZ_DOUBLE
  | X4 => mk (2 * h_float h) (2 * SZ_FLOAT)
  | X8 => mk (2 * h_double h) (2 * SZ_DOUBLE)
  | B1 => mk 1 1
  | C1 => mk (h_char h) SZ_CHAR
  end.

(* ---------------------------------------------------------------- leaf converters *)
Definition seqZ (n : Z) : list Z := map Z.of_nat (seq 0 (Z.to_nat n)).
Definition takeZ {A} (n : Z) (l : list A) : list A := firstn (Z.to_nat n) l.
Definition dropZ {A} (n : Z) (l : list A) : list A := skipn (Z.to_nat n) l.

(* for (i=0;i<delta_from;i++) to[i] = from[delta_from-1-i] *)
Definition swap_loop (d : Z) (from : list Z) : list Z :=
  map (fun i => nthZ from (d - 1 - i) 0) (seqZ d).

(* each leaf returns the bytes it stores at to_data[0..] *)
Definition big_little_endian_swap (ff fos tf tos : Z) (dfrom dto : Z) (from : list Z) : res (list Z) :=
  if (dfrom =? 0) || (dto =? 0) then Err NULL_POINTER
  else if (ff =? chN) || (tf =? chN) then Err CANNOT_CONVERT_NATIVE_FORMAT
  else if negb (fos =? tos) || negb (dto =? dfrom) then Err DATA_TYPE_NOT_SUPPORTED
  else Ok (swap_loop dfrom from).

Definition big_endian_32_swap_64 (ff tf : Z) (ty : dtype) (dfrom dto : Z) (from : list Z) : res (list Z) :=
  let f i := nthZ from i 0 in
  if (dfrom =? 0) || (dto =? 0) then Err NULL_POINTER
  else if (ff =? chN) || (tf =? chN) then Err CANNOT_CONVERT_NATIVE_FORMAT
  else if dto =? dfrom then Ok (takeZ dfrom from)
  else if dfrom <? dto then
    match ty with
    | I8 => let s := if Z.land (f 0) 128 =? 128 then 255 else 0 in
            Ok [s; s; s; s; f 0; f 1; f 2; f 3]
    | _ => Err INVALID_DATA_TYPE
    end
  else
    match ty with
    | I8 => Ok [f 4; f 5; f 6; f 7]
    | _ => Err INVALID_DATA_TYPE
    end.

Definition little_endian_32_swap_64 (ff tf : Z) (ty : dtype) (dfrom dto : Z) (from : list Z) : res (list Z) :=
  let f i := nthZ from i 0 in
  if (dfrom =? 0) || (dto =? 0) then Err NULL_POINTER
  else if (ff =? chN) || (tf =? chN) then Err CANNOT_CONVERT_NATIVE_FORMAT
  else if dto =? dfrom then Ok (takeZ dfrom from)
  else if dfrom <? dto then
    match ty with
    | I8 => let s := if Z.land (f 3) 128 =? 128 then 255 else 0 in
            Ok [f 0; f 1; f 2; f 3; s; s; s; s]
    | _ => Err INVALID_DATA_TYPE
    end
  else
    match ty with
    | I8 => Ok [f 0; f 1; f 2; f 3]
    | _ => Err INVALID_DATA_TYPE
    end.

(* ---------------------------------------------------------------- ADFI_convert_number_format *)
(* the arms of  switch( EVAL_4_BYTES( from_format, to_format, from_os_size, to_os_size ) )  inside the loop *)
Inductive conv_case := CSwap64B | CSwap64L | CTwoStepB | CTwoStepL | CSwapOnly | CCray | CNone
  | CTwoStepB_masked | CTwoStepL_masked.   (* the two-step arms as they were before /repo commit e4e8197 *)

Definition is4 (a b c d : Z) (w x y z : Z) : bool := (a =? w) && (b =? x) && (c =? y) && (d =? z).

Definition classify (ff tf fos tos : Z) : conv_case :=
  let q := is4 ff tf fos tos in
  if q chB chB chL chB || q chB chB chB chL then CSwap64B
  else if q chL chL chL chB || q chL chL chB chL then CSwap64L
  else if q chB chC chL chB || q chB chC chB chB then CCray
  else if q chC chB chB chL || q chC chB chB chB then CCray
  else if q chB chL chB chL || q chB chL chL chB then CTwoStepB
  else if q chL chB chB chL || q chL chB chL chB then CTwoStepL
  else if q chB chL chL chL || q chL chB chL chL || q chB chL chB chB || q chL chB chB chB then CSwapOnly
  else if q chC chL chB chL || q chC chL chB chB then CCray
  else if q chL chC chL chB || q chL chC chB chB then CCray
  else CNone.

(* the first switch: CONVERSION_FORMATS_EQUAL *)
Definition formats_equal (ff tf fos tos : Z) : bool :=
  let q := is4 ff tf fos tos in
  q chB chB chB chB || q chC chC chB chB || q chL chL chB chB ||
  q chB chB chL chL || q chC chC chL chL || q chL chL chL chL.

(* store [bytes] at temp_data[0..] *)
Definition blit0 (bytes temp : list Z) : list Z := bytes ++ skipn (length bytes) temp.

(* one pass of the innermost loop body: returns (what was stored at to_data / the error, new temp_data).
   Two-step arms: since commit e4e8197 the error of the resize step returns at once.  Before it, the error
   was overwritten by the second call (error_return was not tested in between) and the stale temp_data was
   byte-swapped into to_data: the _masked arms keep that historical behaviour expressible. *)
Definition conv_leaf (cc : conv_case) (ff tf fos tos : Z) (ty : dtype) (dfrom dto : Z)
           (from temp : list Z) : res (list Z) * list Z :=
  match cc with
  | CSwap64B => (big_endian_32_swap_64 ff tf ty dfrom dto from, temp)
  | CSwap64L => (little_endian_32_swap_64 ff tf ty dfrom dto from, temp)
  | CTwoStepB =>
      match big_endian_32_swap_64 ff ff ty dfrom dto from with
      | Err e => (Err e, temp)
      | Ok b => let temp1 := blit0 b temp in (big_little_endian_swap ff tos tf tos dto dto temp1, temp1)
      end
  | CTwoStepL =>
      match little_endian_32_swap_64 ff ff ty dfrom dto from with
      | Err e => (Err e, temp)
      | Ok b => let temp1 := blit0 b temp in (big_little_endian_swap ff tos tf tos dto dto temp1, temp1)
      end
  | CTwoStepB_masked =>
      let temp1 := match big_endian_32_swap_64 ff ff ty dfrom dto from with
                   | Ok b => blit0 b temp | Err _ => temp end in
      (big_little_endian_swap ff tos tf tos dto dto temp1, temp1)
  | CTwoStepL_masked =>
      let temp1 := match little_endian_32_swap_64 ff ff ty dfrom dto from with
                   | Ok b => blit0 b temp | Err _ => temp end in
      (big_little_endian_swap ff tos tf tos dto dto temp1, temp1)
  | CSwapOnly => (big_little_endian_swap ff fos tf tos dfrom dto from, temp)
  | CCray => (Err ERR_CRAY, temp)
  | CNone => (Err MACHINE_FORMAT_NOT_RECOGNIZED, temp)
  end.

(* for ( s=0; s<array_size; s++ ) *)
Fixpoint conv_array (cc : conv_case) (ff tf fos tos : Z) (ty : dtype) (dfrom dto : Z) (n : nat)
         (from temp : list Z) : res (list Z * list Z * list Z) :=
  match n with
  | O => Ok ([], from, temp)
  | S n' =>
      match conv_leaf cc ff tf fos tos ty dfrom dto from temp with
      | (Err e, _) => Err e
      | (Ok bytes, temp1) =>
          if lenZ bytes =? dto then
            match conv_array cc ff tf fos tos ty dfrom dto n' (dropZ dfrom from) temp1 with
            | Err e => Err e
            | Ok (rest, from2, temp2) => Ok (bytes ++ rest, from2, temp2)
            end
          else Err ERR_SCOPE
      end
  end.

(* while( tokenized_data_type[ ++current_token ].type[0] != 0 ) *)
Fixpoint conv_tokens (cc : conv_case) (ff tf fos tos : Z) (from_file_dir : bool) (toks : list token)
         (from temp : list Z) : res (list Z * list Z * list Z) :=
  match toks with
  | [] => Ok ([], from, temp)
  | tk :: rest =>
      let dfrom := if from_file_dir then tk_fsize tk else tk_msize tk in
      let dto := if from_file_dir then tk_msize tk else tk_fsize tk in
      match conv_array cc ff tf fos tos (tk_type tk) dfrom dto (Z.to_nat (tk_len tk)) from temp with
      | Err e => Err e
      | Ok (o1, from1, temp1) =>
          match conv_tokens cc ff tf fos tos from_file_dir rest from1 temp1 with
          | Err e => Err e
          | Ok (o2, from2, temp2) => Ok (o1 ++ o2, from2, temp2)
          end
      end
  end.

(* for ( l=0; l<(int)length; l++ ) *)
Fixpoint conv_elems (cc : conv_case) (ff tf fos tos : Z) (from_file_dir : bool) (toks : list token) (n : nat)
         (from temp : list Z) : res (list Z * list Z * list Z) :=
  match n with
  | O => Ok ([], from, temp)
  | S n' =>
      match conv_tokens cc ff tf fos tos from_file_dir toks from temp with
      | Err e => Err e
      | Ok (o1, from1, temp1) =>
          match conv_elems cc ff tf fos tos from_file_dir toks n' from1 temp1 with
          | Err e => Err e
          | Ok (o2, from2, temp2) => Ok (o1 ++ o2, from2, temp2)
          end
      end
  end.

(* temp is the content of the uninitialised local temp_data[16] on entry *)
Definition convert_with (cls : Z -> Z -> Z -> Z -> conv_case) (ff fos tf tos : Z) (from_file_dir : bool)
           (tt : toktype) (length : Z) (from temp : list Z) : res (list Z) :=
  if length =? 0 then Err NUMBER_LESS_THAN_MINIMUM
  else if (ff =? chN) || (tf =? chN) then Err CANNOT_CONVERT_NATIVE_FORMAT
  else if formats_equal ff tf fos tos then Err CONVERSION_FORMATS_EQUAL
  else match conv_elems (cls ff tf fos tos) ff tf fos tos from_file_dir (tt_toks tt) (Z.to_nat length) from temp with
       | Err e => Err e
       | Ok (o, _, _) => Ok o
       end.
Definition convert_number_format := convert_with classify.

(* the converter as it was before commit e4e8197 (error of the resize step masked) *)
Definition classify_old (ff tf fos tos : Z) : conv_case :=
  match classify ff tf fos tos with
  | CTwoStepB => CTwoStepB_masked
  | CTwoStepL => CTwoStepL_masked
  | c => c
  end.
Definition convert_number_format_old := convert_with classify_old.

(* ---------------------------------------------------------------- ADFI_figure_machine_format *)
(* ADFI_stridx_c( str, substr ) == 0, case-insensitive; substr empty -> -1 *)
Fixpoint prefix_ci (substr str : list Z) : bool :=
  match substr, str with
  | [], _ => true
  | c :: s', d :: t' => (to_upper c =? to_upper d) && prefix_ci s' t'
  | _ :: _, [] => false
  end.
Definition stridx0 (str substr : list Z) : bool :=
  match substr with [] => false | _ => prefix_ci substr str end.

Definition S_IEEE_BIG_32 := [73;69;69;69;95;66;73;71;95;51;50].
Definition S_IEEE_LITTLE_32 := [73;69;69;69;95;76;73;84;84;76;69;95;51;50].
Definition S_IEEE_BIG_64 := [73;69;69;69;95;66;73;71;95;54;52].
Definition S_IEEE_LITTLE_64 := [73;69;69;69;95;76;73;84;84;76;69;95;54;52].
Definition S_CRAY := [67;82;65;89].
Definition S_NATIVE := [78;65;84;73;86;69].
Definition S_LEGACY := [76;69;71;65;67;89].

(* requested (format, os) for a format string; None = NULL pointer *)
Definition requested_format (fmt : option (list Z)) : res (Z * Z) :=
  match fmt with
  | None => Ok (chN, chL)
  | Some s =>
      match s with
      | [] => Ok (chN, chL)
      | c :: _ =>
          if c =? 32 then Ok (chN, chL)
          else if stridx0 S_IEEE_BIG_32 s then Ok (chB, chL)
          else if stridx0 S_IEEE_LITTLE_32 s then Ok (chL, chL)
          else if stridx0 S_IEEE_BIG_64 s then Ok (chB, chB)
          else if stridx0 S_IEEE_LITTLE_64 s then Ok (chL, chB)
          else if stridx0 S_CRAY s then Ok (chC, chB)
          else if stridx0 S_NATIVE s || stridx0 S_LEGACY s then Ok (chN, chL)
          else Err ADF_FILE_FORMAT_NOT_RECOGNIZED
      end
  end.

(* the machine's own (format, os size): bit-pattern row, then the sizeof check of rows 0..10 *)
Definition machine_format_of (m : machine) : Z * Z :=
  let i := mc_pattern m in
  let by_pattern :=
    if i =? 0 then Some (chB, chL) else if i =? 1 then Some (chL, chL)
    else if i =? 2 then Some (chB, chB) else if i =? 3 then Some (chL, chB)
    else if i =? 4 then Some (chC, chB) else None in
  let sizes_ok := forallb (fun j => nthZ (mc_sizes m) j 0 =? msz i j) (seqZ 11) in
  match by_pattern with
  | Some fo => if sizes_ok then fo
               else (chN, if 8 <=? nthZ (mc_sizes m) 15 0 then chB else chL)
  | None => (chN, if 8 <=? nthZ (mc_sizes m) 15 0 then chB else chL)
  end.

(* returns (error, machine_format, format_to_use, os_to_use); on an unrecognised string the C code returns
   early and leaves the three outputs unwritten: [garb] stands for whatever the caller's variables held *)
Definition figure_machine_format (m : machine) (fmt : option (list Z)) (garb : Z * Z * Z)
  : Z * Z * Z * Z :=
  match requested_format fmt with
  | Err e => let '(g1, g2, g3) := garb in (e, g1, g2, g3)
  | Ok (rf, ro) =>
      let '(mf, mo) := machine_format_of m in
      let '(fu, ou) := if rf =? chN then (mf, mo) else (rf, ro) in
      ((if mf =? chN then MACHINE_FORMAT_NOT_RECOGNIZED else NO_ERROR), mf, fu, ou)
  end.

(* ---------------------------------------------------------------- ADFI_fill_initial_file_header (sizes) *)
Definition fill_initial_file_header (m : machine) (format os_size : Z) : res header :=
  let '(mf, mo) := machine_format_of m in
  if negb ((format =? chB) || (format =? chL) || (format =? chC) || (format =? chN))
  then Err ADF_FILE_FORMAT_NOT_RECOGNIZED
  else if ((format =? mf) && (os_size =? mo)) || (format =? chN) then
    let s j := nthZ (mc_sizes m) j 0 in
    Ok {| h_format := format; h_os := os_size;
          h_char := s 0; h_short := s 3; h_int := s 5; h_long := SZ_CGLONG; h_float := s 9; h_double := s 10;
          h_char_p := s 11; h_short_p := s 11; h_int_p := s 12; h_long_p := s 13; h_float_p := s 14;
          h_double_p := s 15 |}
  else
    let idx :=
      if (format =? chB) && (os_size =? chL) then Some 0
      else if (format =? chL) && (os_size =? chL) then Some 1
      else if (format =? chB) && (os_size =? chB) then Some 2
      else if (format =? chL) && (os_size =? chB) then Some 3
      else if (format =? chC) && (os_size =? chB) then Some 4
      else None in
    match idx with
    | None => Err MACHINE_FORMAT_NOT_RECOGNIZED
    | Some i =>
        Ok {| h_format := format; h_os := os_size;
              h_char := msz i 0; h_short := msz i 3; h_int := msz i 5; h_long := SZ_CGLONG;
              h_float := msz i 9; h_double := msz i 10;
              h_char_p := msz i 11; h_short_p := msz i 12; h_int_p := msz i 12;
              h_long_p := nthZ (mc_sizes m) 13 0; h_float_p := msz i 14; h_double_p := msz i 15 |}
    end.

(* ---------------------------------------------------------------- header bytes 100..129 *)
Definition hexdigit (v : Z) : Z := if v <? 10 then 48 + v else 55 + v.      (* '0'..'9','A'..'F' *)
Definition hex2 (v : Z) : list Z := [hexdigit ((v / 16) mod 16); hexdigit (v mod 16)].

(* bytes 100..129 of the file header as written by ADFI_write_file_header *)
Definition header_bytes (h : header) : list Z :=
  [h_format h; h_os h; 65; 100; 70; 51] ++
  hex2 (h_char h) ++ hex2 (h_short h) ++ hex2 (h_int h) ++ hex2 (h_long h) ++ hex2 (h_float h) ++
  hex2 (h_double h) ++ hex2 (h_char_p h) ++ hex2 (h_short_p h) ++ hex2 (h_int_p h) ++ hex2 (h_long_p h) ++
  hex2 (h_float_p h) ++ hex2 (h_double_p h).

(* ADFI_ASCII_Hex_2_unsigned_int( 0, 255, 2, ... ) *)
Definition hexval (c : Z) : res Z :=
  if (48 <=? c) && (c <=? 57) then Ok (c - 48)
  else if (65 <=? c) && (c <=? 70) then Ok (c - 55)
  else if (97 <=? c) && (c <=? 102) then Ok (c - 87)
  else Err STRING_NOT_A_HEX_STRING.
Definition ascii_hex2 (b : list Z) (off : Z) : res Z :=
  match hexval (nthZ b off 0) with
  | Err e => Err e
  | Ok hi => match hexval (nthZ b (off + 1) 0) with
             | Err e => Err e
             | Ok lo => let num := hi * 16 + lo in
                        if num >? 255 then Err NUMBER_GREATER_THAN_MAXIMUM else Ok num
             end
  end.

Definition bindr {A B} (r : res A) (f : A -> res B) : res B :=
  match r with Ok a => f a | Err e => Err e end.

(* ADFI_read_file_header restricted to bytes 100..129 (b = those 30 bytes) *)
Definition parse_header_bytes (b : list Z) : res header :=
  let g k := ascii_hex2 b (6 + 2 * k) in
  bindr (g 0) (fun c => bindr (g 1) (fun s => bindr (g 2) (fun i => bindr (g 3) (fun l =>
  bindr (g 4) (fun f => bindr (g 5) (fun d => bindr (g 6) (fun cp => bindr (g 7) (fun sp =>
  bindr (g 8) (fun ip => bindr (g 9) (fun lp => bindr (g 10) (fun fp => bindr (g 11) (fun dp =>
  Ok {| h_format := nthZ b 0 0; h_os := nthZ b 1 0;
        h_char := c; h_short := s; h_int := i; h_long := l; h_float := f; h_double := d;
        h_char_p := cp; h_short_p := sp; h_int_p := ip; h_long_p := lp; h_float_p := fp;
        h_double_p := dp |})))))))))))).

(* ADF_Database_Get_Format: the string for (numeric_format, os_size) *)
Definition get_format (h : header) : res (list Z) :=
  let q a b := (h_format h =? a) && (h_os h =? b) in
  if q chB chL then Ok S_IEEE_BIG_32
  else if q chL chL then Ok S_IEEE_LITTLE_32
  else if q chB chB then Ok S_IEEE_BIG_64
  else if q chL chB then Ok S_IEEE_LITTLE_64
  else if q chC chB then Ok S_CRAY
  else if q chN chL || q chN chB then Ok S_NATIVE
  else Err ADF_FILE_FORMAT_NOT_RECOGNIZED.

(* ---------------------------------------------------------------- ADFI_file_and_machine_compare *)
(* tt = None is the NULL tokenized_data_type of the call in ADF_Database_Open.
   old_version selects sizeof(long) (legacy files) or sizeof(cglong_t) for the native-format size check. *)
Definition file_and_machine_compare (m : machine) (old_version : bool) (h : header) (tt : option toktype)
  : res bool :=
  let '(mf, mo) := machine_format_of m in
  let s j := nthZ (mc_sizes m) j 0 in
  let size_long := if old_version then s 7 else SZ_CGLONG in
  if ((mf =? chN) || (h_format h =? chN)) &&
     (negb (h_format h =? chN) || negb (h_char h =? s 0) || negb (h_short h =? s 3) ||
      negb (h_int h =? s 5) || negb (h_long h =? size_long) || negb (h_float h =? s 9) ||
      negb (h_double h =? s 10))
  then Err MACHINE_FILE_INCOMPATABLE
  else if (h_format h =? mf) && (h_os h =? mo) then Ok true
  else if h_format h =? mf then
    match tt with
    | None => Ok false
    | Some t =>
        Ok (forallb (fun tk => tk_msize tk =? tk_fsize tk) (tt_toks t) && (tt_mbytes t =? tt_fbytes t))
    end
  else Ok false.

(* ---------------------------------------------------------------- chunk loops *)
(* ADFI_write_data_translated / ADFI_read_data_translated.  Both loops are written over the conversion call
   [conv chunk_size from_data] so that the chunking theorem can be stated for any element-wise converter;
   the instances below plug in ADFI_convert_number_format.  A pointer into the caller's buffer / a disk
   pointer into the node's data is the remaining suffix of the byte list; ws_off is the distance of the disk
   pointer from where it started (only reported, never used to address).
   Write: result = the ADFI_write_file calls issued (relative offset, bytes) and the final *error_return.
   Read : result = the bytes stored through to_data, in order, and the final *error_return.
   fuel bounds the number of loop iterations (ERR_FUEL is never returned: C19_chunking). *)
Record wstate := { ws_done : Z; ws_chunk : Z; ws_dfrom : Z; ws_dto : Z; ws_data : list Z; ws_off : Z }.

Fixpoint write_loop (conv : Z -> list Z -> res (list Z)) (data_size machine_size n_elems : Z) (fuel : nat)
         (st : wstate) (acc : list (Z * list Z)) : list (Z * list Z) * Z :=
  if ws_done st <? n_elems then
    match fuel with
    | O => (rev acc, ERR_FUEL)
    | S fuel' =>
        let done := ws_done st + ws_chunk st in
        let limit := done >? n_elems in
        let chunk := if limit then ws_chunk st - (done - n_elems) else ws_chunk st in
        let dto := if limit then chunk * data_size else ws_dto st in
        let dfrom := if limit then chunk * machine_size else ws_dfrom st in
        match conv chunk (ws_data st) with
        | Err e => (rev acc, e)
        | Ok bytes =>
            (* ADFI_write_file( ..., disk_pointer.offset, delta_to_bytes, to_data ) *)
            write_loop conv data_size machine_size n_elems fuel'
              {| ws_done := done; ws_chunk := chunk; ws_dfrom := dfrom; ws_dto := dto;
                 ws_data := dropZ dfrom (ws_data st); ws_off := ws_off st + dto |}
              ((ws_off st, takeZ dto bytes) :: acc)
        end
    end
  else (rev acc, NO_ERROR).

Definition write_translated_gen (conv : Z -> list Z -> res (list Z)) (machine_size data_size total_bytes : Z)
           (data : list Z) : list (Z * list Z) * Z :=
  if data_size <=? 0 then ([], ZERO_LENGTH_VALUE)
  else
    let n_elems := total_bytes / data_size in
    let chunk := CONVERSION_BUFF_SIZE / data_size in
    if chunk <? 1 then ([], REQUESTED_DATA_TOO_LONG)
    else write_loop conv data_size machine_size n_elems (S (Z.to_nat n_elems))
           {| ws_done := 0; ws_chunk := chunk; ws_dfrom := chunk * machine_size; ws_dto := chunk * data_size;
              ws_data := data; ws_off := 0 |} [].

Definition write_data_translated (mf mo ff fo : Z) (tt : toktype) (data_size total_bytes : Z)
           (data temp : list Z) : list (Z * list Z) * Z :=
  write_translated_gen (fun k d => convert_number_format mf mo ff fo false tt k d temp)
                       (tt_mbytes tt) data_size total_bytes data.

Fixpoint read_loop (conv : Z -> list Z -> res (list Z)) (data_size machine_size n_elems : Z) (fuel : nat)
         (st : wstate) (acc : list (list Z)) : list Z * Z :=
  if ws_done st <? n_elems then
    match fuel with
    | O => (concat (rev acc), ERR_FUEL)
    | S fuel' =>
        let done := ws_done st + ws_chunk st in
        let limit := done >? n_elems in
        let chunk := if limit then ws_chunk st - (done - n_elems) else ws_chunk st in
        let dfrom := if limit then chunk * data_size else ws_dfrom st in
        let dto := if limit then chunk * machine_size else ws_dto st in
        (* ADFI_read_file( ..., disk_pointer.offset, delta_from_bytes, from_to_data ) *)
        let buf := takeZ dfrom (ws_data st) in
        match conv chunk buf with
        | Err e => (concat (rev acc), e)
        | Ok bytes =>
            read_loop conv data_size machine_size n_elems fuel'
              {| ws_done := done; ws_chunk := chunk; ws_dfrom := dfrom; ws_dto := dto;
                 ws_data := dropZ dfrom (ws_data st); ws_off := ws_off st + dfrom |}
              (takeZ dto bytes :: acc)
        end
    end
  else (concat (rev acc), NO_ERROR).

Definition read_translated_gen (conv : Z -> list Z -> res (list Z)) (machine_size data_size total_bytes : Z)
           (file : list Z) : list Z * Z :=
  if data_size <=? 0 then ([], ZERO_LENGTH_VALUE)
  else
    let n_elems := total_bytes / data_size in
    let chunk := CONVERSION_BUFF_SIZE / data_size in
    if chunk <? 1 then ([], REQUESTED_DATA_TOO_LONG)
    else read_loop conv data_size machine_size n_elems (S (Z.to_nat n_elems))
           {| ws_done := 0; ws_chunk := chunk; ws_dfrom := chunk * data_size; ws_dto := chunk * machine_size;
              ws_data := file; ws_off := 0 |} [].

Definition read_data_translated (ff fo mf mo : Z) (tt : toktype) (data_size total_bytes : Z)
           (file temp : list Z) : list Z * Z :=
  read_translated_gen (fun k d => convert_number_format ff fo mf mo true tt k d temp)
                      (tt_mbytes tt) data_size total_bytes file.

(* ---------------------------------------------------------------- node data transfers (data chunk level) *)
(* apply a list of ADFI_write_file calls to the node's data bytes (offsets relative to [base]) *)
Definition blit (buf : list Z) (pos : Z) (bytes : list Z) : list Z :=
  takeZ pos buf ++ bytes ++ dropZ (pos + lenZ bytes) buf.
Definition apply_writes (buf : list Z) (base : Z) (ws : list (Z * list Z)) : list Z :=
  fold_left (fun b w => blit b (base + fst w) (snd w)) ws buf.

(* ADFI_write_data_chunk's data part: total_bytes of the node's data starting at start_offset are
   (re)written from the caller's buffer.  Returns the new node data and *error_return. *)
Definition chunk_write (m : machine) (old_version : bool) (h : header) (tt : toktype)
           (node_data : list Z) (start_offset total_bytes : Z) (data temp : list Z) : list Z * Z :=
  match file_and_machine_compare m old_version h (Some tt) with
  | Err e => (node_data, e)
  | Ok true => (blit node_data start_offset (takeZ total_bytes data), NO_ERROR)
  | Ok false =>
      let '(mf, mo) := machine_format_of m in
      let '(ws, e) := write_data_translated mf mo (h_format h) (h_os h) tt (tt_fbytes tt) total_bytes data temp in
      (apply_writes node_data start_offset ws, e)
  end.

(* ADFI_read_data_chunk's data part: returns the bytes delivered to the caller and *error_return *)
Definition chunk_read (m : machine) (old_version : bool) (h : header) (tt : toktype)
           (node_data : list Z) (start_offset total_bytes : Z) (temp : list Z) : list Z * Z :=
  match file_and_machine_compare m old_version h (Some tt) with
  | Err e => ([], e)
  | Ok true => (takeZ total_bytes (dropZ start_offset node_data), NO_ERROR)
  | Ok false =>
      let '(mf, mo) := machine_format_of m in
      read_data_translated (h_format h) (h_os h) mf mo tt (tt_fbytes tt) total_bytes
                           (dropZ start_offset node_data) temp
  end.

(* ---------------------------------------------------------------- element-level view used by the theorems *)
(* one element of a simple type: machine bytes -> file bytes and back, as the translated paths do it *)
Definition to_file1 (m : machine) (h : header) (t : dtype) (x temp : list Z) : res (list Z) :=
  let '(mf, mo) := machine_format_of m in
  bindr (evaluate_datatype h t) (fun tt => convert_number_format mf mo (h_format h) (h_os h) false tt 1 x temp).
Definition from_file1 (m : machine) (h : header) (t : dtype) (y temp : list Z) : res (list Z) :=
  let '(mf, mo) := machine_format_of m in
  bindr (evaluate_datatype h t) (fun tt => convert_number_format (h_format h) (h_os h) mf mo true tt 1 y temp).

(* ---------------------------------------------------------------- ADF_Database_Open( ..., "NEW", format ) *)
(* the format part: figure_machine_format (its error is overwritten by the following string-length checks),
   then fill_initial_file_header; the header bytes then go to the file; the last step of Open is
   ADFI_file_and_machine_compare( file_index, NULL, ... ) *)
Definition database_open_new (m : machine) (fmt : option (list Z)) (garb : Z * Z * Z) : res header :=
  let '(_, _, fu, ou) := figure_machine_format m fmt garb in
  bindr (fill_initial_file_header m fu ou) (fun h =>
  bindr (parse_header_bytes (header_bytes h)) (fun h' =>
  bindr (file_and_machine_compare m false h' None) (fun _ => Ok h'))).

(* re-opening an existing file: parse, then the same compare *)
Definition database_open_old (m : machine) (old_version : bool) (b : list Z) : res header :=
  bindr (parse_header_bytes b) (fun h =>
  bindr (file_and_machine_compare m old_version h None) (fun _ => Ok h)).
