(* Properties_C07.v -- exported theorems of property C07 (a file opened read-only is never changed, and reads never
   mutate).  Generic theorems are about the skeleton machine of Gates.v for ANY table; the table-level theorems are
   evaluated by the kernel (vm_compute) on coq/Gen_C07.v, REGENERATED from the current sources on every run. *)
From Coq Require Import List String Bool PArith FSetPositive.
From CgnsV Require Import Gates GatesProofs Gen_C07.
Import ListNotations.

(* the call-graph analysis of the regenerated table: primitive effects, the four closures, the gated set *)
Definition A : analysis := Eval vm_compute in analyse Gen_C07.table Gen_C07.externs.

(* the translator classified every statement of every function, every callee outside the three files is known by name,
   and the sets A are closed under "has a touching event" / consistent for gates (so they over-approximate the least
   fixpoints; fuel = number of (function, context) pairs was enough) *)
Theorem C07_every_function_parsed :
  all_parsed_b Gen_C07.table = true /\ unknown_externs Gen_C07.externs = [] /\ Gen_C07.api_undefined = [].
Proof. vm_compute. repeat split; reflexivity. Qed.
Print Assumptions C07_every_function_parsed.

Theorem C07_analysis_closed : an_ok Gen_C07.table A = true.
Proof. vm_compute. reflexivity. Qed.
Print Assumptions C07_analysis_closed.

(* every entry point that can reach a file effect on a read-mode handle passes an unconditional, returning mode gate
   (cgi_check_mode(.., CG_MODE_WRITE), the modify test of cg_delete_node, get_cgnsio(n, 1), or an unconditional returning
   call of a function that is itself gated) before any effect, store through the tree, non-failing return or goto --
   except the functions named in Gates.known_ungated / known_impure_readers (findings `ungated:<name>`) *)
Theorem C07_mutators_gated : mutators_gated_b Gen_C07.table A = true.
Proof. vm_compute. reflexivity. Qed.
Print Assumptions C07_mutators_gated.

(* every entry point not documented as a writer reaches no file effect in ANY mode, except Gates.known_impure_readers *)
Theorem C07_readers_pure : readers_pure_b Gen_C07.table A = true.
Proof. vm_compute. reflexivity. Qed.
Print Assumptions C07_readers_pure.

(* the 14 mutating dispatch functions of cgns_io.c demand write access (get_cgnsio(n, 1)) before dispatching, except
   cgio_write_block_data (Gates.known_ungated) *)
Theorem C07_cgio_gated : cgio_gated_b Gen_C07.table A = true.
Proof. vm_compute. reflexivity. Qed.
Print Assumptions C07_cgio_gated.

(* GENERIC: for any table and any analysis that passes an_ok, any sequence of calls -- each of a gated function or of a
   function outside the file-mutator closure -- on a read-mode handle, with any oracles and any fuel, leaves the file
   unchanged, and every gated call returns a failure *)
Theorem C07_ro_unchanged : forall t a,
    an_ok t a = true ->
    forall fuel calls s rs s',
      (forall id o, In (id, o) calls -> PositiveSet.mem id (a_G a) = true \/ inset (a_S a) id CW = false) ->
      run_seq (rows_of t) (fun i => PositiveSet.mem i (a_prim a)) FRead fuel calls s = (rs, s') ->
      s_file s' = s_file s /\
      Forall2 (fun cl r => PositiveSet.mem (fst cl) (a_G a) = true -> r <> ROK) calls rs.
Proof. exact table_ro_unchanged. Qed.
Print Assumptions C07_ro_unchanged.

(* ... and a gated call changes neither file nor tree *)
Theorem C07_gated_call_rejected : forall t a,
    an_ok t a = true ->
    forall fuel id o s r s' o',
      PositiveSet.mem id (a_G a) = true ->
      run (rows_of t) (fun i => PositiveSet.mem i (a_prim a)) FRead fuel CW id o s = (r, s', o') ->
      r <> ROK /\ s_file s' = s_file s /\ s_mir s' = s_mir s.
Proof. exact table_gated_call. Qed.
Print Assumptions C07_gated_call_rejected.

(* GENERIC: a function outside the all-modes closure leaves the file unchanged in EVERY open mode *)
Theorem C07_reader_no_effect_any_mode : forall t a,
    an_ok t a = true ->
    forall mode fuel id o s r s' o',
      inset (a_Sany a) id CW = false ->
      run (rows_of t) (fun i => PositiveSet.mem i (a_prim a)) mode fuel CW id o s = (r, s', o') ->
      s_file s' = s_file s.
Proof. exact table_pure_any_mode. Qed.
Print Assumptions C07_reader_no_effect_any_mode.

(* the instance for the CURRENT code: every call sequence over the entry points of the current table that are in the
   domain (public, not cg_open / cgio_open_file / cg_save_as) and not among the named exceptions *)
Definition current_ok (id : positive) : Prop :=
  exists r, rows_of Gen_C07.table id = Some r /\ in_domain r = true /\
            smem (rname r) known_ungated = false /\ smem (rname r) known_impure_readers = false.

Opaque A.
Theorem C07_ro_unchanged_current : forall fuel calls s rs s',
    (forall id o, In (id, o) calls -> current_ok id) ->
    run_seq (rows_of Gen_C07.table) (fun i => PositiveSet.mem i (a_prim A)) FRead fuel calls s = (rs, s') ->
    s_file s' = s_file s /\
    Forall2 (fun cl r => inset (a_S A) (fst cl) CW = true -> r <> ROK) calls rs.
Proof.
  intros fuel calls s rs s' Hd Hr.
  assert (Hdom : forall id o, In (id, o) calls -> PositiveSet.mem id (a_G A) = true \/ inset (a_S A) id CW = false).
  { intros id o Hi. destruct (Hd id o Hi) as [r [Hr0 [Hdm [Hk1 Hk2]]]].
    destruct (rows_of_in _ _ _ Hr0) as [Hin Hid].
    pose proof C07_mutators_gated as Hm. unfold mutators_gated_b in Hm. rewrite forallb_forall in Hm.
    specialize (Hm r Hin). unfold mutator_row_ok in Hm. rewrite Hdm, Hk1, Hk2, Hid in Hm.
    destruct (inset (a_S A) id CW); [left|right; reflexivity].
    cbn [implb andb] in Hm. rewrite !orb_false_r in Hm. exact Hm. }
  destruct (table_ro_unchanged _ _ C07_analysis_closed fuel calls s rs s' Hdom Hr) as [Hf HF].
  split; [exact Hf|].
  clear Hr Hf. revert Hd Hdom. induction HF as [|[id o] r cs rs0 H1 HF IH]; intros Hd Hdom; constructor.
  - cbn [fst] in *. intros Hs. destruct (Hdom id o (or_introl eq_refl)) as [Hg|Hn]; [exact (H1 Hg)|congruence].
  - apply IH; intros; [eapply Hd|eapply Hdom]; right; eassumption.
Qed.
Print Assumptions C07_ro_unchanged_current.
Transparent A.

(* non-vacuity: a three-row table in which the machine DOES change the file through an un-gated writer, is rejected at
   the gate of a gated writer, and runs a pure reader to completion *)
Example C07_machine_example :
  let w_gated := mkRow 2 "w_gated" (Api DocWrite) FMll
        [Ev KGetFile 1 false true false false; Ev (KCheckMode MWrite) 1 false true false false;
         Ev (KCall ANone) 9 false true false false; Ev (KRet ROk WNone) 1 false false false false] in
  let w_open := mkRow 3 "w_open" (Api DocWrite) FMll
        [Ev (KCall ANone) 9 false true false false; Ev (KRet ROk WNone) 1 false false false false] in
  let rd := mkRow 4 "rd" (Api DocRead) FMll [Ev (KCheckMode MRead) 1 false true false false; Ev (KRet ROk WNone) 1 false false false false] in
  let t := [w_gated; w_open; rd] in
  let prim := fun i => Pos.eqb i 9 in
  let s0 := St [] [] false in
  fst (fst (run (rows_of t) prim FRead 5 CW 2 [] s0)) = RINV /\ s_file (snd (fst (run (rows_of t) prim FRead 5 CW 2 [] s0))) = [] /\
  fst (fst (run (rows_of t) prim FRead 5 CW 3 [] s0)) = ROK /\ s_file (snd (fst (run (rows_of t) prim FRead 5 CW 3 [] s0))) = [9%positive] /\
  fst (fst (run (rows_of t) prim FModify 5 CW 2 [] s0)) = ROK /\ s_file (snd (fst (run (rows_of t) prim FModify 5 CW 2 [] s0))) = [9%positive] /\
  fst (fst (run (rows_of t) prim FRead 5 CW 4 [] s0)) = ROK /\
  let a := analyse t [(9%positive, "ADF_Create"%string)] in
  an_ok t a = true /\ mutators_gated_b t a = false /\ PositiveSet.mem 2%positive (a_G a) = true /\ PositiveSet.mem 3%positive (a_G a) = false.
Proof. vm_compute. repeat split; reflexivity. Qed.
