(* Properties_C02b.v -- exported theorems about the concrete ADF mechanisms property C02 singles out ("internal
   buffers and caches are never observable"): the two shared 4096-byte block buffers (AdfCache.v), the 50-entry
   priority stack (AdfStack.v) and the sub-node table (AdfChildTab.v).  They complement Properties_C02.v (laws of
   the ideal tree).  Only statements closed by [exact]; Print Assumptions under each; Examples for non-vacuity. *)
From Coq Require Import ZArith List Bool.
From CgnsV Require Import AdfCache AdfCacheProofs AdfStack AdfStackProofs AdfChildTab AdfChildTabProofs AdfMove AdfMoveProofs.
Import ListNotations.
Local Open Scope Z_scope.

(* ---- 1. the shared block buffers ----
   For EVERY history of open / read / write / flush / flush-close / close operations over any files in which every
   step satisfies [safe_step], the operation after any prefix behaves as the ideal store says ([good_step]):
   a read returns exactly the ideal store's bytes wherever they are defined, and fails only when the file is not
   open or a requested byte was never written; after FLUSH / FLUSH_CLOSE / close the file agrees with the ideal
   store on every byte ever written ([disk_agrees]). *)
Theorem C02_cache_coherent : forall pre p,
  safe_hist init_st (pre ++ [p]) = true ->
  good_step (ideal_exec ideal0 pre) (exec init_st pre) p
            (fst (step (exec init_st pre) p)) (snd (step (exec init_st pre) p)).
Proof. exact cache_coherent. Qed.
Print Assumptions C02_cache_coherent.

(* EXACTLY when a read of an open file answers FREAD_ERROR -- in every state, no side condition (ADFI_read_file as of
   /repo 82c39a0: bytes beyond what the last, short block of a file holds are refused instead of served from stale
   buffer contents): a block-crossing read iff the file ends before the last requested byte; a read inside a block iff
   the block has no byte for it ([block_avail]: the fill count of a current read buffer, 4096 for the block the write
   buffer holds, else what the file has of that block) or the length is negative.  Otherwise bytes are returned. *)
Theorem C02_cache_read_error_exact : forall s f b o len d, fget s f = Some d ->
  (fst (read_file s f b o len) = RErr FREAD_ERROR <-> read_fails s d f b o len = true) /\
  (read_fails s d f b o len = false -> exists bs, fst (read_file s f b o len) = RBytes bs).
Proof. exact read_file_error_exact. Qed.
Print Assumptions C02_cache_read_error_exact.

(* [safe_step] cannot be dropped: one witness history per hole, everything else in it safe. *)
Theorem C02_cache_unsafe_refuted :
  (safe_flags init_st (wit_hole1 ++ [ORead 0 0 0 1]) = [true; true; true; false; true] /\
   fst (step (exec init_st wit_hole1) (ORead 0 0 0 1)) = RBytes [7] /\
   ideal_at (ideal_exec ideal0 wit_hole1) 0 0 = Some 9) /\
  (safe_flags init_st (wit_hole2 ++ [ORead 0 0 0 5000]) = [true; true; false] /\
   (exists bs, fst (step (exec init_st wit_hole2) (ORead 0 0 0 5000)) = RBytes bs /\ nth 0 bs 0 = 1) /\
   ideal_at (ideal_exec ideal0 wit_hole2) 0 0 = Some 7).
Proof. exact cache_unsafe_refuted. Qed.
Print Assumptions C02_cache_unsafe_refuted.

(* Operations on other files never change what file f reads: the ideal content of f is a function of f's own
   sub-history, and two safe histories with the same sub-history on f answer a read of f alike. *)
Theorem C02_cache_files_independent : forall f h1 h2 b o len,
  proj f h1 = proj f h2 ->
  safe_hist init_st (h1 ++ [ORead f b o len]) = true ->
  safe_hist init_st (h2 ++ [ORead f b o len]) = true ->
  (forall p, ideal_at (ideal_exec ideal0 h1) f p = ideal_at (ideal_exec ideal0 (proj f h1)) f p) /\
  read_post (ideal_exec ideal0 (proj f h1)) f b o len (fst (step (exec init_st h1) (ORead f b o len))) /\
  read_post (ideal_exec ideal0 (proj f h1)) f b o len (fst (step (exec init_st h2) (ORead f b o len))).
Proof. exact cache_files_independent. Qed.
Print Assumptions C02_cache_files_independent.

Example C02_cache_nonvacuous :
  safe_hist init_st [OOpen 0 (disk_of_list []); OOpen 1 (disk_of_list [1;2;3]); OWrite 0 0 10 [7;8];
                     OWrite 1 0 1 [9]; ORead 0 0 10 2; OWrite 0 0 0 nines; ORead 1 0 0 3; OFlush 0;
                     ORead 0 1 0 100; OClose 0; OClose 1] = true.
Proof. vm_compute. reflexivity. Qed.

(* ---- 2. the priority stack ----
   For EVERY history of well-formed calls: never more than 50 entries, at most one per address; the table denotes
   the abstract cache (address -> type, data) that results from the same calls and the evictions made; and any
   further call -- every GET -- answers exactly as the abstract cache does: the data of the most recent SET at
   that address if no clear / delete / eviction / wrong-type GET removed it since and the type matches, else
   "not found" ([ideal_result], [ideal_sstep]). *)
Theorem C02_stack_lookup : forall h u p,
  valid_hist h = true -> valid_sop p = true ->
  let s := srun init_sst h in
  let m := ideal_srun init_sst amap0 h in
  WF (stk s) /\ length (stk s) = MAX_STACK /\ (live_count (stk s) <= MAX_STACK)%nat /\
  agree (abs (stk s)) m /\
  fst (fst (sstep u s p)) = ideal_result u m p.
Proof. exact stack_lookup. Qed.
Print Assumptions C02_stack_lookup.

(* In the form the callers need: over traces interleaving the stack calls with the bytes ADFI_write_file stores,
   if the callers keep the discipline [disciplined] (every write path SETs or DELs the entry it overwrites before
   it is looked up again; SET passes the bytes just written or read) then every GET hit returns exactly the bytes
   the ideal store holds at that address NOW. *)
Theorem C02_stack_never_stale : forall pre u f b o ty len d,
  disciplined init_tst (pre ++ [TStack u (SGet f b o ty len)]) = true ->
  fst (fst (sstep u (t_stk (trun init_tst pre)) (SGet f b o ty len))) = SFound d ->
  d = bs_get (t_store (trun init_tst pre)) f (b * BLK + o) (Z.to_nat len).
Proof. exact stack_never_stale. Qed.
Print Assumptions C02_stack_never_stale.

Theorem C02_stack_clear_resets_link_cache : forall u s p,
  (p = SInit \/ (exists f, p = SClear f) \/ (exists f ty, p = SClearType f ty)) ->
  fst (fst (sstep u s p)) = SOk -> last_link (snd (fst (sstep u s p))) = 0.
Proof. exact clear_resets_link. Qed.
Print Assumptions C02_stack_clear_resets_link_cache.

Example C02_stack_nonvacuous :
  disciplined init_tst [TOpen 0 (disk_of_list [1;2;3;4;5;6;7;8]); TStack true (SSet 0 0 2 2 [3;4;5]);
                        TWrite 0 3 [9;9]; TStack true (SSet 0 0 2 2 [3;9;9]); TStack true (SGet 0 0 2 2 3);
                        TWrite 0 0 [0]; TStack true (SGet 0 0 2 2 3)] = true /\
  disciplined init_tst [TOpen 0 (disk_of_list [1;2;3;4;5;6;7;8]); TStack true (SSet 0 0 2 2 [3;4;5]);
                        TWrite 0 3 [9;9]; TStack true (SGet 0 0 2 2 3)] = false.
Proof. split; vm_compute; reflexivity. Qed.

(* ---- 3. the sub-node table ----
   For EVERY add / delete / rename history (names the API lets through; below 8 million calls, where the (float)
   growth arithmetic is exact) the model never leaves its domain, the first num entries of the table ARE the ideal
   ordered list (append at the end, delete keeps the relative order of the others, rename in place), names are
   unique because adds and renames are guarded by ADFI_check_4_child_name, and count <= capacity. *)
Theorem C02_children_refine_list : forall h,
  forallb good_op h = true -> Z.of_nat (length h) < 8000000 ->
  exists t, crun empty_tab h = Some t /\
            children t = ideal_crun [] h /\
            NoDup (map fst (children t)) /\
            0 <= num t <= cap t /\ length (ents t) = Z.to_nat (cap t) /\
            (cap t = 0 \/ LIST_CHUNK <= cap t).
Proof. exact children_refine_list. Qed.
Print Assumptions C02_children_refine_list.

Theorem C02_children_delete_keeps_order : forall l child,
  (has_ptr l child = false /\ ideal_cstep l (CDel child) = l) \/
  (exists a e b, l = a ++ e :: b /\ ptr_eqb (snd e) child = true /\ has_ptr a child = false /\
                 ideal_cstep l (CDel child) = a ++ b).
Proof. exact ideal_del_keeps_order. Qed.
Print Assumptions C02_children_delete_keeps_order.

(* ---- ADF_Move_Child over the two sub-node tables it touches (AdfMove.v): the call is atomic -- whatever it returns
        other than NO_ERROR, the parent's and the new parent's table are what they were; in particular a parent that is
        not the child's parent (even one that has a child of the same name) is refused before anything is written *)
Theorem C02_move_child_atomic : forall src dst nm hdr child r src' dst',
  WFc src -> WFc dst ->
  move_child MvCur src dst nm hdr child = (r, src', dst') -> r <> MOk -> src' = src /\ dst' = dst.
Proof. exact move_cur_error_changes_nothing. Qed.
Print Assumptions C02_move_child_atomic.

(* a successful call removes the child's entry from the parent's ordered list and appends it to the new parent's,
   which had no child of that name *)
Theorem C02_move_child_ok_spec : forall v src dst nm hdr child src' dst',
  WFc src -> WFc dst -> cap dst < FLOAT_EXACT ->
  move_child v src dst nm hdr child = (MOk, src', dst') ->
  WFc src' /\ WFc dst' /\
  children src' = remove_first (children src) child /\
  children dst' = children dst ++ [(hdr, child)] /\
  has_name (children dst) nm = false.
Proof. exact move_ok_spec. Qed.
Print Assumptions C02_move_child_ok_spec.

(* before /repo 730e850 the name alone identified the child: the witness (a wrong parent with a child of the same
   name) adds the node to the new parent and then fails; the current code refuses it untouched *)
Theorem C02_move_child_old_refuted :
  WFc w_src /\ WFc w_dst /\
  (exists e d', move_child MvOld w_src w_dst w_name w_hdr w_child = (MErr e, w_src, d') /\
                children d' = [(w_hdr, w_child)]) /\
  move_child MvCur w_src w_dst w_name w_hdr w_child = (MErr CHILD_NOT_OF_GIVEN_PARENT, w_src, w_dst).
Proof. exact move_old_not_atomic_refuted. Qed.
Print Assumptions C02_move_child_old_refuted.

Example C02_children_nonvacuous :
  option_map (fun t => (cap t, num t, map snd (children t)))
    (crun empty_tab [CAdd [65] (1,0); CAdd [66] (1,246); CAdd [65] (1,492); CAdd [67] (2,0); CDel (1,0);
                     CRename [66] [68]; CAdd [69] (3,0); CAdd [70] (3,1); CAdd [71] (3,2); CAdd [72] (3,3);
                     CAdd [73] (3,4); CAdd [74] (3,5); CAdd [75] (3,6)])
  = Some (12, 9, [(1,246); (2,0); (3,0); (3,1); (3,2); (3,3); (3,4); (3,5); (3,6)]).
Proof. vm_compute. reflexivity. Qed.
