(* Extract_c08.v -- extraction of the link model (Links.v over TreeDB) to OCaml; ExtrOcamlBasic only. *)
From Coq Require Import Extraction ExtrOcamlBasic.
From CgnsV Require Import TreeDB Links.
Extraction Language OCaml.
Set Extraction KeepSingleton.
Extraction "extracted/c08/model.ml"
  Links.ast0 Links.adf_open Links.adf_close Links.adf_mutate Links.adf_read Links.adf_lookup Links.adf_setenv
  Links.h5_open Links.h5_mutate Links.h5_get Links.h5_lookup Links.disk_set Links.disk_del Links.find_file
  Links.resolve Links.with_disk Links.adf_link_of Links.disk_get TreeDB.children TreeDB.find_node Links.file_open Links.mll_set_path Links.mll_add_path Links.mll_configure.
