From Coq Require Import ZArith List Bool Lia.
From CgnsV Require Import ListX ElemSplice ElemSpliceProofs ElemSplicePolyProofs.
Import ListNotations.
Local Open Scope Z_scope.

(* ---- 5. histories of partial writes ------------------------------------------------------------------------------- *)
Definition pwrite := (dtype * Z * list (list Z))%type.     (* memory type, start, new elements *)
Fixpoint poly_spec_run (ph : list Z) (f : Z) (E : list (list Z)) (ws : list pwrite) : Z * list (list Z) :=
  match ws with
  | [] => (f, E)
  | (_, start, N) :: r => poly_spec_run ph (Z.min f start) (splice ph f E start N) r
  end.
Fixpoint poly_impl_run (pv : pvariant) (st : section) (ws : list pwrite) : res section :=
  match ws with
  | [] => ROk st
  | (mt, start, N) :: r =>
      match poly_elements_general_write pv st start (start + lenZ N - 1) mt (concat N) (offs_from 0 N) with
      | ROk st' => poly_impl_run pv st' r
      | RErr => RErr | RFault => RFault
      end
  end.

Theorem poly_history_is_splice pv ws : forall st f E slack,
  rep_poly st f E slack -> s_par st = None ->
  Forall (fun w : pwrite => snd w <> [] /\ nonempty_all (snd w)) ws ->
  exists st' slack', poly_impl_run pv st ws = ROk st' /\
     rep_poly st' (fst (poly_spec_run (ph_of (s_type st)) f E ws)) (snd (poly_spec_run (ph_of (s_type st)) f E ws)) slack' /\
     s_par st' = None /\ s_type st' = s_type st /\ s_dt st' = s_dt st.
Proof.
  induction ws as [|[[mt start] N] r IH]; intros st f E slack R Hpar HW.
  - exists st, slack. simpl. auto.
  - inversion HW as [|? ? [HN AN] HR]; subst. simpl in HN, AN.
    destruct (poly_write_is_splice pv st f E slack start N mt R Hpar HN AN) as (st1 & sl1 & W & R1 & P1 & T1 & D1).
    destruct (IH st1 _ _ sl1 R1 P1 HR) as (st' & sl' & W' & R' & P' & T' & D').
    exists st', sl'. simpl. rewrite W. rewrite T1 in R'.
    split; [exact W'|]. split; [exact R'|]. split; [exact P'|]. split; congruence.
Qed.

(* ---- 6. reads ---------------------------------------------------------------------------------------------------- *)
Lemma range_decomp f (E : list (list Z)) a b :
  f <= a -> a <= b -> b <= f + lenZ E - 1 ->
  exists Hd Mid T, E = Hd ++ Mid ++ T /\ a = f + lenZ Hd /\ lenZ Mid = b - a + 1 /\ slice_elems f E a b = Mid.
Proof.
  intros H1 H2 H3.
  exists (firstn (Z.to_nat (a - f)) E), (firstn (Z.to_nat (b - a + 1)) (skipn (Z.to_nat (a - f)) E)),
         (skipn (Z.to_nat (a - f) + Z.to_nat (b - a + 1)) E).
  split; [apply three_way|]. split; [rewrite lenZ_firstnZ; lia|]. split; [|reflexivity].
  unfold lenZ. rewrite firstn_length, skipn_length. unfold lenZ in *. lia.
Qed.

Lemma offs_three b Hd Mid T :
  offs_from b (Hd ++ Mid ++ T) = offs_init b Hd ++ offs_from (b + clen Hd) Mid ++ tl (offs_from (b + clen Hd + clen Mid) T).
Proof. now rewrite offs_from_app, offs_from_app_tl. Qed.

Lemma rebase_offs c M : rebase (offs_from c M) = offs_from 0 M.
Proof.
  unfold rebase. replace (hd 0 (offs_from c M)) with c by (destruct M; reflexivity).
  rewrite (map_ext _ (fun v => v + (- c))) by (intros; lia). rewrite offs_shift. f_equal. lia.
Qed.

(* cg_poly_elements_partial_read: from the file (not cached, stored as cgsize_t) or through the cache it fills
   (cached, or stored as I4); the start offsets come back rebased to 0. *)
Theorem poly_partial_read_is_slice st f E slack a b :
  rep_poly st f E slack -> f <= a -> a <= b -> b <= f + lenZ E - 1 ->
  exists st', poly_elements_partial_read st a b false
              = ROk (st', [concat (slice_elems f E a b); offs_from 0 (slice_elems f E a b)])
              /\ rep_poly st' f E slack /\ s_par st' = s_par st /\ s_type st' = s_type st /\ s_dt st' = s_dt st.
Proof.
  intros R H1 H2 H3.
  destruct (range_decomp f E a b H1 H2 H3) as (Hd & Mid & T & EQ & HA & LM & ->).
  pose proof (rq_all _ _ _ _ R) as A. rewrite EQ in A. apply Forall_app in A as [A1 A2]. apply Forall_app in A2 as [A2 A3].
  pose proof (nonempty_all_clen Mid A2) as CM.
  pose proof (lenZ_nonneg Hd). pose proof (lenZ_nonneg T). pose proof (lenZ_nonneg slack).
  pose proof (clen_nonneg T). pose proof (clen_nonneg Hd).
  unfold poly_elements_partial_read.
  rewrite (rq_r0 _ _ _ _ R), (rq_r1 _ _ _ _ R), (rq_hasoff _ _ _ _ R). zb. cbn [orb negb].
  destruct (read_offset_data_rep st f E slack R) as (s0 & -> & F0).
  destruct F0 as (F01 & F02 & F03 & F04 & F05 & F06 & F07 & F08 & F09 & F010 & F011 & F012).
  assert (O1 : nthZ (offs_from 0 E) (a - f) undef = clen Hd).
  { rewrite EQ. rewrite (nthZ_offs_app 0 Hd) by lia. lia. }
  assert (O2 : nthZ (offs_from 0 E) (b - f + 1) undef = clen Hd + clen Mid).
  { rewrite EQ, (app_assoc Hd Mid T). rewrite (nthZ_offs_app 0 (Hd ++ Mid)) by (lens; lia). rewrite clen_app. lia. }
  rewrite O1, O2.
  assert (CO : rebase (slice (offs_from 0 E) (a - f) (b - a + 2)) = offs_from 0 Mid).
  { rewrite EQ, offs_three. rewrite slice_at by (rewrite ?offs_init_length, ?offs_from_length; lia). apply rebase_offs. }
  rewrite CO.
  assert (LT : (lenZ (offs_from 0 E) <? b - f + 2) = false) by (rewrite offs_from_length; zb; reflexivity).
  rewrite LT.
  assert (CONN : s_conn st = concat Hd ++ concat Mid ++ concat T ++ slack).
  { rewrite (rq_conn _ _ _ _ R), EQ, !concat_app, <- !app_assoc. reflexivity. }
  assert (PP : forall s', parent_partial s' a b false = ROk (s', [])) by reflexivity.
  destruct (is_none (s_conn_mem s0) && is_size_t (s_dt s0)) eqn:HB.
  - rewrite F06, CONN.
    rewrite (file_read_at (concat Hd) (concat Mid) (concat T ++ slack)) by (lens2; lia).
    rewrite PP. eexists. split; [reflexivity|]. split; [|auto].
    constructor; rewrite ?F01, ?F03, ?F04, ?F05, ?F06, ?F07, ?F08, ?F09, ?F010, ?F011; auto; try apply R.
    intros _. discriminate.
  - destruct (read_element_data_rep s0 st f E slack R F05 F06 F07) as (s1 & -> & F1).
    destruct F1 as (F11 & F12 & F13 & F14 & F15 & F16 & F17 & F18 & F19 & F110 & F111 & F112).
    replace (clen Hd + clen Mid - clen Hd) with (clen Mid) by lia.
    assert (LD : lenZ (concat E ++ slack) = clen Hd + clen Mid + clen T + lenZ slack).
    { rewrite EQ. lens2. lia. }
    rewrite LD. zb. cbn [orb].
    assert (SL : slice (concat E ++ slack) (clen Hd) (clen Mid) = concat Mid).
    { rewrite EQ, !concat_app, <- !app_assoc. now apply slice_at. }
    rewrite SL, PP. eexists. split; [reflexivity|]. split; [|repeat split; congruence].
    constructor; rewrite ?F11, ?F13, ?F14, ?F15, ?F16, ?F17, ?F18, ?F19, ?F110, ?F111,
                         ?F01, ?F03, ?F04, ?F05, ?F06, ?F07, ?F08, ?F09, ?F010, ?F011; auto; try apply R.
    intros _. discriminate.
Qed.

(* cg_poly_elements_general_read: always from the two nodes on file; state unchanged *)
Theorem poly_general_read_is_slice st f E slack a b mt :
  rep_poly st f E slack -> f <= a -> a <= b -> b <= f + lenZ E - 1 ->
  poly_elements_general_read st a b mt
  = ROk (st, [concat (slice_elems f E a b); offs_from 0 (slice_elems f E a b)]).
Proof.
  intros R H1 H2 H3.
  destruct (range_decomp f E a b H1 H2 H3) as (Hd & Mid & T & EQ & HA & LM & ->).
  pose proof (rq_all _ _ _ _ R) as A. rewrite EQ in A. apply Forall_app in A as [A1 A2]. apply Forall_app in A2 as [A2 A3].
  pose proof (nonempty_all_clen Mid A2) as CM.
  pose proof (lenZ_nonneg Hd). pose proof (lenZ_nonneg T). pose proof (lenZ_nonneg slack).
  pose proof (clen_nonneg T). pose proof (clen_nonneg Hd).
  unfold poly_elements_general_read.
  rewrite (rq_r0 _ _ _ _ R), (rq_r1 _ _ _ _ R), (rq_hasoff _ _ _ _ R). zb. cbn [orb negb].
  rewrite (rq_off _ _ _ _ R), EQ, offs_three.
  rewrite (file_read_at (offs_init 0 Hd) (offs_from (0 + clen Hd) Mid))
    by (rewrite ?offs_init_length, ?offs_from_length; lia).
  replace (hd 0 (offs_from (0 + clen Hd) Mid)) with (clen Hd) by (destruct Mid; simpl; lia).
  replace (b - a + 1) with (lenZ Mid) by lia. rewrite nthZ_offs_from_last.
  zb.
  rewrite (rq_conn _ _ _ _ R), EQ, !concat_app, <- !app_assoc.
  rewrite (file_read_at (concat Hd) (concat Mid) (concat T ++ slack)) by (lens2; lia).
  now rewrite rebase_offs.
Qed.

(* the rebased offsets, pointwise: off'[i] = off[first + i] - off[first] *)
Lemma poly_read_offsets_rebased f E a b i :
  f <= a -> a <= b -> b <= f + lenZ E - 1 -> 0 <= i <= b - a + 1 ->
  nthZ (offs_from 0 (slice_elems f E a b)) i 0
  = nthZ (offs_from 0 E) (a - f + i) 0 - nthZ (offs_from 0 E) (a - f) 0.
Proof.
  intros H1 H2 H3 Hi.
  destruct (range_decomp f E a b H1 H2 H3) as (Hd & Mid & T & EQ & HA & LM & ->).
  pose proof (lenZ_nonneg Hd).
  rewrite EQ. rewrite (nthZ_offs_app 0 Hd (Mid ++ T) (a - f)) by lia.
  rewrite nthZ_offs_from by lia.
  rewrite nthZ_offs_from by (lens; pose proof (lenZ_nonneg T); lia).
  replace (Z.to_nat (a - f + i)) with (length Hd + Z.to_nat i)%nat by (unfold lenZ in *; lia).
  rewrite firstn_app_2, clen_app. rewrite firstn_app.
  replace (Z.to_nat i - length Mid)%nat with 0%nat by (unfold lenZ in *; lia).
  cbn [firstn]. rewrite app_nil_r. lia.
Qed.

(* ---- cg_poly_elements_read (the whole section) and its "double check" ---------------------------------------------- *)
(* a MIXED element is (type, nodes...) with cg_npe type = number of nodes > 0 *)
Definition mixed_elem_ok (e : list Z) : Prop :=
  match e with t :: r => cg_npe t = Some (lenZ r) /\ 0 < lenZ r | [] => False end.
Definition elems_ok (type : Z) (E : list (list Z)) : Prop := type = MIXED -> Forall mixed_elem_ok E.

Lemma mixed_walk_spec E : Forall mixed_elem_ok E -> forall pre post,
  mixed_walk (length E) (pre ++ concat E ++ post) (lenZ pre) = lenZ pre + clen E.
Proof.
  induction 1 as [|e E He HE IH]; intros pre post.
  - simpl. rewrite clen_nil. lia.
  - destruct e as [|t r]; [contradiction|]. destruct He as [Hn Hp].
    cbn [length mixed_walk concat]. rewrite <- !app_assoc. cbn [app].
    rewrite nthZ_app_at, Hn. zb.
    replace (pre ++ t :: r ++ concat E ++ post) with ((pre ++ t :: r) ++ concat E ++ post)
      by (rewrite <- app_assoc; reflexivity).
    replace (lenZ pre + 1 + lenZ r) with (lenZ (pre ++ t :: r)) by (lens; lia).
    rewrite IH. rewrite clen_cons. lens. lia.
Qed.

(* node size = what the start offsets say (no reserved space behind the elements) *)
Definition slack_free_b (st : section) : bool :=
  s_dim st =? nthZ (s_off st) (s_r1 st - s_r0 st + 1) 0 - nthZ (s_off st) 0 0.
(* when the full read answers, per variant of its double check *)
Definition full_read_pre (rv : rvariant) (st : section) : bool :=
  match rv with
  | RFixed => true
  | RCurrent => is_none (s_conn_mem st) || slack_free_b st
  | ROld => is_none (s_conn_mem st) || (((s_type st =? MIXED) || is_size_t (s_dt st)) && slack_free_b st)
  end.

Lemma slack_free_spec st f E slack : rep_poly st f E slack -> slack_free_b st = true <-> slack = [].
Proof.
  intros R. unfold slack_free_b.
  rewrite (rq_off _ _ _ _ R), (rq_r0 _ _ _ _ R), (rq_r1 _ _ _ _ R), (rq_dim _ _ _ _ R).
  replace (f + lenZ E - 1 - f + 1) with (lenZ E) by lia. rewrite nthZ_offs_from_last, nthZ_offs_from_0.
  pose proof (lenZ_nonneg slack). split.
  - intros Q. apply Z.eqb_eq in Q. apply lenZ_zero_nil. lia.
  - intros ->. apply Z.eqb_eq. rewrite lenZ_nil. lia.
Qed.

Lemma poly_count st f E slack (od : option (list Z)) :
  rep_poly st f E slack -> elems_ok (s_type st) E ->
  (s_conn_mem st <> None -> s_type st <> MIXED -> od = Some (offs_from 0 E)) ->
  element_data_size (s_type st) (s_r1 st - s_r0 st + 1) (s_conn_mem st) od
  = match s_conn_mem st with None => 0 | Some _ => clen E end.
Proof.
  intros R OK HO. unfold element_data_size.
  rewrite (rq_r0 _ _ _ _ R), (rq_r1 _ _ _ _ R). replace (f + lenZ E - 1 - f + 1) with (lenZ E) by lia.
  destruct (Z.eqb_spec (s_type st) MIXED) as [TM|TM].
  - destruct (rq_mem _ _ _ _ R) as [M|M]; rewrite M; [reflexivity|].
    rewrite to_nat_lenZ. apply (mixed_walk_spec E (OK TM) [] slack).
  - assert (TT : (s_type st =? NGON_n) || (s_type st =? NFACE_n) = true).
    { pose proof (rq_type _ _ _ _ R) as TP. unfold is_poly_type in TP.
      destruct (Z.eqb_spec (s_type st) MIXED); [contradiction|]. exact TP. }
    rewrite TT. destruct (rq_mem _ _ _ _ R) as [M|M]; rewrite M; [reflexivity|].
    rewrite HO by (auto; congruence). rewrite nthZ_offs_from_last, nthZ_offs_from_0. lia.
Qed.

Lemma poly_read_output st f E slack :
  rep_poly st f E slack ->
  conn_all st = concat E ++ slack /\
  match s_off_mem st with
  | Some m => if is_size_t (s_dt st) then firstn (Z.to_nat (s_odim st)) m else firstn (Z.to_nat (s_odim st)) (s_off st)
  | None => firstn (Z.to_nat (s_odim st)) (s_off st)
  end = offs_from 0 E.
Proof.
  intros R.
  assert (FA : firstn (Z.to_nat (s_dim st)) (concat E ++ slack) = concat E ++ slack).
  { apply firstn_all2. rewrite (rq_dim _ _ _ _ R), app_length. unfold clen, lenZ. lia. }
  assert (FO : firstn (Z.to_nat (s_odim st)) (offs_from 0 E) = offs_from 0 E).
  { apply firstn_all2. rewrite (rq_odim _ _ _ _ R). pose proof (offs_from_length 0 E). unfold lenZ in *. lia. }
  split.
  - unfold conn_all. rewrite (rq_conn _ _ _ _ R).
    destruct (rq_mem _ _ _ _ R) as [M|M]; rewrite M; [exact FA|]. destruct (is_size_t _); exact FA.
  - rewrite (rq_off _ _ _ _ R).
    destruct (rq_omem _ _ _ _ R) as [M|M]; rewrite M; [exact FO|]. destruct (is_size_t _); exact FO.
Qed.

(* the full read answers exactly under full_read_pre; it then returns the whole connectivity node (elements, then
   any reserved space) and the start offsets *)
Theorem poly_full_read rv st f E slack :
  rep_poly st f E slack -> elems_ok (s_type st) E -> full_read_pre rv st = true ->
  poly_elements_read rv st false = ROk (st, [concat E ++ slack; offs_from 0 E]).
Proof.
  intros R OK PRE.
  destruct (poly_read_output st f E slack R) as [OC OO].
  pose proof (nonempty_all_clen E (rq_all _ _ _ _ R)) as CE. pose proof (nonempty_len E (rq_ne _ _ _ _ R)) as LE.
  pose proof (lenZ_nonneg slack) as PS.
  unfold poly_elements_read. rewrite (rq_hasoff _ _ _ _ R). cbn [andb].
  assert (PA : parent_all st false = []) by reflexivity. rewrite PA, OC, OO.
  destruct (rq_mem _ _ _ _ R) as [M|M].
  - (* not cached: count = 0 *)
    rewrite (poly_count st f E slack) by (auto; intros C; rewrite M in C; congruence).
    rewrite M. cbn. destruct rv; reflexivity.
  - assert (OM : s_off_mem st = Some (offs_from 0 E)).
    { destruct (rq_omem _ _ _ _ R) as [Q|Q]; [|exact Q]. exfalso. apply (rq_coh _ _ _ _ R); [congruence|exact Q]. }
    assert (SF : slack_free_b st = true -> s_dim st = clen E).
    { intros Q. apply (slack_free_spec st f E slack R) in Q. rewrite (rq_dim _ _ _ _ R), Q, lenZ_nil. lia. }
    destruct rv; unfold full_read_pre in PRE; rewrite ?M in PRE; cbn [is_none orb] in PRE.
    + apply andb_prop in PRE as [P1 P2].
      rewrite (poly_count st f E slack); auto.
      * rewrite M. rewrite (SF P2). zb. reflexivity.
      * intros _ TM. destruct (Z.eqb_spec (s_type st) MIXED); [contradiction|]. cbn [orb] in P1. now rewrite P1.
    + rewrite (poly_count st f E slack) by auto. rewrite M. rewrite (SF PRE). zb. reflexivity.
    + rewrite (poly_count st f E slack) by auto. rewrite M. rewrite (rq_dim _ _ _ _ R). zb. reflexivity.
Qed.

(* ... and fails (CG_ERROR) on every represented state outside it: for RCurrent that is "connectivity cached and
   reserved space behind the elements" -- the finding poly-read-fails-reserved-slack-cached, for all such states *)
Theorem poly_full_read_refuted_all rv st f E slack :
  rep_poly st f E slack -> elems_ok (s_type st) E -> full_read_pre rv st = false ->
  poly_elements_read rv st false = RErr.
Proof.
  intros R OK PRE.
  pose proof (nonempty_all_clen E (rq_all _ _ _ _ R)) as CE. pose proof (nonempty_len E (rq_ne _ _ _ _ R)) as LE.
  pose proof (lenZ_nonneg slack) as PS.
  unfold poly_elements_read. rewrite (rq_hasoff _ _ _ _ R). cbn [andb].
  destruct (rq_mem _ _ _ _ R) as [M|M]; [destruct rv; unfold full_read_pre in PRE; rewrite ?M in PRE; discriminate|].
  assert (OM : s_off_mem st = Some (offs_from 0 E)).
  { destruct (rq_omem _ _ _ _ R) as [Q|Q]; [|exact Q]. exfalso. apply (rq_coh _ _ _ _ R); [congruence|exact Q]. }
  assert (SF : slack_free_b st = false -> s_dim st <> clen E).
  { intros Q C. assert (slack = []) as S0 by (apply lenZ_zero_nil; rewrite (rq_dim _ _ _ _ R) in C; lia).
    apply (slack_free_spec st f E slack R) in S0. congruence. }
  destruct rv; unfold full_read_pre in PRE; rewrite ?M in PRE; cbn [is_none orb] in PRE; try discriminate.
  - destruct (Z.eqb_spec (s_type st) MIXED) as [TM|TM]; cbn [orb] in PRE.
    + rewrite (poly_count st f E slack); auto; [|congruence]. rewrite M. pose proof (SF PRE). zb. reflexivity.
    + destruct (is_size_t (s_dt st)) eqn:DT; cbn [andb] in PRE.
      * rewrite (poly_count st f E slack) by auto. rewrite M. pose proof (SF PRE). zb. reflexivity.
      * (* NGON_n / NFACE_n stored as I4: the cached offsets are ignored, "missing ElementStartOffset" *)
        unfold element_data_size. destruct (Z.eqb_spec (s_type st) MIXED); [contradiction|].
        assert (TT : (s_type st =? NGON_n) || (s_type st =? NFACE_n) = true).
        { pose proof (rq_type _ _ _ _ R) as TP. unfold is_poly_type in TP.
          destruct (Z.eqb_spec (s_type st) MIXED); [contradiction|]. exact TP. }
        rewrite TT, M. reflexivity.
  - rewrite (poly_count st f E slack) by auto. rewrite M. pose proof (SF PRE). zb. reflexivity.
Qed.

(* ---- 7. what (connectivity, start offsets) say about the elements --------------------------------------------------- *)
Record represents (data offs : list Z) (S : list (list Z)) : Prop := mkRepr {
  rp_len : lenZ offs = lenZ S + 1;
  rp_first : nthZ offs 0 0 = 0;
  rp_last : nthZ offs (lenZ S) 0 = lenZ data;
  rp_mono : forall i, 0 <= i < lenZ S -> nthZ offs i 0 < nthZ offs (i + 1) 0;
  rp_elem : forall i, 0 <= i < lenZ S ->
            slice data (nthZ offs i 0) (nthZ offs (i + 1) 0 - nthZ offs i 0) = nthZ S i []
}.

Lemma firstn1_skipn {A} (S : list A) k d : (k < length S)%nat -> firstn 1 (skipn k S) = [nth k S d].
Proof.
  revert k. induction S as [|x S IH]; intros k Hk; simpl in Hk; [lia|]. destruct k; [reflexivity|].
  simpl. apply IH. lia.
Qed.

Lemma clen_single x : clen [x] = lenZ x.
Proof. unfold clen. cbn [concat]. now rewrite app_nil_r. Qed.

Lemma offs_step S i : 0 <= i < lenZ S ->
  nthZ (offs_from 0 S) i 0 = clen (firstn (Z.to_nat i) S) /\
  nthZ (offs_from 0 S) (i + 1) 0 = clen (firstn (Z.to_nat i) S) + lenZ (nthZ S i []) /\
  slice (concat S) (nthZ (offs_from 0 S) i 0) (nthZ (offs_from 0 S) (i + 1) 0 - nthZ (offs_from 0 S) i 0) = nthZ S i [].
Proof.
  intros Hi. rewrite !nthZ_offs_from by lia.
  replace (Z.to_nat (i + 1)) with (Z.to_nat i + 1)%nat by lia.
  rewrite firstn_plus, clen_app, (firstn1_skipn S (Z.to_nat i) []) by (unfold lenZ in *; lia).
  assert (NT : nthZ S i [] = nth (Z.to_nat i) S []) by (unfold nthZ; zb; reflexivity).
  rewrite NT, clen_single.
  split; [lia|]. split; [lia|].
  rewrite <- (app_nil_r (concat S)).
  rewrite (slice_conn_mid S [] (Z.to_nat i) 1); [|lia|].
  - rewrite (firstn1_skipn S (Z.to_nat i) []) by (unfold lenZ in *; lia). cbn [concat]. apply app_nil_r.
  - rewrite (firstn1_skipn S (Z.to_nat i) []) by (unfold lenZ in *; lia). rewrite clen_single. lia.
Qed.

Theorem represents_canonical S : nonempty_all S -> represents (concat S) (offs_from 0 S) S.
Proof.
  intros A. constructor.
  - apply offs_from_length.
  - apply nthZ_offs_from_0.
  - rewrite nthZ_offs_from_last. unfold clen. lia.
  - intros i Hi. destruct (offs_step S i Hi) as (O1 & O2 & _). rewrite O1, O2.
    assert (nthZ S i [] <> []).
    { unfold nthZ. zb. unfold nonempty_all in A. rewrite Forall_forall in A. apply A, nth_In. unfold lenZ in *. lia. }
    pose proof (nonempty_len _ H). lia.
  - intros i Hi. apply (offs_step S i Hi).
Qed.

(* the decoder of Properties_C10.chunks (same text): elements cut out of the connectivity by the offsets *)
Definition chunks_ (data offs : list Z) : list (list Z) :=
  map (fun k => slice data (nthZ offs (Z.of_nat k) 0) (nthZ offs (Z.of_nat k + 1) 0 - nthZ offs (Z.of_nat k) 0))
      (seq 0 (length offs - 1)).
Lemma chunks_canonical S : chunks_ (concat S) (offs_from 0 S) = S.
Proof.
  assert (L : (length (offs_from 0 S) - 1 = length S)%nat)
    by (pose proof (offs_from_length 0 S); unfold lenZ in *; lia).
  unfold chunks_. rewrite L. apply (list_ext _ _ []).
  - now rewrite map_length, seq_length.
  - intros k Hk. rewrite map_length, seq_length in Hk. rewrite nth_map_seq by exact Hk.
    destruct (offs_step S (Z.of_nat k)) as (_ & _ & SL); [unfold lenZ; lia|]. rewrite SL.
    unfold nthZ. zb. now rewrite Nat2Z.id.
Qed.

Lemma fold_offs l : forall pre x,
  fold_left (fun acc (e : list Z) => acc ++ [last acc 0 + lenZ e]) l (pre ++ [x]) = pre ++ offs_from x l.
Proof.
  induction l as [|e l IH]; intros pre x; [reflexivity|].
  cbn [fold_left offs_from]. rewrite last_last, IH, <- app_assoc. reflexivity.
Qed.

(* Properties_C10.C10_poly_write_is_splice_full, verbatim (it was kept there as an unproved Definition) *)
Theorem poly_full_statement :
  forall type f E s N, (type = MIXED \/ type = NGON_n \/ type = NFACE_n) -> E <> [] -> N <> [] ->
    Forall (fun e => e <> []) E -> Forall (fun e => e <> []) N ->
    let offs l := fold_left (fun acc e => acc ++ [last acc 0 + lenZ e]) l [0] in
    exists data o, poly_splice type f (f + lenZ E - 1) s (s + lenZ N - 1) (concat E) (offs E) (concat N) (offs N)
                   = Some (Some (data, o)) /\
                   chunks_ data o = splice (if type =? MIXED then [NODE; 0] else [0; 0]) f E s N.
Proof.
  intros type f E s N _ HE HN _ _ offs. subst offs. cbv beta.
  rewrite !(fold_offs _ [] 0). cbn [app].
  replace (if type =? MIXED then [NODE; 0] else [0; 0]) with (ph_of type)
    by (unfold ph_of; destruct (type =? MIXED); reflexivity).
  exists (concat (splice (ph_of type) f E s N)), (offs_from 0 (splice (ph_of type) f E s N)).
  split; [|apply chunks_canonical].
  rewrite <- (app_nil_r (concat E)). now apply poly_splice_is_splice.
Qed.

(* poly_splice level, everything the property says about a variable-size write in one statement *)
Theorem poly_splice_represents type f E s N slack :
  E <> [] -> N <> [] -> nonempty_all E -> nonempty_all N ->
  exists data offs,
    poly_splice type f (f + lenZ E - 1) s (s + lenZ N - 1) (concat E ++ slack) (offs_from 0 E) (concat N) (offs_from 0 N)
    = Some (Some (data, offs)) /\
    represents data offs (splice (ph_of type) f E s N).
Proof.
  intros HE HN AE AN. eexists. eexists. split; [now apply poly_splice_is_splice|].
  apply represents_canonical. apply splice_nonempty_all; auto. discriminate.
Qed.

(* ---- 8. the in-place fast path: when it is taken, and that it computes what the general path computes -------------- *)
(* the result of the fast path is the result of the in-memory splice (connectivity AND recomputed start offsets),
   written into the node in place: the slack, the dimension and the range stay, the connectivity is not cached *)
Theorem poly_inplace_eq_general pv st f E slack start N mt :
  rep_poly st f E slack -> s_par st = None -> N <> [] -> nonempty_all N ->
  s_conn_mem st = None -> f <= start -> start + lenZ N - 1 <= f + lenZ E - 1 ->
  clen (slice_elems f E start (start + lenZ N - 1)) = clen N ->
  exists st' data offs,
    poly_elements_general_write pv st start (start + lenZ N - 1) mt (concat N) (offs_from 0 N) = ROk st' /\
    poly_splice (s_type st) f (f + lenZ E - 1) start (start + lenZ N - 1) (concat E ++ slack) (offs_from 0 E)
                (concat N) (offs_from 0 N) = Some (Some (data, offs)) /\
    s_conn st' = data ++ slack /\ s_off st' = offs /\
    (s_off_mem st' = None \/ s_off_mem st' = Some offs) /\
    s_conn_mem st' = None /\ s_dim st' = s_dim st /\ s_r0 st' = s_r0 st /\ s_r1 st' = s_r1 st /\
    lenZ data = clen E.
Proof.
  intros R Hpar HN AN Hmem H1 H2 HC.
  destruct (poly_write_inplace pv st f E slack start N mt R Hpar HN AN Hmem H1 H2 HC) as (st' & W & R' & M' & D' & _).
  exists st', (concat (splice (ph_of (s_type st)) f E start N)), (offs_from 0 (splice (ph_of (s_type st)) f E start N)).
  split; [exact W|]. split; [apply poly_splice_is_splice; auto; apply R|].
  split; [apply R'|]. split; [apply R'|]. split; [apply R'|]. split; [exact M'|]. split; [exact D'|].
  split; [rewrite (rq_r0 _ _ _ _ R'), (rq_r0 _ _ _ _ R); reflexivity|].
  pose proof (rq_dim _ _ _ _ R') as D1. pose proof (rq_dim _ _ _ _ R) as D2.
  pose proof (splice_lenZ (ph_of (s_type st)) f E start N (rq_ne _ _ _ _ R) HN) as SL.
  unfold splice_hi, splice_lo in SL. pose proof (nonempty_len N HN).
  split; [rewrite (rq_r1 _ _ _ _ R'), (rq_r1 _ _ _ _ R), SL; lia|].
  rewrite lenZ_concat. lia.
Qed.

(* WHEN the fast path is taken, in terms of the section and the request: exactly when the range is inside the stored
   range, the connectivity is not cached and the replaced elements have the same total size as the new ones.  The
   right-hand side is the observable signature of the fast path (node not cached afterwards, dimension and total
   size unchanged); the relocating path changes the total size, the in-memory path caches. *)
Theorem poly_inplace_iff pv st f E slack start N mt st' :
  rep_poly st f E slack -> s_par st = None -> N <> [] -> nonempty_all N ->
  poly_elements_general_write pv st start (start + lenZ N - 1) mt (concat N) (offs_from 0 N) = ROk st' ->
  (s_conn_mem st = None /\ f <= start /\ start + lenZ N - 1 <= f + lenZ E - 1 /\
   clen (slice_elems f E start (start + lenZ N - 1)) = clen N)
  <-> (s_conn_mem st' = None /\ s_dim st' = s_dim st /\ clen (splice (ph_of (s_type st)) f E start N) = clen E).
Proof.
  intros R Hpar HN AN W. split.
  - intros (Hmem & H1 & H2 & HC).
    destruct (poly_write_inplace pv st f E slack start N mt R Hpar HN AN Hmem H1 H2 HC) as (st2 & W2 & R2 & M2 & D2 & _).
    rewrite W in W2. inversion W2; subst st2. split; [exact M2|]. split; [exact D2|].
    pose proof (rq_dim _ _ _ _ R2). pose proof (rq_dim _ _ _ _ R). lia.
  - intros (M' & D' & CS).
    assert (NM : forall st2, poly_elements_general_write pv st start (start + lenZ N - 1) mt (concat N) (offs_from 0 N) = ROk st2 ->
                 s_conn_mem st2 <> None -> False) by (intros st2 W2 Q; rewrite W in W2; inversion W2; subst; auto).
    destruct (s_conn_mem st) eqn:Hmem.
    { destruct (poly_write_inmemory pv st f E slack start N mt R Hpar HN AN) as (st2 & W2 & _ & Q & _);
        [left; congruence|]. destruct (NM st2 W2 Q). }
    destruct (Z.lt_ge_cases start f) as [C1|C1].
    { destruct (poly_write_inmemory pv st f E slack start N mt R Hpar HN AN) as (st2 & W2 & _ & Q & _); [auto|].
      destruct (NM st2 W2 Q). }
    destruct (Z.lt_ge_cases (f + lenZ E - 1) (start + lenZ N - 1)) as [C2|C2].
    { destruct (poly_write_inmemory pv st f E slack start N mt R Hpar HN AN) as (st2 & W2 & _ & Q & _); [auto|].
      destruct (NM st2 W2 Q). }
    split; [reflexivity|]. split; [lia|]. split; [lia|].
    destruct (inside_decomp (ph_of (s_type st)) f E start N (rq_ne _ _ _ _ R) HN C1 C2)
      as (Hd & Mid & T & EQ & HL & HS & HM & SP).
    rewrite HM. rewrite SP in CS. rewrite EQ in CS. rewrite !clen_app in CS. lia.
Qed.

(* the offsets of the addressed range MUST be recomputed although the total size is unchanged: same-size elements
   with different individual sizes move the boundaries (the seeded change C10-1 dropped this) *)
Lemma inplace_offsets_change :
  let E := [[1;2;3]; [4;5;6;7]; [8;9;10]] in let N := [[21;22;23;24]; [25;26;27]] in
  clen (slice_elems 10 E 10 11) = clen N /\
  offs_from 0 (splice [0;0] 10 E 10 N) <> offs_from 0 E.
Proof. split; [reflexivity|]. vm_compute. discriminate. Qed.

(* ---- 9. witnesses -------------------------------------------------------------------------------------------------- *)
(* an NGON_n section 10..12 with elements of sizes 3 4 3, as cg_poly_section_write + reopen leave it *)
Definition ngon_state : section := mkS 22 I8 10 12 10 ngon3 None true 4 ngon_off None None.
Lemma ngon_state_rep : rep_poly ngon_state 10 [[1;2;3]; [4;5;6;7]; [8;9;10]] [].
Proof.
  constructor; try reflexivity; cbn; auto; try discriminate.
  repeat constructor; discriminate.
Qed.

(* space reserved by cg_section_general_write (14 values for 2 placeholder elements), node cached by a partial read *)
Definition slack_state : section :=
  mkS 22 I4 1 2 14 ([0;0;0;0] ++ repeat undef 10) (Some ([0;0;0;0] ++ repeat undef 10)) true 3 [0;2;4] (Some [0;2;4]) None.
Lemma slack_state_rep : rep_poly slack_state 1 [[0;0]; [0;0]] (repeat undef 10).
Proof.
  constructor; try reflexivity; cbn; auto; try discriminate.
  repeat constructor; discriminate.
Qed.
Lemma slack_state_reachable :
  exists o, run PFixed RCurrent None [OSecGeneralWrite 22 I4 1 2 14; OPolyPartialRead 1 2 false] = ROk (Some slack_state, o).
Proof. eexists. vm_compute. reflexivity. Qed.
Lemma slack_state_outside : full_read_pre RCurrent slack_state = false.
Proof. reflexivity. Qed.

(* the statement "the full read answers every represented section", per variant; RFixed: proved, RCurrent: refuted *)
Definition poly_full_read_total (rv : rvariant) : Prop :=
  forall st f E slack, rep_poly st f E slack -> elems_ok (s_type st) E -> poly_elements_read rv st false <> RErr.
Lemma poly_full_read_total_fixed : poly_full_read_total RFixed.
Proof. intros st f E slack R OK. rewrite (poly_full_read RFixed st f E slack R OK eq_refl). discriminate. Qed.
Lemma poly_full_read_total_current_refuted : ~ poly_full_read_total RCurrent.
Proof.
  intros H. apply (H slack_state 1 [[0;0];[0;0]] (repeat undef 10) slack_state_rep).
  - intros Q. discriminate Q.
  - reflexivity.
Qed.

(* input offsets that do not start at 0: the "before" / "front" branches memcpy them as they are, the stored
   ElementStartOffset then does not start at 0 (hypothesis of the write theorems: offs_from 0 N) *)
Lemma nonzero_base_refuted :
  exists data offs, poly_splice 22 10 12 6 7 ngon3 ngon_off [21;22;23;24;25;26] [5;8;11] = Some (Some (data, offs)) /\
                    nthZ offs 0 0 <> 0 /\ nthZ offs 7 0 <> lenZ data.
Proof. eexists. eexists. split; [vm_compute; reflexivity|]. split; vm_compute; discriminate. Qed.
