From Coq Require Import ZArith List Bool Lia.
From CgnsV Require Import ListX ElemSplice ElemSpliceProofs ElemSplicePolyProofs.
Import ListNotations.
Local Open Scope Z_scope.

(* ---- 5. histories of partial writes ------------------------------------------------------------------------------- *)
Definition pwrite := (dtype * Z * list (list Z))%type.     (* memory type, start, new elements *)
Fixpoint poly_spec_run (ph : list Z) (f : Z) (E : list (list Z)) (ws : list pwrite) : Z * list (list Z) :=
  match ws with
  | [] => (f, E)
  | (_, start, N) :: r => poly_spec_run ph (Z.min f start) (splice ph f E start N) r
  end.
Fixpoint poly_impl_run (pv : pvariant) (st : section) (ws : list pwrite) : res section :=
  match ws with
  | [] => ROk st
  | (mt, start, N) :: r =>
      match poly_elements_general_write pv st start (start + lenZ N - 1) mt (concat N) (offs_from 0 N) with
      | ROk st' => poly_impl_run pv st' r
      | RErr => RErr | RFault => RFault
      end
  end.

Theorem poly_history_is_splice pv ws : forall st f E slack,
  rep_poly st f E slack -> s_par st = None ->
  Forall (fun w : pwrite => snd w <> [] /\ nonempty_all (snd w)) ws ->
  exists st' slack', poly_impl_run pv st ws = ROk st' /\
     rep_poly st' (fst (poly_spec_run (ph_of (s_type st)) f E ws)) (snd (poly_spec_run (ph_of (s_type st)) f E ws)) slack' /\
     s_par st' = None /\ s_type st' = s_type st /\ s_dt st' = s_dt st.
Proof.
  induction ws as [|[[mt start] N] r IH]; intros st f E slack R Hpar HW.
  - exists st, slack. simpl. auto.
  - inversion HW as [|? ? [HN AN] HR]; subst. simpl in HN, AN.
    destruct (poly_write_is_splice pv st f E slack start N mt R Hpar HN AN) as (st1 & sl1 & W & R1 & P1 & T1 & D1).
    destruct (IH st1 _ _ sl1 R1 P1 HR) as (st' & sl' & W' & R' & P' & T' & D').
    exists st', sl'. simpl. rewrite W. rewrite T1 in R'.
    split; [exact W'|]. split; [exact R'|]. split; [exact P'|]. split; congruence.
Qed.

(* ---- 6. reads ---------------------------------------------------------------------------------------------------- *)
Lemma range_decomp f (E : list (list Z)) a b :
  f <= a -> a <= b -> b <= f + lenZ E - 1 ->
  exists Hd Mid T, E = Hd ++ Mid ++ T /\ a = f + lenZ Hd /\ lenZ Mid = b - a + 1 /\ slice_elems f E a b = Mid.
Proof.
  intros H1 H2 H3.
  exists (firstn (Z.to_nat (a - f)) E), (firstn (Z.to_nat (b - a + 1)) (skipn (Z.to_nat (a - f)) E)),
         (skipn (Z.to_nat (a - f) + Z.to_nat (b - a + 1)) E).
  split; [apply three_way|]. split; [rewrite lenZ_firstnZ; lia|]. split; [|reflexivity].
  unfold lenZ. rewrite firstn_length, skipn_length. unfold lenZ in *. lia.
Qed.

Lemma offs_three b Hd Mid T :
  offs_from b (Hd ++ Mid ++ T) = offs_init b Hd ++ offs_from (b + clen Hd) Mid ++ tl (offs_from (b + clen Hd + clen Mid) T).
Proof. now rewrite offs_from_app, offs_from_app_tl. Qed.

Lemma rebase_offs c M : rebase (offs_from c M) = offs_from 0 M.
Proof.
  unfold rebase. replace (hd 0 (offs_from c M)) with c by (destruct M; reflexivity).
  rewrite (map_ext _ (fun v => v + (- c))) by (intros; lia). rewrite offs_shift. f_equal. lia.
Qed.

(* cg_poly_elements_partial_read: from the file (not cached, stored as cgsize_t) or through the cache it fills
   (cached, or stored as I4); the start offsets come back rebased to 0. *)
Theorem poly_partial_read_is_slice st f E slack a b :
  rep_poly st f E slack -> f <= a -> a <= b -> b <= f + lenZ E - 1 ->
  exists st', poly_elements_partial_read st a b false
              = ROk (st', [concat (slice_elems f E a b); offs_from 0 (slice_elems f E a b)])
              /\ rep_poly st' f E slack /\ s_par st' = s_par st /\ s_type st' = s_type st /\ s_dt st' = s_dt st.
Proof.
  intros R H1 H2 H3.
  destruct (range_decomp f E a b H1 H2 H3) as (Hd & Mid & T & EQ & HA & LM & ->).
  pose proof (rq_all _ _ _ _ R) as A. rewrite EQ in A. apply Forall_app in A as [A1 A2]. apply Forall_app in A2 as [A2 A3].
  pose proof (nonempty_all_clen Mid A2) as CM.
  pose proof (lenZ_nonneg Hd). pose proof (lenZ_nonneg T). pose proof (lenZ_nonneg slack).
  pose proof (clen_nonneg T). pose proof (clen_nonneg Hd).
  unfold poly_elements_partial_read.
  rewrite (rq_r0 _ _ _ _ R), (rq_r1 _ _ _ _ R), (rq_hasoff _ _ _ _ R). zb. cbn [orb negb].
  destruct (read_offset_data_rep st f E slack R) as (s0 & -> & F0).
  destruct F0 as (F01 & F02 & F03 & F04 & F05 & F06 & F07 & F08 & F09 & F010 & F011 & F012).
  assert (O1 : nthZ (offs_from 0 E) (a - f) undef = clen Hd).
  { rewrite EQ. rewrite (nthZ_offs_app 0 Hd) by lia. lia. }
  assert (O2 : nthZ (offs_from 0 E) (b - f + 1) undef = clen Hd + clen Mid).
  { rewrite EQ, (app_assoc Hd Mid T). rewrite (nthZ_offs_app 0 (Hd ++ Mid)) by (lens; lia). rewrite clen_app. lia. }
  rewrite O1, O2.
  assert (CO : rebase (slice (offs_from 0 E) (a - f) (b - a + 2)) = offs_from 0 Mid).
  { rewrite EQ, offs_three. rewrite slice_at by (rewrite ?offs_init_length, ?offs_from_length; lia). apply rebase_offs. }
  rewrite CO.
  assert (LT : (lenZ (offs_from 0 E) <? b - f + 2) = false) by (rewrite offs_from_length; zb; reflexivity).
  rewrite LT.
  assert (CONN : s_conn st = concat Hd ++ concat Mid ++ concat T ++ slack).
  { rewrite (rq_conn _ _ _ _ R), EQ, !concat_app, <- !app_assoc. reflexivity. }
  assert (PP : forall s', parent_partial s' a b false = ROk (s', [])) by reflexivity.
  destruct (is_none (s_conn_mem s0) && is_size_t (s_dt s0)) eqn:HB.
  - rewrite F06, CONN.
    rewrite (file_read_at (concat Hd) (concat Mid) (concat T ++ slack)) by (lens2; lia).
    rewrite PP. eexists. split; [reflexivity|]. split; [|auto].
    constructor; rewrite ?F01, ?F03, ?F04, ?F05, ?F06, ?F07, ?F08, ?F09, ?F010, ?F011; auto; try apply R.
    intros _. discriminate.
  - destruct (read_element_data_rep s0 st f E slack R F05 F06 F07) as (s1 & -> & F1).
    destruct F1 as (F11 & F12 & F13 & F14 & F15 & F16 & F17 & F18 & F19 & F110 & F111 & F112).
    replace (clen Hd + clen Mid - clen Hd) with (clen Mid) by lia.
    assert (LD : lenZ (concat E ++ slack) = clen Hd + clen Mid + clen T + lenZ slack).
    { rewrite EQ. lens2. lia. }
    rewrite LD. zb. cbn [orb].
    assert (SL : slice (concat E ++ slack) (clen Hd) (clen Mid) = concat Mid).
    { rewrite EQ, !concat_app, <- !app_assoc. now apply slice_at. }
    rewrite SL, PP. eexists. split; [reflexivity|]. split; [|repeat split; congruence].
    constructor; rewrite ?F11, ?F13, ?F14, ?F15, ?F16, ?F17, ?F18, ?F19, ?F110, ?F111,
                         ?F01, ?F03, ?F04, ?F05, ?F06, ?F07, ?F08, ?F09, ?F010, ?F011; auto; try apply R.
    intros _. discriminate.
Qed.

(* cg_poly_elements_general_read: always from the two nodes on file; state unchanged *)
Theorem poly_general_read_is_slice st f E slack a b mt :
  rep_poly st f E slack -> f <= a -> a <= b -> b <= f + lenZ E - 1 ->
  poly_elements_general_read st a b mt
  = ROk (st, [concat (slice_elems f E a b); offs_from 0 (slice_elems f E a b)]).
Proof.
  intros R H1 H2 H3.
  destruct (range_decomp f E a b H1 H2 H3) as (Hd & Mid & T & EQ & HA & LM & ->).
  pose proof (rq_all _ _ _ _ R) as A. rewrite EQ in A. apply Forall_app in A as [A1 A2]. apply Forall_app in A2 as [A2 A3].
  pose proof (nonempty_all_clen Mid A2) as CM.
  pose proof (lenZ_nonneg Hd). pose proof (lenZ_nonneg T). pose proof (lenZ_nonneg slack).
  pose proof (clen_nonneg T). pose proof (clen_nonneg Hd).
  unfold poly_elements_general_read.
  rewrite (rq_r0 _ _ _ _ R), (rq_r1 _ _ _ _ R), (rq_hasoff _ _ _ _ R). zb. cbn [orb negb].
  rewrite (rq_off _ _ _ _ R), EQ, offs_three.
  rewrite (file_read_at (offs_init 0 Hd) (offs_from (0 + clen Hd) Mid))
    by (rewrite ?offs_init_length, ?offs_from_length; lia).
  replace (hd 0 (offs_from (0 + clen Hd) Mid)) with (clen Hd) by (destruct Mid; simpl; lia).
  replace (b - a + 1) with (lenZ Mid) by lia. rewrite nthZ_offs_from_last.
  zb.
  rewrite (rq_conn _ _ _ _ R), EQ, !concat_app, <- !app_assoc.
  rewrite (file_read_at (concat Hd) (concat Mid) (concat T ++ slack)) by (lens2; lia).
  now rewrite rebase_offs.
Qed.

(* the rebased offsets, pointwise: off'[i] = off[first + i] - off[first] *)
Lemma poly_read_offsets_rebased f E a b i :
  f <= a -> a <= b -> b <= f + lenZ E - 1 -> 0 <= i <= b - a + 1 ->
  nthZ (offs_from 0 (slice_elems f E a b)) i 0
  = nthZ (offs_from 0 E) (a - f + i) 0 - nthZ (offs_from 0 E) (a - f) 0.
Proof.
  intros H1 H2 H3 Hi.
  destruct (range_decomp f E a b H1 H2 H3) as (Hd & Mid & T & EQ & HA & LM & ->).
  pose proof (lenZ_nonneg Hd).
  rewrite EQ. rewrite (nthZ_offs_app 0 Hd (Mid ++ T) (a - f)) by lia.
  rewrite nthZ_offs_from by lia.
  rewrite nthZ_offs_from by (lens; pose proof (lenZ_nonneg T); lia).
  replace (Z.to_nat (a - f + i)) with (length Hd + Z.to_nat i)%nat by (unfold lenZ in *; lia).
  rewrite firstn_app_2, clen_app. rewrite firstn_app.
  replace (Z.to_nat i - length Mid)%nat with 0%nat by (unfold lenZ in *; lia).
  cbn [firstn]. rewrite app_nil_r. lia.
Qed.
