(* AdfChunks.v -- executable model of the DATA side of one ADF node: header fields, data chunks, data-chunk table
   (property C02, third layer C02c).  Definitions only.

   Transcribed from /repo at 59a38ab (routines are found by name):
     src/adf/ADF_interface.c  ADF_Put_Dimension_Information, ADF_Write_All_Data, ADF_Write_Block_Data, ADF_Write_Data,
                              ADF_Read_All_Data, ADF_Read_Block_Data, ADF_Read_Data
     src/adf/ADF_internals.c  ADFI_read_chunk_length, ADFI_read_data_chunk, ADFI_write_data_chunk (with its zero fill),
                              ADFI_read_data_chunk_table, ADFI_write_data_chunk_table, ADFI_delete_data, the size
                              determination of ADFI_file_free, ADFI_adjust_disk_pointer (= AdfCodec.adjust)

   What is NOT the subject and how it is abstracted:
     * the free-space allocator: ADFI_file_malloc returns what the ORACLE list [al] of the step says (the addresses the real
       allocator returned, in call order); [alloc_ok] is the hypothesis "normalised, in range, fresh and non-overlapping";
       the bytes of a freshly allocated or a freed region are UNSPECIFIED (absent from the disk map);
     * ADFI_read_file / ADFI_write_file and the block buffers (C02b): a fault-free linear byte store;
     * number formats (C19): native, so format_compare = 1 and every transfer is a plain copy;
     * the memory side of the strided calls (C05): contiguous, 1-D, the k-th selected element is data[k];
     * the node header's own encoding (C13): the header is a record; disk pointers inside chunks and tables ARE encoded
       (AdfCodec.dp_enc / dp_dec) and boundary tags ARE bytes, because the defects of this area live there.

   Integers are Z.  The code is transcribed AS IT IS at /repo 5177c7b ([Cur]).  Five one-commit changes of this week are
   kept as switches of the record [cfg], each [true] in [Cur]; turning one off gives the text before that commit, used only
   for the historical *_old_refuted witnesses and by the check to recognise a regression:
     c_signed      d6f9e64  ADF_Write_Data counts the remaining bytes in a signed variable (before: cgulong_t, tested with
                            "<= 0", explicit wrap mod 2^64 here)
     c_fix_wall    b21b08d  ADF_Write_All_Data, several chunks: a chunk is rewritten with its own size (before: with the number
                            of bytes that happen to go into it -- a shrunk rewrite moved the chunk's end tag inwards while
                            the table kept the old size)
     c_fix_wblock  3f8f7e0  ADF_Write_Block_Data, a further chunk is added: offset of the block inside the new chunk =
                            start_byte - chunk_end_byte (before: start_byte - <size of the new chunk>)
     c_fix_zero    5177c7b  ADFI_write_data_chunk(NULL): the zero fill of more than 4096 bytes covers the chunk (before: the
                            rest of the first block plus ONE byte -- 4097 bytes read from the 4096-byte block_of_00 when the
                            data start on a block boundary --, then the same second block over and over)
     c_fix_rblock  5c54229  ADF_Read_Block_Data, several chunks holding less than the block asked for: the rest of the caller's
                            buffer is zeroed over block_bytes - bytes_read bytes (before: total_bytes - bytes_read, past its
                            end) *)
From Coq Require Import ZArith List Bool Lia FMapPositive.
From CgnsV Require Import ListX AdfCodec Hyperslab.
Import ListNotations.
Local Open Scope Z_scope.

(* ------------------------------------------------------------------ constants *)
Definition TAG_SIZE : Z := 4.
Definition DPS : Z := 12.                          (* DISK_POINTER_SIZE *)
Definition HDR : Z := 16.                          (* TAG_SIZE + DISK_POINTER_SIZE *)
Definition DBS : Z := 4096.                        (* DISK_BLOCK_SIZE *)
Definition E_FWRITE : Z := 14.
Definition E_TAG : Z := 17.
Definition E_ZERO_DIMS : Z := 27.
Definition E_NDIMS : Z := 28.
Definition E_NODATA : Z := 33.
Definition E_TOO_LONG : Z := 35.
Definition E_START_RANGE : Z := 45.
Definition E_DIMVAL : Z := 47.
Definition E_INCOMPLETE : Z := 55.
Definition MAXSZ : Z := 2 ^ 44.                    (* 2^32 blocks of 4096 bytes: no ADF file is larger *)
Definition TW64 : Z := 2 ^ 64.
Definition toS (x : Z) : Z := let y := x mod TW64 in if y <? 2 ^ 63 then y else y - TW64.

Record cfg := mkCfg { c_signed : bool; c_fix_wall : bool; c_fix_wblock : bool; c_fix_zero : bool; c_fix_rblock : bool }.
Definition Cur : cfg := mkCfg true true true true true.                   (* /repo 5177c7b *)
Definition Before_d6f9e64 : cfg := mkCfg false true true true true.       (* Cur with that one commit reverted, each *)
Definition Before_b21b08d : cfg := mkCfg true false true true true.
Definition Before_3f8f7e0 : cfg := mkCfg true true false true true.
Definition Before_5177c7b : cfg := mkCfg true true true false true.
Definition Before_5c54229 : cfg := mkCfg true true true true false.

(* ------------------------------------------------------------------ data types *)
Inductive dtype := MT | C1 | B1 | I4 | U4 | R4 | I8 | U8 | R8 | X4 | X8.
Definition esz (t : dtype) : Z :=
  match t with MT => 0 | C1 | B1 => 1 | I4 | U4 | R4 => 4 | I8 | U8 | R8 | X4 => 8 | X8 => 16 end.
Definition dtype_code (t : dtype) : Z :=
  match t with MT => 0 | C1 => 1 | B1 => 2 | I4 => 3 | U4 => 4 | R4 => 5 | I8 => 6 | U8 => 7 | R8 => 8 | X4 => 9 | X8 => 10 end.
Definition dtype_eqb (a b : dtype) : bool := dtype_code a =? dtype_code b.

(* ------------------------------------------------------------------ the byte store *)
Definition key (p : Z) : positive := Z.to_pos (p + 1).                (* injective on p >= 0 *)
Definition disk := PositiveMap.t Z.                                   (* address -> byte; absent = unspecified *)
Definition dempty : disk := PositiveMap.empty Z.
Definition dget (d : disk) (x : Z) : option Z := if x <? 0 then None else PositiveMap.find (key x) d.
Fixpoint dput (d : disk) (x : Z) (l : list Z) : disk :=
  match l with [] => d | b :: r => dput (PositiveMap.add (key x) b d) (x + 1) r end.
Fixpoint dclr (d : disk) (x : Z) (n : nat) : disk :=
  match n with O => d | S k => dclr (PositiveMap.remove (key x) d) (x + 1) k end.
Fixpoint drd (d : disk) (x : Z) (n : nat) : list (option Z) :=
  match n with O => [] | S k => dget d x :: drd d (x + 1) k end.

Fixpoint known (l : list (option Z)) : option bytes :=
  match l with
  | [] => Some []
  | Some b :: r => match known r with Some t => Some (b :: t) | None => None end
  | None :: _ => None
  end.

Definition addr (p : ptr) : Z := fst p * DBS + snd p.
Definition rd (d : disk) (p : ptr) (n : Z) : list (option Z) := drd d (addr p) (Z.to_nat n).      (* ADFI_read_file *)
Definition wr (d : disk) (p : ptr) (l : bytes) : disk := dput d (addr p) l.                          (* ADFI_write_file *)
Definition zeros (n : Z) : bytes := repeat 0 (Z.to_nat n).

(* results that carry the store as far as the call got *)
Definition R (A : Type) : Type := (out A * disk)%type.
Definition cast {A B} (x : out A) : out B :=
  match x with
  | Ok _ => Ext | Err c => Err c | OOBW s => OOBW s | OOBR s => OOBR s | Uninit => Uninit
  | Stale => Stale | Abort => Abort | UB => UB | Ext => Ext | OutOfFuel => OutOfFuel
  end.
Definition bindO {A B} (x : out A) (d : disk) (f : A -> R B) : R B :=
  match x with Ok v => f v | e => (cast e, d) end.
Definition bindR {A B} (x : R A) (f : A -> disk -> R B) : R B :=
  match x with (Ok v, d) => f v d | (e, d) => (cast e, d) end.

(* ------------------------------------------------------------------ pointers and tags on disk *)
Section Fmt.
Variable cf : cfg.
Variable fa : fattr.

(* ADFI_read_disk_pointer_from_disk; unspecified bytes leave the model *)
Definition read_ptr (d : disk) (p : ptr) : out ptr :=
  match known (rd d p DPS) with Some bs => dp_dec fa bs | None => Ext end.
Definition read_tag (d : disk) (p : ptr) : out bytes :=
  match known (rd d p TAG_SIZE) with Some bs => Ok bs | None => Ext end.

(* ADFI_read_chunk_length for a chunk that is neither the file header, the free-chunk table, 'z' filler nor a node:
   tag + end-of-chunk pointer from the 16 bytes at p.  (The three other forms give a tag that every caller here
   rejects with ADF_DISK_TAG_ERROR, as this form does.) *)
Definition read_chunk_length (d : disk) (p : ptr) : out (bytes * ptr) :=
  match known (rd d p HDR) with
  | None => Ext
  | Some info => e <- dp_dec fa (skipn 4 info) ;; Ok (firstn 4 info, e)
  end.

(* chunk size as every table walker computes it:
   (end.block - start.block) * DISK_BLOCK_SIZE + (end.offset - start.offset) - (TAG_SIZE + DISK_POINTER_SIZE) *)
Definition csize (c : ptr * ptr) : Z :=
  (fst (snd c) - fst (fst c)) * DBS + (snd (snd c) - snd (fst c)) - HDR.

(* ------------------------------------------------------------------ ADFI_write_data_chunk *)
(* while (t_bytes > 0) { write MIN(4096, t_bytes) zeros at (block, 0) ; t_bytes -= ... }   -- block NOT advanced *)
Fixpoint zloop (n : nat) (d : disk) (cl : ptr) (t : Z) : disk :=
  match n with
  | O => d
  | S k => if t >? 0 then zloop k (wr d cl (zeros (Z.min DBS t))) cl (t - Z.min DBS t) else d
  end.
(* the repaired loop advances the block *)
Fixpoint zloop_fix (n : nat) (d : disk) (cl : ptr) (t : Z) : disk :=
  match n with
  | O => d
  | S k => if t >? 0 then zloop_fix k (wr d cl (zeros (Z.min DBS t))) (fst cl + 1, 0) (t - Z.min DBS t) else d
  end.

Definition zero_fill (d : disk) (cl : ptr) (total : Z) : disk :=
  if total >? DBS then
    if c_fix_zero cf then
      let n0 := DBS - snd cl in
      zloop_fix (Z.to_nat (total / DBS + 1)) (wr d cl (zeros n0)) (fst cl + 1, 0) (total - n0)
    else
      (* "write out the remainder of this block": DISK_BLOCK_SIZE - offset + 1 bytes (one too many; 4097 bytes are
         read from the 4096-byte block_of_00 when offset = 0: [zero_src_ok]);
         current_location.offset = 0 BEFORE  t_bytes -= (DISK_BLOCK_SIZE - current_location.offset + 1) *)
      let d1 := wr d cl (zeros (DBS - snd cl + 1)) in
      let t := total - (DBS - 0 + 1) in
      zloop (Z.to_nat (total / DBS + 1)) d1 (fst cl + 1, 0) t
  else wr d cl (zeros total).

(* the zero fill reads its zeros from block_of_00[4096] *)
Definition zero_src_ok (cl : ptr) (total : Z) : bool :=
  c_fix_zero cf || negb ((total >? DBS) && (snd cl =? 0)).

(* data = None is the C's NULL / 0L: zero the bytes; Some bs: the caller's bytes, exactly total_bytes of them *)
Definition write_data_chunk (d : disk) (p : ptr) (chunk_bytes start_offset total_bytes : Z) (data : option bytes)
  : R unit :=
  if total_bytes + start_offset >? chunk_bytes then (Err E_TOO_LONG, d)
  else
    let d1 := wr d p tag_DaTa in
    bindO (adjust (fst p, snd p + TAG_SIZE + DPS + chunk_bytes)) d1 (fun e =>
    bindO (adjust (fst p, snd p + TAG_SIZE)) d1 (fun cl =>
    let d2 := wr d1 cl (dp_enc fa e) in
    bindO (adjust (fst cl, snd cl + start_offset + DPS)) d2 (fun cl2 =>
    match data with
    | None =>
        (* the ASan build stops at the over-read of block_of_00 *)
        if zero_src_ok cl2 total_bytes then (Ok tt, wr (zero_fill d2 cl2 total_bytes) e tag_dEnD) else (OOBR 9, d2)
    | Some bs => (Ok tt, wr (wr d2 cl2 (firstn (Z.to_nat total_bytes) bs)) e tag_dEnD)
    end))).

(* ------------------------------------------------------------------ ADFI_read_data_chunk *)
Definition read_data_chunk (d : disk) (p : ptr) (chunk_bytes start_offset total_bytes : Z) : out (list (option Z)) :=
  if total_bytes + start_offset >? chunk_bytes then Err E_TOO_LONG
  else
    '(tag, e) <- read_chunk_length d p ;;
    if negb (tag4 tag tag_DaTa) then Err E_TAG else
    et <- read_tag d e ;;
    if negb (tag4 et tag_dEnD) then Err E_TAG else
    ds <- adjust (fst p, snd p + start_offset + DPS + TAG_SIZE) ;;
    let ctb := snd e - snd ds + start_offset + (fst e - fst ds) * DBS in
    if chunk_bytes >? ctb then Err E_TOO_LONG
    else (* chunk_bytes < ctb sets REQUESTED_DATA_TOO_LONG, overwritten by the next call's NO_ERROR *)
      if total_bytes <=? 0 then Ext         (* a zero-length ADFI_read_file: outside the model *)
      else Ok (rd d ds total_bytes).

(* ------------------------------------------------------------------ data-chunk tables *)
(* the entry loop of ADFI_read_data_chunk_table: tmp.offset += 12 ; adjust ; read ; twice per entry *)
Fixpoint read_entries (n : nat) (d : disk) (tmp : ptr) : out (list (ptr * ptr)) :=
  match n with
  | O => Ok []
  | S k =>
      t1 <- adjust (fst tmp, snd tmp + DPS) ;;
      s <- read_ptr d t1 ;;
      t2 <- adjust (fst t1, snd t1 + DPS) ;;
      e <- read_ptr d t2 ;;
      r <- read_entries k d t2 ;;
      Ok ((s, e) :: r)
  end.

(* [room] = the number of entries the caller's malloc has room for *)
Definition read_table (d : disk) (p : ptr) (room : Z) : out (list (ptr * ptr)) :=
  '(tag, e) <- read_chunk_length d p ;;
  if negb (tag4 tag tag_DCtb) then Err E_TAG else
  let nbytes := (fst e - fst p) * DBS + (snd e - snd p) - HDR in
  if nbytes <? 0 then Ext else                        (* cgulong_t: wraps to an absurd count *)
  let cnt := nbytes / (2 * DPS) in
  if room <? cnt then OOBW 2 else                     (* heap overflow of data_chunk_table[] (C13) *)
  es <- read_entries (Z.to_nat cnt) d (fst p, snd p + TAG_SIZE) ;;
  et <- read_tag d e ;;
  if negb (tag4 et tag_dcTE) then Err E_TAG else Ok es.

Fixpoint write_entries (es : list (ptr * ptr)) (d : disk) (dp : ptr) : R unit :=
  match es with
  | [] => (Ok tt, d)
  | (s, e) :: r =>
      bindO (adjust dp) d (fun dp1 =>
      let d1 := wr d dp1 (dp_enc fa s) in
      let dp2 := (fst dp1, snd dp1 + DPS) in
      (* the status of this adjust is not tested; the pointer is used as it is then *)
      let dp3 := match adjust dp2 with Ok q => q | _ => dp2 end in
      let d2 := wr d1 dp3 (dp_enc fa e) in
      write_entries r d2 (fst dp3, snd dp3 + DPS))
  end.

Definition write_table (d : disk) (p : ptr) (es : list (ptr * ptr)) : R unit :=
  let d1 := wr d p tag_DCtb in
  bindO (adjust (fst p, snd p + TAG_SIZE)) d1 (fun dp =>
  bindO (adjust (fst dp, snd dp + DPS + lenZ es * 2 * DPS)) d1 (fun e =>
  let d2 := wr d1 dp (dp_enc fa e) in
  bindR (write_entries es d2 (fst dp, snd dp + DPS)) (fun _ d3 =>
  (Ok tt, wr d3 e tag_dcTE)))).

(* ------------------------------------------------------------------ allocation and release *)
(* ADFI_file_malloc: the oracle's next answer; what the region held is not known any more *)
Definition alloc (al : list ptr) (size : Z) (d : disk) : R (ptr * list ptr) :=
  if (size <=? 0) || (MAXSZ <? size) then (Err E_FWRITE, d)         (* no allocator can serve this *)
  else match al with
       | [] => (OutOfFuel, d)                                       (* the oracle ran out: excluded by alloc_ok *)
       | p :: r => (Ok (p, r), dclr d (addr p) (Z.to_nat size))
       end.

(* ADFI_file_free(p, 0) of a data chunk or a data-chunk table: the size is taken from the chunk's own end pointer, the
   end tag is checked, then the bytes become a free chunk / 'z' filler: unspecified *)
Definition file_free (d : disk) (p : ptr) : R unit :=
  bindO (read_tag d p) d (fun tag =>
  let want := if tag4 tag tag_DaTa then Some tag_dEnD else if tag4 tag tag_DCtb then Some tag_dcTE else None in
  match want with
  | None => (Ext, d)              (* another kind of chunk: not reachable from a data pointer of this model *)
  | Some endtag =>
      bindO (adjust (fst p, snd p + TAG_SIZE)) d (fun t =>          (* only when offset > 4096; same value otherwise *)
      bindO (read_ptr d t) d (fun e =>
      bindO (read_tag d e) d (fun et =>
      if negb (tag4 et endtag) then (Err E_TAG, d)
      else
        let nbytes := (fst e - fst p) * DBS + (snd e - snd p + TAG_SIZE) in
        (Ok tt, dclr d (addr p) (Z.to_nat nbytes)))))
  end).

Fixpoint free_all (cs : list (ptr * ptr)) (d : disk) : R unit :=
  match cs with
  | [] => (Ok tt, d)
  | c :: r => bindR (file_free d (fst c)) (fun _ d1 => free_all r d1)
  end.

(* ------------------------------------------------------------------ the node header (data side) *)
Record hdr := mkHdr { h_ty : dtype; h_dims : list Z; h_n : Z; h_dc : ptr }.
Definition blank_ptr : ptr := (0, DBS).            (* ADFI_set_blank_disk_pointer *)
Definition hdr0 : hdr := mkHdr MT [] 0 blank_ptr.
Definition total_bytes (h : hdr) : Z := esz (h_ty h) * prodZ (h_dims h).

(* ADFI_delete_data *)
Definition delete_data (h : hdr) (d : disk) : R unit :=
  if h_n h =? 0 then (Ok tt, d)
  else if h_n h =? 1 then file_free d (h_dc h)
  else
    bindO (read_table d (h_dc h) (h_n h)) d (fun tb =>
    bindR (free_all (firstn (Z.to_nat (h_n h)) tb) d) (fun _ d1 => file_free d1 (h_dc h))).

(* ADF_Put_Dimension_Information *)
Definition put_dims (h : hdr) (d : disk) (ty : dtype) (dims : list Z) : R hdr :=
  if 12 <? lenZ dims then (Err E_NDIMS, d)
  else if existsb (fun v => v <=? 0) dims then (Err E_DIMVAL, d)
  else if dtype_eqb (h_ty h) ty && (lenZ dims =? lenZ (h_dims h)) then (Ok (mkHdr (h_ty h) dims (h_n h) (h_dc h)), d)
  else bindR (delete_data h d) (fun _ d1 => (Ok (mkHdr ty dims 0 blank_ptr), d1)).

(* the shared opening of the three writers' single-chunk case: ADFI_read_chunk_length, tag check, data_start,
   chunk_total_bytes = end.offset - data_start.offset + (end.block - data_start.block) * 4096 *)
Definition one_chunk_size (d : disk) (dc : ptr) : out Z :=
  '(tag, e) <- read_chunk_length d dc ;;
  if negb (tag4 tag tag_DaTa) then Err E_TAG else
  ds <- adjust (fst dc, snd dc + TAG_SIZE + DPS) ;;
  Ok (snd e - snd ds + (fst e - fst ds) * DBS).

(* the two-entry table the three writers build when a second chunk is added: the end pointers are read back from the two
   chunks ("get the size of the data_chunk for the table end pointer") *)
Definition two_entries (d : disk) (c0 c1 : ptr) : out (list (ptr * ptr)) :=
  t0 <- adjust (fst c0, snd c0 + TAG_SIZE) ;;
  e0 <- read_ptr d t0 ;;
  t1 <- adjust (fst c1, snd c1 + TAG_SIZE) ;;
  e1 <- read_ptr d t1 ;;
  Ok [(c0, e0); (c1, e1)].

Definition sliceB (bs : bytes) (off len : Z) : bytes := firstn (Z.to_nat len) (skipn (Z.to_nat off) bs).

(* the tail shared by the three writers when a further chunk is appended to a table of n entries:
   end pointer of the new entry, new table, [fill] of the new chunk, release of the old table *)
Definition new_entry_end (p : ptr) (tot : Z) : out ptr := adjust (fst p, snd p + TAG_SIZE + DPS + tot).

(* ------------------------------------------------------------------ ADF_Write_All_Data *)
Fixpoint wall_loop (tb : list (ptr * ptr)) (d : disk) (data : bytes) (total : Z) : R (bytes * Z) :=
  match tb with
  | [] => (Ok (data, total), d)
  | c :: r =>
      let cur0 := csize c in
      let cur := Z.min cur0 total in
      bindR (write_data_chunk d (fst c) (if c_fix_wall cf then cur0 else cur) 0 cur (Some data)) (fun _ d1 =>
      let data' := skipn (Z.to_nat cur) data in
      let total' := total - cur in
      if total' <=? 0 then (Ok (data', total'), d1) else wall_loop r d1 data' total')
  end.

Definition write_all (h : hdr) (d : disk) (al : list ptr) (data : bytes) : R hdr :=
  let total := total_bytes h in
  if total =? 0 then (Err E_ZERO_DIMS, d)
  else if h_n h =? 0 then
    bindR (alloc al (total + TAG_SIZE + TAG_SIZE + DPS) d) (fun pa d1 =>
    let p := fst pa in
    bindR (write_data_chunk d1 p total 0 total (Some data)) (fun _ d2 =>
    (Ok (mkHdr (h_ty h) (h_dims h) 1 p), d2)))
  else if h_n h =? 1 then
    bindO (one_chunk_size d (h_dc h)) d (fun ctb =>
    if total >? ctb then
      bindR (write_data_chunk d (h_dc h) ctb 0 ctb (Some data)) (fun _ d1 =>
      let total' := total - ctb in
      bindR (alloc al (total' + TAG_SIZE + TAG_SIZE + DPS) d1) (fun pa d2 =>
      let p2 := fst pa in
      bindR (write_data_chunk d2 p2 total' 0 total' (Some (skipn (Z.to_nat ctb) data))) (fun _ d3 =>
      bindR (alloc (snd pa) (2 * TAG_SIZE + 5 * DPS) d3) (fun pb d4 =>
      let pt := fst pb in
      bindO (two_entries d4 (h_dc h) p2) d4 (fun es =>
      bindR (write_table d4 pt es) (fun _ d5 =>
      (Ok (mkHdr (h_ty h) (h_dims h) 2 pt), d5)))))))
    else
      bindR (write_data_chunk d (h_dc h) total 0 total (Some data)) (fun _ d1 => (Ok h, d1)))
  else
    bindO (read_table d (h_dc h) (h_n h + 1)) d (fun tb =>
    bindR (wall_loop (firstn (Z.to_nat (h_n h)) tb) d data total) (fun dt d1 =>
    let data' := fst dt in
    let total' := snd dt in
    if total' >? 0 then
      bindR (alloc al (2 * TAG_SIZE + DPS + total') d1) (fun pa d2 =>
      let p := fst pa in
      bindO (new_entry_end p total') d2 (fun e =>
      bindR (alloc (snd pa) (2 * TAG_SIZE + (2 * (h_n h + 1) + 1) * DPS) d2) (fun pb d3 =>
      let pt := fst pb in
      bindR (write_table d3 pt (firstn (Z.to_nat (h_n h)) tb ++ [(p, e)])) (fun _ d4 =>
      bindR (write_data_chunk d4 p total' 0 total' (Some data')) (fun _ d5 =>
      bindR (file_free d5 (h_dc h)) (fun _ d6 =>
      (Ok (mkHdr (h_ty h) (h_dims h) (h_n h + 1) pt), d6)))))))
    else (Ok h, d1))).

(* ------------------------------------------------------------------ ADF_Write_Block_Data *)
(* the chunk loop of the several-chunks case; state = (chunk_end_byte, bytes_written, rest of data) *)
Fixpoint wblock_loop (tb : list (ptr * ptr)) (d : disk) (start_byte end_byte block_bytes : Z)
         (ceb bw : Z) (data : bytes) : R (Z * Z * bytes) :=
  match tb with
  | [] => (Ok (ceb, bw, data), d)
  | c :: r =>
      let chunk_size := csize c in
      let ceb' := ceb + chunk_size in
      if start_byte >? ceb' then wblock_loop r d start_byte end_byte block_bytes ceb' bw data
      else
        let so := if start_byte >? ceb' - chunk_size then start_byte - (ceb' - chunk_size) else 0 in
        let btw0 := chunk_size - so in
        let btw := if bw + btw0 >? block_bytes then block_bytes - bw else btw0 in
        if (btw =? 0) || (ceb' - chunk_size >? end_byte)
        then wblock_loop r d start_byte end_byte block_bytes ceb' bw data
        else
          bindR (write_data_chunk d (fst c) chunk_size so btw (Some data)) (fun _ d1 =>
          wblock_loop r d1 start_byte end_byte block_bytes ceb' (bw + btw) (skipn (Z.to_nat btw) data))
  end.

Definition write_block (h : hdr) (d : disk) (al : list ptr) (b_start b_end : Z) (data : bytes) : R hdr :=
  let total := total_bytes h in
  if total =? 0 then (Err E_ZERO_DIMS, d) else
  let fb := esz (h_ty h) in
  let start_byte := fb * (b_start - 1) in
  let end_byte := fb * b_end in
  if (start_byte <? 0) || (start_byte >? end_byte) || (end_byte >? total) then (Err E_START_RANGE, d) else
  let block_bytes := end_byte - start_byte in
  if h_n h =? 0 then
    bindR (alloc al (total + TAG_SIZE + TAG_SIZE + DPS) d) (fun pa d1 =>
    let p := fst pa in
    bindR (write_data_chunk d1 p total start_byte block_bytes (Some data)) (fun _ d2 =>
    (Ok (mkHdr (h_ty h) (h_dims h) 1 p), d2)))
  else if h_n h =? 1 then
    bindO (one_chunk_size d (h_dc h)) d (fun chunk_size =>
    if total >? chunk_size then
      let btw1 := if start_byte <=? chunk_size then Z.min block_bytes (chunk_size - start_byte) else 0 in
      bindR (if start_byte <=? chunk_size
             then write_data_chunk d (h_dc h) chunk_size start_byte btw1 (Some data)
             else (Ok tt, d)) (fun _ d1 =>
      let bw := btw1 in
      let total' := total - chunk_size in
      bindR (alloc al (total' + TAG_SIZE + TAG_SIZE + DPS) d1) (fun pa d2 =>
      let p2 := fst pa in
      let data' := skipn (Z.to_nat btw1) data in
      bindR (if bw <? block_bytes
             then write_data_chunk d2 p2 total' (Z.max 0 (start_byte - chunk_size)) (block_bytes - bw) (Some data')
             else write_data_chunk d2 p2 total' 0 total' None) (fun _ d3 =>
      bindR (alloc (snd pa) (2 * TAG_SIZE + 5 * DPS) d3) (fun pb d4 =>
      let pt := fst pb in
      bindO (two_entries d4 (h_dc h) p2) d4 (fun es =>
      bindR (write_table d4 pt es) (fun _ d5 =>
      (Ok (mkHdr (h_ty h) (h_dims h) 2 pt), d5)))))))
    else
      bindR (write_data_chunk d (h_dc h) chunk_size start_byte block_bytes (Some data)) (fun _ d1 => (Ok h, d1)))
  else
    bindO (read_table d (h_dc h) (h_n h + 1)) d (fun tb =>
    bindR (wblock_loop (firstn (Z.to_nat (h_n h)) tb) d start_byte end_byte block_bytes 0 0 data) (fun st d1 =>
    let '(ceb, bw, data') := st in
    let total' := total - ceb in
    if total' >? 0 then
      bindR (alloc al (2 * TAG_SIZE + DPS + total') d1) (fun pa d2 =>
      let p := fst pa in
      bindO (new_entry_end p total') d2 (fun e =>
      bindR (alloc (snd pa) (2 * TAG_SIZE + (2 * (h_n h + 1) + 1) * DPS) d2) (fun pb d3 =>
      let pt := fst pb in
      bindR (write_table d3 pt (firstn (Z.to_nat (h_n h)) tb ++ [(p, e)])) (fun _ d4 =>
      bindR (if bw <? block_bytes
             then (* start_offset = MAX(0L, start_byte - total_bytes): total_bytes is by now the size of the NEW chunk *)
                  write_data_chunk d4 p total'
                    (Z.max 0 (start_byte - (if c_fix_wblock cf then ceb else total'))) (block_bytes - bw) (Some data')
             else write_data_chunk d4 p total' 0 total' None) (fun _ d5 =>
      bindR (file_free d5 (h_dc h)) (fun _ d6 =>
      (Ok (mkHdr (h_ty h) (h_dims h) (h_n h + 1) pt), d6)))))))
    else (Ok h, d1))).

(* ------------------------------------------------------------------ the strided calls: file-side selection *)
(* one selection dimension per node dimension: (start, end, stride) *)
Definition mk_sel (dims : list Z) (sel : list (Z * Z * Z)) : list dsel :=
  map (fun p => mkD (fst p) (fst (fst (snd p))) (snd (fst (snd p))) (snd (snd p))) (combine dims sel).

(* ADFI_count_total_array_points + the element loop's sequence of element offsets (Hyperslab.v, property C05) *)
Definition sel_positions (h : hdr) (sel : list (Z * Z * Z)) : out (list Z) :=
  if negb (lenZ sel =? lenZ (h_dims h)) then Ext          (* the C reads s_start[i] for i < number_of_dimensions *)
  else match adf_walk w64 (mk_sel (h_dims h) sel) with
       | inl e => Err (aerr_code e)
       | inr ps => Ok ps
       end.

(* if (p.offset > DISK_BLOCK_SIZE) ADFI_adjust_disk_pointer(&p) *)
Definition adjust_gt (p : ptr) : out ptr := if snd p >? DBS then adjust p else Ok p.

(* the per-element chunk lookup shared by ADF_Write_Data and ADF_Read_Data (several chunks):
     while (relative_offset >= past_chunk_sizes + current_chunk_size) {
        if (++current_chunk >= number_of_data_chunks) INCOMPLETE_DATA
        else { past_chunk_sizes += current_chunk_size ; current_chunk_size = <size of entry current_chunk> } }
   [rest] = the table entries after current_chunk *)
Record look := mkLook { l_cur : ptr * ptr; l_rest : list (ptr * ptr); l_past : Z; l_size : Z }.
Fixpoint lookup (rest : list (ptr * ptr)) (cur : ptr * ptr) (past size rel : Z) : out look :=
  if rel >=? past + size then
    match rest with
    | [] => Err E_INCOMPLETE
    | c :: r => lookup r c (past + size) (csize c) rel
    end
  else Ok (mkLook cur rest past size).

(* address of the element inside the located chunk *)
Definition elem_ptr (lk : look) (rel : Z) : out ptr :=
  adjust_gt (fst (fst (l_cur lk)), snd (fst (l_cur lk)) + (TAG_SIZE + DPS) + (rel - l_past lk)).

(* ------------------------------------------------------------------ ADF_Write_Data *)
(* "looping on the data-chunks, look at the size of the chunks": total_bytes -= current_bytes ; if (total_bytes <= 0) break
   -- with the count signed (now) or unsigned (before d6f9e64: x <= 0 iff x = 0, no stop on underflow) *)
Fixpoint wdata_count (tb : list (ptr * ptr)) (total : Z) : Z :=
  match tb with
  | [] => total
  | c :: r =>
      let t := if c_signed cf then total - csize c else (total - csize c) mod TW64 in
      if t <=? 0 then t else wdata_count r t
  end.

(* element loop, one chunk: block_offset advances by disk_offset * file_bytes, adjusted when > 4096 *)
Fixpoint wsingle (ps : list Z) (prev : Z) (bo : ptr) (fb : Z) (data : bytes) (d : disk) : R unit :=
  match ps with
  | [] => (Ok tt, d)
  | p :: r =>
      bindO (adjust_gt (fst bo, snd bo + (p - prev) * fb)) d (fun bo1 =>
      let d1 := wr d bo1 (firstn (Z.to_nat fb) data) in
      wsingle r p bo1 fb (skipn (Z.to_nat fb) data) d1)
  end.

(* element loop, several chunks *)
Fixpoint wmulti (ps : list Z) (lk : look) (fb : Z) (data : bytes) (d : disk) : R unit :=
  match ps with
  | [] => (Ok tt, d)
  | p :: r =>
      let rel := p * fb in
      bindO (lookup (l_rest lk) (l_cur lk) (l_past lk) (l_size lk) rel) d (fun lk1 =>
      bindO (elem_ptr lk1 rel) d (fun rb =>
      let d1 := wr d rb (firstn (Z.to_nat fb) data) in
      wmulti r lk1 fb (skipn (Z.to_nat fb) data) d1))
  end.

Definition elem_loop_w (h : hdr) (tb : list (ptr * ptr)) (ps : list Z) (data : bytes) (d : disk) : R unit :=
  let fb := esz (h_ty h) in
  if h_n h =? 1 then
    match ps with
    | [] => (Ok tt, d)
    | p0 :: _ =>
        bindO (adjust (fst (h_dc h), snd (h_dc h) + TAG_SIZE + DPS + p0 * fb)) d (fun bo =>
        wsingle ps p0 bo fb data d)
    end
  else
    match tb with
    | [] => (Ext, d)
    | c :: r => wmulti ps (mkLook c r 0 (csize c)) fb data d
    end.

Definition write_strided (h : hdr) (d : disk) (al : list ptr) (sel : list (Z * Z * Z)) (data : bytes) : R hdr :=
  let fb := esz (h_ty h) in
  if (fb =? 0) || (lenZ (h_dims h) =? 0) then (Err E_NODATA, d) else
  bindO (sel_positions h sel) d (fun ps =>
  if negb (lenZ data =? lenZ ps * fb) then (Ext, d) else       (* the caller's buffer holds the selected elements *)
  let total := total_bytes h in
  if total =? 0 then (Err E_ZERO_DIMS, d) else
  if h_n h =? 0 then
    bindR (alloc al (total + TAG_SIZE + TAG_SIZE + DPS) d) (fun pa d1 =>
    let p := fst pa in
    bindR (write_data_chunk d1 p total 0 total None) (fun _ d2 =>
    let h1 := mkHdr (h_ty h) (h_dims h) 1 p in
    bindR (elem_loop_w h1 [] ps data d2) (fun _ d3 => (Ok h1, d3))))
  else if h_n h =? 1 then
    bindO (one_chunk_size d (h_dc h)) d (fun ctb =>
    if total >? ctb then
      let total' := total - ctb in
      bindR (alloc al (total' + TAG_SIZE + TAG_SIZE + DPS) d) (fun pa d1 =>
      let p2 := fst pa in
      bindR (write_data_chunk d1 p2 total' 0 total' None) (fun _ d2 =>
      bindR (alloc (snd pa) (2 * TAG_SIZE + 5 * DPS) d2) (fun pb d3 =>
      let pt := fst pb in
      bindO (two_entries d3 (h_dc h) p2) d3 (fun es =>
      bindR (write_table d3 pt es) (fun _ d4 =>
      let h1 := mkHdr (h_ty h) (h_dims h) 2 pt in
      bindR (elem_loop_w h1 es ps data d4) (fun _ d5 => (Ok h1, d5)))))))
    else bindR (elem_loop_w h [] ps data d) (fun _ d1 => (Ok h, d1)))
  else
    bindO (read_table d (h_dc h) (h_n h + 1)) d (fun tb0 =>
    let tb := firstn (Z.to_nat (h_n h)) tb0 in
    let rest := wdata_count tb total in
    if rest >? 0 then
      (* 2 * TAG_SIZE + DISK_POINTER_SIZE + total_bytes as the cglong_t argument of ADFI_file_malloc *)
      let sz := if c_signed cf then 2 * TAG_SIZE + DPS + rest else toS (2 * TAG_SIZE + DPS + rest) in
      bindR (alloc al sz d) (fun pa d1 =>
      let p := fst pa in
      bindO (new_entry_end p rest) d1 (fun e =>
      bindR (alloc (snd pa) (2 * TAG_SIZE + (2 * (h_n h + 1) + 1) * DPS) d1) (fun pb d2 =>
      let pt := fst pb in
      let tb' := tb ++ [(p, e)] in
      bindR (write_table d2 pt tb') (fun _ d3 =>
      bindR (write_data_chunk d3 p rest 0 rest None) (fun _ d4 =>
      bindR (file_free d4 (h_dc h)) (fun _ d5 =>
      let h1 := mkHdr (h_ty h) (h_dims h) (h_n h + 1) pt in
      bindR (elem_loop_w h1 tb' ps data d5) (fun _ d6 => (Ok h1, d6))))))))
    else bindR (elem_loop_w h tb ps data d) (fun _ d1 => (Ok h, d1)))).

(* ------------------------------------------------------------------ ADF_Read_All_Data *)
Fixpoint rall_loop (tb : list (ptr * ptr)) (d : disk) (total br : Z) : out (list (option Z) * Z) :=
  match tb with
  | [] => Ok ([], br)
  | c :: r =>
      let btr0 := csize c in
      let btr := if br + btr0 >? total then total - br else btr0 in
      if btr =? 0 then Ok ([], br)
      else x <- read_data_chunk d (fst c) btr 0 btr ;;
           '(rest, br') <- rall_loop r d total (br + btr) ;;
           Ok (x ++ rest, br')
  end.

Definition read_all (h : hdr) (d : disk) : out (list (option Z)) :=
  if (esz (h_ty h) =? 0) || (lenZ (h_dims h) =? 0) then Err E_NODATA else
  let total := total_bytes h in
  if h_n h =? 0 then Err E_NODATA            (* the buffer is zeroed; NO_DATA is what the caller sees *)
  else if h_n h =? 1 then read_data_chunk d (h_dc h) total 0 total
  else
    tb <- read_table d (h_dc h) (h_n h) ;;
    '(x, br) <- rall_loop (firstn (Z.to_nat (h_n h)) tb) d total 0 ;;
    if br <? total then Err E_INCOMPLETE else Ok x.

(* ------------------------------------------------------------------ ADF_Read_Block_Data *)
Fixpoint rblock_loop (tb : list (ptr * ptr)) (d : disk) (total start_byte end_byte block_bytes ceb br : Z)
  : out (list (option Z) * Z) :=
  match tb with
  | [] => Ok ([], br)
  | c :: r =>
      let cs0 := csize c in
      let cs := if ceb + cs0 >? total then total - ceb else cs0 in
      if cs =? 0 then Ok ([], br) else
      let ceb' := ceb + cs in
      if start_byte >=? ceb' then rblock_loop r d total start_byte end_byte block_bytes ceb' br
      else
        let so := if start_byte >? ceb' - cs then start_byte - (ceb' - cs) else 0 in
        let btr0 := cs - so in
        let btr := if br + btr0 >? block_bytes then block_bytes - br else btr0 in
        if (btr =? 0) || (ceb' - cs >? end_byte) then Ok ([], br)
        else x <- read_data_chunk d (fst c) cs so btr ;;
             '(rest, br') <- rblock_loop r d total start_byte end_byte block_bytes ceb' (br + btr) ;;
             Ok (x ++ rest, br')
  end.

Definition read_block (h : hdr) (d : disk) (b_start b_end : Z) : out (list (option Z)) :=
  if (esz (h_ty h) =? 0) || (lenZ (h_dims h) =? 0) then Err E_NODATA else
  let total := total_bytes h in
  if total =? 0 then Err E_ZERO_DIMS else
  let fb := esz (h_ty h) in
  let start_byte := fb * (b_start - 1) in
  let end_byte := fb * b_end in
  if (start_byte <? 0) || (start_byte >? end_byte) || (end_byte >? total) then Err E_START_RANGE else
  let block_bytes := end_byte - start_byte in
  if h_n h =? 0 then Err E_NODATA
  else if h_n h =? 1 then read_data_chunk d (h_dc h) total start_byte block_bytes
  else
    tb <- read_table d (h_dc h) (h_n h) ;;
    '(x, br) <- rblock_loop (firstn (Z.to_nat (h_n h)) tb) d total start_byte end_byte block_bytes 0 0 ;;
    if br <? block_bytes then
      (* INCOMPLETE_DATA, after memset(data_pointer, 0, total_bytes - bytes_read) into the caller's buffer of
         block_bytes bytes (the repair zeroes block_bytes - bytes_read) *)
      if c_fix_rblock cf || (total <=? block_bytes) then Err E_INCOMPLETE else OOBW 7
    else Ok x.

(* ------------------------------------------------------------------ ADF_Read_Data *)
Fixpoint rsingle (ps : list Z) (prev : Z) (bo : ptr) (fb : Z) (d : disk) : out (list (option Z)) :=
  match ps with
  | [] => Ok []
  | p :: r =>
      bo1 <- adjust_gt (fst bo, snd bo + (p - prev) * fb) ;;
      rest <- rsingle r p bo1 fb d ;;
      Ok (rd d bo1 fb ++ rest)
  end.

Fixpoint rmulti (ps : list Z) (lk : look) (fb : Z) (d : disk) : out (list (option Z)) :=
  match ps with
  | [] => Ok []
  | p :: r =>
      let rel := p * fb in
      lk1 <- lookup (l_rest lk) (l_cur lk) (l_past lk) (l_size lk) rel ;;
      rb <- elem_ptr lk1 rel ;;
      rest <- rmulti r lk1 fb d ;;
      Ok (rd d rb fb ++ rest)
  end.

Definition read_strided (h : hdr) (d : disk) (sel : list (Z * Z * Z)) : out (list (option Z)) :=
  let fb := esz (h_ty h) in
  if (fb =? 0) || (lenZ (h_dims h) =? 0) then Err E_NODATA else
  ps <- sel_positions h sel ;;
  if h_n h =? 0 then Ok (map Some (zeros (lenZ ps * fb)))          (* memset(data, 0, memory_bytes) per element *)
  else if h_n h =? 1 then
    match ps with
    | [] => Ok []
    | p0 :: _ => bo <- adjust (fst (h_dc h), snd (h_dc h) + TAG_SIZE + DPS + p0 * fb) ;; rsingle ps p0 bo fb d
    end
  else
    tb <- read_table d (h_dc h) (h_n h) ;;
    match firstn (Z.to_nat (h_n h)) tb with
    | [] => Ext
    | c :: r => rmulti ps (mkLook c r 0 (csize c)) fb d
    end.

(* ------------------------------------------------------------------ histories *)
Inductive op :=
| PutDims (ty : dtype) (dims : list Z)
| WriteAll (data : bytes)
| WriteBlock (b_start b_end : Z) (data : bytes)
| WriteStrided (sel : list (Z * Z * Z)) (data : bytes)
| ReadAll
| ReadBlock (b_start b_end : Z)
| ReadStrided (sel : list (Z * Z * Z)).

Record st := mkSt { s_h : hdr; s_d : disk }.
Definition st0 : st := mkSt hdr0 dempty.

Inductive ans := AUnit | ABytes (l : list (option Z)).

(* one API call with the allocator's answers [al]; a failed mutator leaves the header as it was (the header is written
   last) but keeps the bytes it wrote *)
Definition step (s : st) (o : op) (al : list ptr) : out ans * st :=
  let upd (r : R hdr) : out ans * st :=
    match r with
    | (Ok h', d') => (Ok AUnit, mkSt h' d')
    | (e, d') => (cast e, mkSt (s_h s) d')
    end in
  let ro (r : out (list (option Z))) : out ans * st :=
    match r with Ok l => (Ok (ABytes l), s) | e => (cast e, s) end in
  match o with
  | PutDims ty dims => upd (put_dims (s_h s) (s_d s) ty dims)
  | WriteAll data => upd (write_all (s_h s) (s_d s) al data)
  | WriteBlock b e data => upd (write_block (s_h s) (s_d s) al b e data)
  | WriteStrided sel data => upd (write_strided (s_h s) (s_d s) al sel data)
  | ReadAll => ro (read_all (s_h s) (s_d s))
  | ReadBlock b e => ro (read_block (s_h s) (s_d s) b e)
  | ReadStrided sel => ro (read_strided (s_h s) (s_d s) sel)
  end.

Fixpoint run (s : st) (hist : list (op * list ptr)) : st :=
  match hist with [] => s | (o, al) :: r => run (snd (step s o al)) r end.

(* ------------------------------------------------------------------ what the theorems assume, as boolean monitors *)
(* the chunk list the header designates, read from the store *)
Definition chunks_of (h : hdr) (d : disk) : out (list (ptr * ptr)) :=
  if h_n h =? 0 then Ok []
  else if h_n h =? 1 then
    t <- adjust (fst (h_dc h), snd (h_dc h) + TAG_SIZE) ;; e <- read_ptr d t ;; Ok [(h_dc h, e)]
  else tb <- read_table d (h_dc h) (h_n h) ;; Ok (firstn (Z.to_nat (h_n h)) tb).

(* byte extents [lo, hi) in use by the node's data: every chunk with its two tags, and the table *)
Definition chunk_extent (c : ptr * ptr) : Z * Z := (addr (fst c), addr (snd c) + TAG_SIZE).
Definition table_extent (h : hdr) : list (Z * Z) :=
  if h_n h >=? 2 then [(addr (h_dc h), addr (h_dc h) + 2 * TAG_SIZE + (2 * h_n h + 1) * DPS)] else [].
Definition live_extents (h : hdr) (d : disk) : list (Z * Z) :=
  match chunks_of h d with Ok cs => map chunk_extent cs ++ table_extent h | _ => [] end.

Definition disjoint (a b : Z * Z) : bool := (snd a <=? fst b) || (snd b <=? fst a).
Definition ptr_in_range (p : ptr) : bool := (0 <=? fst p) && (fst p <? 2 ^ 31) && (0 <=? snd p) && (snd p <? DBS).

(* the sizes the call will request, in order (from the model itself: the requests of the step with a dummy oracle) *)
Fixpoint fresh (ext : list (Z * Z)) (al : list ptr) (sizes : list Z) : bool :=
  match al, sizes with
  | p :: ar, n :: nr =>
      ptr_in_range p && forallb (disjoint (addr p, addr p + n)) ext && fresh ((addr p, addr p + n) :: ext) ar nr
  | _, [] => true
  | [], _ :: _ => false
  end.

(* sizes requested by a mutator in state s (at most two; computed as the code does) *)
Definition cap_of (cs : list (ptr * ptr)) : Z := fold_right (fun c acc => csize c + acc) 0 cs.
Definition requests (s : st) (o : op) : list Z :=
  let h := s_h s in
  let total := total_bytes h in
  match o with
  | WriteAll _ | WriteBlock _ _ _ | WriteStrided _ _ =>
      if h_n h =? 0 then [total + 20]
      else match chunks_of h (s_d s) with
           | Ok cs =>
               let cap := cap_of cs in
               if total >? cap then
                 if h_n h =? 1 then [total - cap + 20; 68] else [total - cap + 20; 8 + (2 * (h_n h + 1) + 1) * DPS]
               else []
           | _ => []
           end
  | _ => []
  end.

Definition alloc_ok (s : st) (o : op) (al : list ptr) : bool :=
  fresh (live_extents (s_h s) (s_d s)) al (requests s o).

(* dimensions for which the Z arithmetic is the C arithmetic *)
Definition dims_ok (dims : list Z) : bool :=
  (lenZ dims <=? 12) && forallb (fun v => 1 <=? v) dims && (prodZ dims * 16 <? 2 ^ 40).

(* the two situations the code got wrong before b21b08d / 3f8f7e0 (identically true now) *)
Definition wall_safe (s : st) : bool :=
  c_fix_wall cf ||
  match chunks_of (s_h s) (s_d s) with
  | Ok cs => (h_n (s_h s) <? 2) ||
             (* every chunk the loop touches is filled completely: total >= capacity, or total ends on a chunk end *)
             (let total := total_bytes (s_h s) in
              (cap_of cs <=? total) ||
              existsb (fun k => cap_of (firstn k cs) =? total) (seq 0 (S (length cs))))
  | _ => false
  end.
Definition wblock_safe (s : st) (b_start b_end : Z) : bool :=
  c_fix_wblock cf ||
  match chunks_of (s_h s) (s_d s) with
  | Ok cs =>
      let total := total_bytes (s_h s) in
      let cap := cap_of cs in
      let start_byte := esz (h_ty (s_h s)) * (b_start - 1) in
      let end_byte := esz (h_ty (s_h s)) * b_end in
      (h_n (s_h s) <? 2) || (total <=? cap) || (end_byte <=? cap) ||
      (Z.max 0 (start_byte - (total - cap)) =? Z.max 0 (start_byte - cap))
  | _ => false
  end.
(* number_of_data_chunks is a 4-digit hexadecimal field of the node header (the header's encoding is C13's) *)
Definition nchunks_ok (s : st) : bool := h_n (s_h s) <? 65535.
Definition safe_step (s : st) (o : op) : bool :=
  match o with
  | PutDims _ dims => dims_ok dims
  | WriteAll _ => wall_safe s && nchunks_ok s
  | WriteBlock b e _ =>
      (* a block of zero elements (b_start = b_end + 1) is accepted by the code; it is outside the specification *)
      wblock_safe s b e && nchunks_ok s && negb (esz (h_ty (s_h s)) * (b - 1) =? esz (h_ty (s_h s)) * e)
  | WriteStrided _ _ => nchunks_ok s
  | _ => true
  end.

(* the caller's buffer holds what the call will read from it *)
Definition buf_ok (h : hdr) (o : op) : bool :=
  match o with
  | WriteAll data => total_bytes h <=? lenZ data
  | WriteBlock b e data => esz (h_ty h) * e - esz (h_ty h) * (b - 1) <=? lenZ data
  | _ => true
  end.

(* no new chunk of more than 4096 data bytes whose data area starts on a block boundary is handed to the two writers that
   zero-fill (conservative: ADF_Write_Block_Data zero-fills only when the block ends before the new chunk) *)
Definition zero_ok (s : st) (o : op) (al : list ptr) : bool :=
  c_fix_zero cf ||
  match o with
  | WriteBlock _ _ _ | WriteStrided _ _ =>
      match al, requests s o with
      | p :: _, n :: _ => negb ((n - 20 >? DBS) && ((snd p + HDR) mod DBS =? 0))
      | _, _ => true
      end
  | _ => true
  end.

Fixpoint good_hist (s : st) (hist : list (op * list ptr)) : bool :=
  match hist with
  | [] => true
  | (o, al) :: r => safe_step s o && alloc_ok s o al && zero_ok s o al && buf_ok (s_h s) o && good_hist (snd (step s o al)) r
  end.

End Fmt.

(* the attributes of a file written by this library on this machine: new version, little endian *)
Definition fa_native : fattr := {| fa_old := false; fa_fmt := 76; fa_os := 76 |}.

(* ------------------------------------------------------------------ the specification: a plain array of bytes *)
(* What the node's data are, as a function of the operations alone (no chunks, no pointers, no allocator): [i_b x] is the
   x-th byte of the node's data if it was written since the node last lost its data and lies inside the dimensions it
   has had ever since, [None] otherwise.  [i_n] / [i_cap] only say whether the node owns storage and how many bytes: they
   decide which bytes a strided write into a node that has outgrown its storage initialises to zero (the code's "initialize
   the new disk_space with zero's, then we'll write the partial data").  The block writer's zero fill of a chunk it adds
   without writing into it is NOT claimed here; blocks of zero elements (b_start = b_end + 1, accepted by the code) are
   outside the specification. *)
Record ideal := mkI { i_ty : dtype; i_dims : list Z; i_n : Z; i_cap : Z; i_b : Z -> option Z }.
Definition i0 : ideal := mkI MT [] 0 0 (fun _ => None).
Definition i_total (I : ideal) : Z := esz (i_ty I) * prodZ (i_dims I).
Definition i_hdr (I : ideal) : hdr := mkHdr (i_ty I) (i_dims I) (i_n I) blank_ptr.

Definition over (f : Z -> option Z) (a : Z) (l : bytes) : Z -> option Z :=
  fun x => if (a <=? x) && (x <? a + lenZ l) then Some (nth (Z.to_nat (x - a)) l 0) else f x.
Definition restrict (f : Z -> option Z) (t : Z) : Z -> option Z := fun x => if x <? t then f x else None.
Fixpoint over_elems (f : Z -> option Z) (ps : list Z) (fb : Z) (data : bytes) : Z -> option Z :=
  match ps with
  | [] => f
  | p :: r => over_elems (over f (p * fb) (firstn (Z.to_nat fb) data)) r fb (skipn (Z.to_nat fb) data)
  end.

(* storage after a write that needs [t] bytes: (number of chunks, capacity) *)
Definition i_grow (I : ideal) (t : Z) : Z * Z :=
  if i_n I =? 0 then (1, t) else if t >? i_cap I then (i_n I + 1, t) else (i_n I, i_cap I).

Definition block_valid (I : ideal) (b_start b_end : Z) : bool :=
  let fb := esz (i_ty I) in
  negb (i_total I =? 0) && (0 <=? fb * (b_start - 1)) && (fb * (b_start - 1) <? fb * b_end) && (fb * b_end <=? i_total I).

Definition istep (I : ideal) (o : op) : ideal :=
  match o with
  | PutDims ty dims =>
      if (12 <? lenZ dims) || existsb (fun v => v <=? 0) dims then I
      else if dtype_eqb (i_ty I) ty && (lenZ dims =? lenZ (i_dims I))
           then mkI (i_ty I) dims (i_n I) (i_cap I) (restrict (i_b I) (esz (i_ty I) * prodZ dims))
           else mkI ty dims 0 0 (fun _ => None)
  | WriteAll data =>
      let t := i_total I in
      if t =? 0 then I
      else let nc := i_grow I t in
           mkI (i_ty I) (i_dims I) (fst nc) (if (i_n I =? 1) && (t <=? i_cap I) then t else snd nc)
               (over (i_b I) 0 (firstn (Z.to_nat t) data))
  | WriteBlock b e data =>
      if negb (block_valid I b e) then I
      else let fb := esz (i_ty I) in
           let nc := i_grow I (i_total I) in
           mkI (i_ty I) (i_dims I) (fst nc) (snd nc)
               (over (i_b I) (fb * (b - 1)) (firstn (Z.to_nat (fb * e - fb * (b - 1))) data))
  | WriteStrided sel data =>
      let fb := esz (i_ty I) in
      if (fb =? 0) || (lenZ (i_dims I) =? 0) then I
      else match sel_positions (i_hdr I) sel with
           | Ok ps =>
               if negb (lenZ data =? lenZ ps * fb) then I else
               let t := i_total I in
               let nc := i_grow I t in
               let z := if i_n I =? 0 then over (i_b I) 0 (zeros t)
                        else if t >? i_cap I then over (i_b I) (i_cap I) (zeros (t - i_cap I)) else i_b I in
               mkI (i_ty I) (i_dims I) (fst nc) (snd nc) (over_elems z ps fb data)
           | _ => I
           end
  | _ => I
  end.

Fixpoint irun (I : ideal) (ops : list op) : ideal :=
  match ops with [] => I | o :: r => irun (istep I o) r end.

Fixpoint zr (a : Z) (n : nat) : list Z := match n with O => [] | S k => a :: zr (a + 1) k end.
Definition zrange (a : Z) (n : Z) : list Z := zr a (Z.to_nat n).      (* a, a+1, .., a+n-1 *)

(* the node owns storage for all its bytes (it was written after it last grew) *)
Definition i_ready (I : ideal) : bool :=
  (1 <=? i_n I) && (i_total I <=? i_cap I) && negb (esz (i_ty I) =? 0) && negb (lenZ (i_dims I) =? 0).

(* what a read must return: [None] in the list = this byte was never written (no claim), [None] as a whole = the call is
   not a read of a node with data / not a valid range (no claim) *)
Definition iread (I : ideal) (o : op) : option (list (option Z)) :=
  if negb (i_ready I) then None else
  let fb := esz (i_ty I) in
  match o with
  | ReadAll => Some (map (i_b I) (zrange 0 (i_total I)))
  | ReadBlock b e =>
      if block_valid I b e
      then Some (map (i_b I) (zrange (fb * (b - 1)) (fb * e - fb * (b - 1)))) else None
  | ReadStrided sel =>
      match sel_positions (i_hdr I) sel with
      | Ok ps => Some (flat_map (fun p => map (i_b I) (zrange (p * fb) fb)) ps)
      | _ => None
      end
  | _ => None
  end.

(* a write the specification accepts (valid arguments, a buffer of the right length for the strided form) *)
Definition accepts (I : ideal) (o : op) : bool :=
  match o with
  | WriteAll _ => negb (i_total I =? 0)
  | WriteBlock b e _ => block_valid I b e
  | WriteStrided sel data =>
      negb (esz (i_ty I) =? 0) && negb (lenZ (i_dims I) =? 0) &&
      match sel_positions (i_hdr I) sel with Ok ps => lenZ data =? lenZ ps * esz (i_ty I) | _ => false end
  | _ => false
  end.

(* the answer agrees with the specification wherever the specification says something *)
Fixpoint agrees (spec got : list (option Z)) : bool :=
  match spec, got with
  | [], [] => true
  | s :: sr, g :: gr => (match s with None => true | Some v => match g with Some w => v =? w | None => false end end) && agrees sr gr
  | _, _ => false
  end.
