(* HashMapProofs.v -- invariant, termination and refinement proofs for HashMap.v (cg_hashmap.c). *)
From Coq Require Import ZArith List Bool Lia Znumtheory.
From CgnsV Require Import Fuel ListX ProbeCycle HashMap.
Import ListNotations.
Local Open Scope Z_scope.
Ltac Zify.zify_post_hook ::= Z.div_mod_to_equations.

(* ------------------------------------------------------------------------- *)
(** * The probe sequence *)

Definition slot_seq (mask hash : Z) (n : nat) : Z * Z :=
  Nat.iter n (probe_next mask) (probe_start mask hash).

Lemma slot_seq_S mask hash n : slot_seq mask hash (S n) = probe_next mask (slot_seq mask hash n).
Proof. reflexivity. Qed.

Lemma iter_shift {A} (f : A -> A) n x : Nat.iter n f (f x) = f (Nat.iter n f x).
Proof. induction n as [|n IH]; simpl; [reflexivity|now f_equal]. Qed.

Lemma pow2_pos p : 0 <= p -> 0 < 2 ^ p.
Proof. intros. apply Z.pow_pos_nonneg; lia. Qed.

Lemma land_mask x p : 0 <= p -> Z.land x (2 ^ p - 1) = x mod 2 ^ p.
Proof. intros Hp. rewrite <- Z.land_ones by assumption. now rewrite Z.ones_equiv, <- Z.sub_1_r. Qed.

Lemma land_mask' x p : 0 <= p -> Z.land (2 ^ p - 1) x = x mod 2 ^ p.
Proof. intros. rewrite Z.land_comm. now apply land_mask. Qed.

Section Probe.
  Variable p : Z.
  Hypothesis Hp : 0 <= p <= 60.
  Let size := 2 ^ p.
  Let mask := size - 1.

  Lemma size_pos : 0 < size.
  Proof. unfold size. apply pow2_pos. lia. Qed.

  Lemma size_le : size <= 2 ^ 60.
  Proof. unfold size. apply Z.pow_le_mono_r; lia. Qed.

  Lemma slot_seq_range hash n : 0 <= fst (slot_seq mask hash n) < size.
  Proof.
    pose proof size_pos.
    destruct n as [|n].
    - cbn. unfold mask, size. rewrite land_mask by lia. apply Z.mod_pos_bound. fold size. lia.
    - rewrite slot_seq_S. destruct (slot_seq mask hash n) as [i pt]. cbn [probe_next fst].
      unfold mask, size. rewrite land_mask' by lia. apply Z.mod_pos_bound. fold size. lia.
  Qed.

  Lemma slot_seq_perturb hash n : snd (slot_seq mask hash n) = Z.shiftr hash (5 * Z.of_nat n).
  Proof.
    induction n as [|n IH].
    - change (snd (slot_seq mask hash 0)) with hash. change (5 * Z.of_nat 0) with 0. now rewrite Z.shiftr_0_r.
    - rewrite slot_seq_S. destruct (slot_seq mask hash n) as [i pt]. cbn [probe_next snd] in *.
      rewrite IH. unfold PERTURB_SHIFT. rewrite Z.shiftr_shiftr by lia. f_equal. lia.
  Qed.

  Lemma perturb_gone hash n : 0 <= hash < W -> (13 <= n)%nat -> snd (slot_seq mask hash n) = 0.
  Proof.
    intros Hh Hn. rewrite slot_seq_perturb. rewrite Z.shiftr_div_pow2 by lia.
    apply Z.div_small. split; [lia|]. unfold W in Hh.
    assert (2 ^ 64 <= 2 ^ (5 * Z.of_nat n)) by (apply Z.pow_le_mono_r; lia).
    change (2 ^ 64) with 18446744073709551616 in H. lia.
  Qed.

  (* with the perturbation gone the probe is the LCG of ProbeCycle.v *)
  Lemma probe_next_lcg i : 0 <= i < size -> probe_next mask (i, 0) = (lcg size i, 0).
  Proof.
    intros Hi. cbn [probe_next]. unfold PERTURB_SHIFT. rewrite Z.shiftr_0_l. f_equal.
    unfold mask, size. rewrite land_mask' by lia. fold size. unfold lcg.
    pose proof size_le. rewrite (Z.mod_small _ W); [f_equal; lia|].
    unfold W. change (2 ^ 60) with 1152921504606846976 in H. lia.
  Qed.

  Lemma slot_seq_lcg hash k : 0 <= hash < W ->
    slot_seq mask hash (13 + k) = (lcg_iter size k (fst (slot_seq mask hash 13)), 0).
  Proof.
    intros Hh. induction k as [|k IH].
    - rewrite Nat.add_0_r. cbn [lcg_iter].
      rewrite (surjective_pairing (slot_seq mask hash 13)) at 1. f_equal. apply perturb_gone; [assumption|lia].
    - replace (13 + S k)%nat with (S (13 + k)) by lia. rewrite slot_seq_S, IH. cbn [lcg_iter].
      apply probe_next_lcg. apply lcg_iter_range; [apply size_pos|apply slot_seq_range].
  Qed.

  (* every slot is met within 13 + size steps, whatever the hash *)
  Lemma probe_reaches hash t : 0 <= hash < W -> 0 <= t < size ->
    exists n : nat, Z.of_nat n < 13 + size /\ fst (slot_seq mask hash n) = t.
  Proof.
    intros Hh Ht.
    destruct (lcg_full_cycle (Z.to_nat p) (fst (slot_seq mask hash 13)) t) as [k [Hk Hkt]].
    - rewrite Z2Nat.id by lia. apply slot_seq_range.
    - rewrite Z2Nat.id by lia. exact Ht.
    - rewrite Z2Nat.id in * by lia. fold size in Hk, Hkt.
      exists (13 + k)%nat. split; [lia|]. rewrite slot_seq_lcg by assumption. exact Hkt.
  Qed.
End Probe.

(* ------------------------------------------------------------------------- *)
(** * Generic facts about the probe loop *)

Lemma loopN_probe_first {R} mask (decide : Z -> option R) : forall n s r,
  (forall k, (k < n)%nat -> decide (fst (Nat.iter k (probe_next mask) s)) = None) ->
  decide (fst (Nat.iter n (probe_next mask) s)) = Some r ->
  loopN (probe_step mask decide) (S n) s = inr r.
Proof.
  induction n as [|n IH]; intros s r Hbefore Hat.
  - cbn [loopN]. unfold probe_step. cbn [Nat.iter] in Hat. simpl in Hat. now rewrite Hat.
  - cbn [loopN]. unfold probe_step at 1.
    pose proof (Hbefore 0%nat ltac:(lia)) as H0. simpl in H0. rewrite H0.
    apply IH.
    + intros k Hk. rewrite iter_shift. apply (Hbefore (S k)). lia.
    + rewrite iter_shift. exact Hat.
Qed.

Lemma probe_loop_first {R} (m : hmap) (decide : Z -> option R) hash n r :
  0 < m_size m -> Z.of_nat n < m_size m + 13 ->
  (forall k, (k < n)%nat -> decide (fst (slot_seq (mask_of m) hash k)) = None) ->
  decide (fst (slot_seq (mask_of m) hash n)) = Some r ->
  probe_loop m decide hash = Some r.
Proof.
  intros Hs Hn Hbefore Hat. unfold probe_loop. rewrite loopP_loopN.
  rewrite (loopN_mono _ (S n) _ _ r); [reflexivity| |].
  - apply loopN_probe_first; assumption.
  - unfold probe_fuel.
    assert (Z.pos (Z.to_pos (m_size m + 14)) = m_size m + 14) by (apply Z2Pos.id; lia). lia.
Qed.

(* least stopping step of a decidable predicate *)
Lemma first_such (P : nat -> Prop) (dec : forall n, {P n} + {~ P n}) N :
  P N -> exists n, (n <= N)%nat /\ P n /\ forall k, (k < n)%nat -> ~ P k.
Proof.
  intros HN.
  destruct (Wf_nat.dec_inh_nat_subset_has_unique_least_element P) as [n [[Hn Hmin] _]].
  - intros k. destruct (dec k); [left|right]; assumption.
  - now exists N.
  - exists n. split; [apply Hmin; assumption|]. split; [assumption|].
    intros k Hk HP. apply Hmin in HP. lia.
Qed.

(* ------------------------------------------------------------------------- *)
(** * Abstraction: the value a map associates with a key *)

Fixpoint find_ix_from (es : list entry) (base : Z) (k : list Z) : option Z :=
  match es with
  | [] => None
  | e :: r => if live e && key_eqb (e_key e) k then Some base else find_ix_from r (base + 1) k
  end.

Definition live_entries (m : hmap) : list entry := firstn (Z.to_nat (m_nentries m)) (m_entries m).
Definition find_ix (m : hmap) (k : list Z) : option Z := find_ix_from (live_entries m) 0 k.
(* -1 = absent, exactly what cgi_map_get_item answers *)
Definition find_val (m : hmap) (k : list Z) : Z :=
  match find_ix m k with Some ix => e_val (get_entry m ix) | None => -1 end.

Lemma key_eqb_eq a b : key_eqb a b = true <-> a = b.
Proof.
  revert b; induction a as [|x a IH]; intros [|y b]; cbn; split; intros H; try congruence; try discriminate.
  - apply andb_true_iff in H. destruct H as [H1 H2]. apply Z.eqb_eq in H1. apply IH in H2. congruence.
  - inversion H; subst. apply andb_true_iff. split; [apply Z.eqb_refl|now apply IH].
Qed.

Lemma key_eqb_refl a : key_eqb a a = true.
Proof. now apply key_eqb_eq. Qed.

Lemma key_eqb_sym a b : key_eqb a b = key_eqb b a.
Proof.
  destruct (key_eqb a b) eqn:H1, (key_eqb b a) eqn:H2; try reflexivity.
  - apply key_eqb_eq in H1. subst. rewrite key_eqb_refl in H2. discriminate.
  - apply key_eqb_eq in H2. subst. rewrite key_eqb_refl in H1. discriminate.
Qed.

Lemma find_ix_from_some es : forall base k ix, find_ix_from es base k = Some ix ->
  base <= ix < base + lenZ es /\ live (nth (Z.to_nat (ix - base)) es blank_entry) = true
  /\ e_key (nth (Z.to_nat (ix - base)) es blank_entry) = k.
Proof.
  induction es as [|e r IH]; intros base k ix H; cbn [find_ix_from] in H; [discriminate|].
  unfold lenZ in *. cbn [length]. rewrite Nat2Z.inj_succ.
  destruct (live e && key_eqb (e_key e) k) eqn:Hc.
  - inversion H; subst. replace (ix - ix) with 0 by lia. cbn.
    apply andb_true_iff in Hc. destruct Hc as [Hl Hk]. apply key_eqb_eq in Hk. repeat split; try assumption; lia.
  - apply IH in H. destruct H as [Hr [Hl Hk]].
    replace (Z.to_nat (ix - base)) with (S (Z.to_nat (ix - (base + 1)))) by lia. cbn [nth].
    repeat split; try assumption; lia.
Qed.

Lemma find_ix_from_none es : forall base k, find_ix_from es base k = None ->
  forall j, (j < length es)%nat -> ~ (live (nth j es blank_entry) = true /\ e_key (nth j es blank_entry) = k).
Proof.
  induction es as [|e r IH]; intros base k H j Hj [Hl Hk]; cbn [length] in Hj; [lia|].
  cbn [find_ix_from] in H. destruct (live e && key_eqb (e_key e) k) eqn:Hc; [discriminate|].
  destruct j as [|j]; cbn [nth] in *.
  - rewrite Hl in Hc. subst k. rewrite key_eqb_refl in Hc. discriminate.
  - eapply IH; eauto. lia.
Qed.

Lemma nth_firstn {A} (l : list A) n j d : (j < n)%nat -> nth j (firstn n l) d = nth j l d.
Proof.
  revert n j; induction l as [|x l IH]; intros [|n] [|j] H; cbn; auto; try lia. apply IH. lia.
Qed.

(* entry ix of the map, seen through live_entries *)
Lemma live_entries_nth m ix : 0 <= ix < m_nentries m ->
  nth (Z.to_nat ix) (live_entries m) blank_entry = get_entry m ix.
Proof.
  intros H. unfold live_entries, get_entry, nthZ. destruct (Z.ltb_spec ix 0); [lia|].
  apply nth_firstn. lia.
Qed.

Lemma live_entries_len m : 0 <= m_nentries m <= lenZ (m_entries m) -> lenZ (live_entries m) = m_nentries m.
Proof. intros H. unfold live_entries, lenZ in *. rewrite firstn_length. lia. Qed.

(* ------------------------------------------------------------------------- *)
(** * The table invariant *)

Lemma hash_cstr_range k : 0 <= hash_cstr k < W.
Proof.
  unfold hash_cstr. destruct (lenZ k =? 0); [unfold W; lia|].
  destruct (hash_blocks _ _ _) as [x1 p1].
  match goal with |- context [if ?c then _ else _] => destruct c end.
  - unfold W; lia.
  - apply Z.mod_pos_bound. unfold W; lia.
Qed.

Definition nonempty (x : Z) : bool := negb (x =? -1).
Definition count_nonempty (idx : list Z) : Z := lenZ (filter nonempty idx).

Record TInv (m : hmap) (n : Z) : Prop := {
  ti_pow : exists p, 3 <= p <= 60 /\ m_size m = 2 ^ p;
  ti_len : lenZ (m_indices m) = m_size m;
  ti_n : 0 <= n <= lenZ (m_entries m);
  ti_nlt : n <= USABLE_FRACTION (m_size m);
  ti_slot : forall i, 0 <= i < m_size m ->
      get_index m i = -1 \/ get_index m i = -2 \/
      (0 <= get_index m i < n /\ live (get_entry m (get_index m i)) = true);
  ti_inj : forall i j, 0 <= i < m_size m -> 0 <= j < m_size m -> 0 <= get_index m i ->
      get_index m i = get_index m j -> i = j;
  ti_reach : forall ix, 0 <= ix < n -> live (get_entry m ix) = true ->
      exists k : nat,
        get_index m (fst (slot_seq (mask_of m) (e_hash (get_entry m ix)) k)) = ix /\
        forall j, (j < k)%nat -> get_index m (fst (slot_seq (mask_of m) (e_hash (get_entry m ix)) j)) <> -1;
  ti_ent : forall ix, 0 <= ix < n -> live (get_entry m ix) = true ->
      e_hash (get_entry m ix) = hash_cstr (e_key (get_entry m ix)) /\ 0 <= e_val (get_entry m ix);
  ti_keys : forall ix jx, 0 <= ix < n -> 0 <= jx < n ->
      live (get_entry m ix) = true -> live (get_entry m jx) = true ->
      e_key (get_entry m ix) = e_key (get_entry m jx) -> ix = jx;
  ti_fill : count_nonempty (m_indices m) <= n
}.

Lemma exists_empty idx : count_nonempty idx < lenZ idx ->
  exists i, 0 <= i < lenZ idx /\ nthZ idx i (-1) = -1.
Proof.
  unfold count_nonempty, lenZ. induction idx as [|x r IH]; cbn [filter length]; intros H; [lia|].
  destruct (nonempty x) eqn:Hx.
  - cbn [length] in H. destruct IH as [i [Hi Hn]]; [lia|].
    exists (i + 1). split; [rewrite Nat2Z.inj_succ; lia|].
    unfold nthZ in *. destruct (Z.ltb_spec i 0); [lia|]. destruct (Z.ltb_spec (i + 1) 0); [lia|].
    replace (Z.to_nat (i + 1)) with (S (Z.to_nat i)) by lia. exact Hn.
  - exists 0. split; [rewrite Nat2Z.inj_succ; lia|]. unfold nonempty in Hx.
    apply negb_false_iff, Z.eqb_eq in Hx. subst. reflexivity.
Qed.

Section WithInv.
  Variables (m : hmap) (n : Z).
  Hypothesis HI : TInv m n.

  Lemma ti_size_pos : 0 < m_size m.
  Proof. destruct (ti_pow _ _ HI) as [p [Hp ->]]. apply pow2_pos. lia. Qed.

  Lemma ti_size_ge8 : 8 <= m_size m.
  Proof.
    destruct (ti_pow _ _ HI) as [p [Hp ->]]. change 8 with (2 ^ 3). apply Z.pow_le_mono_r; lia.
  Qed.

  Lemma ti_usable_lt : USABLE_FRACTION (m_size m) < m_size m.
  Proof. pose proof ti_size_ge8. unfold USABLE_FRACTION. lia. Qed.

  Lemma ti_slot_range hash k : 0 <= fst (slot_seq (mask_of m) hash k) < m_size m.
  Proof.
    destruct (ti_pow _ _ HI) as [p [Hp Hs]]. unfold mask_of. rewrite Hs. apply slot_seq_range. lia.
  Qed.

  Lemma ti_reaches hash t : 0 <= hash < W -> 0 <= t < m_size m ->
    exists k : nat, Z.of_nat k < 13 + m_size m /\ fst (slot_seq (mask_of m) hash k) = t.
  Proof.
    destruct (ti_pow _ _ HI) as [p [Hp Hs]]. unfold mask_of. rewrite Hs. apply probe_reaches. lia.
  Qed.

  (* some slot on every probe path is EMPTY, within the fuel *)
  Lemma ti_empty_on_path hash : 0 <= hash < W ->
    exists k : nat, Z.of_nat k < 13 + m_size m /\ get_index m (fst (slot_seq (mask_of m) hash k)) = -1.
  Proof.
    intros Hh. destruct (exists_empty (m_indices m)) as [t [Ht Hte]].
    - pose proof (ti_fill _ _ HI). pose proof (ti_nlt _ _ HI). pose proof ti_usable_lt.
      rewrite (ti_len _ _ HI). lia.
    - rewrite (ti_len _ _ HI) in Ht. destruct (ti_reaches hash t Hh Ht) as [k [Hk Hkt]].
      exists k. split; [assumption|]. rewrite Hkt. exact Hte.
  Qed.

  Lemma probe_loop_exists {R} (decide : Z -> option R) hash N :
    Z.of_nat N < m_size m + 13 -> decide (fst (slot_seq (mask_of m) hash N)) <> None ->
    exists (f : nat) r, (f <= N)%nat /\ probe_loop m decide hash = Some r /\
      decide (fst (slot_seq (mask_of m) hash f)) = Some r /\
      forall j, (j < f)%nat -> decide (fst (slot_seq (mask_of m) hash j)) = None.
  Proof.
    intros HN HP.
    destruct (first_such (fun j => decide (fst (slot_seq (mask_of m) hash j)) <> None)) with (N := N)
      as [f [Hf [Hpf Hmin]]].
    - intros j. destruct (decide (fst (slot_seq (mask_of m) hash j))); [left; discriminate|right; intros H; now apply H].
    - exact HP.
    - destruct (decide (fst (slot_seq (mask_of m) hash f))) as [r|] eqn:Hr; [|now elim Hpf].
      assert (Hbefore : forall j, (j < f)%nat -> decide (fst (slot_seq (mask_of m) hash j)) = None).
      { intros j Hj. specialize (Hmin j Hj). destruct (decide (fst (slot_seq (mask_of m) hash j))); [elim Hmin; discriminate|reflexivity]. }
      exists f, r. repeat split; try assumption.
      apply probe_loop_first with (n := f); try assumption; [apply ti_size_pos|lia].
  Qed.

  (* a slot holding a non-negative number holds a live entry below n *)
  Lemma ti_slot_live i : 0 <= i < m_size m -> 0 <= get_index m i ->
    0 <= get_index m i < n /\ live (get_entry m (get_index m i)) = true.
  Proof. intros Hi Hge. destruct (ti_slot _ _ HI i Hi) as [H|[H|H]]; [lia|lia|exact H]. Qed.

  Lemma name_lookup_present ix key :
    0 <= ix < n -> live (get_entry m ix) = true -> e_key (get_entry m ix) = key ->
    name_lookup m key (hash_cstr key) = Some (ix, e_val (get_entry m ix)).
  Proof.
    intros Hix Hl Hk.
    destruct (ti_ent _ _ HI ix Hix Hl) as [Hh _]. rewrite Hk in Hh.
    destruct (ti_reach _ _ HI ix Hix Hl) as [k0 [Hk0 Hnoempty]]. rewrite Hh in Hk0, Hnoempty.
    pose proof (hash_cstr_range key) as Hr.
    destruct (ti_empty_on_path _ Hr) as [e [He Hee]].
    assert (Hk0e : (k0 < e)%nat).
    { destruct (Nat.lt_trichotomy k0 e) as [H|[H|H]]; [assumption| |].
      - subst e. rewrite Hk0 in Hee. lia.
      - elim (Hnoempty e H). exact Hee. }
    unfold name_lookup.
    destruct (probe_loop_exists (name_lookup_test m key (hash_cstr key)) (hash_cstr key) k0) as [f [r [Hf [Hloop [Hat _]]]]].
    - lia.
    - unfold name_lookup_test. rewrite Hk0.
      destruct (Z.eqb_spec ix MAPIX_EMPTY) as [E|E]; [unfold MAPIX_EMPTY in E; lia|].
      destruct (Z.leb_spec 0 ix); [|lia]. rewrite Hh, Z.eqb_refl, Hk, key_eqb_refl. cbn. discriminate.
    - rewrite Hloop. f_equal. unfold name_lookup_test in Hat.
      set (s := fst (slot_seq (mask_of m) (hash_cstr key) f)) in *.
      assert (Hne : get_index m s <> -1).
      { destruct (Nat.eq_dec f k0) as [->|Hne]; [unfold s; rewrite Hk0; lia|apply Hnoempty; lia]. }
      destruct (Z.eqb_spec (get_index m s) MAPIX_EMPTY) as [E|E]; [unfold MAPIX_EMPTY in E; contradiction|].
      destruct (Z.leb_spec 0 (get_index m s)) as [Hge|Hlt]; cbn [andb] in Hat; [|discriminate].
      destruct (e_hash (get_entry m (get_index m s)) =? hash_cstr key) eqn:E1; cbn [andb] in Hat; [|discriminate].
      destruct (key_eqb (e_key (get_entry m (get_index m s))) key) eqn:E2; [|discriminate].
      inversion Hat; subst r. apply key_eqb_eq in E2.
      destruct (ti_slot_live s (ti_slot_range _ _) Hge) as [Hrange Hlive].
      assert (get_index m s = ix) as ->; [|reflexivity].
      apply (ti_keys _ _ HI); try assumption. congruence.
  Qed.

  Lemma name_lookup_absent key :
    (forall ix, 0 <= ix < n -> live (get_entry m ix) = true -> e_key (get_entry m ix) <> key) ->
    name_lookup m key (hash_cstr key) = Some (-1, -1).
  Proof.
    intros Habs. pose proof (hash_cstr_range key) as Hr.
    destruct (ti_empty_on_path _ Hr) as [e [He Hee]].
    unfold name_lookup.
    destruct (probe_loop_exists (name_lookup_test m key (hash_cstr key)) (hash_cstr key) e) as [f [r [Hf [Hloop [Hat _]]]]].
    - lia.
    - unfold name_lookup_test. rewrite Hee. cbn. discriminate.
    - rewrite Hloop. f_equal. unfold name_lookup_test in Hat.
      set (s := fst (slot_seq (mask_of m) (hash_cstr key) f)) in *.
      destruct (Z.eqb_spec (get_index m s) MAPIX_EMPTY) as [E|E]; [inversion Hat; reflexivity|].
      destruct (Z.leb_spec 0 (get_index m s)) as [Hge|Hlt]; cbn [andb] in Hat; [|discriminate].
      destruct (e_hash (get_entry m (get_index m s)) =? hash_cstr key) eqn:E1; cbn [andb] in Hat; [|discriminate].
      destruct (key_eqb (e_key (get_entry m (get_index m s))) key) eqn:E2; [|discriminate].
      apply key_eqb_eq in E2.
      destruct (ti_slot_live s (ti_slot_range _ _) Hge) as [Hrange Hlive].
      elim (Habs _ Hrange Hlive E2).
  Qed.

  (* first slot with a negative index on the path of [hash]: exists, and no EMPTY slot precedes it *)
  Lemma find_empty_spec hash : 0 <= hash < W ->
    exists s (k : nat), find_empty_slot m hash = Some s /\ 0 <= s < m_size m /\ get_index m s < 0 /\
      fst (slot_seq (mask_of m) hash k) = s /\
      forall j, (j < k)%nat -> get_index m (fst (slot_seq (mask_of m) hash j)) <> -1.
  Proof.
    intros Hr. destruct (ti_empty_on_path _ Hr) as [e [He Hee]].
    unfold find_empty_slot.
    destruct (probe_loop_exists (find_empty_test m) hash e) as [f [r [Hf [Hloop [Hat Hbefore]]]]].
    - lia.
    - unfold find_empty_test. rewrite Hee. cbn. discriminate.
    - unfold find_empty_test in Hat.
      destruct (Z.ltb_spec (get_index m (fst (slot_seq (mask_of m) hash f))) 0) as [Hneg|]; [|discriminate].
      inversion Hat; subst r. exists (fst (slot_seq (mask_of m) hash f)), f.
      repeat split; try assumption; try apply ti_slot_range.
      intros j Hj. specialize (Hbefore j Hj). unfold find_empty_test in Hbefore.
      destruct (Z.ltb_spec (get_index m (fst (slot_seq (mask_of m) hash j))) 0); [discriminate|lia].
  Qed.

  Lemma build_probe_spec hash : 0 <= hash < W ->
    exists s (k : nat), probe_loop m (build_test m) hash = Some s /\ 0 <= s < m_size m /\ get_index m s = -1 /\
      fst (slot_seq (mask_of m) hash k) = s /\
      forall j, (j < k)%nat -> get_index m (fst (slot_seq (mask_of m) hash j)) <> -1.
  Proof.
    intros Hr. destruct (ti_empty_on_path _ Hr) as [e [He Hee]].
    destruct (probe_loop_exists (build_test m) hash e) as [f [r [Hf [Hloop [Hat Hbefore]]]]].
    - lia.
    - unfold build_test. rewrite Hee. cbn. discriminate.
    - unfold build_test in Hat.
      destruct (Z.eqb_spec (get_index m (fst (slot_seq (mask_of m) hash f))) MAPIX_EMPTY) as [Hneg|]; [|discriminate].
      inversion Hat; subst r. exists (fst (slot_seq (mask_of m) hash f)), f.
      repeat split; try assumption; try apply ti_slot_range.
      intros j Hj. specialize (Hbefore j Hj). unfold build_test in Hbefore.
      destruct (Z.eqb_spec (get_index m (fst (slot_seq (mask_of m) hash j))) MAPIX_EMPTY) as [|Hx]; [discriminate|exact Hx].
  Qed.

  Lemma index_lookup_spec ix : 0 <= ix < n -> live (get_entry m ix) = true ->
    exists s, index_lookup m (e_hash (get_entry m ix)) ix = Some s /\ 0 <= s < m_size m /\ get_index m s = ix.
  Proof.
    intros Hix Hl. set (hash := e_hash (get_entry m ix)).
    destruct (ti_ent _ _ HI ix Hix Hl) as [Hh _].
    assert (Hr : 0 <= hash < W) by (unfold hash; rewrite Hh; apply hash_cstr_range).
    destruct (ti_reach _ _ HI ix Hix Hl) as [k0 [Hk0 Hnoempty]]. fold hash in Hk0, Hnoempty.
    destruct (ti_empty_on_path _ Hr) as [e [He Hee]].
    assert (Hk0e : (k0 < e)%nat).
    { destruct (Nat.lt_trichotomy k0 e) as [H|[H|H]]; [assumption| |].
      - subst e. rewrite Hk0 in Hee. lia.
      - elim (Hnoempty e H). exact Hee. }
    unfold index_lookup.
    destruct (probe_loop_exists (index_lookup_test m ix) hash k0) as [f [r [Hf [Hloop [Hat _]]]]].
    - lia.
    - unfold index_lookup_test. rewrite Hk0, Z.eqb_refl. discriminate.
    - unfold index_lookup_test in Hat. set (s := fst (slot_seq (mask_of m) hash f)) in *.
      destruct (Z.eqb_spec (get_index m s) ix) as [E|E].
      + inversion Hat; subst r. exists s. repeat split; try assumption; apply ti_slot_range.
      + destruct (Z.eqb_spec (get_index m s) MAPIX_EMPTY) as [E2|E2]; [|discriminate].
        exfalso. destruct (Nat.eq_dec f k0) as [->|Hne]; [unfold s in E; contradiction|].
        apply (Hnoempty f); [lia|exact E2].
  Qed.
End WithInv.

(* ------------------------------------------------------------------------- *)
(** * Elementary updates preserve the table invariant *)

Lemma pow2_lt_le p q : 0 <= p -> 0 < q -> 2 ^ p < 2 ^ q -> 2 ^ p <= 2 ^ (q - 1).
Proof.
  intros Hp Hq H. apply Z.pow_lt_mono_r_iff in H; [|lia|lia]. apply Z.pow_le_mono_r; lia.
Qed.

Lemma narrow_id size ix : (exists p, 3 <= p <= 60 /\ size = 2 ^ p) ->
  -2 <= ix < USABLE_FRACTION size -> narrow size ix = ix.
Proof.
  intros [p [Hp ->]] Hix. unfold narrow, USABLE_FRACTION in *.
  destruct (Z.leb_spec (2 ^ p) 255) as [H1|H1].
  - assert (2 ^ p <= 2 ^ (8 - 1)) by (apply pow2_lt_le; [lia|lia|change (2 ^ 8) with 256; lia]).
    change (2 ^ (8 - 1)) with 128 in H. unfold wrap_signed. change (2 ^ (8 - 1)) with 128. lia.
  - destruct (Z.leb_spec (2 ^ p) 65535) as [H2|H2].
    + assert (2 ^ p <= 2 ^ (16 - 1)) by (apply pow2_lt_le; [lia|lia|change (2 ^ 16) with 65536; lia]).
      change (2 ^ (16 - 1)) with 32768 in H. unfold wrap_signed. change (2 ^ (16 - 1)) with 32768. lia.
    + destruct (Z.ltb_spec 4294967295 (2 ^ p)) as [H3|H3]; [reflexivity|].
      assert (2 ^ p <= 2 ^ (32 - 1)) by (apply pow2_lt_le; [lia|lia|change (2 ^ 32) with 4294967296; lia]).
      change (2 ^ (32 - 1)) with 2147483648 in H. unfold wrap_signed. change (2 ^ (32 - 1)) with 2147483648. lia.
Qed.

Definition b2z (b : bool) : Z := if b then 1 else 0.

Lemma count_nonempty_upd l : forall k v, (k < length l)%nat ->
  count_nonempty (upd l k v) = count_nonempty l - b2z (nonempty (nth k l (-1))) + b2z (nonempty v).
Proof.
  unfold count_nonempty, lenZ.
  induction l as [|x r IH]; intros [|k] v Hk; cbn [length] in Hk; try lia.
  - cbn [upd filter nth]. destruct (nonempty v), (nonempty x); cbn [length b2z]; lia.
  - cbn [upd filter nth]. specialize (IH k v ltac:(lia)).
    destruct (nonempty x); cbn [length]; lia.
Qed.

Lemma count_nonempty_updZ l i v : 0 <= i < lenZ l ->
  count_nonempty (updZ l i v) = count_nonempty l - b2z (nonempty (nthZ l i (-1))) + b2z (nonempty v).
Proof.
  intros H. unfold updZ, nthZ. destruct (Z.ltb_spec i 0); [lia|]. apply count_nonempty_upd. unfold lenZ in H. lia.
Qed.

(* reading the two arrays of a state whose arrays were updated *)
Lemma get_index_upd m m' s v i : m_indices m' = updZ (m_indices m) s v -> 0 <= s < lenZ (m_indices m) ->
  get_index m' i = if i =? s then v else get_index m i.
Proof.
  intros H Hs. unfold get_index. rewrite H. destruct (Z.eqb_spec i s) as [->|Hne].
  - now apply nthZ_updZ_eq.
  - apply nthZ_updZ_neq. congruence.
Qed.

Lemma get_entry_upd m m' j e i : m_entries m' = updZ (m_entries m) j e -> 0 <= j < lenZ (m_entries m) ->
  get_entry m' i = if i =? j then e else get_entry m i.
Proof.
  intros H Hs. unfold get_entry. rewrite H. destruct (Z.eqb_spec i j) as [->|Hne].
  - now apply nthZ_updZ_eq.
  - apply nthZ_updZ_neq. congruence.
Qed.

Lemma TInv_place m n m' s e :
  TInv m n ->
  m_size m' = m_size m -> m_indices m' = updZ (m_indices m) s n -> m_entries m' = updZ (m_entries m) n e ->
  0 <= s < m_size m -> get_index m s < 0 ->
  n < lenZ (m_entries m) -> n + 1 <= USABLE_FRACTION (m_size m) ->
  live e = true -> e_hash e = hash_cstr (e_key e) -> 0 <= e_val e ->
  (forall ix, 0 <= ix < n -> live (get_entry m ix) = true -> e_key (get_entry m ix) <> e_key e) ->
  (exists k : nat, fst (slot_seq (mask_of m) (e_hash e) k) = s /\
     forall j, (j < k)%nat -> get_index m (fst (slot_seq (mask_of m) (e_hash e) j)) <> -1) ->
  TInv m' (n + 1).
Proof.
  intros HI Hsz Hidx Hent Hs Hneg Hn Hn1 Hlive Hhash Hval Hfresh [k [Hks Hkb]].
  pose proof (ti_len _ _ HI) as Hlen. pose proof (ti_n _ _ HI) as Hnn.
  assert (Hgi : forall i, get_index m' i = if i =? s then n else get_index m i)
    by (intros i; apply get_index_upd; [assumption|lia]).
  assert (Hge : forall i, get_entry m' i = if i =? n then e else get_entry m i)
    by (intros i; apply get_entry_upd; [assumption|lia]).
  assert (Hmask : mask_of m' = mask_of m) by (unfold mask_of; now rewrite Hsz).
  constructor.
  - rewrite Hsz. apply (ti_pow _ _ HI).
  - rewrite Hidx, lenZ_updZ, Hsz. exact Hlen.
  - rewrite Hent, lenZ_updZ. lia.
  - rewrite Hsz. lia.
  - rewrite Hsz. intros i Hi. rewrite Hgi. destruct (Z.eqb_spec i s) as [->|Hne].
    + right; right. split; [lia|]. rewrite Hge, Z.eqb_refl. exact Hlive.
    + destruct (ti_slot _ _ HI i Hi) as [H|[H|[H1 H2]]]; [now left|now right; left|].
      right; right. split; [lia|]. rewrite Hge. destruct (Z.eqb_spec (get_index m i) n); [lia|exact H2].
  - rewrite Hsz. intros i j Hi Hj. rewrite !Hgi.
    destruct (Z.eqb_spec i s) as [->|Hnei], (Z.eqb_spec j s) as [->|Hnej]; intros Hge0 Heq; try reflexivity.
    + destruct (ti_slot_live _ _ HI j Hj) as [H1 _]; lia.
    + destruct (ti_slot_live _ _ HI i Hi Hge0) as [H1 _]. lia.
    + apply (ti_inj _ _ HI); assumption.
  - intros ix Hix. rewrite Hge, Hmask. destruct (Z.eqb_spec ix n) as [->|Hne]; intros Hl.
    + exists k. rewrite Hgi, Hks, Z.eqb_refl. split; [reflexivity|].
      intros j Hj. rewrite Hgi. destruct (Z.eqb_spec (fst (slot_seq (mask_of m) (e_hash e) j)) s); [lia|auto].
    + destruct (ti_reach _ _ HI ix ltac:(lia) Hl) as [k0 [Hk0 Hb0]].
      exists k0. split.
      * rewrite Hgi. destruct (Z.eqb_spec (fst (slot_seq (mask_of m) (e_hash (get_entry m ix)) k0)) s) as [E|E]; [|exact Hk0].
        rewrite E in Hk0. lia.
      * intros j Hj. rewrite Hgi.
        destruct (Z.eqb_spec (fst (slot_seq (mask_of m) (e_hash (get_entry m ix)) j)) s); [lia|auto].
  - intros ix Hix. rewrite Hge. destruct (Z.eqb_spec ix n) as [->|Hne]; intros Hl.
    + split; assumption.
    + apply (ti_ent _ _ HI); [lia|assumption].
  - intros ix jx Hix Hjx. rewrite !Hge.
    destruct (Z.eqb_spec ix n) as [->|Hnei], (Z.eqb_spec jx n) as [->|Hnej]; intros Hli Hlj Hk; try reflexivity.
    + exfalso. apply (Hfresh jx); [lia|assumption|congruence].
    + exfalso. apply (Hfresh ix); [lia|assumption|congruence].
    + apply (ti_keys _ _ HI); try assumption; lia.
  - rewrite Hidx, count_nonempty_updZ by lia. pose proof (ti_fill _ _ HI).
    unfold get_index in Hneg.
    destruct (nonempty (nthZ (m_indices m) s (-1))), (nonempty n); cbn [b2z]; lia.
Qed.

Lemma TInv_set_val m n m' ix v :
  TInv m n -> m_size m' = m_size m -> m_indices m' = m_indices m ->
  m_entries m' = updZ (m_entries m) ix (mkE (e_hash (get_entry m ix)) (e_key (get_entry m ix)) v) ->
  0 <= ix < n -> live (get_entry m ix) = true -> 0 <= v ->
  TInv m' n.
Proof.
  intros HI Hsz Hidx Hent Hix Hl Hv.
  pose proof (ti_n _ _ HI) as Hnn.
  assert (Hgi : forall i, get_index m' i = get_index m i) by (intros; unfold get_index; now rewrite Hidx).
  assert (Hge : forall i, get_entry m' i = if i =? ix then mkE (e_hash (get_entry m ix)) (e_key (get_entry m ix)) v else get_entry m i)
    by (intros i; apply get_entry_upd; [assumption|lia]).
  assert (Hmask : mask_of m' = mask_of m) by (unfold mask_of; now rewrite Hsz).
  assert (Hlv : live (mkE (e_hash (get_entry m ix)) (e_key (get_entry m ix)) v) = true).
  { unfold live. cbn. destruct (Z.eqb_spec v (-1)); [lia|reflexivity]. }
  assert (Hlive : forall i, live (get_entry m' i) = live (get_entry m i)).
  { intros i. rewrite Hge. destruct (Z.eqb_spec i ix) as [->|]; [now rewrite Hlv, Hl|reflexivity]. }
  assert (Hkey : forall i, e_key (get_entry m' i) = e_key (get_entry m i)).
  { intros i. rewrite Hge. destruct (Z.eqb_spec i ix) as [->|]; reflexivity. }
  assert (Hhash : forall i, e_hash (get_entry m' i) = e_hash (get_entry m i)).
  { intros i. rewrite Hge. destruct (Z.eqb_spec i ix) as [->|]; reflexivity. }
  constructor.
  - rewrite Hsz. apply (ti_pow _ _ HI).
  - rewrite Hidx, Hsz. apply (ti_len _ _ HI).
  - rewrite Hent, lenZ_updZ. exact Hnn.
  - rewrite Hsz. apply (ti_nlt _ _ HI).
  - rewrite Hsz. intros i Hi. rewrite !Hgi, Hlive. apply (ti_slot _ _ HI i Hi).
  - rewrite Hsz. intros i j Hi Hj. rewrite !Hgi. apply (ti_inj _ _ HI); assumption.
  - intros jx Hjx. rewrite Hlive, Hhash, Hmask. intros Hlj.
    destruct (ti_reach _ _ HI jx Hjx Hlj) as [k0 [Hk0 Hb0]]. exists k0. split.
    + now rewrite Hgi.
    + intros j Hj. rewrite Hgi. auto.
  - intros jx Hjx. rewrite Hlive, Hhash, Hkey. intros Hlj.
    destruct (ti_ent _ _ HI jx Hjx Hlj) as [H1 H2]. split; [assumption|].
    rewrite Hge. destruct (Z.eqb_spec jx ix); [cbn; lia|assumption].
  - intros i j Hi Hj. rewrite !Hlive, !Hkey. apply (ti_keys _ _ HI); assumption.
  - rewrite Hidx. apply (ti_fill _ _ HI).
Qed.

(* the renumbering loop *)
Definition shift1 (old : Z) (e : entry) : entry :=
  if old <? e_val e then mkE (e_hash e) (e_key e) (e_val e - 1) else e.

Lemma nth_shift_down old : forall es b j, 0 <= old ->
  nth j (shift_down es b old) blank_entry =
  if (j <? b)%nat then shift1 old (nth j es blank_entry) else nth j es blank_entry.
Proof.
  induction es as [|e r IH]; intros b j Hold.
  - assert (E : shift_down [] b old = []) by (destruct b; reflexivity). rewrite E.
    assert (E2 : nth j (@nil entry) blank_entry = blank_entry) by (destruct j; reflexivity). rewrite E2.
    destruct (j <? b)%nat; [|reflexivity].
    unfold shift1, blank_entry. cbn. destruct (Z.ltb_spec old (-1)); [lia|reflexivity].
  - destruct b as [|b]; [cbn; reflexivity|]. cbn [shift_down]. destruct j as [|j]; cbn [nth].
    + reflexivity.
    + rewrite IH by assumption. reflexivity.
Qed.

Lemma shift_down_length old : forall es b, length (shift_down es b old) = length es.
Proof. induction es as [|e r IH]; intros [|b]; cbn; auto. Qed.

Lemma shift1_live old e : 0 <= old -> live (shift1 old e) = live e.
Proof.
  intros Hold. unfold shift1, live. destruct (Z.ltb_spec old (e_val e)); [|reflexivity]. cbn.
  destruct (Z.eqb_spec (e_val e - 1) (-1)), (Z.eqb_spec (e_val e) (-1)); try reflexivity; lia.
Qed.

Lemma shift1_key old e : e_key (shift1 old e) = e_key e.
Proof. unfold shift1. destruct (old <? e_val e); reflexivity. Qed.
Lemma shift1_hash old e : e_hash (shift1 old e) = e_hash e.
Proof. unfold shift1. destruct (old <? e_val e); reflexivity. Qed.
Lemma shift1_val old e : e_val (shift1 old e) = if old <? e_val e then e_val e - 1 else e_val e.
Proof. unfold shift1. destruct (old <? e_val e); reflexivity. Qed.

Lemma TInv_delete m n m' s ix :
  TInv m n -> m_size m' = m_size m ->
  m_indices m' = updZ (m_indices m) s (-2) ->
  m_entries m' = shift_down (updZ (m_entries m) ix (mkE (e_hash (get_entry m ix)) [] (-1)))
                            (Z.to_nat n) (e_val (get_entry m ix)) ->
  0 <= s < m_size m -> get_index m s = ix -> 0 <= ix < n -> live (get_entry m ix) = true ->
  TInv m' n /\
  (forall j, 0 <= j < n -> get_entry m' j =
      if j =? ix then mkE (e_hash (get_entry m ix)) [] (-1) else shift1 (e_val (get_entry m ix)) (get_entry m j)).
Proof.
  intros HI Hsz Hidx Hent Hs Hsix Hix Hl.
  pose proof (ti_len _ _ HI) as Hlen. pose proof (ti_n _ _ HI) as Hnn.
  destruct (ti_ent _ _ HI ix Hix Hl) as [_ Hold]. set (old := e_val (get_entry m ix)) in *.
  set (dead := mkE (e_hash (get_entry m ix)) [] (-1)) in *.
  assert (Hgi : forall i, get_index m' i = if i =? s then -2 else get_index m i)
    by (intros i; apply get_index_upd; [assumption|lia]).
  assert (Hge : forall j, 0 <= j < n -> get_entry m' j = if j =? ix then dead else shift1 old (get_entry m j)).
  { intros j Hj. unfold get_entry at 1. rewrite Hent. unfold nthZ. destruct (Z.ltb_spec j 0); [lia|].
    rewrite nth_shift_down by assumption. destruct (Nat.ltb_spec (Z.to_nat j) (Z.to_nat n)); [|lia].
    change (nth (Z.to_nat j) (updZ (m_entries m) ix dead) blank_entry) with
      (if j <? 0 then blank_entry else nth (Z.to_nat j) (updZ (m_entries m) ix dead) blank_entry) || idtac.
    assert (E : nth (Z.to_nat j) (updZ (m_entries m) ix dead) blank_entry = nthZ (updZ (m_entries m) ix dead) j blank_entry).
    { unfold nthZ. destruct (Z.ltb_spec j 0); [lia|reflexivity]. }
    rewrite E. destruct (Z.eqb_spec j ix) as [->|Hne].
    - rewrite nthZ_updZ_eq by lia. unfold shift1, dead. cbn. destruct (Z.ltb_spec old (-1)); [lia|reflexivity].
    - rewrite nthZ_updZ_neq by congruence. reflexivity. }
  assert (Hmask : mask_of m' = mask_of m) by (unfold mask_of; now rewrite Hsz).
  assert (Hdead : live dead = false) by reflexivity.
  split; [|exact Hge].
  constructor.
  - rewrite Hsz. apply (ti_pow _ _ HI).
  - rewrite Hidx, lenZ_updZ, Hsz. exact Hlen.
  - rewrite Hent. unfold lenZ. rewrite shift_down_length, updZ_length. exact Hnn.
  - rewrite Hsz. apply (ti_nlt _ _ HI).
  - rewrite Hsz. intros i Hi. rewrite Hgi. destruct (Z.eqb_spec i s) as [->|Hne]; [right; left; reflexivity|].
    destruct (ti_slot _ _ HI i Hi) as [H|[H|[H1 H2]]]; [now left|now right; left|].
    right; right. split; [assumption|]. rewrite Hge by assumption.
    destruct (Z.eqb_spec (get_index m i) ix) as [E|E].
    + exfalso. apply Hne. apply (ti_inj _ _ HI); try assumption; [lia|congruence].
    + now rewrite shift1_live.
  - rewrite Hsz. intros i j Hi Hj. rewrite !Hgi.
    destruct (Z.eqb_spec i s), (Z.eqb_spec j s); intros Hge0 Heq; try lia.
    apply (ti_inj _ _ HI); assumption.
  - intros jx Hjx. rewrite Hge, Hmask by assumption.
    destruct (Z.eqb_spec jx ix) as [->|Hne]; [rewrite Hdead; discriminate|].
    rewrite shift1_live, shift1_hash by assumption. intros Hlj.
    destruct (ti_reach _ _ HI jx Hjx Hlj) as [k0 [Hk0 Hb0]]. exists k0. split.
    + rewrite Hgi. destruct (Z.eqb_spec (fst (slot_seq (mask_of m) (e_hash (get_entry m jx)) k0)) s) as [E|E]; [|exact Hk0].
      rewrite E in Hk0. congruence.
    + intros j Hj. rewrite Hgi.
      destruct (Z.eqb_spec (fst (slot_seq (mask_of m) (e_hash (get_entry m jx)) j)) s); [lia|auto].
  - intros jx Hjx. rewrite Hge by assumption.
    destruct (Z.eqb_spec jx ix) as [->|Hne]; [rewrite Hdead; discriminate|].
    rewrite shift1_live, shift1_hash, shift1_key, shift1_val by assumption. intros Hlj.
    destruct (ti_ent _ _ HI jx Hjx Hlj) as [H1 H2]. split; [assumption|].
    destruct (Z.ltb_spec old (e_val (get_entry m jx))); lia.
  - intros i j Hi Hj. rewrite !Hge by assumption.
    destruct (Z.eqb_spec i ix) as [->|Hnei]; [rewrite Hdead; discriminate|].
    destruct (Z.eqb_spec j ix) as [->|Hnej]; [rewrite Hdead; discriminate|].
    rewrite !shift1_live, !shift1_key by assumption. apply (ti_keys _ _ HI); assumption.
  - rewrite Hidx, count_nonempty_updZ by lia. pose proof (ti_fill _ _ HI).
    unfold get_index, MAPIX_EMPTY in Hsix. rewrite Hsix.
    assert (nonempty ix = true) by (unfold nonempty; destruct (Z.eqb_spec ix (-1)); [lia|reflexivity]).
    rewrite H0. cbn. lia.
Qed.

(* ------------------------------------------------------------------------- *)
(** * The full invariant, and what a map associates with a key *)

Definition count_live (es : list entry) : Z := lenZ (filter live es).

Record Inv (m : hmap) : Prop := {
  inv_dyn : m_static m = false;
  inv_t : TInv m (m_nentries m);
  inv_len : lenZ (m_entries m) = USABLE_FRACTION (m_size m);
  inv_usable : m_usable m = USABLE_FRACTION (m_size m) - m_nentries m;
  inv_used : m_used m = count_live (live_entries m)
}.

(* well-formed = the static empty keys object, or a dynamic table satisfying Inv *)
Definition WF (m : hmap) : Prop := m = empty_map \/ Inv m.

Definition Maps (m : hmap) (k : list Z) (v : Z) : Prop :=
  exists ix, 0 <= ix < m_nentries m /\ live (get_entry m ix) = true /\
             e_key (get_entry m ix) = k /\ e_val (get_entry m ix) = v.
Definition Absent (m : hmap) (k : list Z) : Prop :=
  forall ix, 0 <= ix < m_nentries m -> live (get_entry m ix) = true -> e_key (get_entry m ix) <> k.

Lemma find_val_cases m k : 0 <= m_nentries m <= lenZ (m_entries m) ->
  Maps m k (find_val m k) \/ (Absent m k /\ find_val m k = -1).
Proof.
  intros Hn. unfold find_val, find_ix. destruct (find_ix_from (live_entries m) 0 k) as [ix|] eqn:E.
  - left. apply find_ix_from_some in E. rewrite live_entries_len in E by assumption.
    destruct E as [Hr [Hl Hk]]. rewrite Z.sub_0_r in Hl, Hk. rewrite live_entries_nth in Hl, Hk by lia.
    exists ix. repeat split; try assumption; lia.
  - right. split; [|reflexivity]. intros ix Hix Hl Hk.
    apply (find_ix_from_none _ _ _ E (Z.to_nat ix)).
    + pose proof (live_entries_len m Hn). unfold lenZ in H. lia.
    + rewrite live_entries_nth by assumption. split; assumption.
Qed.

Lemma Maps_fun m k v v' : TInv m (m_nentries m) -> Maps m k v -> Maps m k v' -> v = v'.
Proof.
  intros HI [ix [Hix [Hl [Hk Hv]]]] [jx [Hjx [Hl' [Hk' Hv']]]].
  assert (ix = jx) by (apply (ti_keys _ _ HI); try assumption; congruence). subst. congruence.
Qed.

Lemma find_val_intro m k v : TInv m (m_nentries m) ->
  Maps m k v \/ (Absent m k /\ v = -1) -> find_val m k = v.
Proof.
  intros HI H. destruct (find_val_cases m k (ti_n _ _ HI)) as [HM|[HA Hv]].
  - destruct H as [H|[HA ->]]; [eapply Maps_fun; eassumption|].
    destruct HM as [ix [Hix [Hl [Hk _]]]]. elim (HA ix Hix Hl Hk).
  - destruct H as [[ix [Hix [Hl [Hk _]]]]|[_ ->]]; [elim (HA ix Hix Hl Hk)|assumption].
Qed.

(* ---- get ---- *)
Lemma empty_lookup key hash : name_lookup empty_map key hash = Some (-1, -1).
Proof.
  unfold name_lookup. apply probe_loop_first with (n := 0%nat).
  - cbn; lia.
  - cbn; lia.
  - intros k Hk; lia.
  - change (slot_seq (mask_of empty_map) hash 0) with (probe_start (mask_of empty_map) hash).
    unfold probe_start, mask_of. cbn [m_size empty_map fst]. change (1 - 1) with 0.
    rewrite Z.land_0_r. reflexivity.
Qed.

Theorem get_item_correct m k : WF m -> map_get_item m k = Some (find_val m k).
Proof.
  intros [->|HI]; unfold map_get_item.
  - rewrite empty_lookup. reflexivity.
  - pose proof (inv_t _ HI) as HT.
    destruct (find_val_cases m k (ti_n _ _ HT)) as [[ix [Hix [Hl [Hk Hv]]]]|[HA Hv]].
    + rewrite (name_lookup_present _ _ HT ix k Hix Hl Hk). destruct (Z.ltb_spec ix 0); [lia|]. now rewrite Hv.
    + rewrite (name_lookup_absent _ _ HT k HA). now rewrite Hv.
Qed.

Theorem contains_correct m k : WF m ->
  map_contains m k = Some (if find_val m k =? -1 then 0 else 1).
Proof.
  intros [->|HI]; unfold map_contains.
  - rewrite empty_lookup. reflexivity.
  - pose proof (inv_t _ HI) as HT.
    destruct (find_val_cases m k (ti_n _ _ HT)) as [[ix [Hix [Hl [Hk Hv]]]]|[HA Hv]].
    + rewrite (name_lookup_present _ _ HT ix k Hix Hl Hk). rewrite <- Hv.
      unfold MAPIX_EMPTY. destruct (Z.eqb_spec ix (-1)); [lia|].
      unfold live in Hl. destruct (e_val (get_entry m ix) =? -1); [discriminate|reflexivity].
    + rewrite (name_lookup_absent _ _ HT k HA). rewrite Hv. reflexivity.
Qed.

(* ---- bookkeeping of the live count ---- *)
Lemma count_live_upd l : forall k e, (k < length l)%nat ->
  count_live (upd l k e) = count_live l - b2z (live (nth k l blank_entry)) + b2z (live e).
Proof.
  unfold count_live, lenZ.
  induction l as [|x r IH]; intros [|k] e Hk; cbn [length] in Hk; try lia.
  - cbn [upd filter nth]. destruct (live e), (live x); cbn [length b2z]; lia.
  - cbn [upd filter nth]. specialize (IH k e ltac:(lia)). destruct (live x); cbn [length]; lia.
Qed.

Lemma count_live_ext : forall l l', length l = length l' ->
  (forall j, (j < length l)%nat -> live (nth j l blank_entry) = live (nth j l' blank_entry)) ->
  count_live l = count_live l'.
Proof.
  unfold count_live, lenZ.
  induction l as [|x r IH]; intros [|y r'] Hlen Hp; cbn [length] in *; try lia; try reflexivity.
  cbn [filter]. pose proof (Hp 0%nat ltac:(lia)) as H0. cbn [nth] in H0. rewrite H0.
  assert (IH' : Z.of_nat (length (filter live r)) = Z.of_nat (length (filter live r'))).
  { apply IH; [lia|]. intros j Hj. apply (Hp (S j)). lia. }
  destruct (live y); cbn [length]; lia.
Qed.

Lemma firstn_upd_lt {A} (l : list A) : forall n k v, (k < n)%nat -> firstn n (upd l k v) = upd (firstn n l) k v.
Proof.
  induction l as [|x r IH]; intros [|n] [|k] v H; cbn; try reflexivity; try lia. f_equal. apply IH. lia.
Qed.

Lemma firstn_upd_ge {A} (l : list A) : forall n k v, (n <= k)%nat -> firstn n (upd l k v) = firstn n l.
Proof.
  induction l as [|x r IH]; intros [|n] [|k] v H; cbn; try reflexivity; try lia. f_equal. apply IH. lia.
Qed.

Lemma firstn_succ_upd {A} (l : list A) : forall n v, (n < length l)%nat ->
  firstn (S n) (upd l n v) = firstn n l ++ [v].
Proof.
  induction l as [|x r IH]; intros [|n] v H; cbn [length] in H; try lia; cbn; [reflexivity|].
  f_equal. apply IH. lia.
Qed.

Lemma count_live_app a b : count_live (a ++ b) = count_live a + count_live b.
Proof. unfold count_live, lenZ. rewrite filter_app, app_length. lia. Qed.

(* ---- set: the key is present ---- *)
Lemma set_present m key value ix :
  Inv m -> 0 <= value -> 0 <= ix < m_nentries m -> live (get_entry m ix) = true -> e_key (get_entry m ix) = key ->
  exists m', insert_key m key (hash_cstr key) value = Some (m', 0) /\ Inv m' /\
    forall k', find_val m' k' = if key_eqb k' key then value else find_val m k'.
Proof.
  intros HI Hv Hix Hl Hk. pose proof (inv_t _ HI) as HT. pose proof (ti_n _ _ HT) as Hn.
  unfold insert_key. rewrite (name_lookup_present _ _ HT ix key Hix Hl Hk).
  unfold MAPIX_EMPTY. destruct (Z.eqb_spec ix (-1)); [lia|].
  assert (Hfk : find_val m key = e_val (get_entry m ix)).
  { apply find_val_intro; [assumption|]. left. exists ix. repeat split; auto; lia. }
  destruct (Z.eqb_spec (e_val (get_entry m ix)) value) as [E|E]; cbn [negb].
  - exists m. split; [reflexivity|]. split; [assumption|].
    intros k'. destruct (key_eqb k' key) eqn:Ek; [|reflexivity]. apply key_eqb_eq in Ek. subst. congruence.
  - set (m' := set_entry m ix (mkE (e_hash (get_entry m ix)) (e_key (get_entry m ix)) value)).
    assert (HT' : TInv m' (m_nentries m)).
    { eapply TInv_set_val with (m := m) (ix := ix) (v := value); try eassumption; reflexivity. }
    assert (Hge : forall i, get_entry m' i = if i =? ix then mkE (e_hash (get_entry m ix)) (e_key (get_entry m ix)) value else get_entry m i).
    { intros i. apply get_entry_upd; [reflexivity|lia]. }
    assert (Hlv : live (mkE (e_hash (get_entry m ix)) (e_key (get_entry m ix)) value) = true).
    { unfold live. cbn. destruct (Z.eqb_spec value (-1)); [lia|reflexivity]. }
    exists m'. split; [reflexivity|]. split.
    + constructor.
      * exact (inv_dyn _ HI).
      * exact HT'.
      * change (m_entries m') with (updZ (m_entries m) ix (mkE (e_hash (get_entry m ix)) (e_key (get_entry m ix)) value)).
        rewrite lenZ_updZ. exact (inv_len _ HI).
      * exact (inv_usable _ HI).
      * change (m_used m') with (m_used m). rewrite (inv_used _ HI). unfold live_entries, m'. cbn [m_entries m_nentries set_entry].
        unfold updZ. destruct (Z.ltb_spec ix 0); [lia|].
        rewrite firstn_upd_lt by lia. rewrite count_live_upd.
        2:{ rewrite firstn_length. unfold lenZ in Hn. lia. }
        rewrite nth_firstn by lia.
        change (nth (Z.to_nat ix) (m_entries m) blank_entry) with (nth (Z.to_nat ix) (m_entries m) blank_entry).
        assert (Hnth : nth (Z.to_nat ix) (m_entries m) blank_entry = get_entry m ix).
        { unfold get_entry, nthZ. destruct (Z.ltb_spec ix 0); [lia|reflexivity]. }
        rewrite Hnth, Hl, Hlv. cbn. lia.
    + intros k'. apply find_val_intro; [assumption|].
      destruct (key_eqb k' key) eqn:Ek.
      * apply key_eqb_eq in Ek. subst k'. left. exists ix. rewrite Hge, Z.eqb_refl. cbn.
        change (m_nentries m') with (m_nentries m).
        repeat split; try assumption; try reflexivity; try lia.
      * assert (Hne : k' <> key) by (intros ->; rewrite key_eqb_refl in Ek; discriminate).
        destruct (find_val_cases m k' Hn) as [[jx [Hjx [Hlj [Hkj Hvj]]]]|[HA Hva]].
        -- left. exists jx. rewrite Hge. destruct (Z.eqb_spec jx ix) as [->|]; [congruence|].
           change (m_nentries m') with (m_nentries m).
           repeat split; try assumption; try reflexivity; try lia.
        -- right. split; [|assumption]. intros jx Hjx. rewrite Hge.
           destruct (Z.eqb_spec jx ix) as [->|]; cbn; [intros _; congruence|apply HA; assumption].
Qed.

(* ---- set: the key is absent and there is room ---- *)
Lemma set_absent_room m key value :
  Inv m -> 0 <= value -> Absent m key -> 0 < m_usable m ->
  exists m', (match find_empty_slot m (hash_cstr key) with
              | None => None
              | Some hashpos =>
                  let m2 := set_index m hashpos (m_nentries m) in
                  let m3 := set_entry m2 (m_nentries m) (mkE (hash_cstr key) key value) in
                  Some (mkM (m_static m3) (m_size m3) (m_usable m3 - 1) (m_nentries m3 + 1)
                            (m_indices m3) (m_entries m3) (m_used m3 + 1), 0)
              end) = Some (m', 0) /\ Inv m' /\
    forall k', find_val m' k' = if key_eqb k' key then value else find_val m k'.
Proof.
  intros HI Hv HA Hroom. pose proof (inv_t _ HI) as HT. pose proof (ti_n _ _ HT) as Hn.
  set (n := m_nentries m) in *. set (e := mkE (hash_cstr key) key value).
  destruct (find_empty_spec _ _ HT (hash_cstr key) (hash_cstr_range key)) as [s [k [Hfe [Hs [Hneg [Hks Hkb]]]]]].
  rewrite Hfe. cbv zeta.
  assert (Hnu : n < USABLE_FRACTION (m_size m)) by (pose proof (inv_usable _ HI); fold n in H; lia).
  assert (Hnar : narrow (m_size m) n = n) by (apply narrow_id; [apply (ti_pow _ _ HT)|lia]).
  eexists. split; [reflexivity|].
  match goal with |- Inv ?mm /\ _ => set (m' := mm) end.
  assert (Hidx : m_indices m' = updZ (m_indices m) s n) by (unfold m'; cbn; now rewrite Hnar).
  assert (Hent : m_entries m' = updZ (m_entries m) n e) by reflexivity.
  assert (Hsz : m_size m' = m_size m) by reflexivity.
  assert (Hlive : live e = true) by (unfold live, e; cbn; destruct (Z.eqb_spec value (-1)); [lia|reflexivity]).
  assert (HT' : TInv m' (n + 1)).
  { refine (TInv_place m n m' s e HT Hsz Hidx Hent Hs Hneg _ _ Hlive _ _ _ _).
    - rewrite (inv_len _ HI). lia.
    - lia.
    - reflexivity.
    - exact Hv.
    - intros ix Hix Hl. cbn. apply HA; assumption.
    - exists k. split; assumption. }
  assert (Hge : forall i, get_entry m' i = if i =? n then e else get_entry m i).
  { intros i. apply get_entry_upd; [assumption|]. rewrite (inv_len _ HI). lia. }
  split.
  - constructor.
    + exact (inv_dyn _ HI).
    + exact HT'.
    + rewrite Hent, lenZ_updZ, Hsz. exact (inv_len _ HI).
    + unfold m'. cbn. pose proof (inv_usable _ HI). fold n in H. lia.
    + unfold m'. cbn [m_used set_entry set_index]. rewrite (inv_used _ HI).
      unfold live_entries. cbn [m_nentries m_entries set_entry set_index]. fold n.
      unfold updZ. destruct (Z.ltb_spec n 0); [lia|].
      replace (Z.to_nat (n + 1)) with (S (Z.to_nat n)) by lia.
      rewrite firstn_succ_upd. 2:{ pose proof (inv_len _ HI). unfold lenZ in H0. lia. }
      rewrite count_live_app. unfold count_live at 3. cbn [filter]. fold e. rewrite Hlive. cbn. lia.
  - intros k'. apply find_val_intro; [exact HT'|].
    change (m_nentries m') with (n + 1).
    destruct (key_eqb k' key) eqn:Ek.
    + apply key_eqb_eq in Ek. subst k'. left. exists n. rewrite Hge, Z.eqb_refl.
      split; [change (m_nentries m') with (n + 1); lia|]. split; [exact Hlive|]. split; reflexivity.
    + assert (Hne : k' <> key) by (intros ->; rewrite key_eqb_refl in Ek; discriminate).
      destruct (find_val_cases m k' Hn) as [[jx [Hjx [Hlj [Hkj Hvj]]]]|[HA' Hva]].
      * left. exists jx. rewrite Hge. fold n in Hjx. destruct (Z.eqb_spec jx n); [lia|].
        split; [change (m_nentries m') with (n + 1); lia|]. repeat split; assumption.
      * right. split; [|assumption]. intros jx Hjx. rewrite Hge. change (m_nentries m') with (n + 1) in Hjx.
        destruct (Z.eqb_spec jx n) as [->|]; [intros _; unfold e; cbn; congruence|].
        apply HA'. fold n. lia.
Qed.

(* ---- delete ---- *)
Lemma find_val_empty k : find_val empty_map k = -1.
Proof. reflexivity. Qed.

Theorem del_item_correct m k : WF m ->
  exists m' rc, map_del_shift_item m k = Some (m', rc) /\ WF m' /\
    (find_val m k = -1 -> rc = -1 /\ m' = m) /\
    (find_val m k <> -1 -> rc = 0 /\
       forall k', find_val m' k' =
         if key_eqb k' k then -1
         else let v' := find_val m k' in if find_val m k <? v' then v' - 1 else v').
Proof.
  intros [->|HI]; unfold map_del_shift_item, del_shift_gen.
  - rewrite empty_lookup. exists empty_map, (-1). split; [reflexivity|]. split; [now left|].
    split; [auto|]. intros H. elim H. apply find_val_empty.
  - pose proof (inv_t _ HI) as HT. pose proof (ti_n _ _ HT) as Hn. set (n := m_nentries m) in *.
    destruct (find_val_cases m k Hn) as [[ix [Hix [Hl [Hk Hv]]]]|[HA Hv]].
    + (* present *)
      rewrite (name_lookup_present _ _ HT ix k Hix Hl Hk).
      destruct (ti_ent _ _ HT ix Hix Hl) as [Hh Hold]. rewrite Hk in Hh.
      set (old := e_val (get_entry m ix)) in *.
      unfold MAPIX_EMPTY. destruct (Z.eqb_spec ix (-1)); [lia|]. destruct (Z.eqb_spec old (-1)); [lia|]. cbn [orb].
      destruct (index_lookup_spec _ _ HT ix Hix Hl) as [s [Hil [Hs Hsix]]]. rewrite Hh in Hil. rewrite Hil.
      assert (Hnar : narrow (m_size m) MAPIX_DUMMY = -2).
      { apply narrow_id; [apply (ti_pow _ _ HT)|]. pose proof (ti_nlt _ _ HT). unfold MAPIX_DUMMY. lia. }
      eexists. exists 0. split; [reflexivity|].
      match goal with |- WF ?mm /\ _ => set (m' := mm) end.
      assert (Hsz : m_size m' = m_size m) by reflexivity.
      assert (Hidx : m_indices m' = updZ (m_indices m) s (-2)) by (unfold m'; cbn; now rewrite Hnar).
      assert (Hent : m_entries m' = shift_down (updZ (m_entries m) ix (mkE (e_hash (get_entry m ix)) [] (-1)))
                                             (Z.to_nat n) old) by reflexivity.
      destruct (TInv_delete m n m' s ix HT Hsz Hidx Hent Hs Hsix Hix Hl) as [HT' Hge].
      fold old in Hge.
      assert (HI' : Inv m').
      { constructor.
        - exact (inv_dyn _ HI).
        - exact HT'.
        - rewrite Hent. unfold lenZ. rewrite shift_down_length, updZ_length. exact (inv_len _ HI).
        - exact (inv_usable _ HI).
        - change (m_used m') with (m_used m - 1). rewrite (inv_used _ HI).
          assert (Hlen : length (live_entries m') = length (live_entries m)).
          { pose proof (live_entries_len m' (ti_n _ _ HT')). pose proof (live_entries_len m Hn).
            change (m_nentries m') with n in H. fold n in H0. unfold lenZ in *. lia. }
          assert (Hu : count_live (live_entries m') =
                       count_live (upd (live_entries m) (Z.to_nat ix) (mkE (e_hash (get_entry m ix)) [] (-1)))).
          { apply count_live_ext; [now rewrite upd_length|].
            intros j Hj. pose proof (live_entries_len m Hn) as Hl2. fold n in Hl2. unfold lenZ in Hl2.
            assert (E1 : nth j (live_entries m') blank_entry = get_entry m' (Z.of_nat j)).
            { rewrite <- live_entries_nth by (change (m_nentries m') with n; lia). now rewrite Nat2Z.id. }
            assert (E2 : nth j (live_entries m) blank_entry = get_entry m (Z.of_nat j)).
            { rewrite <- live_entries_nth by (fold n; lia). now rewrite Nat2Z.id. }
            rewrite E1, Hge by lia.
            destruct (Z.eqb_spec (Z.of_nat j) ix) as [E|E].
            - assert (Ej : Z.to_nat ix = j) by lia. rewrite Ej. rewrite nth_upd_eq by lia. reflexivity.
            - rewrite nth_upd_neq by lia. rewrite shift1_live by assumption. now rewrite E2. }
          rewrite Hu, count_live_upd. 2:{ pose proof (live_entries_len m Hn). fold n in H. unfold lenZ in H. lia. }
          rewrite live_entries_nth by assumption. rewrite Hl. cbn. lia. }
      split; [now right|].
      assert (Hfk : find_val m k = old) by (symmetry; exact Hv).
      split; [intros H; lia|]. intros _. split; [reflexivity|].
      intros k'. apply find_val_intro; [exact HT'|]. change (m_nentries m') with n. rewrite Hfk.
      destruct (key_eqb k' k) eqn:Ek.
      * apply key_eqb_eq in Ek. subst k'. right. split; [|reflexivity].
        intros jx Hjx. change (m_nentries m') with n in Hjx. rewrite Hge by assumption.
        destruct (Z.eqb_spec jx ix) as [->|Hne]; [discriminate|].
        rewrite shift1_live, shift1_key by assumption. intros Hlj Hkj. apply Hne.
        apply (ti_keys _ _ HT); try assumption. congruence.
      * assert (Hne : k' <> k) by (intros ->; rewrite key_eqb_refl in Ek; discriminate).
        cbv zeta.
        destruct (find_val_cases m k' Hn) as [[jx [Hjx [Hlj [Hkj Hvj]]]]|[HA' Hva]].
        -- left. exists jx. fold n in Hjx. change (m_nentries m') with n. rewrite Hge by assumption.
           destruct (Z.eqb_spec jx ix) as [->|]; [congruence|].
           rewrite shift1_live, shift1_key, shift1_val by assumption. rewrite Hvj.
           repeat split; try assumption; try reflexivity; lia.
        -- right. split.
           ++ intros jx Hjx. change (m_nentries m') with n in Hjx. rewrite Hge by assumption.
              destruct (Z.eqb_spec jx ix) as [->|]; [discriminate|].
              rewrite shift1_live, shift1_key by assumption. apply HA'. assumption.
           ++ rewrite Hva. destruct (Z.ltb_spec old (-1)); [lia|reflexivity].
    + (* absent *)
      rewrite (name_lookup_absent _ _ HT k HA). cbn.
      exists m, (-1). split; [reflexivity|]. split; [now right|]. split; [auto|]. intros H; now elim H.
Qed.

(* ------------------------------------------------------------------------- *)
(** * cgi_calculate_keysize *)

Definition blen (d : Z) : Z := if d =? 0 then 0 else Z.log2 d + 1.

Lemma bit_table_ok : forallb (fun d => nthZ BitLengthTable d 0 =? blen d)
  (map Z.of_nat (seq 0 32)) = true.
Proof. vm_compute. reflexivity. Qed.

Lemma bit_table d : 0 <= d < 32 -> nthZ BitLengthTable d 0 = blen d.
Proof.
  intros H. pose proof bit_table_ok as Hall. rewrite forallb_forall in Hall.
  apply Z.eqb_eq. apply Hall. apply in_map_iff. exists (Z.to_nat d). split; [lia|]. apply in_seq. lia.
Qed.

Lemma blen_div64 d : 32 <= d -> blen d = 6 + blen (d / 64).
Proof.
  intros H. unfold blen. destruct (Z.eqb_spec d 0); [lia|].
  destruct (Z.eqb_spec (d / 64) 0) as [E|E].
  - assert (d < 64) by lia.
    assert (Z.log2 d = 5); [|lia]. apply Z.log2_unique; [lia|]. change (2 ^ 5) with 32. change (2 ^ Z.succ 5) with 64. lia.
  - assert (64 <= d) by lia.
    change 64 with (2 ^ 6) at 1. rewrite <- Z.shiftr_div_pow2 by lia. rewrite Z.log2_shiftr by lia.
    assert (6 <= Z.log2 d) by (change 6 with (Z.log2 64); apply Z.log2_le_mono; lia). lia.
Qed.

Lemma bit_length_loop_spec : forall fuel d bits, 0 <= d < 32 * 64 ^ Z.of_nat fuel ->
  bit_length_loop fuel d bits = bits + blen d.
Proof.
  induction fuel as [|f IH]; intros d bits Hd; cbn [bit_length_loop].
  - change (64 ^ Z.of_nat 0) with 1 in Hd. rewrite bit_table by lia. reflexivity.
  - destruct (Z.leb_spec 32 d) as [H|H].
    + rewrite IH. rewrite (blen_div64 d H). lia.
      rewrite Nat2Z.inj_succ, Z.pow_succ_r in Hd by lia.
      split; [apply Z.div_pos; lia|]. apply Z.div_lt_upper_bound; lia.
    + rewrite bit_table by lia. reflexivity.
Qed.

Lemma lor_ge_l a b : 0 <= a -> 0 <= b -> a <= Z.lor a b.
Proof.
  intros Ha Hb.
  assert (D : Z.land a (Z.ldiff b a) = 0) by (rewrite Z.land_comm; apply Z.land_ldiff).
  assert (E : Z.lor a b = a + Z.ldiff b a).
  { rewrite (Z.add_nocarry_lxor _ _ D), (Z.lxor_lor _ _ D).
    apply Z.bits_inj'. intros n Hn. rewrite !Z.lor_spec, Z.ldiff_spec.
    destruct (Z.testbit a n), (Z.testbit b n); reflexivity. }
  rewrite E.
  assert (0 <= Z.ldiff b a) by (apply Z.ldiff_nonneg; now left). lia.
Qed.

Lemma keysize_spec n : 0 <= n < 2 ^ 58 ->
  exists p, 3 <= p <= 60 /\ calculate_keysize n = 2 ^ p /\ n <= 2 ^ p.
Proof.
  intros Hn. unfold calculate_keysize, MAP_MINSIZE. change (8 - 1) with 7.
  set (m := Z.lor n 8 - 1). set (x := Z.lor m 7).
  assert (Hn8 : n <= Z.lor n 8) by (apply lor_ge_l; lia).
  assert (H8 : 8 <= Z.lor n 8) by (rewrite Z.lor_comm; apply lor_ge_l; lia).
  assert (Hm : 7 <= m) by (unfold m; lia).
  assert (Hx7 : 7 <= x) by (unfold x; rewrite Z.lor_comm; apply lor_ge_l; lia).
  assert (Hxm : m <= x) by (unfold x; apply lor_ge_l; lia).
  assert (Hlog : Z.log2 x <= 57).
  { unfold x. rewrite Z.log2_lor by lia. change (Z.log2 7) with 2.
    assert (Z.log2 m <= 57); [|lia].
    assert (Z.log2 m <= Z.log2 (Z.lor n 8)) by (apply Z.log2_le_mono; unfold m; lia).
    rewrite Z.log2_lor in H by lia. change (Z.log2 8) with 3 in H.
    assert (Z.log2 n <= 57); [|lia].
    destruct (Z.eq_dec n 0) as [->|]; [cbn; lia|].
    assert (Z.log2 n < 58); [|lia]. apply Z.log2_lt_pow2; lia. }
  assert (Hlog2 : 2 <= Z.log2 x) by (change 2 with (Z.log2 7); apply Z.log2_le_mono; lia).
  unfold bit_length. rewrite bit_length_loop_spec.
  2:{ split; [lia|]. assert (x < 2 ^ 58); [|change (32 * 64 ^ Z.of_nat 12) with (2 ^ 77);
        assert (2 ^ 58 < 2 ^ 77) by (apply Z.pow_lt_mono_r; lia); lia].
      apply Z.log2_lt_pow2; lia. }
  unfold blen. destruct (Z.eqb_spec x 0); [lia|]. rewrite Z.add_0_l.
  exists (Z.log2 x + 1). split; [lia|]. rewrite Z.shiftl_1_l. split; [reflexivity|].
  pose proof (Z.log2_spec x ltac:(lia)) as Hs. replace (Z.succ (Z.log2 x)) with (Z.log2 x + 1) in Hs by lia.
  unfold m in *. lia.
Qed.

(* ------------------------------------------------------------------------- *)
(** * A fresh table, cgi_build_indices, cgi_resize_hashmap *)

Lemma count_nonempty_repeat n : count_nonempty (repeat (-1) n) = 0.
Proof. unfold count_nonempty, lenZ. induction n as [|n IH]; cbn; [reflexivity|exact IH]. Qed.

Lemma TInv_ext m m' n : TInv m n -> m_size m' = m_size m -> m_indices m' = m_indices m ->
  m_entries m' = m_entries m -> TInv m' n.
Proof.
  intros HI Hs Hi He.
  assert (Hgi : forall i, get_index m' i = get_index m i) by (intros; unfold get_index; now rewrite Hi).
  assert (Hge : forall i, get_entry m' i = get_entry m i) by (intros; unfold get_entry; now rewrite He).
  assert (Hmask : mask_of m' = mask_of m) by (unfold mask_of; now rewrite Hs).
  constructor.
  - rewrite Hs. apply (ti_pow _ _ HI).
  - rewrite Hi, Hs. apply (ti_len _ _ HI).
  - rewrite He. apply (ti_n _ _ HI).
  - rewrite Hs. apply (ti_nlt _ _ HI).
  - rewrite Hs. intros i Hi0. rewrite !Hgi, Hge. apply (ti_slot _ _ HI i Hi0).
  - rewrite Hs. intros i j. rewrite !Hgi. apply (ti_inj _ _ HI).
  - intros ix Hix. rewrite Hge, Hmask. intros Hl. destruct (ti_reach _ _ HI ix Hix Hl) as [k [H1 H2]].
    exists k. rewrite Hgi. split; [assumption|]. intros j Hj. rewrite Hgi. auto.
  - intros ix Hix. rewrite Hge. apply (ti_ent _ _ HI ix Hix).
  - intros i j. rewrite !Hge. apply (ti_keys _ _ HI).
  - rewrite Hi. apply (ti_fill _ _ HI).
Qed.

Lemma TInv_fresh size u es used p : 3 <= p <= 60 -> size = 2 ^ p ->
  TInv (mkM false size u 0 (repeat MAPIX_EMPTY (Z.to_nat size)) es used) 0.
Proof.
  intros Hp Hs. assert (Hpos : 0 < size) by (subst; apply pow2_pos; lia).
  assert (Hgi : forall i, 0 <= i < size ->
            get_index (mkM false size u 0 (repeat MAPIX_EMPTY (Z.to_nat size)) es used) i = -1).
  { intros i Hi. unfold get_index. cbn [m_indices]. apply nthZ_repeat. lia. }
  constructor; cbn [m_size m_indices m_entries].
  - exists p. split; assumption.
  - unfold lenZ. rewrite repeat_length. lia.
  - unfold lenZ. lia.
  - unfold USABLE_FRACTION. lia.
  - intros i Hi. left. now apply Hgi.
  - intros i j Hi Hj H0. rewrite Hgi in H0 by assumption. lia.
  - intros ix Hix. lia.
  - intros ix Hix. lia.
  - intros ix jx Hix. lia.
  - unfold MAPIX_EMPTY. rewrite count_nonempty_repeat. lia.
Qed.

Lemma upd_same {A} (l : list A) : forall n d, (n < length l)%nat -> upd l n (nth n l d) = l.
Proof. induction l as [|x r IH]; intros [|n] d H; cbn in *; try lia; [reflexivity|]. f_equal. apply IH. lia. Qed.

Lemma updZ_same {A} (l : list A) i d : 0 <= i < lenZ l -> updZ l i (nthZ l i d) = l.
Proof.
  intros H. unfold updZ, nthZ. destruct (Z.ltb_spec i 0); [lia|]. apply upd_same. unfold lenZ in H. lia.
Qed.

Lemma build_indices_spec : forall rest mm c,
  TInv mm c ->
  (forall j, (j < length rest)%nat -> nth j rest blank_entry = get_entry mm (c + Z.of_nat j)) ->
  c + lenZ rest <= USABLE_FRACTION (m_size mm) -> c + lenZ rest <= lenZ (m_entries mm) ->
  (forall i, 0 <= i < c + lenZ rest ->
     live (get_entry mm i) = true /\ e_hash (get_entry mm i) = hash_cstr (e_key (get_entry mm i)) /\
     0 <= e_val (get_entry mm i)) ->
  (forall i j, 0 <= i < c + lenZ rest -> 0 <= j < c + lenZ rest ->
     e_key (get_entry mm i) = e_key (get_entry mm j) -> i = j) ->
  exists mm', build_indices mm rest c = Some mm' /\ TInv mm' (c + lenZ rest) /\
     m_entries mm' = m_entries mm /\ m_size mm' = m_size mm /\ m_usable mm' = m_usable mm.
Proof.
  induction rest as [|ep rest IH]; intros mm c HT Hnth Hu Hl Hok Hkeys.
  - exists mm. split; [reflexivity|]. split; [|split; [reflexivity|split; reflexivity]].
    replace (c + lenZ (@nil entry)) with c by (unfold lenZ; cbn [length]; lia). exact HT.
  - unfold lenZ in *. cbn [length] in *. rewrite Nat2Z.inj_succ in *.
    pose proof (ti_n _ _ HT) as Hc.
    assert (Hep : ep = get_entry mm c).
    { specialize (Hnth 0%nat ltac:(lia)). cbn [nth] in Hnth. rewrite Hnth. f_equal. lia. }
    destruct (Hok c ltac:(lia)) as [Hlive [Hhash Hval]].
    cbn [build_indices].
    assert (Hr : 0 <= e_hash ep < W) by (rewrite Hep, Hhash; apply hash_cstr_range).
    destruct (build_probe_spec _ _ HT (e_hash ep) Hr) as [s [k [Hloop [Hs [Hemp [Hks Hkb]]]]]].
    rewrite Hloop.
    assert (Hnar : narrow (m_size mm) c = c) by (apply narrow_id; [apply (ti_pow _ _ HT)|lia]).
    set (mm1 := set_index mm s c).
    assert (HT1 : TInv mm1 (c + 1)).
    { refine (TInv_place mm c mm1 s (get_entry mm c) HT eq_refl _ _ Hs _ _ _ Hlive Hhash Hval _ _).
      - unfold mm1. cbn. now rewrite Hnar.
      - unfold mm1. cbn [m_entries set_index]. unfold get_entry. symmetry. apply updZ_same. unfold lenZ. lia.
      - lia.
      - unfold lenZ. lia.
      - lia.
      - intros ix Hix _ Hk. assert (ix = c); [|lia]. apply Hkeys; try lia. exact Hk.
      - exists k. rewrite <- Hep. split; assumption. }
    destruct (IH mm1 (c + 1) HT1) as [mm' [Hb [HT' [He [Hsz Hus]]]]].
    + intros j Hj. specialize (Hnth (S j) ltac:(lia)). cbn [nth] in Hnth. rewrite Hnth.
      unfold get_entry, mm1. cbn [m_entries set_index]. f_equal. lia.
    + change (m_size mm1) with (m_size mm). lia.
    + change (m_entries mm1) with (m_entries mm). lia.
    + intros i Hi. change (get_entry mm1 i) with (get_entry mm i). apply Hok. lia.
    + intros i j Hi Hj. change (get_entry mm1 i) with (get_entry mm i).
      change (get_entry mm1 j) with (get_entry mm j). apply Hkeys; lia.
    + exists mm'. split; [exact Hb|]. split.
      * replace (c + Z.succ (Z.of_nat (length rest))) with (c + 1 + Z.of_nat (length rest)) by lia. exact HT'.
      * repeat split; assumption.
Qed.

Lemma filter_len_le {A} (f : A -> bool) l : (length (filter f l) <= length l)%nat.
Proof. induction l as [|x r IH]; cbn; [lia|]. destruct (f x); cbn; lia. Qed.

Lemma filter_all {A} (f : A -> bool) l : length (filter f l) = length l -> filter f l = l.
Proof.
  induction l as [|x r IH]; cbn; [reflexivity|]. destruct (f x) eqn:E; cbn; intros H.
  - f_equal. apply IH. lia.
  - pose proof (filter_len_le f r). lia.
Qed.

Lemma filter_keys_nodup : forall l,
  (forall i j, (i < length l)%nat -> (j < length l)%nat ->
     live (nth i l blank_entry) = true -> live (nth j l blank_entry) = true ->
     e_key (nth i l blank_entry) = e_key (nth j l blank_entry) -> i = j) ->
  NoDup (map e_key (filter live l)).
Proof.
  induction l as [|x r IH]; intros H; cbn [filter map]; [constructor|].
  assert (Hr : NoDup (map e_key (filter live r))).
  { apply IH. intros i j Hi Hj Hli Hlj Hk. assert (S i = S j); [|lia]. apply H; cbn [length nth]; try lia; assumption. }
  destruct (live x) eqn:Hx; [|exact Hr]. cbn [map]. constructor; [|exact Hr].
  intros Hin. apply in_map_iff in Hin. destruct Hin as [e [Hk He]]. apply filter_In in He. destruct He as [He Hle].
  destruct (In_nth _ _ blank_entry He) as [j [Hj Hnj]].
  assert (0%nat = S j); [|lia]. apply H; cbn [length nth]; try lia; try assumption; rewrite Hnj; congruence.
Qed.

Lemma resize_moved m : Inv m ->
  (if m_nentries m =? m_used m
   then firstn (Z.to_nat (m_used m)) (m_entries m)
   else firstn (Z.to_nat (m_used m)) (filter live (firstn (Z.to_nat (m_nentries m)) (m_entries m))))
  = filter live (live_entries m) /\ lenZ (filter live (live_entries m)) = m_used m.
Proof.
  intros HI. pose proof (inv_used _ HI) as Hu. unfold count_live in Hu. split; [|now rewrite Hu].
  pose proof (live_entries_len m (ti_n _ _ (inv_t _ HI))) as Hlen.
  destruct (Z.eqb_spec (m_nentries m) (m_used m)) as [E|E].
  - rewrite <- E. fold (live_entries m). symmetry. apply filter_all. unfold lenZ in *. lia.
  - fold (live_entries m). apply firstn_all2. unfold lenZ in Hu. lia.
Qed.

Lemma resize_spec m newsize p : Inv m -> 3 <= p <= 60 -> newsize = 2 ^ p ->
  m_used m < USABLE_FRACTION newsize ->
  exists m', resize m newsize = Some (m', 0) /\ Inv m' /\ 0 < m_usable m' /\
             forall k, find_val m' k = find_val m k.
Proof.
  intros HI Hp Hns Hroom. pose proof (inv_t _ HI) as HT. pose proof (ti_n _ _ HT) as Hn.
  assert (Hpos : 0 < newsize) by (subst; apply pow2_pos; lia).
  unfold resize. destruct (Z.leb_spec newsize 0); [lia|].
  destruct (resize_moved m HI) as [Hmoved Hmlen]. cbv zeta. rewrite Hmoved.
  set (moved := filter live (live_entries m)) in *.
  set (U' := USABLE_FRACTION newsize) in *.
  set (newentries := moved ++ skipn (length moved) (m_entries (new_keys_object newsize))).
  assert (Hused0 : 0 <= m_used m) by (rewrite <- Hmlen; unfold lenZ; lia).
  assert (Hnelen : lenZ newentries = U').
  { unfold newentries, lenZ. rewrite app_length, skipn_length. cbn [m_entries new_keys_object].
    rewrite repeat_length. fold U'. unfold lenZ in Hmlen. lia. }
  (* facts about the entries that move *)
  assert (Hin : forall e, In e moved <-> exists ix, 0 <= ix < m_nentries m /\ e = get_entry m ix /\ live e = true).
  { intros e. unfold moved. rewrite filter_In. split.
    - intros [He Hl]. destruct (In_nth _ _ blank_entry He) as [j [Hj Hnj]].
      pose proof (live_entries_len m Hn) as Hlen. unfold lenZ in Hlen.
      exists (Z.of_nat j). split; [lia|]. split; [|assumption].
      rewrite <- live_entries_nth by lia. now rewrite Nat2Z.id.
    - intros [ix [Hix [-> Hl]]]. split; [|assumption].
      rewrite <- live_entries_nth by assumption. apply nth_In.
      pose proof (live_entries_len m Hn) as Hlen. unfold lenZ in Hlen. lia. }
  assert (Hnd : NoDup (map e_key moved)).
  { apply filter_keys_nodup. pose proof (live_entries_len m Hn) as Hlen. unfold lenZ in Hlen.
    intros i j Hi Hj. rewrite <- (Nat2Z.id i), <- (Nat2Z.id j).
    rewrite !live_entries_nth by lia. intros Hli Hlj Hk.
    assert (Z.of_nat i = Z.of_nat j); [|lia]. apply (ti_keys _ _ HT); try lia; assumption. }
  set (nk1 := mkM false newsize (m_usable (new_keys_object newsize)) 0 (m_indices (new_keys_object newsize))
                  newentries (m_used m)).
  assert (HT1 : TInv nk1 0) by (apply TInv_fresh with (p := p); assumption).
  assert (Hge1 : forall j, (j < length moved)%nat -> get_entry nk1 (Z.of_nat j) = nth j moved blank_entry).
  { intros j Hj. unfold get_entry, nthZ. cbn [m_entries nk1]. destruct (Z.ltb_spec (Z.of_nat j) 0); [lia|].
    rewrite Nat2Z.id. unfold newentries. now rewrite app_nth1. }
  assert (Hmovedlen : Z.of_nat (length moved) = m_used m) by exact Hmlen.
  destruct (build_indices_spec moved nk1 0 HT1) as [nk2 [Hb [HT2 [He2 [Hs2 Hu2]]]]].
  - intros j Hj. rewrite Z.add_0_l. symmetry. now apply Hge1.
  - cbn [m_size nk1]. unfold lenZ. fold U'. lia.
  - cbn [m_entries nk1]. rewrite Hnelen. unfold lenZ. lia.
  - intros i Hi. rewrite Z.add_0_l in Hi. unfold lenZ in Hi.
    rewrite <- (Z2Nat.id i) by lia. rewrite Hge1 by lia.
    assert (Hine : In (nth (Z.to_nat i) moved blank_entry) moved) by (apply nth_In; lia).
    apply Hin in Hine. destruct Hine as [ix [Hix [Heq Hl]]]. rewrite Heq in *.
    destruct (ti_ent _ _ HT ix Hix Hl) as [H1 H2]. repeat split; assumption.
  - intros i j Hi Hj. rewrite Z.add_0_l in Hi, Hj. unfold lenZ in Hi, Hj.
    rewrite <- (Z2Nat.id i), <- (Z2Nat.id j) by lia. rewrite !Hge1 by lia. intros Hk.
    assert (Z.to_nat i = Z.to_nat j); [|lia].
    apply (proj1 (NoDup_nth (map e_key moved) []) Hnd); try (rewrite map_length; lia).
    change (@nil Z) with (e_key blank_entry). rewrite !map_nth. exact Hk.
  - rewrite Hb. rewrite Z.add_0_l in HT2. unfold lenZ in HT2. rewrite Hmovedlen in HT2.
    eexists. split; [reflexivity|].
    match goal with |- Inv ?mm /\ _ => set (m' := mm) end.
    assert (HT' : TInv m' (m_used m)).
    { apply TInv_ext with (m := nk2); [assumption| |reflexivity|reflexivity]. cbn [m_size m']. now rewrite Hs2. }
    assert (Hge' : forall j, (j < length moved)%nat -> get_entry m' (Z.of_nat j) = nth j moved blank_entry).
    { intros j Hj. rewrite <- Hge1 by assumption. unfold get_entry. cbn [m_entries m']. now rewrite He2. }
    assert (HI' : Inv m').
    { constructor.
      - reflexivity.
      - exact HT'.
      - cbn [m_entries m_size m']. rewrite He2. exact Hnelen.
      - cbn [m_usable m_size m_nentries m']. rewrite Hu2. reflexivity.
      - cbn [m_used m']. unfold live_entries. cbn [m_nentries m_entries m']. rewrite He2.
        cbn [m_entries nk1]. unfold newentries.
        replace (Z.to_nat (m_used m)) with (length moved + 0)%nat by lia.
        rewrite firstn_app_2. cbn [firstn]. rewrite app_nil_r.
        unfold count_live, moved. rewrite (filter_all live (filter live (live_entries m))).
        + fold moved. lia.
        + f_equal. apply filter_all. clear. induction (live_entries m) as [|x r IH]; cbn; [reflexivity|].
          destruct (live x) eqn:E; cbn; [rewrite E; cbn; now f_equal|exact IH]. }
    split; [exact HI'|]. split.
    + cbn [m_usable m']. rewrite Hu2. cbn [m_usable nk1 new_keys_object]. fold U'. lia.
    + intros k. apply find_val_intro; [exact HT'|]. change (m_nentries m') with (m_used m).
      destruct (find_val_cases m k Hn) as [[ix [Hix [Hl [Hk Hv]]]]|[HA Hva]].
      * left. assert (Hine : In (get_entry m ix) moved) by (apply Hin; exists ix; auto).
        destruct (In_nth _ _ blank_entry Hine) as [j [Hj Hnj]].
        exists (Z.of_nat j). rewrite Hge' by assumption. rewrite Hnj.
        split; [change (m_nentries m') with (m_used m); lia|]. repeat split; assumption.
      * right. split; [|assumption]. intros j Hj. change (m_nentries m') with (m_used m) in Hj.
        rewrite <- (Z2Nat.id j) by lia. rewrite Hge' by lia.
        intros _. assert (Hine : In (nth (Z.to_nat j) moved blank_entry) moved) by (apply nth_In; lia).
        apply Hin in Hine. destruct Hine as [ix [Hix [Heq Hl]]]. rewrite Heq. apply HA; [assumption|]. now rewrite <- Heq.
Qed.

(* ------------------------------------------------------------------------- *)
(** * cgi_map_set_item, complete *)

Lemma find_val_m1_absent m k : TInv m (m_nentries m) -> find_val m k = -1 -> Absent m k.
Proof.
  intros HT Hv. destruct (find_val_cases m k (ti_n _ _ HT)) as [[ix [Hix [Hl [Hk Hval]]]]|[HA _]]; [|exact HA].
  rewrite Hv in Hval. unfold live in Hl. rewrite Hval in Hl. discriminate.
Qed.

Lemma Inv_new_keys p : 3 <= p <= 60 -> Inv (new_keys_object (2 ^ p)) /\
  forall k, find_val (new_keys_object (2 ^ p)) k = -1.
Proof.
  intros Hp. assert (Hpos : 0 < 2 ^ p) by (apply pow2_pos; lia).
  assert (Hu : 0 <= USABLE_FRACTION (2 ^ p)) by (unfold USABLE_FRACTION; lia).
  split; [|reflexivity]. unfold new_keys_object. constructor; cbn [m_static m_size m_usable m_nentries m_entries m_used].
  - reflexivity.
  - apply TInv_fresh with (p := p); [assumption|reflexivity].
  - unfold lenZ. rewrite repeat_length. lia.
  - lia.
  - reflexivity.
Qed.

Lemma usable_after_growth used newsize : 0 <= used -> 8 <= newsize -> 2 * used <= newsize ->
  used < USABLE_FRACTION newsize.
Proof. intros. unfold USABLE_FRACTION. lia. Qed.

Theorem set_item_correct m k v : WF m -> 0 <= v -> m_used m < 2 ^ 57 ->
  exists m', map_set_item m k v = Some (m', 0) /\ WF m' /\
    (forall k', find_val m' k' = if key_eqb k' k then v else find_val m k') /\
    m_used m' <= m_used m + 1.
Proof.
  intros [->|HI] Hv Hbound; unfold map_set_item.
  - (* the static empty keys: cgi_insert_to_emptymap *)
    cbn [m_static empty_map]. unfold insert_to_emptymap, MAP_MINSIZE. change (8 - 1) with 7.
    destruct (Inv_new_keys 3 ltac:(lia)) as [HI0 _]. change (2 ^ 3) with 8 in HI0.
    pose proof (inv_t _ HI0) as HT0. change (m_nentries (new_keys_object 8)) with 0 in HT0.
    set (hash := hash_cstr k). set (s := Z.land hash 7).
    assert (Hs : 0 <= s < 8).
    { unfold s. change 7 with (2 ^ 3 - 1). rewrite land_mask by lia. apply Z.mod_pos_bound. lia. }
    assert (Hnar : narrow 8 0 = 0) by (apply narrow_id; [exists 3; split; [lia|reflexivity]|unfold USABLE_FRACTION; cbn; lia]).
    set (e := mkE hash k v).
    eexists. split; [reflexivity|].
    match goal with |- WF ?mm /\ _ => set (m' := mm) end.
    assert (Hlive : live e = true) by (unfold live, e; cbn; destruct (Z.eqb_spec v (-1)); [lia|reflexivity]).
    assert (Hgi0 : get_index (new_keys_object 8) s = -1).
    { unfold get_index. cbn [m_indices new_keys_object]. apply nthZ_repeat. lia. }
    assert (HT' : TInv m' (0 + 1)).
    { refine (TInv_place (new_keys_object 8) 0 m' s e HT0 eq_refl _ eq_refl Hs _ _ _ Hlive eq_refl Hv _ _).
      - unfold m'. cbn [m_indices set_entry set_index]. cbn [m_size new_keys_object]. now rewrite Hnar.
      - lia.
      - vm_compute. reflexivity.
      - vm_compute. discriminate.
      - intros ix Hix. lia.
      - exists 0%nat. split; [|intros j Hj; lia].
        change (slot_seq (mask_of (new_keys_object 8)) (e_hash e) 0) with (probe_start 7 hash).
        unfold probe_start. cbn [fst]. reflexivity. }
    assert (Hge : forall i, get_entry m' i = if i =? 0 then e else get_entry (new_keys_object 8) i).
    { intros i. apply get_entry_upd; [reflexivity|]. split; [lia|vm_compute; reflexivity]. }
    assert (HI' : Inv m').
    { constructor.
      - reflexivity.
      - exact HT'.
      - reflexivity.
      - reflexivity.
      - change (m_used m') with 1. unfold live_entries. change (m_nentries m') with 1.
        change (firstn (Z.to_nat 1) (m_entries m')) with [e]. unfold count_live. cbn [filter].
        rewrite Hlive. reflexivity. }
    split; [now right|]. split; [|cbn [m_used m' empty_map]; lia].
    intros k'. apply find_val_intro; [exact HT'|]. change (m_nentries m') with 1.
    destruct (key_eqb k' k) eqn:Ek.
    + apply key_eqb_eq in Ek. subst k'. left. exists 0. rewrite Hge. cbn [Z.eqb].
      split; [change (m_nentries m') with 1; lia|]. split; [exact Hlive|]. split; reflexivity.
    + right. split; [|reflexivity]. intros ix Hix. change (m_nentries m') with 1 in Hix.
      assert (ix = 0) by lia. subst ix. rewrite Hge. cbn [Z.eqb].
      intros _. unfold e. cbn. intros ->. rewrite key_eqb_refl in Ek. discriminate.
  - rewrite (inv_dyn _ HI). pose proof (inv_t _ HI) as HT. pose proof (ti_n _ _ HT) as Hn.
    destruct (find_val_cases m k Hn) as [[ix [Hix [Hl [Hk Hval]]]]|[HA Hva]].
    + destruct (set_present m k v ix HI Hv Hix Hl Hk) as [m' [H1 [H2 H3]]].
      exists m'. split; [exact H1|]. split; [now right|]. split; [exact H3|].
      (* used is unchanged *)
      unfold insert_key in H1. rewrite (name_lookup_present _ _ HT ix k Hix Hl Hk) in H1.
      unfold MAPIX_EMPTY in H1. destruct (Z.eqb_spec ix (-1)); [lia|].
      destruct (negb (e_val (get_entry m ix) =? v)); inversion H1; subst; cbn; lia.
    + unfold insert_key. rewrite (name_lookup_absent _ _ HT k HA). cbn [Z.eqb MAPIX_EMPTY].
      change (-1 =? -1) with true. cbv iota.
      assert (Hused0 : 0 <= m_used m).
      { rewrite (inv_used _ HI). unfold count_live, lenZ. lia. }
      destruct (Z.leb_spec (m_usable m) 0) as [Hfull|Hroom].
      * (* grow first *)
        unfold insertion_resize.
        destruct (keysize_spec (m_used m * 2)) as [p [Hp [Hks Hge]]].
        { split; [lia|]. change (2 ^ 58) with (2 * 2 ^ 57). lia. }
        assert (H8 : 8 <= 2 ^ p) by (change 8 with (2 ^ 3); apply Z.pow_le_mono_r; lia).
        destruct (resize_spec m (calculate_keysize (m_used m * 2)) p HI Hp Hks) as [m1 [Hr [HI1 [Hroom1 Hfv]]]].
        { rewrite Hks. apply usable_after_growth; lia. }
        rewrite Hr. destruct (Z.ltb_spec 0 0); [lia|].
        assert (HA1 : Absent m1 k) by (apply find_val_m1_absent; [apply (inv_t _ HI1)|rewrite Hfv; exact Hva]).
        destruct (set_absent_room m1 k v HI1 Hv HA1 Hroom1) as [m' [H1 [H2 H3]]].
        exists m'. split; [exact H1|]. split; [now right|]. split.
        -- intros k'. rewrite H3, Hfv. reflexivity.
        -- assert (Hu1 : m_used m1 = m_used m).
           { unfold resize in Hr. destruct (calculate_keysize (m_used m * 2) <=? 0); [inversion Hr; reflexivity|].
             cbv zeta in Hr. destruct (build_indices _ _ _); [|discriminate]. inversion Hr. reflexivity. }
           destruct (find_empty_slot m1 (hash_cstr k)); [|discriminate]. inversion H1. cbn. lia.
      * destruct (Z.ltb_spec 0 0); [lia|].
        destruct (set_absent_room m k v HI Hv HA Hroom) as [m' [H1 [H2 H3]]].
        exists m'. split; [exact H1|]. split; [now right|]. split; [exact H3|].
        destruct (find_empty_slot m (hash_cstr k)); [|discriminate]. inversion H1. cbn. lia.
Qed.

(* ------------------------------------------------------------------------- *)
(** * Every history behaves like an association with delete-and-renumber *)

Definition amap := list Z -> Z.          (* key -> value, -1 = absent *)
Definition a_empty : amap := fun _ => -1.
Definition a_set (f : amap) k v : amap := fun k' => if key_eqb k' k then v else f k'.
Definition a_del (f : amap) k : amap :=
  fun k' => if key_eqb k' k then -1 else let v' := f k' in if f k <? v' then v' - 1 else v'.

Definition spec_step (f : amap) (o : mop) : amap * Z :=
  match o with
  | MSet k v => (a_set f k v, 0)
  | MGet k => (f, f k)
  | MHas k => (f, if f k =? -1 then 0 else 1)
  | MDel k => if f k =? -1 then (f, -1) else (a_del f k, 0)
  | MClear => (a_empty, 0)
  | MPresize _ => (a_empty, 0)
  end.

Fixpoint spec_run (f : amap) (ops : list mop) : list Z :=
  match ops with [] => [] | o :: r => let '(f', x) := spec_step f o in x :: spec_run f' r end.

Fixpoint run (m : hmap) (ops : list mop) : option (list Z) :=
  match ops with
  | [] => Some []
  | o :: r => match mstep m o with
              | None => None
              | Some (m', x) => option_map (cons x) (run m' r)
              end
  end.

(* the side conditions under which the C code is specified: stored values are indices (>= 0),
   presize requests are sane, and the table stays below 2^57 entries *)
Definition op_ok (o : mop) : Prop :=
  match o with MSet _ v => 0 <= v | MPresize n => 0 <= n < 2 ^ 56 | _ => True end.

Lemma WF_presized n : 0 <= n < 2 ^ 56 ->
  WF (new_presized_hashmap n) /\ (forall k, find_val (new_presized_hashmap n) k = -1) /\
  m_used (new_presized_hashmap n) = 0.
Proof.
  intros Hn. unfold new_presized_hashmap, new_hashmap.
  destruct (n <=? USABLE_FRACTION MAP_MINSIZE); [split; [now left|split; reflexivity]|].
  destruct (USABLE_FRACTION (128 * 1024) <? n).
  - destruct (Inv_new_keys 17 ltac:(lia)) as [H1 H2]. change (2 ^ 17) with (128 * 1024) in *.
    split; [now right|]. split; [exact H2|reflexivity].
  - unfold estimate_keysize. destruct (keysize_spec ((n * 3 + 1) / 2)) as [p [Hp [Hk _]]].
    + change (2 ^ 56) with 72057594037927936 in Hn. change (2 ^ 58) with 288230376151711744. lia.
    + rewrite Hk. destruct (Inv_new_keys p Hp) as [H1 H2]. split; [now right|]. split; [exact H2|reflexivity].
Qed.

Lemma mstep_correct m f o : WF m -> (forall k, find_val m k = f k) -> op_ok o -> m_used m < 2 ^ 57 ->
  exists m', mstep m o = Some (m', snd (spec_step f o)) /\ WF m' /\
    (forall k, find_val m' k = fst (spec_step f o) k) /\ m_used m' <= m_used m + 1.
Proof.
  intros HW Hf Hok Hb.
  assert (Hused0 : 0 <= m_used m).
  { destruct HW as [->|HI]; [cbn; lia|]. rewrite (inv_used _ HI). unfold count_live, lenZ. lia. }
  destruct o as [k v|k|k|k| |n]; cbn [mstep spec_step op_ok] in *.
  - destruct (set_item_correct m k v HW Hok Hb) as [m' [H1 [H2 [H3 H4]]]].
    exists m'. repeat split; try assumption. intros k'. rewrite H3. unfold a_set. now rewrite Hf.
  - rewrite (get_item_correct m k HW). cbn. exists m. rewrite Hf. repeat split; try assumption; lia.
  - rewrite (contains_correct m k HW). cbn. exists m. rewrite Hf. repeat split; try assumption; lia.
  - destruct (del_item_correct m k HW) as [m' [rc [H1 [H2 [H3 H4]]]]]. rewrite H1. rewrite <- Hf.
    assert (Hused : m_used m' <= m_used m + 1).
    { unfold map_del_shift_item, del_shift_gen in H1.
      destruct (name_lookup m k (hash_cstr k)) as [[ix old]|]; [|discriminate].
      destruct ((ix =? MAPIX_EMPTY) || (old =? -1)); [inversion H1; lia|].
      destruct (index_lookup m (hash_cstr k) ix); [|discriminate]. inversion H1. cbn. lia. }
    destruct (Z.eqb_spec (find_val m k) (-1)) as [E|E].
    + destruct (H3 E) as [-> ->]. exists m. repeat split; try assumption; lia.
    + destruct (H4 E) as [-> H5]. exists m'. repeat split; try assumption.
      intros k'. rewrite H5. unfold a_del. cbv zeta. now rewrite !Hf.
  - exists empty_map. repeat split; try (now left); try reflexivity. cbn [m_used empty_map]. lia.
  - destruct (WF_presized n Hok) as [H1 [H2 H3]]. exists (new_presized_hashmap n).
    repeat split; try assumption. rewrite H3. lia.
Qed.

Theorem run_refines : forall ops m f,
  WF m -> (forall k, find_val m k = f k) -> Forall op_ok ops ->
  m_used m + lenZ ops < 2 ^ 57 ->
  run m ops = Some (spec_run f ops).
Proof.
  induction ops as [|o r IH]; intros m f HW Hf Hok Hb; cbn [run spec_run]; [reflexivity|].
  inversion Hok as [|? ? Ho Hr]; subst.
  unfold lenZ in Hb. cbn [length] in Hb. rewrite Nat2Z.inj_succ in Hb.
  assert (Hused0 : 0 <= m_used m).
  { destruct HW as [->|HI]; [cbn; lia|]. rewrite (inv_used _ HI). unfold count_live, lenZ. lia. }
  destruct (mstep_correct m f o HW Hf Ho ltac:(lia)) as [m' [H1 [H2 [H3 H4]]]].
  rewrite H1. destruct (spec_step f o) as [f' x] eqn:E. cbn [fst snd] in *.
  rewrite (IH m' f' H2 H3 Hr); [reflexivity|]. unfold lenZ. lia.
Qed.

Corollary run_from_empty ops : Forall op_ok ops -> lenZ ops < 2 ^ 57 ->
  run empty_map ops = Some (spec_run a_empty ops).
Proof.
  intros H Hl. apply run_refines; [now left|reflexivity|assumption|cbn; lia].
Qed.

(* the historical defect: with the loop bound map_usable the renumbering misses entries *)
Lemma old_bound_refuted :
  let ks := [[65]; [66]; [67]; [68]] in
  exists m, fold_left (fun om kv => match om with Some m => option_map fst (map_set_item m (fst kv) (snd kv)) | None => None end)
                      (combine ks [0; 1; 2; 3]) (Some empty_map) = Some m /\
  exists m', map_del_shift_item_old m [65] = Some (m', 0) /\ map_get_item m' [66] = Some 1.
Proof.
  cbv zeta. eexists. split; [vm_compute; reflexivity|].
  eexists. split; [vm_compute; reflexivity|]. vm_compute. reflexivity.
Qed.
