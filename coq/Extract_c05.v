(* Extract_c05.v -- extraction of the C05 model (Hyperslab) to OCaml.  ExtrOcamlBasic only; Z, N, positive, nat
   stay extracted inductives.  No Extract Constant / Extract Inductive directives of our own. *)
From Coq Require Import Extraction ExtrOcamlBasic.
From CgnsV Require Import Hyperslab.
Extraction Language OCaml.
Set Extraction KeepSingleton.
Extraction "extracted/c05/model.ml" Hyperslab.xfer_write Hyperslab.xfer_read Hyperslab.lo_pairs
  Hyperslab.mid_write Hyperslab.mid_read Hyperslab.verify_range Hyperslab.aerr_code
  Hyperslab.adf_walk Hyperslab.adfh_walk Hyperslab.w64 Hyperslab.spec_positions.
