(* CompactProofs.v -- proofs about Compact.v (C15): any step list accepted by [safe_order] keeps, at every
   crash point (prefix of the atom sequence, including any prefix of the copy's writes), a complete file at
   the original path or at its temporary sibling; after the whole list the original path holds the copy and
   the temporary is gone; no other path (in particular a symbolic link through which the file was named) is
   ever touched. *)
From Coq Require Import ZArith List Bool Arith Lia.
From CgnsV Require Import Compact.
Import ListNotations.

Lemma upd_same f p v : upd f p v p = v.
Proof. unfold upd. now rewrite Nat.eqb_refl. Qed.

Lemma upd_other f p v q : q <> p -> upd f p v q = f q.
Proof. unfold upd. intros H. destruct (Nat.eqb_spec q p); congruence. Qed.

Lemma exec_app a b f : exec (a ++ b) f = exec b (exec a f).
Proof. unfold exec. apply fold_left_app. Qed.

Lemma apply_writes_app a b c : apply_writes (a ++ b) c = apply_writes b (apply_writes a c).
Proof. unfold apply_writes. apply fold_left_app. Qed.

Section Safe.
  Variables (F T L : path) (ws wc : list wr) (src : content).
  Variable leq : content -> content -> Prop.          (* logical equality of two file images *)
  Hypothesis leq_refl : forall c, leq c c.
  Hypothesis FT : F <> T.

  Definition img : content := apply_writes (ws ++ wc) [].
  Hypothesis copy_correct : leq img src.               (* the copy itself is right: C09's business *)

  Definition complete_at (s : fs) (p : path) : Prop := exists c, s p = Some (File c) /\ leq c src.
  Definition inv (s : fs) : Prop := complete_at s F \/ complete_at s T.
  Definition frame (s s' : fs) : Prop := forall q, q <> F -> q <> T -> s' q = s q.

  Definition concF (f : fstate) (s : fs) : Prop :=
    match f with
    | FO => s F = Some (File src)
    | FG => s F = None
    | FN => s F = Some (File img)
    end.
  Definition concT (t : tstate) (s : fs) : Prop :=
    match t with
    | TJ => True
    | TA => s T = None
    | TE => s T = Some (File [])
    | TC => s T = Some (File (apply_writes ws []))
    | TF => s T = Some (File img)
    end.
  Definition conc (st : fstate * tstate) (s : fs) : Prop := concF (fst st) s /\ concT (snd st) s.
  Definition absafe (st : fstate * tstate) : Prop := fst st <> FG \/ snd st = TF.

  Lemma frame_refl s : frame s s.
  Proof. intros q _ _. reflexivity. Qed.

  Lemma frame_trans a b c : frame a b -> frame b c -> frame a c.
  Proof. intros H1 H2 q HF HT. rewrite H2, H1; auto. Qed.

  Lemma conc_inv st s : conc st s -> absafe st -> inv s.
  Proof.
    destruct st as [f t]. intros [HF HT] [H|H]; simpl in *.
    - left. destruct f; try congruence.
      + exists src. auto.
      + exists img. auto.
    - right. subst t. simpl in HT. exists img. auto.
  Qed.

  (* a run of writes through the descriptor of the temporary only changes the temporary *)
  Lemma exec_writes l : forall s c, s T = Some (File c) ->
    exec (map (AWrite T) l) s T = Some (File (apply_writes l c)) /\
    forall q, q <> T -> exec (map (AWrite T) l) s q = s q.
  Proof.
    induction l as [|w l IH]; intros s c Hs.
    - simpl. auto.
    - change (exec (map (AWrite T) (w :: l)) s) with (exec (map (AWrite T) l) (exec1 s (AWrite T w))).
      assert (E : exec1 s (AWrite T w) = upd s T (Some (File (splice c (fst w) (snd w))))).
      { simpl. rewrite Hs. reflexivity. }
      rewrite E.
      destruct (IH (upd s T (Some (File (splice c (fst w) (snd w))))) (splice c (fst w) (snd w))) as [H1 H2].
      { apply upd_same. }
      split.
      + rewrite H1. reflexivity.
      + intros q Hq. rewrite H2 by assumption. apply upd_other. assumption.
  Qed.

  Lemma firstn_map_write n l : firstn n (map (AWrite T) l) = map (AWrite T) (firstn n l).
  Proof. apply firstn_map. Qed.

  (* prefixes of a write run: the original is untouched, so is everything else *)
  Lemma writes_prefix_safe l s c f n :
    s T = Some (File c) -> f <> FG -> concF f s ->
    let s' := exec (firstn n (map (AWrite T) l)) s in concF f s' /\ frame s s'.
  Proof.
    intros Hs Hf HF s'. subst s'. rewrite firstn_map_write.
    destruct (exec_writes (firstn n l) s c Hs) as [_ H2].
    split.
    - destruct f; simpl in *; try congruence; rewrite H2; auto.
    - intros q _ HqT. apply H2. assumption.
  Qed.

  Lemma concF_keep f s s' : s' F = s F -> concF f s -> concF f s'.
  Proof. intros E. destruct f; simpl; rewrite E; auto. Qed.

  Lemma firstn_single {A} n (x : A) : firstn n [x] = [] \/ firstn n [x] = [x].
  Proof. destruct n; simpl; auto. right. now rewrite firstn_nil. Qed.

  Ltac fg f := destruct f; simpl in *; try discriminate.

  (* one statement: every crash point inside it is safe, and the abstract state is tracked correctly *)
  Lemma step_sound st a st' s :
    transfer st a = Some st' -> conc st s -> absafe st ->
    (forall n, let s' := exec (firstn n (expand F T L ws wc a)) s in inv s' /\ frame s s') /\
    conc st' (exec (expand F T L ws wc a) s) /\ frame s (exec (expand F T L ws wc a) s) /\ absafe st'.
  Proof.
    intros Htr Hc Hs. pose proof (conc_inv st s Hc Hs) as Hinv0.
    destruct st as [f t]. destruct Hc as [HF HT]. simpl in HF, HT.
    assert (single : forall (x : atom) st1,
               (let s1 := exec [x] s in conc st1 s1 /\ frame s s1 /\ absafe st1) ->
               (forall n, let s' := exec (firstn n [x]) s in inv s' /\ frame s s') /\
               conc st1 (exec [x] s) /\ frame s (exec [x] s) /\ absafe st1).
    { intros x st1 (H1 & H2 & H3). split; [|auto].
      intros n. destruct (firstn_single n x) as [E|E]; simpl; rewrite E.
      - split; [exact Hinv0|apply frame_refl].
      - split; [eapply conc_inv; eauto|exact H2]. }
    destruct a as [r|r| | | | |r|ra rb|]; simpl in Htr.
    - (* Unlink *)
      destruct r; try discriminate.
      + (* Unlink RFile *) destruct t; try discriminate. inversion Htr; subst st'. clear Htr.
        apply single. simpl. unfold conc, absafe; simpl. repeat split.
        * apply upd_same.
        * rewrite upd_other by auto. exact HT.
        * intros q HqF _. apply upd_other. assumption.
        * right; reflexivity.
      + (* Unlink RTmp *) destruct (fgone f) eqn:G; [discriminate|]. inversion Htr; subst st'. clear Htr.
        apply single. simpl. unfold conc, absafe; simpl. repeat split.
        * eapply concF_keep; [|exact HF]. apply upd_other. assumption.
        * apply upd_same.
        * intros q _ HqT. apply upd_other. assumption.
        * left. destruct f; simpl in G; congruence.
    - (* Create *)
      destruct r; try discriminate.
      destruct (fgone f) eqn:G; [discriminate|]. destruct t; try discriminate.
      inversion Htr; subst st'. clear Htr. simpl in HT.
      apply single. simpl. rewrite HT. unfold conc, absafe; simpl. repeat split.
      + eapply concF_keep; [|exact HF]. apply upd_other. assumption.
      + apply upd_same.
      + intros q _ HqT. apply upd_other. assumption.
      + left. destruct f; simpl in G; congruence.
    - (* CopyTo *)
      destruct (fgone f) eqn:G; [discriminate|]. destruct t; try discriminate.
      inversion Htr; subst st'. clear Htr. simpl in HT.
      assert (Hf : f <> FG) by (destruct f; simpl in G; congruence).
      split; [|split; [|split]].
      + intros n. simpl.
        destruct (writes_prefix_safe ws s [] f n HT Hf HF) as [H1 H2].
        split; [|exact H2]. left. destruct f; simpl in H1; try congruence.
        * exists src; auto.
        * exists img; auto.
      + simpl. destruct (exec_writes ws s [] HT) as [H1 H2]. split; simpl.
        * eapply concF_keep; [|exact HF]. apply H2. auto.
        * exact H1.
      + simpl. destruct (exec_writes ws s [] HT) as [_ H2]. intros q _ HqT. apply H2; assumption.
      + left; exact Hf.
    - (* CloseOut *)
      destruct (fgone f) eqn:G; [discriminate|]. destruct t; try discriminate.
      inversion Htr; subst st'. clear Htr. simpl in HT.
      assert (Hf : f <> FG) by (destruct f; simpl in G; congruence).
      assert (Hall : exec (map (AWrite T) wc ++ [ANop]) s = exec (map (AWrite T) wc) s).
      { rewrite exec_app. reflexivity. }
      destruct (exec_writes wc s _ HT) as [H1 H2].
      split; [|split; [|split]].
      + intros n. simpl. rewrite firstn_app.
        assert (E : exec (firstn n (map (AWrite T) wc) ++ firstn (n - length (map (AWrite T) wc)) [ANop]) s
                    = exec (firstn n (map (AWrite T) wc)) s).
        { rewrite exec_app. destruct (firstn_single (n - length (map (AWrite T) wc)) ANop) as [E|E]; rewrite E; reflexivity. }
        rewrite E.
        destruct (writes_prefix_safe wc s _ f n HT Hf HF) as [H3 H4].
        split; [|exact H4]. left. destruct f; simpl in H3; try congruence.
        * exists src; auto.
        * exists img; auto.
      + simpl. rewrite Hall. split; simpl.
        * eapply concF_keep; [|exact HF]. apply H2. auto.
        * rewrite H1. unfold img. rewrite apply_writes_app. reflexivity.
      + simpl. rewrite Hall. intros q _ HqT. apply H2; assumption.
      + left; exact Hf.
    - (* CloseIn *) inversion Htr; subst st'. apply single. simpl. unfold conc; simpl. auto using frame_refl.
    - (* Flush *) inversion Htr; subst st'. apply single. simpl. unfold conc; simpl. auto using frame_refl.
    - (* Stat *) inversion Htr; subst st'. apply single. simpl. unfold conc; simpl. auto using frame_refl.
    - (* Rename *)
      destruct ra; try discriminate. destruct rb; try discriminate. destruct t; try discriminate.
      inversion Htr; subst st'. clear Htr. simpl in HT.
      apply single. simpl. rewrite HT. unfold conc, absafe; simpl. repeat split.
      + rewrite upd_other by auto. apply upd_same.
      + apply upd_same.
      + intros q HqF HqT. rewrite upd_other by assumption. apply upd_other. assumption.
      + left. discriminate.
    - discriminate.
  Qed.

  Lemma prog_sound : forall prog st st_end s,
    interp prog st = Some st_end -> conc st s -> absafe st ->
    (forall n, let s' := exec (firstn n (trace F T L ws wc prog)) s in inv s' /\ frame s s') /\
    conc st_end (exec (trace F T L ws wc prog) s) /\ frame s (exec (trace F T L ws wc prog) s).
  Proof.
    induction prog as [|a rest IH]; intros st st_end s Hi Hc Hs.
    - simpl in Hi. inversion Hi; subst st_end. simpl. split; [|split].
      + intros n. rewrite firstn_nil. simpl. split; [eapply conc_inv; eauto|apply frame_refl].
      + exact Hc.
      + apply frame_refl.
    - simpl in Hi. destruct (transfer st (s_act a)) as [st1|] eqn:Htr; [|discriminate].
      destruct (step_sound st (s_act a) st1 s Htr Hc Hs) as (P1 & P2 & P3 & P4).
      destruct (IH st1 st_end _ Hi P2 P4) as (Q1 & Q2 & Q3).
      change (trace F T L ws wc (a :: rest)) with (expand F T L ws wc (s_act a) ++ trace F T L ws wc rest).
      split; [|split].
      + intros n. cbv zeta. rewrite firstn_app, exec_app.
        destruct (Nat.le_gt_cases n (length (expand F T L ws wc (s_act a)))) as [Hle|Hgt].
        * assert (Z0 : n - length (expand F T L ws wc (s_act a)) = 0) by (apply Nat.sub_0_le; exact Hle).
          rewrite Z0. change (firstn 0 (trace F T L ws wc rest)) with (@nil atom). apply P1.
        * assert (Eall : firstn n (expand F T L ws wc (s_act a)) = expand F T L ws wc (s_act a))
            by (apply firstn_all2; apply Nat.lt_le_incl; exact Hgt).
          rewrite Eall.
          destruct (Q1 (n - length (expand F T L ws wc (s_act a)))) as [R1 R2].
          split; [exact R1|]. eapply frame_trans; eauto.
      + rewrite exec_app. exact Q2.
      + rewrite exec_app. eapply frame_trans; eauto.
  Qed.

  Lemma resolve_file fuel s p c : s p = Some (File c) -> resolve fuel s p = Some c.
  Proof. intros H. destruct fuel; simpl; rewrite H; reflexivity. Qed.

  (* the generic theorem, on directory entries *)
  Theorem crash_safe_direct : forall prog s0,
    safe_order prog = true -> s0 F = Some (File src) ->
    (forall n, let s := exec (firstn n (trace F T L ws wc prog)) s0 in
        (complete_at s F \/ complete_at s T) /\ (forall q, q <> F -> q <> T -> s q = s0 q)) /\
    (let s := exec (trace F T L ws wc prog) s0 in
        s F = Some (File img) /\ s T = None /\ (forall q, q <> F -> q <> T -> s q = s0 q)).
  Proof.
    intros prog s0 Hso H0. unfold safe_order in Hso.
    destruct (interp prog (FO, TJ)) as [st|] eqn:Hi; [|discriminate].
    assert (st = (FN, TA)) by (destruct st as [[] []]; simpl in Hso; congruence). subst st.
    destruct (prog_sound prog (FO, TJ) (FN, TA) s0 Hi) as (P1 & P2 & P3).
    { split; simpl; auto. }
    { left; simpl; discriminate. }
    split.
    - intros n. cbv zeta. destruct (P1 n) as [H Hfr]. split; [exact H|exact Hfr].
    - cbv zeta. destruct P2 as [A B]. simpl in A, B. auto.
  Qed.

  (* ... and as seen by a process that opens the paths (symbolic links followed) *)
  Theorem crash_safe : forall prog s0,
    safe_order prog = true -> s0 F = Some (File src) ->
    (forall n, let s := exec (firstn n (trace F T L ws wc prog)) s0 in
        ((exists c, resolve 8 s F = Some c /\ leq c src) \/ (exists c, resolve 8 s T = Some c /\ leq c src)) /\
        (forall q, q <> F -> q <> T -> s q = s0 q)) /\
    (let s := exec (trace F T L ws wc prog) s0 in
        resolve 8 s F = Some img /\ s T = None /\ (forall q, q <> F -> q <> T -> s q = s0 q)).
  Proof.
    intros prog s0 Hso H0. destruct (crash_safe_direct prog s0 Hso H0) as [P Q]. split.
    - intros n. cbv zeta. destruct (P n) as [[(c & Hc & Hl)|(c & Hc & Hl)] Hfr]; (split; [|exact Hfr]).
      + left. exists c. split; [apply resolve_file; assumption|assumption].
      + right. exists c. split; [apply resolve_file; assumption|assumption].
    - cbv zeta. destruct Q as (A & B & C). split; [apply resolve_file; assumption|auto].
  Qed.

  (* reached through a symbolic link L -> F: the link is never replaced, and the data stays reachable *)
  Theorem crash_safe_symlink : forall prog s0,
    safe_order prog = true -> s0 F = Some (File src) -> L <> F -> L <> T -> s0 L = Some (Symlink F) ->
    (forall n, let s := exec (firstn n (trace F T L ws wc prog)) s0 in
        s L = Some (Symlink F) /\
        ((exists c, resolve 8 s L = Some c /\ leq c src) \/ (exists c, resolve 8 s T = Some c /\ leq c src))) /\
    (let s := exec (trace F T L ws wc prog) s0 in
        s L = Some (Symlink F) /\ resolve 8 s L = Some img /\ s T = None).
  Proof.
    intros prog s0 Hso H0 HLF HLT HL.
    destruct (crash_safe_direct prog s0 Hso H0) as [P Q]. split.
    - intros n. cbv zeta. destruct (P n) as [H Hfr].
      assert (E : exec (firstn n (trace F T L ws wc prog)) s0 L = Some (Symlink F)) by (rewrite Hfr; auto).
      split; [exact E|].
      destruct H as [(c & Hc & Hl)|(c & Hc & Hl)]; [left|right]; exists c; (split; [|exact Hl]).
      + change (resolve 8 (exec (firstn n (trace F T L ws wc prog)) s0) L)
          with (match exec (firstn n (trace F T L ws wc prog)) s0 L with
                | None => None | Some (File c0) => Some c0
                | Some (Symlink q) => resolve 7 (exec (firstn n (trace F T L ws wc prog)) s0) q end).
        rewrite E. apply resolve_file. assumption.
      + apply resolve_file. assumption.
    - cbv zeta. destruct Q as (A & B & C).
      assert (E : exec (trace F T L ws wc prog) s0 L = Some (Symlink F)) by (rewrite C; auto).
      split; [exact E|]. split; [|exact B].
      change (resolve 8 (exec (trace F T L ws wc prog) s0) L)
        with (match exec (trace F T L ws wc prog) s0 L with
              | None => None | Some (File c0) => Some c0
              | Some (Symlink q) => resolve 7 (exec (trace F T L ws wc prog) s0) q end).
      rewrite E. apply resolve_file. assumption.
  Qed.
End Safe.

(* ------------------------------------------------------------------ the regenerated table (tie T) *)
From CgnsV Require Import Gen_C15.

Definition code_plain : list stmt := inst role_plain steps_plain.
Definition code_symlink : list stmt := inst role_symlink steps_symlink.

(* both paths of rewrite_file are in a safe order; the temporary is "<replaced file>.temp" on each path;
   the three callers add no file-level effect of their own *)
Definition code_ok : bool :=
  safe_order code_plain && safe_order code_symlink &&
  pexpr_eqb tmp_base_plain PName && pexpr_eqb tmp_base_symlink PLink &&
  callers_ok calls_compress_adf calls_compress_hdf5 calls_close calls_main.

Lemma code_is_safe : code_ok = true.
Proof. vm_compute. reflexivity. Qed.

(* What does NOT hold of the current code (I/O failures, property C14's side of compaction): the status of
   cgio_close_file(cgout) is ignored, so the order is not safe against a failing close of the temporary. *)
Lemma code_not_fault_safe : fault_safe code_plain = false /\ fault_safe code_symlink = false.
Proof. vm_compute. split; reflexivity. Qed.

(* witness: F=0 holds [1;2;3]; the copy writes [1;2], the close would write the last byte but fails before
   doing so (row 6 = CloseOut, 0 of its atoms executed); rewrite_file goes on, unlinks F and renames the
   incomplete temporary over it. *)
Definition wit_fs0 : fs := fun p => match p with 0 => Some (File [1;2;3]%Z) | _ => None end.
Definition wit_final : fs :=
  exec (trace_fail 0 1 2 [(0, [1;2]%Z)] [(2, [3]%Z)] code_plain 6 0) wit_fs0.

Lemma ignored_close_status_loses_data :
  nth_error code_plain 6 = Some {| s_act := CloseOut; s_onfail := None |} /\
  wit_final 0 = Some (File [1;2]%Z) /\ wit_final 1 = None.
Proof. vm_compute. repeat split; reflexivity. Qed.

(* with the close status honoured (row 6 given an error exit) the same table is fault-safe *)
Definition code_plain_repaired : list stmt :=
  map (fun s => match s_act s with
                | CloseOut => {| s_act := CloseOut; s_onfail := Some [Unlink RTmp] |}
                | _ => s
                end) code_plain.
Lemma repaired_is_fault_safe : fault_safe code_plain_repaired = true /\ safe_order code_plain_repaired = true.
Proof. vm_compute. split; reflexivity. Qed.

Lemma window_orig_absent :
  states_after code_plain (FO, TJ) =
    [Some (FO, TJ); Some (FO, TJ); Some (FO, TA); Some (FO, TA); Some (FO, TE); Some (FO, TC); Some (FO, TF);
     Some (FO, TF); Some (FG, TF); Some (FN, TA)].
Proof. vm_compute. reflexivity. Qed.
