(* Handles.v -- the handle GETTERS of the three real handle tables and sessions that remember which slot every open
   filled (property C16, second layer).  Definitions only.  The tables themselves, and the functions that open and close,
   are the ones of Refcount.v (current code: variants Cur / MCur; the MLL sessions take the variant as a parameter so
   that the old offset arithmetic, MOld, can be shown to reissue numbers):

     MLL    cgns_files[] / n_cgns_files / cgns_file_size / file_number_offset / n_open    (Refcount.mll, cg_open, cg_close)
            getter cgi_get_file                      src/cgns_internals.c  cgi_get_file
     cgio   iolist[] / num_iolist / num_open         (Refcount.io, cgio_open_file, cgio_close_file)
            getter get_cgnsio(cgio_num, 0)           src/cgns_io.c  get_cgnsio
     ADF    ADF_file[] / maximum_files               (Refcount.adf, adf_database_open, adfi_close_file)
            getter: the file index inside a node ID  src/adf/ADF_internals.c  ADFI_ID_2_file_block_offset
                    + the in_use test every ADFI_* function starts with

   A "live" list is carried next to the state: one entry per successful open that has not been closed since, holding the
   handle the user got and the slot that open filled.  It is ghost: no model function reads it. *)
From Coq Require Import Arith List Bool Lia.
From CgnsV Require Import Fuel ListX Refcount.
Import ListNotations.

(* ------------------------------------------------------------------------------------------------ MLL *)
(* cgns_file *cgi_get_file(int file_number):
     int filenum = file_number - file_number_offset;
     if (filenum <= 0 || filenum > n_cgns_files) -> "CGNS file %d is not open", NULL
     cg = &(cgns_files[filenum-1]);  if (cg->mode == CG_MODE_CLOSED) -> "CGNS %d is closed", NULL
   result: the index of the entry *)
Definition cgi_get_file (m : mll) (fn : nat) : option nat :=
  let filenum := fn - foffset m in
  if (fn <=? foffset m) || (length (files m) <? filenum) then None else
  match nth (filenum - 1) (files m) None with
  | None => None
  | Some _ => Some (filenum - 1)
  end.

(* (file number, index of the entry of cgns_files[] the open filled, cgio handle (token) stored there) *)
Definition mlive := list (nat * nat * nat).
Definition l_h (e : nat * nat * nat) : nat := fst (fst e).        (* the handle *)
Definition l_slot (e : nat * nat * nat) : nat := snd (fst e).     (* the slot the open filled *)
Definition l_tag (e : nat * nat * nat) : nat := snd e.            (* what the open put there *)
Definition drop_h (h : nat) (l : list (nat * nat * nat)) : list (nat * nat * nat) :=
  filter (fun e => negb (Nat.eqb (l_h e) h)) l.

(* cg_open fills cgns_files[n_cgns_files] (cg = &(cgns_files[n_cgns_files])) with the cgio handle it obtained *)
Definition mh_step (v : mvariant) (m : mll) (live : mlive) (o : mop) : mll * mlive * option nat :=
  match o with
  | MOpen oc => let '(m1, r) := cg_open v m oc in
                (m1, match r with Some fn => (fn, length (files m), nexth m) :: live | None => live end, r)
  | MClose fn ok => let '(m1, r) := cg_close v m fn ok in
                    (m1, if r then drop_h fn live else live, if r then Some 0 else None)
  end.

Fixpoint mh_run (v : mvariant) (m : mll) (live : mlive) (ops : list mop) : mll * mlive :=
  match ops with
  | [] => (m, live)
  | o :: r => let '(m1, l1, _) := mh_step v m live o in mh_run v m1 l1 r
  end.

(* the file numbers the successive opens of a session return (None = the open failed) *)
Fixpoint mh_numbers (v : mvariant) (m : mll) (live : mlive) (ops : list mop) : list (option nat) :=
  match ops with
  | [] => []
  | o :: r => let '(m1, l1, x) := mh_step v m live o in
              match o with MOpen _ => x :: mh_numbers v m1 l1 r | _ => mh_numbers v m1 l1 r end
  end.

(* the numbers actually handed out, in order *)
Fixpoint somes (l : list (option nat)) : list nat :=
  match l with [] => [] | Some x :: r => x :: somes r | None :: r => somes r end.

(* the number cg_open stores through its fn argument BEFORE the outcome is known:
     cg = &(cgns_files[n_cgns_files]); n_cgns_files++; *file_number = n_cgns_files + file_number_offset;
   (cgi_open_body, right after cgio_open_file succeeded).  A refusal inside cgio_open_file stores nothing; a refusal behind
   it (wrong version, broken tree, ...) leaves this number in the caller's variable although the call returns CG_ERROR. *)
Definition fn_left (m : mll) (oc : ooutcome) : option nat :=
  match oc with OCgioFail => None | _ => Some (length (files m) + 1 + foffset m) end.

(* ------------------------------------------------------------------------------------------------ cgio *)
(* what the slot holds: the file index inside iolist[c-1].rootid, None for a slot of type CGIO_FILE_NONE *)
Definition cgio_resolve (s : io) (c : nat) : option nat :=
  match c with O => None | S c1 => nth c1 (iol s) None end.

(* get_cgnsio(cgio_num, 0), current text (/repo 137980e):
     if (--cgio_num < 0 || cgio_num >= num_iolist) -> CGIO_ERR_BAD_CGIO, NULL
     if (iolist[cgio_num].type == CGIO_FILE_NONE)  -> CGIO_ERR_BAD_CGIO, NULL     "a slot whose file has been closed" *)
Definition get_cgnsio (s : io) (c : nat) : bool :=
  match c with
  | O => false
  | S c1 => (c1 <? length (iol s)) && match nth c1 (iol s) None with Some _ => true | None => false end
  end.

(* the getter before 137980e: the range test only -- a slot of type CGIO_FILE_NONE was returned like any other, and
   cgio_get_file_type / cgio_get_root_id / cgio_release_id, which do not look at the type, answered status 0 for it *)
Definition get_cgnsio_old (s : io) (c : nat) : bool :=
  match c with O => false | S c1 => c1 <? length (iol s) end.

(* ------------------------------------------------------------------------------------------------ ADF *)
(* ADFI_ID_2_file_block_offset: the file index is read out of the ID; "if (file_index >= maximum_files)
   FILE_INDEX_OUT_OF_RANGE"; the callers then test ADF_file[file_index].in_use *)
Definition adf_resolve (a : adf) (idx : nat) : option nat :=
  if idx <? length (tab a) then (if Nat.eqb (in_use (slot_at a idx)) 0 then None else Some idx) else None.

(* (cgio number, ADF file index the open filled, name of the file opened) *)
Definition hstep (fuel : nat) (w : world) (s : io) (live : mlive) (o : op) : option (io * mlive * res) :=
  match step Cur fuel w s o with
  | None => None
  | Some (s1, r) =>
      let live1 := match o, r with
                   | OOpen n _, ResOpen (Some c) =>
                       match cgio_resolve s1 c with Some idx => (c, idx, n) :: live | None => live end
                   | OClose c, ResClose ROk => drop_h c live
                   | _, _ => live
                   end in
      Some (s1, live1, r)
  end.

Fixpoint hrun (fuel : nat) (w : world) (s : io) (live : mlive) (ops : list op) : option (io * mlive) :=
  match ops with
  | [] => Some (s, live)
  | o :: r => match hstep fuel w s live o with
              | None => None
              | Some (s1, l1, _) => hrun fuel w s1 l1 r
              end
  end.
