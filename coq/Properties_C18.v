(* Properties_C18.v -- exported theorems for C18 (zone lookup by name).  Only statements, each closed by
   [exact] of a lemma proved elsewhere, each followed by Print Assumptions. *)
From Coq Require Import ZArith List.
From CgnsV Require Import ProbeCycle HashMap ZoneMirror.
Local Open Scope Z_scope.

(* The un-perturbed probe recurrence i <- (5 i + 1) mod 2^p reaches every slot within 2^p steps, for every p. *)
Theorem C18_probe_full_cycle : forall (p : nat) x t,
  0 <= x < 2 ^ Z.of_nat p -> 0 <= t < 2 ^ Z.of_nat p ->
  exists k : nat, Z.of_nat k < 2 ^ Z.of_nat p /\ lcg_iter (2 ^ Z.of_nat p) k x = t.
Proof. exact lcg_full_cycle. Qed.
Print Assumptions C18_probe_full_cycle.
