(* Properties_C18.v -- exported theorems for C18 (zone lookup by name).  Only statements, each closed by
   [exact] of a lemma proved in ProbeCycle.v / HashMapProofs.v, each followed by Print Assumptions.

   Reading guide.  [hmap] is the transcription of cgns_hashmap_object (HashMap.v).  [WF m] = m is the static
   empty keys object or satisfies the structural invariant [Inv].  [find_val m k] is the abstraction: the value
   the entry array associates with key k (-1 = absent), computed WITHOUT the index table or any probing.
   The theorems say that every operation of cg_hashmap.c, which does go through hash, probe sequence,
   tombstones and resizes, answers and updates exactly as that abstraction prescribes -- for every table
   size, every set of names and every history. *)
From Coq Require Import ZArith List.
From CgnsV Require Import ListX ProbeCycle HashMap HashMapProofs.
Import ListNotations.
Local Open Scope Z_scope.

(* 1. Termination for EVERY table size: the un-perturbed probe i <- (5 i + 1) mod 2^p meets every slot
      within 2^p steps (hence every probe loop returns within table_size + 13 steps, see probe_reaches). *)
Theorem C18_probe_full_cycle : forall (p : nat) x t,
  0 <= x < 2 ^ Z.of_nat p -> 0 <= t < 2 ^ Z.of_nat p ->
  exists k : nat, Z.of_nat k < 2 ^ Z.of_nat p /\ lcg_iter (2 ^ Z.of_nat p) k x = t.
Proof. exact lcg_full_cycle. Qed.
Print Assumptions C18_probe_full_cycle.

Theorem C18_probe_reaches_every_slot : forall p, 0 <= p <= 60 -> forall hash t,
  0 <= hash < W -> 0 <= t < 2 ^ p ->
  exists n : nat, Z.of_nat n < 13 + 2 ^ p /\ fst (slot_seq (2 ^ p - 1) hash n) = t.
Proof. exact probe_reaches. Qed.
Print Assumptions C18_probe_reaches_every_slot.

(* 2. Lookup: never runs out of fuel on a well-formed map and returns the associated value, -1 if absent. *)
Theorem C18_get_refines : forall m k, WF m -> map_get_item m k = Some (find_val m k).
Proof. exact get_item_correct. Qed.
Print Assumptions C18_get_refines.

Theorem C18_contains_refines : forall m k, WF m ->
  map_contains m k = Some (if find_val m k =? -1 then 0 else 1).
Proof. exact contains_correct. Qed.
Print Assumptions C18_contains_refines.

(* 3. Insert / overwrite: succeeds (any number of resizes), keeps the invariant, changes k and nothing else. *)
Theorem C18_set_refines : forall m k v, WF m -> 0 <= v -> m_used m < 2 ^ 57 ->
  exists m', map_set_item m k v = Some (m', 0) /\ WF m' /\
    (forall k', find_val m' k' = if key_eqb k' k then v else find_val m k') /\
    m_used m' <= m_used m + 1.
Proof. exact set_item_correct. Qed.
Print Assumptions C18_set_refines.

(* 4. Delete-and-renumber: an absent key is reported (-1) and nothing changes; a present key disappears and
      exactly the values above the deleted one are decremented. *)
Theorem C18_del_refines : forall m k, WF m ->
  exists m' rc, map_del_shift_item m k = Some (m', rc) /\ WF m' /\
    (find_val m k = -1 -> rc = -1 /\ m' = m) /\
    (find_val m k <> -1 -> rc = 0 /\
       forall k', find_val m' k' =
         if key_eqb k' k then -1
         else let v' := find_val m k' in if find_val m k <? v' then v' - 1 else v').
Proof. exact del_item_correct. Qed.
Print Assumptions C18_del_refines.

(* 5. Every history: the sequence of integers returned by set/get/contains/delete/clear/presize on the real
      data structure equals the sequence returned by the plain association [amap] -- whatever the names
      (equal hash residues included), however many growth thresholds are crossed, wherever deletions fall. *)
Theorem C18_history_refines : forall ops, Forall op_ok ops -> lenZ ops < 2 ^ 57 ->
  run empty_map ops = Some (spec_run a_empty ops).
Proof. exact run_from_empty. Qed.
Print Assumptions C18_history_refines.

(* non-vacuity: the hypotheses are met by a concrete history with a resize (6 inserts), deletes and lookups *)
Example C18_history_example :
  let ops := [MSet [65] 0; MSet [66] 1; MSet [67] 2; MSet [68] 3; MSet [69] 4; MSet [70] 5;
              MDel [65]; MGet [66]; MGet [70]; MDel [68]; MGet [70]; MHas [65]; MGet [65]] in
  Forall op_ok ops /\ run empty_map ops = Some [0; 0; 0; 0; 0; 0; 0; 0; 4; 0; 3; 0; -1].
Proof. split; [repeat constructor; cbn; try discriminate; try exact I|vm_compute; reflexivity]. Qed.

(* 6. The defect this property found (loop bound map_usable in _cg_del_shift_item_known_hash, repaired in
      /repo commit 51b5ae6): with the old bound, after inserting A,B,C,D and deleting A, B still maps to 1. *)
Theorem C18_old_loop_bound_refuted :
  let ks := [[65]; [66]; [67]; [68]] in
  exists m, fold_left (fun om kv => match om with
                                    | Some m => option_map fst (map_set_item m (fst kv) (snd kv))
                                    | None => None end)
                      (combine ks [0; 1; 2; 3]) (Some empty_map) = Some m /\
  exists m', map_del_shift_item_old m [65] = Some (m', 0) /\ map_get_item m' [66] = Some 1.
Proof. exact old_bound_refuted. Qed.
Print Assumptions C18_old_loop_bound_refuted.
