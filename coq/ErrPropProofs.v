(* ErrPropProofs.v -- proofs about the status-skeleton machine of ErrProp.v.

   Main result (error_propagates): for ANY table t, primitive predicate, exception list exc and set R with
   all_checked prim t exc R = true, ANY entry function, ANY oracle (= any call tree over the sites of the table, any
   choice of failing primitives) and any fuel: if some primitive write / seek / close fails during the call, then the
   call returns an error status (or runs out of fuel), or an error status was dropped at a (caller, callee) pair of exc.
   Proof: induction on the call depth; inside a function, induction on the number of steps with the invariant
   "no primitive has failed yet, or a dropped status is excused".  The closedness of R gives: a callee outside R that
   is not a primitive cannot make a primitive fail (unreachable_keeps_failed). *)
From Coq Require Import List String Bool PArith FSetPositive Lia.
From CgnsV Require Import ErrProp.
Import ListNotations.

Lemma rows_of_in : forall t id f, rows_of t id = Some f -> In f t /\ f_id f = id.
Proof.
  unfold rows_of. intros t id f H. apply find_some in H. destruct H as [H1 H2].
  apply Pos.eqb_eq in H2. auto.
Qed.

(* ------------------------------------------------------------------------------------------------ the log only grows *)
Definition grows (s s' : st) : Prop := exists l, lost s' = l ++ lost s.

Lemma grows_refl : forall s, grows s s.
Proof. intro s. exists []. reflexivity. Qed.
Lemma grows_trans : forall a b c, grows a b -> grows b c -> grows a c.
Proof. intros a b c [l1 H1] [l2 H2]. exists (l2 ++ l1). rewrite H2, H1, app_assoc. reflexivity. Qed.
Lemma grows_add : forall s p, grows s (add_lost s p).
Proof. intros s p. exists [p]. reflexivity. Qed.
Lemma grows_setf : forall s, grows s (set_failed s).
Proof. intro s. exists []. reflexivity. Qed.

Lemma excused_grows : forall exc s s', grows s s' -> excused exc s = true -> excused exc s' = true.
Proof.
  unfold excused. intros exc s s' [l H] E. rewrite H, existsb_app, E. apply orb_true_r.
Qed.
Lemma excused_spec : forall exc s, excused exc s = true <-> exists p, In p (lost s) /\ pmem p exc = true.
Proof. intros exc s. unfold excused. apply existsb_exists. Qed.
Lemma excused_nil : forall s, excused [] s = false.
Proof. intro s. unfold excused. induction (lost s) as [|p l IH]; simpl; auto. Qed.

Section Generic.
  Variable prim : positive -> bool.
  Variable t : list frow.
  Let rows := rows_of t.

  Lemma leaf_grows : forall id o s r s' o', leaf prim id o s = (r, s', o') -> grows s s'.
  Proof.
    unfold leaf. intros id o s r s' o' H. destruct (pop o) as [c o1]. destruct c.
    - inversion H; subst. apply grows_refl.
    - inversion H; subst. destruct (prim id); [apply grows_setf|apply grows_refl].
  Qed.

  Lemma body_grows : forall call me sites,
      (forall id o s r s' o', call id o s = (r, s', o') -> grows s s') ->
      forall steps o s r s' o', body call me sites steps o s = (r, s', o') -> grows s s'.
  Proof.
    intros call me sites Hc. induction steps as [|n IH]; simpl; intros o s r s' o' H.
    - inversion H; subst. apply grows_refl.
    - destruct (pop o) as [c o1]. destruct c as [|[|i]].
      + inversion H; subst. apply grows_refl.
      + inversion H; subst. apply grows_refl.
      + destruct (nth_error sites i) as [x|]; [|inversion H; subst; apply grows_refl].
        destruct (call (s_callee x) o1 s) as [[r2 s2] o2] eqn:E. pose proof (Hc _ _ _ _ _ _ E) as G.
        destruct r2.
        * eapply grows_trans; [exact G|]. eapply IH; eassumption.
        * destruct (propagates (s_cont x)).
          -- inversion H; subst. exact G.
          -- eapply grows_trans; [exact G|]. eapply grows_trans; [apply grows_add|]. eapply IH; eassumption.
        * inversion H; subst. exact G.
  Qed.

  Lemma run_grows : forall steps depth id o s r s' o',
      run rows prim steps depth id o s = (r, s', o') -> grows s s'.
  Proof.
    intro steps. induction depth as [|d IH]; simpl; intros id o s r s' o' H.
    - inversion H; subst. apply grows_refl.
    - destruct (rows id) as [f|].
      + eapply body_grows; [|exact H]. intros. eapply IH; eassumption.
      + eapply leaf_grows; eassumption.
  Qed.

  (* ---------------------------------------------------------------------------------------------- outside the closure *)
  Variable R : pset.
  Hypothesis Hclosed : closed_b prim t R = true.

  Lemma outside_sites : forall f, In f t -> PositiveSet.mem (f_id f) R = false ->
      forall x, In x (f_sites f) -> prim (s_callee x) = false /\ PositiveSet.mem (s_callee x) R = false.
  Proof.
    intros f Hin Hm x Hx. unfold closed_b in Hclosed. rewrite forallb_forall in Hclosed.
    specialize (Hclosed f Hin). rewrite Hm in Hclosed.
    destruct (row_reaches prim R f) eqn:E; [discriminate|].
    unfold row_reaches in E.
    assert (Hc : callee_reaches prim R x = false).
    { destruct (callee_reaches prim R x) eqn:E2; [|reflexivity].
      assert (existsb (callee_reaches prim R) (f_sites f) = true) by (apply existsb_exists; eauto). congruence. }
    unfold callee_reaches in Hc. apply orb_false_elim in Hc. exact Hc.
  Qed.

  Lemma body_keeps : forall call me sites,
      (forall x o s r s' o', In x sites -> call (s_callee x) o s = (r, s', o') -> failed s' = failed s) ->
      forall steps o s r s' o', body call me sites steps o s = (r, s', o') -> failed s' = failed s.
  Proof.
    intros call me sites Hc. induction steps as [|n IH]; simpl; intros o s r s' o' H.
    - inversion H; subst. reflexivity.
    - destruct (pop o) as [c o1]. destruct c as [|[|i]].
      + inversion H; subst. reflexivity.
      + inversion H; subst. reflexivity.
      + destruct (nth_error sites i) as [x|] eqn:En; [|inversion H; subst; reflexivity].
        apply nth_error_In in En.
        destruct (call (s_callee x) o1 s) as [[r2 s2] o2] eqn:E. pose proof (Hc _ _ _ _ _ _ En E) as K.
        destruct r2.
        * rewrite <- K. eapply IH; eassumption.
        * destruct (propagates (s_cont x)).
          -- inversion H; subst. exact K.
          -- apply IH in H. simpl in H. congruence.
        * inversion H; subst. exact K.
  Qed.

  (* a function outside R that is not a primitive cannot make a primitive fail *)
  Lemma unreachable_keeps_failed : forall steps depth id o s r s' o',
      prim id = false -> PositiveSet.mem id R = false ->
      run rows prim steps depth id o s = (r, s', o') -> failed s' = failed s.
  Proof.
    intro steps. induction depth as [|d IH]; simpl; intros id o s r s' o' Hp Hm H.
    - inversion H; subst. reflexivity.
    - destruct (rows id) as [f|] eqn:Er.
      + apply rows_of_in in Er. destruct Er as [Hin Hid]. subst id.
        eapply body_keeps; [|exact H].
        intros x o0 s0 r0 s0' o0' Hx Hc. destruct (outside_sites f Hin Hm x Hx) as [A B].
        eapply IH; eassumption.
      + unfold leaf in H. destruct (pop o) as [c o1]. destruct c; inversion H; subst; [reflexivity|].
        rewrite Hp. reflexivity.
  Qed.

  (* ---------------------------------------------------------------------------------------------- the main invariant *)
  Variable exc : list (positive * positive).
  Hypothesis Hrows : forallb (row_ok prim R exc) t = true.

  Definition Inv (s : st) : Prop := failed s = false \/ excused exc s = true.
  Definition Post (r : res) (s : st) : Prop := failed s = false \/ r = RERR \/ r = RFUEL \/ excused exc s = true.

  Lemma post_ok_inv : forall s, Post ROK s -> Inv s.
  Proof. intros s [H|[H|[H|H]]]; try discriminate; [left|right]; assumption. Qed.

  Lemma body_post : forall call f,
      In f t ->
      (forall id o s r s' o', call id o s = (r, s', o') -> grows s s') ->
      (forall id o s r s' o', prim id = false -> PositiveSet.mem id R = false ->
                              call id o s = (r, s', o') -> failed s' = failed s) ->
      (forall id o s r s' o', call id o s = (r, s', o') -> Inv s -> Post r s') ->
      forall steps o s r s' o',
        body call (f_id f) (f_sites f) steps o s = (r, s', o') -> Inv s -> Post r s'.
  Proof.
    intros call f Hin Hg Hk Hc.
    assert (Hok : forall x, In x (f_sites f) -> site_ok prim R exc f x = true).
    { rewrite forallb_forall in Hrows. specialize (Hrows f Hin). unfold row_ok in Hrows.
      rewrite forallb_forall in Hrows. exact Hrows. }
    induction steps as [|n IH]; simpl; intros o s r s' o' H I.
    - inversion H; subst. right; right; left. reflexivity.
    - destruct (pop o) as [c o1]. destruct c as [|[|i]].
      + inversion H; subst. destruct I; [left|right; right; right]; assumption.
      + inversion H; subst. right; left. reflexivity.
      + destruct (nth_error (f_sites f) i) as [x|] eqn:En.
        2:{ inversion H; subst. destruct I; [left|right; right; right]; assumption. }
        apply nth_error_In in En.
        destruct (call (s_callee x) o1 s) as [[r2 s2] o2] eqn:E.
        pose proof (Hc _ _ _ _ _ _ E I) as P2. pose proof (Hg _ _ _ _ _ _ E) as G2.
        destruct r2.
        * apply (IH _ _ _ _ _ H). apply post_ok_inv. exact P2.
        * destruct (propagates (s_cont x)) eqn:Ep.
          -- inversion H; subst. right; left. reflexivity.
          -- apply (IH _ _ _ _ _ H).
             specialize (Hok x En). unfold site_ok in Hok. rewrite Ep in Hok. simpl in Hok.
             destruct (callee_reaches prim R x) eqn:Ecr.
             ++ simpl in Hok. right. unfold excused. simpl. rewrite Hok. reflexivity.
             ++ unfold callee_reaches in Ecr. apply orb_false_elim in Ecr. destruct Ecr as [A B].
                pose proof (Hk _ _ _ _ _ _ A B E) as K.
                destruct I as [I|I].
                ** left. simpl. congruence.
                ** right. eapply excused_grows; [|exact I]. eapply grows_trans; [exact G2|apply grows_add].
        * inversion H; subst. right; right; left. reflexivity.
  Qed.

  Lemma run_post : forall steps depth id o s r s' o',
      run rows prim steps depth id o s = (r, s', o') -> Inv s -> Post r s'.
  Proof.
    intro steps. induction depth as [|d IH]; simpl; intros id o s r s' o' H I.
    - inversion H; subst. right; right; left. reflexivity.
    - destruct (rows id) as [f|] eqn:Er.
      + apply rows_of_in in Er. destruct Er as [Hin Hid]. subst id.
        eapply body_post; try eassumption.
        * intros. eapply run_grows; eassumption.
        * intros. eapply unreachable_keeps_failed; eassumption.
      + unfold leaf in H. destruct (pop o) as [c o1]. destruct c; inversion H; subst.
        * destruct I; [left|right; right; right]; assumption.
        * right; left. reflexivity.
  Qed.
End Generic.

(* ------------------------------------------------------------------------------------------------ exported statements *)
Theorem error_propagates : forall prim t exc R,
    all_checked prim t exc R = true ->
    forall steps depth id o r s' o',
      run (rows_of t) prim steps depth id o (St false []) = (r, s', o') ->
      failed s' = true ->
      r = RERR \/ r = RFUEL \/ exists p, In p (lost s') /\ pmem p exc = true.
Proof.
  intros prim t exc R Hall steps depth id o r s' o' Hrun Hf.
  unfold all_checked in Hall. apply andb_true_iff in Hall. destruct Hall as [Hcl Hrows].
  assert (I : Inv exc (St false [])) by (left; reflexivity).
  destruct (run_post prim t R Hcl exc Hrows steps depth id o _ r s' o' Hrun I) as [H|[H|[H|H]]].
  - congruence.
  - left; exact H.
  - right; left; exact H.
  - right; right. apply excused_spec. exact H.
Qed.

Corollary error_propagates_no_exception : forall prim t R,
    all_checked prim t [] R = true ->
    forall steps depth id o r s' o',
      run (rows_of t) prim steps depth id o (St false []) = (r, s', o') ->
      failed s' = true -> r = RERR \/ r = RFUEL.
Proof.
  intros prim t R Hall steps depth id o r s' o' Hrun Hf.
  destruct (error_propagates prim t [] R Hall steps depth id o r s' o' Hrun Hf) as [H|[H|[p [_ H]]]]; auto.
  discriminate.
Qed.

Theorem unreachable_cannot_fail : forall prim t R,
    closed_b prim t R = true ->
    forall steps depth id o s r s' o',
      prim id = false -> PositiveSet.mem id R = false ->
      run (rows_of t) prim steps depth id o s = (r, s', o') -> failed s' = failed s.
Proof. intros. eapply unreachable_keeps_failed; eassumption. Qed.

(* the log is faithful: a pair is logged only when a callee really returned an error that the site does not propagate --
   stated for one step: what is logged is a site of the running function *)
Theorem lost_only_grows : forall prim t steps depth id o s r s' o',
    run (rows_of t) prim steps depth id o s = (r, s', o') -> exists l, lost s' = l ++ lost s.
Proof. intros. eapply run_grows; eassumption. Qed.
