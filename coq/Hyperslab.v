(* Hyperslab.v -- executable model of the partial / reshaped array transfer path of CGNS (property C05).

   Transcribed from
     src/adf/ADF_internals.c   ADFI_count_total_array_points (2126-2196), ADFI_increment_array (4940-4986)
     src/adf/ADF_interface.c   element loops of ADF_Read_Data (2922-3200) and ADF_Write_Data (3912-4385)
     src/adfh/ADFH.c           hyperslab set-up of ADFH_Read_Data (3454-3631) / ADFH_Write_Data (3792-3975)
     src/cgns_internals.c      cgi_array_general_verify_range (10252-10415), cgi_array_general_read /
                               cgi_array_general_write (10418-10717; equal file and memory data types)
   No proofs in this file.  Arrays are [list Z]; positions are 0-based element offsets from the start of the
   node's data (file side) or of the user's buffer (memory side).

   One selection dimension = one record [dsel] (the C passes ndim and four parallel arrays dims[], start[],
   end[], stride[] that are always indexed by the same i).

   Unsigned 64-bit arithmetic (cgulong_t) wraps; the wrap is the section variable [wr], instantiated with
   [w64] for the model of the code and with the identity for the ideal arithmetic used in the proofs.  Signed
   (cgsize_t) expressions are computed exactly; the theorems bound the inputs so that they cannot overflow. *)
From Coq Require Import ZArith List Bool.
From CgnsV Require Import ListX.
Import ListNotations.
Local Open Scope Z_scope.

Record dsel := mkD { d_dim : Z; d_start : Z; d_end : Z; d_stride : Z }.

Definition W64 : Z := 2 ^ 64.
Definition w64 (x : Z) : Z := x mod W64.

(* ADF / ADFH error codes (ADF.h 352-373, same numbers in ADFH.h) *)
Inductive aerr := BadNumDims | BadDimVal | StartOut | EndOut | MinGtMax | BadStride | UnequalDims.
Definition aerr_code (e : aerr) : Z :=
  match e with BadNumDims => 28 | EndOut => 36 | BadStride => 37 | MinGtMax => 38 | StartOut => 45
             | BadDimVal => 47 | UnequalDims => 49 end.

(* ------------------------------------------------------------------------------------------------ ADF *)
(* the "Check the inputs" loop of ADFI_count_total_array_points; [d_dim] is the cgulong_t value *)
Fixpoint ctp_check (ds : list dsel) : option aerr :=
  match ds with
  | [] => None
  | d :: r =>
      if d_dim d <? 1 then Some BadDimVal
      else if (d_start d <? 1) || (d_dim d <? d_start d) then Some StartOut
      else if (d_end d <? 1) || (d_dim d <? d_end d) then Some EndOut
      else if d_end d <? d_start d then Some MinGtMax
      else if d_stride d <? 1 then Some BadStride
      else ctp_check r
  end.

Section Wrap.
  Variable wr : Z -> Z.

  (* total *= (end - start + stride) / stride ; offset += (start - 1) * accumlated_size ; accumlated_size *= dims *)
  Fixpoint ctp_loop (ds : list dsel) (total offset acc : Z) : Z * Z :=
    match ds with
    | [] => (total, offset)
    | d :: r => ctp_loop r (wr (total * Z.quot (d_end d - d_start d + d_stride d) (d_stride d)))
                           (wr (offset + (d_start d - 1) * acc)) (wr (acc * d_dim d))
    end.

  Definition count_total (ds : list dsel) : aerr + Z * Z :=
    let n := Z.of_nat (length ds) in
    if (n <=? 0) || (12 <? n) then inl BadNumDims
    else match ctp_check ds with Some e => inl e | None => inr (ctp_loop ds 1 0 1) end.

  (* ADFI_increment_array: the for loop, from dimension i on, with the running offset / accumlated_size *)
  Fixpoint incr (ds : list dsel) (cur : list Z) (offset acc : Z) : list Z * Z :=
    match ds, cur with
    | d :: r, c :: t =>
        if c + d_stride d <=? d_end d
        then ((c + d_stride d) :: t, wr (offset + (1 + (d_stride d - 1) * acc)))
        else let (t', off) := incr r t (wr (offset + wr (wr (wr (wr (d_dim d - c) + d_start d) - 1) * acc)))
                                       (wr (acc * d_dim d)) in
             (d_start d :: t', off)
    | _, _ => (cur, offset)
    end.

  (* "Increment disk pointers": the 1-D special case or ADFI_increment_array.  (On the memory side the 1-D
     branch updates current_memory[0] by disk_offset instead of m_stride[0]; current_memory is dead in that
     branch -- only memory_offset = m_stride[0] is used -- so one definition serves both sides.) *)
  Definition adf_step (ds : list dsel) (cur : list Z) : list Z * Z :=
    match ds, cur with
    | [d], [c] => let c' := c + d_stride d in ([if d_end d <? c' then d_end d else c'], d_stride d)
    | _, _ => incr ds cur 0 1
    end.

  (* for (disk_elem = 0; disk_elem < total; disk_elem++) { use pos; if (disk_elem < total-1) { step; pos += off } } *)
  Fixpoint walk_loop (n : nat) (ds : list dsel) (cur : list Z) (pos : Z) : list Z :=
    match n with
    | O => []
    | S n' => pos :: match n' with
                     | O => []
                     | S _ => let (cur', off) := adf_step ds cur in walk_loop n' ds cur' (pos + off)
                     end
    end.

  Definition adf_walk (ds : list dsel) : aerr + list Z :=
    match count_total ds with
    | inl e => inl e
    | inr (total, off0) => inr (walk_loop (Z.to_nat total) ds (map d_start ds) off0)
    end.
End Wrap.

(* memory_dims[i] = m_dims[i]  (cgsize_t -> cgulong_t) *)
Definition mem_dsel (d : dsel) : dsel := mkD (w64 (d_dim d)) (d_start d) (d_end d) (d_stride d).

(* ------------------------------------------------------------------------------------------------ ADFH *)
(* Two variants of ADFH_Read_Data / ADFH_Write_Data are expressible:
     AdfhCur  the current code (/repo commit 358f914 and later): count = (end - start) / stride + 1, only
              stride < 1 is BAD_STRIDE_VALUE;
     AdfhOld  the code before 358f914: count = (end - start + 1) / stride (floor) and stride > extent rejected
              (kept for the historical witness C05_adfh_stride_refuted). *)
Inductive adfh_ver := AdfhOld | AdfhCur.

(* per-dimension checks; the file side compares (hsize_t)s_end with the extent (unsigned), the memory side
   compares m_end with m_dims as signed numbers *)
Definition adfh_check1 (v : adfh_ver) (unsigned_end : bool) (d : dsel) : option aerr :=
  if d_start d <? 1 then Some StartOut
  else if (d_dim d <? (if unsigned_end then w64 (d_end d) else d_end d)) then Some EndOut
  else if d_end d <? d_start d then Some MinGtMax
  else if (d_stride d <? 1) ||
          (match v with AdfhOld => d_end d - d_start d + 1 <? d_stride d | AdfhCur => false end) then Some BadStride
  else None.

Fixpoint adfh_check (v : adfh_ver) (unsigned_end : bool) (ds : list dsel) : option aerr :=
  match ds with
  | [] => None
  | d :: r => match adfh_check1 v unsigned_end d with Some e => Some e | None => adfh_check v unsigned_end r end
  end.

Definition adfh_count (v : adfh_ver) (d : dsel) : Z :=
  match v with
  | AdfhOld => Z.quot (d_end d - d_start d + 1) (d_stride d)
  | AdfhCur => Z.quot (d_end d - d_start d) (d_stride d) + 1
  end.

(* what is handed to H5Sselect_hyperslab for one dimension: (start, stride, count), block = 1 *)
Definition adfh_triple (v : adfh_ver) (d : dsel) : Z * Z * Z := (d_start d - 1, d_stride d, adfh_count v d).

(* start[ndim-1-n] = ... : the triples (and extents) in HDF5 order *)
Definition adfh_sel (v : adfh_ver) (ds : list dsel) : list (Z * Z * Z) := rev (map (adfh_triple v) ds).
Definition adfh_dims (ds : list dsel) : list Z := rev (map d_dim ds).

(* SPECIFIED semantics of HDF5 (trusted, not transcribed): a regular hyperslab selects the coordinates
   start_j + k*stride_j, k < count_j; H5Dread / H5Dwrite pair the selected elements of the two data spaces in
   row-major order (last coordinate fastest); offset of a coordinate vector = row-major, 0-based *)
Fixpoint cnt_from (n : nat) (c s : Z) : list Z :=
  match n with O => [] | S n' => c :: cnt_from n' (c + s) s end.

Fixpoint h5_points (ts : list (Z * Z * Z)) : list (list Z) :=
  match ts with
  | [] => [[]]
  | (st, sd, cn) :: r => flat_map (fun c => map (cons c) (h5_points r)) (cnt_from (Z.to_nat cn) st sd)
  end.

Definition lin_c (dims idx : list Z) : Z :=
  fold_left (fun acc p => acc * fst p + snd p) (combine dims idx) 0.

Definition adfh_walk (v : adfh_ver) (unsigned_end : bool) (ds : list dsel) : aerr + list Z :=
  match adfh_check v unsigned_end ds with
  | Some e => inl e
  | None => inr (map (lin_c (adfh_dims ds)) (h5_points (adfh_sel v ds)))
  end.

(* ------------------------------------------------------------------------------------------------ transfer *)
(* dst[dpos_k] := src[spos_k] for k = 0, 1, ... in this order *)
Definition xfer (dst src : list Z) (dpos spos : list Z) : list Z :=
  fold_left (fun acc p => updZ acc (fst p) (nthZ src (snd p) 0)) (combine dpos spos) dst.

(* ADFH = the current ADFH code, ADFH_OLD = ADFH before commit 358f914 *)
Inductive backend := ADF | ADFH | ADFH_OLD.

Definition adfh_pairs (v : adfh_ver) (sds mds : list dsel) : aerr + list Z * list Z :=
  match adfh_walk v true sds with
  | inl e => inl e
  | inr fw =>
      match adfh_walk v false mds with
      | inl e => inl e
      | inr mw => if negb (Z.of_nat (length fw) =? Z.of_nat (length mw)) then inl UnequalDims else inr (fw, mw)
      end
  end.

(* the (file offsets, memory offsets) visited by one cgio_read_data_type / cgio_write_data call, or the error
   the back end returns; the order of the checks is the order of the code *)
Definition lo_pairs (b : backend) (sds mds : list dsel) : aerr + list Z * list Z :=
  match b with
  | ADF =>
      match count_total w64 sds with
      | inl e => inl e
      | inr (stot, soff) =>
          match count_total w64 (map mem_dsel mds) with
          | inl e => inl e
          | inr (mtot, moff) =>
              if negb (stot =? mtot) then inl UnequalDims
              else inr (walk_loop w64 (Z.to_nat stot) sds (map d_start sds) soff,
                        walk_loop w64 (Z.to_nat stot) (map mem_dsel mds) (map d_start mds) moff)
          end
      end
  | ADFH => adfh_pairs AdfhCur sds mds
  | ADFH_OLD => adfh_pairs AdfhOld sds mds
  end.

(* cgio_write_data: file := file with the addressed elements taken from memory; cgio_read_data_type: the
   reverse.  An error transfers nothing. *)
Definition xfer_write (b : backend) (file mem : list Z) (sds mds : list dsel) : aerr + list Z :=
  match lo_pairs b sds mds with inl e => inl e | inr (fw, mw) => inr (xfer file mem fw mw) end.
Definition xfer_read (b : backend) (file mem : list Z) (sds mds : list dsel) : aerr + list Z :=
  match lo_pairs b sds mds with inl e => inl e | inr (fw, mw) => inr (xfer mem file mw fw) end.

(* ------------------------------------------------------------------------------------------------ SPEC *)
(* lin dims idx = sum_i (idx_i - 1) * prod_{j<i} dims_j   (Fortran order, 1-based indices) *)
Fixpoint lin_acc (acc : Z) (dims idx : list Z) : Z :=
  match dims, idx with
  | d :: ds, i :: r => (i - 1) * acc + lin_acc (acc * d) ds r
  | _, _ => 0
  end.
Definition lin (dims idx : list Z) : Z := lin_acc 1 dims idx.

(* number of points start, start+stride, ... <= end *)
Definition npts (d : dsel) : Z := (d_end d - d_start d) / d_stride d + 1.
Definition range1 (d : dsel) : list Z := cnt_from (Z.to_nat (npts d)) (d_start d) (d_stride d).

(* the strided sub-box, first index fastest *)
Fixpoint box (ds : list dsel) : list (list Z) :=
  match ds with
  | [] => [[]]
  | d :: r => flat_map (fun tl => map (fun i => i :: tl) (range1 d)) (box r)
  end.

Definition dims_of (ds : list dsel) : list Z := map d_dim ds.
Definition prodZ (l : list Z) : Z := fold_right Z.mul 1 l.
Definition spec_positions (ds : list dsel) : list Z := map (lin (dims_of ds)) (box ds).

(* ------------------------------------------------------------------------------------------------ mid level *)
(* one file-space dimension of a cgi_array_general_* request: stored extent (rind included), user range, and
   rind_planes[2n] (ignored when rind_planes == NULL) *)
Record vdim := mkV { v_dim : Z; v_rmin : Z; v_rmax : Z; v_rlo : Z }.
(* one memory-space dimension *)
Record mdim := mkM { m_dim : Z; m_rmin : Z; m_rmax : Z }.

Inductive rw := OpRead | OpWrite.

Record vr_out := mkVR { vr_srange : list (Z * Z);   (* s_rmin[n], s_rmax[n] *)
                        vr_sfull : bool; vr_mfull : bool; vr_numpt : Z }.

(* "check if requested to return full range": s_numpt and the flag *)
Fixpoint vr_scount (sd : list vdim) (numpt : Z) (full : bool) : Z * bool :=
  match sd with
  | [] => (numpt, full)
  | v :: r => let npt := v_rmax v - v_rmin v + 1 in
              vr_scount r (numpt * npt) (if npt =? v_dim v then full else false)
  end.

(* [old] = (rind_index == CG_CONFIG_RIND_ZERO || rind_planes == NULL) *)
Fixpoint vr_scheck (old : bool) (sd : list vdim) : bool :=
  match sd with
  | [] => true
  | v :: r =>
      if old then
        if (v_rmax v <? v_rmin v) || (v_dim v <? v_rmax v) || (v_rmin v <? 1) then false else vr_scheck old r
      else
        if (v_rmax v <? v_rmin v) || (v_dim v - v_rlo v <? v_rmax v) || (v_rmin v <? 1 - v_rlo v) then false
        else vr_scheck old r
  end.

Fixpoint vr_mdimcheck (md : list mdim) : bool :=
  match md with [] => true | m :: r => if m_dim m <? 1 then false else vr_mdimcheck r end.

Fixpoint vr_mcheck (md : list mdim) : bool :=
  match md with
  | [] => true
  | m :: r => if (m_rmax m <? m_rmin m) || (m_dim m <? m_rmax m) || (m_rmin m <? 1) then false else vr_mcheck r
  end.

Fixpoint vr_mcount (md : list mdim) (numpt : Z) (full : bool) : Z * bool :=
  match md with
  | [] => (numpt, full)
  | m :: r => let npt := m_rmax m - m_rmin m + 1 in
              vr_mcount r (numpt * npt) (if npt =? m_dim m then full else false)
  end.

Definition vr_srange_of (reset old : bool) (v : vdim) : Z * Z :=
  if reset then (1, v_dim v)
  else if old then (v_rmin v, v_rmax v)
  else (v_rmin v + v_rlo v, v_rmax v + v_rlo v).

(* cgi_array_general_verify_range; None = CG_ERROR *)
Definition verify_range (op : rw) (old : bool) (sd : list vdim) (md : list mdim) : option vr_out :=
  let (s_numpt, s_full) := vr_scount sd 1 true in
  let reset := match op with OpWrite => false | OpRead => s_full end in
  if negb reset && negb (vr_scheck old sd) then None
  else
    let mn := Z.of_nat (length md) in
    if (mn <=? 0) || (12 <? mn) then None
    else if negb (vr_mdimcheck md) then None
    else if negb (vr_mcheck md) then None
    else
      let (m_numpt, m_full) := vr_mcount md 1 true in
      if negb (s_numpt =? m_numpt) then None
      else Some (mkVR (map (vr_srange_of reset old) sd) s_full m_full s_numpt).

(* the selections cgi_array_general_read / _write hand to cgio (stride[] = 1 everywhere) *)
Definition s_sel (sd : list vdim) (r : list (Z * Z)) : list dsel :=
  map (fun p => mkD (v_dim (fst p)) (fst (snd p)) (snd (snd p)) 1) (combine sd r).
Definition m_sel (md : list mdim) : list dsel := map (fun m => mkD (m_dim m) (m_rmin m) (m_rmax m) 1) md.

(* cgio_read_all_data_type / cgio_write_all_data: the whole node, linearly, to / from the start of the buffer *)
Definition copy_all (dst src : list Z) (n : Z) : list Z := firstn (Z.to_nat n) src ++ skipn (Z.to_nat n) dst.

Inductive mid_res := MidRejected                 (* CG_ERROR from verify_range: cgio is never called *)
                   | MidIoError (e : aerr)       (* cgio returned an error *)
                   | MidOk (a : list Z).         (* the array that was the destination, after the call *)

Definition mid_write (b : backend) (old : bool) (sd : list vdim) (md : list mdim) (file mem : list Z) : mid_res :=
  match verify_range OpWrite old sd md with
  | None => MidRejected
  | Some o =>
      if vr_sfull o && vr_mfull o then MidOk (copy_all file mem (vr_numpt o))
      else match xfer_write b file mem (s_sel sd (vr_srange o)) (m_sel md) with
           | inl e => MidIoError e | inr f => MidOk f end
  end.

Definition mid_read (b : backend) (old : bool) (sd : list vdim) (md : list mdim) (file mem : list Z) : mid_res :=
  match verify_range OpRead old sd md with
  | None => MidRejected
  | Some o =>
      if vr_sfull o && vr_mfull o then MidOk (copy_all mem file (vr_numpt o))
      else match xfer_read b file mem (s_sel sd (vr_srange o)) (m_sel md) with
           | inl e => MidIoError e | inr m => MidOk m end
  end.
