(* Properties_C14b.v -- exported theorems of the translator half of property C14 ("an I/O failure is always reported"):
   error propagation through src/adf/ADF_internals.c, src/adf/ADF_interface.c and src/cgns_io.c.  The generic theorems
   are about the status-skeleton machine of ErrProp.v for ANY table; the table-level obligation is evaluated by the
   kernel (vm_compute) on coq/Gen_C14.v, REGENERATED from the current sources on every run. *)
From Coq Require Import List String Bool PArith FSetPositive.
From CgnsV Require Import ErrProp ErrPropProofs Gen_C14.
Import ListNotations.

(* the analysis of the regenerated table: the primitive writes / seeks / closes, the functions that can reach one *)
Definition P : pset := Eval vm_compute in prim_set Gen_C14.table Gen_C14.externs.
Definition R : pset := Eval vm_compute in analyse_R Gen_C14.table Gen_C14.externs.

(* GENERIC: for any table that passes all_checked, any entry function, any oracle (call tree + failing primitives) and
   any fuel: a failed primitive write / seek / close makes the call return an error, unless an error status was dropped
   at one of the excepted (caller, callee) pairs *)
Theorem C14_error_propagates : forall prim t exc R,
    all_checked prim t exc R = true ->
    forall steps depth id o r s' o',
      run (rows_of t) prim steps depth id o (St false []) = (r, s', o') ->
      failed s' = true ->
      r = RERR \/ r = RFUEL \/ exists p, In p (lost s') /\ pmem p exc = true.
Proof. exact error_propagates. Qed.
Print Assumptions C14_error_propagates.

Theorem C14_error_propagates_no_exception : forall prim t R,
    all_checked prim t [] R = true ->
    forall steps depth id o r s' o',
      run (rows_of t) prim steps depth id o (St false []) = (r, s', o') ->
      failed s' = true -> r = RERR \/ r = RFUEL.
Proof. exact error_propagates_no_exception. Qed.
Print Assumptions C14_error_propagates_no_exception.

(* GENERIC: a function outside a closed set R that is not itself a primitive never makes a primitive fail *)
Theorem C14_unreachable_cannot_fail : forall prim t R,
    closed_b prim t R = true ->
    forall steps depth id o s r s' o',
      prim id = false -> PositiveSet.mem id R = false ->
      run (rows_of t) prim steps depth id o s = (r, s', o') -> failed s' = failed s.
Proof. exact unreachable_cannot_fail. Qed.
Print Assumptions C14_unreachable_cannot_fail.

(* THE OBLIGATION on the current sources: R is closed; every status of a call that can reach a primitive write / seek /
   close is tested-and-returned or flows to the caller, except the pairs of ErrProp.known_unchecked; the translator
   classified every call site; the translated exception list names only pairs of the hand list; ids are unambiguous *)
Theorem C14_all_statuses_checked :
  all_checked (primf P) (eff_table Gen_C14.table) Gen_C14.exceptions R = true /\
  all_parsed Gen_C14.table = true /\
  exceptions_named Gen_C14.table Gen_C14.externs Gen_C14.exceptions = true /\
  ids_ok Gen_C14.table Gen_C14.externs = true.
Proof. vm_compute. repeat split; reflexivity. Qed.
Print Assumptions C14_all_statuses_checked.

(* the instance for the CURRENT code *)
Theorem C14_error_propagates_current : forall steps depth id o r s' o',
    run (rows_of (eff_table Gen_C14.table)) (primf P) steps depth id o (St false []) = (r, s', o') ->
    failed s' = true ->
    r = RERR \/ r = RFUEL \/ exists p, In p (lost s') /\ pmem p Gen_C14.exceptions = true.
Proof.
  intros steps depth id o r s' o'.
  exact (error_propagates (primf P) (eff_table Gen_C14.table) Gen_C14.exceptions R
                          (proj1 C14_all_statuses_checked) steps depth id o r s' o').
Qed.
Print Assumptions C14_error_propagates_current.

(* non-vacuity: a four-function table.  api calls mid twice-over: `mid` calls the primitive 9 with a checked status;
   `bad` calls it and OVERWRITES the status.  The machine returns an error through the checked chain, returns success
   with failed = true through the overwritten one (and logs the pair), and all_checked tells the two tables apart. *)
Example C14_machine_example :
  let mid := mkF 3 "mid" FAdfInt SPtr true [mkS 9 10 DRet KFlow] in
  let bad := mkF 4 "bad" FAdfInt SPtr true [mkS 9 20 DRet KOverwritten; mkS 5 21 DPtr KReturn] in
  let pure := mkF 5 "pure" FAdfInt SPtr true [] in
  let api := mkF 2 "api" FAdfApi SPtr true [mkS 3 1 DPtr KReturn; mkS 4 2 DPtr KReturn] in
  let t := [api; mid; bad; pure] in
  let prim := fun i => Pos.eqb i 9 in
  let s0 := St false [] in
  let R := reach prim t in
  (* api -> site 0 (mid) -> site 0 (prim 9) fails *)
  run (rows_of t) prim 10 10 2 [2; 2; 1]%nat s0 = (RERR, St true [], []) /\
  (* api -> site 1 (bad) -> site 0 (prim 9) fails, bad goes on and leaves with success, api leaves with success *)
  run (rows_of t) prim 10 10 2 [3; 2; 1]%nat s0 = (ROK, St true [(4, 9)%positive], []) /\
  PositiveSet.mem 5 R = false /\ PositiveSet.mem 2 R = true /\
  all_checked prim t [] R = false /\ all_checked prim t [(4, 9)%positive] R = true /\
  all_checked prim [api; mid; pure] [] (reach prim [api; mid; pure]) = true.
Proof. vm_compute. repeat split; reflexivity. Qed.
