(* Properties_C03.v -- what the ideal node database allows the two storage back ends to do differently: nothing
   but the position of a renamed node among its siblings.  Each back end is tied to TreeDB with its own policy by
   the differential run of checks/C03.py (same histories on ADF, HDF5 and the extracted model); together these
   give "same answers, same child SETS" for the two back ends. *)
From Coq Require Import ZArith List.
From CgnsV Require Import TreeDB TreeDBProofs BackendDiff BackendDiffProofs.
Import ListNotations.
Local Open Scope Z_scope.

Theorem C03_policy_only_in_rename : forall t o, (forall p u nm, o <> ORename p u nm) ->
  step_table true t o = step_table false t o.
Proof. exact policy_only_in_rename. Qed.
Print Assumptions C03_policy_only_in_rename.

Theorem C03_rename_same_answer_same_nodes : forall t p u nm, WFt t ->
  snd (step_table true t (ORename p u nm)) = snd (step_table false t (ORename p u nm)) /\
  forall v, find_node (fst (step_table true t (ORename p u nm))) v =
            find_node (fst (step_table false t (ORename p u nm))) v.
Proof. exact rename_policies_same_nodes. Qed.
Print Assumptions C03_rename_same_answer_same_nodes.

(* ---- node names: the two validators (ADF_Create / ADF_Put_Name vs ADFH's check_name), transcribed in BackendDiff.v *)

(* on the documented common subset (1..32 printable characters, no '/', no blank at either end, not ".") both back
   ends accept the name and store exactly it, at creation and at rename *)
Theorem C03_names_agree : forall put s, common_name s = true -> adf_name put s = NOk s /\ adfh_name s = NOk s.
Proof. exact names_agree. Qed.
Print Assumptions C03_names_agree.

(* for EVERY string at creation, and every string without a leading blank at rename: whenever both back ends
   accept it they store the same name.  (no_skip put s := put = true -> s does not start with a blank) *)
Theorem C03_names_same_when_both_accept : forall put s a b, no_skip put s ->
  adf_name put s = NOk a -> adfh_name s = NOk b -> a = b.
Proof. exact names_same_when_both_accept. Qed.
Print Assumptions C03_names_same_when_both_accept.

(* for EVERY string ADF accepts, HDF5 accepts it with the same stored name -- unless that name is "." *)
Theorem C03_adf_names_accepted_by_hdf5_except_dot : forall put s a, no_skip put s ->
  adf_name put s = NOk a -> a <> [DOT] -> adfh_name s = NOk a.
Proof. exact adf_subset_of_adfh. Qed.
Print Assumptions C03_adf_names_accepted_by_hdf5_except_dot.

(* outside the common subset the two back ends do differ (the full-strength "every name" statement is false of the
   code; the four classes are replayed on the library on every run) *)
Theorem C03_names_refuted :
  (adf_name false [46] = NOk [46] /\ adfh_name [46] = NErr INVALID_NODE_NAME) /\              (* "." *)
  (adf_name false (32 :: repeat 97 32) = NErr STRING_LENGTH_TOO_BIG /\
   adfh_name (32 :: repeat 97 32) = NOk (repeat 97 32)) /\                                     (* " " ++ 32 x 'a' *)
  (adf_name false [9; 97] = NErr INVALID_NODE_NAME /\ adfh_name [9; 97] = NOk [97]) /\          (* TAB-led *)
  (adf_name false [97; 1; 98] = NErr INVALID_NODE_NAME /\ adfh_name [97; 1; 98] = NOk [97; 1; 98]) /\ (* control char *)
  (* ADF_Put_Name validates " a" as "a" but stores " a"; ADF_Create and HDF5 store "a": no_skip is necessary *)
  (adf_name true [32; 97] = NOk [32; 97] /\ adf_name false [32; 97] = NOk [97] /\ adfh_name [32; 97] = NOk [97]).
Proof. vm_compute. repeat split. Qed.
Print Assumptions C03_names_refuted.

Example C03_names_example : common_name [90; 111; 110; 101; 32; 49] = true.       (* "Zone 1" *)
Proof. reflexivity. Qed.
