(* Properties_C03.v -- what the ideal node database allows the two storage back ends to do differently: nothing
   but the position of a renamed node among its siblings.  Each back end is tied to TreeDB with its own policy by
   the differential run of checks/C03.py (same histories on ADF, HDF5 and the extracted model); together these
   give "same answers, same child SETS" for the two back ends. *)
From Coq Require Import ZArith List.
From CgnsV Require Import TreeDB TreeDBProofs.
Local Open Scope Z_scope.

Theorem C03_policy_only_in_rename : forall t o, (forall p u nm, o <> ORename p u nm) ->
  step_table true t o = step_table false t o.
Proof. exact policy_only_in_rename. Qed.
Print Assumptions C03_policy_only_in_rename.

Theorem C03_rename_same_answer_same_nodes : forall t p u nm, WFt t ->
  snd (step_table true t (ORename p u nm)) = snd (step_table false t (ORename p u nm)) /\
  forall v, find_node (fst (step_table true t (ORename p u nm))) v =
            find_node (fst (step_table false t (ORename p u nm))) v.
Proof. exact rename_policies_same_nodes. Qed.
Print Assumptions C03_rename_same_answer_same_nodes.
