(* CopyProofs.v -- proofs about Copy.v: the recursive copy reproduces every source tree (links kept, or external
   links replaced by a copy of their target), the entry points built on it, the witnesses of the corners where the
   code does not, and cgnsdiff's comparison. *)
From Coq Require Import ZArith List Bool Lia Permutation.
From Flocq Require Import IEEE754.Binary IEEE754.Bits.
From CgnsV Require Import ListX Copy.
Import ListNotations.
Local Open Scope Z_scope.

(* ---- induction on trees ------------------------------------------------------------------------------------ *)
Section NodeInd.
Variable P : node -> Prop.
Hypothesis HN : forall nm l dt d da ks, Forall P ks -> P (Node nm l dt d da ks).
Hypothesis HL : forall nm f p, P (LinkNode nm f p).
Fixpoint node_ind2 (n : node) : P n :=
  match n with
  | Node nm l dt d da ks =>
      HN nm l dt d da ks ((fix go (ks : list node) : Forall P ks :=
                             match ks with
                             | [] => Forall_nil P
                             | k :: r => Forall_cons k (node_ind2 k) (go r)
                             end) ks)
  | LinkNode nm f p => HL nm f p
  end.
End NodeInd.

Lemma bytes_eqb_refl a : bytes_eqb a a = true.
Proof. induction a; simpl; auto. rewrite Z.eqb_refl; auto. Qed.
Lemma bytes_eqb_eq a b : bytes_eqb a b = true <-> a = b.
Proof.
  split; [|intros ->; apply bytes_eqb_refl].
  revert b; induction a as [|x a IH]; intros [|y b]; simpl; try discriminate; auto.
  intros H. apply andb_true_iff in H as [H1 H2]. apply Z.eqb_eq in H1. f_equal; auto.
Qed.

(* ---- the output database ---------------------------------------------------------------------------------------- *)
Lemma on_last_cons a ks f : ks <> [] -> on_last (a :: ks) f = bind (on_last ks f) (fun r => Ok (a :: r)).
Proof. destruct ks; [congruence|reflexivity]. Qed.
Lemma on_last_app ks k f : on_last (ks ++ [k]) f = bind (f k) (fun k' => Ok (ks ++ [k'])).
Proof.
  induction ks as [|a ks IH].
  - simpl. destruct (f k); reflexivity.
  - rewrite <- !app_comm_cons, on_last_cons by (destruct ks; discriminate).
    rewrite IH. destruct (f k); reflexivity.
Qed.

Lemma create_then_fill n l t d da ks nm g :
  bind (create_node (Node n l t d da ks) nm) (fun out' => with_new out' g) =
  bind (g (fresh nm)) (fun c => Ok (Node n l t d da (ks ++ [c]))).
Proof.
  simpl. rewrite on_last_app. destruct (g (fresh nm)); reflexivity.
Qed.

(* ---- sizes ------------------------------------------------------------------------------------------------------------ *)
Lemma fold_left_mul l a : fold_left Z.mul l a = a * prodZ l.
Proof.
  revert a; induction l as [|x l IH]; intros a; simpl; [lia|]. rewrite IH. unfold prodZ; simpl. lia.
Qed.
Lemma elem_count_prod d rest : elem_count (d :: rest) = prodZ (d :: rest).
Proof. simpl. rewrite fold_left_mul. reflexivity. Qed.
Lemma prodZ_pos l : forallb (Z.leb 1) l = true -> 1 <= prodZ l.
Proof.
  induction l as [|x l IH]; simpl; [lia|]. intros H. apply andb_true_iff in H as [H1 H2].
  apply Z.leb_le in H1. specialize (IH H2). unfold prodZ in *; simpl. nia.
Qed.

Ltac destr_std dt :=
  repeat match goal with
         | H : std_type ?x = true |- _ =>
             let c := fresh "c" in let r := fresh "r" in
             destruct x as [|c r]; [discriminate H|];
             repeat (match type of H with context [match ?z with _ => _ end] => destruct z; try discriminate H end)
         end.

Lemma std_type_cases dt : std_type dt = true ->
  In dt [[66;49];[67;49];[73;52];[73;56];[85;52];[85;56];[82;52];[82;56];[88;52];[88;56]].
Proof.
  intros H. unfold std_type in H.
  repeat (match type of H with context [match ?z with _ => _ end] => destruct z; try discriminate H end);
    simpl; tauto.
Qed.

Lemma std_type_facts dt : std_type dt = true ->
  type_size_upper dt = std_size dt /\ 0 < std_size dt /\ map upper (firstn 2 dt) = dt /\ bytes_eqb dt s_MT = false
  /\ diff_type_size dt = std_size dt /\ firstn 2 dt = dt /\ lenZ dt = 2 /\ norm_type dt = dt.
Proof.
  intros H. apply std_type_cases in H. simpl in H.
  repeat (destruct H as [<-|H]; [repeat split; reflexivity|]). contradiction.
Qed.

(* what the size computation, the two-character truncation and the compound test make of a well-formed type *)
Lemma type_norm_facts v h dt : std_type (type_norm v h dt) = true ->
  type_size v (firstn 2 dt) = std_size (type_norm v h dt) /\ 0 < std_size (type_norm v h dt) /\
  firstn 2 dt = dt /\ lenZ dt = 2 /\ (h = true -> map upper dt = dt /\ std_type dt = true).
Proof.
  intros H.
  assert (G : (type_norm v h dt = dt /\ std_type dt = true) \/ (v = Cur /\ h = false)).
  { destruct v, h; simpl in *; auto. }
  destruct G as [[E Hs]|[-> ->]].
  - rewrite E. destruct (std_type_facts dt Hs) as (H1 & H2 & H3 & _ & _ & H6 & H7 & H8).
    rewrite H6. repeat split; auto.
    + destruct v; unfold type_size; rewrite ?H8; exact H1.
    + rewrite H6 in H3. exact H3.
  - simpl in *. destruct (std_type_facts _ H) as (H1 & H2 & _ & _ & _ & H6 & H7 & _).
    assert (L : length dt = 2%nat).
    { unfold lenZ in H7. destruct dt as [|c r]; simpl in *; lia. }
    destruct dt as [|c [|d [|e r]]]; simpl in L; try discriminate.
    repeat split; auto; try discriminate.
Qed.

(* copy_node on a well-formed source node overwrites label, type, dimensions and data of the output node *)
Lemma copy_node_ok v h lbl dt dims data n l0 t0 d0 da0 ks :
  node_ok v h dt dims data = true ->
  copy_node v h lbl dt dims data (Node n l0 t0 d0 da0 ks) = Ok (Node n lbl dt dims data ks).
Proof.
  unfold node_ok, copy_node. destruct (bytes_eqb dt s_MT) eqn:EMT.
  - apply bytes_eqb_eq in EMT. subst dt. intros H. apply andb_true_iff in H as [H1 H2].
    destruct dims; [|discriminate]. destruct data; [|discriminate]. simpl. destruct h; reflexivity.
  - intros H. apply andb_true_iff in H as [H H3]. apply andb_true_iff in H as [H1 H2].
    destruct (type_norm_facts v h dt H1) as (Hts & Hpos & Hf & Hlen & Hh).
    rewrite Hf in Hts. rewrite Hf.
    destruct dims as [|d rest].
    + simpl in H3. apply andb_true_iff in H3 as [H3 H4]. destruct data; [|discriminate].
      destruct h; [discriminate|]. simpl. rewrite EMT. reflexivity.
    + cbn [is_nil] in *. apply Z.eqb_eq in H3.
      unfold compute_data_size. rewrite elem_count_prod, Hts.
      pose proof (prodZ_pos _ H2) as Hp.
      assert (Hne : std_size (type_norm v h dt) * prodZ (d :: rest) =? 0 = false) by (apply Z.eqb_neq; nia).
      rewrite Hne, <- H3, Z.ltb_irrefl, Hlen.
      replace (match v with Old => false | Cur => 2 <? 2 end) with false by (destruct v; reflexivity).
      cbn [bind set_label put_dims].
      destruct h.
      * destruct (Hh eq_refl) as [Hup Hs].
        rewrite Hf, Hup, EMT, Hs. cbn [is_nil negb andb bind write_all]. reflexivity.
      * rewrite EMT. reflexivity.
Qed.

(* ---- unfolding ------------------------------------------------------------------------------------------------------------ *)
Definition follow_call (v : ver) (h : bool) (resolve : bytes -> bytes -> option node) (fuel : nat) (follow : bool)
  : bytes -> bytes -> node -> Z -> res node :=
  fun file path c d =>
    match fuel with
    | O => OutOfFuel
    | S f => match resolve file path with
             | None => Err
             | Some tgt => recurse_nodes v h resolve f follow tgt c d
             end
    end.

Lemma rn_unfold v h resolve fuel follow nm lbl dt dims data kids out depth :
  recurse_nodes v h resolve fuel follow (Node nm lbl dt dims data kids) out depth =
  bind (if depth =? 0 then Ok out else copy_node v h lbl dt dims data out) (fun out1 =>
    kids_loop (recurse_nodes v h resolve fuel follow) (follow_call v h resolve fuel follow) follow kids out1 depth).
Proof. destruct fuel; reflexivity. Qed.

Lemma rn_link v h resolve fuel follow nm f p out depth :
  recurse_nodes v h resolve fuel follow (LinkNode nm f p) out depth = Err.
Proof. destruct fuel; reflexivity. Qed.

(* ---- follow_links = 0: the copy is the identity on every well-formed tree, whatever the fuel ---------------------------- *)
Lemma keep_link_nofollow f p : keep_link f p false = negb (is_nil p).
Proof. unfold keep_link. destruct (is_nil f); simpl; rewrite ?andb_true_r; reflexivity. Qed.

(* a link record whose path is empty cannot exist in a file (cgio_create_link refuses it); the C code would treat
   such a child as a proper node *)
Fixpoint links_ok (n : node) : bool :=
  match n with
  | Node _ _ _ _ _ ks => forallb links_ok ks
  | LinkNode _ _ p => negb (is_nil p)
  end.

Lemma kids_loop_nofollow go gl ks : forall n l t d da ks0 depth, 0 <= depth ->
  Forall (fun k => links_ok k = true /\
                   (is_link k = false -> forall dp, 0 < dp -> go k (fresh (node_name k)) dp = Ok k)) ks ->
  kids_loop go gl false ks (Node n l t d da ks0) depth = Ok (Node n l t d da (ks0 ++ ks)).
Proof.
  induction ks as [|k rest IH]; intros n l t d da ks0 depth Hd HF.
  - simpl. rewrite app_nil_r. reflexivity.
  - inversion HF as [|? ? [Hl Hgo] HF']; subst. destruct k as [nm lbl dt dims data kk|nm f p].
    + cbn [kids_loop create_node bind with_new]. rewrite on_last_app.
      specialize (Hgo eq_refl (depth + 1)). cbn [node_name] in Hgo. rewrite Hgo by lia.
      cbn [bind]. rewrite IH by (auto; lia). rewrite <- app_assoc. reflexivity.
    + cbn [kids_loop]. rewrite keep_link_nofollow. cbn [links_ok] in Hl. rewrite Hl.
      cbn [create_link bind]. rewrite IH by auto. rewrite <- app_assoc. reflexivity.
Qed.

Lemma forallb_Forall {A} (f : A -> bool) l : forallb f l = true <-> Forall (fun x => f x = true) l.
Proof.
  induction l; simpl; split; intros H; auto.
  - apply andb_true_iff in H as [H1 H2]. constructor; auto. apply IHl; auto.
  - inversion H; subst. apply andb_true_iff; split; auto. apply IHl; auto.
Qed.

Lemma rn_nofollow v h resolve fuel src :
  tree_ok v h src = true -> links_ok src = true -> is_link src = false ->
  forall c l0 t0 d0 da0 ks0 depth, 0 < depth ->
  recurse_nodes v h resolve fuel false src (Node c l0 t0 d0 da0 ks0) depth =
  match src with
  | Node _ lbl dt dims data kids => Ok (Node c lbl dt dims data (ks0 ++ kids))
  | LinkNode _ _ _ => Err
  end.
Proof.
  induction src as [nm lbl dt dims data kids IH|nm f p] using node_ind2; intros Hok Hl Hnl; [|discriminate].
  intros c l0 t0 d0 da0 ks0 depth Hd. rewrite rn_unfold.
  cbn [tree_ok] in Hok. apply andb_true_iff in Hok as [Hn Hk]. cbn [links_ok] in Hl.
  assert (E : depth =? 0 = false) by (apply Z.eqb_neq; lia). rewrite E.
  rewrite (copy_node_ok _ _ _ _ _ _ _ _ _ _ _ _ Hn). cbn [bind].
  apply kids_loop_nofollow; [lia|].
  apply forallb_Forall in Hk. apply forallb_Forall in Hl.
  rewrite Forall_forall in *. intros k Hin. split; [auto|].
  intros Hkl dp Hdp. specialize (IH k Hin (Hk k Hin) (Hl k Hin) Hkl (node_name k) [] s_MT [] [] [] dp Hdp).
  unfold fresh. rewrite IH. destruct k; [reflexivity|discriminate].
Qed.

(* cgio_copy_file with follow_links = 0 into any output node: the source's children, all of them, in order,
   unchanged, are appended to the output root's children; the root's own label / type / data are not copied *)
Lemma copy_file_nofollow v h resolve fuel nm lbl dt dims data kids n l t d da ks0 :
  forallb (tree_ok v h) kids = true -> forallb links_ok kids = true ->
  copy_file v h resolve fuel false (Node nm lbl dt dims data kids) (Node n l t d da ks0) =
  Ok (Node n l t d da (ks0 ++ kids)).
Proof.
  intros Hk Hl. unfold copy_file. rewrite rn_unfold. cbn [Z.eqb bind].
  apply kids_loop_nofollow; [lia|].
  apply forallb_Forall in Hk. apply forallb_Forall in Hl. rewrite Forall_forall in *.
  intros k Hin. split; [auto|]. intros Hkl dp Hdp. unfold fresh.
  rewrite (rn_nofollow v h resolve fuel k (Hk k Hin) (Hl k Hin) Hkl) by auto.
  destruct k; [reflexivity|discriminate].
Qed.

(* ---- follow_links = 1 ------------------------------------------------------------------------------------------------------ *)
Section Follow.
Variable v : ver.
Variable h : bool.
Variable resolve : bytes -> bytes -> option node.

(* the specification: proper nodes are kept, internal links are kept as links, every external link becomes a node of
   the link's name holding the label, type, dimensions, data and (expanded) children of the node it resolves to *)
Inductive Expands : node -> node -> Prop :=
| Ex_node nm l dt d da ks ks' :
    ExpandsL ks ks' -> Expands (Node nm l dt d da ks) (Node nm l dt d da ks')
| Ex_keep nm f p :
    keep_link f p true = true -> Expands (LinkNode nm f p) (LinkNode nm f p)
| Ex_follow nm f p tgt t' :
    keep_link f p true = false -> resolve f p = Some tgt -> is_link tgt = false ->
    Expands (rename nm tgt) t' -> Expands (LinkNode nm f p) t'
with ExpandsL : list node -> list node -> Prop :=
| ExL_nil : ExpandsL [] []
| ExL_cons k k' ks ks' : Expands k k' -> ExpandsL ks ks' -> ExpandsL (k :: ks) (k' :: ks').

Lemma kids_loop_follow go gl ks : forall n l t d da ks0 depth out, 0 <= depth ->
  Forall (fun k => is_link k = false -> forall dp o, 0 < dp ->
                   go k (fresh (node_name k)) dp = Ok o -> Expands k o) ks ->
  (forall f p c dp o, 0 < dp -> keep_link f p true = false ->
                      gl f p (fresh c) dp = Ok o -> Expands (LinkNode c f p) o) ->
  kids_loop go gl true ks (Node n l t d da ks0) depth = Ok out ->
  exists ks', out = Node n l t d da (ks0 ++ ks') /\ ExpandsL ks ks'.
Proof.
  induction ks as [|k rest IH]; intros n l t d da ks0 depth out Hd HF Hgl Hrun.
  - simpl in Hrun. inversion Hrun; subst. exists []. rewrite app_nil_r. split; [reflexivity|constructor].
  - inversion HF as [|? ? Hgo HF']; subst. destruct k as [nm lbl dt dims data kk|nm f p].
    + cbn [kids_loop create_node bind with_new] in Hrun. rewrite on_last_app in Hrun.
      destruct (go (Node nm lbl dt dims data kk) (fresh nm) (depth + 1)) as [o| | |] eqn:Ego; try discriminate.
      cbn [bind] in Hrun.
      assert (Hd' : 0 <= depth + 1) by lia.
      destruct (IH _ _ _ _ _ _ _ _ Hd' HF' Hgl Hrun) as (ks' & -> & HE).
      exists (o :: ks'). rewrite <- app_assoc. split; [reflexivity|].
      constructor; auto. apply (Hgo eq_refl (depth + 1) o); [lia|exact Ego].
    + cbn [kids_loop] in Hrun. destruct (keep_link f p true) eqn:Ek.
      * cbn [create_link bind] in Hrun.
        destruct (IH _ _ _ _ _ _ _ _ Hd HF' Hgl Hrun) as (ks' & -> & HE).
        exists (LinkNode nm f p :: ks'). rewrite <- app_assoc. split; [reflexivity|].
        constructor; auto. constructor; auto.
      * cbn [create_node bind with_new] in Hrun. rewrite on_last_app in Hrun.
        destruct (gl f p (fresh nm) (depth + 1)) as [o| | |] eqn:Egl; try discriminate.
        cbn [bind] in Hrun.
        assert (Hd' : 0 <= depth + 1) by lia.
      destruct (IH _ _ _ _ _ _ _ _ Hd' HF' Hgl Hrun) as (ks' & -> & HE).
        exists (o :: ks'). rewrite <- app_assoc. split; [reflexivity|].
        constructor; auto. apply (Hgl f p nm (depth + 1) o); auto; lia.
Qed.

Hypothesis resolve_ok : forall f p t, resolve f p = Some t -> tree_ok v h t = true.

Lemma rn_follow_sound : forall fuel src,
  tree_ok v h src = true -> is_link src = false ->
  forall c l0 t0 d0 da0 ks0 depth o, 0 < depth ->
  recurse_nodes v h resolve fuel true src (Node c l0 t0 d0 da0 ks0) depth = Ok o ->
  exists ks', o = Node c (match src with Node _ l _ _ _ _ => l | _ => [] end)
                         (match src with Node _ _ dt _ _ _ => dt | _ => [] end)
                         (match src with Node _ _ _ d _ _ => d | _ => [] end)
                         (match src with Node _ _ _ _ da _ => da | _ => [] end) (ks0 ++ ks')
              /\ ExpandsL (kids_of src) ks'.
Proof.
  induction fuel as [|fuel IHf].
  - (* no budget: only trees whose external links are never reached succeed *)
    induction src as [nm lbl dt dims data kids IH|nm f p] using node_ind2; intros Hok Hnl; [|discriminate].
    intros c l0 t0 d0 da0 ks0 depth o Hd Hrun. rewrite rn_unfold in Hrun.
    cbn [tree_ok] in Hok. apply andb_true_iff in Hok as [Hn Hk].
    assert (E : depth =? 0 = false) by (apply Z.eqb_neq; lia). rewrite E in Hrun.
    rewrite (copy_node_ok _ _ _ _ _ _ _ _ _ _ _ _ Hn) in Hrun. cbn [bind] in Hrun.
    apply kids_loop_follow in Hrun; [exact Hrun|lia| |].
    + apply forallb_Forall in Hk. rewrite Forall_forall in *. intros k Hin Hkl dp o' Hdp Hgo.
      destruct (IH k Hin (Hk k Hin) Hkl _ _ _ _ _ _ _ _ Hdp Hgo) as (ks' & -> & HE).
      destruct k; [|discriminate]. simpl. constructor. exact HE.
    + intros f p c' dp o' _ _ Hgl. discriminate Hgl.
  - induction src as [nm lbl dt dims data kids IH|nm f p] using node_ind2; intros Hok Hnl; [|discriminate].
    intros c l0 t0 d0 da0 ks0 depth o Hd Hrun. rewrite rn_unfold in Hrun.
    cbn [tree_ok] in Hok. apply andb_true_iff in Hok as [Hn Hk].
    assert (E : depth =? 0 = false) by (apply Z.eqb_neq; lia). rewrite E in Hrun.
    rewrite (copy_node_ok _ _ _ _ _ _ _ _ _ _ _ _ Hn) in Hrun. cbn [bind] in Hrun.
    apply kids_loop_follow in Hrun; [exact Hrun|lia| |].
    + apply forallb_Forall in Hk. rewrite Forall_forall in *. intros k Hin Hkl dp o' Hdp Hgo.
      destruct (IH k Hin (Hk k Hin) Hkl _ _ _ _ _ _ _ _ Hdp Hgo) as (ks' & -> & HE).
      destruct k; [|discriminate]. simpl. constructor. exact HE.
    + intros f p c' dp o' Hdp Hkeep Hgl. unfold follow_call in Hgl.
      destruct (resolve f p) as [tgt|] eqn:Er; [|discriminate].
      destruct tgt as [tn tl tdt tdims tdata tk|? ? ?]; [|rewrite rn_link in Hgl; discriminate].
      unfold fresh in Hgl.
      destruct (IHf _ (resolve_ok _ _ _ Er) eq_refl _ _ _ _ _ _ _ _ Hdp Hgl) as (ks' & -> & HE).
      simpl in HE. rewrite app_nil_l.
      eapply Ex_follow; eauto. simpl. constructor. exact HE.
Qed.

Lemma copy_file_follow_sound fuel nm lbl dt dims data kids n l t d da ks0 o :
  forallb (tree_ok v h) kids = true ->
  copy_file v h resolve fuel true (Node nm lbl dt dims data kids) (Node n l t d da ks0) = Ok o ->
  exists ks', o = Node n l t d da (ks0 ++ ks') /\ ExpandsL kids ks'.
Proof.
  intros Hk Hrun. unfold copy_file in Hrun. rewrite rn_unfold in Hrun. cbn [Z.eqb bind] in Hrun.
  apply kids_loop_follow in Hrun; [exact Hrun|lia| |].
  - apply forallb_Forall in Hk. rewrite Forall_forall in *. intros k Hin Hkl dp o' Hdp Hgo.
    unfold fresh in Hgo.
    destruct (rn_follow_sound fuel k (Hk k Hin) Hkl _ _ _ _ _ _ _ _ Hdp Hgo) as (ks' & -> & HE).
    destruct k; [|discriminate]. simpl. constructor. exact HE.
  - intros f p c' dp o' Hdp Hkeep Hgl. unfold follow_call in Hgl.
    destruct fuel as [|fuel]; [discriminate|].
    destruct (resolve f p) as [tgt|] eqn:Er; [|discriminate].
    destruct tgt as [tn tl tdt tdims tdata tk|? ? ?]; [|rewrite rn_link in Hgl; discriminate].
    unfold fresh in Hgl.
    destruct (rn_follow_sound fuel _ (resolve_ok _ _ _ Er) eq_refl _ _ _ _ _ _ _ _ Hdp Hgl) as (ks' & -> & HE).
    simpl in HE. rewrite app_nil_l.
    eapply Ex_follow; eauto. simpl. constructor. exact HE.
Qed.
End Follow.

(* ---- the entry points ---------------------------------------------------------------------------------------------------------- *)
Lemma get_set_same w f r : get_file (set_file w f r) f = Some r.
Proof.
  induction w as [|[g r0] w IH]; simpl.
  - rewrite bytes_eqb_refl. reflexivity.
  - destruct (bytes_eqb g f) eqn:E; simpl.
    + rewrite bytes_eqb_refl. reflexivity.
    + rewrite E. exact IH.
Qed.
Lemma bytes_eqb_sym a b : bytes_eqb a b = bytes_eqb b a.
Proof.
  destruct (bytes_eqb a b) eqn:E1, (bytes_eqb b a) eqn:E2; auto.
  - apply bytes_eqb_eq in E1. subst. rewrite bytes_eqb_refl in E2. discriminate.
  - apply bytes_eqb_eq in E2. subst. rewrite bytes_eqb_refl in E1. discriminate.
Qed.
Lemma get_set_other w f g r : bytes_eqb f g = false -> get_file (set_file w f r) g = get_file w g.
Proof.
  intros Hfg. induction w as [|[k r0] w IH]; simpl.
  - rewrite Hfg. reflexivity.
  - destruct (bytes_eqb k f) eqn:E; simpl.
    + apply bytes_eqb_eq in E. subst k. rewrite Hfg. reflexivity.
    + destruct (bytes_eqb k g); auto.
Qed.

Definition with_kids (root : node) (ks : list node) : node :=
  match root with Node n l t d da _ => Node n l t d da ks | LinkNode _ _ _ => root end.

(* cgio_copy_file / cg_save_as / cgnsconvert without link expansion: the new file holds the source's children *)
Lemma do_copy_file_nofollow v fuel w src dst h r :
  get_file w src = Some r -> is_link r = false ->
  kids_ok v h r = true -> forallb links_ok (kids_of r) = true ->
  do_copy_file v fuel w src dst h false = Ok (set_file w dst (with_kids (new_root h) (kids_of r))).
Proof.
  intros Hg Hnl Hk Hl. unfold do_copy_file. rewrite Hg.
  destruct r as [nm lbl dt dims data kids|]; [|discriminate].
  unfold kids_ok in Hk. simpl in Hk, Hl.
  destruct h; unfold new_root, hdf5_root, adf_root;
    rewrite copy_file_nofollow by assumption; reflexivity.
Qed.

(* ... with link expansion: whenever the copy succeeds, the new file holds the expansion of the source's children *)
Lemma do_copy_file_follow v fuel w src dst h r w' :
  get_file w src = Some r -> kids_ok v h r = true ->
  (forall f p t, resolve_in w src f p = Some t -> tree_ok v h t = true) ->
  do_copy_file v fuel w src dst h true = Ok w' ->
  exists ks', w' = set_file w dst (with_kids (new_root h) ks') /\
              ExpandsL (resolve_in w src) (kids_of r) ks'.
Proof.
  intros Hg Hk Hres Hrun. unfold do_copy_file in Hrun. rewrite Hg in Hrun.
  destruct (copy_file v h (resolve_in w src) fuel true r (new_root h)) as [o| | |] eqn:E; try discriminate.
  cbn [bind] in Hrun. inversion Hrun; subst w'.
  destruct r as [nm lbl dt dims data kids|nm f p].
  - unfold kids_ok in Hk. simpl in Hk.
    destruct h; unfold new_root, hdf5_root, adf_root in *;
      (destruct (copy_file_follow_sound _ _ _ Hres _ _ _ _ _ _ _ _ _ _ _ _ _ _ Hk E) as (ks' & -> & HE);
       exists ks'; split; [reflexivity|exact HE]).
  - unfold copy_file in E. rewrite rn_link in E. discriminate.
Qed.

(* rewrite_file (cgio_compress_file, compress-on-close, cgnscompress): the named file is replaced by a file of the
   same type whose children are the source's *)
Lemma rewrite_file_preserves v fuel w src filename h r :
  get_file w src = Some r -> is_link r = false ->
  kids_ok v h r = true -> forallb links_ok (kids_of r) = true ->
  exists w', rewrite_file v fuel w src filename h = Ok w' /\
             get_file w' filename = Some (with_kids (new_root h) (kids_of r)) /\
             (forall g, bytes_eqb filename g = false -> get_file w' g = get_file w g).
Proof.
  intros Hg Hnl Hk Hl. eexists. split; [apply do_copy_file_nofollow; eauto|]. split.
  - apply get_set_same.
  - intros g Hne. apply get_set_other; auto.
Qed.

(* ---- the corners repaired in /repo: what the code does now (Cur) and what it did (Old) ---------------------------------------------- *)
Definition w_lower : node :=       (* /N1 : type "r8", dimensions (2), 16 bytes -- a legal ADF node *)
  Node [] [] s_MT [] [] [Node [78;49] [76] [114;56] [2] [1;2;3;4;5;6;7;8;9;10;11;12;13;14;15;16] []].
(* before cb07d24: size 0, the copy succeeded without the data *)
Lemma lowercase_type_data_dropped_old :
  exists src out, copy_file Old false (fun _ _ => None) 0 false src adf_root = Ok out /\
                  kids_of out = [Node [78;49] [76] [114;56] [2] [] []] /\ kids_of out <> kids_of src.
Proof. exists w_lower. eexists. split; [vm_compute; reflexivity|]. split; [reflexivity|]. simpl. discriminate. Qed.
(* now: the same node is inside the domain of the general theorem (ADF destination keeps the spelling) ... *)
Lemma lowercase_type_copied :
  forallb (tree_ok Cur false) (kids_of w_lower) = true /\ forallb (tree_ok Old false) (kids_of w_lower) = false /\
  copy_file Cur false (fun _ _ => None) 0 false w_lower adf_root = Ok (match adf_root with
                                                                       | Node n l t d da _ => Node n l t d da (kids_of w_lower)
                                                                       | x => x end).
Proof. split; [reflexivity|]. split; [reflexivity|]. vm_compute. reflexivity. Qed.
(* ... and into an HDF5 file, which stores upper-case names only, it arrives as "R8" with all of its data *)
Lemma lowercase_type_to_hdf5 :
  exists out, copy_file Cur true (fun _ _ => None) 0 false w_lower hdf5_root = Ok out /\
              kids_of out = [Node [78;49] [76] [82;56] [2] [1;2;3;4;5;6;7;8;9;10;11;12;13;14;15;16] []].
Proof. eexists. split; vm_compute; reflexivity. Qed.

Definition w_compound : node :=    (* /N1 : type "I4,R8", dimensions (2): 2 x 12 bytes in ADF *)
  Node [] [] s_MT [] [] [Node [78;49] [76] [73;52;44;82;56] [2] (repeat 65 24) []].
(* before 3a1c414: buffer sized from the first two characters, the read overran it *)
Lemma compound_type_overflow_old :
  exists src, copy_file Old false (fun _ _ => None) 0 false src adf_root = Overflow.
Proof. exists w_compound. vm_compute. reflexivity. Qed.
(* now: EVERY node whose type string goes on after two characters and that has data to read makes cgio_copy_node
   return an error before anything is written to the output node; the copy as a whole reports the error *)
Lemma copy_node_compound_err h lbl dt dims data out :
  is_nil dims = false -> compute_data_size Cur (firstn 2 dt) dims <> 0 -> 2 < lenZ dt ->
  copy_node Cur h lbl dt dims data out = Err.
Proof.
  intros Hd Hs Hl. unfold copy_node. rewrite Hd.
  apply Z.eqb_neq in Hs. rewrite Hs. apply Z.ltb_lt in Hl. rewrite Hl. reflexivity.
Qed.
Lemma compound_type_reports_error :
  copy_file Cur false (fun _ _ => None) 0 false w_compound adf_root = Err /\
  copy_file Cur true (fun _ _ => None) 0 false w_compound hdf5_root = Err.
Proof. split; vm_compute; reflexivity. Qed.

(* ---- known finding: follow_links and an internal link inside an externally linked subtree -------------------------------------------
   file B: /X (label LX) with child K -> /Y (internal link), /Y (label YLabel, I4 data);
   file A: /P/L -> B:/X (external link), /Y (label OtherY) *)
Definition I4 : bytes := [73;52].
Definition fileB : node := Node [] [] s_MT [] []
  [Node [88] [76;88] s_MT [] [] [LinkNode [75] [] [47;89]];
   Node [89] [89;76;97;98;101;108] I4 [2] [1;0;0;0;2;0;0;0] []].
Definition fileA : node := Node [] [] s_MT [] []
  [Node [80] [] s_MT [] [] [LinkNode [76] [66] [47;88]];
   Node [89] [79;116;104;101;114;89] s_MT [] [] []].
Definition worldAB : world := [([65], fileA); ([66], fileB)].
Lemma follow_nested_internal_link_misdirected :
  exists w src dst w', get_file w src = Some fileA /\
    cgnsconvert Cur 4 w src dst false true = Ok w' /\
    full_view 8 w' dst (match get_file w' dst with Some r => r | None => fileA end) <>
    full_view 8 w src fileA /\
    full_view 8 w src fileA <> None.
Proof.
  exists worldAB, [65], [67]. eexists. split; [reflexivity|]. split; [vm_compute; reflexivity|].
  split; vm_compute; discriminate.
Qed.

(* a tree that needs no repair, to show the hypotheses of the positive theorems are satisfiable *)
Definition sample_tree : node := Node [] [] s_MT [] []
  [Node [97] [76;97] I4 [2] [1;0;0;0;2;0;0;0] [Node [99] [] s_MT [] [] []; LinkNode [108] [] [47;97]];
   Node [98] [] [114;56] [1;1] [0;0;0;0;0;0;240;63] [];
   LinkNode [109] [66] [47;89]].

(* =====================================================================================================================
   cgnsdiff, every option set (-c -i -d -f, with / without -r), matching code MCur (= /repo since 180fd8e): the bisection
   finds what a scan finds when the list is sorted by the key it searches with; the matching loop pairs exactly the
   children with equal keys and never leaves the arrays; the output is empty iff the two forests are equal up to the
   order of children and up to the normalisation of names; a forest compared with itself is silent whatever the keys
   ===================================================================================================================== *)
Module DiffP.
Definition strip (n : node) : node := rename [] n.

(* ---- induction on trees ------------------------------------------------------------------------------------ *)
Section NodeInd.
Variable P : node -> Prop.
Hypothesis HN : forall nm l dt d da ks, Forall P ks -> P (Node nm l dt d da ks).
Hypothesis HL : forall nm f p, P (LinkNode nm f p).
Fixpoint node_ind2 (n : node) : P n :=
  match n with
  | Node nm l dt d da ks =>
      HN nm l dt d da ks ((fix go (ks : list node) : Forall P ks :=
                             match ks with
                             | [] => Forall_nil P
                             | k :: r => Forall_cons k (node_ind2 k) (go r)
                             end) ks)
  | LinkNode nm f p => HL nm f p
  end.
End NodeInd.

(* ---- byte strings -------------------------------------------------------------------------------------------- *)
Lemma bytes_eqb_refl a : bytes_eqb a a = true.
Proof. induction a; simpl; auto. rewrite Z.eqb_refl; auto. Qed.
Lemma bytes_eqb_eq a b : bytes_eqb a b = true <-> a = b.
Proof.
  split; [|intros ->; apply bytes_eqb_refl].
  revert b; induction a as [|x a IH]; intros [|y b]; simpl; try discriminate; auto.
  intros H. apply andb_true_iff in H as [H1 H2]. apply Z.eqb_eq in H1. f_equal; auto.
Qed.
Lemma bytes_eqb_neq a b : bytes_eqb a b = false <-> a <> b.
Proof.
  split.
  - intros H E. apply bytes_eqb_eq in E. congruence.
  - intros H. destruct (bytes_eqb a b) eqn:E; auto. apply bytes_eqb_eq in E. contradiction.
Qed.
Definition bytes_dec : forall a b : bytes, {a = b} + {a <> b} := list_eq_dec Z.eq_dec.

Lemma nodup_names_NoDup l : nodup_names l = true -> NoDup l.
Proof.
  induction l as [|x r IH]; simpl; intros H; [constructor|].
  apply andb_true_iff in H as [H1 H2]. constructor; auto.
  intros I. apply negb_true_iff in H1.
  assert (existsb (bytes_eqb x) r = true) by (apply existsb_exists; exists x; split; auto using bytes_eqb_refl).
  congruence.
Qed.

(* ---- strcmp order ------------------------------------------------------------------------------------------------ *)
Lemma ltb_irrefl a : bytes_ltb a a = false.
Proof. induction a; simpl; auto. rewrite Z.ltb_irrefl. auto. Qed.
Lemma ltb_trans a : forall b c, bytes_ltb a b = true -> bytes_ltb b c = true -> bytes_ltb a c = true.
Proof.
  induction a as [|x a IH]; intros [|y b] [|z c]; simpl; try discriminate; auto.
  destruct (Z.ltb_spec x y), (Z.ltb_spec y x), (Z.ltb_spec y z), (Z.ltb_spec z y),
    (Z.ltb_spec x z), (Z.ltb_spec z x); intros Ha Hb; try discriminate; try lia; eauto.
Qed.
Lemma ltb_trich a : forall b, bytes_ltb a b = false -> bytes_ltb b a = false -> a = b.
Proof.
  induction a as [|x a IH]; intros [|y b]; simpl; try discriminate; auto.
  destruct (Z.ltb_spec x y), (Z.ltb_spec y x); intros Ha Hb; try discriminate; try lia.
  f_equal; [lia | eauto].
Qed.
Lemma ltb_asym a b : bytes_ltb a b = true -> bytes_ltb b a = false.
Proof.
  intros H. destruct (bytes_ltb b a) eqn:E; auto.
  pose proof (ltb_trans _ _ _ H E) as C. rewrite ltb_irrefl in C. discriminate.
Qed.

(* ---- lists strictly sorted by a key ---------------------------------------------------------------------------- *)
Section Keyed.
Context {A : Type} (f : A -> bytes).
Fixpoint ksorted (l : list A) : Prop :=
  match l with
  | [] => True
  | x :: r => (forall y, In y r -> bytes_ltb (f x) (f y) = true) /\ ksorted r
  end.
Lemma ksorted_unique l1 : forall l2,
  ksorted l1 -> ksorted l2 -> (forall x, In x l1 <-> In x l2) -> l1 = l2.
Proof.
  induction l1 as [|x1 r1 IH]; intros [|x2 r2] S1 S2 H.
  - reflexivity.
  - destruct (proj2 (H x2) (or_introl eq_refl)).
  - destruct (proj1 (H x1) (or_introl eq_refl)).
  - destruct S1 as [A1 S1], S2 as [A2 S2].
    assert (x1 = x2).
    { destruct (proj1 (H x1) (or_introl eq_refl)) as [E|I1]; auto.
      destruct (proj2 (H x2) (or_introl eq_refl)) as [E|I2]; auto.
      apply A2 in I1. apply A1 in I2. rewrite (ltb_asym _ _ I1) in I2. discriminate. }
    subst x2. f_equal. apply IH; auto. intros y; split; intros I.
    + destruct (proj1 (H y) (or_intror I)) as [E|?]; auto. subst y.
      apply A1 in I. rewrite ltb_irrefl in I; discriminate.
    + destruct (proj2 (H y) (or_intror I)) as [E|?]; auto. subst y.
      apply A2 in I. rewrite ltb_irrefl in I; discriminate.
Qed.
End Keyed.


Lemma ksorted_map {A} (f : A -> bytes) l : ksorted (fun x => x) (map f l) -> ksorted f l.
Proof.
  induction l as [|x r IH]; simpl; auto. intros [H1 H2]. split; auto.
  intros y Hy. apply H1. apply in_map; auto.
Qed.
Lemma lt_ne a b : bytes_ltb a b = true -> a <> b.
Proof. intros H E. subst. rewrite ltb_irrefl in H. discriminate. Qed.
Lemma ksorted_app {A} (f : A -> bytes) a q b : ksorted f (a ++ q :: b) ->
  (forall g, In g a -> bytes_ltb (f g) (f q) = true) /\ (forall z, In z b -> bytes_ltb (f q) (f z) = true) /\ ksorted f b.
Proof.
  induction a as [|y a IH]; simpl.
  - intros [H1 H2]. repeat split; auto; intros g [].
  - intros [H1 H2]. destruct (IH H2) as (A1 & A2 & A3). repeat split; auto.
    intros g [<-|I]; auto. apply H1. apply in_or_app. right. left. auto.
Qed.
Lemma ksorted_NoDup {A} (f : A -> bytes) l : ksorted f l -> NoDup (map f l).
Proof.
  induction l as [|x r IH]; simpl; [constructor|]. intros [H1 H2]. constructor; auto.
  intros I. apply in_map_iff in I as (y & E & Iy). apply H1 in Iy. rewrite E, ltb_irrefl in Iy. discriminate.
Qed.
Lemma NoDup_map_inj {A B} (f : A -> B) l a b :
  NoDup (map f l) -> In a l -> In b l -> f a = f b -> a = b.
Proof.
  induction l as [|x r IH]; simpl; [tauto|]. intros H Ia Ib E. inversion H as [|? ? Hn Hd]; subst.
  destruct Ia as [->|Ia], Ib as [->|Ib]; auto.
  - exfalso. apply Hn. rewrite E. apply in_map; auto.
  - exfalso. apply Hn. rewrite <- E. apply in_map; auto.
Qed.
Lemma NoDup_map_NoDup {A B} (f : A -> B) l : NoDup (map f l) -> NoDup l.
Proof.
  induction l as [|x r IH]; simpl; intros H; constructor; inversion H; subst; auto.
  intros I. apply H2. apply in_map; auto.
Qed.

(* ---- G1: the two uses of the normalisation agree; sorting by a key; bisection ------------------------------------------- *)
Lemma keys_agree : forall o nm, sort_key o nm = find_key o nm.
Proof. reflexivity. Qed.

Section SortFacts.
Variable key : bytes -> bytes.
Lemma insert_name_by_perm x l : Permutation (insert_name_by key x l) (x :: l).
Proof.
  induction l as [|y r IH]; simpl; auto. destruct (bytes_ltb (key y) (key x)); auto.
  rewrite IH. apply perm_swap.
Qed.
Lemma sort_names_by_perm : forall l, Permutation (sort_names_by key l) l.
Proof. induction l as [|x r IH]; simpl; auto. rewrite insert_name_by_perm. auto. Qed.

Lemma insert_name_by_sorted x l :
  ksorted key l -> ~ In (key x) (map key l) -> ksorted key (insert_name_by key x l).
Proof.
  induction l as [|y r IH]; simpl.
  - intros _ _. split; [intros ? []|auto].
  - intros [H1 H2] Hn. destruct (bytes_ltb (key y) (key x)) eqn:E; simpl.
    + split; [|apply IH; auto].
      intros z Hz. apply (Permutation_in _ (insert_name_by_perm x r)) in Hz. destruct Hz as [<-|Hz]; auto.
    + assert (Hxy : bytes_ltb (key x) (key y) = true).
      { destruct (bytes_ltb (key x) (key y)) eqn:E2; auto. exfalso. apply Hn. left. symmetry. apply ltb_trich; auto. }
      split; [|split; auto]. intros z [<-|Hz]; auto. eapply ltb_trans; eauto.
Qed.
Lemma sort_names_by_sorted : forall l, NoDup (map key l) -> ksorted key (sort_names_by key l).
Proof.
  induction l as [|x r IH]; simpl; auto. intros H. inversion H as [|? ? Hn Hd]; subst.
  apply insert_name_by_sorted; auto.
  intros I. apply Hn. eapply Permutation_in; [|exact I]. apply Permutation_map. apply sort_names_by_perm.
Qed.
End SortFacts.

Lemma sort_names_by_ext k1 k2 l : (forall x, k1 x = k2 x) -> sort_names_by k1 l = sort_names_by k2 l.
Proof.
  intros H. induction l as [|x r IH]; simpl; auto. rewrite IH. generalize (sort_names_by k2 r) as m.
  induction m as [|y m IHm]; simpl; auto. rewrite !H, IHm. reflexivity.
Qed.

Lemma lenZ_app {A} (a b : list A) : lenZ (a ++ b) = lenZ a + lenZ b.
Proof. unfold lenZ. rewrite app_length. lia. Qed.
Lemma lenZ_nonneg {A} (a : list A) : 0 <= lenZ a.
Proof. unfold lenZ. lia. Qed.
Lemma lenZ_cons {A} (x : A) l : lenZ (x :: l) = 1 + lenZ l.
Proof. unfold lenZ. simpl length. lia. Qed.

Section Find.
Variable key : bytes -> bytes.

Lemma scan_none p1 l : forall i, (forall y, In y l -> key y <> p1) -> find_scan_from key p1 l i = -1.
Proof.
  induction l as [|y r IH]; simpl; auto. intros i H.
  destruct (bytes_eqb p1 (key y)) eqn:E.
  - apply bytes_eqb_eq in E. exfalso. apply (H y); auto.
  - apply IH. intros z I. apply H. auto.
Qed.
Lemma scan_first p1 a q b : forall i, key q = p1 -> (forall y, In y a -> key y <> p1) ->
  find_scan_from key p1 (a ++ q :: b) i = i + lenZ a.
Proof.
  induction a as [|y r IH]; simpl; intros i Hq H.
  - rewrite Hq, bytes_eqb_refl. unfold lenZ; simpl; lia.
  - destruct (bytes_eqb p1 (key y)) eqn:E.
    + apply bytes_eqb_eq in E. exfalso. apply (H y); auto.
    + rewrite IH by auto. unfold lenZ; simpl length. lia.
Qed.
Lemma scan_at p1 l j i : ksorted key l -> (j < length l)%nat -> key (nth j l []) = p1 ->
  find_scan_from key p1 l i = i + Z.of_nat j.
Proof.
  intros S Hj Hk. destruct (nth_split l [] Hj) as (a & b & E & La).
  set (q := nth j l []) in *. rewrite E in S. apply ksorted_app in S as (S1 & _ & _).
  rewrite E, scan_first; auto.
  - unfold lenZ. lia.
  - intros y I. rewrite <- Hk. apply lt_ne. auto.
Qed.
Lemma scan_all_out p1 l i :
  (forall j, 0 <= j < lenZ l -> key (nth (Z.to_nat j) l []) <> p1) -> find_scan_from key p1 l i = -1.
Proof.
  intros H. apply scan_none. intros y I. destruct (In_nth _ _ [] I) as (n & Hn & <-).
  specialize (H (Z.of_nat n)). rewrite Nat2Z.id in H. apply H. unfold lenZ. lia.
Qed.
Lemma ksorted_nth_lt l : ksorted key l -> forall i j, (i < j < length l)%nat ->
  bytes_ltb (key (nth i l [])) (key (nth j l [])) = true.
Proof.
  induction l as [|x r IH]; simpl; [intros _ i j Hij; lia | intros [H1 H2] i j Hij].
  destruct i, j; try lia.
  - apply H1. apply nth_In. lia.
  - apply IH; auto. lia.
Qed.

Lemma walk_back_sorted p1 l fuel mid : ksorted key l -> 0 <= mid < lenZ l ->
  key (nth (Z.to_nat mid) l []) = p1 -> walk_back key fuel p1 l mid = mid.
Proof.
  intros S Hm Hk. destruct fuel as [|f]; cbn [walk_back]; auto.
  destruct (Z.ltb_spec 0 mid) as [Hpos|_]; cbn [andb]; auto.
  destruct (bytes_eqb p1 (key (nth (Z.to_nat (mid - 1)) l []))) eqn:E; auto.
  apply bytes_eqb_eq in E. exfalso.
  assert (L : bytes_ltb (key (nth (Z.to_nat (mid - 1)) l [])) (key (nth (Z.to_nat mid) l [])) = true)
    by (apply ksorted_nth_lt; auto; unfold lenZ in *; lia).
  rewrite <- E, Hk, ltb_irrefl in L. discriminate.
Qed.

Lemma bisect_correct m p1 l : ksorted key l -> forall fuel lo hi,
  0 <= lo -> hi <= lenZ l - 1 -> hi - lo + 1 < Z.of_nat fuel ->
  (forall j, 0 <= j < lenZ l -> j < lo \/ hi < j -> key (nth (Z.to_nat j) l []) <> p1) ->
  bisect m key fuel p1 l lo hi = find_scan_from key p1 l 0.
Proof.
  intros S. induction fuel as [|f IH]; intros lo hi Hlo Hhi Hf Hout; cbn [bisect].
  - symmetry. apply scan_all_out. intros j Hj. apply Hout; auto. lia.
  - destruct (Z.ltb_spec hi lo) as [Hlt|Hge].
    + symmetry. apply scan_all_out. intros j Hj. apply Hout; auto. lia.
    + set (mid := (lo + hi) / 2).
      assert (Hmid : lo <= mid <= hi).
      { unfold mid. pose proof (Z.div_mod (lo + hi) 2 ltac:(lia)).
        pose proof (Z.mod_pos_bound (lo + hi) 2 ltac:(lia)). lia. }
      assert (Hm : (Z.to_nat mid < length l)%nat) by (unfold lenZ in *; lia).
      destruct (bytes_eqb p1 (key (nth (Z.to_nat mid) l []))) eqn:E.
      * apply bytes_eqb_eq in E. rewrite (scan_at p1 l (Z.to_nat mid) 0); auto.
        destruct m; [lia|]. rewrite walk_back_sorted; auto; unfold lenZ in *; lia.
      * apply bytes_eqb_neq in E.
        destruct (bytes_ltb (key (nth (Z.to_nat mid) l [])) p1) eqn:L.
        -- apply IH; try lia. intros j Hj Hc.
           destruct (Z.le_gt_cases lo j) as [Hj1|Hj1]; [|apply Hout; auto; lia].
           destruct (Z.le_gt_cases j hi) as [Hj2|Hj2]; [|apply Hout; auto; lia].
           destruct (Z.eq_dec j mid) as [->|Hne]; [congruence|].
           assert (Hl : bytes_ltb (key (nth (Z.to_nat j) l [])) (key (nth (Z.to_nat mid) l [])) = true)
             by (apply ksorted_nth_lt; auto; lia).
           apply lt_ne. eapply ltb_trans; eauto.
        -- assert (L2 : bytes_ltb p1 (key (nth (Z.to_nat mid) l [])) = true).
           { destruct (bytes_ltb p1 (key (nth (Z.to_nat mid) l []))) eqn:L2; auto.
             exfalso. apply E. apply ltb_trich; auto. }
           apply IH; try lia. intros j Hj Hc.
           destruct (Z.le_gt_cases lo j) as [Hj1|Hj1]; [|apply Hout; auto; lia].
           destruct (Z.le_gt_cases j hi) as [Hj2|Hj2]; [|apply Hout; auto; lia].
           destruct (Z.eq_dec j mid) as [->|Hne]; [congruence|].
           assert (Hl : bytes_ltb (key (nth (Z.to_nat mid) l [])) (key (nth (Z.to_nat j) l [])) = true)
             by (apply ksorted_nth_lt; auto; unfold lenZ in *; lia).
           intros C. symmetry in C. revert C. apply lt_ne. eapply ltb_trans; eauto.
Qed.

(* FALSE for l = [] : both probes read the default entry [] (in C: out of bounds), e.g. find_name id [] [] = 0 *)
Theorem find_name_correct : forall m l name,
  l <> [] -> ksorted key l -> find_name m key name l = find_scan key name l.
Proof.
  intros m l name Hne S. unfold find_name, find_scan.
  assert (Hlen : 1 <= lenZ l) by (destruct l; [congruence|unfold lenZ; simpl length; lia]).
  destruct (bytes_eqb (key name) (key (nth 0 l []))) eqn:E0.
  - apply bytes_eqb_eq in E0. rewrite (scan_at (key name) l 0 0); auto. unfold lenZ in Hlen. lia.
  - destruct m; cbn [andb].
    + destruct (bytes_eqb (key name) (key (nth (Z.to_nat (lenZ l - 1)) l []))) eqn:E1.
      * apply bytes_eqb_eq in E1. rewrite (scan_at (key name) l (Z.to_nat (lenZ l - 1)) 0); auto; unfold lenZ in *; lia.
      * apply bisect_correct; auto; try lia. unfold lenZ. lia.
    + apply bisect_correct; auto; try lia. unfold lenZ. lia.
Qed.

(* the search answers -1 or an index of its list, whatever the list (sorted or not) *)
Lemma walk_back_bound p1 l : forall fuel mid, 0 <= mid -> 0 <= walk_back key fuel p1 l mid <= mid.
Proof.
  induction fuel as [|f IH]; intros mid Hm; cbn [walk_back]; [lia|].
  destruct (Z.ltb_spec 0 mid) as [Hpos|_]; cbn [andb]; [|lia].
  destruct (bytes_eqb p1 (key (nth (Z.to_nat (mid - 1)) l []))); [|lia].
  specialize (IH (mid - 1)). lia.
Qed.
Lemma bisect_bound m p1 l : forall fuel lo hi, 0 <= lo ->
  bisect m key fuel p1 l lo hi = -1 \/ 0 <= bisect m key fuel p1 l lo hi <= hi.
Proof.
  induction fuel as [|f IH]; intros lo hi Hlo; cbn [bisect]; auto.
  destruct (Z.ltb_spec hi lo) as [Hlt|Hge]; auto.
  assert (Hmid : lo <= (lo + hi) / 2 <= hi).
  { pose proof (Z.div_mod (lo + hi) 2 ltac:(lia)). pose proof (Z.mod_pos_bound (lo + hi) 2 ltac:(lia)). lia. }
  destruct (bytes_eqb p1 (key (nth (Z.to_nat ((lo + hi) / 2)) l []))).
  - right. destruct m; [lia|]. pose proof (walk_back_bound p1 l (Z.to_nat ((lo + hi) / 2)) ((lo + hi) / 2)). lia.
  - destruct (bytes_ltb (key (nth (Z.to_nat ((lo + hi) / 2)) l [])) p1).
    + apply IH. lia.
    + destruct (IH lo ((lo + hi) / 2 - 1) Hlo) as [E|B]; auto. right. lia.
Qed.
Lemma find_name_bound m name l : l <> [] -> -1 <= find_name m key name l < lenZ l.
Proof.
  intros Hne. unfold find_name.
  assert (Hlen : 1 <= lenZ l) by (destruct l; [congruence|unfold lenZ; simpl length; lia]).
  destruct (bytes_eqb (key name) (key (nth 0 l []))); [lia|].
  destruct ((match m with MOld => true | MCur => false end) &&
            bytes_eqb (key name) (key (nth (Z.to_nat (lenZ l - 1)) l []))); [lia|].
  destruct (bisect_bound m (key name) l (S (length l)) 0 (lenZ l - 1)); lia.
Qed.
End Find.

Lemma find_name_empty_list_counterexample :
  forall m, find_name m (fun x => x) [] [] = 0 /\ find_scan (fun x => x) [] [] = -1.
Proof. destruct m; split; reflexivity. Qed.

(* a mismatch really breaks it: list sorted by the raw names ("B D a c e"), searched with the case-folded key: "D" is missed *)
Theorem find_name_key_mismatch_refuted :
  exists l name, let raw := fun x : bytes => x in let fold := copy_name true false in
    NoDup (map fold l) /\ In name l /\
    find_name MCur fold name (sort_names_by raw l) <> find_scan fold name (sort_names_by raw l).
Proof.
  exists [[66];[68];[97];[99];[101]], [68]. cbv zeta. split; [|split].
  - vm_compute. repeat constructor; simpl; intuition discriminate.
  - simpl; auto.
  - vm_compute. discriminate.
Qed.

(* H5 (history): on a run of equal keys at the end of the list ("x Y y", case folded) the old search answered the LAST
   entry (its last-entry probe), the repaired one the first *)
Lemma find_name_old_vs_cur :
  let fold := copy_name true false in
  find_name MOld fold [89] [[120];[89];[121]] = 2 /\ find_name MCur fold [89] [[120];[89];[121]] = 1 /\
  find_scan fold [89] [[120];[89];[121]] = 1.
Proof. vm_compute. auto. Qed.

(* ---- sort_nodes ------------------------------------------------------------------------------------------------------ *)
Lemma insert_node_perm x l : Permutation (insert_node x l) (x :: l).
Proof.
  induction l as [|y r IH]; simpl; auto. destruct (bytes_ltb (node_name y) (node_name x)); auto.
  rewrite IH. apply perm_swap.
Qed.
Lemma sort_nodes_perm l : Permutation (sort_nodes l) l.
Proof. induction l as [|x r IH]; simpl; auto. rewrite insert_node_perm. auto. Qed.

Lemma map_insert_node x l :
  map node_name (insert_node x l) = insert_name_by (fun x => x) (node_name x) (map node_name l).
Proof.
  induction l as [|y r IH]; simpl; auto.
  destruct (bytes_ltb (node_name y) (node_name x)); simpl; congruence.
Qed.
Lemma map_sort_nodes l : map node_name (sort_nodes l) = sort_names_by (fun x => x) (map node_name l).
Proof. induction l as [|x r IH]; simpl; auto. rewrite map_insert_node, IH. reflexivity. Qed.

Lemma map_insert_commute (g : node -> node) (Hg : forall k, node_name (g k) = node_name k) x l :
  map g (insert_node x l) = insert_node (g x) (map g l).
Proof.
  induction l as [|y r IH]; simpl; auto. rewrite !Hg.
  destruct (bytes_ltb (node_name y) (node_name x)); simpl; congruence.
Qed.
Lemma map_sort_commute (g : node -> node) (Hg : forall k, node_name (g k) = node_name k) l :
  map g (sort_nodes l) = sort_nodes (map g l).
Proof. induction l as [|x r IH]; simpl; auto. rewrite map_insert_commute, IH; auto. Qed.

Lemma sort_nodes_sorted l : NoDup (map node_name l) -> ksorted node_name (sort_nodes l).
Proof.
  intros H. apply ksorted_map. rewrite map_sort_nodes. apply sort_names_by_sorted. rewrite map_id. auto.
Qed.

Lemma sort_nodes_unique l1 l2 :
  Permutation l1 l2 -> NoDup (map node_name l1) -> sort_nodes l1 = sort_nodes l2.
Proof.
  intros HP HN. apply (ksorted_unique node_name).
  - apply sort_nodes_sorted; auto.
  - apply sort_nodes_sorted. eapply Permutation_NoDup; [|exact HN]. apply Permutation_map; auto.
  - intros x. split; intros I.
    + eapply Permutation_in; [symmetry; apply sort_nodes_perm|].
      eapply Permutation_in; [exact HP|]. eapply Permutation_in; [apply sort_nodes_perm|]; auto.
    + eapply Permutation_in; [symmetry; apply sort_nodes_perm|].
      eapply Permutation_in; [symmetry; exact HP|]. eapply Permutation_in; [apply sort_nodes_perm|]; auto.
Qed.

Lemma sort_nodes_id l : ksorted node_name l -> sort_nodes l = l.
Proof.
  induction l as [|x r IH]; simpl; auto. intros [H1 H2]. rewrite IH; auto.
  destruct r as [|y r']; simpl; auto.
  rewrite (ltb_asym _ _ (H1 y (or_introl eq_refl))). reflexivity.
Qed.

Lemma in_sorted_map (g : node -> node) x ks : In x (sort_nodes (map g ks)) <-> exists k, In k ks /\ x = g k.
Proof.
  split.
  - intros I. apply (Permutation_in _ (sort_nodes_perm _)) in I. apply in_map_iff in I as (k & E & I). eauto.
  - intros (k & I & ->). apply (Permutation_in _ (Permutation_sym (sort_nodes_perm _))). apply in_map; auto.
Qed.

(* ---- canon_by / canon -------------------------------------------------------------------------------------------------- *)
Lemma canon_by_name key dd k : node_name (canon_by key dd k) = key (node_name k).
Proof. destruct k; reflexivity. Qed.
Lemma map_name_canon_by key dd ks :
  map node_name (map (canon_by key dd) ks) = map (fun k => key (node_name k)) ks.
Proof. rewrite map_map. apply map_ext. intros k. apply canon_by_name. Qed.

Theorem canon_by_perm : forall key dd nm l dt d da ks1 ks2,
  Permutation ks1 ks2 -> nodup_names (map (fun k => key (node_name k)) ks1) = true ->
  canon_by key dd (Node nm l dt d da ks1) = canon_by key dd (Node nm l dt d da ks2).
Proof.
  intros key dd nm l dt d da ks1 ks2 HP HN. simpl. f_equal. apply sort_nodes_unique.
  - apply Permutation_map; auto.
  - rewrite map_name_canon_by. apply nodup_names_NoDup; auto.
Qed.

Lemma canon_name k : node_name (canon k) = node_name k.
Proof. apply canon_by_name. Qed.
Theorem canon_perm : forall nm l dt d da ks1 ks2,
  Permutation ks1 ks2 -> nodup_names (map node_name ks1) = true ->
  canon (Node nm l dt d da ks1) = canon (Node nm l dt d da ks2).
Proof. intros. apply (canon_by_perm (fun x => x) true); auto. Qed.

Theorem canon_idem : forall t, names_unique t = true -> canon (canon t) = canon t.
Proof.
  induction t as [nm l dt d da ks IH|nm f p] using node_ind2; [|reflexivity].
  intros H. simpl in H. apply andb_true_iff in H as [H1 H2]. unfold canon. simpl. f_equal.
  fold canon.
  rewrite (map_sort_commute canon canon_name).
  assert (E : map canon (map canon ks) = map canon ks).
  { rewrite map_map. apply map_ext_in. intros k Hk.
    rewrite Forall_forall in IH. apply IH; auto. rewrite forallb_forall in H2. auto. }
  rewrite E. apply sort_nodes_id. apply sort_nodes_sorted.
  unfold canon. rewrite map_name_canon_by. apply nodup_names_NoDup; auto.
Qed.
(* ---- sizes, compare_data ------------------------------------------------------------------------------------------------ *)
Lemma fold_left_mul l a : fold_left Z.mul l a = a * prodZ l.
Proof.
  revert a; induction l as [|x l IH]; intros a; simpl; [lia|]. rewrite IH. unfold prodZ; simpl. lia.
Qed.
Lemma prodZ_pos l : forallb (Z.leb 1) l = true -> 1 <= prodZ l.
Proof.
  induction l as [|x l IH]; simpl; [lia|]. intros H. apply andb_true_iff in H as [H1 H2].
  apply Z.leb_le in H1. specialize (IH H2). unfold prodZ in *; simpl. nia.
Qed.
Lemma std_type_cases dt : std_type dt = true ->
  In dt [[66;49];[67;49];[73;52];[73;56];[85;52];[85;56];[82;52];[82;56];[88;52];[88;56]].
Proof.
  intros H. unfold std_type in H.
  repeat (match type of H with context [match ?z with _ => _ end] => destruct z; try discriminate H end);
    simpl; tauto.
Qed.
Lemma std_type_facts dt : std_type dt = true -> 0 < std_size dt /\ diff_type_size dt = std_size dt.
Proof.
  intros H. apply std_type_cases in H. simpl in H.
  repeat (destruct H as [<-|H]; [split; reflexivity|]). contradiction.
Qed.

Lemma node_ok_cases t d da : node_ok Old false t d da = true ->
  (d = [] /\ da = []) \/
  (d <> [] /\ std_type t = true /\ forallb (Z.leb 1) d = true /\ lenZ da = std_size t * prodZ d).
Proof.
  unfold node_ok, type_norm. destruct (bytes_eqb t s_MT).
  - intros H. apply andb_true_iff in H as [H1 H2]. destruct d; [|discriminate]. destruct da; [|discriminate]. auto.
  - intros H. apply andb_true_iff in H as [H H3]. apply andb_true_iff in H as [H1 H2].
    destruct d as [|x d].
    + simpl in H3. apply andb_true_iff in H3 as [H3 _]. destruct da; [|discriminate]. auto.
    + right. simpl in H3. apply Z.eqb_eq in H3. repeat split; auto. discriminate.
Qed.

Lemma firstn_lenZ {A} (l : list A) : firstn (Z.to_nat (lenZ l)) l = l.
Proof. unfold lenZ. rewrite Nat2Z.id. apply firstn_all. Qed.

(* ---- -t<tol>: the tolerance branch (exceeds_tol32 / exceeds_tol64 treated as opaque boolean functions) -------------------- *)
Lemma compare_floats_true_iff : forall tol l1 l2,
  compare_floats tol l1 l2 = true <-> exists x y, In (x, y) (combine l1 l2) /\ exceeds_tol32 x y tol = true.
Proof.
  intros tol. induction l1 as [|a r1 IH]; intros [|b r2]; cbn [compare_floats combine].
  - split; [discriminate|intros (x & y & [] & _)].
  - split; [discriminate|intros (x & y & [] & _)].
  - split; [discriminate|intros (x & y & [] & _)].
  - destruct (exceeds_tol32 a b tol) eqn:E.
    + split; auto. intros _. exists a, b. split; auto. left; auto.
    + rewrite IH. split.
      * intros (x & y & I & H). exists x, y. split; auto. right; auto.
      * intros (x & y & [C|I] & H); [injection C as <- <-; congruence|eauto].
Qed.
Lemma compare_doubles_true_iff : forall tol l1 l2,
  compare_doubles tol l1 l2 = true <-> exists x y, In (x, y) (combine l1 l2) /\ exceeds_tol64 x y tol = true.
Proof.
  intros tol. induction l1 as [|a r1 IH]; intros [|b r2]; cbn [compare_doubles combine].
  - split; [discriminate|intros (x & y & [] & _)].
  - split; [discriminate|intros (x & y & [] & _)].
  - split; [discriminate|intros (x & y & [] & _)].
  - destruct (exceeds_tol64 a b tol) eqn:E.
    + split; auto. intros _. exists a, b. split; auto. left; auto.
    + rewrite IH. split.
      * intros (x & y & I & H). exists x, y. split; auto. right; auto.
      * intros (x & y & [C|I] & H); [injection C as <- <-; congruence|eauto].
Qed.
Lemma compare_floats_false_iff tol l1 l2 :
  compare_floats tol l1 l2 = false <-> forall x y, In (x, y) (combine l1 l2) -> exceeds_tol32 x y tol = false.
Proof.
  split.
  - intros H x y I. destruct (exceeds_tol32 x y tol) eqn:E; auto.
    assert (C : compare_floats tol l1 l2 = true) by (apply compare_floats_true_iff; eauto). congruence.
  - intros H. destruct (compare_floats tol l1 l2) eqn:E; auto.
    apply compare_floats_true_iff in E as (x & y & I & C). rewrite (H x y I) in C. discriminate.
Qed.
Lemma compare_doubles_false_iff tol l1 l2 :
  compare_doubles tol l1 l2 = false <-> forall x y, In (x, y) (combine l1 l2) -> exceeds_tol64 x y tol = false.
Proof.
  split.
  - intros H x y I. destruct (exceeds_tol64 x y tol) eqn:E; auto.
    assert (C : compare_doubles tol l1 l2 = true) by (apply compare_doubles_true_iff; eauto). congruence.
  - intros H. destruct (compare_doubles tol l1 l2) eqn:E; auto.
    apply compare_doubles_true_iff in E as (x & y & I & C). rewrite (H x y I) in C. discriminate.
Qed.

Lemma groups_step n f l : groups n (S f) l =
  if (length l <? n)%nat then [] else le_val (firstn n l) :: groups n f (skipn n l).
Proof.
  cbn [groups]. rewrite firstn_length.
  destruct (Nat.ltb_spec (length l) n) as [A|A]; destruct (Nat.ltb_spec (Nat.min n (length l)) n) as [B|B]; auto; lia.
Qed.
Lemma groups_fuel n : (0 < n)%nat -> forall f1 f2 l, (length l <= f1)%nat -> (length l <= f2)%nat ->
  groups n f1 l = groups n f2 l.
Proof.
  intros Hn. induction f1 as [|f1 IH]; intros f2 l H1 H2.
  - destruct l; [|simpl in H1; lia]. destruct f2; [reflexivity|]. rewrite groups_step.
    destruct (Nat.ltb_spec (length (@nil Z)) n) as [?|C]; auto. simpl in C. lia.
  - destruct f2 as [|f2].
    + destruct l; [|simpl in H2; lia]. rewrite groups_step.
      destruct (Nat.ltb_spec (length (@nil Z)) n) as [?|C]; auto. simpl in C. lia.
    + rewrite !groups_step. destruct (Nat.ltb_spec (length l) n); auto. f_equal.
      apply IH; rewrite skipn_length; lia.
Qed.
Lemma values_cons : forall n a rest, (0 < n)%nat -> length a = n -> values n (a ++ rest) = le_val a :: values n rest.
Proof.
  intros n a rest Hn Ha. subst n. unfold values. rewrite app_length.
  destruct (length a + length rest)%nat as [|f] eqn:Ef; [lia|]. rewrite groups_step.
  destruct (Nat.ltb_spec (length (a ++ rest)) (length a)) as [C|_]; [rewrite app_length in C; lia|].
  rewrite firstn_app, skipn_app, firstn_all, skipn_all, Nat.sub_diag.
  cbn [firstn skipn]. rewrite app_nil_r. cbn [app]. f_equal. apply groups_fuel; auto; lia.
Qed.

Definition data_within (tol : Z) (dt da1 da2 : bytes) : Prop :=
  if tol_active tol && negb (diff_num_size dt =? 0) then
    (if diff_num_size dt =? 4
     then forall x y, In (x, y) (combine (values 4 da1) (values 4 da2)) -> exceeds_tol32 x y tol = false
     else forall x y, In (x, y) (combine (values 8 da1) (values 8 da2)) -> exceeds_tol64 x y tol = false)
  else da1 = da2.
(* the error flag compare_data computes on the two data arrays *)
Definition data_err (tol : Z) (dt a1 a2 : bytes) : bool :=
  if tol_active tol && negb (diff_num_size dt =? 0)
  then (if diff_num_size dt =? 4 then compare_floats tol (values 4 a1) (values 4 a2)
        else compare_doubles tol (values 8 a1) (values 8 a2))
  else negb (bytes_eqb a1 a2).
Lemma data_err_false_iff tol dt a1 a2 : data_err tol dt a1 a2 = false <-> data_within tol dt a1 a2.
Proof.
  unfold data_err, data_within. destruct (tol_active tol && negb (diff_num_size dt =? 0)).
  - destruct (diff_num_size dt =? 4); [apply compare_floats_false_iff|apply compare_doubles_false_iff].
  - rewrite negb_false_iff. apply bytes_eqb_eq.
Qed.

(* two well-formed nodes with the same label, type and (non-empty) dimensions: the data decide *)
Lemma compare_data_same_shape tol n1 n2 a1 a2 l t d da1 da2 k1 k2 :
  node_ok Old false t d da1 = true -> node_ok Old false t d da2 = true -> d <> [] ->
  compare_data true tol n1 n2 (Node a1 l t d da1 k1) (Node a2 l t d da2 k2) =
  if data_err tol t da1 da2 then [DData n1 n2] else [].
Proof.
  intros O1 O2 Hd. unfold compare_data. rewrite !bytes_eqb_refl, Nat.eqb_refl. cbn [negb orb].
  apply node_ok_cases in O1. apply node_ok_cases in O2.
  destruct O1 as [[C _]|(_ & Hs & Hp & Hl)]; [contradiction|].
  destruct O2 as [[C _]|(_ & _ & _ & Hl2)]; [contradiction|].
  destruct d as [|x d]; [contradiction|]. cbn [is_nil].
  unfold diff_data_size. cbn [is_nil]. rewrite fold_left_mul.
  destruct (std_type_facts _ Hs) as [Hpos Hds]. rewrite Hds.
  pose proof (prodZ_pos _ Hp) as Hpp.
  replace (std_size t * (1 * prodZ (x :: d))) with (lenZ da1) by lia.
  assert (Hb : 0 <? lenZ da1 = true) by (apply Z.ltb_lt; nia). rewrite Hb.
  replace (firstn (Z.to_nat (lenZ da1)) da2) with (firstn (Z.to_nat (lenZ da2)) da2)
    by (f_equal; f_equal; lia).
  rewrite !firstn_lenZ. reflexivity.
Qed.

(* with -d and any -t: silent iff label, type, dimensions equal and every numeric value pair within the tolerance formula /
   every byte equal where the type is not numeric or the tolerance not active *)
Theorem compare_data_tol_iff : forall tol n1 n2 a1 l1 t1 d1 da1 k1 a2 l2 t2 d2 da2 k2,
  node_ok Old false t1 d1 da1 = true -> node_ok Old false t2 d2 da2 = true ->
  (compare_data true tol n1 n2 (Node a1 l1 t1 d1 da1 k1) (Node a2 l2 t2 d2 da2 k2) = [] <->
   l1 = l2 /\ t1 = t2 /\ d1 = d2 /\ data_within tol t1 da1 da2).
Proof.
  intros tol n1 n2 a1 l1 t1 d1 da1 k1 a2 l2 t2 d2 da2 k2 O1 O2.
  assert (Hsame : l1 = l2 /\ t1 = t2 /\ d1 = d2 ->
            (compare_data true tol n1 n2 (Node a1 l1 t1 d1 da1 k1) (Node a2 l2 t2 d2 da2 k2) = [] <->
             data_within tol t1 da1 da2)).
  { intros (<- & <- & <-). destruct d1 as [|x d] eqn:Ed.
    - apply node_ok_cases in O1. apply node_ok_cases in O2.
      destruct O1 as [[_ ->]|(C & _)]; [|contradiction]. destruct O2 as [[_ ->]|(C & _)]; [|contradiction].
      unfold compare_data. rewrite !bytes_eqb_refl. cbn. split; auto. intros _.
      unfold data_within. destruct (tol_active tol && negb (diff_num_size t1 =? 0)); auto.
      destruct (diff_num_size t1 =? 4); intros ? ? [].
    - rewrite compare_data_same_shape by (auto; discriminate). rewrite <- data_err_false_iff.
      destruct (data_err tol t1 da1 da2); split; auto; discriminate. }
  split.
  - intros H.
    assert (E : l1 = l2 /\ t1 = t2 /\ d1 = d2).
    { unfold compare_data in H.
      destruct (bytes_eqb l1 l2) eqn:E1; [|discriminate]. apply bytes_eqb_eq in E1.
      destruct (bytes_eqb t1 t2) eqn:E2; [|discriminate]. apply bytes_eqb_eq in E2.
      cbn [negb] in H. destruct (Nat.eqb (length d1) (length d2)); [|discriminate].
      destruct (bytes_eqb d1 d2) eqn:E3; [|discriminate]. apply bytes_eqb_eq in E3. auto. }
    destruct E as (E1 & E2 & E3). repeat split; auto. apply Hsame; auto.
  - intros (E1 & E2 & E3 & W). apply Hsame; auto.
Qed.

(* in particular: ONE value (one component of one element) beyond the tolerance is reported, for every numeric type *)
Theorem one_value_beyond_tolerance_reported : forall tol n1 n2 a1 a2 l t d da1 da2 k1 k2 x y,
  node_ok Old false t d da1 = true -> node_ok Old false t d da2 = true ->
  tol_active tol = true ->
  (diff_num_size t = 4 /\ In (x, y) (combine (values 4 da1) (values 4 da2)) /\ exceeds_tol32 x y tol = true \/
   diff_num_size t = 8 /\ In (x, y) (combine (values 8 da1) (values 8 da2)) /\ exceeds_tol64 x y tol = true) ->
  compare_data true tol n1 n2 (Node a1 l t d da1 k1) (Node a2 l t d da2 k2) = [DData n1 n2].
Proof.
  intros tol n1 n2 a1 a2 l t d da1 da2 k1 k2 x y O1 O2 Ha H.
  destruct d as [|z d].
  - exfalso. apply node_ok_cases in O1. apply node_ok_cases in O2.
    destruct O1 as [[_ ->]|(C & _)]; [|contradiction]. destruct H as [(_ & [] & _)|(_ & [] & _)].
  - rewrite compare_data_same_shape by (auto; discriminate).
    assert (E : data_err tol t da1 da2 = true).
    { unfold data_err. rewrite Ha. destruct H as [(S4 & I & E)|(S8 & I & E)].
      - rewrite S4. cbn. apply compare_floats_true_iff. eauto.
      - rewrite S8. cbn. apply compare_doubles_true_iff. eauto. }
    rewrite E. reflexivity.
Qed.

(* -t means nothing for integers and characters, and nothing when it is not > 0 *)
Lemma tol_ignored_for_non_numeric : forall dd tol n1 n2 a1 l1 t1 d1 da1 k1 y,
  diff_num_size t1 = 0 ->
  compare_data dd tol n1 n2 (Node a1 l1 t1 d1 da1 k1) y = compare_data dd 0 n1 n2 (Node a1 l1 t1 d1 da1 k1) y.
Proof.
  intros dd tol n1 n2 a1 l1 t1 d1 da1 k1 y H. unfold compare_data. destruct y; auto.
  rewrite H. cbn [Z.eqb negb]. rewrite !andb_false_r. reflexivity.
Qed.
Lemma tol_active_0 : tol_active 0 = false.
Proof. reflexivity. Qed.
Lemma compare_data_tol_inactive dd tol n1 n2 x y :
  tol_active tol = false -> compare_data dd tol n1 n2 x y = compare_data dd 0 n1 n2 x y.
Proof.
  intros H. unfold compare_data. destruct x, y; auto. rewrite H, tol_active_0. reflexivity.
Qed.
Lemma data_within_inactive tol dt da1 da2 : tol_active tol = false -> (data_within tol dt da1 da2 <-> da1 = da2).
Proof. intros H. unfold data_within. rewrite H. reflexivity. Qed.

Lemma compare_data_nil tol n1 n2 a1 l1 t1 d1 da1 k1 a2 l2 t2 d2 da2 k2 :
  tol_active tol = false ->
  node_ok Old false t1 d1 da1 = true -> node_ok Old false t2 d2 da2 = true ->
  (compare_data true tol n1 n2 (Node a1 l1 t1 d1 da1 k1) (Node a2 l2 t2 d2 da2 k2) = [] <->
   l1 = l2 /\ t1 = t2 /\ d1 = d2 /\ da1 = da2).
Proof.
  intros Ht O1 O2. rewrite compare_data_tol_iff by auto. rewrite data_within_inactive by auto. reflexivity.
Qed.
Lemma compare_data_nil_false tol n1 n2 a1 l1 t1 d1 da1 k1 a2 l2 t2 d2 da2 k2 :
  (compare_data false tol n1 n2 (Node a1 l1 t1 d1 da1 k1) (Node a2 l2 t2 d2 da2 k2) = [] <->
   l1 = l2 /\ t1 = t2 /\ d1 = d2).
Proof.
  unfold compare_data. split.
  - destruct (bytes_eqb l1 l2) eqn:E1; [|discriminate]. apply bytes_eqb_eq in E1.
    destruct (bytes_eqb t1 t2) eqn:E2; [|discriminate]. apply bytes_eqb_eq in E2.
    cbn [negb]. destruct (Nat.eqb (length d1) (length d2)); [|discriminate].
    destruct (bytes_eqb d1 d2) eqn:E3; [|discriminate]. apply bytes_eqb_eq in E3. auto.
  - intros (-> & -> & ->). rewrite !bytes_eqb_refl, Nat.eqb_refl. reflexivity.
Qed.
Lemma compare_data_nil_dd dd tol n1 n2 a1 l1 t1 d1 da1 k1 a2 l2 t2 d2 da2 k2 :
  tol_active tol = false ->
  node_ok Old false t1 d1 da1 = true -> node_ok Old false t2 d2 da2 = true ->
  (compare_data dd tol n1 n2 (Node a1 l1 t1 d1 da1 k1) (Node a2 l2 t2 d2 da2 k2) = [] <->
   l1 = l2 /\ t1 = t2 /\ d1 = d2 /\ (if dd then da1 else []) = (if dd then da2 else [])).
Proof.
  intros Ht O1 O2. destruct dd.
  - apply compare_data_nil; auto.
  - rewrite compare_data_nil_false. tauto.
Qed.

(* ---- the matching loop: what it prints ------------------------------------------------------------------------------------ *)
Lemma skipn_lenZ_app {A} (a b : list A) : skipn (Z.to_nat (lenZ a)) (a ++ b) = b.
Proof.
  unfold lenZ. rewrite Nat2Z.id. rewrite skipn_app, skipn_all, Nat.sub_diag. reflexivity.
Qed.
Lemma nil_iff_no_in {A} (l : list A) : l = [] <-> forall x, ~ In x l.
Proof.
  split; [intros -> x []|]. destruct l as [|y r]; auto. intros H. destruct (H y). left. auto.
Qed.

Section LoopSpec.
Variable key : bytes -> bytes.
Variable rec : bytes -> bytes -> list dline.
Variables nm1 nm2 : bytes.

(* no entry of c has the key of p *)
Definition unm (p : bytes) (c : list bytes) : Prop := forall q, In q c -> key q <> key p.

(* the lines printed for two lists of children names: the comparison of every pair with equal keys, "<" for every
   name of the first list without partner, ">" for every name of the second list without partner *)
Definition loop_spec (c1 c2 : list bytes) (x : dline) : Prop :=
  (exists p q, In p c1 /\ In q c2 /\ key p = key q /\ In x (rec p q)) \/
  (exists p, x = DLeft (slash nm1 p) /\ In p c1 /\ unm p c2) \/
  (exists q, x = DRight (slash nm2 q) /\ In q c2 /\ unm q c1).

Lemma key_split p c : unm p c \/ exists a q b, c = a ++ q :: b /\ key q = key p /\ unm p a.
Proof.
  induction c as [|y r IH]; [left; intros ? []|].
  destruct (bytes_dec (key y) (key p)) as [E|N].
  - right. exists [], y, r. split; [reflexivity|split; auto]. intros ? [].
  - destruct IH as [U|(a & q & b & -> & Hq & Ua)].
    + left. intros z [<-|I]; auto.
    + right. exists (y :: a), q, b. split; [reflexivity|split; auto]. intros z [<-|I]; auto.
Qed.

Lemma loop_spec_incl c1 c2 c1' c2' x :
  (forall p, In p c1 <-> In p c1') -> (forall q, In q c2 <-> In q c2') ->
  loop_spec c1 c2 x -> loop_spec c1' c2' x.
Proof.
  intros H1 H2 [(p & q & I1 & I2 & E & Ix)|[(p & -> & I1 & U)|(q & -> & I2 & U)]].
  - left. exists p, q. repeat split; auto; [apply H1|apply H2]; auto.
  - right; left. exists p. repeat split; [apply H1; auto|]. intros z Iz. apply U, H2; auto.
  - right; right. exists q. repeat split; [apply H2; auto|]. intros z Iz. apply U, H1; auto.
Qed.
Lemma loop_spec_perm c1 c2 c1' c2' x :
  (forall p, In p c1 <-> In p c1') -> (forall q, In q c2 <-> In q c2') ->
  (loop_spec c1 c2 x <-> loop_spec c1' c2' x).
Proof.
  intros H1 H2. split; apply loop_spec_incl; auto; intros z; symmetry; auto.
Qed.
Lemma loop_spec_nil_l c2 x : In x (map (fun q => DRight (slash nm2 q)) c2) <-> loop_spec [] c2 x.
Proof.
  rewrite in_map_iff. split.
  - intros (q & <- & I). right; right. exists q. repeat split; auto. intros ? [].
  - intros [(p & q & [] & _)|[(p & _ & [] & _)|(q & -> & I & _)]]. eauto.
Qed.
Lemma loop_spec_nil_r c1 x : In x (map (fun p => DLeft (slash nm1 p)) c1) <-> loop_spec c1 [] x.
Proof.
  rewrite in_map_iff. split.
  - intros (p & <- & I). right; left. exists p. repeat split; auto. intros ? [].
  - intros [(p & q & _ & [] & _)|[(p & -> & I & _)|(q & _ & [] & _)]]. eauto.
Qed.

Lemma ksorted_suffix {A} (f : A -> bytes) (a b : list A) : ksorted f (a ++ b) -> ksorted f b.
Proof. induction a as [|y a IH]; simpl; auto. intros [_ H]. auto. Qed.

Lemma diff_loop_spec_gen c2 : forall l1 done2 todo2,
  c2 = done2 ++ todo2 -> ksorted key todo2 -> ksorted key l1 ->
  forall x, In x (diff_loop MCur false key rec c2 nm1 nm2 l1 (lenZ done2)) <-> loop_spec l1 todo2 x.
Proof.
  induction l1 as [|p rest IH]; intros done2 todo2 Hc S2 S1 x; cbn [diff_loop].
  - assert (Hsk : skipn (Z.to_nat (lenZ done2)) c2 = todo2) by (rewrite Hc; apply skipn_lenZ_app).
    rewrite Hsk. apply loop_spec_nil_l.
  - assert (Hsk : skipn (Z.to_nat (lenZ done2)) c2 = todo2) by (rewrite Hc; apply skipn_lenZ_app).
    rewrite Hsk.
    assert (Hlen : lenZ c2 = lenZ done2 + lenZ todo2) by (rewrite Hc; apply lenZ_app).
    pose proof (lenZ_nonneg done2) as Hd0.
    destruct S1 as [Rg S1].
    destruct (key_split p todo2) as [Ut|(gap & q & b & Et & Hq & Ug)].
    + assert (Hn : (if lenZ done2 <? lenZ c2
                    then if 0 <=? find_name MCur key p todo2 then find_name MCur key p todo2 + lenZ done2
                         else find_name MCur key p todo2
                    else -1) = -1).
      { destruct (Z.ltb_spec (lenZ done2) (lenZ c2)) as [Hlt|_]; auto.
        assert (Hne : todo2 <> []) by (intros C; rewrite C in Hlen; change (lenZ (@nil bytes)) with 0 in Hlen; lia).
        rewrite (find_name_correct key MCur todo2 p Hne S2). unfold find_scan.
        rewrite scan_none by (intros y I; apply Ut; auto). reflexivity. }
      rewrite Hn.
      change (-1 <? 0) with true. cbv iota. cbn [In].
      rewrite (IH done2 todo2 Hc S2 S1).
      unfold loop_spec. split.
      * intros [<-|[(p' & q' & I1 & I2 & E & Ix)|[(p' & -> & I1 & U1)|(q' & -> & I2 & U2)]]].
        -- right; left. exists p. repeat split; auto. left; auto.
        -- left. exists p', q'. repeat split; auto. right; auto.
        -- right; left. exists p'. repeat split; auto. right; auto.
        -- right; right. exists q'. repeat split; auto. intros z [<-|I]; auto.
           intros C. apply (Ut q' I2). auto.
      * intros [(p' & q' & [<-|I1] & I2 & E & Ix)|[(p' & -> & [<-|I1] & U1)|(q' & -> & I2 & U2)]].
        -- exfalso. apply (Ut q' I2). auto.
        -- right; left. exists p', q'. auto.
        -- left; auto.
        -- right; right; left. exists p'. auto.
        -- right; right; right. exists q'. repeat split; auto. intros z I; apply U2; right; auto.
    + assert (Hne : todo2 <> []) by (rewrite Et; destruct gap; discriminate).
      assert (Hab : c2 = (done2 ++ gap) ++ q :: b) by (rewrite Hc, Et, app_assoc; reflexivity).
      assert (Hf : find_name MCur key p todo2 = lenZ gap).
      { rewrite (find_name_correct key MCur todo2 p Hne S2). unfold find_scan.
        rewrite Et, scan_first; auto. }
      rewrite Hf. pose proof (lenZ_nonneg gap) as Hg0.
      assert (Hlt0 : lenZ done2 <? lenZ c2 = true).
      { apply Z.ltb_lt. rewrite Hlen, Et, lenZ_app, lenZ_cons. pose proof (lenZ_nonneg b). lia. }
      rewrite Hlt0.
      assert (Hge : 0 <=? lenZ gap = true) by (apply Z.leb_le; lia). rewrite Hge.
      replace (lenZ gap + lenZ done2) with (lenZ (done2 ++ gap)) by (rewrite lenZ_app; lia).
      pose proof (lenZ_nonneg (done2 ++ gap)) as Ha0.
      destruct (Z.ltb_spec (lenZ (done2 ++ gap)) 0) as [?|_]; [lia|].
      pose proof S2 as S2a. rewrite Et in S2a. apply ksorted_app in S2a as (G0 & Bg0 & Sb).
      assert (G : forall g, In g gap -> bytes_ltb (key g) (key p) = true).
      { intros g I. rewrite <- Hq. apply G0. auto. }
      assert (Bg : forall z, In z b -> bytes_ltb (key p) (key z) = true).
      { intros z I. rewrite <- Hq. auto. }
      rewrite Et.
      replace (Z.to_nat (lenZ (done2 ++ gap) - lenZ done2)) with (length gap)
        by (rewrite lenZ_app; unfold lenZ; lia).
      rewrite firstn_app, firstn_all, Nat.sub_diag. cbn [firstn]. rewrite app_nil_r.
      replace (Z.max (lenZ done2) (lenZ (done2 ++ gap))) with (lenZ (done2 ++ gap))
        by (rewrite lenZ_app; lia).
      assert (Hlt : lenZ c2 <=? lenZ (done2 ++ gap) = false).
      { apply Z.leb_gt. rewrite Hab, (lenZ_app (done2 ++ gap)), lenZ_cons. pose proof (lenZ_nonneg b). lia. }
      rewrite Hlt.
      assert (Hnth : nth (Z.to_nat (lenZ (done2 ++ gap))) c2 [] = q).
      { rewrite Hab. unfold lenZ. rewrite Nat2Z.id. apply nth_middle. }
      rewrite Hnth. cbn [negb orb].
      rewrite !in_app_iff, in_map_iff.
      assert (IHx : In x (diff_loop MCur false key rec c2 nm1 nm2 rest (lenZ (done2 ++ gap) + 1)) <-> loop_spec rest b x).
      { replace (lenZ (done2 ++ gap) + 1) with (lenZ ((done2 ++ gap) ++ [q]))
          by (rewrite (lenZ_app (done2 ++ gap)); reflexivity).
        apply IH; auto. rewrite <- app_assoc. auto. }
      rewrite IHx. clear IHx IH Hnth Hlt Hsk Hf.
      unfold loop_spec. split.
      * intros [(g & <- & Ig)|[Ix|[(p' & q' & I1 & I2 & E & Ix)|[(p' & -> & I1 & U1)|(q' & -> & I2 & U2)]]]].
        -- right; right. exists g. split; [reflexivity|split; [apply in_or_app; auto|]].
           intros z [<-|Iz] C.
           ++ apply (lt_ne _ _ (G g Ig)). auto.
           ++ apply (lt_ne _ _ (ltb_trans _ _ _ (G g Ig) (Rg z Iz))). auto.
        -- left. exists p, q. split; [left; auto|split; [apply in_or_app; right; left; auto|auto]].
        -- left. exists p', q'. split; [right; auto|split; [apply in_or_app; right; right; auto|auto]].
        -- right; left. exists p'. split; [auto|split; [right; auto|]].
           intros z Iz. apply in_app_or in Iz as [Iz|[<-|Iz]].
           ++ apply lt_ne. eapply ltb_trans; [apply G; auto|apply Rg; auto].
           ++ rewrite Hq. apply lt_ne. auto.
           ++ auto.
        -- right; right. exists q'. split; [auto|split; [apply in_or_app; right; right; auto|]].
           intros z [<-|Iz]; auto. apply lt_ne. auto.
      * intros [(p' & q' & I1 & I2 & E & Ix)|[(p' & -> & I1 & U1)|(q' & -> & I2 & U2)]].
        -- destruct I1 as [<-|I1]; apply in_app_or in I2 as [I2|[<-|I2]].
           ++ exfalso. apply (lt_ne _ _ (G q' I2)). auto.
           ++ right; left. exact Ix.
           ++ exfalso. apply (lt_ne _ _ (Bg q' I2)). auto.
           ++ exfalso. apply (lt_ne _ _ (ltb_trans _ _ _ (G q' I2) (Rg p' I1))). auto.
           ++ exfalso. apply (lt_ne _ _ (Rg p' I1)). congruence.
           ++ right; right; left. exists p', q'. auto.
        -- destruct I1 as [<-|I1].
           ++ exfalso. apply (U1 q); auto. apply in_or_app. right. left. auto.
           ++ right; right; right; left. exists p'. split; [auto|split; auto].
              intros z Iz. apply U1. apply in_or_app. right. right. auto.
        -- apply in_app_or in I2 as [I2|[<-|I2]].
           ++ left. exists q'. auto.
           ++ exfalso. apply (U2 p (or_introl eq_refl)). auto.
           ++ right; right; right; right. exists q'. split; [auto|split; auto].
              intros z Iz. apply U2. right. auto.
Qed.

Lemma diff_loop_spec c1 c2 : ksorted key c1 -> ksorted key c2 ->
  forall x, In x (diff_loop MCur false key rec c2 nm1 nm2 c1 0) <-> loop_spec c1 c2 x.
Proof.
  intros S1 S2 x. apply (diff_loop_spec_gen c2 c1 [] c2); auto.
Qed.
End LoopSpec.

(* ---- G2: the matching pairs exactly the children whose normalised names are equal ------------------------------------------ *)
(* before the repair (MOld) this was false for c2 = [] (key = id, c1 = [[]]: the search of the empty list "finds" the
   default entry and the loop answers [DOutOfBounds]); the repaired loop does not search an exhausted list *)
Lemma matching_exact_empty_old_vs_cur :
  diff_loop MOld false (fun x => x) (fun p q => [DData p q]) (sort_names_by (fun x => x) []) [] []
            (sort_names_by (fun x => x) [[]]) 0 = [DOutOfBounds] /\
  diff_loop MCur false (fun x => x) (fun p q => [DData p q]) (sort_names_by (fun x => x) []) [] []
            (sort_names_by (fun x => x) [[]]) 0 = [DLeft [47]].
Proof. split; reflexivity. Qed.

Theorem matching_exact : forall key nm1 nm2 c1 c2,
  NoDup (map key c1) -> NoDup (map key c2) ->
  let out := diff_loop MCur false key (fun p q => [DData p q]) (sort_names_by key c2) nm1 nm2 (sort_names_by key c1) 0 in
  (forall p q, In (DData p q) out <-> In p c1 /\ In q c2 /\ key p = key q) /\
  (forall x, In (DLeft x) out <-> exists p, x = slash nm1 p /\ In p c1 /\ ~ In (key p) (map key c2)) /\
  (forall x, In (DRight x) out <-> exists q, x = slash nm2 q /\ In q c2 /\ ~ In (key q) (map key c1)) /\
  ~ In DOutOfBounds out /\ ~ In DPathOverflow out.
Proof.
  intros key nm1 nm2 c1 c2 N1 N2 out.
  assert (Hs : forall x, In x out <-> loop_spec key (fun p q => [DData p q]) nm1 nm2 c1 c2 x).
  { intros x. unfold out. rewrite diff_loop_spec.
    - apply loop_spec_perm; intros z; split; apply Permutation_in;
        try apply sort_names_by_perm; symmetry; apply sort_names_by_perm.
    - apply sort_names_by_sorted; auto.
    - apply sort_names_by_sorted; auto. }
  assert (Hun : forall p c, unm key p c <-> ~ In (key p) (map key c)).
  { intros p c. split.
    - intros U I. apply in_map_iff in I as (q & E & I). apply (U q I E).
    - intros H q I E. apply H. rewrite <- E. apply in_map; auto. }
  split; [|split; [|split; [|split]]].
  - intros p q. split.
    + intros H. apply Hs in H as [(p' & q' & I1 & I2 & E & [Ix|[]])|[(p' & C & _)|(q' & C & _)]]; try discriminate.
      injection Ix as <- <-. auto.
    + intros (I1 & I2 & E). apply Hs. left. exists p, q. simpl. auto.
  - intros x. split.
    + intros H. apply Hs in H as [(p' & q' & _ & _ & _ & [Ix|[]])|[(p' & C & I & U)|(q' & C & _)]]; try discriminate.
      injection C as ->. exists p'. repeat split; auto. apply Hun; auto.
    + intros (p & -> & I & U). apply Hs. right; left. exists p. repeat split; auto. apply Hun; auto.
  - intros x. split.
    + intros H. apply Hs in H as [(p' & q' & _ & _ & _ & [Ix|[]])|[(p' & C & _)|(q' & C & I & U)]]; try discriminate.
      injection C as ->. exists q'. repeat split; auto. apply Hun; auto.
    + intros (q & -> & I & U). apply Hs. right; right. exists q. repeat split; auto. apply Hun; auto.
  - intros H. apply Hs in H as [(p' & q' & _ & _ & _ & [Ix|[]])|[(p' & C & _)|(q' & C & _)]]; discriminate.
  - intros H. apply Hs in H as [(p' & q' & _ & _ & _ & [Ix|[]])|[(p' & C & _)|(q' & C & _)]]; discriminate.
Qed.

(* ---- find_kid ---------------------------------------------------------------------------------------------------------------- *)
Lemma find_kid_some ks p k : find_kid ks p = Some k -> In k ks /\ node_name k = p.
Proof.
  induction ks as [|y r IH]; simpl; [discriminate|].
  destruct (bytes_eqb (node_name y) p) eqn:E.
  - intros H. injection H as <-. apply bytes_eqb_eq in E. auto.
  - intros H. destruct (IH H). auto.
Qed.
Lemma find_kid_in_names ks p : In p (map node_name ks) -> exists k, find_kid ks p = Some k.
Proof.
  induction ks as [|y r IH]; simpl; [tauto|].
  destruct (bytes_eqb (node_name y) p) eqn:E; [eauto|].
  intros [H|H]; auto. apply bytes_eqb_neq in E. contradiction.
Qed.
Lemma find_kid_unique ks k : NoDup (map node_name ks) -> In k ks -> find_kid ks (node_name k) = Some k.
Proof.
  induction ks as [|y r IH]; simpl; [tauto|]. intros Hnd [->|I].
  - rewrite bytes_eqb_refl. reflexivity.
  - inversion Hnd as [|? ? Hn Hnd']; subst.
    destruct (bytes_eqb (node_name y) (node_name k)) eqn:E; auto.
    apply bytes_eqb_eq in E. exfalso. apply Hn. rewrite E. apply in_map; auto.
Qed.

Lemma strip_name_eq a b : strip a = strip b -> node_name a = node_name b -> a = b.
Proof. destruct a, b; simpl; intros H E; try discriminate; injection H; intros; subst; reflexivity. Qed.

(* ---- keys_unique ------------------------------------------------------------------------------------------------------------ *)
Lemma nd_eq l :
  (fix nd (l : list bytes) : bool :=
     match l with [] => true | x :: r => negb (existsb (bytes_eqb x) r) && nd r end) l = nodup_names l.
Proof. reflexivity. Qed.
Lemma keys_unique_node key a l t d da ks :
  keys_unique key (Node a l t d da ks) =
  nodup_names (map (fun k => key (node_name k)) ks) && forallb (keys_unique key) ks.
Proof. simpl. rewrite nd_eq. reflexivity. Qed.
Lemma NoDup_key_names (K : bytes -> bytes) ks :
  NoDup (map (fun k => K (node_name k)) ks) -> NoDup (map node_name ks).
Proof. intros H. rewrite <- (map_map node_name K) in H. apply NoDup_map_NoDup in H. auto. Qed.

(* ---- the children of two nodes ------------------------------------------------------------------------------------------------ *)
Lemma kids_iff ksort K dd R ks1 ks2 nm1 nm2 :
  (forall x, ksort x = K x) ->
  NoDup (map (fun k => K (node_name k)) ks1) -> NoDup (map (fun k => K (node_name k)) ks2) ->
  (forall k1 k2, In k1 ks1 -> In k2 ks2 -> K (node_name k1) = K (node_name k2) ->
                 (R (node_name k1) (node_name k2) = [] <-> canon_by K dd k1 = canon_by K dd k2)) ->
  ((if is_nil (sort_names_by ksort (map node_name ks1))
    then map (fun q => DRight (slash nm2 q)) (sort_names_by ksort (map node_name ks2))
    else if is_nil (sort_names_by ksort (map node_name ks2))
         then map (fun p => DLeft (slash nm1 p)) (sort_names_by ksort (map node_name ks1))
         else diff_loop MCur false K R (sort_names_by ksort (map node_name ks2)) nm1 nm2
                        (sort_names_by ksort (map node_name ks1)) 0) = []
   <-> sort_nodes (map (canon_by K dd) ks1) = sort_nodes (map (canon_by K dd) ks2)).
Proof.
  intros Hk N1 N2 HR. rewrite !(sort_names_by_ext ksort K _ Hk).
  set (raw1 := map node_name ks1). set (raw2 := map node_name ks2).
  assert (N1' : NoDup (map K raw1)) by (unfold raw1; rewrite map_map; auto).
  assert (N2' : NoDup (map K raw2)) by (unfold raw2; rewrite map_map; auto).
  match goal with |- (?E = [] <-> _) =>
    assert (Hs : forall x, In x E <-> loop_spec K R nm1 nm2 raw1 raw2 x) end.
  { intros x.
    pose proof (sort_names_by_sorted K raw1 N1') as S1. pose proof (sort_names_by_sorted K raw2 N2') as S2.
    assert (P1 : forall p, In p (sort_names_by K raw1) <-> In p raw1).
    { intros p; split; apply Permutation_in; [|symmetry]; apply sort_names_by_perm. }
    assert (P2 : forall p, In p (sort_names_by K raw2) <-> In p raw2).
    { intros p; split; apply Permutation_in; [|symmetry]; apply sort_names_by_perm. }
    rewrite <- (loop_spec_perm K R nm1 nm2 _ _ _ _ x P1 P2).
    destruct (sort_names_by K raw1) as [|x1 r1]; cbn [is_nil]; [apply loop_spec_nil_l|].
    destruct (sort_names_by K raw2) as [|x2 r2]; cbn [is_nil]; [apply loop_spec_nil_r|].
    apply diff_loop_spec; auto. }
  rewrite nil_iff_no_in.
  assert (Hcn : forall k k', canon_by K dd k = canon_by K dd k' -> K (node_name k) = K (node_name k')).
  { intros k k' E. apply (f_equal node_name) in E. rewrite !canon_by_name in E. auto. }
  split.
  - intros Hno.
    assert (A : forall p, In p raw1 -> exists q, In q raw2 /\ K q = K p).
    { intros p I. destruct (key_split K p raw2) as [U|(a & q & b & E & Hq & _)].
      - exfalso. apply (Hno (DLeft (slash nm1 p))). apply Hs. right; left. exists p. auto.
      - exists q. split; auto. rewrite E. apply in_or_app. right. left. auto. }
    assert (B : forall q, In q raw2 -> exists p, In p raw1 /\ K p = K q).
    { intros q I. destruct (key_split K q raw1) as [U|(a & p & b & E & Hp & _)].
      - exfalso. apply (Hno (DRight (slash nm2 q))). apply Hs. right; right. exists q. auto.
      - exists p. split; auto. rewrite E. apply in_or_app. right. left. auto. }
    assert (C : forall p q, In p raw1 -> In q raw2 -> K p = K q -> R p q = []).
    { intros p q I1 I2 E. apply nil_iff_no_in. intros x Ix. apply (Hno x). apply Hs. left. exists p, q. auto. }
    apply (ksorted_unique node_name).
    + apply sort_nodes_sorted. rewrite map_name_canon_by; auto.
    + apply sort_nodes_sorted. rewrite map_name_canon_by; auto.
    + intros x. rewrite !in_sorted_map. split.
      * intros (k1 & I1 & ->). destruct (A (node_name k1)) as (q & Iq & Eq); [apply in_map; auto|].
        apply in_map_iff in Iq as (k2 & <- & I2). exists k2. split; auto.
        apply HR; auto. apply C; auto; apply in_map; auto.
      * intros (k2 & I2 & ->). destruct (B (node_name k2)) as (p & Ip & Ep); [apply in_map; auto|].
        apply in_map_iff in Ip as (k1 & <- & I1). exists k1. split; auto.
        symmetry. apply HR; auto. apply C; auto; apply in_map; auto.
  - intros HL.
    assert (Hin1 : forall k1, In k1 ks1 -> exists k2, In k2 ks2 /\ canon_by K dd k1 = canon_by K dd k2).
    { intros k1 I1. apply in_sorted_map. rewrite <- HL. apply in_sorted_map. eauto. }
    assert (Hin2 : forall k2, In k2 ks2 -> exists k1, In k1 ks1 /\ canon_by K dd k2 = canon_by K dd k1).
    { intros k2 I2. apply in_sorted_map. rewrite HL. apply in_sorted_map. eauto. }
    intros x Ix. apply Hs in Ix.
    destruct Ix as [(p & q & Ip & Iq & E & Ix)|[(p & -> & Ip & U)|(q & -> & Iq & U)]].
    + apply in_map_iff in Ip as (k1 & <- & I1). apply in_map_iff in Iq as (k2 & <- & I2).
      destruct (Hin1 k1 I1) as (k2' & I2' & Ec).
      assert (k2' = k2).
      { apply (NoDup_map_inj (fun k => K (node_name k)) ks2); auto. rewrite <- (Hcn _ _ Ec). auto. }
      subst k2'. apply (HR k1 k2 I1 I2 E) in Ec. rewrite Ec in Ix. destruct Ix.
    + apply in_map_iff in Ip as (k1 & <- & I1). destruct (Hin1 k1 I1) as (k2' & I2' & Ec).
      apply (U (node_name k2')); [apply in_map; auto|]. symmetry. apply Hcn; auto.
    + apply in_map_iff in Iq as (k2 & <- & I2). destruct (Hin2 k2 I2) as (k1' & I1' & Ec).
      apply (U (node_name k1')); [apply in_map; auto|]. symmetry. apply Hcn; auto.
Qed.

(* ---- facts about the children of a well-formed node -------------------------------------------------------------------------- *)
Lemma depth_kid ks k : In k ks -> (depth k <= fold_right (fun k m => Nat.max (depth k) m) O ks)%nat.
Proof.
  induction ks as [|y r IH]; simpl; [tauto|]. intros [->|I]; [lia|]. specialize (IH I). lia.
Qed.
(* a child path is never "/" when the child has a name *)
Lemma slash_not_root a p : p <> [] -> bytes_eqb (slash a p) [47] = false.
Proof.
  intros H. apply bytes_eqb_neq. unfold slash. destruct a as [|x a]; simpl.
  - intros E. injection E as E. contradiction.
  - intros E. injection E as _ E. destruct a; discriminate.
Qed.

Lemma chase_node fuel w cf a l t d da ks :
  chase fuel w cf (Node a l t d da ks) = Some (cf, Node a l t d da ks).
Proof. destruct fuel; reflexivity. Qed.

Lemma compare_nodes_S o w1 w2 f name1 cf1 a1 l1 t1 d1 da1 ks1 name2 cf2 a2 l2 t2 d2 da2 ks2 :
  d_recurse o = true ->
  compare_nodes Cur MCur o w1 w2 (S f) name1 cf1 (Node a1 l1 t1 d1 da1 ks1) name2 cf2 (Node a2 l2 t2 d2 da2 ks2) =
  (if bytes_eqb name1 [47] && bytes_eqb name2 [47] then []
   else compare_data (d_data o) (d_tol o) name1 name2 (Node a1 l1 t1 d1 da1 ks1) (Node a2 l2 t2 d2 da2 ks2)) ++
  (if is_nil (sort_names_by (sort_key o) (map node_name ks1))
   then map (fun q => DRight (slash (unroot name2) q)) (sort_names_by (sort_key o) (map node_name ks2))
   else if is_nil (sort_names_by (sort_key o) (map node_name ks2))
        then map (fun p => DLeft (slash (unroot name1) p)) (sort_names_by (sort_key o) (map node_name ks1))
        else diff_loop MCur false (find_key o)
               (fun p q =>
                  match find_kid ks1 p, find_kid ks2 q with
                  | Some k1, Some k2 =>
                      compare_nodes Cur MCur o w1 w2 f (slash (unroot name1) p) cf1 k1 (slash (unroot name2) q) cf2 k2
                  | _, _ => [DErrExit]
                  end)
               (sort_names_by (sort_key o) (map node_name ks2)) (unroot name1) (unroot name2)
               (sort_names_by (sort_key o) (map node_name ks1)) 0).
Proof. intros Hr. destruct o as [dd df dc ds dr tl]. simpl in Hr. subst dr. destruct df; reflexivity. Qed.

(* G5: without -r only the two named nodes are compared *)
Lemma no_recurse_only_data : forall o w1 w2 f name1 cf1 a1 l1 t1 d1 da1 ks1 name2 cf2 a2 l2 t2 d2 da2 ks2,
  d_recurse o = false ->
  compare_nodes Cur MCur o w1 w2 (S f) name1 cf1 (Node a1 l1 t1 d1 da1 ks1) name2 cf2 (Node a2 l2 t2 d2 da2 ks2) =
  if bytes_eqb name1 [47] && bytes_eqb name2 [47] then []
  else compare_data (d_data o) (d_tol o) name1 name2 (Node a1 l1 t1 d1 da1 ks1) (Node a2 l2 t2 d2 da2 ks2).
Proof. intros o. intros. destruct o as [dd df dc ds dr tl]. simpl in H. subst dr. reflexivity. Qed.

(* ---- main lemma ------------------------------------------------------------------------------------------------------------------ *)
Definition diff_stmt (o : dopts) (w1 w2 : world) (f : nat) : Prop :=
  forall t1 t2 name1 name2 cf1 cf2,
  bytes_eqb name1 [47] && bytes_eqb name2 [47] = false ->
  link_free t1 = true -> link_free t2 = true ->
  keys_unique (find_key o) t1 = true -> keys_unique (find_key o) t2 = true ->
  names_nonempty t1 = true -> names_nonempty t2 = true ->
  tree_ok Old false t1 = true -> tree_ok Old false t2 = true ->
  (depth t1 <= f)%nat ->
  (compare_nodes Cur MCur o w1 w2 f name1 cf1 t1 name2 cf2 t2 = [] <->
   strip (canon_by (find_key o) (d_data o) t1) = strip (canon_by (find_key o) (d_data o) t2)).

Definition forest_ok (K : bytes -> bytes) (ks : list node) : Prop :=
  NoDup (map (fun k => K (node_name k)) ks) /\
  forall k, In k ks -> link_free k = true /\ keys_unique K k = true /\ node_name k <> [] /\
                       names_nonempty k = true /\ tree_ok Old false k = true.

Lemma forest_ok_of K ks :
  forallb link_free ks = true -> nodup_names (map (fun k => K (node_name k)) ks) = true ->
  forallb (keys_unique K) ks = true ->
  forallb (fun k => negb (is_nil (node_name k)) && names_nonempty k) ks = true ->
  forallb (tree_ok Old false) ks = true -> forest_ok K ks.
Proof.
  intros L N U E O. rewrite forallb_forall in L, U, E, O. split; [apply nodup_names_NoDup; auto|].
  intros k I. specialize (E k I). apply andb_true_iff in E as [E1 E2].
  repeat split; auto. intros C. rewrite C in E1. discriminate.
Qed.

Lemma kids_part o w1 w2 f nm1 nm2 cf1 cf2 ks1 ks2 :
  diff_stmt o w1 w2 f -> forest_ok (find_key o) ks1 -> forest_ok (find_key o) ks2 ->
  (forall k, In k ks1 -> (depth k <= f)%nat) ->
  ((if is_nil (sort_names_by (sort_key o) (map node_name ks1))
    then map (fun q => DRight (slash nm2 q)) (sort_names_by (sort_key o) (map node_name ks2))
    else if is_nil (sort_names_by (sort_key o) (map node_name ks2))
         then map (fun p => DLeft (slash nm1 p)) (sort_names_by (sort_key o) (map node_name ks1))
         else diff_loop MCur false (find_key o)
                (fun p q =>
                   match find_kid ks1 p, find_kid ks2 q with
                   | Some k1, Some k2 => compare_nodes Cur MCur o w1 w2 f (slash nm1 p) cf1 k1 (slash nm2 q) cf2 k2
                   | _, _ => [DErrExit]
                   end)
                (sort_names_by (sort_key o) (map node_name ks2)) nm1 nm2
                (sort_names_by (sort_key o) (map node_name ks1)) 0) = []
   <-> sort_nodes (map (canon_by (find_key o) (d_data o)) ks1) =
       sort_nodes (map (canon_by (find_key o) (d_data o)) ks2)).
Proof.
  intros IH [ND1 A1] [ND2 A2] D.
  (* the lists are sorted with sort_key, searched with find_key: this is where the two must agree *)
  apply (kids_iff (sort_key o) (find_key o)); auto using keys_agree.
  intros k1 k2 I1 I2 E. cbv beta.
  rewrite (find_kid_unique ks1 k1), (find_kid_unique ks2 k2); auto; try (eapply NoDup_key_names; eassumption).
  destruct (A1 _ I1) as (L1 & U1 & M1 & Y1 & O1). destruct (A2 _ I2) as (L2 & U2 & M2 & Y2 & O2).
  rewrite (IH k1 k2 (slash nm1 (node_name k1)) (slash nm2 (node_name k2)) cf1 cf2); auto.
  - split; [|intros ->; reflexivity]. intros H. apply strip_name_eq; auto.
    rewrite !canon_by_name. auto.
  - rewrite slash_not_root; [reflexivity|auto].
Qed.

Lemma diff_main o w1 w2 : d_recurse o = true -> tol_active (d_tol o) = false -> forall fuel, diff_stmt o w1 w2 fuel.
Proof.
  intros Hr Ht. induction fuel as [|f IH]; intros t1 t2 name1 name2 cf1 cf2 NR L1 L2 U1 U2 E1 E2 O1 O2 D.
  { destruct t1; simpl in D; lia. }
  destruct t1 as [a1 l1 dt1 d1 da1 ks1|]; [|discriminate].
  destruct t2 as [a2 l2 dt2 d2 da2 ks2|]; [|discriminate].
  rewrite compare_nodes_S by auto. rewrite NR.
  cbn [link_free] in L1, L2. rewrite keys_unique_node in U1, U2. cbn [tree_ok] in O1, O2.
  cbn [names_nonempty] in E1, E2.
  apply andb_true_iff in U1 as [ND1 U1]. apply andb_true_iff in U2 as [ND2 U2].
  apply andb_true_iff in O1 as [K1 O1]. apply andb_true_iff in O2 as [K2 O2].
  pose proof (compare_data_nil_dd (d_data o) (d_tol o) name1 name2 a1 l1 dt1 d1 da1 ks1 a2 l2 dt2 d2 da2 ks2 Ht K1 K2) as CD.
  match goal with |- (_ ++ ?B = [] <-> _) =>
    assert (KI : B = [] <-> sort_nodes (map (canon_by (find_key o) (d_data o)) ks1) =
                            sort_nodes (map (canon_by (find_key o) (d_data o)) ks2)) end.
  { apply kids_part; auto using forest_ok_of.
    intros k I. pose proof (depth_kid _ _ I). simpl in D. lia. }
  unfold strip. cbn [canon_by rename]. split.
  - intros H. apply app_eq_nil in H as [Ha Hb]. apply CD in Ha as (-> & -> & -> & Eda).
    apply KI in Hb. rewrite Hb, Eda. reflexivity.
  - intros H. injection H as -> -> -> Eda Hk.
    apply KI in Hk. rewrite Hk. rewrite (proj2 CD); auto.
Qed.

(* ---- G3: the theorems ---------------------------------------------------------------------------------------------------------------- *)
Theorem diff_empty_iff : forall o w1 w2 fuel name1 cf1 t1 name2 cf2 t2,
  d_recurse o = true ->
  tol_active (d_tol o) = false ->
  bytes_eqb name1 [47] && bytes_eqb name2 [47] = false ->
  link_free t1 = true -> link_free t2 = true ->
  keys_unique (find_key o) t1 = true -> keys_unique (find_key o) t2 = true ->
  names_nonempty t1 = true -> names_nonempty t2 = true ->
  tree_ok Old false t1 = true -> tree_ok Old false t2 = true ->
  (depth t1 <= fuel)%nat ->
  (compare_nodes Cur MCur o w1 w2 fuel name1 cf1 t1 name2 cf2 t2 = [] <->
   strip (canon_by (find_key o) (d_data o) t1) = strip (canon_by (find_key o) (d_data o) t2)).
Proof.
  intros. apply diff_main; auto.
Qed.

(* whole files: the roots' own label / type / data are not compared, only the forests below them *)
Theorem cgnsdiff_silent_iff : forall o w1 w2 fuel f1 f2 r1 r2,
  d_recurse o = true ->
  tol_active (d_tol o) = false ->
  get_file w1 f1 = Some r1 -> get_file w2 f2 = Some r2 ->
  link_free r1 = true -> link_free r2 = true ->
  keys_unique (find_key o) r1 = true -> keys_unique (find_key o) r2 = true ->
  names_nonempty r1 = true -> names_nonempty r2 = true ->
  kids_ok Old false r1 = true -> kids_ok Old false r2 = true ->
  (depth r1 <= fuel)%nat ->
  (cgnsdiff Cur MCur o w1 w2 fuel f1 f2 = [] <->
   sort_nodes (map (canon_by (find_key o) (d_data o)) (kids_of r1)) =
   sort_nodes (map (canon_by (find_key o) (d_data o)) (kids_of r2))).
Proof.
  intros o w1 w2 fuel f1 f2 r1 r2 Hr Ht G1 G2 L1 L2 U1 U2 E1 E2 O1 O2 D. unfold cgnsdiff. rewrite G1, G2.
  destruct fuel as [|f]. { destruct r1; simpl in D; lia. }
  destruct r1 as [a1 l1 dt1 d1 da1 ks1|]; [|discriminate].
  destruct r2 as [a2 l2 dt2 d2 da2 ks2|]; [|discriminate].
  rewrite compare_nodes_S by auto.
  change (bytes_eqb [47] [47]) with true. change (unroot [47]) with (@nil Z). cbn [andb app kids_of].
  cbn [link_free] in L1, L2. rewrite keys_unique_node in U1, U2. cbn [names_nonempty] in E1, E2.
  unfold kids_ok in O1, O2. cbn [kids_of] in O1, O2.
  apply andb_true_iff in U1 as [ND1 U1]. apply andb_true_iff in U2 as [ND2 U2].
  apply kids_part; auto using forest_ok_of, diff_main.
  intros k I. pose proof (depth_kid _ _ I). simpl in D. lia.
Qed.

(* nothing is reported for identical forests under different roots (an ADF file and its HDF5 conversion) *)
Theorem cgnsdiff_same_forest_silent : forall o w1 w2 fuel f1 f2 r1 r2,
  d_recurse o = true -> tol_active (d_tol o) = false -> get_file w1 f1 = Some r1 -> get_file w2 f2 = Some r2 -> kids_of r2 = kids_of r1 ->
  link_free r1 = true -> link_free r2 = true -> keys_unique (find_key o) r1 = true -> names_nonempty r1 = true ->
  kids_ok Old false r1 = true -> (depth r1 <= fuel)%nat ->
  cgnsdiff Cur MCur o w1 w2 fuel f1 f2 = [].
Proof.
  intros o w1 w2 fuel f1 f2 r1 r2 Hr Ht G1 G2 EK L1 L2 U1 E1 O1 D.
  apply (cgnsdiff_silent_iff o w1 w2 fuel f1 f2 r1 r2); auto.
  - destruct r1; [|discriminate]. destruct r2; [|discriminate]. simpl in EK. subst.
    rewrite keys_unique_node in *. exact U1.
  - destruct r1; [|discriminate]. destruct r2; [|discriminate]. simpl in EK. subst. exact E1.
  - unfold kids_ok in *. rewrite EK. exact O1.
  - rewrite EK. reflexivity.
Qed.

(* and every difference between the forests is reported *)
Theorem cgnsdiff_reports_difference : forall o w1 w2 fuel f1 f2 r1 r2,
  d_recurse o = true ->
  tol_active (d_tol o) = false ->
  get_file w1 f1 = Some r1 -> get_file w2 f2 = Some r2 ->
  link_free r1 = true -> link_free r2 = true ->
  keys_unique (find_key o) r1 = true -> keys_unique (find_key o) r2 = true ->
  names_nonempty r1 = true -> names_nonempty r2 = true ->
  kids_ok Old false r1 = true -> kids_ok Old false r2 = true ->
  (depth r1 <= fuel)%nat ->
  sort_nodes (map (canon_by (find_key o) (d_data o)) (kids_of r1)) <>
  sort_nodes (map (canon_by (find_key o) (d_data o)) (kids_of r2)) ->
  cgnsdiff Cur MCur o w1 w2 fuel f1 f2 <> [].
Proof.
  intros o w1 w2 fuel f1 f2 r1 r2 Hr Ht G1 G2 L1 L2 U1 U2 E1 E2 O1 O2 D Hne C.
  apply Hne. apply (cgnsdiff_silent_iff o w1 w2 fuel f1 f2 r1 r2); auto.
Qed.

(* ---- H4: a forest compared with itself is silent, whatever the keys; the repaired loop stays inside its arrays ---------------- *)
Lemma bminus_self prec emax (Hp : FLX.Prec_gt_0 prec) (Hm : BinarySingleNaN.Prec_lt_emax prec emax)
  (x : BinarySingleNaN.binary_float prec emax) :
  @BinarySingleNaN.Bminus prec emax Hp Hm BinarySingleNaN.mode_NE x x = BinarySingleNaN.B754_zero false \/
  @BinarySingleNaN.Bminus prec emax Hp Hm BinarySingleNaN.mode_NE x x = BinarySingleNaN.B754_nan.
Proof.
  destruct x as [s|s| |s m e H].
  - left. destruct s; reflexivity.
  - right. destruct s; reflexivity.
  - right. reflexivity.
  - left. unfold BinarySingleNaN.Bminus.
    assert (E : BinarySingleNaN.Fplus_naive s m e (negb s) m e (Z.min e e) = 0).
    { unfold BinarySingleNaN.Fplus_naive. generalize (fst (SpecFloat.shl_align m e (Z.min e e))). intros p.
      unfold SpecFloat.cond_Zopp. destruct s; cbn [negb]; lia. }
    cbv zeta. rewrite E. reflexivity.
Qed.
Lemma gt_tol_zero tol : tol_active tol = true -> gt_tol (BinarySingleNaN.B754_zero false) tol = false.
Proof.
  unfold tol_active, gt_tol. unfold BinarySingleNaN.Bcompare. destruct (dbl tol) as [s|s| |s m e H]; simpl.
  - discriminate.
  - destruct s; simpl; auto; discriminate.
  - discriminate.
  - destruct s; simpl; auto; discriminate.
Qed.
Lemma gt_tol_nan tol : gt_tol BinarySingleNaN.B754_nan tol = false.
Proof. unfold gt_tol, BinarySingleNaN.Bcompare. destruct (dbl tol); reflexivity. Qed.
Lemma exceeds_tol64_self x tol : tol_active tol = true -> exceeds_tol64 x x tol = false.
Proof.
  intros H. unfold exceeds_tol64. destruct (bminus_self 53 1024 Hp64 Hm64 (dbl x)) as [E|E]; rewrite E.
  - apply gt_tol_zero; auto.
  - apply gt_tol_nan.
Qed.
Lemma exceeds_tol32_self x tol : tol_active tol = true -> exceeds_tol32 x x tol = false.
Proof.
  intros H. unfold exceeds_tol32. destruct (bminus_self 24 128 Hp32 Hm32 (flt x)) as [E|E]; rewrite E.
  - apply gt_tol_zero; auto.
  - apply gt_tol_nan.
Qed.
Lemma compare_floats_self tol l : tol_active tol = true -> compare_floats tol l l = false.
Proof. intros H. induction l as [|x r IH]; cbn [compare_floats]; auto. rewrite exceeds_tol32_self; auto. Qed.
Lemma compare_doubles_self tol l : tol_active tol = true -> compare_doubles tol l l = false.
Proof. intros H. induction l as [|x r IH]; cbn [compare_doubles]; auto. rewrite exceeds_tol64_self; auto. Qed.

(* a node against itself, for every tolerance: x - x is +0 or NaN, never beyond a positive tolerance *)
Lemma compare_data_refl dd tol n1 n2 a l t d da ks a' ks' :
  compare_data dd tol n1 n2 (Node a l t d da ks) (Node a' l t d da ks') = [].
Proof.
  unfold compare_data. rewrite !bytes_eqb_refl, Nat.eqb_refl. cbn [negb].
  destruct (negb dd || is_nil d); auto. destruct (0 <? diff_data_size t d); auto.
  destruct (tol_active tol) eqn:Ha; cbn [andb]; auto.
  destruct (negb (diff_num_size t =? 0)); auto.
  destruct (diff_num_size t =? 4); [rewrite compare_floats_self|rewrite compare_doubles_self]; auto.
Qed.

Definition kids_expr (o : dopts) (w1 w2 : world) (f : nat) (nm1 nm2 cf1 cf2 : bytes) (ks1 ks2 : list node) : list dline :=
  if is_nil (sort_names_by (sort_key o) (map node_name ks1))
  then map (fun q => DRight (slash nm2 q)) (sort_names_by (sort_key o) (map node_name ks2))
  else if is_nil (sort_names_by (sort_key o) (map node_name ks2))
       then map (fun p => DLeft (slash nm1 p)) (sort_names_by (sort_key o) (map node_name ks1))
       else diff_loop MCur false (find_key o)
              (fun p q =>
                 match find_kid ks1 p, find_kid ks2 q with
                 | Some k1, Some k2 => compare_nodes Cur MCur o w1 w2 f (slash nm1 p) cf1 k1 (slash nm2 q) cf2 k2
                 | _, _ => [DErrExit]
                 end)
              (sort_names_by (sort_key o) (map node_name ks2)) nm1 nm2
              (sort_names_by (sort_key o) (map node_name ks1)) 0.

Lemma compare_nodes_S_gen o w1 w2 f name1 cf1 a1 l1 t1 d1 da1 ks1 name2 cf2 a2 l2 t2 d2 da2 ks2 :
  compare_nodes Cur MCur o w1 w2 (S f) name1 cf1 (Node a1 l1 t1 d1 da1 ks1) name2 cf2 (Node a2 l2 t2 d2 da2 ks2) =
  let out := if bytes_eqb name1 [47] && bytes_eqb name2 [47] then []
             else compare_data (d_data o) (d_tol o) name1 name2 (Node a1 l1 t1 d1 da1 ks1) (Node a2 l2 t2 d2 da2 ks2) in
  if negb (d_recurse o) then out
  else out ++ kids_expr o w1 w2 f (unroot name1) (unroot name2) cf1 cf2 ks1 ks2.
Proof. destruct o as [dd df dc ds dr tl]. destruct dr, df; reflexivity. Qed.

Lemma find_name_self key p rest : find_name MCur key p (p :: rest) = 0.
Proof. unfold find_name. cbn [nth]. rewrite bytes_eqb_refl. reflexivity. Qed.

Lemma diff_loop_self key rec nm1 nm2 c : forall todo done,
  c = done ++ todo -> (forall p, In p todo -> rec p p = []) ->
  diff_loop MCur false key rec c nm1 nm2 todo (lenZ done) = [].
Proof.
  induction todo as [|p rest IH]; intros done Hc Hall; cbn [diff_loop].
  - rewrite Hc, skipn_lenZ_app. reflexivity.
  - assert (Hsk : skipn (Z.to_nat (lenZ done)) c = p :: rest) by (rewrite Hc; apply skipn_lenZ_app).
    rewrite Hsk, find_name_self.
    assert (Hlt : lenZ done <? lenZ c = true).
    { apply Z.ltb_lt. rewrite Hc, lenZ_app, lenZ_cons. pose proof (lenZ_nonneg rest). lia. }
    rewrite Hlt. change (0 <=? 0) with true. cbv iota. rewrite Z.add_0_l.
    pose proof (lenZ_nonneg done) as Hd0.
    destruct (Z.ltb_spec (lenZ done) 0) as [?|_]; [lia|].
    rewrite Z.sub_diag. cbn [Z.to_nat firstn map app]. rewrite Z.max_id.
    assert (Hle : lenZ c <=? lenZ done = false) by (apply Z.leb_gt; apply Z.ltb_lt; auto).
    rewrite Hle.
    assert (Hq : nth (Z.to_nat (lenZ done)) c [] = p).
    { rewrite Hc. unfold lenZ. rewrite Nat2Z.id. apply nth_middle. }
    rewrite Hq. cbn [negb orb]. rewrite (Hall p (or_introl eq_refl)). cbn [app].
    specialize (IH (done ++ [p])). rewrite lenZ_app in IH. apply IH.
    + rewrite <- app_assoc. auto.
    + intros q I. apply Hall. right. auto.
Qed.

Lemma self_kids o w1 w2 f nm1 nm2 cf1 cf2 ks :
  (forall name1 cf1 name2 cf2 t, link_free t = true -> (depth t <= f)%nat ->
     compare_nodes Cur MCur o w1 w2 f name1 cf1 t name2 cf2 t = []) ->
  forallb link_free ks = true -> (forall k, In k ks -> (depth k <= f)%nat) ->
  kids_expr o w1 w2 f nm1 nm2 cf1 cf2 ks ks = [].
Proof.
  intros IH L D. unfold kids_expr.
  assert (P : forall p, In p (sort_names_by (sort_key o) (map node_name ks)) -> In p (map node_name ks)).
  { intros p. apply Permutation_in. apply sort_names_by_perm. }
  remember (sort_names_by (sort_key o) (map node_name ks)) as c eqn:Ec.
  destruct c as [|x r]; cbn [is_nil]; [reflexivity|].
  apply (diff_loop_self _ _ _ _ (x :: r) (x :: r) []); auto.
  intros p Ip. destruct (find_kid_in_names ks p (P p Ip)) as [k Hk]. rewrite Hk.
  destruct (find_kid_some _ _ _ Hk) as [Ik _]. rewrite forallb_forall in L. apply IH; auto.
Qed.

Theorem self_compare_silent : forall o w1 w2 fuel name1 cf1 name2 cf2 t,
  link_free t = true -> (depth t <= fuel)%nat ->
  compare_nodes Cur MCur o w1 w2 fuel name1 cf1 t name2 cf2 t = [].
Proof.
  intros o w1 w2. induction fuel as [|f IH]; intros name1 cf1 name2 cf2 t L D.
  { destruct t; simpl in D; lia. }
  destruct t as [a l dt d da ks|]; [|discriminate].
  rewrite compare_nodes_S_gen. cbv zeta. rewrite compare_data_refl.
  assert (E : kids_expr o w1 w2 f (unroot name1) (unroot name2) cf1 cf2 ks ks = []).
  { apply self_kids; auto. intros k I. pose proof (depth_kid _ _ I). simpl in D. lia. }
  rewrite E. destruct (bytes_eqb name1 [47] && bytes_eqb name2 [47]); destruct (negb (d_recurse o)); reflexivity.
Qed.

Theorem cgnsdiff_self_silent : forall o w1 w2 fuel f1 f2 r1 r2,
  get_file w1 f1 = Some r1 -> get_file w2 f2 = Some r2 -> kids_of r2 = kids_of r1 ->
  link_free r1 = true -> link_free r2 = true -> (depth r1 <= fuel)%nat ->
  cgnsdiff Cur MCur o w1 w2 fuel f1 f2 = [].
Proof.
  intros o w1 w2 fuel f1 f2 r1 r2 G1 G2 EK L1 L2 D. unfold cgnsdiff. rewrite G1, G2.
  destruct fuel as [|f]. { destruct r1; simpl in D; lia. }
  destruct r1 as [a1 l1 dt1 d1 da1 ks1|]; [|discriminate].
  destruct r2 as [a2 l2 dt2 d2 da2 ks2|]; [|discriminate].
  simpl in EK. subst ks2.
  rewrite compare_nodes_S_gen. cbv zeta. change (bytes_eqb [47] [47]) with true. cbn [andb app].
  assert (E : kids_expr o w1 w2 f (unroot [47]) (unroot [47]) f1 f2 ks1 ks1 = []).
  { apply self_kids; auto.
    - intros. apply self_compare_silent; auto.
    - intros k I. pose proof (depth_kid _ _ I). simpl in D. lia. }
  rewrite E. destruct (negb (d_recurse o)); reflexivity.
Qed.

(* the position the repaired loop computes: -1 or an index of c2 not before n2 *)
Definition cur_nret (key : bytes -> bytes) (p : bytes) (c2 : list bytes) (n2 : Z) : Z :=
  if n2 <? lenZ c2
  then (let r := find_name MCur key p (skipn (Z.to_nat n2) c2) in if 0 <=? r then r + n2 else r)
  else -1.
Lemma cur_nret_bound key p c2 n2 : 0 <= n2 -> cur_nret key p c2 n2 = -1 \/ n2 <= cur_nret key p c2 n2 < lenZ c2.
Proof.
  intros Hn. unfold cur_nret. destruct (Z.ltb_spec n2 (lenZ c2)) as [Hlt|_]; auto. cbv zeta.
  assert (Hl : lenZ (skipn (Z.to_nat n2) c2) = lenZ c2 - n2).
  { unfold lenZ in *. rewrite skipn_length. lia. }
  assert (Hne : skipn (Z.to_nat n2) c2 <> []).
  { intros C. rewrite C in Hl. change (lenZ (@nil bytes)) with 0 in Hl. lia. }
  pose proof (find_name_bound key MCur p _ Hne) as B.
  destruct (Z.leb_spec 0 (find_name MCur key p (skipn (Z.to_nat n2) c2))); [right|left]; lia.
Qed.
Lemma diff_loop_cur_cons chk key rec c2 nm1 nm2 p rest n2 :
  diff_loop MCur chk key rec c2 nm1 nm2 (p :: rest) n2 =
  if cur_nret key p c2 n2 <? 0 then DLeft (slash nm1 p) :: diff_loop MCur chk key rec c2 nm1 nm2 rest n2
  else map (fun q => DRight (slash nm2 q))
           (firstn (Z.to_nat (cur_nret key p c2 n2 - n2)) (skipn (Z.to_nat n2) c2)) ++
       (if lenZ c2 <=? Z.max n2 (cur_nret key p c2 n2) then [DOutOfBounds]
        else if negb chk || (path_fits nm1 p && path_fits nm2 (nth (Z.to_nat (Z.max n2 (cur_nret key p c2 n2))) c2 []))
             then rec p (nth (Z.to_nat (Z.max n2 (cur_nret key p c2 n2))) c2 []) ++
                  diff_loop MCur chk key rec c2 nm1 nm2 rest (Z.max n2 (cur_nret key p c2 n2) + 1)
             else [DPathOverflow]).
Proof. reflexivity. Qed.

Theorem diff_loop_cur_in_bounds : forall chk key rec c2 nm1 nm2 l1 n2,
  0 <= n2 ->
  ~ In DOutOfBounds
      (diff_loop MCur chk key
         (fun p q => filter (fun d => match d with DOutOfBounds => false | _ => true end) (rec p q))
         c2 nm1 nm2 l1 n2).
Proof.
  intros chk key rec c2 nm1 nm2. induction l1 as [|p rest IH]; intros n2 Hn.
  - cbn [diff_loop]. intros I. apply in_map_iff in I as (q & C & _). discriminate.
  - rewrite diff_loop_cur_cons. destruct (cur_nret_bound key p c2 n2 Hn) as [E|B].
    + rewrite E. change (-1 <? 0) with true. cbv iota. intros [C|I]; [discriminate|]. apply (IH n2 Hn I).
    + remember (cur_nret key p c2 n2) as nr eqn:Enr. clear Enr.
      destruct (Z.ltb_spec nr 0) as [?|_]; [lia|].
      replace (Z.max n2 nr) with nr by lia.
      destruct (Z.leb_spec (lenZ c2) nr) as [?|_]; [lia|].
      intros I. apply in_app_or in I as [I|I].
      * apply in_map_iff in I as (q & C & _). discriminate.
      * destruct (negb chk || (path_fits nm1 p && path_fits nm2 (nth (Z.to_nat nr) c2 []))).
        -- apply in_app_or in I as [I|I].
           ++ apply filter_In in I as [_ C]. discriminate.
           ++ apply (IH (nr + 1)); auto. lia.
        -- destruct I as [C|[]]. discriminate.
Qed.


(* ---- D: what comparing complex floats as doubles would lose ------------------------------------------------------------------- *)
(* X4 data (1.0f, 1e-30f) (3.0f, -4.0f) against (1.5f, 1e-30f) (3.0f, -4.0f), tol = 0.1: as floats the real parts differ by 0.5;
   read as doubles the first value pair differs by far less than 0.1 *)
Lemma x4_as_doubles_misses_real_part :
  let da1 := [0;0;128;63; 96;66;162;13; 0;0;64;64; 0;0;128;192] in
  let da2 := [0;0;192;63; 96;66;162;13; 0;0;64;64; 0;0;128;192] in
  compare_floats 0x3FB999999999999A (values 4 da1) (values 4 da2) = true /\
  compare_doubles 0x3FB999999999999A (values 8 da1) (values 8 da2) = false.
Proof. vm_compute. auto. Qed.

(* closed: no compare_data / compare_nodes in the proof term *)
(* these mention compare_data / compare_nodes / exceeds_tol*, whose DEFINITIONS in Copy.v go through Flocq: they inherit the
   four axioms of Coq's classical real numbers that Flocq's definitions depend on *)
End DiffP.

(* ---- cgnsdiff: repaired corners (Old / Cur) and the known one ------------------------------------------------------------------------- *)
Definition strip := DiffP.strip.
Definition has_oob (l : list dline) : bool :=
  existsb (fun d => match d with DOutOfBounds => true | _ => false end) l.
Definition o_d : dopts := mkO true false false false true 0.       (* cgnsdiff -d *)
Definition o_cd : dopts := mkO true false true false true 0.      (* cgnsdiff -c -d *)
Definition o_di : dopts := mkO true false false true true 0.      (* cgnsdiff -d -i *)

(* before 39f8525: an ADF file and its exact HDF5 conversion -- cgnsdiff reported the roots' labels; now it is silent *)
Lemma diff_cross_format_root_label_old :
  exists w src dst w', get_file w src = Some (with_kids adf_root [Node [78] [76] I4 [1] [7;0;0;0] []]) /\
    cgnsconvert Cur 4 w src dst true false = Ok w' /\
    (forall r r', get_file w' src = Some r -> get_file w' dst = Some r' -> kids_of r' = kids_of r) /\
    cgnsdiff Old MOld o_d w' w' 8 src dst = [DLabel [47] [47]] /\
    cgnsdiff Cur MCur o_d w' w' 8 src dst = [].
Proof.
  exists [([65], with_kids adf_root [Node [78] [76] I4 [1] [7;0;0;0] []])], [65], [72]. eexists.
  split; [reflexivity|]. split; [vm_compute; reflexivity|]. split; [|split; vm_compute; reflexivity].
  intros r r' H1 H2. vm_compute in H1, H2. inversion H1; inversion H2; subst. reflexivity.
Qed.

(* known finding: two files that differ only in the node a link points to; both targets have the same label, type and (no) data *)
Definition linkfile (v : Z) : node := with_kids adf_root
  [Node [84;49] [] s_MT [] [] [Node [107;49] [] s_MT [] [] []];
   Node [84;50] [] s_MT [] [] [Node [107;50] [] s_MT [] [] []];
   LinkNode [75] [] [47;84;v]].
Lemma diff_link_target_blind :
  exists w f1 f2 r1 r2, get_file w f1 = Some r1 /\ get_file w f2 = Some r2 /\
    cgnsdiff Cur MCur o_d w w 8 f1 f2 = [] /\
    strip (canon r1) <> strip (canon r2) /\
    full_view 8 w f1 r1 <> full_view 8 w f2 r2 /\ full_view 8 w f1 r1 <> None /\ full_view 8 w f2 r2 <> None.
Proof.
  exists [([49], linkfile 49); ([50], linkfile 50)], [49], [50], (linkfile 49), (linkfile 50).
  repeat split; try reflexivity; vm_compute; discriminate.
Qed.

(* before 180fd8e: siblings whose names collide after normalisation (x, Y, y under -c; a, "b c", bc under -i), a file
   against itself: spurious lines, then children2[33*n2] was read with n2 = nc2; now the same pairs are silent (and so is
   every forest compared with itself: self_compare_silent) *)
Definition collide_c : node := with_kids adf_root
  [Node [120] [1] s_MT [] [] []; Node [89] [2] s_MT [] [] []; Node [121] [3] s_MT [] [] []].
Definition collide_i : node := with_kids adf_root
  [Node [97] [1] s_MT [] [] []; Node [98;32;99] [2] s_MT [] [] []; Node [98;99] [3] s_MT [] [] []].
Lemma diff_name_collision_old :
  names_unique collide_c = true /\ keys_unique (find_key o_cd) collide_c = false /\
  cgnsdiff Cur MOld o_cd [([65], collide_c)] [([65], collide_c)] 5 [65] [65] =
    [DRight [47;89]; DLabel [47;89] [47;121]; DOutOfBounds] /\
  cgnsdiff Cur MCur o_cd [([65], collide_c)] [([65], collide_c)] 5 [65] [65] = [] /\
  names_unique collide_i = true /\ keys_unique (find_key o_di) collide_i = false /\
  has_oob (cgnsdiff Cur MOld o_di [([65], collide_i)] [([65], collide_i)] 5 [65] [65]) = true /\
  cgnsdiff Cur MCur o_di [([65], collide_i)] [([65], collide_i)] 5 [65] [65] = [].
Proof. repeat (split; [vm_compute; reflexivity|]). vm_compute; reflexivity. Qed.

(* a chain of n nodes with 32-character names "nDDxxxx..." *)
Fixpoint chain (n : nat) (i : Z) : list node :=
  match n with
  | O => []
  | S m => [Node ([110; 48 + i / 10; 48 + i mod 10] ++ repeat 120 29) [] s_MT [] [] (chain m (i + 1))]
  end.
Definition has_overflow (l : list dline) : bool :=
  existsb (fun d => match d with DPathOverflow => true | _ => false end) l.
(* before e3072bd a tree the copy reproduces exactly made cgnsdiff write past its 1024-byte path buffers; now the same
   pair is compared to the bottom and found equal *)
Lemma diff_deep_path_overflow_old :
  exists w f r, get_file w f = Some r /\ link_free r = true /\ names_unique r = true /\ tree_ok Cur true r = true /\
    copy_file Cur false (fun _ _ => None) 0 false r adf_root = Ok r /\
    has_overflow (cgnsdiff Old MOld o_d w w 64 f f) = true /\
    cgnsdiff Cur MCur o_d w w 64 f f = [].
Proof.
  exists [([65], with_kids adf_root (chain 40 0))], [65], (with_kids adf_root (chain 40 0)).
  split; [reflexivity|]. split; [vm_compute; reflexivity|]. split; [vm_compute; reflexivity|].
  split; [vm_compute; reflexivity|]. split; [vm_compute; reflexivity|]. split; vm_compute; reflexivity.
Qed.

(* ---- the hypotheses of the positive theorems are satisfiable ------------------------------------------------------------------------------ *)
Lemma sample_ok :
  kids_ok Cur false sample_tree = true /\ forallb links_ok (kids_of sample_tree) = true /\ names_unique sample_tree = true /\
  kids_ok Old false sample_tree = false.
Proof. vm_compute. auto. Qed.
Definition sample_plain : node := with_kids adf_root
  [Node [97] [76;97] I4 [2] [1;0;0;0;2;0;0;0] [Node [99] [] s_MT [] [] []; Node [100] [] [67;49] [3] [104;105;33] []];
   Node [98] [] [82;56] [1;1] [0;0;0;0;0;0;240;63] []].
Definition sample_plain_permuted : node := with_kids hdf5_root
  [Node [98] [] [82;56] [1;1] [0;0;0;0;0;0;240;63] [];
   Node [97] [76;97] I4 [2] [1;0;0;0;2;0;0;0] [Node [100] [] [67;49] [3] [104;105;33] []; Node [99] [] s_MT [] [] []]].
Lemma sample_plain_ok :
  link_free sample_plain = true /\ names_unique sample_plain = true /\ names_nonempty sample_plain = true /\
  kids_ok Old false sample_plain = true /\ (depth sample_plain <= 8)%nat /\
  canon sample_plain <> sample_plain_permuted /\
  kids_of (canon sample_plain) = kids_of (canon sample_plain_permuted).
Proof. vm_compute. repeat split; auto; try lia; discriminate. Qed.

Lemma save_as_convert_preserve v fuel w src dst dst_hdf5 r :
  get_file w src = Some r -> is_link r = false ->
  kids_ok v dst_hdf5 r = true -> forallb links_ok (kids_of r) = true ->
  cg_save_as v fuel w src dst dst_hdf5 false = Ok (set_file w dst (with_kids (new_root dst_hdf5) (kids_of r))) /\
  cgnsconvert v fuel w src dst dst_hdf5 false = Ok (set_file w dst (with_kids (new_root dst_hdf5) (kids_of r))).
Proof. intros; split; apply do_copy_file_nofollow; assumption. Qed.
Lemma follow_succeeds_somewhere : exists w', cgnsconvert Cur 4 worldAB [65] [67] false true = Ok w'.
Proof. eexists. vm_compute. reflexivity. Qed.

(* cgnsdiff -d -t1e-6 on the doubles (2.0) and (NaN): "fabs(a-b) > tol" is false for a NaN, nothing is reported; with the
   default tolerance 0 the bytes are compared and the difference IS reported *)
Lemma diff_tol_nan_blind :
  exists d1 d2 tol, d1 <> d2 /\ Binary.is_nan 53 1024 (b64_of_bits d2) = true /\ tol_active tol = true /\
                    compare_doubles tol [d1] [d2] = false /\
                    compare_data true tol [47;97] [47;97] (Node [97] [] [82;56] [1] [0;0;0;0;0;0;0;64] [])
                                                          (Node [97] [] [82;56] [1] [0;0;0;0;0;0;248;127] []) = [] /\
                    compare_data true 0 [47;97] [47;97] (Node [97] [] [82;56] [1] [0;0;0;0;0;0;0;64] [])
                                                        (Node [97] [] [82;56] [1] [0;0;0;0;0;0;248;127] []) = [DData [47;97] [47;97]].
Proof.
  exists 0x4000000000000000, 0x7ff8000000000000, 0x3eb0c6f7a0b5ed8d.
  split; [discriminate|]. repeat (split; [vm_compute; reflexivity|]). vm_compute; reflexivity.
Qed.

(* the [depth] argument as the C code carries it: `++depth` at the call site inside the loop over the children, so the
   k-th copied (not kept-as-link) child is entered with depth + k, and its own children count on from there; a child
   kept as a link does not count.  Only depth <> 0 matters to the current code; a guard on the value of depth would be
   predicted by this transcription.  (Here [go] / [go_link] just record the depth they are called with.) *)
Lemma depth_counts_siblings :
  let rec_depth := fun (k : node) (c : node) (d : Z) => Ok (Node (node_name c) [] [] [d] [] []) in
  kids_loop rec_depth (fun _ _ c d => Ok (Node (node_name c) [] [] [d] [] [])) true
    [Node [97] [] s_MT [] [] []; LinkNode [108] [] [47;97]; Node [98] [] s_MT [] [] []; LinkNode [109] [66] [47;88];
     Node [99] [] s_MT [] [] []]
    (Node [] [] s_MT [] [] []) 5 =
  Ok (Node [] [] s_MT [] []
        [Node [97] [] [] [6] [] []; LinkNode [108] [] [47;97]; Node [98] [] [] [7] [] []; Node [109] [] [] [8] [] [];
         Node [99] [] [] [9] [] []]).
Proof. vm_compute. reflexivity. Qed.

(* same root cause as diff_link_target_blind (known finding cgnsdiff-link-target-not-compared): without -f a link node is
   looked THROUGH for its label / type / dimensions / data and never looked AT -- a link /K -> /T1 in one file against a
   proper node /K with T1's header but other children in the other file is silent even with -d; with -f the children are
   compared and reported *)
Definition linkfile_node : node := with_kids adf_root
  [Node [84;49] [] s_MT [] [] [Node [107;49] [] s_MT [] [] []];
   Node [84;50] [] s_MT [] [] [Node [107;50] [] s_MT [] [] []];
   Node [75] [] s_MT [] [] [Node [111;116;104;101;114] [] s_MT [] [] []]].
Lemma diff_link_vs_node_blind :
  cgnsdiff Cur MCur o_d [([49], linkfile 49); ([50], linkfile_node)] [([49], linkfile 49); ([50], linkfile_node)] 8 [49] [50] = [] /\
  cgnsdiff Cur MCur (mkO true true false false true 0) [([49], linkfile 49); ([50], linkfile_node)]
           [([49], linkfile 49); ([50], linkfile_node)] 8 [49] [50] = [DLeft [47;75;47;107;49]; DRight [47;75;47;111;116;104;101;114]] /\
  full_view 8 [([49], linkfile 49)] [49] (linkfile 49) <> full_view 8 [([50], linkfile_node)] [50] linkfile_node.
Proof. split; [vm_compute; reflexivity|]. split; [vm_compute; reflexivity|]. vm_compute. discriminate. Qed.
