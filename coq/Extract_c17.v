(* Extract_c17.v -- extraction of the C17 model (Refcount) to OCaml. ExtrOcamlBasic only. *)
From Coq Require Import Extraction ExtrOcamlBasic ZArith.
From CgnsV Require Import Refcount.
Extraction Language OCaml.
Set Extraction KeepSingleton.
Extraction "extracted/c17/model.ml" Refcount.step Refcount.run Refcount.io_init Refcount.cleanb
  Refcount.mstep Refcount.mrun Refcount.mll_init
  Refcount.zero_attr Refcount.attr_at
  Refcount.forced_close Refcount.passes_cur Refcount.file_released Refcount.h5step Refcount.no_ids
  BinInt.Z.of_nat.   (* pulls in Z / positive, which the shared ocaml/zutil.ml expects *)
