(* SidsRows.v -- the row types of the tables that translators/c01_templates.py regenerates from the sources (Gen_C01.v),
   and the byte-string literals they are written with.  Types only; the obligations over the tables are in SidsCodec.v. *)
From Coq Require Import ZArith List Ascii.
From Coq Require String.
Import String.StringSyntax.
Delimit Scope string_scope with string.
From CgnsV Require Import TreeDB.
Import ListNotations.
Local Open Scope Z_scope.

(* ---- strings as byte lists ------------------------------------------------------------------------------ *)
Definition s (x : String.string) : bytes := map (fun a => Z.of_N (N_of_ascii a)) (String.list_ascii_of_string x).
Arguments s _%string.

Inductive wdt := WLit (dt : bytes) | WSize | WParam.
(* a cgi_new_node / cgi_new_node_partial call: function, parent label, name literal (None: an expression), label (several
   alternatives chosen at run time are separated by '|'), data type, rank (-1: an expression) *)
Inductive wrow :=
| WRow (fn parent : bytes) (name : option bytes) (label : bytes) (dt : wdt) (ndim : Z)
| WUnparsed (fn what : bytes).
(* a cgi_get_nodes call: function, parent label, child label, data types the code that follows accepts ([] = any) *)
Inductive rrow :=
| RRow (fn parent label : bytes) (accepts : list bytes)
| RUnparsed (fn what : bytes).
