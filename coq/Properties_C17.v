(* Properties_C17.v -- exported theorems for C17 (closing files releases every descriptor, HDF5 id and allocation).
   Only statements, each closed by [exact] of a lemma proved in RefcountProofs.v.

   Scope (the property is PARTIAL by nature): these theorems are about the bookkeeping that decides what the library
   holds -- ADF reference counts and link lists, the cgio handle table, the MLL file table -- with a ledger of open
   descriptors.  Heap reachability, HDF5 identifier lifetime and everything inside libhdf5 are runtime facts: they are
   TESTED by checks/C17.py (descriptor counts per operation, H5Fget_obj_count, LeakSanitizer, heap slope over cycles).

   Variant Old is the code as it is; Cur / MCur are the repairs proposed in notes/C17.md. *)
From Coq Require Import Arith List Bool Lia.
From CgnsV Require Import Refcount RefcountProofs.
Import ListNotations.

(* ---- the full-strength statement is [refcount_balanced] of Refcount.v: for ANY session of opens, link traversals and
   closes (valid or not, in any order, any link graph) after which the user has called close for every handle an open
   returned: every in_use is 0, the ledger of descriptors is empty, the cgio table is released.

   It is FALSE of the code as it is.  Witness: B = F1; A = F0 links to B; C = F2 links to A; A opened once, C twice, both C
   handles read through A, the first one on to B; close C#1 (closes B under A's feet), close A (reports
   ADF_FILE_NOT_OPENED after having dropped A's reference, so cgio keeps the slot), close C#2.  Every handle has been
   closed by its user; one cgio slot stays allocated for ever. *)
Theorem C17_refcount_refuted : ~ refcount_balanced Old.
Proof. exact refcount_balanced_refuted. Qed.
Print Assumptions C17_refcount_refuted.

Theorem C17_refcount_refuted_witness :
  exists s rs, run Old 1000 w1 io_init [] ops1 = Some (s, [], rs) /\
               nth 5 rs (ResWalk false) = ResClose ROk /\
               nth 6 rs (ResWalk false) = ResClose (RAdf ADF_FILE_NOT_OPENED) /\
               nopen s = 1 /\ iol s <> [] /\ ~ clean s.
Proof. exact refuted_shared_link. Qed.
Print Assumptions C17_refcount_refuted_witness.

(* the premature close itself: A (slot 0) in use and listing slot 2 in links[], slot 2 (B) already closed *)
Theorem C17_premature_close_refuted :
  exists s rs, run Old 1000 w1 io_init [] [OOpen 0 false; OOpen 2 false; OWalk 2 [0; 1]; OClose 2] = Some (s, [1], rs) /\
               in_use (slot_at (io_adf s) 0) = 1 /\ links (slot_at (io_adf s) 0) = [2] /\
               in_use (slot_at (io_adf s) 2) = 0 /\ ledger (io_adf s) = [0].
Proof. exact refuted_premature_close. Qed.
Print Assumptions C17_premature_close_refuted.

(* two files linking to each other: ADFI_close_file does not return, for EVERY amount of fuel (the C: stack overflow) *)
Theorem C17_close_cycle_refuted : forall fuel, run Old fuel w2 io_init [] ops2 = None.
Proof. exact refuted_cycle. Qed.
Print Assumptions C17_close_cycle_refuted.

(* ---- the repaired ADFI_close_file (links[] closed only when the file's own count reaches 0) -------------------- *)
(* ANY session, any link graph without a cycle between files, any fuel: if every handle has been closed, nothing is
   held: all in_use = 0, ledger empty, cgio table released *)
Theorem C17_refcount_balanced_fixed : forall w rank fuel ops s rs,
  acyclic w rank -> run Cur fuel w io_init [] ops = Some (s, [], rs) -> clean s.
Proof. exact balanced_fixed. Qed.
Print Assumptions C17_refcount_balanced_fixed.

(* ANY link graph (cycles included): from a state satisfying the reference-count invariant, ADFI_close_file drops
   exactly the caller's reference, reports NO_ERROR, and re-establishes the invariant *)
Theorem C17_close_drops_one_reference_fixed : forall w U fuel a i a' e,
  Inv w a (i :: U) [] -> adfi_close_file Cur fuel a i = Some (a', e) -> e = 0 /\ Inv w a' U [].
Proof. exact close_machine_ok. Qed.
Print Assumptions C17_close_drops_one_reference_fixed.

(* ... and it TERMINATES, for any link graph, within 3 * (link entries of the files in use) + 3 steps of its call stack
   (the code as it is does not: C17_close_cycle_refuted) *)
Theorem C17_close_terminates_fixed : forall w U fuel a i,
  Inv w a (i :: U) [] -> 3 * tlinks a + 3 <= fuel ->
  exists a', adfi_close_file Cur fuel a i = Some (a', 0) /\ Inv w a' U [].
Proof. exact close_machine_total. Qed.
Print Assumptions C17_close_terminates_fixed.

(* every cgio-level operation preserves the invariant (reference counts = handles + link entries; ledger = files in
   use; every live cgio slot is a handle the user still has to close) *)
Theorem C17_session_invariant_fixed : forall w fuel ops s pend s' pend' rs,
  IOInv w s pend -> run Cur fuel w s pend ops = Some (s', pend', rs) -> IOInv w s' pend'.
Proof. intros w fuel ops. exact (run_inv w fuel ops). Qed.
Print Assumptions C17_session_invariant_fixed.

(* what the repair does not cure: a cycle of links keeps both files open (honest limit of reference counting) *)
Theorem C17_fixed_cycle_leaks :
  exists s rs, run Cur 1000 w2 io_init [] ops2 = Some (s, [], rs) /\ ledger (io_adf s) = [1; 0] /\
               in_use (slot_at (io_adf s) 0) = 1 /\ in_use (slot_at (io_adf s) 1) = 1 /\ iol s = [].
Proof. exact fixA_cycle_leaks. Qed.
Print Assumptions C17_fixed_cycle_leaks.

(* ---- calls that return an error release what they had acquired (both variants, every state) -------------------- *)
Theorem C17_failing_open_releases : forall v fuel w s n rw s',
  cgio_open_file v fuel w s n rw = Some (s', None) -> ledger (io_adf s') = ledger (io_adf s).
Proof. exact failing_open_ledger. Qed.
Print Assumptions C17_failing_open_releases.

Theorem C17_failing_link_open_releases : forall v fuel w a n a',
  adf_database_open v fuel w a n true = Some (a', None) -> ledger a' = ledger a.
Proof. exact failing_link_open_ledger. Qed.
Print Assumptions C17_failing_link_open_releases.

(* ---- the MLL table (cg_open / cg_close): [handles_released] of Refcount.v -------------------------------------- *)
(* FALSE of the code as it is: a cg_open that fails after cgio_open_file succeeded returns without undoing anything *)
Theorem C17_handles_released_refuted : ~ handles_released MOld.
Proof. exact handles_released_refuted. Qed.
Print Assumptions C17_handles_released_refuted.

Theorem C17_handles_released_refuted_witness :
  exists m, mrun MOld mll_init [] [MOpen OLateFail] = (m, []) /\ n_open m = 1 /\ held m = [0] /\ files m = [Some 0].
Proof. exact mll_refuted_failed_open. Qed.
Print Assumptions C17_handles_released_refuted_witness.

Theorem C17_handles_released_fixed : handles_released MCur.
Proof. exact handles_released_fixed. Qed.
Print Assumptions C17_handles_released_fixed.

(* ---- non-vacuity ------------------------------------------------------------------------------------------------ *)
(* the witness world W1 is acyclic, and the repaired model closes the witness session cleanly *)
Example C17_w1_acyclic : acyclic w1 (fun n => match n with 2 => 2 | 0 => 1 | _ => 0 end).
Proof. exact w1_acyclic. Qed.

Example C17_fixed_w1_clean : exists s rs, run Cur 1000 w1 io_init [] ops1 = Some (s, [], rs) /\ cleanb s = true /\
  forallb (fun r => match r with ResClose ROk | ResOpen (Some _) | ResWalk true => true | _ => false end) rs = true.
Proof. exact fixA_w1_clean. Qed.

(* the invariant is satisfiable by a non-trivial state: three files open, two link entries, one shared target *)
Example C17_invariant_example :
  exists s rs, run Cur 1000 w1 io_init [] [OOpen 0 false; OOpen 2 false; OWalk 2 [0; 1]] = Some (s, [2; 1], rs) /\
               IOInv w1 s [2; 1] /\ in_use (slot_at (io_adf s) 0) = 2 /\ ledger (io_adf s) = [1; 2; 0].
Proof. exact invariant_example. Qed.

Example C17_mll_fixed_example :
  exists m, mrun MCur mll_init [] [MOpen OSuccess; MOpen OLateFail; MOpen OSuccess; MClose 1 true; MClose 3 true] = (m, []) /\
            n_open m = 0 /\ held m = [] /\ files m = [] /\ foffset m = 3.
Proof. exact mll_fixed_example. Qed.
