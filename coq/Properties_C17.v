(* Properties_C17.v -- exported theorems for C17 (closing files releases every descriptor, HDF5 id and allocation).
   Only statements, each closed by [exact] of a lemma proved in RefcountProofs.v.

   Scope (the property is PARTIAL by nature): these theorems are about the bookkeeping that decides what the library
   holds -- ADF reference counts and link lists, the cgio handle table, the MLL file table -- with a ledger of open
   descriptors.  Heap reachability, HDF5 identifier lifetime and everything inside libhdf5 are runtime facts: they are
   TESTED by checks/C17.py (descriptor counts per operation, H5Fget_obj_count, LeakSanitizer, heap slope over cycles).

   Variants.  Cur / MCur = the transcription of /repo AS IT IS NOW (ADFI_close_file since 909ac4d, cg_open since def473d);
   this is the variant checks/C17.py runs against the library after every operation.  Old / MOld = the transcription of
   the code BEFORE those commits; the theorems named ..._old_refuted are about that old transcription only and record,
   machine-checked, the defects the commits repaired (their witnesses are regression inputs in corpus/C17/). *)
From Coq Require Import Arith List Bool Lia.
From CgnsV Require Import Refcount RefcountProofs.
Import ListNotations.

(* ================================================================================ the current code (Cur / MCur) *)
(* The full-strength statement is [refcount_balanced v] of Refcount.v: for ANY session of opens, link traversals and
   closes (valid or not, in any order, any link graph) after which the user has called close for every handle an open
   returned: every in_use is 0, the ledger of descriptors is empty, the cgio table is released. *)

(* ANY session, any link graph WITHOUT A CYCLE BETWEEN FILES, any fuel: if every handle has been closed, nothing is held *)
Theorem C17_refcount_balanced : forall w rank fuel ops s rs,
  acyclic w rank -> run Cur fuel w io_init [] ops = Some (s, [], rs) -> clean s.
Proof. exact balanced_fixed. Qed.
Print Assumptions C17_refcount_balanced.

(* without the acyclicity hypothesis the statement is FALSE of the current code too (known finding
   fd:adf-link-cycle-keeps-files-open): two files that link to each other keep each other open -- a leak, where the
   old code overflowed the stack *)
Theorem C17_refcount_balanced_cyclic_refuted : ~ refcount_balanced Cur.
Proof. exact refcount_balanced_cur_refuted. Qed.
Print Assumptions C17_refcount_balanced_cyclic_refuted.

Theorem C17_link_cycle_leaks_witness :
  exists s rs, run Cur 1000 w2 io_init [] ops2 = Some (s, [], rs) /\ ledger (io_adf s) = [1; 0] /\
               in_use (slot_at (io_adf s) 0) = 1 /\ in_use (slot_at (io_adf s) 1) = 1 /\ iol s = [].
Proof. exact fixA_cycle_leaks. Qed.
Print Assumptions C17_link_cycle_leaks_witness.

(* ANY link graph (cycles included): from a state satisfying the reference-count invariant, ADFI_close_file drops
   exactly the caller's reference, reports NO_ERROR, and re-establishes the invariant ... *)
Theorem C17_close_drops_one_reference : forall w U fuel a i a' e,
  Inv w a (i :: U) [] -> adfi_close_file Cur fuel a i = Some (a', e) -> e = 0 /\ Inv w a' U [].
Proof. exact close_machine_ok. Qed.
Print Assumptions C17_close_drops_one_reference.

(* ... and it TERMINATES, for any link graph, within 3 * (link entries of the files in use) + 3 steps of its call stack *)
Theorem C17_close_terminates : forall w U fuel a i,
  Inv w a (i :: U) [] -> 3 * tlinks a + 3 <= fuel ->
  exists a', adfi_close_file Cur fuel a i = Some (a', 0) /\ Inv w a' U [].
Proof. exact close_machine_total. Qed.
Print Assumptions C17_close_terminates.

(* every cgio-level operation preserves the invariant (reference counts = handles + link entries; ledger = files in
   use; every live cgio slot is a handle the user still has to close) *)
Theorem C17_session_invariant : forall w fuel ops s pend s' pend' rs,
  IOInv w s pend -> run Cur fuel w s pend ops = Some (s', pend', rs) -> IOInv w s' pend'.
Proof. intros w fuel ops. exact (run_inv w fuel ops). Qed.
Print Assumptions C17_session_invariant.

(* calls that return an error release what they had acquired (both variants, every state) *)
Theorem C17_failing_open_releases : forall v fuel w s n rw s',
  cgio_open_file v fuel w s n rw = Some (s', None) -> ledger (io_adf s') = ledger (io_adf s).
Proof. exact failing_open_ledger. Qed.
Print Assumptions C17_failing_open_releases.

(* refused opens, every refusal branch the world can mark (missing; not a database; a directory; a database that
   ADF_Database_Open rejects after ADFI_open_file opened it -- the parameter of KBadHdr is the ADF error of the branch): from
   ANY state, both variants, the call returns an error, the cgio table is as it was, and the ADF layer holds exactly what it
   held: same ledger, same reference counts, every entry in use untouched *)
Theorem C17_refused_open_keeps_holdings : forall v fuel w s n rw s' r,
  refused (kind_of w n) = true -> cgio_open_file v fuel w s n rw = Some (s', r) ->
  r = None /\ same_holdings (io_adf s) (io_adf s') /\ iol s' = iol s /\ nopen s' = nopen s.
Proof. exact refused_open_keeps_holdings. Qed.
Print Assumptions C17_refused_open_keeps_holdings.

Theorem C17_failing_link_open_releases : forall v fuel w a n a',
  adf_database_open v fuel w a n true = Some (a', None) -> ledger a' = ledger a.
Proof. exact failing_link_open_ledger. Qed.
Print Assumptions C17_failing_link_open_releases.

(* a link to an EXISTING file whose stored PATH does not exist there (ADFI_chase_link: open the file, ADFI_link_add, then
   look the path up): the traversal fails, and the file it opened on the way is owned by links[] of the referencing file --
   the invariant still holds, so C17_refcount_balanced covers sessions with such failing lookups *)
Theorem C17_failing_link_lookup_owned : forall w a U fuel cur n a' r,
  Inv w a U [] -> chase Cur fuel w a cur n true = Some (a', r) -> r = None /\ Inv w a' U [].
Proof. exact failing_lookup_owned. Qed.
Print Assumptions C17_failing_link_lookup_owned.

(* the MLL table (cg_open / cg_close), [handles_released] of Refcount.v: after any session in which every successfully
   opened file has been closed the table is released and no cgio handle acquired by cg_open is still held *)
Theorem C17_handles_released : handles_released MCur.
Proof. exact handles_released_fixed. Qed.
Print Assumptions C17_handles_released.

(* ================================================================================ the OLD transcriptions (history) *)
(* ADFI_close_file before 909ac4d.  Witness: B = F1; A = F0 links to B; C = F2 links to A; A opened once, C twice, both C
   handles read through A, the first one on to B; close C#1 (closes B under A's feet), close A (reports
   ADF_FILE_NOT_OPENED after having dropped A's reference, so cgio keeps the slot), close C#2. *)
Theorem C17_refcount_old_refuted : ~ refcount_balanced Old.
Proof. exact refcount_balanced_refuted. Qed.
Print Assumptions C17_refcount_old_refuted.

Theorem C17_refcount_old_refuted_witness :
  exists s rs, run Old 1000 w1 io_init [] ops1 = Some (s, [], rs) /\
               nth 5 rs (ResWalk false) = ResClose ROk /\
               nth 6 rs (ResWalk false) = ResClose (RAdf ADF_FILE_NOT_OPENED) /\
               nopen s = 1 /\ iol s <> [] /\ ~ clean s.
Proof. exact refuted_shared_link. Qed.
Print Assumptions C17_refcount_old_refuted_witness.

(* the premature close itself: A (slot 0) in use and listing slot 2 in links[], slot 2 (B) already closed *)
Theorem C17_premature_close_old_refuted :
  exists s rs, run Old 1000 w1 io_init [] [OOpen 0 false; OOpen 2 false; OWalk 2 [(0, false); (1, false)]; OClose 2] = Some (s, [1], rs) /\
               in_use (slot_at (io_adf s) 0) = 1 /\ links (slot_at (io_adf s) 0) = [2] /\
               in_use (slot_at (io_adf s) 2) = 0 /\ ledger (io_adf s) = [0].
Proof. exact refuted_premature_close. Qed.
Print Assumptions C17_premature_close_old_refuted.

(* two files linking to each other: the old ADFI_close_file did not return, for EVERY amount of fuel (stack overflow) *)
Theorem C17_close_cycle_old_refuted : forall fuel, run Old fuel w2 io_init [] ops2 = None.
Proof. exact refuted_cycle. Qed.
Print Assumptions C17_close_cycle_old_refuted.

(* cg_open before def473d: a failure behind cgio_open_file returned without undoing anything *)
Theorem C17_handles_released_old_refuted : ~ handles_released MOld.
Proof. exact handles_released_refuted. Qed.
Print Assumptions C17_handles_released_old_refuted.

Theorem C17_handles_released_old_refuted_witness :
  exists m, mrun MOld mll_init [] [MOpen OLateFail] = (m, []) /\ n_open m = 1 /\ held m = [0] /\ files m = [Some 0].
Proof. exact mll_refuted_failed_open. Qed.
Print Assumptions C17_handles_released_old_refuted_witness.

(* HDF5: whatever identifiers of the file are still open -- groups from ordinary use, a dataset and a group from a read that failed
   half-way, identifiers of any kind abandoned by anyone -- the forced close of ADFH_Database_Close as written (every kind counted
   and listed by its own constant) closes all of them, so H5Fclose gives the descriptor back.  PARTIAL: libhdf5 is not modelled;
   the tie is the identifier census per kind before and after every close (checks/C17.py, "h5 census") *)
Theorem C17_forced_close_releases_every_kind : forall s,
  file_released (forced_close passes_cur s) = true /\ forall k, id_count (forced_close passes_cur s) k = 0.
Proof. exact forced_close_releases. Qed.
Print Assumptions C17_forced_close_releases_every_kind.

Theorem C17_h5_session_releases : forall ops, file_released (h5session ops) = true.
Proof. exact h5session_releases. Qed.
Print Assumptions C17_h5_session_releases.

(* ================================================================================ non-vacuity *)
(* the witness world W1 is acyclic, and the current model closes the witness session cleanly *)
Example C17_w1_acyclic : acyclic w1 (fun n => match n with 2 => 2 | 0 => 1 | _ => 0 end).
Proof. exact w1_acyclic. Qed.

Example C17_w1_clean : exists s rs, run Cur 1000 w1 io_init [] ops1 = Some (s, [], rs) /\ cleanb s = true /\
  forallb (fun r => match r with ResClose ROk | ResOpen (Some _) | ResWalk true => true | _ => false end) rs = true.
Proof. exact fixA_w1_clean. Qed.

(* the invariant is satisfiable by a non-trivial state: three files open, two link entries, one shared target *)
Example C17_invariant_example :
  exists s rs, run Cur 1000 w1 io_init [] [OOpen 0 false; OOpen 2 false; OWalk 2 [(0, false); (1, false)]] = Some (s, [2; 1], rs) /\
               IOInv w1 s [2; 1] /\ in_use (slot_at (io_adf s) 0) = 2 /\ ledger (io_adf s) = [1; 2; 0].
Proof. exact invariant_example. Qed.

Example C17_dangling_path_example :
  exists s rs, run Cur 1000 w3 io_init [] [OOpen 0 false; OWalk 1 [(1, true)]] = Some (s, [1], rs) /\
               rs = [ResOpen (Some 1); ResWalk false] /\ ledger (io_adf s) = [1; 0] /\ links (slot_at (io_adf s) 0) = [1] /\
  exists s' rs', run Cur 1000 w3 io_init [] [OOpen 0 false; OWalk 1 [(1, true)]; OClose 1] = Some (s', [], rs') /\ cleanb s' = true.
Proof. exact dangling_example. Qed.

Example C17_mll_example :
  exists m, mrun MCur mll_init [] [MOpen OSuccess; MOpen OLateFail; MOpen OSuccess; MClose 1 true; MClose 3 true] = (m, []) /\
            n_open m = 0 /\ held m = [] /\ files m = [] /\ foffset m = 3.
Proof. exact mll_fixed_example. Qed.

(* the pairing of "kind counted" and "kind listed" matters: with the dataset step counting datatypes, the dataset left by a failed
   read stays, and with it the file *)
Example C17_forced_close_pairing_example :
  let ps := [(IType, IType); (IType, IDset); (IAttr, IAttr); (IGroup, IGroup)] in
  forced_close ps (fold_left h5step [HNode; HFailedRead] no_ids) = mkids 0 1 0 0 /\
  file_released (forced_close ps (fold_left h5step [HNode; HFailedRead] no_ids)) = false.
Proof. exact forced_close_pairing_example. Qed.

Example C17_refused_open_example :
  exists s rs, run Cur 1000 w5 io_init [] [OOpen 1 false; OOpen 0 false; OOpen 1 true; OWalk 1 [(1, false)]; OOpen 1 false] = Some (s, [1], rs) /\
               rs = [ResOpen None; ResOpen (Some 1); ResOpen None; ResWalk false; ResOpen None] /\ ledger (io_adf s) = [0] /\
               nopen s = 1 /\ in_use (slot_at (io_adf s) 0) = 1 /\ in_use (slot_at (io_adf s) 1) = 0.
Proof. exact refused_example. Qed.
