(* RefcountProofs.v -- proofs about Refcount.v (property C17).

   Main results
     close_machine_ok     ADFI_close_file (variant FixA) from a state satisfying the reference-count invariant with one
                          reference to drop returns NO_ERROR and re-establishes the invariant without that reference,
                          whatever the link graph (whenever it does not run out of fuel)
     step_inv             every cgio-level operation of variant FixA preserves the invariant
     balanced_fixed       any session, acyclic link graph, every handle closed  ==>  nothing is held
     failing_open_ledger  a failing open leaves the ledger as it was (both variants)
     refuted_*            witnesses for the code as it is (variant Faithful)
     mll_*                the MLL table
*)
From Coq Require Import Arith List Bool Lia.
From CgnsV Require Import Fuel ListX Refcount.
Import ListNotations.

(* ============================================================================================ sums over indices *)
Definition sumf (f : nat -> nat) (n : nat) : nat := list_sum (map f (seq 0 n)).

Lemma sumf_S f n : sumf f (S n) = sumf f n + f n.
Proof.
  unfold sumf. rewrite seq_S, map_app, list_sum_app. simpl. lia.
Qed.

Lemma sumf_ext f g n : (forall i, i < n -> f i = g i) -> sumf f n = sumf g n.
Proof.
  induction n as [|n IH]; intros H; [reflexivity|].
  rewrite !sumf_S, IH, (H n) by (auto; intros; apply H; lia). reflexivity.
Qed.

Lemma sumf_zero f n : (forall i, i < n -> f i = 0) -> sumf f n = 0.
Proof.
  induction n as [|n IH]; intros H; [reflexivity|].
  rewrite sumf_S, IH, (H n) by (auto; intros; apply H; lia). reflexivity.
Qed.

Lemma sumf_tail f n m : n <= m -> (forall i, n <= i -> i < m -> f i = 0) -> sumf f m = sumf f n.
Proof.
  induction m as [|m IH]; intros Hle H.
  - assert (n = 0) by lia. subst. reflexivity.
  - destruct (Nat.eq_dec n (S m)) as [->|Hne]; [reflexivity|].
    rewrite sumf_S, IH, (H m) by (try lia; intros; apply H; lia). lia.
Qed.

Lemma sumf_change f g n i0 :
  i0 < n -> (forall i, i < n -> i <> i0 -> f i = g i) -> sumf f n + g i0 = sumf g n + f i0.
Proof.
  induction n as [|n IH]; intros Hi H; [lia|].
  rewrite !sumf_S. destruct (Nat.eq_dec i0 n) as [->|Hne].
  - rewrite (sumf_ext f g n) by (intros; apply H; lia). lia.
  - rewrite <- (H n) by lia. specialize (IH ltac:(lia) ltac:(intros; apply H; lia)). lia.
Qed.

Lemma sumf_pos f n : 0 < sumf f n -> exists i, i < n /\ 0 < f i.
Proof.
  induction n as [|n IH]; intros H; [cbv in H; lia|].
  rewrite sumf_S in H. destruct (Nat.eq_dec (f n) 0) as [E|E].
  - destruct IH as (i & Hi & Hp); [lia|]. exists i. split; [lia|auto].
  - exists n. split; lia.
Qed.

Lemma sumf_ge f n i : i < n -> f i <= sumf f n.
Proof.
  induction n as [|n IH]; intros H; [lia|].
  rewrite sumf_S. destruct (Nat.eq_dec i n) as [->|Hne]; [lia|]. specialize (IH ltac:(lia)). lia.
Qed.

(* ============================================================================================ counting *)
Fixpoint cnt (x : nat) (l : list nat) : nat :=
  match l with [] => 0 | y :: r => (if Nat.eqb y x then 1 else 0) + cnt x r end.

Lemma cnt_app x l1 l2 : cnt x (l1 ++ l2) = cnt x l1 + cnt x l2.
Proof. induction l1 as [|y r IH]; simpl; [reflexivity|]. rewrite IH. lia. Qed.

Lemma cnt_zero_notin x l : cnt x l = 0 <-> ~ In x l.
Proof.
  induction l as [|y r IH]; simpl; [tauto|].
  destruct (Nat.eqb_spec y x).
  - split; [lia|]. intros H. exfalso. apply H. auto.
  - rewrite Nat.add_0_l, IH. split; [intros H [?|?]; [congruence|tauto] | tauto].
Qed.

Lemma cnt_pos_in x l : 0 < cnt x l <-> In x l.
Proof.
  destruct (in_dec Nat.eq_dec x l) as [H|H].
  - split; auto. intros _. destruct (cnt x l) eqn:E; [|lia]. apply cnt_zero_notin in E. tauto.
  - split; [|tauto]. intros Hp. apply cnt_zero_notin in H. lia.
Qed.

Lemma cnt_rem1_same n l : cnt n (rem1 n l) = cnt n l - 1.
Proof.
  induction l as [|y r IH]; simpl; [reflexivity|].
  destruct (Nat.eqb_spec y n); simpl; [lia|].
  destruct (Nat.eqb_spec y n); [congruence|]. rewrite IH. lia.
Qed.

Lemma cnt_rem1_other m n l : m <> n -> cnt m (rem1 n l) = cnt m l.
Proof.
  intros Hne. induction l as [|y r IH]; simpl; [reflexivity|].
  destruct (Nat.eqb_spec y n); simpl.
  - subst. destruct (Nat.eqb_spec n m); [congruence|]. reflexivity.
  - rewrite IH. reflexivity.
Qed.

Lemma all_cnt_zero_nil l : (forall n, cnt n l = 0) -> l = [].
Proof.
  destruct l as [|y r]; [reflexivity|]. intros H. specialize (H y). simpl in H. rewrite Nat.eqb_refl in H. lia.
Qed.

Lemma cnt_skipn_split x k l : cnt x l = cnt x (firstn k l) + cnt x (skipn k l).
Proof. rewrite <- cnt_app, firstn_skipn. reflexivity. Qed.

Lemma skipn_nth_cons (l : list nat) k : k < length l -> skipn k l = nth k l 0 :: skipn (S k) l.
Proof.
  revert k. induction l as [|y r IH]; intros k H; simpl in *; [lia|].
  destruct k; [reflexivity|]. apply IH. lia.
Qed.

(* ============================================================================================ the table *)
Lemma slot_at_out a i : length (tab a) <= i -> slot_at a i = free_slot.
Proof. intros H. unfold slot_at. apply nth_overflow. exact H. Qed.

Lemma slot_at_upd_eq t led i s : i < length t -> slot_at (mkadf (upd t i s) led) i = s.
Proof. intros H. unfold slot_at. simpl. apply nth_upd_eq. exact H. Qed.

Lemma slot_at_upd_neq t led i j s : i <> j -> slot_at (mkadf (upd t i s) led) j = slot_at (mkadf t led) j.
Proof. intros H. unfold slot_at. simpl. apply nth_upd_neq. exact H. Qed.

Lemma upd_out {A} (l : list A) n v : length l <= n -> upd l n v = l.
Proof. revert n. induction l as [|h t IH]; intros [|n] H; simpl in *; try lia; auto. f_equal. apply IH. lia. Qed.

(* sum over the table of a per-slot quantity that is 0 for a free slot *)
Definition tsum (g : nat -> slot -> nat) (a : adf) : nat := sumf (fun i => g i (slot_at a i)) (length (tab a)).

Definition gfree (g : nat -> slot -> nat) : Prop := forall i, g i free_slot = 0.

Lemma tsum_bound g a N : gfree g -> length (tab a) <= N -> tsum g a = sumf (fun i => g i (slot_at a i)) N.
Proof.
  intros Hg Hle. unfold tsum. symmetry. apply sumf_tail; auto.
  intros i Hi _. rewrite slot_at_out by lia. apply Hg.
Qed.

Lemma tsum_same_slots g a b : gfree g -> (forall i, slot_at a i = slot_at b i) -> tsum g a = tsum g b.
Proof.
  intros Hg H. rewrite (tsum_bound g a (max (length (tab a)) (length (tab b)))), (tsum_bound g b (max (length (tab a)) (length (tab b)))) by (auto; lia).
  apply sumf_ext. intros i _. rewrite H. reflexivity.
Qed.

Lemma tsum_change g a b i0 : gfree g ->
  (forall i, i <> i0 -> slot_at a i = slot_at b i) ->
  tsum g a + g i0 (slot_at b i0) = tsum g b + g i0 (slot_at a i0).
Proof.
  intros Hg H.
  set (N := S (max i0 (max (length (tab a)) (length (tab b))))).
  rewrite (tsum_bound g a N), (tsum_bound g b N) by (auto; unfold N; lia).
  apply (sumf_change (fun i => g i (slot_at a i)) (fun i => g i (slot_at b i)) N i0); [unfold N; lia|].
  intros i _ Hne. rewrite H by auto. reflexivity.
Qed.

Lemma tsum_zero g a : (forall i, g i (slot_at a i) = 0) -> tsum g a = 0.
Proof. intros H. unfold tsum. apply sumf_zero. intros; apply H. Qed.

Lemma tsum_pos g a : 0 < tsum g a -> exists i, i < length (tab a) /\ 0 < g i (slot_at a i).
Proof. intros H. apply sumf_pos in H. exact H. Qed.

Lemma tsum_ge g a i : gfree g -> g i (slot_at a i) <= tsum g a.
Proof.
  intros Hg. destruct (Nat.lt_ge_cases i (length (tab a))) as [H|H].
  - unfold tsum. apply (sumf_ge (fun i => g i (slot_at a i))). exact H.
  - rewrite slot_at_out by lia. rewrite Hg. lia.
Qed.

Lemma tsum_ext g h a : (forall i, g i (slot_at a i) = h i (slot_at a i)) -> tsum g a = tsum h a.
Proof. intros H. unfold tsum. apply sumf_ext. intros; apply H. Qed.
